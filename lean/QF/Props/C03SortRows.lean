import Lean
import QF.Props.C03RowOrder
/-!
# `sortRows` of the spec returns the same list for two permutations of one list

The spec says "the same multiset of rows" as `sortRows a == sortRows b` (QF/Spec/Basic.lean: `sameRowMultiset`), where
`sortRows` sorts with `Array.qsort` of the Lean core library under the total order `rowCmp`. The core library proves
nothing about `Array.qsort`, and its two recursive helpers are private to their module. This file

* gives them names (`sortV`, `loopV`: the private constants `Array.qsort.sort`, `Array.qpartition.loop`, reached through
  their mangled names; `sortV_eq`, `loopV_eq`, `qsort_eq` are their defining equations as the core library states them),
* proves `Array.qsort` correct for every comparison `lt` that is asymmetric with a transitive "not less" (`LtOrd`):
  `qsort_perm` (a permutation of the input), `qsort_sorted` (no later element is less than an earlier one) — by the
  usual argument: the partition loop keeps "less than the pivot / not less than the pivot / not looked at" apart and, thanks
  to the median of three, always leaves an element that is not less than the pivot in front of it, so the branch that
  returns without sorting is never taken on two or more elements,
* proves that `rowCmp` is a linear order on rows (`rowCmp_tp`, `rowCmp_eq`),
* and concludes `sortRows_perm_invariant`: two sorted permutations of one list under a linear order are the same list;
  `sameRowMultiset_of_perm`.
-/
namespace QF.Props.C03SortRows
open QF QF.Props.C03RowOrder QF.Props.C03Compare
set_option linter.unusedSimpArgs false
set_option linter.unusedVariables false

/-! ## The private helpers of `Array.qsort`, named -/

section Names
open Lean Elab Term Meta

def privBase : Name := Name.mkNum `_private.Init.Data.Array.QSort.Basic 0

def privConst (suffix : Name) : TermElabM Expr := do
  let n := privBase ++ suffix
  let ci ← getConstInfo n
  let lvls ← mkFreshLevelMVars ci.levelParams.length
  return mkConst n lvls

elab "qs_sort%" : term => privConst `Array.qsort.sort
elab "qs_sort_eq%" : term => privConst `Array.qsort.sort.eq_def
elab "qs_loop%" : term => privConst `Array.qpartition.loop
elab "qs_loop_eq%" : term => privConst `Array.qpartition.loop.eq_def

end Names

section QSort
variable {α : Type}

/-- `Array.qsort.sort` of the core library -/
def sortV (lt : α → α → Bool) {n : Nat} (as : Vector α n) (lo hi : Nat) (w : lo ≤ hi) (hlo : lo < n) (hhi : hi < n) : Vector α n :=
  qs_sort% lt as lo hi w hlo hhi

/-- `Array.qpartition.loop` of the core library -/
def loopV {n : Nat} (lt : α → α → Bool) (lo hi : Nat) (hhi : hi < n) (pivot : α) (as : Vector α n) (i k : Nat)
    (ilo : lo ≤ i) (ik : i ≤ k) (w : k ≤ hi) : { m // lo ≤ m ∧ m ≤ hi } × Vector α n :=
  qs_loop% lt lo hi hhi pivot as i k ilo ik w

theorem loopV_eq {n : Nat} (lt : α → α → Bool) (lo hi : Nat) (hhi : hi < n) (pivot : α) (as : Vector α n) (i k : Nat)
    (ilo : lo ≤ i) (ik : i ≤ k) (w : k ≤ hi) :
    loopV lt lo hi hhi pivot as i k ilo ik w =
      if h : k < hi then
        if lt as[k] pivot = true then loopV lt lo hi hhi pivot (as.swap i k (by omega) (by omega)) (i + 1) (k + 1) (by omega) (by omega) (by omega)
        else loopV lt lo hi hhi pivot as i (k + 1) ilo (by omega) (by omega)
      else (⟨i, ilo, by omega⟩, as.swap i hi (by omega) hhi) := by
  unfold loopV
  exact qs_loop_eq% lt lo hi hhi pivot as i k ilo ik w

theorem sortV_eq (lt : α → α → Bool) {n : Nat} (as : Vector α n) (lo hi : Nat) (w : lo ≤ hi) (hlo : lo < n) (hhi : hi < n) :
    sortV lt as lo hi w hlo hhi =
      if h₁ : lo < hi then
        let p := Array.qpartition as lt lo hi w hlo hhi
        if h₂ : p.1.1 ≥ hi then p.2
        else sortV lt (sortV lt p.2 lo p.1.1 p.1.2.1 hlo (by omega)) (p.1.1 + 1) hi (by omega) (by omega) hhi
      else as := by
  unfold sortV
  rw [qs_sort_eq% lt as lo hi w hlo hhi]

/-- one step of `sort` on a range of at least two rows whose partition leaves the pivot in front of `hi` -/
theorem sortV_step (lt : α → α → Bool) {n : Nat} (as : Vector α n) (lo hi : Nat) (w : lo ≤ hi) (hlo : lo < n) (hhi : hi < n) (hlt : lo < hi)
    (m : Nat) (hm : lo ≤ m ∧ m ≤ hi) (bs : Vector α n) (hrun : Array.qpartition as lt lo hi w hlo hhi = (⟨m, hm⟩, bs)) (hmlt : m < hi) :
    sortV lt as lo hi w hlo hhi = sortV lt (sortV lt bs lo m hm.1 hlo (by omega)) (m + 1) hi (by omega) (by omega) hhi := by
  have key : ∀ (p : { m // lo ≤ m ∧ m ≤ hi } × Vector α n), p = (⟨m, hm⟩, bs) →
      (if h₂ : p.1.1 ≥ hi then p.2
        else sortV lt (sortV lt p.2 lo p.1.1 p.1.2.1 hlo (by omega)) (p.1.1 + 1) hi (by omega) (by omega) hhi) =
      sortV lt (sortV lt bs lo m hm.1 hlo (by omega)) (m + 1) hi (by omega) (by omega) hhi := by
    intro p hp
    subst hp
    have : ¬ m ≥ hi := by omega
    simp only [this, dite_false]
  rw [sortV_eq]
  simp only [hlt, dite_true]
  exact key _ hrun

theorem qsort_eq (as : Array α) (lt : α → α → Bool) :
    as.qsort lt = if h : as.size = 0 then as else (sortV lt as.toVector 0 (as.size - 1) (by omega) (by omega) (by omega)).toArray := by
  unfold Array.qsort sortV
  split
  · rfl
  · simp

/-- `if c then as.swap i j else as` -/
def cswap {n : Nat} (c : Bool) (as : Vector α n) (i j : Nat) (hin : i < n) (hjn : j < n) : Vector α n :=
  if c then as.swap i j hin hjn else as

/-- the three conditional swaps in front of the partition loop: the median of `as[lo]`, `as[mid]`, `as[hi]` goes to `hi` -/
def median3 (lt : α → α → Bool) {n : Nat} (as : Vector α n) (lo hi : Nat) (hlo : lo < n) (hhi : hi < n) (w : lo ≤ hi) : Vector α n :=
  let a1 := cswap (lt (as[(lo + hi) / 2]'(by omega)) as[lo]) as lo ((lo + hi) / 2) hlo (by omega)
  let a2 := cswap (lt a1[hi] a1[lo]) a1 lo hi hlo hhi
  cswap (lt (a2[(lo + hi) / 2]'(by omega)) a2[hi]) a2 ((lo + hi) / 2) hi (by omega) hhi

theorem qpartition_eq (lt : α → α → Bool) {n : Nat} (as : Vector α n) (lo hi : Nat) (w : lo ≤ hi) (hlo : lo < n) (hhi : hi < n) :
    Array.qpartition as lt lo hi w hlo hhi =
      loopV lt lo hi hhi (median3 lt as lo hi hlo hhi w)[hi] (median3 lt as lo hi hlo hhi w) lo lo (Nat.le_refl _) (Nat.le_refl _) w := by
  unfold Array.qpartition loopV median3 cswap
  rfl

end QSort

/-! ## Swaps inside a range -/

section Swaps
variable {α : Type} {n : Nat}

/-- `bs` arises from `as` by swaps of positions within `[lo, hi]` -/
inductive SwapsIn (lo hi : Nat) : Vector α n → Vector α n → Prop
  | refl (as : Vector α n) : SwapsIn lo hi as as
  | swap {as bs : Vector α n} (i j : Nat) (hin : i < n) (hjn : j < n) (h1 : lo ≤ i) (h2 : i ≤ hi) (h3 : lo ≤ j) (h4 : j ≤ hi) :
      SwapsIn lo hi as bs → SwapsIn lo hi as (bs.swap i j hin hjn)

theorem SwapsIn.trans {lo hi : Nat} {as bs cs : Vector α n} (h1 : SwapsIn lo hi as bs) (h2 : SwapsIn lo hi bs cs) : SwapsIn lo hi as cs := by
  induction h2 with
  | refl => exact h1
  | swap i j hin hjn a b c d _ ih => exact .swap i j hin hjn a b c d ih

theorem SwapsIn.mono {lo hi lo' hi' : Nat} (hl : lo' ≤ lo) (hh : hi ≤ hi') {as bs : Vector α n} (h : SwapsIn lo hi as bs) : SwapsIn lo' hi' as bs := by
  induction h with
  | refl => exact .refl _
  | swap i j hin hjn a b c d _ ih => exact .swap i j hin hjn (by omega) (by omega) (by omega) (by omega) ih

theorem SwapsIn.one {lo hi : Nat} (as : Vector α n) (i j : Nat) (hin : i < n) (hjn : j < n) (h1 : lo ≤ i) (h2 : i ≤ hi) (h3 : lo ≤ j) (h4 : j ≤ hi) :
    SwapsIn lo hi as (as.swap i j hin hjn) := .swap i j hin hjn h1 h2 h3 h4 (.refl as)

/-- a position outside the range holds what it held -/
theorem SwapsIn.outside {lo hi : Nat} {as bs : Vector α n} (h : SwapsIn lo hi as bs) (p : Nat) (hp : p < lo ∨ hi < p) : bs[p]? = as[p]? := by
  induction h with
  | refl => rfl
  | swap i j hin hjn a b c d _ ih =>
    rw [Vector.getElem?_swap]
    have e1 : ¬ j = p := by omega
    have e2 : ¬ i = p := by omega
    simp only [e1, e2, if_false]
    exact ih

/-- what holds for every element inside the range still does -/
theorem SwapsIn.forall_in {lo hi : Nat} {as bs : Vector α n} (h : SwapsIn lo hi as bs) (P : α → Prop)
    (hP : ∀ p x, lo ≤ p → p ≤ hi → as[p]? = some x → P x) : ∀ p x, lo ≤ p → p ≤ hi → bs[p]? = some x → P x := by
  induction h with
  | refl => exact hP
  | swap i j hin hjn a b c d _ ih =>
    intro p x h1 h2 hx
    rw [Vector.getElem?_swap] at hx
    by_cases e1 : j = p
    · simp only [e1, if_true, Option.some.injEq] at hx
      exact ih i x a b (by rw [Vector.getElem?_eq_getElem hin, hx])
    · by_cases e2 : i = p
      · simp only [e1, e2, if_false, if_true, Option.some.injEq] at hx
        exact ih j x c d (by rw [Vector.getElem?_eq_getElem hjn, hx])
      · simp only [e1, e2, if_false] at hx
        exact ih p x h1 h2 hx

theorem SwapsIn.perm {lo hi : Nat} {as bs : Vector α n} (h : SwapsIn lo hi as bs) : bs.toArray.toList.Perm as.toArray.toList := by
  induction h with
  | refl => exact List.Perm.refl _
  | swap i j hin hjn a b c d _ ih =>
    rw [Vector.toArray_swap]
    exact (Array.swap_perm _ _).toList.trans ih

end Swaps

/-! ## The partition loop -/

/-- a comparison that is asymmetric and whose "not less" is transitive (a strict weak order) -/
structure LtOrd {α : Type} (lt : α → α → Bool) : Prop where
  asymm : ∀ a b, lt a b = true → lt b a = false
  le_trans : ∀ a b c, lt b a = false → lt c b = false → lt c a = false

theorem LtOrd.irrefl {α : Type} {lt : α → α → Bool} (h : LtOrd lt) (a : α) : lt a a = false := by
  cases e : lt a a with
  | false => rfl
  | true => have := h.asymm a a e; rw [e] at this; cases this

section Partition
variable {α : Type} {n : Nat} (lt : α → α → Bool)

theorem swap_get (as : Vector α n) (i j p : Nat) (hin : i < n) (hjn : j < n) :
    (as.swap i j hin hjn)[p]? = if j = p then some as[i] else if i = p then some as[j] else as[p]? := Vector.getElem?_swap hin hjn

theorem get_some (as : Vector α n) (p : Nat) (hp : p < n) : as[p]? = some as[p] := Vector.getElem?_eq_getElem hp

theorem get_inj {as : Vector α n} {p : Nat} {x y : α} (h1 : as[p]? = some x) (h2 : as[p]? = some y) : x = y := by
  rw [h1] at h2; exact Option.some.inj h2

/-- the loop of `qpartition`: rows `[lo, i)` are less than the pivot, rows `[i, k)` are not, the pivot sits at `hi`, and some
row of `[i, hi)` is not less than the pivot. It ends with the pivot at `m < hi`, the rows before `m` less than it, the rows
after `m` (up to `hi`) not less. -/
theorem loop_spec (lo hi : Nat) (hhi : hi < n) (pivot : α) :
    ∀ (d : Nat) (as : Vector α n) (i k : Nat) (ilo : lo ≤ i) (ik : i ≤ k) (w : k ≤ hi), hi - k = d →
      as[hi]? = some pivot →
      (∀ p x, lo ≤ p → p < i → as[p]? = some x → lt x pivot = true) →
      (∀ p x, i ≤ p → p < k → as[p]? = some x → lt x pivot = false) →
      (∃ p x, i ≤ p ∧ p < hi ∧ as[p]? = some x ∧ lt x pivot = false) →
      ∃ (m : Nat) (bs : Vector α n) (hm : lo ≤ m ∧ m ≤ hi),
        loopV lt lo hi hhi pivot as i k ilo ik w = (⟨m, hm⟩, bs) ∧ SwapsIn lo hi as bs ∧ m < hi ∧ bs[m]? = some pivot ∧
        (∀ p x, lo ≤ p → p < m → bs[p]? = some x → lt x pivot = true) ∧
        (∀ p x, m < p → p ≤ hi → bs[p]? = some x → lt x pivot = false) := by
  intro d
  induction d with
  | zero =>
    intro as i k ilo ik w hd hpiv hleft hmid hwit
    have hk : k = hi := by omega
    subst hk
    obtain ⟨p, x, hp1, hp2, hpx, hpl⟩ := hwit
    have hik : i < k := by omega
    rw [loopV_eq]
    simp only [Nat.lt_irrefl, dite_false]
    have hpv : as[k] = pivot := by
      have := get_some as k hhi; rw [hpiv] at this; exact (Option.some.inj this).symm
    refine ⟨i, _, ⟨ilo, by omega⟩, rfl, SwapsIn.one as i k (by omega) hhi ilo (by omega) (by omega) (Nat.le_refl _), hik, ?_, ?_, ?_⟩
    · rw [swap_get]
      have e : ¬ k = i := by omega
      simp only [e, if_false, if_true, hpv]
    · intro q y h1 h2 hy
      rw [swap_get] at hy
      have e1 : ¬ k = q := by omega
      have e2 : ¬ i = q := by omega
      simp only [e1, e2, if_false] at hy
      exact hleft q y h1 h2 hy
    · intro q y h1 h2 hy
      rw [swap_get] at hy
      by_cases e1 : k = q
      · simp only [e1, if_true, Option.some.injEq] at hy
        exact hmid i y (Nat.le_refl _) hik (by rw [get_some as i (by omega), hy])
      · have e2 : ¬ i = q := by omega
        simp only [e1, e2, if_false] at hy
        exact hmid q y (by omega) (by omega) hy
  | succ d ih =>
    intro as i k ilo ik w hd hpiv hleft hmid hwit
    have hk : k < hi := by omega
    have hkn : k < n := by omega
    have hin : i < n := by omega
    rw [loopV_eq]
    simp only [hk, dite_true]
    by_cases hlt : lt as[k] pivot = true
    · simp only [hlt, if_true]
      have hinv := ih (as.swap i k hin hkn) (i + 1) (k + 1) (by omega) (by omega) (by omega) (by omega)
        (by
          rw [swap_get]
          have e1 : ¬ k = hi := by omega
          have e2 : ¬ i = hi := by omega
          simp only [e1, e2, if_false]; exact hpiv)
        (by
          intro q y h1 h2 hy
          rw [swap_get] at hy
          by_cases e1 : k = q
          · simp only [e1, if_true, Option.some.injEq] at hy
            -- then i = k = q
            have : i = k := by omega
            subst this
            rw [← hy]; exact hlt
          · by_cases e2 : i = q
            · simp only [e1, e2, if_false, if_true, Option.some.injEq] at hy
              rw [← hy]; exact hlt
            · simp only [e1, e2, if_false] at hy
              exact hleft q y h1 (by omega) hy)
        (by
          intro q y h1 h2 hy
          rw [swap_get] at hy
          by_cases e1 : k = q
          · simp only [e1, if_true, Option.some.injEq] at hy
            exact hmid i y (Nat.le_refl _) (by omega) (by rw [get_some as i hin, hy])
          · have e2 : ¬ i = q := by omega
            simp only [e1, e2, if_false] at hy
            exact hmid q y (by omega) (by omega) hy)
        (by
          obtain ⟨p, x, hp1, hp2, hpx, hpl⟩ := hwit
          by_cases e1 : p = k
          · subst e1
            have := get_inj hpx (get_some as p hkn)
            rw [this, hlt] at hpl; cases hpl
          · by_cases e2 : p = i
            · subst e2
              refine ⟨k, x, by omega, hk, ?_, hpl⟩
              rw [swap_get]
              simp only [if_true]
              rw [← get_some as p hin]; exact hpx
            · refine ⟨p, x, by omega, hp2, ?_, hpl⟩
              rw [swap_get]
              have f1 : ¬ k = p := fun e => e1 e.symm
              have f2 : ¬ i = p := fun e => e2 e.symm
              simp only [f1, f2, if_false]; exact hpx)
      obtain ⟨m, bs, hm, hrun, hsw, hmlt, hbm, hl, hr⟩ := hinv
      exact ⟨m, bs, hm, hrun, (SwapsIn.one as i k hin hkn ilo (by omega) (by omega) (by omega)).trans hsw, hmlt, hbm, hl, hr⟩
    · have hlt' : lt as[k] pivot = false := by simpa using hlt
      simp only [hlt, if_false]
      have hinv := ih as i (k + 1) ilo (by omega) (by omega) (by omega) hpiv hleft
        (by
          intro q y h1 h2 hy
          by_cases e : q = k
          · subst e
            have := get_inj hy (get_some as q hkn)
            rw [this]; exact hlt'
          · exact hmid q y h1 (by omega) hy)
        hwit
      exact hinv

variable {lt}

theorem median_last (h : LtOrd lt) (as : Vector α n) (mid hi : Nat) (hmid : mid < n) (hhi : hi < n) (hne : mid ≠ hi) :
    lt (cswap (lt as[mid] as[hi]) as mid hi hmid hhi)[mid] (cswap (lt as[mid] as[hi]) as mid hi hmid hhi)[hi] = false := by
  unfold cswap
  by_cases c : lt as[mid] as[hi] = true
  · simp only [c, if_true, Vector.getElem_swap, hne, Ne.symm hne, if_false]
    exact h.asymm _ _ c
  · simp only [c, if_false]
    simpa using c

theorem swapsIn_cswap (c : Bool) (as : Vector α n) (lo hi i j : Nat) (hin : i < n) (hjn : j < n) (h1 : lo ≤ i) (h2 : i ≤ hi) (h3 : lo ≤ j) (h4 : j ≤ hi) :
    SwapsIn lo hi as (cswap c as i j hin hjn) := by
  unfold cswap
  cases c
  · exact .refl _
  · exact SwapsIn.one as i j hin hjn h1 h2 h3 h4

theorem median3_swaps (as : Vector α n) (lo hi : Nat) (hlo : lo < n) (hhi : hi < n) (w : lo ≤ hi) :
    SwapsIn lo hi as (median3 lt as lo hi hlo hhi w) := by
  unfold median3
  exact ((swapsIn_cswap _ as lo hi lo ((lo + hi) / 2) hlo (by omega) (Nat.le_refl _) w (by omega) (by omega)).trans
    (swapsIn_cswap _ _ lo hi lo hi hlo hhi (Nat.le_refl _) w w (Nat.le_refl _))).trans
    (swapsIn_cswap _ _ lo hi ((lo + hi) / 2) hi (by omega) hhi (by omega) (by omega) w (Nat.le_refl _))

theorem median3_witness (h : LtOrd lt) (as : Vector α n) (lo hi : Nat) (hlo : lo < n) (hhi : hi < n) (w : lo < hi) :
    lt ((median3 lt as lo hi hlo hhi (Nat.le_of_lt w))[(lo + hi) / 2]'(by omega)) (median3 lt as lo hi hlo hhi (Nat.le_of_lt w))[hi] = false := by
  unfold median3
  exact median_last h _ ((lo + hi) / 2) hi (by omega) hhi (by omega)

/-- `qpartition` on a range of at least two rows: the pivot ends at `m < hi`, the rows before it are less, the rows after it
(up to `hi`) are not, everything by swaps inside the range -/
theorem partition_spec (h : LtOrd lt) (as : Vector α n) (lo hi : Nat) (w : lo < hi) (hlo : lo < n) (hhi : hi < n) :
    ∃ (m : Nat) (bs : Vector α n) (hm : lo ≤ m ∧ m ≤ hi) (pivot : α),
      Array.qpartition as lt lo hi (Nat.le_of_lt w) hlo hhi = (⟨m, hm⟩, bs) ∧ SwapsIn lo hi as bs ∧ m < hi ∧ bs[m]? = some pivot ∧
      (∀ p x, lo ≤ p → p < m → bs[p]? = some x → lt x pivot = true) ∧
      (∀ p x, m < p → p ≤ hi → bs[p]? = some x → lt x pivot = false) := by
  rw [qpartition_eq]
  have hs := loop_spec lt lo hi hhi (median3 lt as lo hi hlo hhi (Nat.le_of_lt w))[hi] (hi - lo)
    (median3 lt as lo hi hlo hhi (Nat.le_of_lt w)) lo lo (Nat.le_refl _) (Nat.le_refl _) (Nat.le_of_lt w) rfl
    (get_some _ hi hhi) (fun p x h1 h2 _ => by omega) (fun p x h1 h2 _ => by omega)
    ⟨(lo + hi) / 2, _, by omega, by omega, get_some _ _ (by omega), median3_witness h as lo hi hlo hhi w⟩
  obtain ⟨m, bs, hm, hrun, hsw, hmlt, hbm, hl, hr⟩ := hs
  exact ⟨m, bs, hm, _, hrun, (median3_swaps as lo hi hlo hhi (Nat.le_of_lt w)).trans hsw, hmlt, hbm, hl, hr⟩

/-- no row of `[lo, hi]` is less than an earlier row of `[lo, hi]` -/
def SortedOn (lt : α → α → Bool) (lo hi : Nat) (v : Vector α n) : Prop :=
  ∀ p q x y, lo ≤ p → p < q → q ≤ hi → v[p]? = some x → v[q]? = some y → lt y x = false

/-- **`Array.qsort.sort` of the core library sorts its range**, by swaps inside the range -/
theorem sort_spec (h : LtOrd lt) : ∀ (d : Nat) (as : Vector α n) (lo hi : Nat) (w : lo ≤ hi) (hlo : lo < n) (hhi : hi < n), hi - lo ≤ d →
    SwapsIn lo hi as (sortV lt as lo hi w hlo hhi) ∧ SortedOn lt lo hi (sortV lt as lo hi w hlo hhi) := by
  intro d
  induction d with
  | zero =>
    intro as lo hi w hlo hhi hd
    rw [sortV_eq]
    have : ¬ lo < hi := by omega
    simp only [this, dite_false]
    exact ⟨.refl _, fun p q x y h1 h2 h3 _ _ => by omega⟩
  | succ d ih =>
    intro as lo hi w hlo hhi hd
    by_cases hlt : lo < hi
    · obtain ⟨m, bs, hm, pivot, hrun, hsw, hmlt, hbm, hl, hr⟩ := partition_spec h as lo hi hlt hlo hhi
      rw [sortV_step lt as lo hi w hlo hhi hlt m hm bs hrun hmlt]
      -- the two recursive calls
      obtain ⟨sL, oL⟩ := ih bs lo m hm.1 hlo (by omega) (by omega)
      generalize hL : sortV lt bs lo m hm.1 hlo (by omega) = L at sL oL ⊢
      obtain ⟨sR, oR⟩ := ih L (m + 1) hi (by omega) (by omega) hhi (by omega)
      generalize hR : sortV lt L (m + 1) hi (by omega) (by omega) hhi = R at sR oR ⊢
      refine ⟨hsw.trans ((sL.mono (Nat.le_refl _) (by omega)).trans (sR.mono (by omega) (Nat.le_refl _))), ?_⟩
      -- every row of L in [lo, m] is not greater than the pivot, every row of R in [m+1, hi] is not less
      have hA : ∀ p x, lo ≤ p → p ≤ m → L[p]? = some x → lt pivot x = false := by
        apply sL.forall_in (fun x => lt pivot x = false)
        intro p x h1 h2 hx
        by_cases e : p = m
        · subst e
          rw [get_inj hx hbm]; exact h.irrefl pivot
        · exact h.asymm _ _ (hl p x h1 (by omega) hx)
      have hB : ∀ q y, m + 1 ≤ q → q ≤ hi → R[q]? = some y → lt y pivot = false := by
        apply sR.forall_in (fun y => lt y pivot = false)
        intro q y h1 h2 hy
        rw [sL.outside q (Or.inr (by omega))] at hy
        exact hr q y (by omega) h2 hy
      intro p q x y h1 h2 h3 hx hy
      by_cases hq : q ≤ m
      · -- both in the left part, which R leaves alone
        rw [sR.outside p (Or.inl (by omega))] at hx
        rw [sR.outside q (Or.inl (by omega))] at hy
        exact oL p q x y h1 h2 hq hx hy
      · by_cases hp : m + 1 ≤ p
        · exact oR p q x y hp h2 h3 hx hy
        · rw [sR.outside p (Or.inl (by omega))] at hx
          exact h.le_trans x pivot y (hA p x h1 (by omega) hx) (hB q y (by omega) h3 hy)
    · rw [sortV_eq]
      simp only [hlt, dite_false]
      exact ⟨.refl _, fun p q x y h1 h2 h3 _ _ => by omega⟩

end Partition

/-! ## `Array.qsort` -/

section Top
variable {α : Type} {lt : α → α → Bool}

/-- `Array.qsort` returns a permutation of its input -/
theorem qsort_perm (h : LtOrd lt) (as : Array α) : (as.qsort lt).toList.Perm as.toList := by
  rw [qsort_eq]
  by_cases h0 : as.size = 0
  · simp [h0]
  · simp only [h0, dite_false]
    exact (sort_spec h _ as.toVector 0 (as.size - 1) (by omega) (by omega) (by omega) (Nat.le_refl _)).1.perm

/-- in what `Array.qsort` returns no later element is less than an earlier one -/
theorem qsort_sorted (h : LtOrd lt) (as : Array α) : (as.qsort lt).toList.Pairwise (fun x y => lt y x = false) := by
  rw [qsort_eq]
  by_cases h0 : as.size = 0
  · have : as = #[] := Array.eq_empty_of_size_eq_zero h0
    subst this
    simp
  · simp only [h0, dite_false]
    have hs := (sort_spec h _ as.toVector 0 (as.size - 1) (by omega) (by omega) (by omega) (Nat.le_refl _)).2
    generalize sortV lt as.toVector 0 (as.size - 1) (by omega) (by omega) (by omega) = v at hs
    rw [List.pairwise_iff_getElem]
    intro i j hi hj hij
    have hsz : v.toArray.toList.length = as.size := by simp
    rw [hsz] at hi hj
    apply hs i j _ _ (Nat.zero_le _) hij (by omega)
    · rw [get_some v i hi]; simp
    · rw [get_some v j hj]; simp

/-- **two permutations of one list are sorted by `Array.qsort` to the same list**, for a linear order: a strict weak order
whose incomparable elements are equal -/
theorem qsort_perm_invariant (h : LtOrd lt) (hanti : ∀ a b, lt a b = false → lt b a = false → a = b) (a b : List α) (hp : a.Perm b) :
    (a.toArray.qsort lt).toList = (b.toArray.qsort lt).toList := by
  apply List.Perm.eq_of_pairwise (le := fun x y => lt y x = false)
  · intro x y _ _ h1 h2
    exact hanti x y h2 h1
  · exact qsort_sorted h _
  · exact qsort_sorted h _
  · exact (qsort_perm h a.toArray).trans (hp.trans (qsort_perm h b.toArray).symm)

end Top

/-! ## `rowCmp` is a linear order on rows -/

/-- the ranks of a cell under `Cell.totalCmp`: the constructor, the number, null-ness of a string, the string -/
def tagRank (x : Cell) : Int := (x.tag : Int)
def valRank : Cell → Int
  | .int v => v
  | .float b => (b.toNat : Int)
  | .bool b => (b.toNat : Int)
  | .str _ => 0
def someRank : Cell → Int
  | .str (some _) => 1
  | _ => 0
def bytesRank : Cell → Bytes
  | .str (some s) => s
  | _ => []

def cellComps : List (Cell → Cell → Ordering) :=
  [fun a b => compare (tagRank a) (tagRank b), fun a b => compare (valRank a) (valRank b),
   fun a b => compare (someRank a) (someRank b), fun a b => bytesCmp (bytesRank a) (bytesRank b)]

theorem c00 : compare (0 : Int) 0 = .eq := by decide
theorem c11 : compare (1 : Int) 1 = .eq := by decide
theorem c22 : compare (2 : Int) 2 = .eq := by decide
theorem c33 : compare (3 : Int) 3 = .eq := by decide

theorem totalCmp_eq_lex (a b : Cell) : a.totalCmp b = lexCmp cellComps a b := by
  rcases a with x | x | x | (_ | x) <;> rcases b with y | y | y | (_ | y) <;>
    simp [Cell.totalCmp, cellComps, lexCmp, tagRank, valRank, someRank, bytesRank, Cell.tag, c00, c11, c22, c33, c01, c10, cast_cmp,
      collapse, bytesCmp_nil, int_cmp_self] <;> first | rfl | decide | (cases compare x y <;> rfl) | (cases compare x.toNat y.toNat <;> rfl)

theorem totalCmp_tp : TP Cell.totalCmp := by
  have h : TP (lexCmp cellComps) := by
    apply lexCmp_tp
    intro c hc
    simp only [cellComps, List.mem_cons, List.mem_nil_iff, or_false] at hc
    rcases hc with rfl | rfl | rfl | rfl
    · exact tp_int _
    · exact tp_int _
    · exact tp_int _
    · exact tp_bytes _
  have e : Cell.totalCmp = lexCmp cellComps := by funext a b; exact totalCmp_eq_lex a b
  rw [e]; exact h

theorem bytesCmp_eq : ∀ a b : Bytes, bytesCmp a b = .eq → a = b
  | [], [], _ => rfl
  | [], _ :: _, h => by simp [bytesCmp] at h
  | _ :: _, [], h => by simp [bytesCmp] at h
  | x :: xs, y :: ys, h => by
    simp only [bytesCmp, gt_iff_lt] at h
    by_cases h1 : x < y
    · simp [h1] at h
    · by_cases h2 : y < x
      · simp [h1, h2] at h
      · simp only [h1, h2, if_false] at h
        have : x = y := by rw [u8_lt_iff] at h1 h2; rw [u8_eq_iff]; omega
        rw [this, bytesCmp_eq xs ys h]

theorem int_cmp_eq (a b : Int) (h : compare a b = .eq) : a = b := by
  rcases int_cmp a b with ⟨_, _, h3⟩ | ⟨h1, h2, _⟩ | ⟨_, _, h3⟩
  · rw [h3] at h; cases h
  · omega
  · rw [h3] at h; cases h

theorem nat_cmp_eq (a b : Nat) (h : compare a b = .eq) : a = b := by
  rcases nat_cmp a b with ⟨_, _, h3⟩ | ⟨h1, h2, _⟩ | ⟨_, _, h3⟩
  · rw [h3] at h; cases h
  · omega
  · rw [h3] at h; cases h

theorem totalCmp_eq (a b : Cell) (h : a.totalCmp b = .eq) : a = b := by
  rcases a with x | x | x | (_ | x) <;> rcases b with y | y | y | (_ | y) <;> simp only [Cell.totalCmp, Cell.tag] at h <;>
    first
    | (exact absurd h (by decide))
    | rfl
    | skip
  · rw [int_cmp_eq x y h]
  · have := nat_cmp_eq _ _ h
    rw [UInt64.toNat_inj.mp this]
  · have := nat_cmp_eq _ _ h
    cases x <;> cases y <;> first | rfl | (simp at this)
  · rw [bytesCmp_eq x y h]

theorem rowCmp_swap : ∀ a b : List Cell, rowCmp b a = (rowCmp a b).swap
  | [], [] => rfl
  | [], _ :: _ => rfl
  | _ :: _, [] => rfl
  | x :: xs, y :: ys => by
    simp only [rowCmp, totalCmp_tp.swap x y]
    cases x.totalCmp y with
    | lt => rfl
    | gt => rfl
    | eq => exact rowCmp_swap xs ys

theorem rowCmp_cons_le (x y : Cell) (xs ys : List Cell) :
    rowCmp (x :: xs) (y :: ys) ≠ .gt ↔ (x.totalCmp y = .lt ∨ (x.totalCmp y = .eq ∧ rowCmp xs ys ≠ .gt)) := by
  simp only [rowCmp]
  cases x.totalCmp y <;> simp

theorem rowCmp_trans : ∀ a b c : List Cell, rowCmp a b ≠ .gt → rowCmp b c ≠ .gt → rowCmp a c ≠ .gt
  | [], _, [] => by intros; simp [rowCmp]
  | [], _, _ :: _ => by intros; simp [rowCmp]
  | _ :: _, [], _ => by intro h; simp [rowCmp] at h
  | _ :: _, _ :: _, [] => by intro _ h; simp [rowCmp] at h
  | x :: xs, y :: ys, z :: zs => by
    have hc := totalCmp_tp
    rw [rowCmp_cons_le, rowCmp_cons_le, rowCmp_cons_le]
    rintro (h1 | ⟨h1, h1'⟩) (h2 | ⟨h2, h2'⟩)
    · left
      have hle : x.totalCmp z ≠ .gt := hc.trans x y z (by rw [h1]; simp) (by rw [h2]; simp)
      cases had : x.totalCmp z with
      | lt => rfl
      | gt => exact absurd had hle
      | eq =>
        have hda : z.totalCmp x = .eq := by rw [hc.swap x z, had]; rfl
        have : z.totalCmp y ≠ .gt := hc.trans z x y (by rw [hda]; simp) (by rw [h1]; simp)
        rw [hc.swap y z, h2] at this
        exact absurd rfl this
    · left; rw [← hc.eq_congr_right h2 x]; exact h1
    · left; rw [hc.eq_congr h1 z]; exact h2
    · right
      exact ⟨by rw [hc.eq_congr h1 z]; exact h2, rowCmp_trans xs ys zs h1' h2'⟩

theorem rowCmp_tp : TP rowCmp := ⟨rowCmp_swap, rowCmp_trans⟩

theorem rowCmp_eq : ∀ a b : List Cell, rowCmp a b = .eq → a = b
  | [], [], _ => rfl
  | [], _ :: _, h => by simp [rowCmp] at h
  | _ :: _, [], h => by simp [rowCmp] at h
  | x :: xs, y :: ys, h => by
    simp only [rowCmp] at h
    cases hc : x.totalCmp y with
    | lt => rw [hc] at h; cases h
    | gt => rw [hc] at h; cases h
    | eq =>
      rw [hc] at h
      rw [totalCmp_eq x y hc, rowCmp_eq xs ys h]

/-! ## `sortRows` -/

theorem rowLt_ord : LtOrd (fun a b : List Cell => rowCmp a b == .lt) :=
  ⟨fun a b h => tp_lt_asymm rowCmp_tp a b h, fun a b c h1 h2 => tp_lt_le_trans rowCmp_tp a b c h1 h2⟩

/-- **`sortRows` returns the same list for two permutations of one list.** -/
theorem sortRows_perm_invariant (a b : List (List Cell)) (hp : a.Perm b) : sortRows a = sortRows b := by
  unfold sortRows
  apply qsort_perm_invariant rowLt_ord _ a b hp
  intro x y h1 h2
  apply rowCmp_eq
  have s := rowCmp_tp.swap x y
  revert h1 h2 s
  cases rowCmp x y <;> cases rowCmp y x <;> simp [Ordering.swap]

/-- "the same multiset of rows" of the spec holds for two lists of rows that are permutations of each other -/
theorem sameRowMultiset_of_perm (a b : List (List Cell)) (hp : a.Perm b) : sameRowMultiset a b = true := by
  unfold sameRowMultiset
  rw [sortRows_perm_invariant a b hp]
  exact beq_self_eq_true _

/-- the hypothesis of `sortRows_perm_invariant` / `sameRowMultiset_of_perm` on a concrete pair: three rows (an int and a
nullable string each) in two orders -/
example : [[Cell.int 2, .str none], [.int 1, .str (some [120])], [.int 2, .str (some [97])]].Perm
    [[Cell.int 1, .str (some [120])], [.int 2, .str (some [97])], [.int 2, .str none]] :=
  (List.Perm.swap _ _ _).trans (List.Perm.cons _ (List.Perm.swap _ _ _))

/-- `rowCmp` on them: by the int, then null before any string -/
example : rowCmp [Cell.int 1, .str (some [120])] [.int 2, .str none] = .lt ∧ rowCmp [Cell.int 2, .str none] [.int 2, .str (some [97])] = .lt := by
  decide

end QF.Props.C03SortRows

#print axioms QF.Props.C03SortRows.sortV_eq
#print axioms QF.Props.C03SortRows.qsort_perm
#print axioms QF.Props.C03SortRows.qsort_sorted
#print axioms QF.Props.C03SortRows.qsort_perm_invariant
#print axioms QF.Props.C03SortRows.rowCmp_tp
#print axioms QF.Props.C03SortRows.sortRows_perm_invariant
#print axioms QF.Props.C03SortRows.sameRowMultiset_of_perm
