import QF.Props.C10Guards
import QF.Props.C08Guards
import QF.Props.C06EndToEnd
import QF.Props.C02ClausesLink
import QF.Props.C07EvalGen
import QF.Props.C07Decode
import QF.Props.C04GlueGen
import QF.Props.C08NewIff
/-!
# C10 end to end — invalid use yields Err, never a panic; a failed receiver comes back unchanged (one table)

`gen_invalid_use_yields_err : InvalidUse` collects, per public operation (the operations of `Gen.guardAst` —
C08Guards.gen_guards_complete — and of `Gen.guardAst2` — C10Guards.gen_guards2_complete) and per invalid-argument class of
C10's text, what the code REGENERATED from today's source returns. Every field is a statement about regenerated code; an
interpreter result `some …` is "no panic, nothing untranslated" (the interpreters return `none` for a Go panic).

| class of invalid use                         | operations (field)                                                                  |
|----------------------------------------------|-------------------------------------------------------------------------------------|
| unknown column                               | Select, Drop, Copy src (`project`) · Sort, Distinct, GroupBy, Aggregate, ToCSV       |
|                                              | (`keyed`, `groupby`) · Apply / FilteredApply sources (`apply`, `applyClasses`,      |
|                                              | `fapply`) · Filter leaf (`filter`) · Eval reference (`evalUnknown`) · New order      |
|                                              | (`new`)                                                                             |
| illegal column name                          | Copy dst (`project`) · Apply / WithRowNums destination (`applyClasses`, `rownums`)  |
|                                              | · New (`new`)                                                                       |
| bad slice bounds                             | Slice (`project`)                                                                   |
| unsupported comparator / function / arg type | Filter (`filter`: `wellFormed` = constructOk ∧ typed) · Apply function value         |
|                                              | (`applyClasses`) · Aggregate function (`keyed`: `aggsLate`) · New data type (`new`) |
| empty And / Or                               | Filter (`filter`, `filterEmpty`)                                                    |
| malformed expression                         | Eval decoder (`evalMalformed`)                                                      |
| mismatched column types                      | Apply two-source function (`applyClasses`) · Filter column-column (`filter`)         |
| failed receiver (sticky, no callback)        | every operation (`sticky`, `stickyProject`, `stickyApply`, `stickyFilter`,          |
|                                              | `stickyEval`)                                                                       |

Per-family theorems cited: C08Guards.gen_guards_reject_iff / gen_guards_sticky; C10Guards.gen_reject_semantics /
gen_sticky_all / gen_apply_unknown_source; C04GlueGen.gen_groupby_err_iff; C06EndToEnd.gen_apply_end_to_end /
gen_fapply_end_to_end / gen_rownums_end_to_end (over C06LoopsGen, C06FApplyGen); C02ClausesGen.gen_clause_filter_semantics
with C02Mirror.filter_err / mirror_wellTyped; C07Decode.gen_expr_decode_semantics; C07EvalGen.gen_eval_guard /
gen_eval_error_propagates; C08NewIff.gen_new_iff_partial (newS_err_iff).

NOT in the table (left open): the writers' and readers' I/O errors are C15 (`C15EndToEnd.gen_io_failures_reported`);
`Equals` returns a verdict, not a frame (C09EndToEnd); the later error returns of `Aggregate` inside its loop are stated on
the spec side only (`aggsLate`, `C10Sticky.groupAggS_err_iff`); a malformed `like` pattern is C18Matcher.
`New` is `_partial` exactly as `C08NewIff.gen_new_iff_partial` is.
-/
set_option linter.unusedVariables false
namespace QF.Props.C10EndToEnd
open QF
open QF.Props.C08Guards (genGuards sliceReq namesReq copyReq)
open QF.Props.C10Guards (genGuards2 sortReq keysReq aggReq csvReq withSub toInstr helperReq)
open QF.Props.C06FApplyGen (Reps PFr applyX InScope resFr FilterOK physEnv)
open QF.Props.C06EndToEnd (PhysOK logical allRows)

/-- a regenerated frame operation returned a frame with `Err` set, read through the index `ix` -/
def isErr (ix : List Nat) (X : PFr) : Prop := resFr ix X = .err

theorem resFr_err_iff (ix : List Nat) (X : PFr) : resFr ix X = .err ↔ X.err = true := by
  unfold resFr; cases X.err <;> simp

/-- **The table.** -/
structure InvalidUse : Prop where
  /-- Slice / Select / Drop / Copy: the regenerated guard chain has an outcome for EVERY request, and it is `err` exactly
  for bad bounds / an unknown column / an unknown source or an illegal destination name -/
  project : ∀ f : LFrame,
    (∀ a b, genGuards "Slice" (sliceReq f a b) = some .err ↔ a < 0 ∨ a > b ∨ b > f.n) ∧
    (∀ names, genGuards "Select" (namesReq f names) = some .err ↔ ∃ n ∈ names, f.has n = false) ∧
    (∀ names, genGuards "Drop" (namesReq f names) = some .err ↔ ∃ n ∈ names, f.has n = false) ∧
    (∀ dst src, genGuards "Copy" (copyReq f dst src) = some .err ↔
      f.has src = false ∨ (dst ≠ src ∧ legalName dst = false))
  /-- Sort / Distinct / GroupBy + Aggregate / ToCSV: rejected exactly when a named column is unknown (Aggregate also, later:
  result name taken, function not defined for the column type — `aggsLate`) -/
  keyed : ∀ f : LFrame,
    (∀ os, genGuards2 "Sort" (sortReq f os) = some .err ↔ sortKeys f os = none) ∧
    (∀ keys, genGuards2 "Distinct" (keysReq f keys) = some .err ↔ C10Sticky.distinctKeys f keys = none) ∧
    (∀ gbNull keys aggs, groupAggS f gbNull keys aggs = .err ↔
      genGuards2 "GroupBy" (keysReq f keys) = some .err ∨ genGuards2 "Aggregate" (aggReq f aggs) = some .err ∨
      C10Sticky.aggsLate f keys aggs = true) ∧
    (∀ cols, genGuards2 "ToCSV" (csvReq f cols) = some .err ↔ csvColumns f cols = none)
  /-- GroupBy, the whole regenerated function for every meaning of its callees: an error exactly on a failed frame or an
  unknown column, and then nothing is carried -/
  groupby : ∀ {κ σ : Type} (P : GG.Prims κ σ) (F : GG.Frame) (C : GG.Cfg),
    (F.err = true ∨ ∃ n ∈ C.columns, F.find? n = none) ↔ C04GlueGen.genGroupBy P F C = some { err := true }
  /-- Apply: never stuck, and `Err` is set exactly when the spec says so (first failing instruction) -/
  apply : ∀ (R : Reps) (hR : R.OK) (up : UpperOracle) (gs : List GoInstr), (∀ g ∈ gs, InScope g) →
    ∀ X : PFr, PhysOK X → X.err = false →
      ∃ X', applyX R up X (gs.map XInstr.of) = some X' ∧
        (X'.err = true ↔ applyS up (logical X) allRows false (gs.map toInstr) = .err)
  /-- … and the spec says so for: an unknown first / second source column, an illegal destination name, a two-source
  function on columns of different types, a function value of an unsupported type -/
  applyClasses : ∀ (up : UpperOracle) (m : Nat → Bool) (b : Bool) (f : LFrame),
    (∀ g : GoInstr, g.src1 ≠ [] → f.has g.src1 = false → applyInstr up f m (toInstr g) b = .err) ∧
    (∀ g : GoInstr, g.src1 ≠ [] → g.src2 ≠ [] → f.has g.src2 = false → applyInstr up f m (toInstr g) b = .err) ∧
    (∀ dst k, legalName dst = false → applyInstr up f m ⟨dst, none, none, .const k⟩ b = .err) ∧
    (∀ dst s1 s2 id c1 c2, f.find? s1 = some c1 → f.find? s2 = some c2 → c1.ty ≠ c2.ty →
      applyInstr up f m ⟨dst, some s1, some s2, .f2 id⟩ b = .err) ∧
    (∀ dst s1 s2, applyInstr up f m ⟨dst, s1, s2, .bad⟩ b = .err)
  /-- FilteredApply: never stuck; `Err` exactly when the spec's `filteredApplyS` fails (malformed clause, or a failing
  instruction) -/
  fapply : ∀ (R : Reps) (hR : R.OK) (lo : LikeOracle) (up : UpperOracle) (c : Clause) (gs : List GoInstr),
    (∀ g ∈ gs, InScope g) → ∀ (X : PFr) (filt : PFr → Option PFr), FilterOK lo c filt X → PhysOK X → X.err = false →
      ∃ Y, runFA (physEnv R up X [] filt gs) Gen.fapplyAst [] = some Y ∧
        (Y.err = true ↔ filteredApplyS lo up (logical X) c (gs.map toInstr) true = .err)
  /-- WithRowNums: never stuck; `Err` exactly for an illegal column name -/
  rownums : ∀ (R : Reps) (up : UpperOracle) (X : PFr) (name : Bytes), PhysOK X → X.err = false →
    ∃ Y, runFA (physEnv R up X name (fun _ => none) []) Gen.rowNumsFnAst [] = some Y ∧
      (Y.err = true ↔ legalName name = false)
  /-- Filter: for every clause the spec calls not well formed on the frame — a leaf on an unknown column, with an unknown
  comparator, an argument of the wrong type, two columns of different types; an empty And / Or anywhere — the regenerated
  clause evaluation returns (no panic) a frame with `Err` set, whatever the index is -/
  filter : ∀ (O : F.Leaf → CL.LeafCalls), (∀ l, (O l).Abstracts l) → ∀ (lo : LikeOracle) (f : LFrame) (c : Clause),
    c.wellFormed lo f = false → ∀ Fr : F.Frame,
      ∃ g, CL.interp Gen.clauseFns O (Drv.mirrorClause lo f c) Fr = some g ∧ g.err = true
  /-- … an empty And / Or is not well formed, on every frame, also below a Not -/
  filterEmpty : ∀ (lo : LikeOracle) (f : LFrame),
    (Clause.and []).wellFormed lo f = false ∧ (Clause.or []).wellFormed lo f = false ∧
    (Clause.not (.and [])).wellFormed lo f = false
  /-- Eval: a reference to a column the frame does not have gives the receiver with an error; nothing is executed -/
  evalUnknown : ∀ (ctx : Fr.Ctx) (f : Fr.Frame) (dst : String) (e : C07Eval.Ex'), f.err = none →
    ∀ c, (C07Eval.refs e).find? (fun n => !Fr.contains f n) = some c →
      C07EvalGen.genEval ctx f dst e = some (C08.withErr f .other)
  /-- Eval: the regenerated decoder terminates on every raw expression tree and reports an error exactly when the tree has
  a malformed part -/
  evalMalformed : ∀ (nm : Bytes → String) (x : RawExpr), C07Decode.wf x = true →
    ∃ d, Gen.newExprAst.decode x = some d ∧ d.isErr = C07Decode.hasBad (C07Decode.read nm x)
  /-- New (partial, as C08NewIff.gen_new_iff_partial): an error exactly when a rule of the text is violated -/
  new : ∀ (plain : Bytes → Bool) (cols : List NewCol) (order : List Bytes) (enums : List (Bytes × List Bytes)),
    (∀ c ∈ cols, C08EndToEnd.TypedFor enums c) → (C08Guards.specOrder cols order).Nodup →
      (C08Construct.genNew C08EndToEnd.genCtors plain cols order enums = some Res.err ↔ C08NewIff.NewViolation cols order enums)
  /-- sticky: every guard chain of `guardAst2` ends at its first step on a failed receiver, for ALL requests -/
  sticky : ∀ q : GReq,
    (q.hasErr = true → ∀ op ∈ ["Sort", "Distinct", "apply0", "apply1", "apply2", "Eval", "Filter", "filterLeaf"],
      genGuards2 op q = some .returnSelf) ∧
    (q.hasErr = true → genGuards2 "FilteredApply" (withSub q) = some .returnSelf) ∧
    (q.hasErr = true → genGuards2 "GroupBy" q = some .carryErr) ∧
    (q.grouperErr = true → ∀ op ∈ ["Aggregate", "QFrames"], genGuards2 op q = some .carryErr) ∧
    (q.hasErr = true → ∀ op ∈ ["ToCSV", "ToJSON", "ToSQL"], genGuards2 op q = some .err)
  /-- … and of `guardAst` -/
  stickyProject : ∀ q : GReq, q.hasErr = true →
    ∀ op ∈ ["Slice", "Select", "Drop", "Copy"], genGuards op q = some .returnSelf
  /-- Apply / FilteredApply / WithRowNums as whole regenerated operations: a failed receiver comes back AS IT IS (same
  columns, same index, same error); no helper loop runs, so no user function is called -/
  stickyApply : ∀ (R : Reps) (up : UpperOracle) (X : PFr), X.err = true →
    (∀ gs : List GoInstr, applyX R up X (gs.map XInstr.of) = some X) ∧
    (∀ (hR : R.OK) (lo : LikeOracle) (c : Clause) (gs : List GoInstr) (filt : PFr → Option PFr), (∀ g ∈ gs, InScope g) →
      FilterOK lo c filt X → PhysOK X → runFA (physEnv R up X [] filt gs) Gen.fapplyAst [] = some X) ∧
    (∀ name : Bytes, PhysOK X → runFA (physEnv R up X name (fun _ => none) []) Gen.rowNumsFnAst [] = some X)
  /-- Filter: a failed frame comes back as it is, whatever the clause is (no leaf is evaluated) -/
  stickyFilter : ∀ (O : F.Leaf → CL.LeafCalls), (∀ l, (O l).Abstracts l) → ∀ (c : F.Clause) (Fr : F.Frame), Fr.err = true →
    CL.interp Gen.clauseFns O c Fr = some Fr
  /-- Eval: every `execute` returns a failed frame as it is -/
  stickyEval : ∀ (ctx : Fr.Ctx) (e : C07Eval.Ex') (f : Fr.Frame), f.err.isSome = true →
    ∃ n, C07EvalGen.genExecute ctx e f = some (f, n)

/-- **Invalid use yields Err — the table holds of the code regenerated from today's source.** -/
theorem gen_invalid_use_yields_err : InvalidUse where
  project := C08Guards.gen_guards_reject_iff
  keyed := fun f => by
    obtain ⟨h1, h2, h3, _, h5⟩ := C10Guards.gen_reject_semantics f
    exact ⟨h1, h2, h3, h5⟩
  groupby := fun P F C => C04GlueGen.gen_groupby_err_iff P F C
  apply := fun R hR up gs hs X hX he => by
    obtain ⟨X', a, _, b⟩ := C06EndToEnd.gen_apply_end_to_end R hR up gs hs X hX
    obtain ⟨_, hres, _⟩ := b he
    exact ⟨X', a, by rw [← hres, resFr_err_iff]⟩
  applyClasses := fun up m b f => by
    refine ⟨fun g h1 hu => (C10Guards.gen_apply_unknown_source up m b f g).2.2.2.1 h1 hu,
      fun g h1 h2 hu => (C10Guards.gen_apply_unknown_source up m b f g).2.2.2.2 h1 h2 hu, ?_, ?_, ?_⟩
    · intro dst k hl; simp [applyInstr, hl]
    · intro dst s1 s2 id c1 c2 h1 h2 hne
      have : (c1.ty == c2.ty) = false := by simpa using hne
      simp only [applyInstr, h1, h2]
      cases fn2 id with
      | none => rfl
      | some p => obtain ⟨src, g⟩ := p; simp [this]
    · intro dst s1 s2
      cases s1 <;> cases s2 <;> simp only [applyInstr] <;> repeat' split <;> rfl
  fapply := fun R hR lo up c gs hs X filt hF hX he => by
    obtain ⟨Y, a, _, b⟩ := C06EndToEnd.gen_fapply_end_to_end R hR lo up c gs hs X filt hF hX
    obtain ⟨hres, _⟩ := b he
    exact ⟨Y, a, by rw [← hres, resFr_err_iff]⟩
  rownums := fun R up X name hX he => by
    obtain ⟨Y, a, _, b⟩ := C06EndToEnd.gen_rownums_end_to_end R up X name hX
    obtain ⟨_, hres⟩ := b he
    refine ⟨Y, a, ?_⟩
    rw [← resFr_err_iff X.index Y, hres]
    unfold rowNumsS
    cases legalName name <;> simp
  filter := fun O hO lo f c hw Fr => by
    refine ⟨_, C02ClausesGen.gen_clause_filter_semantics O hO _ Fr, ?_⟩
    exact C02Mirror.filter_err _ (by rw [C02Mirror.mirror_wellTyped]; exact hw) Fr
  filterEmpty := fun lo f => by
    refine ⟨?_, ?_, ?_⟩ <;> simp [Clause.wellFormed, Clause.constructOk]
  evalUnknown := fun ctx f dst e he c hc => (C07EvalGen.gen_eval_guard ctx f dst e he).1 c hc
  evalMalformed := fun nm x h => by
    obtain ⟨d, h1, h2, _, _⟩ := C07Decode.gen_expr_decode_semantics nm x h
    exact ⟨d, h1, h2⟩
  new := fun plain cols order enums ht hnd => (C08NewIff.gen_new_iff_partial plain cols order enums ht hnd).2.1
  sticky := C10Guards.gen_sticky_all
  stickyProject := C08Guards.gen_guards_sticky
  stickyApply := fun R up X he => by
    refine ⟨fun gs => C06FApplyGen.applyX_err R up X he gs, ?_, ?_⟩
    · intro hR lo c gs filt hs hF hX
      obtain ⟨Y, a, b, _⟩ := C06EndToEnd.gen_fapply_end_to_end R hR lo up c gs hs X filt hF hX
      rw [a, b he]
    · intro name hX
      obtain ⟨Y, a, b, _⟩ := C06EndToEnd.gen_rownums_end_to_end R up X name hX
      rw [a, b he]
  stickyFilter := fun O hO c Fr he => by
    rw [C02ClausesGen.gen_clause_filter_semantics O hO, C02ClausesGen.filter_of_err c Fr he]
  stickyEval := fun ctx e f h => (C07EvalGen.gen_eval_error_propagates ctx).1 e f h

/-! ## Examples: concrete invalid requests meet the hypotheses -/

def exA : LCol := { name := [97], ty := .int, cells := #[.int 1, .int 2] }
def exB : LCol := { name := [98], ty := .string, cells := #[.str (some [120]), .str none] }
def exF : LFrame := { cols := [exA, exB], n := 2 }

/-- unknown column (Select, Sort), bad bounds (Slice), illegal name (Copy to `""`), on the example frame -/
example :
    genGuards "Select" (namesReq exF [[122]]) = some .err ∧
    genGuards "Slice" (sliceReq exF 1 3) = some .err ∧
    genGuards "Copy" (copyReq exF [] [97]) = some .err ∧
    genGuards2 "Sort" (sortReq exF [{ col := [122], reverse := false, nullLast := false }]) = some .err := by
  have t := gen_invalid_use_yields_err
  refine ⟨((t.project exF).2.1 _).2 ⟨[122], by simp, by decide⟩, ((t.project exF).1 1 3).2 (by decide),
    ((t.project exF).2.2.2 [] [97]).2 (.inr ⟨by decide, by decide⟩), ((t.keyed exF).1 _).2 (by decide)⟩

/-- a two-source function on an int and a string column: mismatched column types -/
example (up : UpperOracle) (id : String) :
    applyInstr up exF allRows ⟨[99], some [97], some [98], .f2 id⟩ false = .err :=
  (gen_invalid_use_yields_err.applyClasses up allRows false exF).2.2.2.1 [99] [97] [98] id exA exB rfl rfl
    (by decide)

#print axioms gen_invalid_use_yields_err

end QF.Props.C10EndToEnd
