import QF.Gen.Facts
import QF.Gen.Ryu
import QF.Props.Expected
/-!
# Tie T1: the source the model was written against is the source that is there now

`QF.Gen` is regenerated from /repo on every run; `QF.Expected` is the reviewed snapshot the hand-written mirror
model corresponds to. `same n` says that the constant / function `n` has today exactly the (normalised) source text
it had when the model was written (compared through a 64-bit hash of the text, so that the kernel decides it cheaply;
the texts themselves are in `Gen.facts` / `Expected.facts` for the reader). Each property lists, in
`QF/Props/Cnn.lean`, the functions its mirror follows; the theorem `tie` there is re-checked on every run and fails
as soon as one of them changes.
-/
namespace QF.Tie
open QF

def same (name : String) : Bool :=
  match Gen.hashes.lookup name, Expected.hashes.lookup name with
  | some a, some b => a == b
  | _, _ => false

def sameAll (names : List String) : Bool := names.all same

/-- the comparator tables are unchanged (which comparator is served by which kernel). The kernels themselves are no
longer compared as text: their meaning is regenerated as `Gen.kernelAst` and proved equal to the spec's predicates
(`QF.Props.C02Kernels.gen_kernel_semantics`), so renaming a variable in a kernel raises no alarm while changing an
operator, a null test or an operand does. -/
def kernelsSame : Bool := Gen.tablesHash == Expected.tablesHash

end QF.Tie
