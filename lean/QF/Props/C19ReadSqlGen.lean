import QF.Props.C19ScanGen
import QF.Core.SRExpr
import QF.Gen.ReadSql
/-!
# C19 / C15 — `ReadSQL` of today's source: the loop over `rows.Next()`, folded over today's `Column.Scan` (tie T1, by semantics)

`QF.Gen.readSqlAst` (regenerated on every run by go/cmd/extract/sqlrast.go) holds the body of `ReadSQL` of
/repo/internal/io/sql/reader.go as one term of `QF.SR` (QF/Core/SRExpr.lean: its Go meaning over a scripted `*sql.Rows` —
the names `rows.Columns()` returns or its failure, the rows `Next` delivers as lists of driver values, whether `rows.Err()`
is non-nil afterwards; `Column.Scan` and `Data` are parameters). This file proves, for the term generated TODAY:

* `gen_readsql_no_opaque`     — everything was found and translated completely
* `gen_readsql_canon`         — the term is the canonical one (`canon`: the declaration of the two variables, the loop with
                                 the allocation at the first row — `rows.Columns()`, one `Column` per name with the
                                 precision and the coercion its name selects, `colNames = names`, the check of
                                 the coercion map — and `rows.Scan(columns...)`, the test of `rows.Err()`, the result map)
* `canon_run`                 — for every environment (ANY `Scan`, `Data`, script, map) the term is the statement-by-statement
                                 mirror `readSqlG`
* `gen_readsql_semantics`     — run over today's `Column.Scan` / `Data` (QF/Gen/Scan.lean, by `gen_step_semantics` and
                                 `gen_data_semantics` of C19ScanGen) it is the closed form `readSqlM` over the mirror of
                                 `Column.Scan` of C19Sql, for EVERY scripted result set: no rows → no columns; else
                                 `rows.Columns()` must succeed, every row must have one value per column, every column is
                                 fed with its values column by column (`rows_transpose`: row by row = column by column),
                                 `rows.Err()` must be nil, and the result maps every name to `Data()` of its column; an
                                 error otherwise. No hypotheses.
* `gen_readsql_faults`, `gen_readsql_scan_fault` (C15) — a non-nil `rows.Err()` (the driver failed while fetching a row), a
                                 failing `rows.Columns()`, a failing `Scan` are returned as errors, never swallowed
* `gen_readsql_refines_spec`  — with `New(data, ColumnOrder(columns...))` taken from the spec (`newS`), the frame is
                                 `readSqlNamedS names cmap fixed pfloat rows` (the unknown-column rule included), for every result set in the scope in which
                                 `Column.Scan` refines the spec (`C19Sql.inScope` per column; outside it code and spec are
                                 known to differ: `scan_mixed_counterexample`, `scan_leading_nulls_dropped`), with at least
                                 one column (`names ≠ []`: for a result set WITHOUT columns the spec's frame has
                                 `rows.length` rows, the code's — having no column to take a length from — none) and a
                                 driver that does not fail
* `gen_readsql_coerce_unknown` / `gen_readsql_coerce_known` — with at least one row, a key of the coercion map that is
                                 not a column name is an error; when all keys are column names the check passes
                                 (the repair of the finding `coerce_check_vacuous`: witness at the end)

Witnesses at the end: plausible mutations (a dropped `rows.Err()` check, an ignored `Scan` error, …) violate the statements.
-/
namespace QF.Props.C19ReadSqlGen
open QF QF.Props.C19Sql QF.Props.C19ScanGen

/-! ## The canonical term -/

/-- `if conf.CoerceMap != nil { fn, ok := conf.CoerceMap[name]; if ok { col.coerce = fn(col) } }; columns = append(columns, col)` -/
def coerceStep : SR := .ifCoerceMap (.lookupCoerce (.ifOk (.setCoerce .done) .done)) (.appendColumn .done)

/-- `col := &Column{precision: conf.Precision}; …` -/
def allocBody : SR := .newColumn coerceStep

/-- `for _, colName := range colNames { if name == colName { continue checkMap } }; return error` -/
def innerLoop : SR := .rangeColNames (.ifNameIsColName .continueOuter .done) .retErr

/-- `checkMap: for name := range conf.CoerceMap { for _, colName := range colNames { if name == colName { continue checkMap } };
return error }`: a key of the coercion map that is no column name is an error -/
def checkMap : SR := .rangeCoerceKeys innerLoop .done

/-- `names, err := rows.Columns(); if err != nil { return error }; for _, name := range names { … }; colNames = names;
if conf.CoerceMap != nil { checkMap … }` -/
def allocBlock : SR := .getColumns .retErr (.rangeNames allocBody (.setColNames (.ifCoerceMap checkMap .done)))

/-- the check as it was before the repair of the unknown-column rule: it ran before `colNames = names`, with the `return`
inside the inner loop -/
def checkMapOld : SR := .rangeCoerceKeys (.rangeColNames (.ifNameIsColName .continueOuter .retErr) .done) .done
def allocBlockOld : SR := .getColumns .retErr (.rangeNames allocBody (.ifCoerceMap checkMapOld (.setColNames .done)))

/-- `if columns == nil { … }; err := rows.Scan(columns...); if err != nil { return error }` -/
def rowBody : SR := .ifColumnsNil allocBlock (.scanRow .retErr .done)

/-- `if err := rows.Err(); err != nil { return error }; result := map…{}; for i, column := range columns { result[colNames[i]] = column.(*Column).Data() }; return result, colNames, nil` -/
def tail : SR := .checkRowsErr .retErr (.newResult (.rangeColumns (.setResult .done) .retResult))

def canon : SR := .declVars (.forNext rowBody tail)

theorem gen_readsql_canon : Gen.readSqlAst = canon := by decide

theorem gen_readsql_no_opaque : Gen.readSqlAst.hasOpaque = false := by decide

/-! ## The statement-by-statement mirror, with `Column.Scan` and `Data` as parameters -/

/-- the column `ReadSQL` allocates for the result column `n` -/
def newCol (E : SREnv) (n : Bytes) : SRColumn := { st := {}, co := E.coerceMap.bind (fun m => m.lookup n) }

/-- does the check of the coercion map return its error? Some key is not among the column names. -/
def checkFails (E : SREnv) (colNames : List Bytes) : Bool :=
  match E.coerceMap with
  | some m => m.any (fun e => !colNames.contains e.1)
  | none => false

/-- the block `if columns == nil { … }`: `none` = an error is returned -/
def allocG (E : SREnv) (st : List SRColumn × List Bytes) : Option (List SRColumn × List Bytes) :=
  if st.1.isEmpty then
    if E.columnsFail then none
    else if checkFails E E.names then none
    else some (st.1 ++ E.names.map (newCol E), E.names)
  else some st

/-- one round of `for rows.Next()`: `none` = no meaning, `some none` = an error is returned -/
def rowG (E : SREnv) (st : List SRColumn × List Bytes) (r : List DVal) : Option (Option (List SRColumn × List Bytes)) :=
  match allocG E st with
  | none => some none
  | some (cols, cn) =>
    if r.length = cols.length then
      match scanCols E.scan cols r with
      | none => none
      | some (_, true) => some none
      | some (cols', false) => some (some (cols', cn))
    else some none

def rowsG (E : SREnv) : List (List DVal) → List SRColumn × List Bytes → Option (Option (List SRColumn × List Bytes))
  | [], st => some (some st)
  | r :: rs, st =>
    match rowG E st r with
    | some (some st') => rowsG E rs st'
    | x => x

/-- the loop that builds the result map: `none` = no meaning -/
def resultG (E : SREnv) (colNames : List Bytes) : Nat → List SRColumn → List (Bytes × SRData) → Option (List (Bytes × SRData))
  | _, [], m => some m
  | i, c :: cs, m =>
    match colNames[i]?, E.data c.st with
    | some nm, some sl => resultG E colNames (i + 1) cs (srInsert m nm (sl, c.st))
    | _, _ => none

def readSqlG (E : SREnv) : Option (Option (List (Bytes × SRData) × List Bytes)) :=
  match rowsG E E.rows ([], []) with
  | none => none
  | some none => some none
  | some (some (cols, cn)) =>
    if E.finalErr then some none else (resultG E cn 0 cols []).map (fun m => some (m, cn))

section Run
variable (E : SREnv)

theorem allocBody_run (σ : SRSt) (n : Bytes) :
    ∃ σ', allocBody.run E { σ with name := n } = .next σ' ∧ σ'.columns = σ.columns ++ [newCol E n] ∧
      σ'.colNames = σ.colNames ∧ σ'.names = σ.names ∧ σ'.row = σ.row := by
  cases hm : E.coerceMap with
  | none =>
    have h : allocBody.run E { σ with name := n } =
        .next { σ with name := n, col := some {}, columns := σ.columns ++ [{}] } := by
      simp [allocBody, coerceStep, SR.run, srIf, hm]
    exact ⟨_, h, by simp [newCol, hm], rfl, rfl, rfl⟩
  | some m =>
    cases hl : m.lookup n with
    | none =>
      have h : allocBody.run E { σ with name := n } =
          .next { σ with name := n, col := some {}, fn := none, ok := false, columns := σ.columns ++ [{}] } := by
        simp [allocBody, coerceStep, SR.run, srIf, hm, hl]
      exact ⟨_, h, by simp [newCol, hm, hl], rfl, rfl, rfl⟩
    | some f =>
      have h : allocBody.run E { σ with name := n } =
          .next { σ with name := n, col := some { co := some f }, fn := some f, ok := true,
                         columns := σ.columns ++ [{ co := some f }] } := by
        simp [allocBody, coerceStep, SR.run, srIf, hm, hl]
      exact ⟨_, h, by simp [newCol, hm, hl], rfl, rfl, rfl⟩

theorem names_loop : ∀ (ns : List Bytes) (σ : SRSt),
    ∃ σ', iterSR false (fun n τ => allocBody.run E { τ with name := n }) ns σ = .next σ' ∧
      σ'.columns = σ.columns ++ ns.map (newCol E) ∧ σ'.colNames = σ.colNames ∧ σ'.names = σ.names ∧ σ'.row = σ.row := by
  intro ns
  induction ns with
  | nil => intro σ; exact ⟨σ, rfl, by simp, rfl, rfl, rfl⟩
  | cons n ns ih =>
    intro σ
    obtain ⟨σ1, h1, hc1, hn1, hm1, hr1⟩ := allocBody_run E σ n
    obtain ⟨σ2, h2, hc2, hn2, hm2, hr2⟩ := ih σ1
    refine ⟨σ2, ?_, ?_, hn2.trans hn1, hm2.trans hm1, hr2.trans hr1⟩
    · simp only [iterSR, h1]; exact h2
    · rw [hc2, hc1]; simp

/-- what the check leaves alone -/
def Kept (σ' σ : SRSt) : Prop :=
  σ'.columns = σ.columns ∧ σ'.colNames = σ.colNames ∧ σ'.names = σ.names ∧ σ'.row = σ.row

/-- the inner loop of the check: is the key among the column names? -/
theorem inner_iter : ∀ (cs : List Bytes) (σ : SRSt),
    if cs.contains σ.name then
      ∃ σ', iterSR false (fun n τ => (SR.ifNameIsColName .continueOuter .done).run E { τ with colName := n }) cs σ =
        .contOuter σ' ∧ Kept σ' σ
    else
      ∃ σ', iterSR false (fun n τ => (SR.ifNameIsColName .continueOuter .done).run E { τ with colName := n }) cs σ =
        .next σ' ∧ Kept σ' σ ∧ σ'.name = σ.name := by
  intro cs
  induction cs with
  | nil => intro σ; exact ⟨σ, rfl, ⟨rfl, rfl, rfl, rfl⟩, rfl⟩
  | cons c cs ih =>
    intro σ
    by_cases hk : σ.name = c
    · have hc : (c :: cs).contains σ.name = true := by simp [hk]
      simp only [hc, if_true]
      exact ⟨{ σ with colName := c }, by simp [iterSR, SR.run, srIf, hk], ⟨rfl, rfl, rfl, rfl⟩⟩
    · have hstep : (SR.ifNameIsColName .continueOuter .done).run E { σ with colName := c } = .next { σ with colName := c } := by
        simp [SR.run, srIf, hk]
      have hc : (c :: cs).contains σ.name = cs.contains σ.name := by
        have : (σ.name == c) = false := by simp [hk]
        rw [List.contains_cons, this, Bool.false_or]
      have := ih { σ with colName := c }
      simp only [hc, iterSR, hstep]
      exact this

theorem innerLoop_run (σ : SRSt) :
    if σ.colNames.contains σ.name then ∃ σ', innerLoop.run E σ = .contOuter σ' ∧ Kept σ' σ
    else innerLoop.run E σ = .retErr := by
  have hu : innerLoop.run E σ =
      match iterSR false (fun n τ => (SR.ifNameIsColName .continueOuter .done).run E { τ with colName := n }) σ.colNames σ with
      | .next _ => .retErr
      | r => r := rfl
  have hi := inner_iter E σ.colNames σ
  by_cases hc : σ.colNames.contains σ.name = true
  · simp only [hc, if_true] at hi ⊢
    obtain ⟨σ', h1, hk⟩ := hi
    exact ⟨σ', by rw [hu, h1], hk⟩
  · simp only [hc] at hi ⊢
    simp only [Bool.false_eq_true, if_false] at hi ⊢
    obtain ⟨σ', h1, _, _⟩ := hi
    rw [hu, h1]

/-- the loop over the keys of the coercion map: the error unless every key is a column name -/
theorem keys_loop : ∀ (m : List (Bytes × String)) (σ : SRSt),
    if m.any (fun e => !σ.colNames.contains e.1) then
      iterSR true (fun e τ => innerLoop.run E { τ with name := e.1 }) m σ = .retErr
    else ∃ σ', iterSR true (fun e τ => innerLoop.run E { τ with name := e.1 }) m σ = .next σ' ∧ Kept σ' σ := by
  intro m
  induction m with
  | nil => intro σ; simp only [List.any_nil]; exact ⟨σ, rfl, ⟨rfl, rfl, rfl, rfl⟩⟩
  | cons e m ih =>
    intro σ
    have hi := innerLoop_run E { σ with name := e.1 }
    simp only [] at hi
    simp only [List.any_cons]
    by_cases hc : σ.colNames.contains e.1 = true
    · simp only [hc, if_true, Bool.not_true, Bool.false_or] at hi ⊢
      obtain ⟨σ1, h1, hk1⟩ := hi
      have := ih σ1
      rw [hk1.2.1] at this
      simp only [] at this
      by_cases ha : (m.any fun e => !σ.colNames.contains e.1) = true
      · simp only [ha, if_true] at this ⊢
        simp only [iterSR, h1, if_true]; exact this
      · simp only [ha] at this ⊢
        obtain ⟨σ', h2, hk2⟩ := this
        refine ⟨σ', by simp only [iterSR, h1, if_true]; exact h2, ?_⟩
        exact ⟨hk2.1.trans hk1.1, hk2.2.1.trans hk1.2.1, hk2.2.2.1.trans hk1.2.2.1, hk2.2.2.2.trans hk1.2.2.2⟩
    · have hc' : σ.colNames.contains e.1 = false := by
        cases h : σ.colNames.contains e.1 with
        | false => rfl
        | true => exact absurd h hc
      simp only [hc', Bool.false_eq_true, if_false, Bool.not_false, Bool.true_or, if_true] at hi ⊢
      simp only [iterSR, hi]

theorem checkMap_unfold (σ : SRSt) :
    checkMap.run E σ =
      match iterSR true (fun e τ => innerLoop.run E { τ with name := e.1 }) (E.coerceMap.getD []) σ with
      | .next σ' => .next σ'
      | r => r := rfl

theorem checkMap_run (σ : SRSt) (m : List (Bytes × String)) (hm : E.coerceMap = some m) :
    if checkFails E σ.colNames then checkMap.run E σ = .retErr
    else ∃ σ', checkMap.run E σ = .next σ' ∧ Kept σ' σ := by
  have := keys_loop E m σ
  simp only [checkFails, hm]
  by_cases ha : (m.any fun e => !σ.colNames.contains e.1) = true
  · simp only [ha, if_true] at this ⊢
    rw [checkMap_unfold, hm, Option.getD_some, this]
  · simp only [ha] at this ⊢
    obtain ⟨σ', h1, hk⟩ := this
    exact ⟨σ', by rw [checkMap_unfold, hm, Option.getD_some, h1], hk⟩

/-- the block `if columns == nil { … }` entered -/
theorem allocBlock_run (σ : SRSt) :
    if E.columnsFail then allocBlock.run E σ = .retErr
    else if checkFails E E.names then allocBlock.run E σ = .retErr
    else ∃ σ', allocBlock.run E σ = .next σ' ∧ σ'.columns = σ.columns ++ E.names.map (newCol E) ∧
      σ'.colNames = E.names ∧ σ'.row = σ.row := by
  cases hf : E.columnsFail with
  | true => simp [allocBlock, SR.run, hf]
  | false =>
    simp only [Bool.false_eq_true, if_false]
    obtain ⟨σ1, h1, hc1, hn1, hm1, hr1⟩ := names_loop E E.names { σ with names := E.names }
    simp only [] at hc1 hn1 hm1 hr1
    have hu : allocBlock.run E σ =
        match iterSR false (fun n τ => allocBody.run E { τ with name := n }) E.names { σ with names := E.names } with
        | .next σ' => srIf E.coerceMap.isSome (checkMap.run E) (SR.done.run E) { σ' with colNames := σ'.names }
        | r => r := by
      simp only [allocBlock, SR.run, hf, Bool.false_eq_true, if_false]
      rfl
    rw [hu, h1]
    simp only []
    cases hm : E.coerceMap with
    | none =>
      have hcf : checkFails E E.names = false := by simp [checkFails, hm]
      simp only [hcf, Bool.false_eq_true, if_false]
      exact ⟨{ σ1 with colNames := σ1.names }, by simp [srIf, SR.run], hc1, hm1, hr1⟩
    | some m =>
      have hck := checkMap_run E { σ1 with colNames := σ1.names } m hm
      have hcn : ({ σ1 with colNames := σ1.names } : SRSt).colNames = E.names := hm1
      rw [hcn] at hck
      cases hcf : checkFails E E.names with
      | true =>
        simp only [hcf, if_true] at hck ⊢
        simp [srIf, hck]
      | false =>
        simp only [hcf, Bool.false_eq_true, if_false] at hck ⊢
        obtain ⟨σ2, h2, hk⟩ := hck
        refine ⟨σ2, by simp [srIf, h2, SR.run], hk.1.trans hc1, hk.2.1.trans hcn, hk.2.2.2.trans hr1⟩

/-- one round of `for rows.Next()` -/
theorem rowBody_run (σ : SRSt) (r : List DVal) (hr : σ.row = some r) :
    match rowG E (σ.columns, σ.colNames) r with
    | none => rowBody.run E σ = .stuck
    | some none => rowBody.run E σ = .retErr
    | some (some st) => ∃ σ', rowBody.run E σ = .next σ' ∧ σ'.columns = st.1 ∧ σ'.colNames = st.2 := by
  -- what follows the allocation
  have scan : ∀ τ : SRSt, τ.row = some r →
      match (if r.length = τ.columns.length then
          match scanCols E.scan τ.columns r with
          | none => none
          | some (_, true) => some none
          | some (cols', false) => some (some (cols', τ.colNames))
        else some none : Option (Option (List SRColumn × List Bytes))) with
      | none => (SR.scanRow .retErr .done).run E τ = .stuck
      | some none => (SR.scanRow .retErr .done).run E τ = .retErr
      | some (some st) => ∃ σ', (SR.scanRow .retErr .done).run E τ = .next σ' ∧ σ'.columns = st.1 ∧ σ'.colNames = st.2 := by
    intro τ hτ
    by_cases hl : r.length = τ.columns.length
    · simp only [hl, if_true]
      cases hs : scanCols E.scan τ.columns r with
      | none => simp [SR.run, hτ, hl, hs]
      | some p =>
        obtain ⟨cols', failed⟩ := p
        cases failed
        · exact ⟨{ τ with columns := cols' }, by simp [SR.run, hτ, hl, hs], rfl, rfl⟩
        · simp [SR.run, hτ, hl, hs]
    · simp [SR.run, hτ, hl]
  unfold rowG allocG
  simp only []
  by_cases he : σ.columns.isEmpty = true
  · have ha := allocBlock_run E σ
    simp only [he, if_true]
    cases hf : E.columnsFail with
    | true =>
      simp only [hf, if_true] at ha ⊢
      simp [rowBody, SR.run, srIf, he, ha]
    | false =>
      simp only [hf, Bool.false_eq_true, if_false] at ha ⊢
      cases hcf : checkFails E E.names with
      | true =>
        simp only [hcf, if_true] at ha ⊢
        simp [rowBody, SR.run, srIf, he, ha]
      | false =>
        simp only [hcf, Bool.false_eq_true, if_false] at ha ⊢
        obtain ⟨σ1, h1, hc1, hn1, hr1⟩ := ha
        have hs := scan σ1 (hr1.trans hr)
        rw [hc1, hn1] at hs
        have hrun : rowBody.run E σ = (SR.scanRow .retErr .done).run E σ1 := by
          simp [rowBody, SR.run, srIf, he, h1]
        rw [hrun]
        exact hs
  · simp only [he]
    have hs := scan σ hr
    have hrun : rowBody.run E σ = (SR.scanRow .retErr .done).run E σ := by
      simp [rowBody, SR.run, srIf, he]
    rw [hrun]
    exact hs

theorem rows_loop : ∀ (rows : List (List DVal)) (σ : SRSt),
    match rowsG E rows (σ.columns, σ.colNames) with
    | none => iterSR false (fun r τ => rowBody.run E { τ with row := some r }) rows σ = .stuck
    | some none => iterSR false (fun r τ => rowBody.run E { τ with row := some r }) rows σ = .retErr
    | some (some st) => ∃ σ', iterSR false (fun r τ => rowBody.run E { τ with row := some r }) rows σ = .next σ' ∧
        σ'.columns = st.1 ∧ σ'.colNames = st.2 := by
  intro rows
  induction rows with
  | nil => intro σ; exact ⟨σ, rfl, rfl, rfl⟩
  | cons r rows ih =>
    intro σ
    have hb := rowBody_run E { σ with row := some r } r rfl
    simp only [] at hb
    unfold rowsG
    cases hg : rowG E (σ.columns, σ.colNames) r with
    | none => rw [hg] at hb; simp only [iterSR, hb]
    | some x =>
      cases x with
      | none => rw [hg] at hb; simp only [iterSR, hb]
      | some st =>
        rw [hg] at hb
        obtain ⟨σ1, h1, hc1, hn1⟩ := hb
        simp only [iterSR, h1]
        have := ih σ1
        rw [hc1, hn1] at this
        exact this

theorem result_loop (cn : List Bytes) : ∀ (cs : List SRColumn) (i : Nat) (σ : SRSt) (m : List (Bytes × SRData)),
    σ.result = some m → σ.colNames = cn →
    match resultG E cn i cs m with
    | none => iterIdxSR (fun i c τ => (SR.setResult .done).run E { τ with idx := i, column := some c }) i cs σ = .stuck
    | some m' => ∃ σ', iterIdxSR (fun i c τ => (SR.setResult .done).run E { τ with idx := i, column := some c }) i cs σ =
        .next σ' ∧ σ'.result = some m' ∧ σ'.colNames = cn := by
  intro cs
  induction cs with
  | nil => intro i σ m hm hcn; exact ⟨σ, rfl, hm, hcn⟩
  | cons c cs ih =>
    intro i σ m hm hcn
    unfold resultG
    cases hn : cn[i]? with
    | none => simp [iterIdxSR, SR.run, hm, hcn, hn]
    | some nm =>
      cases hd : E.data c.st with
      | none => simp [iterIdxSR, SR.run, hm, hcn, hn, hd]
      | some sl =>
        simp only []
        have := ih (i + 1) { σ with idx := i, column := some c, result := some (srInsert m nm (sl, c.st)) } _ rfl hcn
        have hstep : (SR.setResult .done).run E { σ with idx := i, column := some c } =
            .next { σ with idx := i, column := some c, result := some (srInsert m nm (sl, c.st)) } := by
          simp [SR.run, hm, hcn, hn, hd]
        simp only [iterIdxSR]
        rw [hstep]
        exact this

end Run

theorem tail_unfold (E : SREnv) (σ : SRSt) :
    tail.run E σ =
      if E.finalErr then .retErr
      else
        match iterIdxSR (fun i c τ => (SR.setResult .done).run E { τ with idx := i, column := some c }) 0 σ.columns
            { σ with result := some [] } with
        | .next σ' =>
          match σ'.result with
          | some m => .retOk m σ'.colNames
          | none => .stuck
        | r => r := by
  cases hf : E.finalErr
  · show tail.run E σ = _
    simp only [tail, SR.run, srIf, hf, Bool.false_eq_true, if_false]
    rfl
  · simp [tail, SR.run, srIf, hf]

theorem canon_unfold (E : SREnv) :
    canon.run E {} =
      match iterSR false (fun r τ => rowBody.run E { τ with row := some r }) E.rows {} with
      | .next σ' => tail.run E σ'
      | r => r := rfl

/-- **The canonical term is the mirror `readSqlG`**, for every script, configuration, `Scan` and `Data`. -/
theorem canon_run (E : SREnv) : runReadSql E canon = readSqlG E := by
  unfold runReadSql readSqlG
  have hl := rows_loop E E.rows {}
  simp only [] at hl
  rw [canon_unfold]
  have e0 : (({} : SRSt).columns, ({} : SRSt).colNames) = (([], []) : List SRColumn × List Bytes) := rfl
  rw [e0] at hl
  cases hg : rowsG E E.rows ([], []) with
  | none => rw [hg] at hl; simp only [] at hl; rw [hl]
  | some x =>
    cases x with
    | none => rw [hg] at hl; simp only [] at hl; rw [hl]
    | some st =>
      rw [hg] at hl
      obtain ⟨σ1, h1, hc1, hn1⟩ := hl
      rw [h1]
      simp only []
      rw [tail_unfold]
      cases hf : E.finalErr with
      | true => rfl
      | false =>
        simp only [Bool.false_eq_true, if_false]
        have hr := result_loop E σ1.colNames σ1.columns 0 { σ1 with result := some [] } [] rfl rfl
        obtain ⟨cols, cn⟩ := st
        simp only [] at hc1 hn1
        subst hc1 hn1
        cases hres : resultG E σ1.colNames 0 σ1.columns [] with
        | none =>
          rw [hres] at hr
          simp only [] at hr
          rw [hr]
          rfl
        | some m =>
          rw [hres] at hr
          obtain ⟨σ2, h2, hr2, hn2⟩ := hr
          rw [h2]
          simp [hr2, hn2]

/-! ## Today's `Column.Scan` and `Data` as the parameters -/

/-- `conf.Precision` and the two library functions -/
structure RParams where
  precision : Nat
  fixedFn : Nat → UInt64 → UInt64
  pfloat : Bytes → Option UInt64

def RParams.cfg (P : RParams) (co : Coerce) : Cfg :=
  { coerce := co, precision := P.precision, fixedFn := P.fixedFn, pfloat := P.pfloat }

/-- the functions a coercion map can hold (config/sql: `Int64ToBool`, `StringToFloat`) -/
inductive CoFn where
  | int64ToBool | stringToFloat
  deriving DecidableEq, Repr

def CoFn.name : CoFn → String
  | .int64ToBool => "Int64ToBool"
  | .stringToFloat => "StringToFloat"

def CoFn.coerce : CoFn → Coerce
  | .int64ToBool => .int64ToBool
  | .stringToFloat => .stringToFloat

/-- the coercion in the coercion field of a column, by the name of the function that made the closure -/
def coOf : Option String → Coerce
  | some "Int64ToBool" => .int64ToBool
  | some "StringToFloat" => .stringToFloat
  | _ => .none

theorem coOf_name (f : Option CoFn) : coOf (f.map CoFn.name) = (f.map CoFn.coerce).getD .none := by
  cases f with
  | none => rfl
  | some f => cases f <;> rfl

/-- today's `Column.Scan` for a column with the given coercion closure -/
def envScan (P : RParams) (co : Option String) (c : SCol) (t : DVal) : Option (Option SCol) := genStep (P.cfg (coOf co)) c t

/-- a scripted result set -/
structure Script where
  /-- `rows.Columns()` -/
  names : List Bytes
  columnsFail : Bool := false
  /-- the rows `Next` delivers -/
  rows : List (List DVal)
  /-- `rows.Err() != nil` once `Next` has returned false -/
  finalErr : Bool := false

def env (P : RParams) (cmap : Option (List (Bytes × CoFn))) (S : Script) : SREnv :=
  { names := S.names, columnsFail := S.columnsFail, rows := S.rows, finalErr := S.finalErr,
    coerceMap := cmap.map (fun m => m.map (fun e => (e.1, e.2.name))),
    scan := envScan P, data := Gen.dataAst.runData }

/-- `ReadSQL` of today's source, over today's `Column.Scan` and `Data` -/
def genReadSql (P : RParams) (cmap : Option (List (Bytes × CoFn))) (S : Script) :
    Option (Option (List (Bytes × SRData) × List Bytes)) :=
  runReadSql (env P cmap S) Gen.readSqlAst

/-! ## The mirror over `C19Sql.Col` -/

/-- a column of the mirror with its coercion -/
abbrev MCol := Col × Coerce

def viewCol (c : SRColumn) : MCol := (toCol c.st, coOf c.co)

/-- one `Scan`: the value must denote a `SqlVal` -/
def stepV (P : RParams) (co : Coerce) (c : Col) (v : DVal) : Option Col := (DVal.toSql v).bind (scan (P.cfg co) c)

/-- `rows.Scan(columns...)`: `none` = an error -/
def scanRowM (P : RParams) : List MCol → List DVal → Option (List MCol)
  | [], _ => some []
  | _ :: _, [] => none
  | c :: cs, v :: vs =>
    match stepV P c.2 c.1 v with
    | none => none
    | some c' => (scanRowM P cs vs).map ((c', c.2) :: ·)

theorem envScan_spec (P : RParams) (c : SRColumn) (v : DVal) :
    ∃ r, envScan P c.co c.st v = some r ∧ r.map toCol = stepV P (coOf c.co) (toCol c.st) v := by
  have h := gen_step_semantics (P.cfg (coOf c.co)) c.st v
  unfold envScan stepV
  cases hg : genStep (P.cfg (coOf c.co)) c.st v with
  | none => rw [hg] at h; simp at h
  | some r =>
    rw [hg] at h
    simp only [Option.map_some, Option.some.injEq] at h
    exact ⟨r, rfl, h⟩

/-- `rows.Scan` over today's `Column.Scan` is `scanRowM` -/
theorem scanCols_view (P : RParams) : ∀ (cols : List SRColumn) (r : List DVal),
    match scanRowM P (cols.map viewCol) r with
    | none => ∃ cols', scanCols (envScan P) cols r = some (cols', true)
    | some m => ∃ cols', scanCols (envScan P) cols r = some (cols', false) ∧ cols'.map viewCol = m := by
  intro cols
  induction cols with
  | nil => intro r; exact ⟨[], rfl, rfl⟩
  | cons c cs ih =>
    intro r
    cases r with
    | nil => exact ⟨_, rfl⟩
    | cons v vs =>
      obtain ⟨x, hx, hv⟩ := envScan_spec P c v
      simp only [List.map_cons, scanRowM, scanCols, hx]
      have e1 : (viewCol c).2 = coOf c.co := rfl
      have e2 : (viewCol c).1 = toCol c.st := rfl
      rw [e1, e2, ← hv]
      cases x with
      | none => exact ⟨_, rfl⟩
      | some st' =>
        simp only [Option.map_some]
        have := ih vs
        cases hm : scanRowM P (cs.map viewCol) vs with
        | none =>
          rw [hm] at this
          obtain ⟨cols', hc⟩ := this
          exact ⟨_, by rw [hc]; rfl⟩
        | some m =>
          rw [hm] at this
          obtain ⟨cols', hc, hvw⟩ := this
          refine ⟨{ c with st := st' } :: cols', by rw [hc]; rfl, ?_⟩
          simp [viewCol, hvw]

/-- the coercion of result column `n` -/
def coerceOf (cmap : Option (List (Bytes × CoFn))) (n : Bytes) : Coerce :=
  ((cmap.bind (fun m => m.lookup n)).map CoFn.coerce).getD .none

theorem lookup_map {α β : Type} (f : α → β) (n : Bytes) : ∀ m : List (Bytes × α),
    (m.map (fun e => (e.1, f e.2))).lookup n = (m.lookup n).map f := by
  intro m
  induction m with
  | nil => rfl
  | cons e m ih =>
    obtain ⟨k, v⟩ := e
    simp only [List.map_cons, List.lookup_cons]
    cases n == k <;> simp [ih]

theorem viewCol_newCol (P : RParams) (cmap : Option (List (Bytes × CoFn))) (S : Script) (n : Bytes) :
    viewCol (newCol (env P cmap S) n) = ({}, coerceOf cmap n) := by
  unfold viewCol newCol coerceOf env
  cases cmap with
  | none => rfl
  | some m =>
    simp only [Option.map_some, Option.bind_some, lookup_map]
    rw [coOf_name]
    rfl

def checkFailsM (cmap : Option (List (Bytes × CoFn))) (colNames : List Bytes) : Bool :=
  match cmap with
  | some m => m.any (fun e => !colNames.contains e.1)
  | none => false

theorem checkFails_env (P : RParams) (cmap : Option (List (Bytes × CoFn))) (S : Script) (cn : List Bytes) :
    checkFails (env P cmap S) cn = checkFailsM cmap cn := by
  unfold checkFails checkFailsM env
  cases cmap with
  | none => rfl
  | some m => simp [List.any_map, Function.comp_def]

/-- the block `if columns == nil { … }`: `none` = an error -/
def allocM (cmap : Option (List (Bytes × CoFn))) (S : Script) (st : List MCol × List Bytes) : Option (List MCol × List Bytes) :=
  if st.1.isEmpty then
    if S.columnsFail then none
    else if checkFailsM cmap S.names then none
    else some (st.1 ++ S.names.map (fun n => (({} : Col), coerceOf cmap n)), S.names)
  else some st

/-- one round of the loop: `none` = an error -/
def rowM (P : RParams) (cmap : Option (List (Bytes × CoFn))) (S : Script) (st : List MCol × List Bytes) (r : List DVal) :
    Option (List MCol × List Bytes) :=
  match allocM cmap S st with
  | none => none
  | some (cols, cn) => if r.length = cols.length then (scanRowM P cols r).map (fun c => (c, cn)) else none

def rowsM (P : RParams) (cmap : Option (List (Bytes × CoFn))) (S : Script) :
    List (List DVal) → List MCol × List Bytes → Option (List MCol × List Bytes)
  | [], st => some st
  | r :: rs, st =>
    match rowM P cmap S st r with
    | none => none
    | some st' => rowsM P cmap S rs st'

theorem rowG_view (P : RParams) (cmap : Option (List (Bytes × CoFn))) (S : Script) (cols : List SRColumn) (cn : List Bytes)
    (r : List DVal) :
    match rowM P cmap S (cols.map viewCol, cn) r with
    | none => rowG (env P cmap S) (cols, cn) r = some none
    | some st' => ∃ cols', rowG (env P cmap S) (cols, cn) r = some (some (cols', st'.2)) ∧ cols'.map viewCol = st'.1 := by
  unfold rowM rowG allocM allocG
  simp only [checkFails_env, List.isEmpty_map]
  have hnames : (env P cmap S).names = S.names := rfl
  have hcf : (env P cmap S).columnsFail = S.columnsFail := rfl
  have hscan : (env P cmap S).scan = envScan P := rfl
  rw [hnames, hcf, hscan]
  -- the scan after the allocation
  have key : ∀ (cs : List SRColumn) (cn' : List Bytes),
      match (if r.length = (cs.map viewCol).length then (scanRowM P (cs.map viewCol) r).map (fun c => (c, cn')) else none) with
      | none => (if r.length = cs.length then
            match scanCols (envScan P) cs r with
            | none => none
            | some (_, true) => some none
            | some (cols', false) => some (some (cols', cn'))
          else some none : Option (Option (List SRColumn × List Bytes))) = some none
      | some st' => ∃ cols', (if r.length = cs.length then
            match scanCols (envScan P) cs r with
            | none => none
            | some (_, true) => some none
            | some (cols', false) => some (some (cols', cn'))
          else some none : Option (Option (List SRColumn × List Bytes))) = some (some (cols', st'.2)) ∧
          cols'.map viewCol = st'.1 := by
    intro cs cn'
    simp only [List.length_map]
    by_cases hl : r.length = cs.length
    · simp only [hl, if_true]
      have := scanCols_view P cs r
      cases hm : scanRowM P (cs.map viewCol) r with
      | none =>
        rw [hm] at this
        obtain ⟨cols', hc⟩ := this
        simp [hc]
      | some m =>
        rw [hm] at this
        obtain ⟨cols', hc, hv⟩ := this
        exact ⟨cols', by simp [hc], hv⟩
    · simp [hl]
  by_cases he : cols.isEmpty = true
  · simp only [he, if_true]
    cases S.columnsFail with
    | true => simp
    | false =>
      simp only [Bool.false_eq_true, if_false]
      cases checkFailsM cmap S.names with
      | true => simp
      | false =>
        simp only [Bool.false_eq_true, if_false]
        have := key (cols ++ S.names.map (newCol (env P cmap S))) S.names
        have e : (cols ++ S.names.map (newCol (env P cmap S))).map viewCol =
            cols.map viewCol ++ S.names.map (fun n => (({} : Col), coerceOf cmap n)) := by
          simp [List.map_append, viewCol_newCol]
        rw [e] at this
        exact this
  · simp only [he]
    exact key cols cn

theorem rowsG_view (P : RParams) (cmap : Option (List (Bytes × CoFn))) (S : Script) : ∀ (rows : List (List DVal))
    (cols : List SRColumn) (cn : List Bytes),
    match rowsM P cmap S rows (cols.map viewCol, cn) with
    | none => rowsG (env P cmap S) rows (cols, cn) = some none
    | some st' => ∃ cols', rowsG (env P cmap S) rows (cols, cn) = some (some (cols', st'.2)) ∧ cols'.map viewCol = st'.1 := by
  intro rows
  induction rows with
  | nil => intro cols cn; exact ⟨cols, rfl, rfl⟩
  | cons r rows ih =>
    intro cols cn
    have h := rowG_view P cmap S cols cn r
    unfold rowsM rowsG
    cases hm : rowM P cmap S (cols.map viewCol, cn) r with
    | none => rw [hm] at h; simp only [] at h; rw [h]
    | some st' =>
      rw [hm] at h
      obtain ⟨cols', hg, hv⟩ := h
      rw [hg]
      simp only []
      have := ih cols' st'.2
      rw [hv] at this
      exact this

/-- the result map as `New` receives it: for every name the column `createColumn` makes of `Data()` (`none`: nil data) -/
abbrev MData := List (Bytes × Option LCol)

def mInsert : MData → Bytes → Option LCol → MData
  | [], k, d => [(k, d)]
  | e :: rest, k, d => if e.1 == k then (k, d) :: rest else e :: mInsert rest k d

/-- an entry of the result map: the slice `Data()` returned, as a column -/
def viewEntry (d : Bytes × SRData) : Bytes × Option LCol :=
  (d.1, match d.2.1 with
    | none => none
    | some s => some (mkCol d.1 (sliceKind s) ((toCol d.2.2).cellsOf (sliceKind s))))

theorem viewEntry_ptr (nm : Bytes) (st : SCol) : viewEntry (nm, (st.ptr, st)) = (nm, (toCol st).toLCol nm) := by
  unfold viewEntry Col.toLCol
  cases h : st.ptr <;> simp [toCol, h]

theorem view_insert (m : List (Bytes × SRData)) (nm : Bytes) (d : SRData) :
    (srInsert m nm d).map viewEntry = mInsert (m.map viewEntry) nm (viewEntry (nm, d)).2 := by
  induction m with
  | nil => rfl
  | cons e m ih =>
    have hk : (viewEntry e).1 = e.1 := rfl
    by_cases h : e.1 = nm
    · simp [srInsert, mInsert, hk, h]
      rfl
    · simp [srInsert, mInsert, hk, h, ih]

/-- the loop that builds the result map -/
def resultM (cn : List Bytes) : Nat → List MCol → MData → Option MData
  | _, [], m => some m
  | i, c :: cs, m =>
    match cn[i]? with
    | some nm => resultM cn (i + 1) cs (mInsert m nm (c.1.toLCol nm))
    | none => none

theorem resultG_view (P : RParams) (cmap : Option (List (Bytes × CoFn))) (S : Script) (cn : List Bytes) :
    ∀ (cols : List SRColumn) (i : Nat) (m : List (Bytes × SRData)),
    (resultG (env P cmap S) cn i cols m).map (List.map viewEntry) = resultM cn i (cols.map viewCol) (m.map viewEntry) := by
  intro cols
  induction cols with
  | nil => intro i m; rfl
  | cons c cs ih =>
    intro i m
    simp only [resultG, List.map_cons, resultM]
    cases hn : cn[i]? with
    | none => rfl
    | some nm =>
      have hd : (env P cmap S).data c.st = some c.st.ptr := (gen_data_semantics c.st nm).1
      simp only [hd]
      rw [ih, view_insert, viewEntry_ptr]
      rfl

theorem resultM_some (cn : List Bytes) : ∀ (cols : List MCol) (i : Nat) (m : MData), i + cols.length ≤ cn.length →
    ∃ m', resultM cn i cols m = some m' := by
  intro cols
  induction cols with
  | nil => intro i m _; exact ⟨m, rfl⟩
  | cons c cs ih =>
    intro i m h
    simp only [List.length_cons] at h
    have hi : i < cn.length := by omega
    simp only [resultM, List.getElem?_eq_getElem hi]
    exact ih (i + 1) _ (by omega)

theorem scanRowM_length (P : RParams) : ∀ (cols : List MCol) (r : List DVal) (m : List MCol),
    scanRowM P cols r = some m → m.length = cols.length := by
  intro cols
  induction cols with
  | nil => intro r m h; simp [scanRowM] at h; subst h; rfl
  | cons c cs ih =>
    intro r m h
    cases r with
    | nil => simp [scanRowM] at h
    | cons v vs =>
      simp only [scanRowM] at h
      cases hs : stepV P c.2 c.1 v with
      | none => rw [hs] at h; simp at h
      | some c' =>
        rw [hs] at h
        cases hr : scanRowM P cs vs with
        | none => rw [hr] at h; simp at h
        | some rest =>
          rw [hr] at h
          simp only [Option.map_some, Option.some.injEq] at h
          subst h
          simp [ih vs rest hr]

theorem rowM_length (P : RParams) (cmap : Option (List (Bytes × CoFn))) (S : Script) (st st' : List MCol × List Bytes)
    (r : List DVal) (h : st.1.length = st.2.length) (hr : rowM P cmap S st r = some st') : st'.1.length = st'.2.length := by
  unfold rowM at hr
  have ha : ∀ a, allocM cmap S st = some a → a.1.length = a.2.length := by
    intro a hal
    unfold allocM at hal
    by_cases he : st.1.isEmpty = true
    · simp only [he, if_true] at hal
      cases hcf : S.columnsFail <;> simp only [hcf, Bool.false_eq_true, if_false, if_true] at hal
      · cases hck : checkFailsM cmap S.names <;> simp only [hck, Bool.false_eq_true, if_false, if_true] at hal
        · simp only [Option.some.injEq] at hal
          subst hal
          have : st.1 = [] := List.isEmpty_iff.1 he
          simp [this]
        · simp at hal
      · simp at hal
    · simp only [he] at hal
      simp only [Bool.false_eq_true, if_false, Option.some.injEq] at hal
      subst hal
      exact h
  cases hal : allocM cmap S st with
  | none => rw [hal] at hr; simp at hr
  | some a =>
    rw [hal] at hr
    obtain ⟨cols, cn⟩ := a
    simp only [] at hr
    by_cases hl : r.length = cols.length
    · simp only [hl, if_true] at hr
      cases hs : scanRowM P cols r with
      | none => rw [hs] at hr; simp at hr
      | some m =>
        rw [hs] at hr
        simp only [Option.map_some, Option.some.injEq] at hr
        subst hr
        simp only []
        rw [scanRowM_length P cols r m hs]
        exact ha _ hal
    · simp [hl] at hr

theorem rowsM_length (P : RParams) (cmap : Option (List (Bytes × CoFn))) (S : Script) : ∀ (rows : List (List DVal))
    (st st' : List MCol × List Bytes), st.1.length = st.2.length → rowsM P cmap S rows st = some st' →
    st'.1.length = st'.2.length := by
  intro rows
  induction rows with
  | nil => intro st st' h hr; simp [rowsM] at hr; subst hr; exact h
  | cons r rows ih =>
    intro st st' h hr
    unfold rowsM at hr
    cases hm : rowM P cmap S st r with
    | none => rw [hm] at hr; simp at hr
    | some st1 =>
      rw [hm] at hr
      exact ih st1 st' (rowM_length P cmap S st st1 r h hm) hr

/-- the row-by-row mirror of `ReadSQL` over the mirror of `Column.Scan`: `none` = an error -/
def readSqlRowM (P : RParams) (cmap : Option (List (Bytes × CoFn))) (S : Script) : Option (MData × List Bytes) :=
  match rowsM P cmap S S.rows ([], []) with
  | none => none
  | some (mcols, cn) => if S.finalErr then none else (resultM cn 0 mcols []).map (fun m => (m, cn))

def viewRes (r : List (Bytes × SRData) × List Bytes) : MData × List Bytes := (r.1.map viewEntry, r.2)

theorem gen_readsql_rowmajor (P : RParams) (cmap : Option (List (Bytes × CoFn))) (S : Script) :
    ∃ r, genReadSql P cmap S = some r ∧ r.map viewRes = readSqlRowM P cmap S := by
  unfold genReadSql
  rw [gen_readsql_canon, canon_run]
  unfold readSqlG readSqlRowM
  have hv := rowsG_view P cmap S S.rows [] []
  have hrows : (env P cmap S).rows = S.rows := rfl
  have hfin : (env P cmap S).finalErr = S.finalErr := rfl
  rw [hrows, hfin]
  simp only [List.map_nil] at hv
  cases hm : rowsM P cmap S S.rows ([], []) with
  | none =>
    rw [hm] at hv
    simp only [] at hv
    rw [hv]
    exact ⟨none, rfl, rfl⟩
  | some st' =>
    rw [hm] at hv
    obtain ⟨cols', hg, hvw⟩ := hv
    rw [hg]
    obtain ⟨mcols, cn⟩ := st'
    simp only [] at hvw ⊢
    cases hf : S.finalErr with
    | true => exact ⟨none, rfl, rfl⟩
    | false =>
      simp only [Bool.false_eq_true, if_false]
      have hlen := rowsM_length P cmap S S.rows ([], []) (mcols, cn) rfl hm
      simp only [] at hlen
      have hres := resultG_view P cmap S cn cols' 0 []
      rw [hvw] at hres
      obtain ⟨m', hm'⟩ := resultM_some cn mcols 0 [] (by omega)
      simp only [List.map_nil] at hres
      rw [hm'] at hres ⊢
      cases hrg : resultG (env P cmap S) cn 0 cols' [] with
      | none => rw [hrg] at hres; simp at hres
      | some m =>
        rw [hrg] at hres
        simp only [Option.map_some, Option.some.injEq] at hres
        exact ⟨some (m, cn), rfl, by simp [viewRes, hres]⟩

/-! ## Column by column -/

/-- one row into the columns, with the test of the number of destinations -/
def step2 (P : RParams) (cols : List MCol) (r : List DVal) : Option (List MCol) :=
  if r.length = cols.length then scanRowM P cols r else none

/-- all values of one result column into its `Column` -/
def colM (P : RParams) (c : MCol) (vals : List DVal) : Option MCol := (vals.foldlM (stepV P c.2) c.1).map (fun x => (x, c.2))

/-- a function of index and column applied to all columns: `none` as soon as one is -/
def colsIdx (f : Nat → MCol → Option MCol) : Nat → List MCol → Option (List MCol)
  | _, [] => some []
  | i, c :: cs =>
    match f i c, colsIdx f (i + 1) cs with
    | some c', some cs' => some (c' :: cs')
    | _, _ => none

theorem colsIdx_id : ∀ (cols : List MCol) (i : Nat), colsIdx (fun _ c => some c) i cols = some cols := by
  intro cols
  induction cols with
  | nil => intro i; rfl
  | cons c cs ih => intro i; simp [colsIdx, ih]

theorem colsIdx_length (f : Nat → MCol → Option MCol) : ∀ (cols : List MCol) (i : Nat) (m : List MCol),
    colsIdx f i cols = some m → m.length = cols.length := by
  intro cols
  induction cols with
  | nil => intro i m h; simp [colsIdx] at h; subst h; rfl
  | cons c cs ih =>
    intro i m h
    simp only [colsIdx] at h
    cases h1 : f i c with
    | none => simp [h1] at h
    | some c' =>
      cases h2 : colsIdx f (i + 1) cs with
      | none => simp [h1, h2] at h
      | some cs' =>
        simp only [h1, h2, Option.some.injEq] at h
        subst h
        simp [ih (i + 1) cs' h2]

theorem colsIdx_bind (f g : Nat → MCol → Option MCol) : ∀ (cols : List MCol) (i : Nat),
    (colsIdx f i cols).bind (colsIdx g i) = colsIdx (fun j c => (f j c).bind (g j)) i cols := by
  intro cols
  induction cols with
  | nil => intro i; rfl
  | cons c cs ih =>
    intro i
    simp only [colsIdx]
    rw [← ih (i + 1)]
    cases h1 : f i c with
    | none => simp
    | some c' =>
      cases h2 : colsIdx f (i + 1) cs with
      | none => cases g i c' <;> simp
      | some cs' => simp [colsIdx]

theorem colsIdx_congr (f g : Nat → MCol → Option MCol) : ∀ (cols : List MCol) (i : Nat),
    (∀ j c, i ≤ j → j < i + cols.length → f j c = g j c) → colsIdx f i cols = colsIdx g i cols := by
  intro cols
  induction cols with
  | nil => intro i _; rfl
  | cons c cs ih =>
    intro i h
    simp only [colsIdx]
    rw [h i c (Nat.le_refl _) (by simp), ih (i + 1) (fun j c' h1 h2 => h j c' (by omega) (by simp only [List.length_cons]; omega))]

/-- `rows.Scan` of a row with as many values as columns, by index -/
theorem scanRowM_idx (P : RParams) (r : List DVal) : ∀ (cols : List MCol) (i : Nat), r.length = i + cols.length →
    scanRowM P cols (r.drop i) = colsIdx (fun j c => (stepV P c.2 c.1 r[j]!).map (fun x => (x, c.2))) i cols := by
  intro cols
  induction cols with
  | nil => intro i _; rfl
  | cons c cs ih =>
    intro i h
    simp only [List.length_cons] at h
    have hi : i < r.length := by omega
    rw [List.drop_eq_getElem_cons hi]
    simp only [scanRowM, colsIdx]
    rw [ih (i + 1) (by omega)]
    have hg : r[i]! = r[i] := by simp [hi]
    rw [hg]
    cases stepV P c.2 c.1 r[i] with
    | none => rfl
    | some c' => cases colsIdx (fun j c => (stepV P c.2 c.1 r[j]!).map (fun x => (x, c.2))) (i + 1) cs <;> rfl

theorem colM_cons (P : RParams) (c : MCol) (v : DVal) (vs : List DVal) :
    colM P c (v :: vs) = ((stepV P c.2 c.1 v).map (fun x => (x, c.2))).bind (fun c' => colM P c' vs) := by
  unfold colM
  simp only [List.foldlM_cons]
  cases stepV P c.2 c.1 v <;> rfl

/-- **Row by row is column by column**: all rows into the columns = every column fed with its values. -/
theorem rows_transpose (P : RParams) : ∀ (rows : List (List DVal)) (cols : List MCol),
    rows.foldlM (step2 P) cols =
      if rows.all (fun r => r.length == cols.length) then colsIdx (fun j c => colM P c (rows.map (fun r => r[j]!))) 0 cols
      else none := by
  intro rows
  induction rows with
  | nil =>
    intro cols
    simp only [List.foldlM_nil, List.all_nil, if_true, List.map_nil]
    have : (fun (j : Nat) (c : MCol) => colM P c []) = fun _ c => some c := by
      funext j c; simp [colM]
    rw [this, colsIdx_id]; rfl
  | cons r rows ih =>
    intro cols
    simp only [List.foldlM_cons, List.all_cons]
    by_cases hl : r.length = cols.length
    · have hb : (r.length == cols.length) = true := by simp [hl]
      simp only [hb, Bool.true_and]
      have hs : step2 P cols r = colsIdx (fun j c => (stepV P c.2 c.1 r[j]!).map (fun x => (x, c.2))) 0 cols := by
        simp only [step2, hl, if_true]
        have := scanRowM_idx P r cols 0 (by omega)
        simpa using this
      rw [hs]
      cases hc : colsIdx (fun j c => (stepV P c.2 c.1 r[j]!).map (fun x => (x, c.2))) 0 cols with
      | none =>
        simp only [Option.bind_eq_bind, Option.bind_none]
        have h2 := colsIdx_bind (fun j c => (stepV P c.2 c.1 r[j]!).map (fun x => (x, c.2)))
          (fun j c' => colM P c' (rows.map (fun r => r[j]!))) cols 0
        rw [hc] at h2
        simp only [Option.bind_none] at h2
        have h3 : colsIdx (fun j c => colM P c (List.map (fun r => r[j]!) (r :: rows))) 0 cols =
            colsIdx (fun j c => ((stepV P c.2 c.1 r[j]!).map (fun x => (x, c.2))).bind
              (fun c' => colM P c' (rows.map (fun r => r[j]!)))) 0 cols := by
          apply colsIdx_congr; intro j c _ _; simp only [List.map_cons, colM_cons]
        rw [h3, ← h2]
        split <;> rfl
      | some cols' =>
        simp only [Option.bind_eq_bind, Option.bind_some]
        rw [ih cols']
        have hlen := colsIdx_length _ cols 0 cols' hc
        rw [hlen]
        have h2 := colsIdx_bind (fun j c => (stepV P c.2 c.1 r[j]!).map (fun x => (x, c.2)))
          (fun j c' => colM P c' (rows.map (fun r => r[j]!))) cols 0
        rw [hc] at h2
        simp only [Option.bind_some] at h2
        have h3 : colsIdx (fun j c => colM P c (List.map (fun r => r[j]!) (r :: rows))) 0 cols =
            colsIdx (fun j c => ((stepV P c.2 c.1 r[j]!).map (fun x => (x, c.2))).bind
              (fun c' => colM P c' (rows.map (fun r => r[j]!)))) 0 cols := by
          apply colsIdx_congr; intro j c _ _; simp only [List.map_cons, colM_cons]
        rw [h3, ← h2]
    · have hb : (r.length == cols.length) = false := by simp [hl]
      simp [step2, hl, hb]

/-- the columns `ReadSQL` allocates at the first row -/
def cols0 (cmap : Option (List (Bytes × CoFn))) (names : List Bytes) : List MCol :=
  names.map (fun n => (({} : Col), coerceOf cmap n))

/-- the rounds after the allocation (the check of the coercion map passes) -/
theorem rowsM_allocated (P : RParams) (cmap : Option (List (Bytes × CoFn))) (S : Script) (hcf : S.columnsFail = false)
    (hck : checkFailsM cmap S.names = false) :
    ∀ (rows : List (List DVal)) (c1 : List MCol), c1.length = S.names.length →
    rowsM P cmap S rows (c1, S.names) = (rows.foldlM (step2 P) c1).map (fun c => (c, S.names)) := by
  intro rows
  induction rows with
  | nil => intro c1 _; rfl
  | cons r rows ih =>
    intro c1 hlen
    have halloc : allocM cmap S (c1, S.names) = some (c1, S.names) := by
      unfold allocM
      by_cases he : c1.isEmpty = true
      · have h1 : c1 = [] := List.isEmpty_iff.1 he
        have hn : S.names = [] := by
          have : S.names.length = 0 := by rw [← hlen, h1]; rfl
          exact List.eq_nil_of_length_eq_zero this
        simp [h1, hcf, hck]
        exact hn
      · simp [he]
    simp only [rowsM, rowM, halloc, List.foldlM_cons, step2]
    by_cases hl : r.length = c1.length
    · simp only [hl, if_true]
      cases hs : scanRowM P c1 r with
      | none => rfl
      | some c2 =>
        simp only [Option.map_some, Option.bind_eq_bind, Option.bind_some]
        have := ih c2 ((scanRowM_length P c1 r c2 hs).trans hlen)
        simpa [step2] using this
    · simp [hl]

/-- all rounds, from the start -/
theorem rowsM_start (P : RParams) (cmap : Option (List (Bytes × CoFn))) (S : Script) (r : List DVal) (rows : List (List DVal)) :
    rowsM P cmap S (r :: rows) ([], []) =
      if S.columnsFail then none
      else if checkFailsM cmap S.names then none
      else ((r :: rows).foldlM (step2 P) (cols0 cmap S.names)).map (fun c => (c, S.names)) := by
  cases hcf : S.columnsFail with
  | true => simp [rowsM, rowM, allocM, hcf]
  | false =>
    cases hck : checkFailsM cmap S.names with
    | true => simp [rowsM, rowM, allocM, hcf, hck]
    | false =>
      have halloc : allocM cmap S ([], []) = some (cols0 cmap S.names, S.names) := by
        simp [allocM, hcf, hck, cols0]
      simp only [rowsM, rowM, halloc, List.foldlM_cons, step2, Bool.false_eq_true, if_false]
      by_cases hl : r.length = (cols0 cmap S.names).length
      · simp only [hl, if_true]
        cases hs : scanRowM P (cols0 cmap S.names) r with
        | none => rfl
        | some c2 =>
          simp only [Option.map_some, Option.bind_eq_bind, Option.bind_some]
          have := rowsM_allocated P cmap S hcf hck rows c2
            ((scanRowM_length P _ r c2 hs).trans (by simp [cols0]))
          simpa [step2] using this
      · simp [hl]

/-- **The closed form of `ReadSQL`**: `none` = an error is returned. No rows: no columns are allocated (the error of
`rows.Err()` apart). Else `rows.Columns()` must succeed, every key of the coercion map must be a column name, every row
must have one value per column, every column — a zero `Column` with the coercion its name selects — is fed with its values
by `Column.Scan` (`colM`), `rows.Err()` must be nil, and the result maps every name to `Data()` of its column (the later
of two columns with the same name wins). -/
def readSqlM (P : RParams) (cmap : Option (List (Bytes × CoFn))) (S : Script) : Option (MData × List Bytes) :=
  match S.rows with
  | [] => if S.finalErr then none else some ([], [])
  | _ :: _ =>
    if S.columnsFail then none
    else if checkFailsM cmap S.names then none
    else if !(S.rows.all (fun r => r.length == S.names.length)) then none
    else
      match colsIdx (fun j c => colM P c (S.rows.map (fun r => r[j]!))) 0 (cols0 cmap S.names) with
      | none => none
      | some mcols => if S.finalErr then none else (resultM S.names 0 mcols []).map (fun m => (m, S.names))

theorem readSqlRowM_eq (P : RParams) (cmap : Option (List (Bytes × CoFn))) (S : Script) :
    readSqlRowM P cmap S = readSqlM P cmap S := by
  unfold readSqlRowM readSqlM
  cases hrows : S.rows with
  | nil => simp [rowsM, resultM]
  | cons r rows =>
    rw [rowsM_start, rows_transpose]
    have hl : (cols0 cmap S.names).length = S.names.length := by simp [cols0]
    rw [hl]
    cases S.columnsFail with
    | true => rfl
    | false =>
      simp only [Bool.false_eq_true, if_false]
      cases checkFailsM cmap S.names with
      | true => rfl
      | false =>
        simp only [Bool.false_eq_true, if_false]
        cases hall : (r :: rows).all (fun r => r.length == S.names.length) with
        | false => rfl
        | true =>
          simp only [if_true, Bool.not_true, Bool.false_eq_true, if_false]
          cases colsIdx (fun j c => colM P c ((r :: rows).map (fun r => r[j]!))) 0 (cols0 cmap S.names) <;> rfl

/-- **`ReadSQL` of today's source, over today's `Column.Scan` and `Data`, is `readSqlM`** — for EVERY scripted result
set (any names, any rows of any driver values, `rows.Columns()` failing or not, `rows.Err()` nil or not), every coercion
map, precision, `float.Fixed` and `strconv.ParseFloat`: the function has a meaning, it returns an error exactly when
`readSqlM` is `none`, and otherwise the map (viewed as the columns `New` makes of the `Data()` slices) and the names of
`readSqlM`. -/
theorem gen_readsql_semantics (P : RParams) (cmap : Option (List (Bytes × CoFn))) (S : Script) :
    ∃ r, genReadSql P cmap S = some r ∧ r.map viewRes = readSqlM P cmap S := by
  rw [← readSqlRowM_eq]
  exact gen_readsql_rowmajor P cmap S

theorem readSqlM_none_error (P : RParams) (cmap : Option (List (Bytes × CoFn))) (S : Script)
    (h : readSqlM P cmap S = none) : genReadSql P cmap S = some none := by
  obtain ⟨r, hr, hv⟩ := gen_readsql_semantics P cmap S
  rw [hr, h] at *
  cases r with
  | none => rfl
  | some x => simp at hv

/-! ## The failing-row and `rows.Err` rules (C15) -/

/-- **A driver failure is never swallowed**: when `rows.Err()` is non-nil after the loop (the driver failed while
fetching a row, so `Next` returned false early), or `rows.Columns()` fails at the first row, `ReadSQL` returns an error —
whatever rows were delivered before. -/
theorem gen_readsql_faults (P : RParams) (cmap : Option (List (Bytes × CoFn))) (S : Script)
    (h : S.finalErr = true ∨ (S.columnsFail = true ∧ S.rows ≠ [])) : genReadSql P cmap S = some none := by
  apply readSqlM_none_error
  unfold readSqlM
  rcases h with h | ⟨h1, h2⟩
  · cases S.rows with
    | nil => simp [h]
    | cons r rows =>
      simp only [h, if_true]
      cases S.columnsFail <;> simp only [Bool.false_eq_true, if_false, if_true]
      cases checkFailsM cmap S.names <;> simp only [Bool.false_eq_true, if_false, if_true]
      cases (!(r :: rows).all fun r => r.length == S.names.length) <;> simp only [Bool.false_eq_true, if_false, if_true]
      cases colsIdx (fun j c => colM P c ((r :: rows).map (fun r => r[j]!))) 0 (cols0 cmap S.names) <;> rfl
  · cases hrows : S.rows with
    | nil => exact absurd hrows h2
    | cons r rows => simp [h1]

/-- … and a `Scan` that fails for some row (a value `Column.Scan` rejects, a row of another width) is an error too. -/
theorem gen_readsql_scan_fault (P : RParams) (cmap : Option (List (Bytes × CoFn))) (S : Script)
    (h : S.rows.foldlM (step2 P) (cols0 cmap S.names) = none) : genReadSql P cmap S = some none := by
  obtain ⟨r, hr, hv⟩ := gen_readsql_rowmajor P cmap S
  rw [hr]
  have : readSqlRowM P cmap S = none := by
    unfold readSqlRowM
    cases hrows : S.rows with
    | nil => rw [hrows] at h; simp at h
    | cons r rows =>
      rw [rowsM_start, ← hrows, h]
      cases S.columnsFail <;> cases checkFailsM cmap S.names <;> rfl
  rw [this] at hv
  cases r with
  | none => rfl
  | some x => simp at hv

/-! ## The unknown-column rule of the coercion map -/

/-- the check fails exactly when some key of the coercion map is not a column name -/
theorem checkFailsM_iff (cmap : Option (List (Bytes × CoFn))) (names : List Bytes) :
    checkFailsM cmap names = true ↔ ∃ m, cmap = some m ∧ ∃ e ∈ m, e.1 ∉ names := by
  cases cmap with
  | none => simp [checkFailsM]
  | some m => simp [checkFailsM, List.any_eq_true]

/-- **A coercion for a column the result set does not have is reported**: for every scripted result set with at least one
row, if some key of the coercion map is not among the names `rows.Columns()` returns, `ReadSQL` of today's source returns
an error (at the first row, before any value is scanned) — whatever the rows hold. -/
theorem gen_readsql_coerce_unknown (P : RParams) (m : List (Bytes × CoFn)) (S : Script) (hrows : S.rows ≠ [])
    (k : Bytes) (hk : k ∈ m.map (·.1)) (hnot : k ∉ S.names) : genReadSql P (some m) S = some none := by
  apply readSqlM_none_error
  have hck : checkFailsM (some m) S.names = true := by
    rw [checkFailsM_iff]
    obtain ⟨e, he, rfl⟩ := List.mem_map.1 hk
    exact ⟨m, rfl, e, he, hnot⟩
  unfold readSqlM
  cases hr : S.rows with
  | nil => exact absurd hr hrows
  | cons r rows =>
    simp only [hck, if_true]
    cases S.columnsFail <;> rfl

/-- … and conversely, when every key is a column name (or there is no map) the check passes: `ReadSQL` is what it is
without the check. -/
theorem gen_readsql_coerce_known (P : RParams) (cmap : Option (List (Bytes × CoFn))) (S : Script)
    (hall : ∀ m, cmap = some m → ∀ e ∈ m, e.1 ∈ S.names) :
    checkFailsM cmap S.names = false ∧
    readSqlM P cmap S =
      match S.rows with
      | [] => if S.finalErr then none else some ([], [])
      | _ :: _ =>
        if S.columnsFail then none
        else if !(S.rows.all (fun r => r.length == S.names.length)) then none
        else
          match colsIdx (fun j c => colM P c (S.rows.map (fun r => r[j]!))) 0 (cols0 cmap S.names) with
          | none => none
          | some mcols => if S.finalErr then none else (resultM S.names 0 mcols []).map (fun m => (m, S.names)) := by
  have hck : checkFailsM cmap S.names = false := by
    cases h : checkFailsM cmap S.names with
    | false => rfl
    | true =>
      obtain ⟨m, hm, e, he, hn⟩ := (checkFailsM_iff cmap S.names).1 h
      exact absurd (hall m hm e he) hn
  refine ⟨hck, ?_⟩
  unfold readSqlM
  cases S.rows with
  | nil => rfl
  | cons r rows => simp only [hck, Bool.false_eq_true, if_false]

/-! ## Against the spec: `New(data, ColumnOrder(colNames...))` of what `ReadSQL` returns is `readSqlS` -/

/-- an entry of the result map as `New` sees it: nil data is a type `createColumn` does not know -/
def entryNewCol (e : Bytes × Option LCol) : NewCol :=
  match e.2 with
  | some lc => { name := e.1, kind := .cells lc.ty, count := lc.cells.size, cells := lc.cells.toList }
  | none => { name := e.1, kind := .unsupported, count := 0, cells := [] }

theorem entryNewCol_name (e : Bytes × Option LCol) : (entryNewCol e).name = e.1 := by
  unfold entryNewCol; cases e.2 <;> rfl

/-- `ReadSQLWithArgs`: the error, or `New(data, newqf.ColumnOrder(columns...))` as the spec has it -/
def frameOf : Option (MData × List Bytes) → Res
  | none => .err
  | some (m, ns) => newS (m.map entryNewCol) ns []

/-- the insertions of the loop over the columns -/
def insAll (L : MData) (acc : MData) : MData := L.foldl (fun a e => mInsert a e.1 e.2) acc

theorem mInsert_keys (m : MData) (k : Bytes) (d : Option LCol) :
    (mInsert m k d).map (·.1) = if k ∈ m.map (·.1) then m.map (·.1) else m.map (·.1) ++ [k] := by
  induction m with
  | nil => simp [mInsert]
  | cons e rest ih =>
    unfold mInsert
    by_cases he : e.1 = k
    · simp [he]
    · have hne : ¬ k = e.1 := fun h => he h.symm
      by_cases hc : k ∈ rest.map (·.1)
      · simp [he, hne, hc] at ih ⊢; exact ih
      · simp [he, hne, hc] at ih ⊢; exact ih

theorem mInsert_new (m : MData) (k : Bytes) (d : Option LCol) (h : k ∉ m.map (·.1)) : mInsert m k d = m ++ [(k, d)] := by
  induction m with
  | nil => rfl
  | cons e rest ih =>
    simp only [List.map_cons, List.mem_cons, not_or] at h
    have hne : ¬ e.1 = k := fun he => h.1 he.symm
    simp [mInsert, hne, ih h.2]

theorem mInsert_length (m : MData) (k : Bytes) (d : Option LCol) :
    (mInsert m k d).length = if k ∈ m.map (·.1) then m.length else m.length + 1 := by
  have := congrArg List.length (mInsert_keys m k d)
  simp only [List.length_map] at this
  rw [this]
  by_cases hc : k ∈ m.map (·.1) <;> simp [hc]

theorem insAll_length_le : ∀ (L acc : MData), (insAll L acc).length ≤ acc.length + L.length := by
  intro L
  induction L with
  | nil => intro acc; simp [insAll]
  | cons e L ih =>
    intro acc
    have := ih (mInsert acc e.1 e.2)
    have hl := mInsert_length acc e.1 e.2
    simp only [insAll, List.foldl_cons, List.length_cons] at this ⊢
    by_cases hc : e.1 ∈ acc.map (·.1)
    · simp only [hc, if_true] at hl; omega
    · simp only [hc, if_false] at hl; omega

/-- as many entries as insertions: all keys were new -/
theorem insAll_full : ∀ (L acc : MData), (acc.map (·.1)).Nodup → (insAll L acc).length = acc.length + L.length →
    (acc.map (·.1) ++ L.map (·.1)).Nodup := by
  intro L
  induction L with
  | nil => intro acc h _; simpa using h
  | cons e L ih =>
    intro acc hnd hlen
    have hle := insAll_length_le L (mInsert acc e.1 e.2)
    have hl := mInsert_length acc e.1 e.2
    simp only [insAll, List.foldl_cons, List.length_cons] at hlen hle
    by_cases hc : e.1 ∈ acc.map (·.1)
    · simp only [hc, if_true] at hl
      omega
    · simp only [hc, if_false] at hl
      have hnew := mInsert_new acc e.1 e.2 hc
      have hnd' : ((mInsert acc e.1 e.2).map (·.1)).Nodup := by
        rw [hnew]
        simp only [List.map_append, List.map_cons, List.map_nil]
        rw [List.nodup_append]
        refine ⟨hnd, by simp, ?_⟩
        intro a ha b hb
        simp only [List.mem_singleton] at hb
        intro hab
        exact hc (hb ▸ hab ▸ ha)
      have := ih (mInsert acc e.1 e.2) hnd' (by simp only [insAll]; omega)
      rw [hnew] at this
      simpa [List.append_assoc] using this

theorem insAll_nodup : ∀ (L acc : MData), (acc.map (·.1) ++ L.map (·.1)).Nodup → insAll L acc = acc ++ L := by
  intro L
  induction L with
  | nil => intro acc _; simp [insAll]
  | cons e L ih =>
    intro acc h
    have hk : e.1 ∉ acc.map (·.1) := by
      intro hm
      exact (List.nodup_append.1 h).2.2 e.1 hm e.1 (by simp) rfl
    simp only [insAll, List.foldl_cons]
    rw [mInsert_new acc e.1 e.2 hk]
    have := ih (acc ++ [e]) (by simpa [List.append_assoc] using h)
    simp only [insAll] at this
    rw [this]
    simp

theorem insAll_keys : ∀ (L acc : MData) (k : Bytes),
    k ∈ (insAll L acc).map (·.1) ↔ k ∈ acc.map (·.1) ∨ k ∈ L.map (·.1) := by
  intro L
  induction L with
  | nil => intro acc k; simp [insAll]
  | cons e L ih =>
    intro acc k
    simp only [insAll, List.foldl_cons] at ih ⊢
    rw [ih (mInsert acc e.1 e.2) k, mInsert_keys]
    by_cases hc : e.1 ∈ acc.map (·.1)
    · simp only [hc, if_true, List.map_cons, List.mem_cons]
      constructor
      · rintro (h | h)
        · exact .inl h
        · exact .inr (.inr h)
      · rintro (h | h | h)
        · exact .inl h
        · exact .inl (h ▸ hc)
        · exact .inr h
    · simp only [hc, if_false, List.map_cons, List.mem_cons, List.mem_append, List.not_mem_nil, or_false]
      constructor
      · rintro ((h | h) | h)
        · exact .inl h
        · exact .inr (.inl h)
        · exact .inr (.inr h)
      · rintro (h | h | h)
        · exact .inl (.inl h)
        · exact .inl (.inr h)
        · exact .inr h

/-- `eraseDups` keeps the length exactly when there is nothing to erase -/
theorem eraseDups_length : ∀ (n : Nat) (l : List Bytes), l.length ≤ n →
    l.eraseDups.length ≤ l.length ∧ (l.eraseDups.length = l.length ↔ l.Nodup) := by
  intro n
  induction n with
  | zero =>
    intro l h
    have : l = [] := List.eq_nil_of_length_eq_zero (by omega)
    subst this
    simp
  | succ n ih =>
    intro l h
    cases l with
    | nil => simp
    | cons a t =>
      rw [List.eraseDups_cons]
      have hf := List.length_filter_le (fun b => !b == a) t
      simp only [List.length_cons] at h
      obtain ⟨h1, h2⟩ := ih (t.filter (fun b => !b == a)) (by omega)
      simp only [List.length_cons, List.nodup_cons]
      refine ⟨by omega, ?_⟩
      constructor
      · intro heq
        have hfe : (t.filter (fun b => !b == a)).length = t.length := by omega
        have hself : t.filter (fun b => !b == a) = t := by
          apply List.filter_eq_self.2
          intro x hx
          apply Classical.byContradiction
          intro hp
          have := (List.length_filter_lt_length_iff_exists (p := fun b => !b == a) (l := t)).2 ⟨x, hx, hp⟩
          omega
        have hnd : (t.filter (fun b => !b == a)).Nodup := h2.1 (by omega)
        rw [hself] at hnd
        refine ⟨?_, hnd⟩
        intro ha
        have := List.filter_eq_self.1 hself a ha
        simp at this
      · rintro ⟨ha, hnd⟩
        have hself : t.filter (fun b => !b == a) = t := by
          apply List.filter_eq_self.2
          intro x hx
          have : ¬ x = a := fun hxa => ha (hxa ▸ hx)
          simp [this]
        rw [hself]
        have := (ih t (by omega)).2.2 hnd
        omega

theorem eraseDups_ne_iff (l : List Bytes) : (l.eraseDups.length != l.length) = true ↔ ¬ l.Nodup := by
  have := (eraseDups_length l.length l (Nat.le_refl _)).2
  simp only [bne_iff_ne, ne_eq]
  exact not_congr this

theorem filterMap_congr' {α β : Type} (f g : α → Option β) : ∀ (l : List α), (∀ a ∈ l, f a = g a) →
    l.filterMap f = l.filterMap g := by
  intro l
  induction l with
  | nil => intro _; rfl
  | cons a l ih =>
    intro h
    simp only [List.filterMap_cons, h a (List.mem_cons_self ..), ih (fun b hb => h b (List.mem_cons_of_mem _ hb))]

/-- looking every key of a list with distinct keys up in that list returns the list -/
theorem filterMap_find_self {α : Type} (key : α → Bytes) : ∀ (xs : List α), (xs.map key).Nodup →
    (xs.map key).filterMap (fun n => xs.find? (fun c => key c == n)) = xs := by
  intro xs
  induction xs with
  | nil => intro _; rfl
  | cons x t ih =>
    intro h
    simp only [List.map_cons, List.nodup_cons] at h
    simp only [List.map_cons, List.filterMap_cons, List.find?_cons, beq_self_eq_true]
    congr 1
    conv => rhs; rw [← ih h.2]
    apply filterMap_congr'
    intro n hn
    have hne : ¬ key x = n := fun hx => h.1 (hx ▸ hn)
    have : (key x == n) = false := by simp [hne]
    simp only [this]

theorem build_nil' (enums : List (Bytes × List Bytes)) (len : Int) (used : List Bytes) :
    newS.build enums len used [] = some ([], used) := by
  rw [newS.build]

/-- `newS.build` over the entries of the result map: no enum declarations, so a column is built as it is -/
theorem build_entry (len : Int) (used : List Bytes) (e : Bytes × Option LCol) (es : List NewCol) :
    newS.build [] len used (entryNewCol e :: es) =
      match e.2 with
      | none => none
      | some lc =>
        if ((lc.cells.size : Nat) : Int) != len then none else
        match newS.build [] len used es with
        | none => none
        | some (rest, u) => some (({ name := e.1, ty := lc.ty, cells := lc.cells.toList.toArray } : LCol) :: rest, u) := by
  rw [newS.build]
  unfold entryNewCol
  cases he : e.2 with
  | none => simp
  | some lc =>
    have h0 : ¬ ((lc.cells.size : Nat) : Int) < 0 := by omega
    simp only [h0, if_false, List.find?_nil]
    cases hty : lc.ty <;> simp <;> rfl

theorem build_none_of_unsupported (len : Int) : ∀ (L : MData) (used : List Bytes), L.any (fun e => e.2.isNone) = true →
    newS.build [] len used (L.map entryNewCol) = none := by
  intro L
  induction L with
  | nil => intro used h; simp at h
  | cons e L ih =>
    intro used h
    simp only [List.map_cons]
    rw [build_entry]
    cases he : e.2 with
    | none => rfl
    | some lc =>
      simp only [List.any_cons, he, Option.isNone_some, Bool.false_or] at h
      simp only []
      rw [ih used h]
      split <;> rfl

theorem build_all_some (k : Nat) : ∀ (L : MData) (used : List Bytes),
    (∀ e ∈ L, ∀ lc, e.2 = some lc → lc.name = e.1 ∧ lc.cells.size = k ∧ lc.vals = [] ∧ lc.strict = false) →
    L.any (fun e => e.2.isNone) = false →
    newS.build [] (k : Int) used (L.map entryNewCol) = some (L.filterMap (·.2), used) := by
  intro L
  induction L with
  | nil => intro used _ _; simp [build_nil']
  | cons e L ih =>
    intro used hw h
    simp only [List.map_cons]
    rw [build_entry]
    simp only [List.any_cons, Bool.or_eq_false_iff] at h
    cases he : e.2 with
    | none => simp [he] at h
    | some lc =>
      obtain ⟨h1, h2, h3, h4⟩ := hw e (List.mem_cons_self ..) lc he
      have hk : (((lc.cells.size : Nat) : Int) != (k : Int)) = false := by simp [h2]
      simp only [hk, Bool.false_eq_true, if_false]
      rw [ih used (fun e' he' => hw e' (List.mem_cons_of_mem _ he')) h.2]
      simp only [List.filterMap_cons, he]
      have : ({ name := e.1, ty := lc.ty, cells := lc.cells.toList.toArray } : LCol) = lc := by
        cases lc
        simp only [] at h1 h3 h4
        subst h1 h3 h4
        simp
      rw [this]

theorem all_of_same_mem {α : Type} (p : α → Bool) (a b : List α) (h : ∀ x, x ∈ a ↔ x ∈ b) : a.all p = b.all p := by
  apply Bool.eq_iff_iff.2
  simp only [List.all_eq_true]
  exact ⟨fun ha x hx => ha x ((h x).2 hx), fun hb x hx => hb x ((h x).1 hx)⟩

/-- **`New` of the map `ReadSQL` builds, in the order of the names.** `L`: the insertions `result[name] = Data()` in
order, every non-nil `Data()` a column of `k` cells. The frame is an error when some `Data()` is nil (a column of NULLs
only), a name is illegal, or two columns have the same name; else it has the columns in the order of the names. -/
theorem newS_of_inserts (k : Nat) (L : MData) (hne : L ≠ [])
    (hw : ∀ e ∈ L, ∀ lc, e.2 = some lc → lc.name = e.1 ∧ lc.cells.size = k ∧ lc.vals = [] ∧ lc.strict = false) :
    newS ((insAll L []).map entryNewCol) (L.map (·.1)) [] =
      if L.any (fun e => e.2.isNone) then .err
      else if !((L.map (·.1)).all legalName) || (L.map (·.1)).eraseDups.length != (L.map (·.1)).length then .err
      else .ok { cols := L.filterMap (·.2), n := k } := by
  have hMkeys : ∀ x, x ∈ (insAll L []).map (·.1) ↔ x ∈ L.map (·.1) := by
    intro x; simpa using insAll_keys L [] x
  have hnames : ∀ M : MData, (M.map entryNewCol).map (·.name) = M.map (·.1) := by
    intro M; simp [List.map_map, Function.comp_def, entryNewCol_name]
  have hall : ((insAll L []).map entryNewCol).all (fun c => legalName c.name) = (L.map (·.1)).all legalName := by
    have : ((insAll L []).map entryNewCol).all (fun c => legalName c.name) =
        (((insAll L []).map entryNewCol).map (·.name)).all legalName := by simp [List.all_map, Function.comp_def]
    rw [this, hnames]
    exact all_of_same_mem legalName _ _ hMkeys
  have hemp : (L.map (·.1)).isEmpty = false := by cases L <;> simp_all
  unfold newS
  simp only [hall, hemp, Bool.false_eq_true, if_false]
  cases hlegal : (L.map (·.1)).all legalName with
  | false => cases L.any (fun e => e.2.isNone) <;> simp
  | true =>
    simp only [Bool.not_true, Bool.false_eq_true, if_false, Bool.false_or]
    by_cases hnd : (L.map (·.1)).Nodup
    · -- distinct names: the map is the list of insertions
      have hM : insAll L [] = L := by simpa using insAll_nodup L [] (by simpa using hnd)
      have hed : ((L.map (·.1)).eraseDups.length != (L.map (·.1)).length) = false := by
        have := eraseDups_ne_iff (L.map (·.1))
        cases h : ((L.map (·.1)).eraseDups.length != (L.map (·.1)).length) with
        | false => rfl
        | true => exact absurd hnd (this.1 h)
      rw [hM]
      simp only [Bool.false_eq_true, if_false, List.length_map, bne_self_eq_false]
      have hallin : (L.map (·.1)).all (fun n => (L.map entryNewCol).any (fun c => c.name == n)) = true := by
        simp only [List.all_eq_true, List.any_eq_true, List.mem_map]
        rintro n ⟨e, he, rfl⟩
        exact ⟨entryNewCol e, ⟨e, he, rfl⟩, by simp [entryNewCol_name]⟩
      simp only [hallin, Bool.not_true, Bool.false_eq_true, if_false]
      have hord : (L.map (·.1)).filterMap (fun n => (L.map entryNewCol).find? (fun c => c.name == n)) = L.map entryNewCol := by
        have := filterMap_find_self (·.name) (L.map entryNewCol) (by rw [hnames]; exact hnd)
        rw [hnames] at this
        exact this
      rw [hord]
      cases hany : L.any (fun e => e.2.isNone) with
      | true =>
        rw [build_none_of_unsupported _ L [] hany]
        simp
      | false =>
        obtain ⟨e0, L', rfl⟩ : ∃ e0 L', L = e0 :: L' := by
          cases L with
          | nil => exact absurd rfl hne
          | cons e0 L' => exact ⟨e0, L', rfl⟩
        have h0 : ∃ lc, e0.2 = some lc := by
          simp only [List.any_cons, Bool.or_eq_false_iff] at hany
          cases h : e0.2 with
          | none => simp [h] at hany
          | some lc => exact ⟨lc, rfl⟩
        obtain ⟨lc0, hlc0⟩ := h0
        have hk0 := (hw e0 (List.mem_cons_self ..) lc0 hlc0).2.1
        have hc : (entryNewCol e0).count = (k : Int) := by simp [entryNewCol, hlc0, hk0]
        have hb := build_all_some k (e0 :: L') [] hw hany
        simp only [List.map_cons] at hb ⊢
        rw [hc, hb]
        simp
        simpa using hed
    · -- a name twice: the map has fewer entries than there are names
      have hlen : (insAll L []).length ≠ L.length := by
        intro h
        exact hnd (by simpa using insAll_full L [] (by simp) (by simpa using h))
      have hed : ((L.map (·.1)).eraseDups.length != (L.map (·.1)).length) = true := (eraseDups_ne_iff _).2 hnd
      have hne' : ((L.map (·.1)).length != ((insAll L []).map entryNewCol).length) = true := by
        simp only [List.length_map, bne_iff_ne, ne_eq]
        exact fun h => hlen h.symm
      simp only [hne', hed, if_true]
      cases L.any (fun e => e.2.isNone) <;> rfl

theorem resultM_eq (cn : List Bytes) : ∀ (cols : List MCol) (i : Nat) (m : MData), i + cols.length ≤ cn.length →
    resultM cn i cols m = some (insAll (List.zipWith (fun nm c => (nm, c.1.toLCol nm)) (cn.drop i) cols) m) := by
  intro cols
  induction cols with
  | nil => intro i m _; simp [resultM, insAll]
  | cons c cs ih =>
    intro i m h
    simp only [List.length_cons] at h
    have hi : i < cn.length := by omega
    rw [List.drop_eq_getElem_cons hi]
    simp only [resultM, List.getElem?_eq_getElem hi, List.zipWith_cons_cons, insAll, List.foldl_cons]
    have := ih (i + 1) (mInsert m cn[i] (c.1.toLCol cn[i])) (by omega)
    simpa [insAll] using this

theorem mapM_some_length {α β : Type} (f : α → Option β) : ∀ (l : List α) (l' : List β), l.mapM f = some l' →
    l'.length = l.length := by
  intro l
  induction l with
  | nil => intro l' h; simp at h; subst h; rfl
  | cons a l ih =>
    intro l' h
    rw [List.mapM_cons] at h
    cases ha : f a with
    | none => simp [ha] at h
    | some b =>
      cases hl : l.mapM f with
      | none => simp [ha, hl] at h
      | some bs =>
        simp [ha, hl] at h
        subst h
        simp [ih bs hl]

/-- a column of the spec: its name, one cell per value, no enum attributes -/
theorem sqlColumn_shape (name : Bytes) (co : Nat) (fixed : UInt64 → UInt64) (pfloat : Bytes → Option UInt64)
    (vals : List SqlVal) (lc : LCol) (h : sqlColumn name co fixed pfloat vals = some lc) :
    lc.name = name ∧ lc.cells.size = vals.length ∧ lc.vals = [] ∧ lc.strict = false := by
  have key : ∀ (f : SqlVal → Option Cell) (ty : CType),
      (vals.mapM f).map (fun (cs : List Cell) => ({ name := name, ty := ty, cells := cs.toArray } : LCol)) = some lc →
      lc.name = name ∧ lc.cells.size = vals.length ∧ lc.vals = [] ∧ lc.strict = false := by
    intro f ty hm
    cases hc : vals.mapM f with
    | none => simp [hc] at hm
    | some cs =>
      rw [hc] at hm
      simp only [Option.map_some, Option.some.injEq] at hm
      subst hm
      exact ⟨rfl, by simp [mapM_some_length f vals cs hc], rfl, rfl⟩
  unfold sqlColumn at h
  split at h
  · exact key _ _ h
  · split at h
    · simp at h
    · exact key _ _ h
  · split at h
    · simp at h
    · exact key _ _ h
    · exact key _ _ h
    · exact key _ _ h
    · exact key _ _ h
    · simp at h

theorem getElem!_map_lt {α β : Type} [Inhabited α] [Inhabited β] (f : α → β) (l : List α) (j : Nat) (h : j < l.length) :
    (l.map f)[j]! = f l[j]! := by
  simp [h]

theorem foldlM_delivered (P : RParams) (co : Coerce) (δ : SqlVal → DVal) (hδ : ∀ v, DVal.toSql (δ v) = some v) :
    ∀ (vals : List SqlVal) (c : Col), (vals.map δ).foldlM (stepV P co) c = vals.foldlM (scan (P.cfg co)) c := by
  intro vals
  induction vals with
  | nil => intro c; rfl
  | cons v vs ih =>
    intro c
    simp only [List.map_cons, List.foldlM_cons, stepV, hδ, Option.bind_some]
    cases scan (P.cfg co) c v with
    | none => rfl
    | some c' => exact ih c'

section Spec
variable (P : RParams) (cmap : Option (List (Bytes × CoFn))) (names : List Bytes) (rows : List (List SqlVal))

/-- column `j` of the spec -/
def specCol (j : Nat) : Option LCol :=
  sqlColumn names[j]! ((names.map (fun n => (coerceOf cmap n).toNat))[j]!) (P.cfg .none).fixed P.pfloat
    (rows.map (fun r => r[j]!))

/-- the columns after all rows, against the columns of the spec -/
theorem columns_spec (δ : SqlVal → DVal) (hδ : ∀ v, DVal.toSql (δ v) = some v)
    (harity : ∀ r ∈ rows, r.length = names.length)
    (hscope : ∀ j, j < names.length → inScope (coerceOf cmap names[j]!) (rows.map (fun r => r[j]!)) = true) :
    ∀ (ns : List Bytes) (i : Nat), names.drop i = ns →
    match colsIdx (fun j c => colM P c ((rows.map (List.map δ)).map (fun r => r[j]!))) i (cols0 cmap ns) with
    | none => ((List.range' i ns.length).map (specCol P cmap names rows)).any (·.isNone) = true
    | some mcols => List.zipWith (fun nm (c : MCol) => (nm, c.1.toLCol nm)) ns mcols =
        (List.range' i ns.length).map (fun j => (names[j]!, specCol P cmap names rows j)) := by
  intro ns
  induction ns with
  | nil => intro i _; rfl
  | cons n ns ih =>
    intro i hdrop
    have hi : i < names.length := by
      apply Classical.byContradiction
      intro hge
      rw [List.drop_eq_nil_of_le (by omega)] at hdrop
      cases hdrop
    have hn : names[i]! = n := by
      have := List.drop_eq_getElem_cons hi
      rw [hdrop] at this
      simp only [List.cons.injEq] at this
      simp [hi, this.1]
    have hdrop' : names.drop (i + 1) = ns := by
      have := List.drop_eq_getElem_cons hi
      rw [hdrop] at this
      simp only [List.cons.injEq] at this
      exact this.2.symm
    -- the values of column i
    have hvals : (rows.map (List.map δ)).map (fun r => r[i]!) = (rows.map (fun r => r[i]!)).map δ := by
      simp only [List.map_map]
      apply List.map_congr_left
      intro r hr
      simp only [Function.comp]
      exact getElem!_map_lt δ r i (by rw [harity r hr]; exact hi)
    have hcol : colM P (({} : Col), coerceOf cmap n) ((rows.map (List.map δ)).map (fun r => r[i]!)) =
        (scanAll (P.cfg (coerceOf cmap n)) (rows.map (fun r => r[i]!))).map (fun x => (x, coerceOf cmap n)) := by
      unfold colM scanAll
      rw [hvals, foldlM_delivered P _ δ hδ]
    have hspec : specCol P cmap names rows i =
        (scanAll (P.cfg (coerceOf cmap n)) (rows.map (fun r => r[i]!))).toLCol n := by
      unfold specCol
      have hco : (names.map (fun n => (coerceOf cmap n).toNat))[i]! = (coerceOf cmap n).toNat := by
        rw [getElem!_map_lt _ names i hi, hn]
      rw [hco, hn]
      have hs := hscope i hi
      rw [hn] at hs
      exact (scan_refines_spec (P.cfg (coerceOf cmap n)) n _ hs).symm
    have ih' := ih (i + 1) hdrop'
    simp only [cols0, List.map_cons, colsIdx, List.length_cons, List.range'_succ]
    rw [hcol]
    cases hA : scanAll (P.cfg (coerceOf cmap n)) (rows.map (fun r => r[i]!)) with
    | none =>
      simp only [Option.map_none]
      rw [hA] at hspec
      simp [hspec, ScanResult.toLCol]
    | some a =>
      simp only [Option.map_some]
      rw [hA] at hspec
      simp only [cols0] at ih'
      cases hc : colsIdx (fun j c => colM P c ((rows.map (List.map δ)).map (fun r => r[j]!))) (i + 1)
          (ns.map (fun n => (({} : Col), coerceOf cmap n))) with
      | none =>
        rw [hc] at ih'
        simp only [] at ih'
        simp only [List.any_cons, ih', Bool.or_true]
      | some cs =>
        rw [hc] at ih'
        simp only [] at ih'
        simp only [List.zipWith_cons_cons, ih', hn, hspec]
        rfl

end Spec

/-- the frame when the check of the coercion map passes: the spec's `readSqlS` with the coercions looked up by name -/
theorem refines_of_check (P : RParams) (cmap : Option (List (Bytes × CoFn))) (names : List Bytes)
    (rows : List (List SqlVal)) (δ : SqlVal → DVal) (hδ : ∀ v, DVal.toSql (δ v) = some v) (hn : names ≠ [])
    (harity : ∀ r ∈ rows, r.length = names.length)
    (hscope : ∀ j, j < names.length → inScope (coerceOf cmap names[j]!) (rows.map (fun r => r[j]!)) = true)
    (hck : checkFailsM cmap names = false) :
    ∃ r, genReadSql P cmap { names := names, rows := rows.map (List.map δ) } = some r ∧
      frameOf (r.map viewRes) =
        readSqlS names (names.map (fun n => (coerceOf cmap n).toNat)) (P.cfg .none).fixed P.pfloat rows := by
  obtain ⟨r, hr, hv⟩ := gen_readsql_semantics P cmap { names := names, rows := rows.map (List.map δ) }
  refine ⟨r, hr, ?_⟩
  rw [hv]
  by_cases hr0 : rows = []
  · subst hr0; rfl
  · have hM : readSqlM P cmap { names := names, rows := rows.map (List.map δ) } =
        if !((rows.map (List.map δ)).all fun r => r.length == names.length) then none
        else
          match colsIdx (fun j c => colM P c ((rows.map (List.map δ)).map (fun r => r[j]!))) 0 (cols0 cmap names) with
          | none => none
          | some mcols => (resultM names 0 mcols []).map (fun m => (m, names)) := by
      unfold readSqlM
      cases hrows : rows with
      | nil => exact absurd hrows hr0
      | cons r0 rs =>
        have hck' : checkFailsM cmap ({ names := names, rows := List.map (List.map δ) (r0 :: rs) } : Script).names = false := hck
        simp only [List.map_cons, hck', Bool.false_eq_true, if_false]
    have hS : readSqlS names (names.map (fun n => (coerceOf cmap n).toNat)) (P.cfg .none).fixed P.pfloat rows =
        if ((List.range' 0 names.length).map (specCol P cmap names rows)).any (·.isNone) then .err
        else if !(names.all legalName) || names.eraseDups.length != names.length then .err
        else .ok { cols := ((List.range' 0 names.length).map (specCol P cmap names rows)).filterMap id, n := rows.length } := by
      unfold readSqlS
      have : rows.isEmpty = false := by cases rows <;> simp_all
      simp only [this, Bool.false_eq_true, if_false, List.range_eq_range']
      rfl
    rw [hM, hS]
    have hall : ((rows.map (List.map δ)).all fun r => r.length == names.length) = true := by
      simp only [List.all_eq_true, List.mem_map]
      rintro x ⟨r, hr, rfl⟩
      simp [harity r hr]
    have hcs := columns_spec P cmap names rows δ hδ harity hscope names 0 rfl
    rw [hall]
    simp only [Bool.not_true, Bool.false_eq_true, if_false]
    cases hc : colsIdx (fun j c => colM P c ((rows.map (List.map δ)).map (fun r => r[j]!))) 0 (cols0 cmap names) with
    | none =>
      rw [hc] at hcs
      simp only [] at hcs
      simp only [frameOf, hcs, if_true]
    | some mcols =>
      rw [hc] at hcs
      simp only [] at hcs
      have hlen : mcols.length = names.length := by
        rw [colsIdx_length _ _ 0 mcols hc]; simp [cols0]
      show frameOf ((resultM names 0 mcols []).map (fun m => (m, names))) = _
      rw [resultM_eq names mcols 0 [] (by omega)]
      simp only [List.drop_zero, hcs, Option.map_some, frameOf]
      -- the insertions
      have hfst : ((List.range' 0 names.length).map (fun j => (names[j]!, specCol P cmap names rows j))).map (·.1) = names := by
        rw [List.map_map, ← List.range_eq_range']
        exact range_map_getElem names
      have hsnd : ((List.range' 0 names.length).map (fun j => (names[j]!, specCol P cmap names rows j))).map (·.2) =
          (List.range' 0 names.length).map (specCol P cmap names rows) := by
        rw [List.map_map]; rfl
      have hne : (List.range' 0 names.length).map (fun j => (names[j]!, specCol P cmap names rows j)) ≠ [] := by
        intro h
        have := congrArg List.length h
        simp at this
        exact hn this
      have hw : ∀ e ∈ (List.range' 0 names.length).map (fun j => (names[j]!, specCol P cmap names rows j)),
          ∀ lc, e.2 = some lc → lc.name = e.1 ∧ lc.cells.size = rows.length ∧ lc.vals = [] ∧ lc.strict = false := by
        intro e he lc hlc
        obtain ⟨j, _, rfl⟩ := List.mem_map.1 he
        simp only [] at hlc ⊢
        have := sqlColumn_shape _ _ _ _ _ lc hlc
        simpa using this
      have hN := newS_of_inserts rows.length _ hne hw
      rw [hfst] at hN
      rw [hN]
      have hany : ((List.range' 0 names.length).map (fun j => (names[j]!, specCol P cmap names rows j))).any
          (fun e => e.2.isNone) = ((List.range' 0 names.length).map (specCol P cmap names rows)).any (·.isNone) := by
        simp only [List.any_map, Function.comp_def]
      have hfm : ((List.range' 0 names.length).map (fun j => (names[j]!, specCol P cmap names rows j))).filterMap (·.2) =
          ((List.range' 0 names.length).map (specCol P cmap names rows)).filterMap id := by
        simp only [List.filterMap_map, Function.comp_def, id]
      rw [hany, hfm]

/-- the coercion map as the spec has it: the column name and the number of the coercion -/
def specCmap (cmap : Option (List (Bytes × CoFn))) : List (Bytes × Nat) :=
  (cmap.getD []).map (fun e => (e.1, e.2.coerce.toNat))

theorem coerceOf_spec (cmap : Option (List (Bytes × CoFn))) (n : Bytes) :
    (coerceOf cmap n).toNat = (((specCmap cmap).find? (·.1 == n)).map (·.2)).getD 0 := by
  unfold coerceOf specCmap
  cases cmap with
  | none => rfl
  | some m =>
    simp only [Option.bind_some, Option.getD_some]
    induction m with
    | nil => rfl
    | cons e m ih =>
      obtain ⟨k, v⟩ := e
      by_cases hk : k = n
      · subst hk
        simp [List.lookup_cons]
      · have h1 : (n == k) = false := by simp; exact fun h => hk h.symm
        have h2 : (k == n) = false := by simp [hk]
        simp only [List.lookup_cons, h1, List.map_cons, List.find?_cons, h2]
        exact ih

theorem specCmap_any (cmap : Option (List (Bytes × CoFn))) (names : List Bytes) :
    (specCmap cmap).any (fun e => e.2 != 0 && !names.contains e.1) = checkFailsM cmap names := by
  unfold specCmap checkFailsM
  cases cmap with
  | none => rfl
  | some m =>
    simp only [Option.getD_some, List.any_map, Function.comp_def]
    induction m with
    | nil => rfl
    | cons e m ih =>
      simp only [List.any_cons, ih]
      cases e.2 <;> simp [CoFn.coerce, Coerce.toNat]

/-- **`ReadSQL` of today's source, followed by `New(data, ColumnOrder(columns...))`, is the spec's `readSqlNamedS`.**
For every result set `rows` of `SqlVal`s with one value per column (`names ≠ []`), delivered by the driver in any way
that denotes them (`δ`: text as `string` or as `[]uint8`), every coercion map, precision, `float.Fixed` and
`strconv.ParseFloat`, when every column is in the scope in which `Column.Scan` refines the spec
(`C19Sql.inScope`: a column without coercion is typed and has no NULL in front of the first value of an int / bool column;
an `Int64ToBool` column is not empty) and the driver does not fail: the frame is `readSqlNamedS`'s — an error when the
result set has a row and the coercion map names a column it does not have, when a `Scan` fails, a column has NULLs only,
a name is illegal or occurs twice; else the columns in the order of the names, each with the coercion its name selects,
with one row per row. -/
theorem gen_readsql_refines_spec (P : RParams) (cmap : Option (List (Bytes × CoFn))) (names : List Bytes)
    (rows : List (List SqlVal)) (δ : SqlVal → DVal) (hδ : ∀ v, DVal.toSql (δ v) = some v) (hn : names ≠ [])
    (harity : ∀ r ∈ rows, r.length = names.length)
    (hscope : ∀ j, j < names.length → inScope (coerceOf cmap names[j]!) (rows.map (fun r => r[j]!)) = true) :
    ∃ r, genReadSql P cmap { names := names, rows := rows.map (List.map δ) } = some r ∧
      frameOf (r.map viewRes) = readSqlNamedS names (specCmap cmap) (P.cfg .none).fixed P.pfloat rows := by
  cases hck : checkFailsM cmap names with
  | false =>
    obtain ⟨r, hr, hf⟩ := refines_of_check P cmap names rows δ hδ hn harity hscope hck
    refine ⟨r, hr, ?_⟩
    rw [hf]
    unfold readSqlNamedS
    rw [specCmap_any, hck]
    have hco : names.map (fun n => (coerceOf cmap n).toNat) =
        names.map (fun n => (((specCmap cmap).find? (·.1 == n)).map (·.2)).getD 0) := by
      apply List.map_congr_left
      intro n _
      exact coerceOf_spec cmap n
    rw [hco]
    by_cases hr0 : rows.isEmpty = true
    · have : rows = [] := List.isEmpty_iff.1 hr0
      subst this
      rfl
    · simp [hr0]
  | true =>
    obtain ⟨r, hr, hv⟩ := gen_readsql_semantics P cmap { names := names, rows := rows.map (List.map δ) }
    refine ⟨r, hr, ?_⟩
    rw [hv]
    unfold readSqlNamedS
    rw [specCmap_any, hck]
    cases rows with
    | nil => rfl
    | cons r0 rs =>
      have hck' : checkFailsM cmap ({ names := names, rows := List.map (List.map δ) (r0 :: rs) } : Script).names = true := hck
      simp only [readSqlM, List.map_cons, hck', if_true, List.isEmpty_cons, Bool.false_eq_true, if_false]
      cases ({ names := names, rows := List.map δ r0 :: List.map (List.map δ) rs } : Script).columnsFail <;> rfl

/-! ## Witnesses: the statements tell wrong glue apart -/

section Witnesses

/-- what is observed of a returned column: the slice `Data()` points to and the slices -/
structure ObsCol where
  name : Bytes
  ptr : Option SSlice
  ints : List Int
  bools : List Bool
  strings : List (Option Bytes)
  deriving DecidableEq, Repr

inductive Obs where
  | noMeaning
  | error
  | ok (cols : List ObsCol) (names : List Bytes)
  deriving DecidableEq, Repr

def obsOf : Option (Option (List (Bytes × SRData) × List Bytes)) → Obs
  | none => .noMeaning
  | some none => .error
  | some (some (m, ns)) => .ok (m.map (fun e => ⟨e.1, e.2.1, e.2.2.ints, e.2.2.bools, e.2.2.strings⟩)) ns

private def PW : RParams := { precision := 0, fixedFn := fun _ f => f, pfloat := fun _ => none }
private def na : Bytes := [97]
private def nb : Bytes := [98]
private def sx : Bytes := [120]

/-- a term run over today's `Column.Scan` and `Data` -/
def runW (t : SR) (cmap : Option (List (Bytes × CoFn))) (S : Script) : Obs := obsOf (runReadSql (env PW cmap S) t)

def withTail (t : SR) : SR := .declVars (.forNext rowBody t)
def withRow (b : SR) : SR := .declVars (.forNext b tail)

example : canon = withTail tail ∧ canon = withRow rowBody := ⟨rfl, rfl⟩

/-- two rows of an int column and a text column: what today's term returns -/
example : runW canon none { names := [na, nb], rows := [[.int 1, .str sx], [.int 2, .null]] } =
    .ok [⟨na, some .ints, [1, 2], [], []⟩, ⟨nb, some .strings, [], [], [some sx, none]⟩] [na, nb] := by decide

/-- **a dropped `rows.Err()` check**: the driver fails after the first row (`Next` returns false, `Err()` is non-nil) —
the term without the check returns the truncated result without error, today's term the error -/
example : runW (withTail (.newResult (.rangeColumns (.setResult .done) .retResult))) none
      { names := [na], rows := [[.int 1]], finalErr := true } = .ok [⟨na, some .ints, [1], [], []⟩] [na] ∧
    runW canon none { names := [na], rows := [[.int 1]], finalErr := true } = .error := by decide

/-- the error of `rows.Scan` ignored (`if err != nil { }`): a value `Column.Scan` rejects is skipped -/
example : runW (withRow (.ifColumnsNil allocBlock (.scanRow .done .done))) none
      { names := [na], rows := [[.int 1], [.other], [.int 3]] } = .ok [⟨na, some .ints, [1, 3], [], []⟩] [na] ∧
    runW canon none { names := [na], rows := [[.int 1], [.other], [.int 3]] } = .error := by decide

/-- the columns allocated at every row (no `if columns == nil`): the second `Scan` has too many destinations -/
example : runW (withRow (.getColumns .retErr (.rangeNames allocBody (.setColNames (.scanRow .retErr .done))))) none
      { names := [na], rows := [[.int 1], [.int 2]] } = .error ∧
    runW canon none { names := [na], rows := [[.int 1], [.int 2]] } = .ok [⟨na, some .ints, [1, 2], [], []⟩] [na] := by decide

/-- without `colNames = names` the loop over the columns indexes an empty slice: no meaning (a panic) -/
example : runW (withRow (.ifColumnsNil (.getColumns .retErr (.rangeNames allocBody .done)) (.scanRow .retErr .done))) none
      { names := [na], rows := [[.int 1]] } = .noMeaning := by decide

/-- the coercion not installed (`col.coerce = fn(col)` missing): an `Int64ToBool` column stays an int column -/
example : runW (withRow (.ifColumnsNil (.getColumns .retErr (.rangeNames (.newColumn (.appendColumn .done))
        (.setColNames .done))) (.scanRow .retErr .done))) (some [(na, .int64ToBool)])
      { names := [na], rows := [[.int 1]] } = .ok [⟨na, some .ints, [1], [], []⟩] [na] ∧
    runW canon (some [(na, .int64ToBool)]) { names := [na], rows := [[.int 1]] } =
      .ok [⟨na, some .bools, [], [true], []⟩] [na] := by decide

/-- **the defect that was repaired**: in the OLD term (the check before `colNames = names`, the `return` inside the inner
loop) the inner loop has no rounds, so a map naming a column the result set does not have is accepted; today's term reports
it — and accepts a map whose keys are all column names, whatever their order -/
example : runW (withRow (.ifColumnsNil allocBlockOld (.scanRow .retErr .done))) (some [(nb, .int64ToBool)])
      { names := [na], rows := [[.int 1]] } = .ok [⟨na, some .ints, [1], [], []⟩] [na] ∧
    runW canon (some [(nb, .int64ToBool)]) { names := [na], rows := [[.int 1]] } = .error ∧
    runW canon (some [(nb, .int64ToBool)]) { names := [na, nb], rows := [[.int 1, .int 0]] } =
      .ok [⟨na, some .ints, [1], [], []⟩, ⟨nb, some .bools, [], [false], []⟩] [na, nb] ∧
    runW canon (some [(nb, .int64ToBool)]) { names := [na], rows := [] } = .ok [] [] := by
  decide

/-- the `return` left inside the inner loop (after `colNames = names`): a map naming the SECOND column is rejected -/
example : runW (withRow (.ifColumnsNil (.getColumns .retErr (.rangeNames allocBody (.setColNames (.ifCoerceMap checkMapOld .done))))
        (.scanRow .retErr .done))) (some [(nb, .int64ToBool)]) { names := [na, nb], rows := [[.int 1, .int 0]] } = .error := by
  decide

end Witnesses

#print axioms gen_readsql_canon
#print axioms gen_readsql_no_opaque
#print axioms canon_run
#print axioms gen_readsql_semantics
#print axioms gen_readsql_faults
#print axioms gen_readsql_scan_fault
#print axioms gen_readsql_refines_spec
#print axioms gen_readsql_coerce_unknown
#print axioms gen_readsql_coerce_known

end QF.Props.C19ReadSqlGen
