import QF.Props.C16CoreLoops
/-!
# C16 — the Ryu core, step 4 (3f, second part): step 4 is correct given what step 3 hands over

`step4_correct`: under `Sem` (the three numbers of step 3 are the exact floors of the scaled interval ends and value, the two
flags are sound) the decimal computed by step 4 — general or common case — is in the rounding interval (`Adm`), no
decimal with fewer digits is, and no admissible decimal of the same length is closer to the exact value (`Spec`).
-/
namespace QF.Props.C16Core
open QF.Ryu64

/-! ## 3f. step 4 as a whole -/

theorem rmN_add : ∀ (i j : Nat) (s : Gen), rmN j (rmN i s) = rmN (i + j) s := by
  intro i
  induction i with
  | zero => intro j s; simp [rmN]
  | succ i ih => intro j s; rw [show i + 1 + j = (i + j) + 1 by omega]; exact ih j (rm1 s)

/-- the state at the beginning of step 4's general case -/
def gen0 (s3 : Step3) : Gen :=
  { vr := s3.vr, vp := s3.vp, vm := s3.vm,
    vmIsTrailingZeros := s3.vmIsTrailingZeros, vrIsTrailingZeros := s3.vrIsTrailingZeros }

/-- number of digits removed by the general case -/
def kGeneral (s3 : Step3) : Nat :=
  cnt1 20 s3.vp s3.vm +
    if (rmN (cnt1 20 s3.vp s3.vm) (gen0 s3)).vmIsTrailingZeros then cnt2 20 (rmN (cnt1 20 s3.vp s3.vm) (gen0 s3)).vm else 0

theorem step4General_eq (s3 : Step3) (incl : Bool) :
    step4General s3 incl =
      (finish (rmN (kGeneral s3) (gen0 s3)).vr (rmN (kGeneral s3) (gen0 s3)).vm incl
          (rmN (kGeneral s3) (gen0 s3)).vmIsTrailingZeros (rmN (kGeneral s3) (gen0 s3)).vrIsTrailingZeros
          (rmN (kGeneral s3) (gen0 s3)).lastRemovedDigit,
        (rmN (kGeneral s3) (gen0 s3)).removed) := by
  have h : (if (loopGeneral1 20 (gen0 s3)).vmIsTrailingZeros then loopGeneral2 20 (loopGeneral1 20 (gen0 s3))
      else loopGeneral1 20 (gen0 s3)) = rmN (kGeneral s3) (gen0 s3) := by
    unfold kGeneral
    rw [loopGeneral1_eq]
    show (if (rmN (cnt1 20 s3.vp s3.vm) (gen0 s3)).vmIsTrailingZeros then _ else _) = _
    split
    · rw [loopGeneral2_eq, rmN_add]; rfl
    · rw [Nat.add_zero]; rfl
  unfold step4General finish
  unfold gen0 at h ⊢
  dsimp only
  rw [h]


def com0 (s3 : Step3) : Com := { vr := s3.vr, vp := s3.vp, vm := s3.vm }

theorem step4Common_loops (s3 : Step3) (hvp : s3.vp < 10 ^ 20) :
    loopCommon10 20 (loopCommon100 20 (com0 s3)) = crmN (cnt1 20 s3.vp s3.vm) (com0 s3) := by
  rw [loopCommon100_eq, loopCommon10_eq, crmN_add]
  obtain ⟨_, h2, h3, _⟩ := crmN_fields (2 * cnt100 20 (com0 s3).vp (com0 s3).vm) (com0 s3)
  rw [h2, h3]
  show crmN (2 * cnt100 20 s3.vp s3.vm + cnt1 20 (s3.vp / 10 ^ (2 * cnt100 20 s3.vp s3.vm))
    (s3.vm / 10 ^ (2 * cnt100 20 s3.vp s3.vm))) _ = _
  rw [common_count s3.vp s3.vm hvp]

theorem step4Common_eq (s3 : Step3) (incl : Bool) (hvp : s3.vp < 10 ^ 20) (hvr : s3.vr < 2 ^ 64) :
    step4Common s3 =
      (finish (s3.vr / 10 ^ cnt1 20 s3.vp s3.vm) (s3.vm / 10 ^ cnt1 20 s3.vp s3.vm) incl false false
          (digitAt s3.vr (cnt1 20 s3.vp s3.vm)),
        ((cnt1 20 s3.vp s3.vm : Nat) : Int)) := by
  have h := step4Common_loops s3 hvp
  unfold step4Common
  unfold com0 at h
  dsimp only
  rw [h]
  obtain ⟨h1, _, h3, h4⟩ := crmN_fields (cnt1 20 s3.vp s3.vm) (com0 s3)
  unfold com0 at h1 h3 h4
  rw [h1, h3, h4]
  have hru : (crmN (cnt1 20 s3.vp s3.vm) { vr := s3.vr, vp := s3.vp, vm := s3.vm }).roundUp =
      decide (digitAt s3.vr (cnt1 20 s3.vp s3.vm) ≥ 5) := by
    cases hk : cnt1 20 s3.vp s3.vm with
    | zero => simp [crmN, digitAt]
    | succ k => rw [crmN_roundUp]; simp [digitAt]
  rw [hru]
  have hr64 : s3.vr / 10 ^ cnt1 20 s3.vp s3.vm < 2 ^ 64 := Nat.lt_of_le_of_lt (Nat.div_le_self _ _) hvr
  generalize s3.vr / 10 ^ cnt1 20 s3.vp s3.vm = r at *
  generalize s3.vm / 10 ^ cnt1 20 s3.vp s3.vm = m at *
  generalize digitAt s3.vr (cnt1 20 s3.vp s3.vm) = last at *
  unfold finish
  simp only [Bool.false_and, Bool.false_eq_true, if_false, Bool.not_false, Bool.or_true, Bool.and_true, Int.zero_add]
  by_cases hc : (r == m || decide (last ≥ 5)) = true
  · rw [if_pos hc, hc]; rfl
  · rw [if_neg hc]
    have : (r == m || decide (last ≥ 5)) = false := by simpa using hc
    rw [this]
    show (u64 (r + 0), _) = _
    rw [Nat.add_zero, u64_of_lt r hr64]


/-- What step 4 assumes about the result of step 3. `[A/D, C/D]` is the rounding interval and `B/D` the exact value, in units of
`10^e10` (`A`, `B`, `C`: numerators over the common denominator `D`); `incl` = the bounds are acceptable.
* `hvm`, `hvr`: `vm`, `vr` are the exact floors; `hvp`: so is `vp`, one less when the upper bound is an excluded integer — but
  only up to its last digit (step 4 never looks at the last digit of `vp`), so that a missing decrement is harmless when that
  integer is not a multiple of 10;
* `hfm1`: `vmIsTrailingZeros` is only set when the lower bound is an acceptable integer; `hfm2`: it may be left unset for such a
  bound only if that integer is not a multiple of 10; `hfr`: `vrIsTrailingZeros` is only ever set when the value is an integer,
  or a half-integer whose double is a multiple of 5 (which can never look like an exact tie, `half_int_tie`; the branch
  `e2 < 0`, `2 ≤ q < 63` of the code tests `q - 1` trailing zero bits and does set the flag for such values);
* the interval is at least two units wide around the value, the lower neighbour is not farther than the upper one, and either
  the value is an integer or the interval is wide enough to contain a multiple of 10 (so at least one digit is removed). -/
structure Sem (A B C D : Nat) (incl : Bool) (s3 : Step3) : Prop where
  hD : 0 < D
  hA : D ≤ A
  hAB : A + D ≤ B
  hBC : B + D ≤ C
  hgap : B - A ≤ C - B
  hwide : D ∣ B ∨ A + 10 * D + 1 ≤ C
  hvm : s3.vm = A / D
  hvr : s3.vr = B / D
  hvp : s3.vp / 10 = hiEnd C incl / D / 10
  hlt : hiEnd C incl / D < 2 ^ 64
  hfm1 : s3.vmIsTrailingZeros = true → (incl = true ∧ D ∣ A)
  hfm2 : incl = true → D ∣ A → s3.vmIsTrailingZeros = false → ¬ 10 ∣ A / D
  hfr : s3.vrIsTrailingZeros = true → (D ∣ B ∨ (D ∣ 2 * B ∧ 5 ∣ 2 * B / D))

theorem Sem.vp20 {A B C D : Nat} {incl : Bool} {s3 : Step3} (h : Sem A B C D incl s3) : s3.vp < 10 ^ 20 := by
  have h1 := h.hvp
  have h2 := h.hlt
  have h3 : hiEnd C incl / D / 10 ≤ hiEnd C incl / D := Nat.div_le_self _ _
  generalize hiEnd C incl / D = p at *
  omega

/-- what the loops establish when they stop after `k` removals with flags `fm`, `fr` -/
structure KF (A B C D : Nat) (incl : Bool) (k : Nat) (fm fr : Bool) : Prop where
  K1 : hiEnd C incl / (D * 10 ^ (k + 1)) ≤ A / (D * 10 ^ (k + 1))
  K2 : ¬ (incl = true ∧ D * 10 ^ (k + 1) ∣ A)
  K3 : 1 ≤ k → A / (D * 10 ^ k) < hiEnd C incl / (D * 10 ^ k) ∨ (incl = true ∧ D * 10 ^ k ∣ A)
  K4 : (fm = true → (incl = true ∧ D * 10 ^ k ∣ A)) ∧
    ((incl = true ∧ D * 10 ^ k ∣ A) → fm = false → B / (D * 10 ^ k) ≠ A / (D * 10 ^ k))
  K5 : fr = true → ((D ∣ B ∨ (D ∣ 2 * B ∧ 5 ∣ 2 * B / D)) ∧ (k = 0 ∨ 10 ^ (k - 1) ∣ B / D))
  K6 : k = 0 → D ∣ B

/-- the specification of step 4: `out · 10^k` is in the rounding interval, no decimal with fewer digits (a multiple of
`10^(k+1)`) is, and no admissible multiple of `10^k` is closer to the exact value -/
def Spec (A B C D : Nat) (incl : Bool) (out k : Nat) : Prop :=
  Adm A C D incl out k ∧ (∀ n, ¬ Adm A C D incl n (k + 1)) ∧
    ∀ n, Adm A C D incl n k → dist (out * (D * 10 ^ k)) B ≤ dist (n * (D * 10 ^ k)) B

theorem spec_of_KF {A B C D : Nat} {incl : Bool} {s3 : Step3} (h : Sem A B C D incl s3) {k : Nat} {fm fr : Bool}
    (kf : KF A B C D incl k fm fr) :
    Spec A B C D incl (finish (B / (D * 10 ^ k)) (A / (D * 10 ^ k)) incl fm fr (digitAt (B / D) k)) k := by
  obtain ⟨h1, h2⟩ := finish_correct A B C D k incl fm fr h.hD h.hAB h.hBC h.hgap h.hlt kf.K3 kf.K4 kf.K5 kf.K6
  exact ⟨h1, none_shorter A C D k incl h.hD kf.K1 kf.K2, h2⟩

theorem ex_split {A D : Nat} {incl : Bool} (hD : 0 < D) (j : Nat) :
    (incl = true ∧ D * 10 ^ j ∣ A) ↔ ((incl = true ∧ D ∣ A) ∧ 10 ^ j ∣ A / D) := by
  rw [mul_dvd_iff D (10 ^ j) A hD, and_assoc]

theorem div_pow_le_of_le (vp vm : Nat) {i j : Nat} (hij : i ≤ j) (h : vp / 10 ^ i ≤ vm / 10 ^ i) :
    vp / 10 ^ j ≤ vm / 10 ^ j := by
  obtain ⟨d, rfl⟩ : ∃ d, j = i + d := ⟨j - i, by omega⟩
  rw [Nat.pow_add, ← Nat.div_div_eq_div_mul, ← Nat.div_div_eq_div_mul]
  exact Nat.div_le_div_right h

theorem wide_removes (A C D Cu : Nat) (hD : 0 < D) (hCu : C ≤ Cu + 1) (hw : A + 10 * D + 1 ≤ C) :
    ¬ (Cu / D / 10 ^ (0 + 1) ≤ A / D / 10 ^ (0 + 1)) := by
  rw [Nat.div_div_eq_div_mul, Nat.div_div_eq_div_mul]
  have hX : 0 < D * 10 ^ (0 + 1) := Nat.mul_pos hD (by decide)
  have : A / (D * 10 ^ (0 + 1)) + 1 ≤ Cu / (D * 10 ^ (0 + 1)) := by
    rw [← Nat.add_div_right A hX]; apply Nat.div_le_div_right
    show A + D * 10 ≤ Cu
    omega
  omega


theorem hiEnd_facts (C : Nat) (incl : Bool) :
    hiEnd C incl ≤ C ∧ C ≤ hiEnd C incl + 1 ∧ (incl = true → hiEnd C incl = C) := by
  unfold hiEnd; cases incl <;> simp <;> omega

theorem div_ten_pow_succ (x j : Nat) : x / 10 ^ (j + 1) = x / 10 / 10 ^ j := by
  rw [Nat.div_div_eq_div_mul, Nat.pow_succ, Nat.mul_comm]

/-- the loop facts in terms of the machine values `vm`, `vp`, `vr` give the facts about the exact quantities -/
theorem KF_of {A B C D : Nat} {incl : Bool} {s3 : Step3} (h : Sem A B C D incl s3) (k : Nat) (fm fr : Bool)
    (hk1 : cnt1 20 s3.vp s3.vm ≤ k)
    (P2 : ¬ (s3.vmIsTrailingZeros = true ∧ 10 ^ (k + 1) ∣ s3.vm))
    (P3 : 1 ≤ k → s3.vm / 10 ^ k < s3.vp / 10 ^ k ∨ (s3.vmIsTrailingZeros = true ∧ 10 ^ k ∣ s3.vm))
    (P4 : fm = true ↔ (s3.vmIsTrailingZeros = true ∧ 10 ^ k ∣ s3.vm))
    (P5 : fr = true → (s3.vrIsTrailingZeros = true ∧ (k = 0 ∨ 10 ^ (k - 1) ∣ s3.vr)))
    (P6 : k = 0 → cnt1 20 s3.vp s3.vm = 0) : KF A B C D incl k fm fr := by
  have hvp20 : s3.vp < 10 ^ 20 := h.vp20
  have hc := cnt1_spec 20 s3.vp s3.vm hvp20
  have e : ∀ x j : Nat, x / D / 10 ^ j = x / (D * 10 ^ j) := fun x j => Nat.div_div_eq_div_mul _ _ _
  -- `vp` agrees with the exact floor from the second digit on
  have hvpj : ∀ j, s3.vp / 10 ^ (j + 1) = hiEnd C incl / (D * 10 ^ (j + 1)) := by
    intro j; rw [div_ten_pow_succ, h.hvp, ← div_ten_pow_succ, e]
  -- an unreported exact lower bound has a non-zero last digit
  have hmiss : (incl = true ∧ D ∣ A) → s3.vmIsTrailingZeros = false → ∀ j, 10 ^ (j + 1) ∣ s3.vm → False := by
    intro hex hf j hd
    apply h.hfm2 hex.1 hex.2 hf
    rw [← h.hvm]
    exact Nat.dvd_trans (Nat.dvd_mul_left 10 (10 ^ j)) (by rwa [Nat.pow_succ] at hd)
  refine ⟨?_, ?_, ?_, ?_, ?_, ?_⟩
  · have := div_pow_le_of_le s3.vp s3.vm (Nat.succ_le_succ hk1) hc.2
    rwa [hvpj, h.hvm, e] at this
  · rw [ex_split h.hD, ← h.hvm]
    rintro ⟨hex, hd⟩
    cases hf : s3.vmIsTrailingZeros with
    | true => exact P2 ⟨hf, hd⟩
    | false => exact hmiss hex hf k hd
  · intro hk
    obtain ⟨k', rfl⟩ : ∃ k', k = k' + 1 := ⟨k - 1, by omega⟩
    rcases P3 hk with h3 | ⟨h3, h4⟩
    · left; rwa [hvpj, h.hvm, e] at h3
    · right; rw [ex_split h.hD, ← h.hvm]; exact ⟨h.hfm1 h3, h4⟩
  · constructor
    · intro hfm
      obtain ⟨h3, h4⟩ := P4.mp hfm
      rw [ex_split h.hD, ← h.hvm]; exact ⟨h.hfm1 h3, h4⟩
    · rw [ex_split h.hD, ← h.hvm]
      rintro ⟨hex, hd⟩ hfm
      have hf : s3.vmIsTrailingZeros = false := by
        cases hf : s3.vmIsTrailingZeros with
        | false => rfl
        | true => rw [P4.mpr ⟨hf, hd⟩] at hfm; cases hfm
      have hk0 : k = 0 := by
        cases k with
        | zero => rfl
        | succ k' => exact (hmiss hex hf k' hd).elim
      subst hk0
      rw [Nat.pow_zero, Nat.mul_one]
      have : A / D + 1 ≤ B / D := by
        rw [← Nat.add_div_right A h.hD]; exact Nat.div_le_div_right h.hAB
      omega
  · intro hfr
    obtain ⟨h1, h2⟩ := P5 hfr
    rw [← h.hvr]
    exact ⟨h.hfr h1, h2⟩
  · intro hk
    have hk1' := P6 hk
    rcases h.hwide with hw | hw
    · exact hw
    · exfalso
      have := hc.2
      rw [hk1', div_ten_pow_succ, h.hvp, ← div_ten_pow_succ, h.hvm] at this
      exact wide_removes A C D _ h.hD (hiEnd_facts C incl).2.1 hw this

theorem pow_add_dvd_iff (a b v : Nat) : 10 ^ (a + b) ∣ v ↔ 10 ^ a ∣ v ∧ 10 ^ b ∣ v / 10 ^ a := by
  rw [Nat.pow_add]; exact mul_dvd_iff (10 ^ a) (10 ^ b) v (Nat.pow_pos (by decide))

theorem general_KF {A B C D : Nat} {incl : Bool} {s3 : Step3} (h : Sem A B C D incl s3) :
    KF A B C D incl (kGeneral s3) (rmN (kGeneral s3) (gen0 s3)).vmIsTrailingZeros
      (rmN (kGeneral s3) (gen0 s3)).vrIsTrailingZeros := by
  have hvp20 : s3.vp < 10 ^ 20 := h.vp20
  have hc := cnt1_spec 20 s3.vp s3.vm hvp20
  have hv1 := rmN_vmTZ (cnt1 20 s3.vp s3.vm) (gen0 s3)
  have hvm1 := (rmN_vr (cnt1 20 s3.vp s3.vm) (gen0 s3)).2.2.1
  have hP4 := rmN_vmTZ (kGeneral s3) (gen0 s3)
  have hP5 : (rmN (kGeneral s3) (gen0 s3)).vrIsTrailingZeros = true →
      (s3.vrIsTrailingZeros = true ∧ (kGeneral s3 = 0 ∨ 10 ^ (kGeneral s3 - 1) ∣ s3.vr)) := by
    intro hfr
    cases hk : kGeneral s3 with
    | zero => rw [hk] at hfr; exact ⟨hfr, Or.inl rfl⟩
    | succ k' =>
      rw [hk] at hfr
      obtain ⟨a, _, c⟩ := (rmN_vrTZ k' (gen0 s3)).mp hfr
      exact ⟨a, Or.inr c⟩
  change (rmN _ _).vmIsTrailingZeros = true ↔ s3.vmIsTrailingZeros = true ∧ 10 ^ _ ∣ s3.vm at hv1 hP4
  change (rmN _ _).vm = s3.vm / _ at hvm1
  by_cases hg : (rmN (cnt1 20 s3.vp s3.vm) (gen0 s3)).vmIsTrailingZeros = true
  · -- the second loop runs
    have hk : kGeneral s3 = cnt1 20 s3.vp s3.vm + cnt2 20 (s3.vm / 10 ^ cnt1 20 s3.vp s3.vm) := by
      unfold kGeneral; rw [if_pos hg, hvm1]
    obtain ⟨hf0, hd1⟩ := hv1.mp hg
    have hvmpos : 0 < s3.vm := by
      rw [h.hvm]; exact Nat.div_pos h.hA h.hD
    have hq0 : s3.vm / 10 ^ cnt1 20 s3.vp s3.vm ≠ 0 :=
      Nat.ne_of_gt (Nat.div_pos (Nat.le_of_dvd hvmpos hd1) (Nat.pow_pos (by decide)))
    have hq20 : s3.vm / 10 ^ cnt1 20 s3.vp s3.vm < 10 ^ 20 := by
      apply Nat.lt_of_le_of_lt (Nat.div_le_self _ _)
      rw [h.hvm]
      apply Nat.lt_of_le_of_lt _ (Nat.lt_trans h.hlt (by decide))
      apply Nat.div_le_div_right
      have := (hiEnd_facts C incl).2.1
      have := h.hAB; have := h.hBC; have := h.hD
      omega
    obtain ⟨hd2, hnd2⟩ := cnt2_spec 20 _ hq0 hq20
    rw [hk] at hP4 hP5 ⊢
    generalize cnt2 20 (s3.vm / 10 ^ cnt1 20 s3.vp s3.vm) = k2 at *
    refine KF_of h (cnt1 20 s3.vp s3.vm + k2) _ _ (Nat.le_add_right _ _) ?_ ?_ hP4 hP5 (fun h0 => by omega)
    · rintro ⟨_, hdd⟩
      rw [Nat.add_assoc, pow_add_dvd_iff] at hdd
      exact hnd2 hdd.2
    · intro _
      right
      exact ⟨hf0, (pow_add_dvd_iff _ k2 _).mpr ⟨hd1, hd2⟩⟩
  · have hk : kGeneral s3 = cnt1 20 s3.vp s3.vm := by
      unfold kGeneral; rw [if_neg hg, Nat.add_zero]
    rw [hk] at hP4 hP5 ⊢
    refine KF_of h (cnt1 20 s3.vp s3.vm) _ _ (Nat.le_refl _) ?_ ?_ hP4 hP5 (fun h => h)
    · rintro ⟨hf0, hdd⟩
      apply hg
      exact hv1.mpr ⟨hf0, Nat.dvd_trans (Nat.pow_dvd_pow 10 (Nat.le_succ _)) hdd⟩
    · intro hk1
      left
      have := hc.1 (cnt1 20 s3.vp s3.vm - 1) (by omega)
      rwa [show cnt1 20 s3.vp s3.vm - 1 + 1 = cnt1 20 s3.vp s3.vm by omega] at this


theorem common_KF {A B C D : Nat} {incl : Bool} {s3 : Step3} (h : Sem A B C D incl s3)
    (hm : s3.vmIsTrailingZeros = false) (_hr : s3.vrIsTrailingZeros = false) :
    KF A B C D incl (cnt1 20 s3.vp s3.vm) false false := by
  have hvp20 : s3.vp < 10 ^ 20 := h.vp20
  have hc := cnt1_spec 20 s3.vp s3.vm hvp20
  refine KF_of h _ _ _ (Nat.le_refl _) ?_ ?_ ?_ ?_ (fun h => h)
  · rw [hm]; rintro ⟨h0, _⟩; cases h0
  · intro hk1
    left
    have := hc.1 (cnt1 20 s3.vp s3.vm - 1) (by omega)
    rwa [show cnt1 20 s3.vp s3.vm - 1 + 1 = cnt1 20 s3.vp s3.vm by omega] at this
  · rw [hm]; simp
  · intro h0; cases h0

theorem rmN_last' (k : Nat) (s3 : Step3) : (rmN k (gen0 s3)).lastRemovedDigit = digitAt s3.vr k := by
  cases k with
  | zero => rfl
  | succ k => rw [rmN_last]; simp [digitAt, gen0]

/-- 3f. Step 4 is correct: if step 3 hands over the exact floors of the scaled interval ends and value together with sound
flags (`Sem`), then the decimal `(out, removed)` computed by step 4 — general or common case, as the code chooses —
lies in the rounding interval, has the fewest digits of all decimals in the interval, and is a closest one of that
length to the exact value. -/
theorem step4_correct {A B C D : Nat} {incl : Bool} {s3 : Step3} (h : Sem A B C D incl s3) :
    ∃ k : Nat, (step4 s3 incl).2 = (k : Int) ∧ Spec A B C D incl (step4 s3 incl).1 k := by
  unfold step4
  have e : ∀ x j : Nat, x / D / 10 ^ j = x / (D * 10 ^ j) := fun x j => Nat.div_div_eq_div_mul _ _ _
  by_cases hf : (s3.vmIsTrailingZeros || s3.vrIsTrailingZeros) = true
  · rw [if_pos hf, step4General_eq]
    refine ⟨kGeneral s3, ?_, ?_⟩
    · show (rmN (kGeneral s3) (gen0 s3)).removed = _
      rw [(rmN_vr _ _).2.2.2]; show (0 : Int) + _ = _; omega
    · show Spec A B C D incl (finish _ _ _ _ _ _) _
      have hs := spec_of_KF h (general_KF h)
      rw [(rmN_vr _ _).1, (rmN_vr _ _).2.2.1, rmN_last']
      show Spec A B C D incl (finish (s3.vr / _) (s3.vm / _) _ _ _ _) _
      rw [h.hvr, h.hvm, e, e]
      exact hs
  · have hf' : s3.vmIsTrailingZeros = false ∧ s3.vrIsTrailingZeros = false := by
      cases h1 : s3.vmIsTrailingZeros <;> cases h2 : s3.vrIsTrailingZeros <;> simp [h1, h2] at hf ⊢
    rw [if_neg hf]
    have hvp20 : s3.vp < 10 ^ 20 := h.vp20
    have hvr64 : s3.vr < 2 ^ 64 := by
      rw [h.hvr]
      apply Nat.lt_of_le_of_lt _ h.hlt
      apply Nat.div_le_div_right
      have := (hiEnd_facts C incl).2.1
      have := h.hBC; have := h.hD
      omega
    rw [step4Common_eq s3 incl hvp20 hvr64]
    refine ⟨cnt1 20 s3.vp s3.vm, rfl, ?_⟩
    have hs := spec_of_KF h (common_KF h hf'.1 hf'.2)
    show Spec A B C D incl (finish (s3.vr / _) (s3.vm / _) _ _ _ _) _
    generalize cnt1 20 s3.vp s3.vm = k at hs ⊢
    rw [h.hvr, h.hvm, e, e]
    exact hs

end QF.Props.C16Core
