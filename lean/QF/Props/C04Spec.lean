import QF.Spec.Ops
/-
C04 (GroupBy) — the specification `groupsS` really is the partition the property describes.

`groupsS gbNull keys n` is a `foldl` over `List.range n` with an `Array` accumulator. We
 * move the fold to lists (`stepA`/`stepL`, `groupsS_eq_foldl_stepL`),
 * characterise one step by a decomposition of the accumulator (`stepL_spec`),
 * prove an invariant of the fold (`Inv`, `Inv.fold`) for an arbitrary row relation `E`,
 * derive the user-facing theorems `groupsS_*` for `E = rowKeyEq gbNull keys`,
 * show that `keyEq` (hence `rowKeyEq`) is symmetric and transitive *unconditionally*
   (it is a partial equivalence relation; reflexivity fails exactly on null keys when
   `gbNull = false`), which makes the "any two rows of a group" version hypothesis-free.
-/
namespace QF.Props.C04Spec
open QF List

def hit (E : Nat → Nat → Bool) (r : Nat) : List Nat → Bool
  | h :: _ => E h r
  | [] => false

def stepL (E : Nat → Nat → Bool) (gs : List (List Nat)) (r : Nat) : List (List Nat) :=
  match gs.findIdx? (hit E r) with
  | some i => gs.modify i (fun g => g ++ [r])
  | none => gs ++ [[r]]

def stepA (E : Nat → Nat → Bool) (gs : Array (List Nat)) (r : Nat) : Array (List Nat) :=
  match gs.findIdx? (hit E r) with
  | some i => gs.modify i (fun g => g ++ [r])
  | none => gs.push [r]

theorem groupsS_eq_foldl_stepA (gbNull : Bool) (keys : List LCol) (n : Nat) :
    groupsS gbNull keys n = ((List.range n).foldl (stepA (rowKeyEq gbNull keys)) #[]).toList := rfl

theorem stepA_toList (E : Nat → Nat → Bool) (gs : Array (List Nat)) (r : Nat) :
    (stepA E gs r).toList = stepL E gs.toList r := by
  cases gs with
  | mk l =>
    simp only [stepA, stepL, List.findIdx?_toArray]
    cases l.findIdx? (hit E r) with
    | none => simp
    | some i => simp

theorem foldl_stepA_toList (E : Nat → Nat → Bool) (l : List Nat) (gs : Array (List Nat)) :
    (l.foldl (stepA E) gs).toList = l.foldl (stepL E) gs.toList := by
  induction l generalizing gs with
  | nil => rfl
  | cons r l ih => simp only [List.foldl_cons, ih, stepA_toList]

theorem stepL_spec (E : Nat → Nat → Bool) (gs : List (List Nat)) (r : Nat) :
    (∃ A g B, gs = A ++ g :: B ∧ hit E r g = true ∧ (∀ a ∈ A, hit E r a = false) ∧
        stepL E gs r = A ++ (g ++ [r]) :: B) ∨
    ((∀ g ∈ gs, hit E r g = false) ∧ stepL E gs r = gs ++ [[r]]) := by
  unfold stepL
  cases h : gs.findIdx? (hit E r) with
  | none =>
    right
    exact ⟨List.findIdx?_eq_none_iff.mp h, rfl⟩
  | some i =>
    left
    obtain ⟨hi, hp, hlt⟩ := List.findIdx?_eq_some_iff_getElem.mp h
    refine ⟨gs.take i, gs[i], gs.drop (i+1), ?_, hp, ?_, ?_⟩
    · simp
    · intro a ha
      obtain ⟨j, hj, rfl⟩ := List.mem_take_iff_getElem.mp ha
      have := hlt j (by omega)
      simpa using this
    · exact List.modify_eq_take_cons_drop hi

structure Inv (E : Nat → Nat → Bool) (k : Nat) (gs : List (List Nat)) : Prop where
  ne : ∀ g ∈ gs, g ≠ []
  sorted : ∀ g ∈ gs, g.Pairwise (· < ·)
  perm : gs.flatten.Perm (List.range k)
  headsInc : (gs.map List.head?).Pairwise (fun a b => ∀ h1 ∈ a, ∀ h2 ∈ b, h1 < h2)
  tailEq : ∀ h t, (h :: t) ∈ gs → ∀ x ∈ t, E h x = true
  headsNe : (gs.map List.head?).Pairwise (fun a b => ∀ h1 ∈ a, ∀ h2 ∈ b, E h1 h2 = false)

theorem Inv.bound {E k gs} (inv : Inv E k gs) {g : List Nat} (hg : g ∈ gs) {x : Nat} (hx : x ∈ g) :
    x < k := by
  have : x ∈ gs.flatten := List.mem_flatten.mpr ⟨g, hg, hx⟩
  exact List.mem_range.mp (inv.perm.mem_iff.mp this)

theorem Inv.zero (E : Nat → Nat → Bool) : Inv E 0 [] := by
  constructor <;> simp

theorem Inv.push {E k gs} (inv : Inv E k gs) (hno : ∀ g ∈ gs, hit E k g = false) :
    Inv E (k+1) (gs ++ [[k]]) := by
  constructor
  · intro g hg
    rcases List.mem_append.mp hg with hg | hg
    · exact inv.ne g hg
    · simp at hg; simp [hg]
  · intro g hg
    rcases List.mem_append.mp hg with hg | hg
    · exact inv.sorted g hg
    · simp at hg; simp [hg]
  · rw [List.flatten_append, List.range_succ]
    simpa using inv.perm.append_right [k]
  · rw [List.map_append, List.pairwise_append]
    refine ⟨inv.headsInc, by simp, ?_⟩
    intro a ha b hb h1 hh1 h2 hh2
    simp at hb; subst hb; simp at hh2; subst hh2
    obtain ⟨g, hg, rfl⟩ := List.mem_map.mp ha
    exact inv.bound hg (List.mem_of_mem_head? hh1)
  · intro h t hg x hx
    rcases List.mem_append.mp hg with hg | hg
    · exact inv.tailEq h t hg x hx
    · simp at hg; rw [hg.2] at hx; simp at hx
  · rw [List.map_append, List.pairwise_append]
    refine ⟨inv.headsNe, by simp, ?_⟩
    intro a ha b hb h1 hh1 h2 hh2
    simp at hb; subst hb; simp at hh2; subst hh2
    obtain ⟨g, hg, rfl⟩ := List.mem_map.mp ha
    have := hno g hg
    cases g with
    | nil => simp at hh1
    | cons h t => simp at hh1; subst hh1; simpa [hit] using this

theorem Inv.extend {E k A h t B} (inv : Inv E k (A ++ (h :: t) :: B)) (hh : E h k = true) :
    Inv E (k+1) (A ++ (h :: (t ++ [k])) :: B) := by
  have hmap : (A ++ (h :: (t ++ [k])) :: B).map List.head? = (A ++ (h :: t) :: B).map List.head? := by
    simp
  constructor
  · intro g hg
    simp only [List.mem_append, List.mem_cons] at hg
    rcases hg with hg | rfl | hg
    · exact inv.ne g (by simp [hg])
    · simp
    · exact inv.ne g (by simp [hg])
  · intro g hg
    simp only [List.mem_append, List.mem_cons] at hg
    rcases hg with hg | rfl | hg
    · exact inv.sorted g (by simp [hg])
    · have hs := inv.sorted (h :: t) (by simp)
      have : (h :: (t ++ [k])) = (h :: t) ++ [k] := rfl
      rw [this, List.pairwise_append]
      refine ⟨hs, by simp, ?_⟩
      intro a ha b hb
      simp at hb; subst hb
      exact inv.bound (g := h :: t) (by simp) ha
    · exact inv.sorted g (by simp [hg])
  · have hp := inv.perm
    rw [List.range_succ]
    have h1 : (A ++ (h :: (t ++ [k])) :: B).flatten.Perm ((A ++ (h :: t) :: B).flatten ++ [k]) := by
      simp only [List.flatten_append, List.flatten_cons]
      have : h :: (t ++ [k]) ++ B.flatten = (h :: t) ++ ([k] ++ B.flatten) := by simp
      rw [this]
      have h2 : ([k] ++ B.flatten).Perm (B.flatten ++ [k]) := List.perm_append_comm
      have h3 := (h2.append_left (h :: t)).append_left A.flatten
      refine h3.trans ?_
      simp
    exact h1.trans (hp.append_right [k])
  · rw [hmap]; exact inv.headsInc
  · intro h' t' hg x hx
    simp only [List.mem_append, List.mem_cons] at hg
    rcases hg with hg | hg | hg
    · exact inv.tailEq h' t' (by simp [hg]) x hx
    · simp at hg; obtain ⟨rfl, rfl⟩ := hg
      rcases List.mem_append.mp hx with hx | hx
      · exact inv.tailEq h' t (by simp) x hx
      · simp at hx; subst hx; exact hh
    · exact inv.tailEq h' t' (by simp [hg]) x hx
  · rw [hmap]; exact inv.headsNe

theorem Inv.step {E k gs} (inv : Inv E k gs) : Inv E (k+1) (stepL E gs k) := by
  rcases stepL_spec E gs k with ⟨A, g, B, rfl, hp, _, he⟩ | ⟨hno, he⟩
  · rw [he]
    cases g with
    | nil => simp [hit] at hp
    | cons h t => exact inv.extend (by simpa [hit] using hp)
  · rw [he]; exact inv.push hno

theorem Inv.fold (E : Nat → Nat → Bool) (k : Nat) : Inv E k ((List.range k).foldl (stepL E) []) := by
  induction k with
  | zero => exact Inv.zero E
  | succ k ih =>
    rw [List.range_succ, List.foldl_append]
    exact ih.step

theorem u8_eq_of_not_lt {a b : UInt8} (h1 : ¬ a < b) (h2 : ¬ a > b) : a = b := by
  apply UInt8.toNat_inj.mp
  simp only [GT.gt, UInt8.lt_iff_toNat_lt] at h1 h2
  omega

theorem bytesCmp_eq_iff (a b : Bytes) : bytesCmp a b = .eq ↔ a = b := by
  induction a generalizing b with
  | nil => cases b <;> simp [bytesCmp]
  | cons x xs ih =>
    cases b with
    | nil => simp [bytesCmp]
    | cons y ys =>
      simp only [bytesCmp]
      split
      · rename_i h
        simp only [reduceCtorEq, false_iff, List.cons.injEq, not_and]
        intro hxy; subst hxy; exact absurd h (UInt8.lt_irrefl x)
      · split
        · rename_i h
          simp only [reduceCtorEq, false_iff, List.cons.injEq, not_and]
          intro hxy; subst hxy; exact absurd h (UInt8.lt_irrefl x)
        · rename_i h1 h2
          have := u8_eq_of_not_lt h1 h2
          subst this
          simp [ih]

/-- `cellCmp … = some .eq` is a partial equivalence: characterise it by a "key" function. -/
def ckey (c : LCol) : Cell → Option (Nat × (Int ⊕ Bytes))
  | .int x => some (0, .inl x)
  | .float x => if F64.isNaN x then none else some (1, .inl (F64.key x))
  | .bool x => some (2, .inl x.toNat)
  | .str (some x) =>
      if c.ty == .enum then (match enumRank c.vals x with | some i => some (3, .inl (i : Int)) | none => none)
      else some (3, .inr x)
  | .str none => none

set_option linter.unusedSimpArgs false in
theorem cellCmp_eq_iff (c : LCol) (a b : Cell) :
    cellCmp c a b = some .eq ↔ (∃ k, ckey c a = some k ∧ ckey c b = some k) := by
  rcases a with x|x|x|(_|x) <;> rcases b with y|y|y|(_|y) <;> simp only [cellCmp, ckey]
  all_goals try (cases hx : enumRank c.vals x)
  all_goals try (cases hy : enumRank c.vals y)
  all_goals try (by_cases hnx : F64.isNaN x = true)
  all_goals try (by_cases hny : F64.isNaN y = true)
  all_goals by_cases hc : c.ty = CType.enum
  all_goals simp_all [Int.compare_eq_eq, Nat.compare_eq_eq, bytesCmp_eq_iff]
  all_goals first | exact eq_comm | omega | grind

/-! ## `keyEq` / `rowKeyEq` are partial equivalence relations -/

theorem cellCmp_symm {c : LCol} {a b : Cell} (h : cellCmp c a b = some .eq) : cellCmp c b a = some .eq := by
  obtain ⟨k, h1, h2⟩ := (cellCmp_eq_iff c a b).mp h
  exact (cellCmp_eq_iff c b a).mpr ⟨k, h2, h1⟩

theorem cellCmp_trans {c : LCol} {a b d : Cell} (h1 : cellCmp c a b = some .eq)
    (h2 : cellCmp c b d = some .eq) : cellCmp c a d = some .eq := by
  obtain ⟨k, ha, hb⟩ := (cellCmp_eq_iff c a b).mp h1
  obtain ⟨k', hb', hd⟩ := (cellCmp_eq_iff c b d).mp h2
  have : k = k' := by rw [hb] at hb'; exact Option.some.inj hb'
  subst this
  exact (cellCmp_eq_iff c a d).mpr ⟨k, ha, hd⟩

theorem keyEq_true_iff (gbNull : Bool) (c : LCol) (a b : Cell) :
    keyEq gbNull c a b = true ↔
      (a.isNull = true ∧ b.isNull = true ∧ gbNull = true) ∨
      (a.isNull = false ∧ b.isNull = false ∧ cellCmp c a b = some .eq) := by
  unfold keyEq
  cases a.isNull <;> cases b.isNull <;> simp

/-- `keyEq` is symmetric (for all cells, all column types, both null modes). -/
theorem keyEq_symm' {gbNull : Bool} {c : LCol} {a b : Cell} (h : keyEq gbNull c a b = true) :
    keyEq gbNull c b a = true := by
  rw [keyEq_true_iff] at h ⊢
  rcases h with ⟨h1, h2, h3⟩ | ⟨h1, h2, h3⟩
  · exact .inl ⟨h2, h1, h3⟩
  · exact .inr ⟨h2, h1, cellCmp_symm h3⟩

theorem keyEq_symm (gbNull : Bool) (c : LCol) (a b : Cell) : keyEq gbNull c a b = keyEq gbNull c b a := by
  apply Bool.eq_iff_iff.mpr
  exact ⟨keyEq_symm', keyEq_symm'⟩

/-- `keyEq` is transitive (for all cells; in particular for non-null cells of one constructor). -/
theorem keyEq_trans {gbNull : Bool} {c : LCol} {a b d : Cell} (h1 : keyEq gbNull c a b = true)
    (h2 : keyEq gbNull c b d = true) : keyEq gbNull c a d = true := by
  rw [keyEq_true_iff] at h1 h2 ⊢
  rcases h1 with ⟨a1, b1, g1⟩ | ⟨a1, b1, e1⟩ <;> rcases h2 with ⟨b2, d2, g2⟩ | ⟨b2, d2, e2⟩
  · exact .inl ⟨a1, d2, g1⟩
  · rw [b1] at b2; cases b2
  · rw [b1] at b2; cases b2
  · exact .inr ⟨a1, d2, cellCmp_trans e1 e2⟩

/-- A null key is equal to nothing when `gbNull = false`. -/
theorem keyEq_null_left {c : LCol} {a b : Cell} (ha : a.isNull = true) : keyEq false c a b = false := by
  unfold keyEq; rw [ha]; cases b.isNull <;> rfl

theorem keyEq_null_right {c : LCol} {a b : Cell} (hb : b.isNull = true) : keyEq false c a b = false := by
  rw [keyEq_symm]; exact keyEq_null_left hb

theorem rowKeyEq_symm' {gbNull : Bool} {keys : List LCol} {r1 r2 : Nat}
    (h : rowKeyEq gbNull keys r1 r2 = true) : rowKeyEq gbNull keys r2 r1 = true := by
  unfold rowKeyEq at h ⊢
  rw [List.all_eq_true] at h ⊢
  intro c hc
  exact keyEq_symm' (h c hc)

theorem rowKeyEq_symm (gbNull : Bool) (keys : List LCol) (r1 r2 : Nat) :
    rowKeyEq gbNull keys r1 r2 = rowKeyEq gbNull keys r2 r1 := by
  apply Bool.eq_iff_iff.mpr
  exact ⟨rowKeyEq_symm', rowKeyEq_symm'⟩

theorem rowKeyEq_trans {gbNull : Bool} {keys : List LCol} {r1 r2 r3 : Nat}
    (h1 : rowKeyEq gbNull keys r1 r2 = true) (h2 : rowKeyEq gbNull keys r2 r3 = true) :
    rowKeyEq gbNull keys r1 r3 = true := by
  unfold rowKeyEq at h1 h2 ⊢
  rw [List.all_eq_true] at h1 h2 ⊢
  intro c hc
  exact keyEq_trans (h1 c hc) (h2 c hc)

/-- "No columns": every two rows are key-equal. -/
theorem rowKeyEq_nil (gbNull : Bool) (r1 r2 : Nat) : rowKeyEq gbNull [] r1 r2 = true := rfl

theorem rowKeyEq_null_right {keys : List LCol} {r : Nat}
    (hnull : ∃ c ∈ keys, (c.cells[r]!).isNull = true) (x : Nat) : rowKeyEq false keys x r = false := by
  obtain ⟨c, hc, hn⟩ := hnull
  unfold rowKeyEq
  rw [List.all_eq_false]
  exact ⟨c, hc, by rw [keyEq_null_right hn]; simp⟩

theorem rowKeyEq_null_left {keys : List LCol} {r : Nat}
    (hnull : ∃ c ∈ keys, (c.cells[r]!).isNull = true) (x : Nat) : rowKeyEq false keys r x = false := by
  rw [rowKeyEq_symm]; exact rowKeyEq_null_right hnull x

/-! ## Consequences of the invariant (generic in `E`) -/

theorem Inv.cover {E k gs} (inv : Inv E k gs) {r : Nat} (hr : r < k) : ∃ g ∈ gs, r ∈ g := by
  have : r ∈ gs.flatten := inv.perm.mem_iff.mpr (List.mem_range.mpr hr)
  exact List.mem_flatten.mp this

theorem Inv.nodup {E k gs} (inv : Inv E k gs) : gs.flatten.Nodup :=
  inv.perm.nodup_iff.mpr List.nodup_range

theorem pairwise_disjoint_of_nodup_flatten {L : List (List Nat)} (h : L.flatten.Nodup) :
    L.Pairwise (fun a b => ∀ x ∈ a, x ∉ b) := by
  induction L with
  | nil => exact List.Pairwise.nil
  | cons g L ih =>
    rw [List.flatten_cons, List.nodup_append] at h
    obtain ⟨_, hL, hd⟩ := h
    refine List.Pairwise.cons ?_ (ih hL)
    intro b hb x hx hxb
    exact hd x hx x (List.mem_flatten.mpr ⟨b, hb, hxb⟩) rfl

theorem unique_idx_of_nodup_flatten {L : List (List Nat)} (h : L.flatten.Nodup) {i j : Nat}
    (hi : i < L.length) (hj : j < L.length) {x : Nat} (hxi : x ∈ L[i]) (hxj : x ∈ L[j]) : i = j := by
  have hp := List.pairwise_iff_getElem.mp (pairwise_disjoint_of_nodup_flatten h)
  rcases Nat.lt_trichotomy i j with hlt | heq | hgt
  · exact absurd hxj (hp i j hi hj hlt x hxi)
  · exact heq
  · exact absurd hxi (hp j i hj hi hgt x hxj)

theorem Inv.same_key {E k gs} (inv : Inv E k gs) {g : List Nat} (hg : g ∈ gs) {r1 r2 : Nat}
    (hhead : g.head? = some r1) (hr2 : r2 ∈ g) : E r1 r2 = true ∨ r1 = r2 := by
  cases g with
  | nil => simp at hhead
  | cons h t =>
    simp at hhead; subst hhead
    rcases List.mem_cons.mp hr2 with rfl | hr2
    · exact .inr rfl
    · exact .inl (inv.tailEq h t hg r2 hr2)

theorem Inv.same_key_any {E k gs} (inv : Inv E k gs)
    (hsymm : ∀ a b, a < k → b < k → E a b = true → E b a = true)
    (htrans : ∀ a b c, a < k → b < k → c < k → E a b = true → E b c = true → E a c = true)
    {g : List Nat} (hg : g ∈ gs) {r1 r2 : Nat} (hr1 : r1 ∈ g) (hr2 : r2 ∈ g) :
    E r1 r2 = true ∨ r1 = r2 := by
  have b1 := inv.bound hg hr1
  have b2 := inv.bound hg hr2
  cases g with
  | nil => simp at hr1
  | cons h t =>
    have bh : h < k := inv.bound hg (List.mem_cons_self)
    rcases List.mem_cons.mp hr1 with rfl | hr1
    · exact inv.same_key hg rfl hr2
    · have e1 : E h r1 = true := inv.tailEq h t hg r1 hr1
      have e1' : E r1 h = true := hsymm h r1 bh b1 e1
      rcases List.mem_cons.mp hr2 with rfl | hr2
      · exact .inl e1'
      · have e2 : E h r2 = true := inv.tailEq h t hg r2 hr2
        exact .inl (htrans r1 h r2 b1 bh b2 e1' e2)

theorem Inv.singleton {E k gs} (inv : Inv E k gs) {r : Nat} (hr : r < k)
    (hl : ∀ x, E x r = false) (hrr : ∀ x, E r x = false) : [r] ∈ gs := by
  obtain ⟨g, hg, hrg⟩ := inv.cover hr
  cases g with
  | nil => simp at hrg
  | cons h t =>
    rcases List.mem_cons.mp hrg with rfl | hrt
    · cases t with
      | nil => exact hg
      | cons x t' =>
        have := inv.tailEq r (x :: t') hg x (List.mem_cons_self)
        rw [hrr x] at this; cases this
    · have := inv.tailEq h t hg r hrt
      rw [hl h] at this; cases this

/-! ## Main theorems -/

section Main
variable (gbNull : Bool) (keys : List LCol) (n : Nat)

theorem groupsS_eq_foldl_stepL :
    groupsS gbNull keys n = (List.range n).foldl (stepL (rowKeyEq gbNull keys)) [] := by
  rw [groupsS_eq_foldl_stepA, foldl_stepA_toList]

/-- The fold invariant holds of the final result. -/
theorem groupsS_inv : Inv (rowKeyEq gbNull keys) n (groupsS gbNull keys n) := by
  rw [groupsS_eq_foldl_stepL]; exact Inv.fold _ n

/-- Every row is in some group. -/
theorem groupsS_cover : ∀ r < n, ∃ g ∈ groupsS gbNull keys n, r ∈ g :=
  fun _ hr => (groupsS_inv gbNull keys n).cover hr

/-- Every row is in exactly one group: the groups, concatenated, are a permutation of the rows. -/
theorem groupsS_disjoint : ((groupsS gbNull keys n).flatten).Perm (List.range n) :=
  (groupsS_inv gbNull keys n).perm

theorem groupsS_nodup : ((groupsS gbNull keys n).flatten).Nodup :=
  (groupsS_inv gbNull keys n).nodup

/-- Only rows `< n` occur. -/
theorem groupsS_bound : ∀ g ∈ groupsS gbNull keys n, ∀ r ∈ g, r < n :=
  fun _ hg _ hr => (groupsS_inv gbNull keys n).bound hg hr

/-- A row occurs in a group at one position of the list of groups only … -/
theorem groupsS_unique_idx {i j : Nat} (hi : i < (groupsS gbNull keys n).length)
    (hj : j < (groupsS gbNull keys n).length) {r : Nat}
    (hri : r ∈ (groupsS gbNull keys n)[i]) (hrj : r ∈ (groupsS gbNull keys n)[j]) : i = j :=
  unique_idx_of_nodup_flatten (groupsS_nodup gbNull keys n) hi hj hri hrj

/-- … so two groups sharing a row are the same group, … -/
theorem groupsS_unique {g1 g2 : List Nat} (h1 : g1 ∈ groupsS gbNull keys n)
    (h2 : g2 ∈ groupsS gbNull keys n) {r : Nat} (hr1 : r ∈ g1) (hr2 : r ∈ g2) : g1 = g2 := by
  obtain ⟨i, hi, rfl⟩ := List.mem_iff_getElem.mp h1
  obtain ⟨j, hj, rfl⟩ := List.mem_iff_getElem.mp h2
  have := groupsS_unique_idx gbNull keys n hi hj hr1 hr2
  subst this; rfl

/-- … and a row occurs once inside its group (groups are strictly increasing, see `groupsS_sorted`). -/
theorem groupsS_exactly_one : ∀ r < n, ∃ g ∈ groupsS gbNull keys n, r ∈ g ∧
    ∀ g' ∈ groupsS gbNull keys n, r ∈ g' → g' = g := by
  intro r hr
  obtain ⟨g, hg, hrg⟩ := groupsS_cover gbNull keys n r hr
  exact ⟨g, hg, hrg, fun g' hg' hrg' => groupsS_unique gbNull keys n hg' hg hrg' hrg⟩

/-- Every group is non-empty and strictly increasing (rows in frame order). -/
theorem groupsS_sorted : ∀ g ∈ groupsS gbNull keys n, g ≠ [] ∧ g.Pairwise (· < ·) :=
  fun g hg => ⟨(groupsS_inv gbNull keys n).ne g hg, (groupsS_inv gbNull keys n).sorted g hg⟩

/-- The head of a group is its least row. -/
theorem groupsS_head_le {g : List Nat} (hg : g ∈ groupsS gbNull keys n) {h : Nat}
    (hh : g.head? = some h) : ∀ x ∈ g, h ≤ x := by
  intro x hx
  have hs := (groupsS_sorted gbNull keys n g hg).2
  cases g with
  | nil => simp at hx
  | cons a t =>
    simp at hh; subst hh
    rcases List.mem_cons.mp hx with rfl | hx
    · exact Nat.le_refl _
    · exact Nat.le_of_lt ((List.pairwise_cons.mp hs).1 x hx)

/-- Every row of a group has the key of the group's head. -/
theorem groupsS_same_key {g : List Nat} (hg : g ∈ groupsS gbNull keys n) {r1 r2 : Nat}
    (hhead : g.head? = some r1) (hr2 : r2 ∈ g) : rowKeyEq gbNull keys r1 r2 = true ∨ r1 = r2 :=
  (groupsS_inv gbNull keys n).same_key hg hhead hr2

/-- Any two rows of a group have the same key, provided `rowKeyEq` is symmetric and transitive on rows `< n`. -/
theorem groupsS_same_key_any
    (hsymm : ∀ a b, a < n → b < n → rowKeyEq gbNull keys a b = true → rowKeyEq gbNull keys b a = true)
    (htrans : ∀ a b c, a < n → b < n → c < n → rowKeyEq gbNull keys a b = true →
      rowKeyEq gbNull keys b c = true → rowKeyEq gbNull keys a c = true)
    {g : List Nat} (hg : g ∈ groupsS gbNull keys n) {r1 r2 : Nat} (hr1 : r1 ∈ g) (hr2 : r2 ∈ g) :
    rowKeyEq gbNull keys r1 r2 = true ∨ r1 = r2 :=
  (groupsS_inv gbNull keys n).same_key_any hsymm htrans hg hr1 hr2

/-- The hypotheses of `groupsS_same_key_any` always hold (`rowKeyEq_symm'`, `rowKeyEq_trans`). -/
theorem groupsS_same_key_all {g : List Nat} (hg : g ∈ groupsS gbNull keys n) {r1 r2 : Nat}
    (hr1 : r1 ∈ g) (hr2 : r2 ∈ g) : rowKeyEq gbNull keys r1 r2 = true ∨ r1 = r2 :=
  groupsS_same_key_any gbNull keys n (fun _ _ _ _ h => rowKeyEq_symm' h)
    (fun _ _ _ _ _ _ h1 h2 => rowKeyEq_trans h1 h2) hg hr1 hr2

/-- Heads of different groups have different keys: (earlier head, later head) as tested by the fold. -/
theorem groupsS_heads_differ_pairwise :
    ((groupsS gbNull keys n).map List.head?).Pairwise
      (fun a b => ∀ h1 ∈ a, ∀ h2 ∈ b, rowKeyEq gbNull keys h1 h2 = false) :=
  (groupsS_inv gbNull keys n).headsNe

/-- Heads of two different groups are not `rowKeyEq`, in either order. -/
theorem groupsS_heads_differ {i j : Nat} (hi : i < (groupsS gbNull keys n).length)
    (hj : j < (groupsS gbNull keys n).length) (hij : i ≠ j) {h1 h2 : Nat}
    (hh1 : (groupsS gbNull keys n)[i].head? = some h1)
    (hh2 : (groupsS gbNull keys n)[j].head? = some h2) :
    rowKeyEq gbNull keys h1 h2 = false := by
  have hp := List.pairwise_iff_getElem.mp (groupsS_heads_differ_pairwise gbNull keys n)
  rcases Nat.lt_or_gt_of_ne hij with hlt | hgt
  · have := hp i j (by simpa using hi) (by simpa using hj) hlt h1 (by simpa using hh1) h2 (by simpa using hh2)
    exact this
  · have := hp j i (by simpa using hj) (by simpa using hi) hgt h2 (by simpa using hh2) h1 (by simpa using hh1)
    rw [rowKeyEq_symm]; exact this

/-- Groups appear in order of first occurrence: their heads are increasing. -/
theorem groupsS_first_occurrence_pairwise :
    ((groupsS gbNull keys n).map List.head?).Pairwise (fun a b => ∀ h1 ∈ a, ∀ h2 ∈ b, h1 < h2) :=
  (groupsS_inv gbNull keys n).headsInc

theorem groupsS_first_occurrence {i j : Nat} (hij : i < j) (hj : j < (groupsS gbNull keys n).length)
    {h1 h2 : Nat} (hh1 : (groupsS gbNull keys n)[i].head? = some h1)
    (hh2 : (groupsS gbNull keys n)[j].head? = some h2) : h1 < h2 := by
  have hp := List.pairwise_iff_getElem.mp (groupsS_first_occurrence_pairwise gbNull keys n)
  exact hp i j (by simp; omega) (by simpa using hj) hij h1 (by simpa using hh1) h2 (by simpa using hh2)

/-- No key columns: one group of all rows (`rowKeyEq _ [] _ _ = true`). -/
theorem foldl_stepL_all (E : Nat → Nat → Bool) (hE : ∀ a b, E a b = true) (k : Nat) :
    (List.range (k+1)).foldl (stepL E) [] = [List.range (k+1)] := by
  induction k with
  | zero => rfl
  | succ k ih =>
    rw [List.range_succ, List.foldl_append, ih]
    have : List.range (k+1) = 0 :: (List.range k).map Nat.succ := List.range_succ_eq_map
    simp [stepL, this, hit, hE, List.findIdx?_cons]

theorem groupsS_no_keys (hk : keys = []) (hn : n > 0) : groupsS gbNull keys n = [List.range n] := by
  subst hk
  obtain ⟨k, rfl⟩ : ∃ k, n = k + 1 := ⟨n - 1, by omega⟩
  rw [groupsS_eq_foldl_stepL]
  exact foldl_stepL_all _ (rowKeyEq_nil gbNull) k

/-- With `gbNull = false`, a row with a null cell in some key column forms a group of its own. -/
theorem groupsS_null_singletons (hgb : gbNull = false) {r : Nat} (hr : r < n)
    (hnull : ∃ c ∈ keys, (c.cells[r]!).isNull = true) : [r] ∈ groupsS gbNull keys n := by
  subst hgb
  exact (groupsS_inv false keys n).singleton hr (rowKeyEq_null_right hnull) (rowKeyEq_null_left hnull)

end Main

/-! ## Concrete instances: the hypotheses of the main theorems are satisfiable -/

section Examples

/-- int key column `1 2 1 3 2` -/
def exCol : LCol := { name := [107], ty := .int, cells := #[.int 1, .int 2, .int 1, .int 3, .int 2] }
/-- string key column `"a" null "a" null` -/
def exStr : LCol :=
  { name := [115], ty := .string, cells := #[.str (some [97]), .str none, .str (some [97]), .str none] }

theorem exCol_groups : groupsS false [exCol] 5 = [[0, 2], [1, 4], [3]] := by
  rw [groupsS_eq_foldl_stepL]; decide
theorem exStr_groups : groupsS false [exStr] 4 = [[0, 2], [1], [3]] := by
  rw [groupsS_eq_foldl_stepL]; decide
/-- with `gbNull = true` the null rows share a group: `gbNull = false` is needed in `groupsS_null_singletons` -/
theorem exStr_groups_gbNull : groupsS true [exStr] 4 = [[0, 2], [1, 3]] := by
  rw [groupsS_eq_foldl_stepL]; decide

example : ∃ g ∈ groupsS false [exCol] 5, 4 ∈ g := groupsS_cover false [exCol] 5 4 (by decide)
example : ((groupsS false [exCol] 5).flatten).Perm (List.range 5) := groupsS_disjoint false [exCol] 5
example : ((groupsS false [exCol] 5).flatten).Nodup := groupsS_nodup false [exCol] 5
example : [1, 4] ≠ [] ∧ [1, 4].Pairwise (· < ·) :=
  groupsS_sorted false [exCol] 5 [1, 4] (by rw [exCol_groups]; decide)
example : rowKeyEq false [exCol] 1 4 = true ∨ 1 = 4 :=
  groupsS_same_key false [exCol] 5 (g := [1, 4]) (by rw [exCol_groups]; decide) rfl (by decide)
example : rowKeyEq false [exStr] 2 0 = true ∨ 2 = 0 :=
  groupsS_same_key_any false [exStr] 4 (fun _ _ _ _ h => rowKeyEq_symm' h)
    (fun _ _ _ _ _ _ h1 h2 => rowKeyEq_trans h1 h2) (g := [0, 2]) (by rw [exStr_groups]; decide)
    (by decide) (by decide)
example : rowKeyEq false [exCol] 3 0 = false :=
  groupsS_heads_differ false [exCol] 5 (i := 2) (j := 0) (by simp [exCol_groups]) (by simp [exCol_groups])
    (by decide) (by simp [exCol_groups]) (by simp [exCol_groups])
example : (1 : Nat) < 3 :=
  groupsS_first_occurrence false [exCol] 5 (i := 1) (j := 2) (by decide) (by simp [exCol_groups])
    (by simp [exCol_groups]) (by simp [exCol_groups])
example : groupsS true [] 3 = [[0, 1, 2]] := groupsS_no_keys true [] 3 rfl (by decide)
example : [1] ∈ groupsS false [exStr] 4 :=
  groupsS_null_singletons false [exStr] 4 rfl (by decide) ⟨exStr, List.mem_singleton.mpr rfl, by decide⟩
/-- reflexivity of `rowKeyEq` does fail on a null key with `gbNull = false` -/
example : rowKeyEq false [exStr] 1 1 = false := by decide

end Examples

end QF.Props.C04Spec

#print axioms QF.Props.C04Spec.groupsS_inv
#print axioms QF.Props.C04Spec.groupsS_cover
#print axioms QF.Props.C04Spec.groupsS_disjoint
#print axioms QF.Props.C04Spec.groupsS_nodup
#print axioms QF.Props.C04Spec.groupsS_exactly_one
#print axioms QF.Props.C04Spec.groupsS_sorted
#print axioms QF.Props.C04Spec.groupsS_same_key
#print axioms QF.Props.C04Spec.groupsS_same_key_any
#print axioms QF.Props.C04Spec.groupsS_same_key_all
#print axioms QF.Props.C04Spec.groupsS_heads_differ
#print axioms QF.Props.C04Spec.groupsS_first_occurrence
#print axioms QF.Props.C04Spec.groupsS_no_keys
#print axioms QF.Props.C04Spec.groupsS_null_singletons
#print axioms QF.Props.C04Spec.keyEq_symm
#print axioms QF.Props.C04Spec.keyEq_trans
#print axioms QF.Props.C04Spec.rowKeyEq_symm
#print axioms QF.Props.C04Spec.rowKeyEq_trans
