import QF.Props.C03SorterFns
import QF.Core.SorterPivot
/-!
# C03 — the meaning of the canonical sorter terms (part 2): `doPivot`

The loops of `doPivot` are the functions of the mirror (QF/Core/Sorter.lean), for every comparison function:

* `dp_choose`  — Tukey's ninther and the median of three = `Sorter.choosePivot`
* `dp_scanA`, `dp_scanB`, `dp_scanC`, `dp_scanB2`, `dp_scanA2` — the five empty-bodied scans = `Sorter.scanUp` / `Sorter.scanDown`
* `dp_part`    — the partition loop = `Sorter.pivotLoop`;  `dp_prot` — the duplicate-protection loop = `Sorter.protectLoop`
  (both for every fuel of the mirror that suffices: the mirror's own fuel `size + 1` does)
* `dp_dups`    — "Lets test some points for equality to pivot" = `Sorter.dupsBlock`
* `call_doPivot` — `doPivot(data, lo, hi)` = `Sorter.doPivot`, with the bounds of the two results that `quickSort` needs

`pivotLoop_facts`, `protectLoop_facts`, `doPivot_bounds`: where the cursors of the mirror end — arithmetic only, no
assumption on the comparison function (the code stays within the array even for an inconsistent `Less`).
-/
namespace QF.Props.C03SorterGen
open QF QF.SL
set_option linter.unusedSimpArgs false

theorem tdiv8 (hi lo : Nat) (h : lo ≤ hi) : ((hi : Int) - lo).tdiv 8 = ↑((hi - lo) / 8) := by
  rw [Int.tdiv_eq_ediv_of_nonneg (by omega)]; omega
theorem tdiv4 (hi lo : Nat) (h : lo ≤ hi) : ((hi : Int) - lo).tdiv 4 = ↑((hi - lo) / 4) := by
  rw [Int.tdiv_eq_ediv_of_nonneg (by omega)]; omega

theorem median_size (less : Nat → Nat → Bool) (a : Ix) (m1 m0 m2 : Nat) : (Sorter.medianOfThree less a m1 m0 m2).size = a.size :=
  (Sorter.medianOfThree_perm less a m1 m0 m2).size_eq

section withLess
variable {cols : Cols} {less : Nat → Nat → Bool} (hl : LessIs cols less)
include hl

/-- `for ; a < c && data.Less(a, pivot); a++ {}` is `scanUp` with the predicate "less than the pivot" -/
theorem dp_scanA (lo hi m : Nat) (p4 p8 p9 p10 : Val) (arr : Ix) (c : Nat) (hc : c ≤ arr.size) (hlo : lo < arr.size) :
    ∀ (fuel i : Nat) (iz : Int), iz = i → c < fuel + i →
    X cols dpScanA ([.sorter, .int lo, .int hi, .int m, p4, .int lo, .int iz, .int c, p8, p9, p10], arr) =
      .ok (.next ([.sorter, .int lo, .int hi, .int m, p4, .int lo,
        .int ↑(Sorter.scanUp fuel (fun i => Sorter.lt less arr i lo) i c), .int c, p8, p9, p10], arr)) := by
  intro fuel
  induction fuel with
  | zero =>
    intro i iz hi hf
    subst hi
    rw [dpScanA, x_loop]
    have : ¬ (i : Int) < c := by omega
    sl_simp [this, decide_false, Sorter.scanUp]
  | succ fuel ih =>
    intro i iz hi hf
    subst hi
    rw [dpScanA, x_loop]
    simp only [Sorter.scanUp]
    by_cases h : i < c
    · have h' : (i : Int) < c := by omega
      sl_simp [h', h, decide_true, call_less' hl, Int.toNat_natCast, Bool.true_and]
      cases e : Sorter.lt less arr i lo
      · sl_simp [Bool.false_eq_true]
      · sl_simp []
        rw [← dpScanA]
        exact ih (i + 1) _ (by omega) (by omega)
    · have h' : ¬ (i : Int) < c := by omega
      sl_simp [h', h, decide_false, Bool.false_and, Bool.false_eq_true]

/-- `for ; b < c && !data.Less(pivot, b); b++ {}` -/
theorem dp_scanB (lo hi m : Nat) (p4 p6 p9 p10 : Val) (arr : Ix) (c : Nat) (hc : c ≤ arr.size) (hlo : lo < arr.size) :
    ∀ (fuel i : Nat) (iz : Int), iz = i → c < fuel + i →
    X cols dpScanB ([.sorter, .int lo, .int hi, .int m, p4, .int lo, p6, .int c, .int iz, p9, p10], arr) =
      .ok (.next ([.sorter, .int lo, .int hi, .int m, p4, .int lo, p6, .int c,
        .int ↑(Sorter.scanUp fuel (fun i => !Sorter.lt less arr lo i) i c), p9, p10], arr)) := by
  intro fuel
  induction fuel with
  | zero =>
    intro i iz hi hf
    subst hi
    rw [dpScanB, x_loop]
    have : ¬ (i : Int) < c := by omega
    sl_simp [this, decide_false, Sorter.scanUp]
  | succ fuel ih =>
    intro i iz hi hf
    subst hi
    rw [dpScanB, x_loop]
    simp only [Sorter.scanUp]
    by_cases h : i < c
    · have h' : (i : Int) < c := by omega
      sl_simp [h', h, decide_true, call_less' hl, Int.toNat_natCast, Bool.true_and]
      cases e : Sorter.lt less arr lo i
      · sl_simp [Bool.not_false]
        rw [← dpScanB]
        exact ih (i + 1) _ (by omega) (by omega)
      · sl_simp [Bool.not_true, Bool.false_eq_true]
    · have h' : ¬ (i : Int) < c := by omega
      sl_simp [h', h, decide_false, Bool.false_and, Bool.false_eq_true]

/-- `for ; b < c && data.Less(pivot, c-1); c-- {}` -/
theorem dp_scanC (lo hi m : Nat) (p4 p6 p9 p10 : Val) (arr : Ix) (b : Nat) (hlo : lo < arr.size) :
    ∀ (fuel c : Nat) (cz : Int), cz = c → c < fuel + b → c ≤ arr.size →
    X cols dpScanC ([.sorter, .int lo, .int hi, .int m, p4, .int lo, p6, .int cz, .int b, p9, p10], arr) =
      .ok (.next ([.sorter, .int lo, .int hi, .int m, p4, .int lo, p6,
        .int ↑(Sorter.scanDown fuel (fun i => Sorter.lt less arr lo i) b c), .int b, p9, p10], arr)) := by
  intro fuel
  induction fuel with
  | zero =>
    intro c cz hc hf _
    subst hc
    rw [dpScanC, x_loop]
    have : ¬ (b : Int) < c := by omega
    sl_simp [this, decide_false, Sorter.scanDown]
  | succ fuel ih =>
    intro c cz hc hf hsz
    subst hc
    rw [dpScanC, x_loop]
    simp only [Sorter.scanDown]
    by_cases h : b < c
    · have h' : (b : Int) < c := by omega
      have t : ((c : Int) - 1).toNat = c - 1 := by omega
      sl_simp [h', h, decide_true, call_less' hl, Int.toNat_natCast, t, Bool.true_and]
      cases e : Sorter.lt less arr lo (c - 1)
      · sl_simp [Bool.false_eq_true]
      · sl_simp []
        rw [← dpScanC]
        exact ih (c - 1) _ (by omega) (by omega) (by omega)
    · have h' : ¬ (b : Int) < c := by omega
      sl_simp [h', h, decide_false, Bool.false_and, Bool.false_eq_true]

/-- `for ; a < b && !data.Less(b-1, pivot); b-- {}` -/
theorem dp_scanB2 (lo hi m : Nat) (p4 p7 p9 p10 : Val) (arr : Ix) (x : Nat) (hlo : lo < arr.size) :
    ∀ (fuel b : Nat) (bz : Int), bz = b → b < fuel + x → b ≤ arr.size →
    X cols dpScanB2 ([.sorter, .int lo, .int hi, .int m, p4, .int lo, .int x, p7, .int bz, p9, p10], arr) =
      .ok (.next ([.sorter, .int lo, .int hi, .int m, p4, .int lo, .int x, p7,
        .int ↑(Sorter.scanDown fuel (fun i => !Sorter.lt less arr i lo) x b), p9, p10], arr)) := by
  intro fuel
  induction fuel with
  | zero =>
    intro b bz hb hf _
    subst hb
    rw [dpScanB2, x_loop]
    have : ¬ (x : Int) < b := by omega
    sl_simp [this, decide_false, Sorter.scanDown]
  | succ fuel ih =>
    intro b bz hb hf hsz
    subst hb
    rw [dpScanB2, x_loop]
    simp only [Sorter.scanDown]
    by_cases h : x < b
    · have h' : (x : Int) < b := by omega
      have t : ((b : Int) - 1).toNat = b - 1 := by omega
      sl_simp [h', h, decide_true, call_less' hl, Int.toNat_natCast, t, Bool.true_and]
      cases e : Sorter.lt less arr (b - 1) lo
      · sl_simp [Bool.not_false]
        rw [← dpScanB2]
        exact ih (b - 1) _ (by omega) (by omega) (by omega)
      · sl_simp [Bool.not_true, Bool.false_eq_true]
    · have h' : ¬ (x : Int) < b := by omega
      sl_simp [h', h, decide_false, Bool.false_and, Bool.false_eq_true]

/-- `for ; a < b && data.Less(a, pivot); a++ {}` -/
theorem dp_scanA2 (lo hi m : Nat) (p4 p7 p9 p10 : Val) (arr : Ix) (b : Nat) (hb : b ≤ arr.size) (hlo : lo < arr.size) :
    ∀ (fuel i : Nat) (iz : Int), iz = i → b < fuel + i →
    X cols dpScanA2 ([.sorter, .int lo, .int hi, .int m, p4, .int lo, .int iz, p7, .int b, p9, p10], arr) =
      .ok (.next ([.sorter, .int lo, .int hi, .int m, p4, .int lo,
        .int ↑(Sorter.scanUp fuel (fun i => Sorter.lt less arr i lo) i b), p7, .int b, p9, p10], arr)) := by
  intro fuel
  induction fuel with
  | zero =>
    intro i iz hi hf
    subst hi
    rw [dpScanA2, x_loop]
    have : ¬ (i : Int) < b := by omega
    sl_simp [this, decide_false, Sorter.scanUp]
  | succ fuel ih =>
    intro i iz hi hf
    subst hi
    rw [dpScanA2, x_loop]
    simp only [Sorter.scanUp]
    by_cases h : i < b
    · have h' : (i : Int) < b := by omega
      sl_simp [h', h, decide_true, call_less' hl, Int.toNat_natCast, Bool.true_and]
      cases e : Sorter.lt less arr i lo
      · sl_simp [Bool.false_eq_true]
      · sl_simp []
        rw [← dpScanA2]
        exact ih (i + 1) _ (by omega) (by omega)
    · have h' : ¬ (i : Int) < b := by omega
      sl_simp [h', h, decide_false, Bool.false_and, Bool.false_eq_true]

omit hl in
theorem scanUp_ge (p : Nat → Bool) (fuel i c : Nat) (h : c ≤ i) : Sorter.scanUp fuel p i c = i := by
  cases fuel with
  | zero => rfl
  | succ f =>
    have : ¬ i < c := by omega
    simp [Sorter.scanUp, this]

omit hl in
theorem scanDown_ge (p : Nat → Bool) (fuel b c : Nat) (h : c ≤ b) : Sorter.scanDown fuel p b c = c := by
  cases fuel with
  | zero => rfl
  | succ f =>
    have : ¬ b < c := by omega
    simp [Sorter.scanDown, this]

omit hl in
/-- where the partition loop of the mirror ends (any comparison function) -/
theorem pivotLoop_facts (less : Nat → Nat → Bool) (pv : Nat) : ∀ (fuel : Nat) (arr : Ix) (b c : Nat), c < fuel + b → c ≤ arr.size →
    (Sorter.pivotLoop less fuel arr pv b c).1.size = arr.size ∧ b ≤ (Sorter.pivotLoop less fuel arr pv b c).2.1 ∧
    (Sorter.pivotLoop less fuel arr pv b c).2.2 ≤ c ∧
    (Sorter.pivotLoop less fuel arr pv b c).2.2 ≤ (Sorter.pivotLoop less fuel arr pv b c).2.1 ∧
    (b ≤ c + 1 → (Sorter.pivotLoop less fuel arr pv b c).2.1 ≤ (Sorter.pivotLoop less fuel arr pv b c).2.2 + 1) := by
  intro fuel
  induction fuel with
  | zero => intro arr b c hf _; simp only [Sorter.pivotLoop, true_and]; omega
  | succ fuel ih =>
    intro arr b c hf hsz
    simp only [Sorter.pivotLoop]
    have s1 := Sorter.scanUp_spec (fun i => !Sorter.lt less arr pv i) (arr.size + 1) b c (by omega)
    have s2 := Sorter.scanDown_spec (fun i => Sorter.lt less arr pv i) (arr.size + 1)
      (Sorter.scanUp (arr.size + 1) (fun i => !Sorter.lt less arr pv i) b c) c (by omega)
    have s3 := scanUp_ge (fun i => !Sorter.lt less arr pv i) (arr.size + 1) b c
    have s4 := scanDown_ge (fun i => Sorter.lt less arr pv i) (arr.size + 1)
      (Sorter.scanUp (arr.size + 1) (fun i => !Sorter.lt less arr pv i) b c) c
    split
    · refine ⟨rfl, ?_⟩; dsimp only; omega
    · have := ih (Sorter.sw arr (Sorter.scanUp (arr.size + 1) (fun i => !Sorter.lt less arr pv i) b c)
        (Sorter.scanDown (arr.size + 1) (fun i => Sorter.lt less arr pv i)
          (Sorter.scanUp (arr.size + 1) (fun i => !Sorter.lt less arr pv i) b c) c - 1))
        (Sorter.scanUp (arr.size + 1) (fun i => !Sorter.lt less arr pv i) b c + 1)
        (Sorter.scanDown (arr.size + 1) (fun i => Sorter.lt less arr pv i)
          (Sorter.scanUp (arr.size + 1) (fun i => !Sorter.lt less arr pv i) b c) c - 1)
        (by omega) (by rw [Sorter.sw_size]; omega)
      rw [Sorter.sw_size] at this
      omega

/-- the partition loop is `pivotLoop` of the mirror (for every fuel of the mirror that suffices) -/
theorem dp_part (lo hi m : Nat) (p4 p6 p9 p10 : Val) :
    ∀ (fuel : Nat) (arr : Ix) (b c : Nat) (bz cz : Int), bz = b → cz = c → c < fuel + b → c ≤ arr.size → lo < arr.size →
    X cols dpPartLoop ([.sorter, .int lo, .int hi, .int m, p4, .int lo, p6, .int cz, .int bz, p9, p10], arr) =
      .ok (.next ([.sorter, .int lo, .int hi, .int m, p4, .int lo, p6,
        .int ↑(Sorter.pivotLoop less fuel arr lo b c).2.2, .int ↑(Sorter.pivotLoop less fuel arr lo b c).2.1, p9, p10],
        (Sorter.pivotLoop less fuel arr lo b c).1)) := by
  intro fuel
  induction fuel with
  | zero =>
    intro arr b c bz cz hb hc hf hsz hlo
    subst hb; subst hc
    rw [dpPartLoop, x_loop]
    sl_simp [dp_scanB hl lo hi m p4 p6 p9 p10 arr c hsz hlo 0 b _ rfl (by omega), Sorter.scanUp,
      dp_scanC hl lo hi m p4 p6 p9 p10 arr b hlo 0 c _ rfl (by omega) hsz, Sorter.scanDown]
    have : (b : Int) ≥ c := by omega
    sl_simp [this, decide_true, Sorter.pivotLoop]
  | succ fuel ih =>
    intro arr b c bz cz hb hc hf hsz hlo
    subst hb; subst hc
    rw [dpPartLoop, x_loop]
    simp only [Sorter.pivotLoop]
    have s1 := Sorter.scanUp_spec (fun i => !Sorter.lt less arr lo i) (arr.size + 1) b c (by omega)
    have s2 := Sorter.scanDown_spec (fun i => Sorter.lt less arr lo i) (arr.size + 1)
      (Sorter.scanUp (arr.size + 1) (fun i => !Sorter.lt less arr lo i) b c) c (by omega)
    generalize hb' : Sorter.scanUp (arr.size + 1) (fun i => !Sorter.lt less arr lo i) b c = b' at s1 s2 ⊢
    generalize hc' : Sorter.scanDown (arr.size + 1) (fun i => Sorter.lt less arr lo i) b' c = c' at s2 ⊢
    sl_simp [dp_scanB hl lo hi m p4 p6 p9 p10 arr c hsz hlo (arr.size + 1) b _ rfl (by omega), hb',
      dp_scanC hl lo hi m p4 p6 p9 p10 arr b' hlo (arr.size + 1) c _ rfl (by omega) hsz, hc']
    by_cases h : b' ≥ c'
    · have : (b' : Int) ≥ c' := by omega
      sl_simp [this, h, decide_true]
    · have : ¬ (b' : Int) ≥ c' := by omega
      have t : ((c' : Int) - 1).toNat = c' - 1 := by omega
      sl_simp [this, h, decide_false, call_swap, Int.toNat_natCast, t]
      rw [← dpPartLoop]
      exact ih _ (b' + 1) (c' - 1) _ _ (by omega) (by omega) (by omega) (by rw [Sorter.sw_size]; omega)
        (by rw [Sorter.sw_size]; omega)

omit hl in
/-- where the duplicate-protection loop of the mirror ends (any comparison function) -/
theorem protectLoop_facts (less : Nat → Nat → Bool) (pv k : Nat) : ∀ (fuel : Nat) (arr : Ix) (x b : Nat), b < fuel + x → b ≤ arr.size →
    k ≤ x → k ≤ b →
    (Sorter.protectLoop less fuel arr pv x b).1.size = arr.size ∧ (Sorter.protectLoop less fuel arr pv x b).2.2 ≤ b ∧
    k ≤ (Sorter.protectLoop less fuel arr pv x b).2.2 := by
  intro fuel
  induction fuel with
  | zero => intro arr x b hf _ _ _; simp only [Sorter.protectLoop, true_and]; omega
  | succ fuel ih =>
    intro arr x b hf hsz hx hb
    simp only [Sorter.protectLoop]
    have s1 := Sorter.scanDown_spec (fun i => !Sorter.lt less arr i pv) (arr.size + 1) x b (by omega)
    have s3 := scanDown_ge (fun i => !Sorter.lt less arr i pv) (arr.size + 1) x b
    have s2 := Sorter.scanUp_spec (fun i => Sorter.lt less arr i pv) (arr.size + 1) x
      (Sorter.scanDown (arr.size + 1) (fun i => !Sorter.lt less arr i pv) x b) (by omega)
    have s4 := scanUp_ge (fun i => Sorter.lt less arr i pv) (arr.size + 1) x
      (Sorter.scanDown (arr.size + 1) (fun i => !Sorter.lt less arr i pv) x b)
    split
    · refine ⟨rfl, ?_⟩; dsimp only; omega
    · have := ih (Sorter.sw arr (Sorter.scanUp (arr.size + 1) (fun i => Sorter.lt less arr i pv) x
          (Sorter.scanDown (arr.size + 1) (fun i => !Sorter.lt less arr i pv) x b))
        (Sorter.scanDown (arr.size + 1) (fun i => !Sorter.lt less arr i pv) x b - 1))
        (Sorter.scanUp (arr.size + 1) (fun i => Sorter.lt less arr i pv) x
          (Sorter.scanDown (arr.size + 1) (fun i => !Sorter.lt less arr i pv) x b) + 1)
        (Sorter.scanDown (arr.size + 1) (fun i => !Sorter.lt less arr i pv) x b - 1)
        (by omega) (by rw [Sorter.sw_size]; omega) (by omega) (by omega)
      rw [Sorter.sw_size] at this
      omega

/-- the duplicate-protection loop is `protectLoop` of the mirror (for every fuel of the mirror that suffices) -/
theorem dp_prot (lo hi m : Nat) (p4 p7 p9 p10 : Val) :
    ∀ (fuel : Nat) (arr : Ix) (x b : Nat) (xz bz : Int), xz = x → bz = b → b < fuel + x → b ≤ arr.size → lo < arr.size →
    X cols dpProtLoop ([.sorter, .int lo, .int hi, .int m, p4, .int lo, .int xz, p7, .int bz, p9, p10], arr) =
      .ok (.next ([.sorter, .int lo, .int hi, .int m, p4, .int lo,
        .int ↑(Sorter.protectLoop less fuel arr lo x b).2.1, p7, .int ↑(Sorter.protectLoop less fuel arr lo x b).2.2, p9, p10],
        (Sorter.protectLoop less fuel arr lo x b).1)) := by
  intro fuel
  induction fuel with
  | zero =>
    intro arr x b xz bz hx hb hf hsz hlo
    subst hx; subst hb
    rw [dpProtLoop, x_loop]
    sl_simp [dp_scanB2 hl lo hi m p4 p7 p9 p10 arr x hlo 0 b _ rfl (by omega) hsz, Sorter.scanDown,
      dp_scanA2 hl lo hi m p4 p7 p9 p10 arr b hsz hlo 0 x _ rfl (by omega), Sorter.scanUp]
    have : (x : Int) ≥ b := by omega
    sl_simp [this, decide_true, Sorter.protectLoop]
  | succ fuel ih =>
    intro arr x b xz bz hx hb hf hsz hlo
    subst hx; subst hb
    rw [dpProtLoop, x_loop]
    simp only [Sorter.protectLoop]
    have s1 := Sorter.scanDown_spec (fun i => !Sorter.lt less arr i lo) (arr.size + 1) x b (by omega)
    have s2 := Sorter.scanUp_spec (fun i => Sorter.lt less arr i lo) (arr.size + 1) x
      (Sorter.scanDown (arr.size + 1) (fun i => !Sorter.lt less arr i lo) x b) (by omega)
    generalize hb' : Sorter.scanDown (arr.size + 1) (fun i => !Sorter.lt less arr i lo) x b = b' at s1 s2 ⊢
    generalize hx' : Sorter.scanUp (arr.size + 1) (fun i => Sorter.lt less arr i lo) x b' = x' at s2 ⊢
    sl_simp [dp_scanB2 hl lo hi m p4 p7 p9 p10 arr x hlo (arr.size + 1) b _ rfl (by omega) hsz, hb',
      dp_scanA2 hl lo hi m p4 p7 p9 p10 arr b' (by omega) hlo (arr.size + 1) x _ rfl (by omega), hx']
    by_cases h : x' ≥ b'
    · have : (x' : Int) ≥ b' := by omega
      sl_simp [this, h, decide_true]
    · have : ¬ (x' : Int) ≥ b' := by omega
      have t : ((b' : Int) - 1).toNat = b' - 1 := by omega
      sl_simp [this, h, decide_false, call_swap, Int.toNat_natCast, t]
      rw [← dpProtLoop]
      exact ih _ (x' + 1) (b' - 1) _ _ (by omega) (by omega) (by omega) (by rw [Sorter.sw_size]; omega)
        (by rw [Sorter.sw_size]; omega)

/-- Tukey's ninther and the median of three: `choosePivot` of the mirror -/
theorem dp_choose (lo hi : Nat) (p4 p5 p6 p7 p8 p9 p10 : Val) (arr : Ix) (h12 : lo + 12 < hi) (hsz : hi ≤ arr.size) (rest : List S) :
    X cols (S.block (dpNinther :: median (v 1) (v 3) (sub (v 2) (lit 1)) :: rest))
        ([.sorter, .int lo, .int hi, .int ↑((lo + hi) / 2), p4, p5, p6, p7, p8, p9, p10], arr) =
      X cols (S.block rest) ([.sorter, .int lo, .int hi, .int ↑((lo + hi) / 2),
        if hi - lo > 40 then .int ↑((hi - lo) / 8) else p4, p5, p6, p7, p8, p9, p10], Sorter.choosePivot less arr lo hi) := by
  simp only [Sorter.choosePivot, dpNinther]
  by_cases h40 : hi - lo > 40
  · have h40' : (hi : Int) - lo > 40 := by omega
    have t1 : ((lo : Int) + ↑((hi - lo) / 8)).toNat = lo + (hi - lo) / 8 := by omega
    have t2 : ((lo : Int) + 2 * ↑((hi - lo) / 8)).toNat = lo + 2 * ((hi - lo) / 8) := by omega
    have t3 : ((↑((lo + hi) / 2) : Int) - ↑((hi - lo) / 8)).toNat = (lo + hi) / 2 - (hi - lo) / 8 := by omega
    have t4 : ((↑((lo + hi) / 2) : Int) + ↑((hi - lo) / 8)).toNat = (lo + hi) / 2 + (hi - lo) / 8 := by omega
    have t5 : ((hi : Int) - 1).toNat = hi - 1 := by omega
    have t6 : ((hi : Int) - 1 - ↑((hi - lo) / 8)).toNat = hi - 1 - (hi - lo) / 8 := by omega
    have t7 : ((hi : Int) - 1 - 2 * ↑((hi - lo) / 8)).toNat = hi - 1 - 2 * ((hi - lo) / 8) := by omega
    sl_simp [h40, h40', decide_true, tdiv8 hi lo (by omega)]
    rw [call_median hl arr _ _ _ (by omega) (by omega) (by omega)]
    sl_simp []
    rw [call_median hl _ _ _ _ (by rw [median_size]; omega) (by rw [median_size]; omega) (by rw [median_size]; omega)]
    sl_simp []
    rw [call_median hl _ _ _ _ (by simp only [median_size]; omega) (by simp only [median_size]; omega)
      (by simp only [median_size]; omega)]
    sl_simp []
    rw [call_median hl _ _ _ _ (by simp only [median_size]; omega) (by simp only [median_size]; omega)
      (by simp only [median_size]; omega)]
    sl_simp [t1, t2, t3, t4, t5, t6, t7, Int.toNat_natCast]
  · have h40' : ¬ (hi : Int) - lo > 40 := by omega
    have t5 : ((hi : Int) - 1).toNat = hi - 1 := by omega
    sl_simp [h40, h40', decide_false]
    rw [call_median hl arr _ _ _ (by omega) (by omega) (by omega)]
    sl_simp [t5, Int.toNat_natCast]

/-- "Lets test some points for equality to pivot": `dupsBlock` of the mirror -/
theorem dp_dups (lo hi m : Nat) (p4 p6 p10 : Val) (arr : Ix) (b c : Nat) (hb : 2 ≤ b ∧ b ≤ arr.size) (hc : c < hi)
    (hsz : hi ≤ arr.size) (hlo : lo < arr.size) (hm : m < arr.size)
    (hcond : hi - c < (hi - lo) / 4) :
    ∃ p10', X cols dpDups ([.sorter, .int lo, .int hi, .int m, p4, .int lo, p6, .int c, .int b, .bool false, p10], arr) =
      .ok (.next ([.sorter, .int lo, .int hi, .int m, p4, .int lo, p6, .int ↑(Sorter.dupsBlock less arr lo hi m b c).c,
        .int ↑(Sorter.dupsBlock less arr lo hi m b c).b, .bool (Sorter.dupsBlock less arr lo hi m b c).protect, p10'],
        (Sorter.dupsBlock less arr lo hi m b c).a)) := by
  have hlh : lo ≤ hi := by omega
  have c1 : (hi : Int) - c < ↑((hi - lo) / 4) := by omega
  have t1 : ((hi : Int) - 1).toNat = hi - 1 := by omega
  have t2 : ((b : Int) - 1).toNat = b - 1 := by omega
  have t3 : ((b : Int) - 1 - 1).toNat = b - 1 - 1 := by omega
  have u1 : ((b : Int) - 1) = ↑(b - 1) := by omega
  have u2 : ((b : Int) - 1 - 1) = ↑(b - 1 - 1) := by omega
  simp only [dpDups]
  sl_simp [Bool.not_false, tdiv4 hi lo hlh, c1, decide_true, call_less' hl, t1, Int.toNat_natCast]
  cases e1 : Sorter.lt less arr lo (hi - 1)
  · sl_simp [Bool.not_false, call_swap, call_less' hl, t1, t2, Int.toNat_natCast]
    cases e2 : Sorter.lt less (Sorter.sw arr c (hi - 1)) (b - 1) lo
    · sl_simp [Bool.not_false, call_less' hl, Int.toNat_natCast]
      cases e3 : Sorter.lt less (Sorter.sw arr c (hi - 1)) m lo
      · sl_simp [Bool.not_false, call_swap, t3, Int.toNat_natCast]
        refine ⟨.int (0 + 1 + 1 + 1), ?_⟩
        simp [Sorter.dupsBlock, Sorter.dups1, Sorter.dups2, Sorter.dups3, e1, e2, e3, u2]
      · sl_simp [Bool.not_true, Bool.false_eq_true]
        refine ⟨.int (0 + 1 + 1), ?_⟩
        simp [Sorter.dupsBlock, Sorter.dups1, Sorter.dups2, Sorter.dups3, e1, e2, e3, u1]
    · sl_simp [Bool.not_true, Bool.false_eq_true, call_less' hl, Int.toNat_natCast]
      cases e3 : Sorter.lt less (Sorter.sw arr c (hi - 1)) m lo
      · sl_simp [Bool.not_false, call_swap, t2, Int.toNat_natCast]
        refine ⟨.int (0 + 1 + 1), ?_⟩
        simp [Sorter.dupsBlock, Sorter.dups1, Sorter.dups2, Sorter.dups3, e1, e2, e3, u1]
      · sl_simp [Bool.not_true, Bool.false_eq_true]
        refine ⟨.int (0 + 1), ?_⟩
        simp [Sorter.dupsBlock, Sorter.dups1, Sorter.dups2, Sorter.dups3, e1, e2, e3]
  · sl_simp [Bool.not_true, Bool.false_eq_true, call_less' hl, t2, Int.toNat_natCast]
    cases e2 : Sorter.lt less arr (b - 1) lo
    · sl_simp [Bool.not_false, call_less' hl, Int.toNat_natCast]
      cases e3 : Sorter.lt less arr m lo
      · sl_simp [Bool.not_false, call_swap, t3, Int.toNat_natCast]
        refine ⟨.int (0 + 1 + 1), ?_⟩
        simp [Sorter.dupsBlock, Sorter.dups1, Sorter.dups2, Sorter.dups3, e1, e2, e3, u2]
      · sl_simp [Bool.not_true, Bool.false_eq_true]
        refine ⟨.int (0 + 1), ?_⟩
        simp [Sorter.dupsBlock, Sorter.dups1, Sorter.dups2, Sorter.dups3, e1, e2, e3, u1]
    · sl_simp [Bool.not_true, Bool.false_eq_true, call_less' hl, Int.toNat_natCast]
      cases e3 : Sorter.lt less arr m lo
      · sl_simp [Bool.not_false, call_swap, t2, Int.toNat_natCast]
        refine ⟨.int (0 + 1), ?_⟩
        simp [Sorter.dupsBlock, Sorter.dups1, Sorter.dups2, Sorter.dups3, e1, e2, e3, u1]
      · sl_simp [Bool.not_true, Bool.false_eq_true]
        refine ⟨.int (0), ?_⟩
        simp [Sorter.dupsBlock, Sorter.dups1, Sorter.dups2, Sorter.dups3, e1, e2, e3]

omit hl in
theorem choosePivot_size (less : Nat → Nat → Bool) (a : Ix) (lo hi : Nat) : (Sorter.choosePivot less a lo hi).size = a.size :=
  (Sorter.choosePivot_perm less a lo hi).size_eq

omit hl in
theorem dupsBlock_facts (less : Nat → Nat → Bool) (a : Ix) (lo hi m b c : Nat) :
    (Sorter.dupsBlock less a lo hi m b c).a.size = a.size ∧ b - 2 ≤ (Sorter.dupsBlock less a lo hi m b c).b ∧
    (Sorter.dupsBlock less a lo hi m b c).b ≤ b ∧ c ≤ (Sorter.dupsBlock less a lo hi m b c).c ∧
    (Sorter.dupsBlock less a lo hi m b c).c ≤ c + 1 := by
  refine ⟨(Sorter.dupsBlock_perm less a lo hi m b c).size_eq, ?_⟩
  simp only [Sorter.dupsBlock, Sorter.dups1, Sorter.dups2, Sorter.dups3]
  split <;> split <;> split <;> (dsimp only; omega)

omit hl in
/-- where the two results of the mirror's `doPivot` lie — for ANY comparison function -/
theorem doPivot_bounds (less : Nat → Nat → Bool) (a : Ix) (lo hi : Nat) (h12 : lo + 12 < hi) (hsz : hi ≤ a.size) :
    (Sorter.doPivot less a lo hi).1.size = a.size ∧ lo ≤ (Sorter.doPivot less a lo hi).2.1 ∧
    (Sorter.doPivot less a lo hi).2.1 < hi ∧ (Sorter.doPivot less a lo hi).2.2 ≤ hi := by
  refine ⟨(Sorter.doPivot_perm less a lo hi).size_eq, ?_⟩
  simp only [Sorter.doPivot]
  have sz1 := choosePivot_size less a lo hi
  generalize Sorter.choosePivot less a lo hi = a1 at sz1 ⊢
  have sx := Sorter.scanUp_spec (fun i => Sorter.lt less a1 i lo) (a1.size + 1) (lo + 1) (hi - 1) (by omega)
  generalize Sorter.scanUp (a1.size + 1) (fun i => Sorter.lt less a1 i lo) (lo + 1) (hi - 1) = x at sx ⊢
  have fr := pivotLoop_facts less lo (a1.size + 1) a1 x (hi - 1) (by omega) (by omega)
  generalize Sorter.pivotLoop less (a1.size + 1) a1 lo x (hi - 1) = r at fr ⊢
  obtain ⟨a2, b, c⟩ := r
  simp only at fr ⊢
  generalize hst : (if (!decide (hi - c < 5) && decide (hi - c < (hi - lo) / 4)) = true then
      Sorter.dupsBlock less a2 lo hi ((lo + hi) / 2) b c else { a := a2, b := b, c := c, protect := decide (hi - c < 5) } : Sorter.PState) = st
  have key : st.a.size = a.size ∧ lo + 1 ≤ st.b ∧ st.b ≤ hi ∧ st.c ≤ hi := by
    by_cases hq : (!decide (hi - c < 5) && decide (hi - c < (hi - lo) / 4)) = true
    · rw [if_pos hq] at hst
      subst hst
      have df := dupsBlock_facts less a2 lo hi ((lo + hi) / 2) b c
      simp only [Bool.and_eq_true, Bool.not_eq_eq_eq_not, Bool.not_true, decide_eq_false_iff_not, decide_eq_true_eq] at hq
      omega
    · rw [if_neg hq] at hst
      subst hst
      dsimp only
      omega
  obtain ⟨a3, b3, c3, pr⟩ := st
  simp only at key ⊢
  cases pr
  · simp only [Bool.false_eq_true, ↓reduceIte]
    omega
  · simp only [↓reduceIte]
    have fp := protectLoop_facts less lo (lo + 1) (a3.size + 1) a3 x b3 (by omega) (by omega) (by omega) (by omega)
    omega

/-- `doPivot(data, lo, hi)` is the mirror's `doPivot`: the two results and the array -/
theorem call_doPivot (a : Ix) (lo hi : Nat) (h12 : lo + 12 < hi) (hsz : hi ≤ a.size) :
    C cols fDoPivot [.sorter, .int lo, .int hi] a =
      .ok (.pair ↑(Sorter.doPivot less a lo hi).2.1 ↑(Sorter.doPivot less a lo hi).2.2, (Sorter.doPivot less a lo hi).1) := by
  rw [callLim_eq canonFns cols _ fDoPivot fnDoPivot rfl _ rfl
    [.sorter, .int lo, .int hi, .unit, .unit, .unit, .unit, .unit, .unit, .unit, .unit] rfl]
  simp only [fnDoPivot, Sorter.doPivot]
  have n0 : (0 : Int) ≤ ↑lo + ↑hi := by omega
  have n1 : ((lo : Int) + hi) / 2 = ↑((lo + hi) / 2) := by omega
  sl_simp [n0, n1]
  rw [← x_block_cons, dp_choose hl lo hi _ _ _ _ _ _ _ a h12 hsz]
  have sz1 := choosePivot_size less a lo hi
  generalize Sorter.choosePivot less a lo hi = a1 at sz1 ⊢
  generalize (if hi - lo > 40 then Val.int ↑((hi - lo) / 8) else Val.unit) = p4
  have u1 : (hi : Int) - 1 = ↑(hi - 1) := by omega
  sl_simp [u1]
  rw [dp_scanA hl lo hi _ p4 .unit .unit .unit a1 (hi - 1) (by omega) (by omega) (a1.size + 1) (lo + 1) _ (by omega) (by omega)]
  have sx := Sorter.scanUp_spec (fun i => Sorter.lt less a1 i lo) (a1.size + 1) (lo + 1) (hi - 1) (by omega)
  generalize Sorter.scanUp (a1.size + 1) (fun i => Sorter.lt less a1 i lo) (lo + 1) (hi - 1) = x at sx ⊢
  sl_simp []
  rw [dp_part hl lo hi _ p4 _ .unit .unit (a1.size + 1) a1 x (hi - 1) _ _ rfl rfl (by omega) (by omega) (by omega)]
  have fr := pivotLoop_facts less lo (a1.size + 1) a1 x (hi - 1) (by omega) (by omega)
  generalize Sorter.pivotLoop less (a1.size + 1) a1 lo x (hi - 1) = r at fr ⊢
  obtain ⟨a2, b, c⟩ := r
  simp only at fr ⊢
  sl_simp []
  generalize hst : (if (!decide (hi - c < 5) && decide (hi - c < (hi - lo) / 4)) = true then
      Sorter.dupsBlock less a2 lo hi ((lo + hi) / 2) b c else { a := a2, b := b, c := c, protect := decide (hi - c < 5) } : Sorter.PState) = st
  have key : ∃ p10', X cols dpDups ([.sorter, .int lo, .int hi, .int ↑((lo + hi) / 2), p4, .int lo, .int x, .int c, .int b,
        .bool (decide ((hi : Int) - c < 5)), .unit], a2) =
      .ok (.next ([.sorter, .int lo, .int hi, .int ↑((lo + hi) / 2), p4, .int lo, .int x, .int ↑st.c, .int ↑st.b,
        .bool st.protect, p10'], st.a)) ∧ st.a.size = a.size ∧ lo + 1 ≤ st.b ∧ st.b ≤ hi ∧ st.c ≤ hi := by
    by_cases hp : hi - c < 5
    · have hp' : (hi : Int) - c < 5 := by omega
      simp only [hp, decide_true, Bool.not_true, Bool.false_and, Bool.false_eq_true, ↓reduceIte] at hst
      subst hst
      simp only [dpDups]
      sl_simp [hp', decide_true, Bool.not_true]
      exact ⟨_, rfl, by omega, by omega, by omega, by omega⟩
    · have hp' : ¬ (hi : Int) - c < 5 := by omega
      by_cases hq : hi - c < (hi - lo) / 4
      · simp only [hp, hq, decide_true, decide_false, Bool.not_false, Bool.and_self, ↓reduceIte] at hst
        subst hst
        have df := dupsBlock_facts less a2 lo hi ((lo + hi) / 2) b c
        obtain ⟨p10', h⟩ := dp_dups hl lo hi ((lo + hi) / 2) p4 (.int x) .unit a2 b c (by omega) (by omega) (by omega)
          (by omega) (by omega) hq
        simp only [hp', decide_false]
        exact ⟨p10', h, by omega, by omega, by omega, by omega⟩
      · have hq' : ¬ (hi : Int) - c < ↑((hi - lo) / 4) := by omega
        simp only [hp, hq, decide_false, Bool.not_false, Bool.and_false, Bool.false_eq_true, ↓reduceIte] at hst
        subst hst
        simp only [dpDups]
        sl_simp [hp', decide_false, Bool.not_false, tdiv4 hi lo (by omega), hq']
        exact ⟨_, rfl, by omega, by omega, by omega, by omega⟩
  obtain ⟨p10', hk, k1, k2, k3, k4⟩ := key
  rw [hk]
  obtain ⟨a3, b3, c3, pr⟩ := st
  simp only at k1 k2 k3 k4 ⊢
  have t1 : ((b3 : Int) - 1).toNat = b3 - 1 := by omega
  have u2 : ((b3 : Int) - 1) = ↑(b3 - 1) := by omega
  cases pr
  · sl_simp [call_swap, Int.toNat_natCast, t1, u2, Bool.false_eq_true]
  · sl_simp []
    rw [dp_prot hl lo hi _ p4 _ _ p10' (a3.size + 1) a3 x b3 _ _ rfl rfl (by omega) (by omega) (by omega)]
    have fp := protectLoop_facts less lo (lo + 1) (a3.size + 1) a3 x b3 (by omega) (by omega) (by omega) (by omega)
    generalize Sorter.protectLoop less (a3.size + 1) a3 lo x b3 = q at fp ⊢
    obtain ⟨a4, x4, b4⟩ := q
    simp only at fp ⊢
    have t1 : ((b4 : Int) - 1).toNat = b4 - 1 := by omega
    have u2 : ((b4 : Int) - 1) = ↑(b4 - 1) := by omega
    sl_simp [call_swap, Int.toNat_natCast, t1, u2]

end withLess
end QF.Props.C03SorterGen
