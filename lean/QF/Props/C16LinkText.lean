import QF.Spec.Num
import QF.Props.C16Layouts
namespace QF.Props.C16Link
open AF QF.Num QF.Props.C16

/-- the positional text that `dec64.appendF` writes for the decimal `m·10^e` whose mantissa has `L` digits -/
def positionalL (L m : Nat) (e : Int) : List UInt8 :=
  if e ≥ 0 then digitsN L m ++ zeros e.toNat
  else if (-e).toNat ≥ L then [48, 46] ++ zeros ((-e).toNat - L) ++ digitsN L m
  else digitsN (L - (-e).toNat) (m / 10 ^ (-e).toNat) ++ [46] ++ digitsN (-e).toNat (m % 10 ^ (-e).toNat)

/-!
# C16 — link between the formatter's text layouts and the decimal spec (`QF.Num`)

`positionalL L m e` is the byte text produced by the three layouts of `dec64.appendF`
(`AF.layoutInt_spec`, `C16.layoutFrac_spec`, `C16.layoutMixed_spec`) for an `L`-digit mantissa `m`
and decimal exponent `e`. This file shows that the spec-side reader `parsePositional` reads back
exactly `(m, e)` (up to the trailing zeros of the integer layout, removed again by `normalize`), and
that the text is in `canonicalForm`.
-/

/-! ## byte facts -/

theorem byte_facts : ∀ r : Nat, r < 10 →
    ((decide ((48 : UInt8) ≤ (48 + r).toUInt8) && decide ((48 + r).toUInt8 ≤ 57)) = true ∧
      (48 + r).toUInt8 ≠ 46 ∧ (48 + r).toUInt8 ≠ 45 ∧ ((48 + r).toUInt8).toNat - 48 = r ∧
      ((48 + r).toUInt8 = 48 ↔ r = 0)) := by decide

theorem digit_isDigit (d : Nat) : (decide ((48 : UInt8) ≤ digit d) && decide (digit d ≤ 57)) = true :=
  (byte_facts (d % 10) (Nat.mod_lt _ (by decide))).1

theorem digit_val (d : Nat) : (digit d).toNat - 48 = d % 10 :=
  (byte_facts (d % 10) (Nat.mod_lt _ (by decide))).2.2.2.1

theorem digit_eq_48 (d : Nat) : digit d = 48 ↔ d % 10 = 0 :=
  (byte_facts (d % 10) (Nat.mod_lt _ (by decide))).2.2.2.2

theorem isDigit_ne (c : UInt8) (h : (decide ((48 : UInt8) ≤ c) && decide (c ≤ 57)) = true) :
    c ≠ 46 ∧ c ≠ 45 := by
  simp only [Bool.and_eq_true, decide_eq_true_eq] at h
  have h1 := UInt8.le_iff_toNat_le.mp h.1
  constructor <;> (intro heq; subst heq; revert h1; decide)

/-- all bytes are ASCII digits (in the exact form `parsePositional` unfolds to) -/
def AllDigits (l : List UInt8) : Prop := ∀ c ∈ l, (decide ((48 : UInt8) ≤ c) && decide (c ≤ 57)) = true

theorem allDigits_nil : AllDigits [] := by intro c h; cases h

theorem allDigits_append {a b : List UInt8} (ha : AllDigits a) (hb : AllDigits b) : AllDigits (a ++ b) := by
  intro c h
  rcases List.mem_append.mp h with h | h
  · exact ha c h
  · exact hb c h

theorem allDigits_digitsN : ∀ (k m : Nat), AllDigits (digitsN k m) := by
  intro k
  induction k with
  | zero => intro m; exact allDigits_nil
  | succ k ih =>
    intro m
    simp only [digitsN]
    refine allDigits_append (ih _) ?_
    intro c h
    rw [List.mem_singleton] at h
    subst h
    exact digit_isDigit m

theorem allDigits_zeros (k : Nat) : AllDigits (zeros k) := by
  rw [← digitsN_zero]; exact allDigits_digitsN k 0

/-- the value fold of `parsePositional` -/
def val (a : Nat) (l : List UInt8) : Nat := l.foldl (fun acc c => acc * 10 + (c.toNat - 48)) a

theorem val_append (a : Nat) (l l' : List UInt8) : val a (l ++ l') = val (val a l) l' := by
  simp only [val, List.foldl_append]

theorem val_digitsN : ∀ (k m a : Nat), val a (digitsN k m) = a * 10 ^ k + m % 10 ^ k := by
  intro k
  induction k with
  | zero => intro m a; simp [val, digitsN, Nat.mod_one]
  | succ k ih =>
    intro m a
    simp only [digitsN, val_append, ih]
    simp only [val, List.foldl_cons, List.foldl_nil, digit_val]
    rw [Nat.pow_succ', Nat.mod_mul, Nat.add_mul, Nat.mul_assoc, Nat.mul_comm (10 ^ k) 10,
      Nat.mul_comm (m / 10 % 10 ^ k) 10]
    omega

theorem val_zeros (k a : Nat) : val a (zeros k) = a * 10 ^ k := by
  rw [← digitsN_zero, val_digitsN, Nat.zero_mod, Nat.add_zero]

/-- "cons" form of `digitsN` -/
theorem digitsN_succ_cons : ∀ (k m : Nat), digitsN (k + 1) m = digit (m / 10 ^ k) :: digitsN k m := by
  intro k
  induction k with
  | zero => intro m; simp [digitsN]
  | succ k ih =>
    intro m
    rw [digitsN, ih (m / 10), Nat.div_div_eq_div_mul, ← Nat.pow_succ']
    rfl

theorem digitsN_head? (k m : Nat) : (digitsN (k + 1) m).head? = some (digit (m / 10 ^ k)) := by
  rw [digitsN_succ_cons]; rfl

theorem digitsN_getLast? (k m : Nat) : (digitsN (k + 1) m).getLast? = some (digit m) := by
  simp [digitsN]

theorem digitsN_ne_nil (k m : Nat) (hk : 1 ≤ k) : digitsN k m ≠ [] := by
  intro h
  have := congrArg List.length h
  rw [digitsN_length] at this
  simp at this; omega

/-- the leading digit of an `L`-digit number is not `'0'` -/
theorem lead_digit_ne (L m : Nat) (hL : 1 ≤ L) (hlo : 10 ^ (L - 1) ≤ m) (hhi : m < 10 ^ L) :
    digit (m / 10 ^ (L - 1)) ≠ 48 := by
  rw [Ne, digit_eq_48]
  have hp : 0 < 10 ^ (L - 1) := Nat.pow_pos (by decide)
  have h1 : 1 ≤ m / 10 ^ (L - 1) := (Nat.le_div_iff_mul_le hp).mpr (by omega)
  have h2 : m / 10 ^ (L - 1) < 10 := by
    rw [Nat.div_lt_iff_lt_mul hp, Nat.mul_comm, ← Nat.pow_succ, Nat.succ_eq_add_one]
    have : L - 1 + 1 = L := by omega
    rw [this]; exact hhi
  omega

theorem mod_pow_mod_ten (m p : Nat) (hp : 1 ≤ p) : m % 10 ^ p % 10 = m % 10 := by
  obtain ⟨q, rfl⟩ : ∃ q, p = q + 1 := ⟨p - 1, by omega⟩
  rw [Nat.pow_succ', Nat.mod_mul_right_mod]

theorem allDigits_not_neg {s : List UInt8} (hs : AllDigits s) : ∀ r, s = 45 :: r → False := by
  intro r h
  subst h
  exact (isDigit_ne 45 (hs 45 (List.mem_cons_self ..))).2 rfl

/-- a non-empty all-digit text parses as an integer -/
theorem parsePositional_int (ip : List UInt8) (hne : ip ≠ []) (hd : AllDigits ip) :
    parsePositional ip = some (false, val 0 ip, 0) := by
  have hs := allDigits_not_neg hd
  have htw : ip.takeWhile (fun c => decide ((48 : UInt8) ≤ c) && decide (c ≤ 57)) = ip := by
    have := List.takeWhile_append_of_pos (p := fun c => decide ((48 : UInt8) ≤ c) && decide (c ≤ 57))
      (l₁ := ip) (l₂ := []) hd
    simpa using this
  have hdw : ip.dropWhile (fun c => decide ((48 : UInt8) ≤ c) && decide (c ≤ 57)) = [] := by
    have := List.dropWhile_append_of_pos (p := fun c => decide ((48 : UInt8) ≤ c) && decide (c ≤ 57))
      (l₁ := ip) (l₂ := []) hd
    simpa using this
  unfold parsePositional
  simp only []
  rw [htw, hdw]
  simp [hne, val]

/-- `ip.fp` with non-empty all-digit parts -/
theorem parsePositional_frac (ip fp : List UInt8) (hne : ip ≠ []) (hd : AllDigits ip)
    (hfne : fp ≠ []) (hfd : AllDigits fp) :
    parsePositional (ip ++ 46 :: fp) = some (false, val 0 (ip ++ fp), -(fp.length : Int)) := by
  have hs : ∀ r, ip ++ 46 :: fp = 45 :: r → False := by
    intro r h
    cases ip with
    | nil => exact hne rfl
    | cons c t =>
      injection h with h1 h2
      subst h1
      exact (isDigit_ne 45 (hd 45 (List.mem_cons_self ..))).2 rfl
  have htw : (ip ++ 46 :: fp).takeWhile (fun c => decide ((48 : UInt8) ≤ c) && decide (c ≤ 57)) = ip := by
    rw [List.takeWhile_append_of_pos hd]
    simp
  have hdw : (ip ++ 46 :: fp).dropWhile (fun c => decide ((48 : UInt8) ≤ c) && decide (c ≤ 57)) = 46 :: fp := by
    rw [List.dropWhile_append_of_pos hd]
    simp
  have hall : fp.all (fun c => decide ((48 : UInt8) ≤ c) && decide (c ≤ 57)) = true :=
    List.all_eq_true.mpr hfd
  unfold parsePositional
  simp only []
  rw [htw, hdw]
  simp only [hall]
  simp [hne, hfne, val]

theorem allDigits_ne46 {s : List UInt8} (hs : AllDigits s) : ∀ c ∈ s, (c != 46) = true := by
  intro c hc
  exact bne_iff_ne.mpr (isDigit_ne c (hs c hc)).1

/-- an all-digit text without a leading `'0'` is canonical -/
theorem canonicalForm_int (s : List UInt8) (hd : AllDigits s) (hh : s.head? ≠ some 48) :
    canonicalForm s = true := by
  have hs := allDigits_not_neg hd
  have htw : s.takeWhile (fun x => x != 46) = s := by
    have := List.takeWhile_append_of_pos (p := fun x : UInt8 => x != 46) (l₁ := s) (l₂ := []) (allDigits_ne46 hd)
    simpa using this
  have hc : s.contains 46 = false := by
    apply Bool.eq_false_iff.mpr
    intro h
    exact (isDigit_ne 46 (hd 46 (List.contains_iff_mem.mp h))).1 rfl
  unfold canonicalForm
  simp only []
  rw [htw, hc]
  simp [hh]

/-- `ip.fp` is canonical when `ip` is `0` or has no leading `'0'` and `fp` does not end in `'0'` -/
theorem canonicalForm_frac (ip fp : List UInt8) (hne : ip ≠ []) (hd : AllDigits ip)
    (hip : ip = [48] ∨ ip.head? ≠ some 48) (hfne : fp ≠ []) (hl : fp.getLast? ≠ some 48) :
    canonicalForm (ip ++ 46 :: fp) = true := by
  have hs : ∀ r, ip ++ 46 :: fp = 45 :: r → False := by
    intro r h
    cases ip with
    | nil => exact hne rfl
    | cons c t =>
      injection h with h1 h2
      subst h1
      exact (isDigit_ne 45 (hd 45 (List.mem_cons_self ..))).2 rfl
  have htw : (ip ++ 46 :: fp).takeWhile (fun x => x != 46) = ip := by
    rw [List.takeWhile_append_of_pos (allDigits_ne46 hd)]
    simp
  have hc : (ip ++ 46 :: fp).contains 46 = true := by
    simp
  have hlast : (ip ++ 46 :: fp).getLast? = fp.getLast? := by
    cases fp with
    | nil => exact absurd rfl hfne
    | cons x t =>
      rw [List.getLast?_append, List.getLast?_cons_cons, List.getLast?_cons]
      rfl
  unfold canonicalForm
  simp only []
  rw [htw, hc, hlast]
  rcases hip with h | h
  · subst h; simp [hl]
  · simp [h, hl]

/-! ## the text written by `dec64.appendF` -/


theorem allDigits_zero_singleton : AllDigits [48] := by
  intro c h
  rw [List.mem_singleton] at h
  subst h
  decide

/-- bounds of the integer part in the `Y.XZ` layout -/
theorem div_pow_bounds (p j m : Nat) (hlo : 10 ^ (p + j) ≤ m) (hhi : m < 10 ^ (p + j + 1)) :
    10 ^ j ≤ m / 10 ^ p ∧ m / 10 ^ p < 10 ^ (j + 1) := by
  have hp : 0 < 10 ^ p := Nat.pow_pos (by decide)
  constructor
  · rw [Nat.le_div_iff_mul_le hp, ← Nat.pow_add, Nat.add_comm]; exact hlo
  · rw [Nat.div_lt_iff_lt_mul hp, ← Nat.pow_add]
    have : j + 1 + p = p + j + 1 := by omega
    rw [this]; exact hhi

theorem canonicalForm_positionalL (L m : Nat) (e : Int) (hL : 1 ≤ L) (hlo : 10 ^ (L - 1) ≤ m) (hhi : m < 10 ^ L)
    (h10 : m % 10 ≠ 0) : canonicalForm (positionalL L m e) = true := by
  have hlast : digit m ≠ 48 := by rw [Ne, digit_eq_48]; exact h10
  unfold positionalL
  split
  · -- layout 1: digits then zeros
    apply canonicalForm_int _ (allDigits_append (allDigits_digitsN _ _) (allDigits_zeros _))
    have hlead := lead_digit_ne L m hL hlo hhi
    obtain ⟨k, rfl⟩ : ∃ k, L = k + 1 := ⟨L - 1, by omega⟩
    rw [digitsN_succ_cons, List.cons_append, List.head?_cons]
    rw [Nat.add_sub_cancel] at hlead
    intro h; injection h with h; exact hlead h
  · rename_i he
    generalize hp : (-e).toNat = p
    have hp1 : 1 ≤ p := by omega
    split
    · -- layout 2: "0." zeros digits
      rename_i hge
      have e1 : [48, 46] ++ zeros (p - L) ++ digitsN L m = [48] ++ 46 :: (zeros (p - L) ++ digitsN L m) := by
        simp
      rw [e1]
      obtain ⟨k, rfl⟩ : ∃ k, L = k + 1 := ⟨L - 1, by omega⟩
      refine canonicalForm_frac [48] _ (by simp) allDigits_zero_singleton (Or.inl rfl) ?_ ?_
      · intro h
        have := congrArg List.length h
        simp [digitsN_length] at this
      · rw [List.getLast?_append, digitsN_getLast?]
        intro h; injection h with h; exact hlast h
    · -- layout 3: integer digits "." fraction digits
      rename_i hlt
      obtain ⟨j, rfl⟩ : ∃ j, L = p + j + 1 := ⟨L - p - 1, by omega⟩
      have e1 : p + j + 1 - p = j + 1 := by omega
      have e2 : p + j + 1 - 1 = p + j := by omega
      rw [e1, List.append_assoc, List.singleton_append]
      rw [e2] at hlo
      obtain ⟨b1, b2⟩ := div_pow_bounds p j m hlo hhi
      obtain ⟨q, rfl⟩ : ∃ q, p = q + 1 := ⟨p - 1, by omega⟩
      refine canonicalForm_frac _ _ (digitsN_ne_nil _ _ (by omega)) (allDigits_digitsN _ _) (Or.inr ?_)
        (digitsN_ne_nil _ _ (by omega)) ?_
      · have := lead_digit_ne (j + 1) (m / 10 ^ (q + 1)) (by omega) (by simpa using b1) b2
        rw [digitsN_head?]
        rw [Nat.add_sub_cancel] at this
        intro h; injection h with h; exact this h
      · rw [digitsN_getLast?]
        intro h; injection h with h
        rw [digit_eq_48, mod_pow_mod_ten _ _ (by omega)] at h
        exact h10 h

theorem parsePositional_positionalL (L m : Nat) (e : Int) (hL : 1 ≤ L) (hlo : 10 ^ (L - 1) ≤ m) (hhi : m < 10 ^ L) :
    parsePositional (positionalL L m e) =
      some (false, (if e ≥ 0 then m * 10 ^ e.toNat else m), (if e ≥ 0 then 0 else e)) := by
  unfold positionalL
  split
  · -- layout 1
    rename_i he
    rw [parsePositional_int _ ?_ (allDigits_append (allDigits_digitsN _ _) (allDigits_zeros _))]
    · rw [val_append, val_digitsN, val_zeros, Nat.mod_eq_of_lt hhi, Nat.zero_mul, Nat.zero_add]
    · intro h
      have := congrArg List.length h
      simp [digitsN_length] at this
      omega
  · rename_i he
    generalize hp : (-e).toNat = p
    have hpe : e = -(p : Int) := by omega
    have hp1 : 1 ≤ p := by omega
    split
    · -- layout 2
      rename_i hge
      have e1 : [48, 46] ++ zeros (p - L) ++ digitsN L m = [48] ++ 46 :: (zeros (p - L) ++ digitsN L m) := by
        simp
      rw [e1, parsePositional_frac [48] _ (by simp) allDigits_zero_singleton ?_
        (allDigits_append (allDigits_zeros _) (allDigits_digitsN _ _))]
      · rw [val_append, val_append, val_zeros, val_digitsN, Nat.mod_eq_of_lt hhi]
        have hv : val 0 [48] = 0 := by decide
        have hlen : (zeros (p - L) ++ digitsN L m).length = p := by
          simp [zeros, digitsN_length]; omega
        rw [hv, hlen, hpe, Nat.zero_mul, Nat.zero_mul, Nat.zero_add]
      · intro h
        have := congrArg List.length h
        simp [digitsN_length] at this
        omega
    · -- layout 3
      rename_i hlt
      obtain ⟨j, rfl⟩ : ∃ j, L = p + j + 1 := ⟨L - p - 1, by omega⟩
      have e1 : p + j + 1 - p = j + 1 := by omega
      have e2 : p + j + 1 - 1 = p + j := by omega
      rw [e1, List.append_assoc, List.singleton_append]
      rw [e2] at hlo
      obtain ⟨b1, b2⟩ := div_pow_bounds p j m hlo hhi
      rw [parsePositional_frac _ _ (digitsN_ne_nil _ _ (by omega)) (allDigits_digitsN _ _)
        (digitsN_ne_nil _ _ hp1) (allDigits_digitsN _ _)]
      rw [val_append, val_digitsN, val_digitsN, Nat.mod_eq_of_lt b2, Nat.mod_mod, digitsN_length,
        Nat.zero_mul, Nat.zero_add, Nat.div_add_mod', hpe]

/-! ## `normalize` -/

theorem normalize_go_pow : ∀ (fuel j m : Nat) (d : Int), j ≤ fuel → m ≠ 0 → m % 10 ≠ 0 →
    normalize.go fuel (m * 10 ^ j) d = (m, d + j) := by
  intro fuel
  induction fuel with
  | zero =>
    intro j m d hj _ _
    have : j = 0 := by omega
    subst this
    simp [normalize.go]
  | succ fuel ih =>
    intro j m d hj hm h10
    cases j with
    | zero =>
      rw [normalize.go]
      simp [h10]
    | succ j =>
      have hpos : 0 < 10 ^ j := Nat.pow_pos (by decide)
      have h1 : m * 10 ^ (j + 1) = m * 10 ^ j * 10 := by rw [Nat.pow_succ, Nat.mul_assoc]
      have h2 : m * 10 ^ j ≠ 0 := Nat.mul_ne_zero hm (by omega)
      rw [normalize.go, h1]
      have hc : (m * 10 ^ j * 10 != 0 && m * 10 ^ j * 10 % 10 == 0) = true := by
        simp [Nat.mul_mod_left]
        omega
      rw [if_pos hc, Nat.mul_div_cancel _ (by decide), ih j m (d + 1) (by omega) hm h10]
      congr 1
      simp only [Int.natCast_succ]
      omega

theorem normalize_positional (m : Nat) (e : Int) (hm : m ≠ 0) (h10 : m % 10 ≠ 0) (he : e ≤ 400) :
    normalize (if e ≥ 0 then m * 10 ^ e.toNat else m) (if e ≥ 0 then 0 else e) = (m, e) := by
  unfold normalize
  split
  · rename_i h
    rw [normalize_go_pow 400 e.toNat m 0 (by omega) hm h10]
    congr 1
    omega
  · have := normalize_go_pow 400 0 m e (by omega) hm h10
    simpa using this

/-! ## concrete instances -/

-- "1234500", "0.0012345", "123.45"
example : positionalL 5 12345 2 = [49, 50, 51, 52, 53, 48, 48] := by decide
example : positionalL 5 12345 (-7) = [48, 46, 48, 48, 49, 50, 51, 52, 53] := by decide
example : positionalL 5 12345 (-2) = [49, 50, 51, 46, 52, 53] := by decide
example : parsePositional (positionalL 5 12345 (-2)) = some (false, 12345, -2) :=
  parsePositional_positionalL 5 12345 (-2) (by decide) (by decide) (by decide)
-- `h10` cannot be dropped from `canonicalForm_positionalL`: "123.50" is not canonical
example : canonicalForm (positionalL 5 12350 (-2)) = false := by decide
-- `hlo` cannot be dropped from `canonicalForm_positionalL`: "01235" is not canonical
example : canonicalForm (positionalL 5 1235 0) = false := by decide

#print axioms canonicalForm_positionalL
#print axioms parsePositional_positionalL
#print axioms normalize_positional
end QF.Props.C16Link
