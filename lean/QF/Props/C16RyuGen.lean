import QF.Props.C16RyuLayout
import QF.Props.C16LinkFinal
/-!
# C16 — the Ryu core as extracted today IS the mirror `QF.Ryu64` (tie T1, regenerated semantics)

`QF.Gen.ryuFns` is regenerated on every run from /repo/internal/ryu/ryu64.go and ryu.go (go/cmd/extract/ryuast.go); by
`gen_ryu_canon` (C16RyuCanon) it is `canonFns`. The function-by-function proof is in

    boolTo…, log10Pow2, log10Pow5, pow5Bits, shiftRight128, mulShift64, pow5Factor64,
    multipleOfPowerOfFive64, multipleOfPowerOfTwo64, decimalLen64                       C16RyuFns
    float64ToDecimalExactInt, steps 1–3 of float64ToDecimal                              C16RyuMain
    the three digit-removal loops, step 4, float64ToDecimal                              C16RyuStep4
    sizeSlice, the loops and the three layouts of dec64.appendF, AppendFloat64f           C16RyuLayout

and this file states the result:

* `gen_ryu_semantics` — for the fields `mant < 2^52`, `exp < 2047` (not both 0) of EVERY finite non-zero float64 and every
  loop fuel ≥ 28: interpreting TODAY'S EXTRACTED PROGRAMS gives exactly what the mirror computes — the exact-integer fast
  path (`m`, `e`, `ok`), `float64ToDecimal` (`m`, `e`), and their composition `Ryu64.decimal` as `AppendFloat64f` forms it.
  All `uint64` / `uint32` / `uint8` / `int32` / `int` arithmetic of the interpretation is exact (modulo 2^w, two's
  complement): the theorem includes that no `int32` operation of the code overflows, that no assertion fails and that no table
  index is out of range for these inputs. The loops end because their Go conditions fail, not because fuel runs out; for the
  second loop of the general case this uses `step3_vm_ne_zero` (the lower interval end is never scaled to 0 — from the
  precision lemma `C16Core.precision`, the two exceptional floats by evaluation).
* `gen_decimalLen64` — `decimalLen64` for every `u < 2^59` (beyond, Go indexes `powersOf10` out of range).
* `gen_appendf_semantics` — `AppendFloat64f` as extracted today (field extraction from the bit pattern, early exits, fast path /
  general algorithm, `dec64.appendF` with `decimalLen64`, `sizeSlice` and the three layouts — C16RyuLayout) returns, for every
  finite non-zero float64 and every buffer state, exactly the buffer of the mirror `C16Link.appendF` applied to the mirror's
  `Ryu64.decimal` (content and spare capacity), and `gen_ryu_text_is_shortest` — hence `C16Link.ryu_text_is_shortest` holds for
  the regenerated pipeline: the bytes appended are the shortest round-trip text.
* `gen_ryu_shortest` — hence the regenerated core returns the shortest correctly rounded decimal (`C16Core.ryu_shortest`), and
  `gen_ryu_decimal_shortest` — what the regenerated `decimal` returns is `Shortest` for the float (`C16Link.decimal_shortest`).
-/
namespace QF.Props.C16RyuGen
open QF QF.RY

/-! ## the loops end for their own reason -/

theorem mulShift64_lt (m : Nat) (mul : Nat × Nat) (s : Int) : Ryu64.mulShift64 m mul s < 2 ^ 64 := by
  unfold Ryu64.mulShift64 Ryu64.shiftRight128
  apply Nat.or_lt_two_pow
  · unfold Ryu64.shl64; split
    · exact Nat.mod_lt _ (Nat.two_pow_pos 64)
    · exact Nat.two_pow_pos 64
  · unfold Ryu64.shr64; split
    · rw [Nat.shiftRight_eq_div_pow]
      exact Nat.lt_of_le_of_lt (Nat.div_le_self _ _) (Nat.mod_lt _ (Nat.two_pow_pos 64))
    · exact Nat.two_pow_pos 64

theorem step3_lt (mant exp : Nat) : (Ryu64.step3 mant exp).vm < 10 ^ 20 ∧ (Ryu64.step3 mant exp).vp < 10 ^ 20 := by
  obtain ⟨_, f2, f3, _⟩ := C16Core.step3_fields mant exp
  have h : (2 : Nat) ^ 64 < 10 ^ 20 := by decide
  constructor
  · rw [f2]; exact Nat.lt_trans (mulShift64_lt _ _ _) h
  · rcases f3 with f3 | f3
    · rw [f3]; exact Nat.lt_trans (mulShift64_lt _ _ _) h
    · rw [f3]; unfold Ryu64.subU64; exact Nat.lt_trans (Nat.mod_lt _ (Nat.two_pow_pos 64)) h

/-- the scaled lower end of the rounding interval is never 0 (for the two floats where one multiplier product is off by one: by
evaluation; otherwise the product is the exact floor of a quantity ≥ 1) -/
theorem step3_vm_ne_zero (mant exp : Nat) (hm : mant < 2 ^ 52) (he : exp < 2047) (hnz : mant ≠ 0 ∨ exp ≠ 0) :
    (Ryu64.step3 mant exp).vm ≠ 0 := by
  by_cases h1 : exp = 472 ∧ mant = C16Core.excMant472
  · obtain ⟨rfl, rfl⟩ := h1; decide +kernel
  by_cases h2 : exp = 1797 ∧ mant = C16Core.excMant1797
  · obtain ⟨rfl, rfl⟩ := h2; decide +kernel
  have hfl := C16Core.floorsHold_all mant exp hm he hnz h1 h2
  unfold C16Core.floorsHold at hfl
  simp only [Bool.and_eq_true, beq_iff_eq] at hfl
  rw [(C16Core.step3_fields mant exp).2.1, hfl.2]
  obtain ⟨hm1, hm2⟩ := C16Core.decodeM2_range mant exp hm hnz
  obtain ⟨hD, hDN, hN, hq⟩ := C16Core.scale_facts exp he
  have hs := C16Core.mmShiftOf_le mant exp
  obtain ⟨a1, _⟩ := C16Core.sem_arith (Ryu64.decodeM2 mant exp) (Ryu64.mmShiftOf mant exp) (C16Core.scaleNum exp)
    (C16Core.scaleDen exp) (Ryu64.acceptBoundsOf mant exp) hm1 hm2 hs hD hDN hN hq
  rw [C16Core.mm_eq _ _ (by omega) hm2 hs]
  exact Nat.ne_of_gt (Nat.div_pos a1 hD)

/-! ## The theorems -/

/-- the tables the interpretation reads: today's `pow5Split64`, `pow5InvSplit64` (`QF.Gen.Ryu`) and `powersOf10` -/
abbrev genTables : Tbl → Nat → Option Val := tables Gen.pow5Split64 Gen.pow5InvSplit64 Gen.ryuPow10

theorem genTables_eq : genTables = T := by
  unfold genTables T; rw [gen_ryu_canon.2]

/-- **The Ryu core as extracted today is the mirror.** For the fields of every finite non-zero float64 (`mant < 2^52`,
`exp < 2047`, not both 0 — what `AppendFloat64f` hands over after its early exits) and every loop fuel ≥ 28, interpreting
the programs extracted from today's /repo/internal/ryu yields exactly the mirror's results: `float64ToDecimalExactInt`
(mantissa, exponent, flag), `float64ToDecimal` (mantissa, exponent) and `Ryu64.decimal` (what is formatted). -/
theorem gen_ryu_semantics (mant exp : Nat) (hm : mant < 2 ^ 52) (he : exp < 2047) (hnz : mant ≠ 0 ∨ exp ≠ 0)
    (F : Nat) (hF : 28 ≤ F) :
    interpExactInt Gen.ryuFns genTables F mant exp =
      some ((Ryu64.float64ToDecimalExactInt mant exp).1.m, (Ryu64.float64ToDecimalExactInt mant exp).1.e,
        (Ryu64.float64ToDecimalExactInt mant exp).2) ∧
    interpToDecimal Gen.ryuFns genTables F mant exp =
      some ((Ryu64.float64ToDecimal mant exp).m, (Ryu64.float64ToDecimal mant exp).e) ∧
    interpDecimal Gen.ryuFns genTables F mant exp = some (Ryu64.decimal mant exp) := by
  rw [gen_ryu_canon.1, genTables_eq]
  have h1 : interpExactInt canonFns T F mant exp =
      some ((Ryu64.float64ToDecimalExactInt mant exp).1.m, (Ryu64.float64ToDecimalExactInt mant exp).1.e,
        (Ryu64.float64ToDecimalExactInt mant exp).2) := by
    have := call_exactInt F (fun _ => []) 3 (by omega) mant exp hm (by omega)
    have this : callAt canonFns T F (fun _ => []) (3 + 1) 0 [.u 64 mant, .u 64 exp] = _ := this
    have h4 : depth = 3 + 1 := rfl
    rw [interpExactInt, h4, this]
    simp only [Val.nat?, Val.int?, Val.bool?]
  have h2 : interpToDecimal canonFns T F mant exp =
      some ((Ryu64.float64ToDecimal mant exp).m, (Ryu64.float64ToDecimal mant exp).e) := by
    have := call_toDecimal F (fun _ => []) 1 hF mant exp hm he hnz (step3_vm_ne_zero mant exp hm he hnz) (step3_lt mant exp).1 (step3_lt mant exp).2
    have this : callAt canonFns T F (fun _ => []) (1 + 3) 1 [.u 64 mant, .u 64 exp] = _ := this
    have h4 : depth = 1 + 3 := rfl
    rw [interpToDecimal, h4, this]
    simp only [Val.nat?, Val.int?]
  refine ⟨h1, h2, ?_⟩
  have hdec : Ryu64.decimal mant exp =
      ((if (Ryu64.float64ToDecimalExactInt mant exp).2 = true then (Ryu64.float64ToDecimalExactInt mant exp).1
          else Ryu64.float64ToDecimal mant exp).m,
       (if (Ryu64.float64ToDecimalExactInt mant exp).2 = true then (Ryu64.float64ToDecimalExactInt mant exp).1
          else Ryu64.float64ToDecimal mant exp).e,
       (Ryu64.float64ToDecimalExactInt mant exp).2) := rfl
  rewrite [interpDecimal, h1, h2, hdec]
  generalize Ryu64.float64ToDecimalExactInt mant exp = r
  generalize Ryu64.float64ToDecimal mant exp = d
  obtain ⟨x, ok⟩ := r
  cases ok
  · simp only [Bool.false_eq_true, if_false, Option.map_some]
  · simp only [if_true]

/-- `decimalLen64` as extracted today is the mirror's, for every `u < 2^59` -/
theorem gen_decimalLen64 (u : Nat) (h : u < 2 ^ 59) (F : Nat) :
    interpDecimalLen Gen.ryuFns genTables F u = some ((Ryu64.decimalLen64 u : Nat) : Int) := by
  rw [gen_ryu_canon.1, genTables_eq]
  have := call_decimalLen64 F (fun _ => []) 2 u h
  have this : callAt canonFns T F (fun _ => []) (2 + 2) 2 [.u 64 u] = _ := this
  have h4 : depth = 2 + 2 := rfl
  rw [interpDecimalLen, h4, this]
  simp only [Val.int?]

/-- **`ryu_shortest` for the regenerated core.** For every finite non-zero float64 the `float64ToDecimal` extracted from
today's source returns `(m, e)` with `e = e10 + k` such that `m · 10^k` (in units of `10^e10`) lies in the rounding interval
of the float, no decimal with fewer digits does, and no decimal of that length in the interval is closer to the exact value
(`C16Core.Spec`, the conclusion of `C16Core.ryu_shortest`). -/
theorem gen_ryu_shortest (mant exp : Nat) (hm : mant < 2 ^ 52) (he : exp < 2047) (hnz : mant ≠ 0 ∨ exp ≠ 0)
    (F : Nat) (hF : 28 ≤ F) :
    ∃ (m : Nat) (e : Int) (k : Nat), interpToDecimal Gen.ryuFns genTables F mant exp = some (m, e) ∧
      e = C16Core.e10Of exp + (k : Int) ∧
      C16Core.Spec (Ryu64.mmOf (Ryu64.decodeM2 mant exp) (Ryu64.mmShiftOf mant exp) * C16Core.scaleNum exp)
        (Ryu64.mvOf (Ryu64.decodeM2 mant exp) * C16Core.scaleNum exp)
        (Ryu64.mpOf (Ryu64.decodeM2 mant exp) * C16Core.scaleNum exp) (C16Core.scaleDen exp)
        (Ryu64.acceptBoundsOf mant exp) m k := by
  obtain ⟨k, hk, hS⟩ := C16Core.ryu_shortest mant exp hm he hnz
  exact ⟨_, _, k, (gen_ryu_semantics mant exp hm he hnz F hF).2.1, hk, hS⟩

/-- **The decimal the regenerated pipeline formats is `Shortest`.** For every finite non-zero float64 `b` (either sign) what
the extracted `float64ToDecimalExactInt` / `float64ToDecimal` return for its fields (fast path, else the general algorithm) is
the mirror's `decimal`, which is in the rounding interval of `b`, has the fewest digits and is closest
(`C16Link.decimal_shortest`). -/
theorem gen_ryu_decimal_shortest (b : UInt64) (dy : Num.Dyadic) (hd : Num.decode b = some dy) (h0 : dy.m ≠ 0)
    (F : Nat) (hF : 28 ≤ F) :
    ∃ r : Nat × Int × Bool,
      interpDecimal Gen.ryuFns genTables F (C16Core.mantOf b) (C16Core.expOf b) = some r ∧
      C16Link.Shortest (C16Link.magBits b) ⟨false, dy.m, dy.e⟩ r.1 r.2.1 := by
  have hd0 := C16Link.decode_magBits b dy hd
  have Fl := C16Link.fields_of_decode (C16Link.magBits b) ⟨false, dy.m, dy.e⟩ hd0 h0
  have hml : C16Core.mantOf b < 2 ^ 52 := by have := Fl.mant_lt; rwa [C16Link.mantOf_magBits] at this
  have hel : C16Core.expOf b < 2047 := by have := Fl.exp_lt; rwa [C16Link.expOf_magBits] at this
  have hnz : C16Core.mantOf b ≠ 0 ∨ C16Core.expOf b ≠ 0 := by
    have := Fl.nz; rwa [C16Link.mantOf_magBits, C16Link.expOf_magBits] at this
  exact ⟨Ryu64.decimal (C16Core.mantOf b) (C16Core.expOf b), (gen_ryu_semantics _ _ hml hel hnz F hF).2.2,
    C16Link.decimal_shortest b dy hd h0⟩

/-! ## The digit layout and the whole pipeline -/

/-- **`AppendFloat64f` as extracted today is the mirror pipeline.** For every finite non-zero float64 `b` (either sign), every
buffer (content and stale spare capacity, below 2^59 bytes) and whatever the `append`s that allocate leave behind (`fr`),
interpreting the program extracted from today's `AppendFloat64f` — the field extraction from the bit pattern, the early exits,
the fast path / general algorithm, `dec64.appendF` with `decimalLen64`, `sizeSlice` and the three layouts — returns exactly the
buffer of the mirror `C16Link.appendF` for the mirror's `Ryu64.decimal`: content and spare capacity, byte for byte. -/
theorem gen_appendf_semantics (b : UInt64) (dy : Num.Dyadic) (hd : Num.decode b = some dy) (h0 : dy.m ≠ 0)
    (buf : AF.Buf) (fr : Nat → List UInt8) (F : Nat) (hF : 3100 < F)
    (hbuf : buf.content.length + buf.spare.length < 2 ^ 59) (h5 : (fr 5).length < 2 ^ 59) (h6 : (fr 6).length < 2 ^ 59) :
    interpAppendFloat Gen.ryuFns genTables F fr buf.content buf.spare b.toNat =
      some ((C16Link.appendF buf dy.neg (Ryu64.decimal (C16Core.mantOf b) (C16Core.expOf b)).1
              (Ryu64.decimal (C16Core.mantOf b) (C16Core.expOf b)).2.1 (fr 5) (fr 6) (fr 7)).content,
            (C16Link.appendF buf dy.neg (Ryu64.decimal (C16Core.mantOf b) (C16Core.expOf b)).1
              (Ryu64.decimal (C16Core.mantOf b) (C16Core.expOf b)).2.1 (fr 5) (fr 6) (fr 7)).spare) := by
  rw [gen_ryu_canon.1, genTables_eq]
  have hd0 := C16Link.decode_magBits b dy hd
  have Fl := C16Link.fields_of_decode (C16Link.magBits b) ⟨false, dy.m, dy.e⟩ hd0 h0
  have hml : C16Core.mantOf b < 2 ^ 52 := by have := Fl.mant_lt; rwa [C16Link.mantOf_magBits] at this
  have hel : C16Core.expOf b < 2047 := by have := Fl.exp_lt; rwa [C16Link.expOf_magBits] at this
  have hnz : C16Core.mantOf b ≠ 0 ∨ C16Core.expOf b ≠ 0 := by
    have := Fl.nz; rwa [C16Link.mantOf_magBits, C16Link.expOf_magBits] at this
  have hfin : C16Core.expOf b ≠ 2047 := by omega
  have hexp64 : C16Core.expOf b < 2 ^ 64 := by omega
  have S := C16Link.decimal_shortest b dy hd h0
  have hlt := S.lt
  have hneg := neg_of_decode b dy hd
  have hei := call_exactInt F fr 4 (by omega) (C16Core.mantOf b) (C16Core.expOf b) hml hexp64
  have htd := call_toDecimal F fr 2 (by omega) (C16Core.mantOf b) (C16Core.expOf b) hml hel hnz
    (step3_vm_ne_zero _ _ hml hel hnz) (step3_lt _ _).1 (step3_lt _ _).2
  have hX := exactInt_e_bound (C16Core.mantOf b) (C16Core.expOf b)
  have hD := toDecimal_e_bound (C16Core.mantOf b) (C16Core.expOf b) hel
  have hdec : Ryu64.decimal (C16Core.mantOf b) (C16Core.expOf b) =
      ((if (Ryu64.float64ToDecimalExactInt (C16Core.mantOf b) (C16Core.expOf b)).2 = true then (Ryu64.float64ToDecimalExactInt (C16Core.mantOf b) (C16Core.expOf b)).1
          else Ryu64.float64ToDecimal (C16Core.mantOf b) (C16Core.expOf b)).m,
       (if (Ryu64.float64ToDecimalExactInt (C16Core.mantOf b) (C16Core.expOf b)).2 = true then (Ryu64.float64ToDecimalExactInt (C16Core.mantOf b) (C16Core.expOf b)).1
          else Ryu64.float64ToDecimal (C16Core.mantOf b) (C16Core.expOf b)).e,
       (Ryu64.float64ToDecimalExactInt (C16Core.mantOf b) (C16Core.expOf b)).2) := rfl
  rw [hdec] at hlt ⊢
  generalize Ryu64.float64ToDecimal (C16Core.mantOf b) (C16Core.expOf b) = D at htd hD hlt ⊢
  generalize hr : Ryu64.float64ToDecimalExactInt (C16Core.mantOf b) (C16Core.expOf b) = r at hei hX hlt ⊢
  obtain ⟨X, ok⟩ := r
  have hXb := hX X ok rfl
  simp only at hei hlt ⊢
  have hcall : callAt canonFns T F fr 6 3 [.bytes buf.content buf.spare, .f64 b.toNat] =
      some (bufVal (C16Link.appendF buf dy.neg (if ok = true then X else D).m (if ok = true then X else D).e (fr 5) (fr 6) (fr 7))) := by
    have haf : ∀ neg : Bool, (env F fr 5).call fAppendF [.pair (.u 64 (if ok then X.m else D.m)) (.i 32 (if ok then X.e else D.e)),
        .bytes buf.content buf.spare, .bool neg] =
        some (bufVal (C16Link.appendF ⟨buf.content, buf.spare⟩ neg (if ok then X.m else D.m) (if ok then X.e else D.e) (fr 5) (fr 6) (fr 7))) := by
      intro neg
      apply call_appendF F fr 1 hF neg buf.content buf.spare _ _ _ _ _ hbuf h5 (by omega)
      · cases ok <;> simp at hlt ⊢ <;> omega
      · cases ok <;> simp <;> omega
      · cases ok <;> simp <;> omega
    have hcallEq : (env F fr 5).call = callAt canonFns T F fr 5 := rfl
    have hei' : (env F fr 5).call fExactInt [.u 64 (C16Core.mantOf b), .u 64 (C16Core.expOf b)] =
        some (.pair (.pair (.u 64 X.m) (.i 32 X.e)) (.bool ok)) := by rw [hcallEq]; exact hei
    have htd' : (env F fr 5).call fToDecimal [.u 64 (C16Core.mantOf b), .u 64 (C16Core.expOf b)] =
        some (.pair (.u 64 D.m) (.i 32 D.e)) := by rw [hcallEq]; exact htd
    have := exec_appendFloat (env F fr 5) (fr 5) (fr 6) (fr 7) buf.content buf.spare b.toNat (C16Core.mantOf b) (C16Core.expOf b)
      X.m D.m X.e D.e ok b.toNat_lt (by unfold C16Core.mantOf; rfl) (by unfold C16Core.expOf; rfl) hfin hnz hei' htd' haf
    rw [callAt_succ F fr 5 _ _ look_appendFloat, xrunFn, if_pos (by rfl), this, hneg]
    cases ok <;> rfl
  rw [interpAppendFloat, hcall]
  rfl

/-- **`ryu_text_is_shortest` for the regenerated pipeline.** For every finite non-zero float64 `b` (either sign) and every
state of the output buffer, the program extracted from today's `AppendFloat64f` returns the old content followed by a text that
passes `Num.isShortestRoundTrip b` (canonical positional form, parses back to exactly `b` under IEEE nearest-even rounding, no
decimal with fewer digits does, none of that length is closer) and `Num.parsesTo b`, and every correct parser returns `b`
for it. -/
theorem gen_ryu_text_is_shortest (b : UInt64) (dy : Num.Dyadic) (hd : Num.decode b = some dy) (h0 : dy.m ≠ 0)
    (buf : AF.Buf) (fr : Nat → List UInt8) (F : Nat) (hF : 3100 < F)
    (hbuf : buf.content.length + buf.spare.length < 2 ^ 59) (h5 : (fr 5).length < 2 ^ 59) (h6 : (fr 6).length < 2 ^ 59) :
    ∃ text content spare,
      interpAppendFloat Gen.ryuFns genTables F fr buf.content buf.spare b.toNat = some (content, spare) ∧
      content = buf.content ++ text ∧
      Num.isShortestRoundTrip b text = true ∧ Num.parsesTo b text = true ∧
      ∀ (bits' : UInt64) (dy' : Num.Dyadic) (neg : Bool) (m : Nat) (d : Int),
        Num.parsePositional text = some (neg, m, d) → Num.decode bits' = some dy' → dy'.neg = neg →
        C16Round.IsNearest (C16Round.decNum m d) (C16Round.decDen d) dy'.m dy'.e → bits' = b := by
  obtain ⟨text, h1, h2, h3, h4⟩ := C16Link.ryu_text_is_shortest b dy hd h0 buf (fr 5) (fr 6) (fr 7)
  exact ⟨text, _, _, gen_appendf_semantics b dy hd h0 buf fr F hF hbuf h5 h6, h1, h2, h3, h4⟩

#print axioms gen_ryu_semantics
#print axioms gen_decimalLen64
#print axioms gen_ryu_shortest
#print axioms gen_ryu_decimal_shortest
#print axioms gen_appendf_semantics
#print axioms gen_ryu_text_is_shortest

end QF.Props.C16RyuGen
