import QF.Core.AppendF
/-!
# C16 — float text: the formatter's two fractional layouts (`dE < 0`)

Go source: `/repo/internal/ryu/ryu64.go`, `dec64.appendF`, branches `// 0.XYZ` and `// Y.XZ`.
Same buffer model as `AF.layoutInt`: a Go slice is visible `content` plus arbitrary stale `spare`
capacity; `sizeSlice` may expose stale bytes, which the digit loops must overwrite completely.

* `layoutMixed_spec` (`// Y.XZ`, `ePos < outLen`): old content ++ leading digits ++ "." ++ last `ePos` digits
* `layoutFrac_spec`  (`// 0.XYZ`, `ePos ≥ outLen`): old content ++ "0." ++ zeros ++ all digits
both for every buffer state.
-/
namespace QF.Props.C16
open AF

/-! ## Go primitives -/

/-- `append(b, bs...)`: reuses the spare capacity when `cap(b)-len(b) ≥ len(bs)` (overwriting the stale
    bytes there), else a fresh array whose spare capacity is unspecified (`extra`). -/
def appendBytes (b : Buf) (bs extra : List Byte) : Buf :=
  if b.spare.length ≥ bs.length then ⟨b.content ++ bs, b.spare.drop bs.length⟩
  else ⟨b.content ++ bs, extra⟩

theorem appendBytes_content (b : Buf) (bs extra : List Byte) :
    (appendBytes b bs extra).content = b.content ++ bs := by
  unfold appendBytes; split <;> rfl

/-- The Go digit loop with its loop-carried `out`:
    `for i := pos+k-1; i >= pos; i-- { b[i] = '0' + byte(out%10); out /= 10 }`
    returns the buffer AND the remaining `out` (needed by `// Y.XZ`, whose second loop continues
    with what the first loop left in `out`). -/
def digitLoop (l : List Byte) (pos : Nat) : Nat → Nat → List Byte × Nat
  | 0, out => (l, out)
  | k + 1, out => digitLoop (l.set (pos + k) (digit out)) pos k (out / 10)

theorem digitLoop_eq (pos : Nat) : ∀ (k : Nat) (l : List Byte) (out : Nat),
    digitLoop l pos k out = (writeDigits l pos k out, out / 10 ^ k) := by
  intro k
  induction k with
  | zero => intro l out; simp [digitLoop, writeDigits]
  | succ k ih =>
    intro l out
    simp only [digitLoop, writeDigits, ih]
    rw [Nat.div_div_eq_div_mul, Nat.pow_succ']

/-! ## The two layouts, transcribed from Go -/

/-- `// 0.XYZ` (`ePos ≥ outLen`):
```go
b := append(b, "0."...)
n := len(b)
b = sizeSlice(b, ePos)
for i := n + ePos - 1; i >= n; i-- { b[i] = '0' + byte(out%10); out /= 10 }
```
Note the Go code has no separate zero-fill loop: the leading zeros are produced by the digit loop
itself once `out` has reached 0. `outLen` does not occur in this branch at all. -/
def layoutFrac (b : Buf) (m ePos : Nat) (extra0 extra : List Byte) : Buf :=
  let b0 := appendBytes b [48, 46] extra0
  let n := b0.content.length
  let b1 := sizeSlice b0 ePos extra
  ⟨(digitLoop b1.content n ePos m).1, b1.spare⟩

/-- `// Y.XZ` (`ePos < outLen`):
```go
b = sizeSlice(b, outLen+1) // + "."
n := len(b)
i := n - 1
end := i - outLen
for ; ePos > 0; i-- { b[i] = '0' + byte(out%10); out /= 10; ePos-- }   -- positions (i-ePos, i]
b[i] = '.'                                                              -- position i-ePos
i--
for ; i >= end; i-- { b[i] = '0' + byte(out%10); out /= 10 }            -- positions [end, i-ePos)
```
The fractional digits are written first (right to left), then the point, then the integer digits. -/
def layoutMixed (b : Buf) (m outLen ePos : Nat) (extra : List Byte) : Buf :=
  let b1 := sizeSlice b (outLen + 1) extra
  let n := b1.content.length
  let i := n - 1
  let end_ := i - outLen
  let r1 := digitLoop b1.content (i + 1 - ePos) ePos m
  let i1 := i - ePos
  let c2 := r1.1.set i1 46
  let r2 := digitLoop c2 end_ (i1 - end_) r1.2
  ⟨r2.1, b1.spare⟩

/-- the `dE < 0` part of `appendF` (after the sign), dispatching exactly as Go does -/
def appendFNeg (b : Buf) (m outLen ePos : Nat) (extra0 extra : List Byte) : Buf :=
  if ePos ≥ outLen then layoutFrac b m ePos extra0 extra else layoutMixed b m outLen ePos extra

/-! ## Digit-string lemmas -/

theorem digitsN_length : ∀ (k m : Nat), (digitsN k m).length = k := by
  intro k
  induction k with
  | zero => intro m; rfl
  | succ k ih => intro m; simp [digitsN, ih]

theorem digitsN_zero : ∀ k : Nat, digitsN k 0 = zeros k := by
  intro k
  induction k with
  | zero => rfl
  | succ k ih =>
    simp only [digitsN, Nat.zero_div, ih, zeros, List.replicate_succ']
    rfl

/-- only the `k` low digits matter -/
theorem digitsN_mod : ∀ (k m : Nat), digitsN k (m % 10 ^ k) = digitsN k m := by
  intro k
  induction k with
  | zero => intro m; rfl
  | succ k ih =>
    intro m
    simp only [digitsN]
    have h1 : m % 10 ^ (k + 1) / 10 = m / 10 % 10 ^ k := by
      rw [Nat.pow_succ', Nat.mod_mul_right_div_self]
    have h2 : digit (m % 10 ^ (k + 1)) = digit m := by
      unfold digit
      rw [Nat.pow_succ', Nat.mod_mul_right_mod]
    rw [h1, h2, ih]

/-- a number with at most `outLen` digits, printed with `outLen + j` digits, gets `j` leading zeros -/
theorem digitsN_add_of_lt : ∀ (outLen j m : Nat), m < 10 ^ outLen →
    digitsN (outLen + j) m = zeros j ++ digitsN outLen m := by
  intro outLen
  induction outLen with
  | zero =>
    intro j m h
    have : m = 0 := by simp at h; omega
    subst this
    simp [digitsN, digitsN_zero]
  | succ n ih =>
    intro j m h
    have e : n + 1 + j = (n + j) + 1 := by omega
    rw [e]
    simp only [digitsN]
    have hm : m / 10 < 10 ^ n := by
      rw [Nat.pow_succ] at h
      exact Nat.div_lt_of_lt_mul (by omega)
    rw [ih j (m / 10) hm, List.append_assoc]

/-! ## Segment-write lemmas (corollaries of `AF.writeDigits_spec`) -/

theorem writeDigits_seg (pre mid post : List Byte) (pos k out : Nat)
    (hpos : pos = pre.length) (hk : mid.length = k) :
    writeDigits (pre ++ mid ++ post) pos k out = pre ++ digitsN k out ++ post := by
  subst hpos
  rw [writeDigits_spec _ _ _ _ (by simp; omega)]
  simp [List.append_assoc, List.drop_append, ← hk]

theorem set_seg (pre post : List Byte) (x v : Byte) (pos : Nat) (hpos : pos = pre.length) :
    (pre ++ [x] ++ post).set pos v = pre ++ [v] ++ post := by
  subst hpos
  simp [List.append_assoc]

theorem split3 (junk : List Byte) (a c : Nat) (h : junk.length = a + 1 + c) :
    ∃ (j1 : List Byte) (x : Byte) (j2 : List Byte),
      junk = j1 ++ [x] ++ j2 ∧ j1.length = a ∧ j2.length = c := by
  have h0 : junk = junk.take a ++ junk.drop a := (List.take_append_drop a junk).symm
  have hl : (junk.drop a).length = 1 + c := by simp; omega
  cases hd : junk.drop a with
  | nil => rw [hd] at hl; simp at hl; omega
  | cons x j2 =>
    rw [hd] at hl h0
    refine ⟨junk.take a, x, j2, ?_, ?_, ?_⟩
    · rw [List.append_assoc]; exact h0
    · simp; omega
    · simp at hl; omega

/-! ## Main theorems -/

/-- hypothesis-free form of the `// 0.XYZ` layout: "0." then the `ePos` low digits of `m` -/
theorem layoutFrac_raw (b : Buf) (m ePos : Nat) (extra0 extra : List Byte) :
    (layoutFrac b m ePos extra0 extra).content = b.content ++ [48, 46] ++ digitsN ePos m := by
  unfold layoutFrac
  simp only [digitLoop_eq]
  obtain ⟨junk, hj, hc⟩ := sizeSlice_content (appendBytes b [48, 46] extra0) ePos extra
  rw [hc, appendBytes_content]
  have := writeDigits_seg (b.content ++ [48, 46]) junk [] (b.content ++ [48, 46]).length ePos m rfl hj
  simpa using this

/-- C16 (formatter, `0.XYZ` layout): for every buffer state, the output is the old content,
    "0.", `k - outLen` zeros and the `outLen` digits of `m`. `m < 10 ^ outLen` says that `m` has
    (at most) `outLen` decimal digits (`outLen = decimalLen64(m)` in Go). -/
theorem layoutFrac_spec (b : Buf) (m outLen k : Nat) (extra0 extra : List Byte)
    (hm : m < 10 ^ outLen) (hk : outLen ≤ k) :
    (layoutFrac b m k extra0 extra).content
      = b.content ++ [48, 46] ++ zeros (k - outLen) ++ digitsN outLen m := by
  rw [layoutFrac_raw]
  have e : k = outLen + (k - outLen) := by omega
  conv => lhs; rw [e]
  rw [digitsN_add_of_lt outLen (k - outLen) m hm]
  simp [List.append_assoc]

/-- C16 (formatter, `Y.XZ` layout): for every buffer state, the output is the old content, the
    leading `outLen - k` digits, '.', and the last `k` digits. (Go takes this branch when
    `0 < k < outLen`; the layout is correct for all `k ≤ outLen`.) -/
theorem layoutMixed_spec (b : Buf) (m outLen k : Nat) (extra : List Byte) (hk : k ≤ outLen) :
    (layoutMixed b m outLen k extra).content
      = b.content ++ digitsN (outLen - k) (m / 10 ^ k) ++ [46] ++ digitsN k (m % 10 ^ k) := by
  unfold layoutMixed
  simp only [digitLoop_eq]
  obtain ⟨junk, hj, hc⟩ := sizeSlice_content b (outLen + 1) extra
  rw [hc]
  obtain ⟨j1, x, j2, rfl, h1, h2⟩ := split3 junk (outLen - k) k (by omega)
  have hn : (b.content ++ (j1 ++ [x] ++ j2)).length = b.content.length + outLen + 1 := by
    simp [h1, h2]; omega
  rw [hn]
  -- loop 1: the k fractional digits over j2
  have s1 : writeDigits (b.content ++ (j1 ++ [x] ++ j2)) (b.content.length + outLen + 1 - 1 + 1 - k) k m
      = b.content ++ j1 ++ [x] ++ digitsN k m := by
    have := writeDigits_seg (b.content ++ j1 ++ [x]) j2 []
      (b.content.length + outLen + 1 - 1 + 1 - k) k m (by simp [h1]; omega) h2
    simpa [List.append_assoc] using this
  rw [s1]
  -- the point over x
  have s2 : (b.content ++ j1 ++ [x] ++ digitsN k m).set (b.content.length + outLen + 1 - 1 - k) 46
      = b.content ++ j1 ++ [46] ++ digitsN k m :=
    set_seg (b.content ++ j1) (digitsN k m) x 46 _ (by simp [h1]; omega)
  rw [s2]
  -- loop 2: the integer digits over j1
  have s3 : writeDigits (b.content ++ j1 ++ [46] ++ digitsN k m)
      (b.content.length + outLen + 1 - 1 - outLen)
      (b.content.length + outLen + 1 - 1 - k - (b.content.length + outLen + 1 - 1 - outLen)) (m / 10 ^ k)
      = b.content ++ digitsN (outLen - k) (m / 10 ^ k) ++ ([46] ++ digitsN k m) := by
    have e : b.content.length + outLen + 1 - 1 - k - (b.content.length + outLen + 1 - 1 - outLen)
        = outLen - k := by omega
    rw [e]
    have := writeDigits_seg b.content j1 ([46] ++ digitsN k m)
      (b.content.length + outLen + 1 - 1 - outLen) (outLen - k) (m / 10 ^ k) (by omega) h1
    simpa [List.append_assoc] using this
  rw [s3, digitsN_mod]
  simp [List.append_assoc]

/-- the whole `dE < 0` part of `appendF`, for a mantissa with `outLen` digits -/
theorem appendFNeg_spec (b : Buf) (m outLen k : Nat) (extra0 extra : List Byte) (hm : m < 10 ^ outLen) :
    (appendFNeg b m outLen k extra0 extra).content =
      if k ≥ outLen then b.content ++ [48, 46] ++ zeros (k - outLen) ++ digitsN outLen m
      else b.content ++ digitsN (outLen - k) (m / 10 ^ k) ++ [46] ++ digitsN k (m % 10 ^ k) := by
  unfold appendFNeg
  split
  · rename_i h; exact layoutFrac_spec b m outLen k extra0 extra hm h
  · rename_i h; exact layoutMixed_spec b m outLen k extra (by omega)

/-! ## Concrete instances: spare capacity full of '9' (57) bytes -/

/-- "ab" with 12 stale '9' bytes behind it -/
def nines : Buf := ⟨[97, 98], List.replicate 12 57⟩

-- (byte lists: [97,98,49,50,51,46,52,53] = "ab123.45", [97,98,48,46,48,48,49,50,51,52,53] = "ab0.0012345")
-- m = 12345, outLen = 5, e = -2  →  "ab123.45"; the 6 exposed '9' bytes are all overwritten
example : (layoutMixed nines 12345 5 2 []).content = [97, 98, 49, 50, 51, 46, 52, 53] := by decide
example : (layoutMixed nines 12345 5 2 []).spare = List.replicate 6 57 := by decide
-- m = 12345, outLen = 5, e = -7  →  "ab0.0012345"
example : (layoutFrac nines 12345 7 [] []).content = [97, 98, 48, 46, 48, 48, 49, 50, 51, 52, 53] := by decide
example : (appendFNeg nines 12345 5 2 [] []).content = [97, 98, 49, 50, 51, 46, 52, 53] := by decide
example : (appendFNeg nines 12345 5 7 [] []).content = [97, 98, 48, 46, 48, 48, 49, 50, 51, 52, 53] := by decide
-- too little spare capacity: the reallocating path gives the same content
example : (layoutMixed ⟨[97, 98], [57, 57]⟩ 12345 5 2 [1, 2, 3]).content = [97, 98, 49, 50, 51, 46, 52, 53] := by decide
example : (layoutFrac ⟨[97, 98], [57]⟩ 12345 7 [7, 7, 7] [1, 2, 3]).content = [97, 98, 48, 46, 48, 48, 49, 50, 51, 52, 53] := by
  decide

-- the hypotheses of the main theorems are satisfiable on these instances
example : (12345 : Nat) < 10 ^ 5 ∧ 5 ≤ 7 ∧ 2 ≤ 5 := by decide
example : (layoutMixed nines 12345 5 2 []).content
    = nines.content ++ digitsN (5 - 2) (12345 / 10 ^ 2) ++ [46] ++ digitsN 2 (12345 % 10 ^ 2) :=
  layoutMixed_spec nines 12345 5 2 [] (by decide)
example : (layoutFrac nines 12345 7 [] []).content
    = nines.content ++ [48, 46] ++ zeros (7 - 5) ++ digitsN 5 12345 :=
  layoutFrac_spec nines 12345 5 7 [] [] (by decide) (by decide)

-- the side conditions cannot be dropped: with m ≥ 10^outLen the `0.XYZ` loop prints more than outLen digits
example : (layoutFrac nines 123 3 [] []).content ≠ nines.content ++ [48, 46] ++ zeros (3 - 2) ++ digitsN 2 123 := by
  decide

#print axioms layoutMixed_spec
#print axioms layoutFrac_spec
#print axioms layoutFrac_raw
#print axioms appendFNeg_spec
end QF.Props.C16
