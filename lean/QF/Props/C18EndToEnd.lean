import QF.Props.C18Matcher
import QF.Props.C18FilterGen
import QF.Props.C18UpperGen
import QF.Props.C18Utf8
import QF.Props.C02Dispatch
import QF.Props.C02ClausesLink
/-!
# C18 — like / ilike END TO END: from the regenerated pieces to the declarative `Matches` (tie T1)

The pieces (each proved over the terms regenerated TODAY from /repo):

* `C18Matcher`   — `Gen.newMatcher` (the decision tree of `NewMatcher`, leaves = the `Matches` bodies) = the mirror
                   `runMatcher (matcherKind pat) (trimPercent pat)` / `ciMatch`, or the regular expression `regexSource pat cs`;
* `C18Like`      — the mirror decides the declarative `Matches pat s` (`like_correct`, `ilike_correct`);
* `C18UpperGen` / `U.toUpper_spec'` — the package's `ToUpper` = `encode (map up s)` (inside `ciMatch`);
* `C18Utf8`      — the project's decoder reads back the encoding of every code point (`decodeAll (encs chars) = chars`), so the
                   regenerated `ToUpper` IS the `toUpperBuf` of `today` on every valid UTF-8 cell (`gen_like_upper_cell`, no hypothesis);
* `C18FilterGen` — `regexFilter` / `filterLike` statement by statement (`Gen.stringsFns`), for ANY meaning of `NewMatcher`;
* `C02Kernels`   — `Column.filterWithBitset` (`Gen.kernelAst`): the mask entry of a row is `b || bset.isSet(code of the row)`;
* `C02Dispatch`  — `filterBuiltIn` of scolumn / ecolumn (`Gen.dispatchAst` + tables + kernels) for ANY like oracle;
* `C02ClausesLink.gen_filter_eq_spec_today` — the clause evaluation of `QFrame.Filter` for ANY like oracle.

Here `NewMatcher` IS the regenerated one: `genNewMatcher` runs `Gen.newMatcher` (with `strings.ToUpper` = `upper up`, the
package's `ToUpper` = its mirror with a buffer of `bufLen` bytes, `QuoteMeta(s) != s` = `hasMeta`), evaluates the `Matches`
body at the leaf; the regular-expression engine is a parameter: `rx src s` = `regexp.MustCompile(src).MatchString(s)`,
`rxErr src` = `regexp.Compile(src)` fails. `genOracle` is the same thing as the `LikeOracle` of the spec / dispatcher.

* `gen_like_end_to_end` — for every pattern WITHOUT metacharacters (all the `%` forms: exact, prefix, suffix, contains,
  including "", "%", "%%"), both case settings, every case mapping `up` (ilike: `PctStable up`), buffer size and engine:
  `LikeE2E … pat cs accept` with `accept = Matches pat` (like) resp. `fun s => Matches (upper up pat) (upper up s)` (ilike);
  for every pattern WITH metacharacters and both case settings: the source handed to the engine is `regexSource pat cs`
  (`^` unless the pattern starts with `%`, `$` unless it ends with `%`, the `%` dropped, `(?i)` in front for ilike); if it
  compiles, `LikeE2E … pat cs (rx (regexSource pat cs) · = true)`, if not `LikeErr … pat cs`: an error everywhere, no mask
  touched.
* `LikeE2E` (structure): `NewMatcher` as regenerated returns a matcher `f` that decides `accept`; the string-column filter
  (`regexFilter`) returns nil and leaves `bIndex[i] || (cell index[i] non-null ∧ accept)` at every `i`; the enum-column
  builder (`filterLike`) returns a bitset whose bit `w` is set iff value `w` of the table is accepted, and
  `filterWithBitset` leaves `b || (cell non-null ∧ accept)` in the entry of every cell of the column; the string column and
  the enum column with the same cells leave the SAME mask (`gen_like_string_enum_agree`); the dispatchers
  (`filterBuiltIn` of both packages) reach exactly these kernels: `.upd u` with `u cell _ b = b || (non-null ∧ accept)`;
  and the spec (`leafPred` / `keptRows` with `genOracle`) keeps exactly the rows whose cell is non-null and accepted, which
  by `gen_filter_eq_spec_today` is what the regenerated clause evaluation of `QFrame.Filter` returns.
-/
set_option linter.unusedSimpArgs false
set_option linter.unusedVariables false
namespace QF.Props.C18EndToEnd
open QF QF.Drv QF.Props.C18Like QF.Props.C18Matcher
open QF.Props.C18FilterGen (genLike likeRows LikeBits)
open QF.Props.C02Kernels (cellOk kernelOf Computes)

/-! ## 1. `NewMatcher` as regenerated, with the regular-expression engine as a parameter -/

/-- the `Matches` body at a leaf; `regexpMatch x` asks the engine (compiled from `src`) -/
def evalBody (E : MEnv) (rx : Bytes → Bytes → Bool) (src ms cell : Bytes) (b : MB) : Option Bool :=
  match b with
  | .regexpMatch x => (x.eval E ms cell).map (rx src)
  | _ => b.eval E ms cell

/-- `NewMatcher(pat, cs)` of today's source (`Gen.newMatcher`): the error of `regexp.Compile`, or what `Matches` of the
matcher returned answers. (`stuck` — a panic or an untranslated part — does not occur: `genNewMatcher_like`, `_ilike`, `_regex`.) -/
def genNewMatcher (up : Char → Char) (bufLen : Nat) (rx : Bytes → Bytes → Bool) (rxErr : Bytes → Bool) (pat : Bytes) (cs : Bool) :
    Except ST.Err (Bytes → Bool) :=
  match Gen.newMatcher.run (today up bufLen) pat cs with
  | .mk body ms => .ok fun s => (evalBody (today up bufLen) rx [] ms s body).getD false
  | .regexp src body => if rxErr src then .error .badPattern else .ok fun s => (evalBody (today up bufLen) rx src [] s body).getD false
  | .stuck => .error .badPattern

/-- the like oracle of the spec and of the dispatcher: today's `NewMatcher` -/
def genOracle (up : Char → Char) (bufLen : Nat) (rx : Bytes → Bytes → Bool) (rxErr : Bytes → Bool) : LikeOracle :=
  { valid := fun pat ci => match genNewMatcher up bufLen rx rxErr pat (!ci) with | .ok _ => true | .error _ => false,
    isMatch := fun pat ci s => match genNewMatcher up bufLen rx rxErr pat (!ci) with | .ok f => f s | .error _ => false }

variable (up : Char → Char) (bufLen : Nat) (rx : Bytes → Bytes → Bool) (rxErr : Bytes → Bool)

theorem genNewMatcher_like (pat : Bytes) (hm : hasMeta pat = false) :
    genNewMatcher up bufLen rx rxErr pat true = .ok (runMatcher (matcherKind pat) (trimPercent pat)) := by
  unfold genNewMatcher
  rw [run_noMeta up bufLen pat true hm]
  simp only [if_true, matchString_eq]
  congr 1
  funext s
  cases matcherKind pat <;> simp [evalBody, bodyOf, MB.eval, MO.eval, runMatcher, infixB_eq]

theorem genNewMatcher_ilike (pat : Bytes) (hm : hasMeta pat = false) :
    genNewMatcher up bufLen rx rxErr pat false = .ok (ciMatch up bufLen pat) := by
  unfold genNewMatcher
  rw [run_noMeta up bufLen pat false hm]
  simp only [Bool.false_eq_true, if_false]
  congr 1
  funext s
  unfold ciMatch
  cases matcherKind pat <;> simp [evalBody, bodyOf, MB.eval, MO.eval, runMatcher, infixB_eq, today]

theorem genNewMatcher_regex (pat : Bytes) (cs : Bool) (hm : hasMeta pat = true) :
    genNewMatcher up bufLen rx rxErr pat cs =
      if rxErr (regexSource pat cs) then .error .badPattern else .ok (rx (regexSource pat cs)) := by
  unfold genNewMatcher
  rw [run_hasMeta up bufLen pat cs hm]
  simp only [evalBody, MO.eval, Option.map_some, Option.getD_some]

/-- today's `NewMatcher` never panics and has no untranslated part: it returns a matcher or the compile error -/
theorem genNewMatcher_total (pat : Bytes) (cs : Bool) : Gen.newMatcher.run (today up bufLen) pat cs ≠ .stuck := by
  cases hm : hasMeta pat
  · rw [run_noMeta up bufLen pat cs hm]; simp
  · rw [run_hasMeta up bufLen pat cs hm]; simp

/-! ## 2. The pieces composed, for a matcher function `f` -/

/-- the cell is not null and the matcher accepts its string -/
def keepCell (f : Bytes → Bool) (x : Cell) : Bool :=
  match x with
  | .str (some t) => f t
  | _ => false

/-- the comparator string of the filter tables -/
def likeOp (cs : Bool) : String := if cs then "like" else "ilike"

theorem likeOp_ci (cs : Bool) : (likeOp cs == "ilike") = !cs := by cases cs <;> decide

theorem keepCell_true (f : Bytes → Bool) (x : Cell) : keepCell f x = true ↔ ∃ t, x = .str (some t) ∧ f t = true := by
  unfold keepCell
  split
  · rename_i t; simp
  · rename_i h
    constructor
    · intro e; cases e
    · rintro ⟨t, rfl, _⟩; exact absurd rfl (h t)

/-- `filterWithBitset` of today's source reading the bitset `filterLike` built: the entry of a cell becomes
`b || (the cell is not null and the matcher accepts its string)` -/
theorem bitset_read (vals : List Bytes) (hlen : vals.length ≤ 255) (f : Bytes → Bool) (b : Small.BitSet) (hb : LikeBits vals f b)
    (s : Option Bytes) (hx : cellOk .enum vals (.str s) = true) (P : KParams) (y k : Cell) :
    Computes (kernelOf "ecolumn" "Column.filterWithBitset") .enum vals { P with bset := Small.bsIsSet b } (.str s) y k
      (keepCell f (.str s)) := by
  refine C02Kernels.computes_guarded C02Kernels.gen_in_canon.2.2.2 ?_
  cases s with
  | none =>
    have h1 : vals[255]? = none := by simp; omega
    have h2 : Small.bsIsSet b 255 = false := by rw [hb 255 (by omega), h1]
    simp [KE.eval, KE.evalV, cellVal, enumNull, keepCell, h2]
  | some u =>
    obtain ⟨i, hi, hil⟩ := C02Kernels.enum_ok hx
    obtain ⟨hlt, hget, _⟩ := C02Kernels.enumRank_eq_some_iff.1 hi
    have h1 : vals[i]? = some u := by simp [hlt, hget]
    have h2 : Small.bsIsSet b i = f u := by rw [hb i (by omega), h1]
    simp [KE.eval, KE.evalV, cellVal, enumNull, hi, hil, keepCell, h2]

/-- the spec's row predicate of a like / ilike leaf on a string or enum column, for any oracle -/
theorem leafPred_like (lo : LikeOracle) (f : LFrame) (l : Leaf) (c : LCol) (cs : Bool) (pat : Bytes)
    (hc : f.find? l.col = some c) (hcmp : l.cmp = .builtin (likeOp cs)) (harg : l.arg = .cell (.str (some pat)))
    (hty : c.ty = .string ∨ c.ty = .enum) :
    (lo.valid pat (!cs) = false → leafPred lo f l = none) ∧
    (lo.valid pat (!cs) = true → ∃ p, leafPred lo f l = some p ∧ ∀ r, p r = keepCell (lo.isMatch pat (!cs)) c.cells[r]!) := by
  have hex : leafPred lo f l = if lo.valid pat (!cs) then leafPred lo f l else none := by
    unfold leafPred
    simp only [hc, hcmp, harg]
    rcases hty with h | h <;> cases cs <;> simp [h, likeOp, isOrd6]
  have hsome : lo.valid pat (!cs) = true → (leafPred lo f l).isSome = true := by
    intro hv
    unfold leafPred
    simp only [hc, hcmp, harg]
    rcases hty with h | h <;> cases cs <;> simp [h, likeOp, isOrd6] at hv ⊢ <;> simp [hv]
  refine ⟨fun hv => by rw [hex, hv]; rfl, fun hv => ?_⟩
  obtain ⟨p, hp⟩ := Option.isSome_iff_exists.1 (hsome hv)
  refine ⟨p, hp, fun r => ?_⟩
  rw [C02Kernels.leafPred_cell_like hc hcmp harg hty (by cases cs <;> simp [likeOp]) hp r]
  unfold keepCell C02Kernels.specLike
  rw [likeOp_ci]
  generalize c.cells[r]! = x
  rcases x with _ | _ | _ | (_ | _) <;> rfl

/-- the frame that holds just the column, and the like / ilike leaf on it -/
def frameOf (c : LCol) : LFrame := { cols := [c], n := c.cells.size }
def leafOf (c : LCol) (cs : Bool) (pat : Bytes) : Leaf :=
  { inv := false, col := c.name, cmp := .builtin (likeOp cs), arg := .cell (.str (some pat)) }

theorem frameOf_find (c : LCol) : (frameOf c).find? c.name = some c := by simp [frameOf, LFrame.find?]

/-- `filterBuiltIn` of scolumn / ecolumn as regenerated (dispatcher, tables, kernels), for any oracle: a pattern the oracle
accepts reaches the like kernel -/
theorem dispatch_ok (lo : LikeOracle) (pat : Bytes) (cs : Bool) (hv : lo.valid pat (!cs) = true)
    (f2i : UInt64 → Int) (i2f : Int → UInt64) (P : KParams) (c : LCol) (hty : c.ty = .string ∨ (c.ty = .enum ∧ c.vals.length ≤ 255)) :
    ∃ u, (C02Dispatch.today lo f2i i2f P c (.str (likeOp cs)) (.str pat)).runBuiltIn (C02Dispatch.dispatchOf c.ty) = .upd u ∧
      ∀ (r : Nat) (b : Bool), cellOk c.ty c.vals c.cells[r]! = true →
        u c.cells[r]! c.cells[r]! b = some (b || keepCell (lo.isMatch pat (!cs)) c.cells[r]!) := by
  have hty' : c.ty = .string ∨ c.ty = .enum := hty.imp id (·.1)
  have hdef : c.ty ∈ C02Kernels.tys := by rcases hty' with h | h <;> rw [h] <;> decide
  obtain ⟨p, hp, hpr⟩ := (leafPred_like lo (frameOf c) (leafOf c cs pat) c cs pat (frameOf_find c) rfl rfl hty').2 hv
  have h : C02Dispatch.Agrees ((C02Dispatch.today lo f2i i2f P c (.str (likeOp cs)) (.str pat)).runBuiltIn (C02Dispatch.canon c.ty)) c c
      (leafPred lo (frameOf c) (leafOf c cs pat)) := by
    rcases hty with h | ⟨h, hl⟩
    · exact C02Dispatch.leaf_cell_string lo f2i i2f P (frameOf c) (leafOf c cs pat) c (likeOp cs) pat (frameOf_find c) rfl rfl h
    · exact C02Dispatch.leaf_cell_enum lo f2i i2f P (frameOf c) (leafOf c cs pat) c (likeOp cs) pat (frameOf_find c) rfl rfl h hl
  rw [hp] at h
  obtain ⟨u, hu, hur⟩ := C02Dispatch.agrees_some h
  refine ⟨u, by rw [C02Dispatch.run_dispatchOf _ hdef]; exact hu, fun r b hx => ?_⟩
  rw [hur r b hx hx, hpr r]

/-- … and a pattern it rejects is an error -/
theorem dispatch_err (lo : LikeOracle) (pat : Bytes) (cs : Bool) (hv : lo.valid pat (!cs) = false)
    (f2i : UInt64 → Int) (i2f : Int → UInt64) (P : KParams) (c : LCol) (hty : c.ty = .string ∨ (c.ty = .enum ∧ c.vals.length ≤ 255)) :
    (C02Dispatch.today lo f2i i2f P c (.str (likeOp cs)) (.str pat)).runBuiltIn (C02Dispatch.dispatchOf c.ty) = .err := by
  have hty' : c.ty = .string ∨ c.ty = .enum := hty.imp id (·.1)
  have hdef : c.ty ∈ C02Kernels.tys := by rcases hty' with h | h <;> rw [h] <;> decide
  have hp := (leafPred_like lo (frameOf c) (leafOf c cs pat) c cs pat (frameOf_find c) rfl rfl hty').1 hv
  have h : C02Dispatch.Agrees ((C02Dispatch.today lo f2i i2f P c (.str (likeOp cs)) (.str pat)).runBuiltIn (C02Dispatch.canon c.ty)) c c
      (leafPred lo (frameOf c) (leafOf c cs pat)) := by
    rcases hty with h | ⟨h, hl⟩
    · exact C02Dispatch.leaf_cell_string lo f2i i2f P (frameOf c) (leafOf c cs pat) c (likeOp cs) pat (frameOf_find c) rfl rfl h
    · exact C02Dispatch.leaf_cell_enum lo f2i i2f P (frameOf c) (leafOf c cs pat) c (likeOp cs) pat (frameOf_find c) rfl rfl h hl
  rw [hp] at h
  rw [C02Dispatch.run_dispatchOf _ hdef]
  exact C02Dispatch.agrees_none h

/-- the clause evaluation of `QFrame.Filter` as regenerated (`Gen.clauseFns`), on a single leaf: the rows the leaf's predicate
keeps (the complement for an inverted leaf), or the error -/
theorem filter_leaf (O : F.Leaf → CL.LeafCalls) (hO : ∀ l, (O l).Abstracts l) (lo : LikeOracle) (f : LFrame)
    (hf : C02Mirror.IntColsNonNull f) (l : Leaf) :
    C02ClausesGen.genFilter O lo f (.leaf l) =
      match leafPred lo f l with
      | some p => some ((List.range f.n).filter fun r => if l.inv then !p r else p r)
      | none => none := by
  rw [C02ClausesGen.gen_filter_eq_spec_today O hO lo f _ hf]
  cases hp : leafPred lo f l with
  | none => simp [Clause.wellFormed, Clause.constructOk, Clause.typed, hp]
  | some p =>
    simp only [Clause.wellFormed, Clause.constructOk, Clause.typed, hp, Option.isSome_some, Bool.and_self, if_true, keptRows]
    congr 2
    funext r
    simp only [Clause.sem, hp]

/-! ## 3. The end-to-end statements -/

/-- **like / ilike with the pattern `pat` end to end**, for a predicate `accept` on strings: everything is today's regenerated
code, from `NewMatcher` to `QFrame.Filter`. -/
structure LikeE2E (pat : Bytes) (cs : Bool) (accept : Bytes → Prop) : Prop where
  /-- `NewMatcher` returns a matcher, and its `Matches` decides `accept` -/
  matcher : ∃ f, genNewMatcher up bufLen rx rxErr pat cs = .ok f ∧ ∀ s, f s = true ↔ accept s
  /-- string column (`regexFilter`, statement by statement): nil, and `bIndex[i]` ends true iff it was true or the cell of row
  `index[i]` is not null and accepted -/
  string : ∀ (Γ : ST.Env), Γ.newMatcher = genNewMatcher up bufLen rx rxErr →
    ∀ (index : List Nat) (col : ST.Col) (bIndex : List Bool), bIndex.length ≤ index.length →
      (∀ j, j < bIndex.length → index[j]! < col.length) →
      ∃ σ' out, genLike Γ .likeStrings [.rows index, .col col, .str pat, .bools bIndex, .bool cs] = .ret σ' [.err none] ∧
        σ' 3 = some (.bools out) ∧ out.length = bIndex.length ∧
        ∀ i, i < bIndex.length → (out[i]! = true ↔ bIndex[i]! = true ∨ ∃ t, col[index[i]!]! = some t ∧ accept t)
  /-- enum column (`filterLike`, statement by statement, then `filterWithBitset`): a bitset whose bit `w` is set iff value `w`
  of the table is accepted; the entry of a cell ends true iff it was true or the cell is not null and accepted -/
  enum : ∀ (Γ : ST.Env), Γ.newMatcher = genNewMatcher up bufLen rx rxErr →
    ∀ vals : List Bytes, vals.length ≤ 255 →
      ∃ σ' b, genLike Γ .likeEnum [.str pat, .strs vals, .bool cs] = .ret σ' [.bitset (some b), .err none] ∧
        (∀ w, w < 256 → (Small.bsIsSet b w = true ↔ ∃ v, vals[w]? = some v ∧ accept v)) ∧
        ∀ (s : Option Bytes), cellOk .enum vals (.str s) = true → ∀ (P : KParams) (y k : Cell) (b0 : Bool),
          ∃ sh ke q, kernelOf "ecolumn" "Column.filterWithBitset" = some (sh, ke) ∧
            kstep sh (ke.eval .enum vals { P with bset := Small.bsIsSet b } (.str s) y k) b0 = some q ∧
            (q = true ↔ b0 = true ∨ ∃ t, s = some t ∧ accept t)
  /-- the string column and the enum column holding the same cells leave the same mask, entry by entry -/
  agree : ∀ (Γ : ST.Env), Γ.newMatcher = genNewMatcher up bufLen rx rxErr →
    ∀ (index : List Nat) (col : ST.Col) (bIndex : List Bool) (vals : List Bytes), bIndex.length ≤ index.length →
      (∀ j, j < bIndex.length → index[j]! < col.length) → vals.length ≤ 255 →
      (∀ j, j < bIndex.length → cellOk .enum vals (.str col[index[j]!]!) = true) →
      ∃ σ₁ out σ₂ b sh ke,
        genLike Γ .likeStrings [.rows index, .col col, .str pat, .bools bIndex, .bool cs] = .ret σ₁ [.err none] ∧
        σ₁ 3 = some (.bools out) ∧
        genLike Γ .likeEnum [.str pat, .strs vals, .bool cs] = .ret σ₂ [.bitset (some b), .err none] ∧
        kernelOf "ecolumn" "Column.filterWithBitset" = some (sh, ke) ∧
        ∀ i, i < bIndex.length → ∀ (P : KParams) (y k : Cell),
          kstep sh (ke.eval .enum vals { P with bset := Small.bsIsSet b } (.str col[index[i]!]!) y k) bIndex[i]! = some out[i]!
  /-- `filterBuiltIn` of scolumn and ecolumn (dispatcher + tables + kernels), with today's `NewMatcher` as the oracle -/
  dispatch : ∀ (f2i : UInt64 → Int) (i2f : Int → UInt64) (P : KParams) (c : LCol),
    (c.ty = .string ∨ (c.ty = .enum ∧ c.vals.length ≤ 255)) →
    ∃ u, (C02Dispatch.today (genOracle up bufLen rx rxErr) f2i i2f P c (.str (likeOp cs)) (.str pat)).runBuiltIn
          (C02Dispatch.dispatchOf c.ty) = .upd u ∧
      ∀ (r : Nat) (b : Bool), cellOk c.ty c.vals c.cells[r]! = true →
        ∃ q, u c.cells[r]! c.cells[r]! b = some q ∧ (q = true ↔ b = true ∨ ∃ t, c.cells[r]! = .str (some t) ∧ accept t)
  /-- the spec: the leaf is well typed and its row predicate is "not null and accepted" -/
  spec : ∀ (f : LFrame) (l : Leaf) (c : LCol), f.find? l.col = some c → l.cmp = .builtin (likeOp cs) →
    l.arg = .cell (.str (some pat)) → (c.ty = .string ∨ c.ty = .enum) →
    ∃ p, leafPred (genOracle up bufLen rx rxErr) f l = some p ∧ ∀ r, (p r = true ↔ ∃ t, c.cells[r]! = .str (some t) ∧ accept t)
  /-- `QFrame.Filter` (the regenerated clause evaluation; the leaf calls abstract the mirror leaf as in
  `gen_filter_eq_spec_today`): exactly the rows whose cell is not null and accepted, in frame order -/
  filter : ∀ (O : F.Leaf → CL.LeafCalls), (∀ l, (O l).Abstracts l) → ∀ (f : LFrame), C02Mirror.IntColsNonNull f →
    ∀ (l : Leaf) (c : LCol), f.find? l.col = some c → l.cmp = .builtin (likeOp cs) → l.arg = .cell (.str (some pat)) →
    (c.ty = .string ∨ c.ty = .enum) → l.inv = false →
    ∃ rows, C02ClausesGen.genFilter O (genOracle up bufLen rx rxErr) f (.leaf l) = some rows ∧
      rows.Pairwise (· < ·) ∧ ∀ r, (r ∈ rows ↔ r < f.n ∧ ∃ t, c.cells[r]! = .str (some t) ∧ accept t)

/-- **a pattern whose regular expression does not compile**: an error everywhere, nothing is touched -/
structure LikeErr (pat : Bytes) (cs : Bool) : Prop where
  matcher : genNewMatcher up bufLen rx rxErr pat cs = .error .badPattern
  string : ∀ (Γ : ST.Env), Γ.newMatcher = genNewMatcher up bufLen rx rxErr →
    ∀ (index : List Nat) (col : ST.Col) (bIndex : List Bool),
      ∃ σ', genLike Γ .likeStrings [.rows index, .col col, .str pat, .bools bIndex, .bool cs] =
          .ret σ' [.err (some (.propagated "Regex filter" .badPattern))] ∧ σ' 3 = some (.bools bIndex)
  enum : ∀ (Γ : ST.Env), Γ.newMatcher = genNewMatcher up bufLen rx rxErr → ∀ vals : List Bytes,
      ∃ σ', genLike Γ .likeEnum [.str pat, .strs vals, .bool cs] =
          .ret σ' [.bitset none, .err (some (.propagated "enum like" .badPattern))]
  dispatch : ∀ (f2i : UInt64 → Int) (i2f : Int → UInt64) (P : KParams) (c : LCol),
    (c.ty = .string ∨ (c.ty = .enum ∧ c.vals.length ≤ 255)) →
    (C02Dispatch.today (genOracle up bufLen rx rxErr) f2i i2f P c (.str (likeOp cs)) (.str pat)).runBuiltIn
          (C02Dispatch.dispatchOf c.ty) = .err
  spec : ∀ (f : LFrame) (l : Leaf) (c : LCol), f.find? l.col = some c → l.cmp = .builtin (likeOp cs) →
    l.arg = .cell (.str (some pat)) → (c.ty = .string ∨ c.ty = .enum) →
    leafPred (genOracle up bufLen rx rxErr) f l = none
  filter : ∀ (O : F.Leaf → CL.LeafCalls), (∀ l, (O l).Abstracts l) → ∀ (f : LFrame), C02Mirror.IntColsNonNull f →
    ∀ (l : Leaf) (c : LCol), f.find? l.col = some c → l.cmp = .builtin (likeOp cs) → l.arg = .cell (.str (some pat)) →
    (c.ty = .string ∨ c.ty = .enum) →
    C02ClausesGen.genFilter O (genOracle up bufLen rx rxErr) f (.leaf l) = none

theorem oracle_ok {pat : Bytes} {cs : Bool} {f : Bytes → Bool} (hm : genNewMatcher up bufLen rx rxErr pat cs = .ok f) :
    (genOracle up bufLen rx rxErr).valid pat (!cs) = true ∧ (genOracle up bufLen rx rxErr).isMatch pat (!cs) = f := by
  refine ⟨by simp [genOracle, hm], ?_⟩
  funext s
  simp [genOracle, hm]

theorem oracle_err {pat : Bytes} {cs : Bool} {e : ST.Err} (hm : genNewMatcher up bufLen rx rxErr pat cs = .error e) :
    (genOracle up bufLen rx rxErr).valid pat (!cs) = false := by
  simp [genOracle, hm]

theorem range_filter_sorted (n : Nat) (p : Nat → Bool) : ((List.range n).filter p).Pairwise (· < ·) :=
  List.Pairwise.filter _ List.pairwise_lt_range

/-- the composition: a matcher `f` that decides `accept` gives `LikeE2E` -/
theorem e2e_of_ok {pat : Bytes} {cs : Bool} {f : Bytes → Bool} {accept : Bytes → Prop}
    (hm : genNewMatcher up bufLen rx rxErr pat cs = .ok f) (hf : ∀ s, f s = true ↔ accept s) :
    LikeE2E up bufLen rx rxErr pat cs accept := by
  obtain ⟨hv, hi⟩ := oracle_ok up bufLen rx rxErr hm
  have hkeep : ∀ x : Cell, keepCell f x = true ↔ ∃ t, x = .str (some t) ∧ accept t := by
    intro x; rw [keepCell_true]; constructor <;> rintro ⟨t, h1, h2⟩ <;> exact ⟨t, h1, by first | exact (hf t).1 h2 | exact (hf t).2 h2⟩
  have hkeepS : ∀ (col : ST.Col) (r : Nat), C18FilterGen.keep f col r = true ↔ ∃ t, col[r]! = some t ∧ accept t := by
    intro col r
    unfold C18FilterGen.keep
    cases col[r]! with
    | none => simp
    | some t => simp [hf t]
  have hstr : ∀ (Γ : ST.Env), Γ.newMatcher = genNewMatcher up bufLen rx rxErr →
      ∀ (index : List Nat) (col : ST.Col) (bIndex : List Bool), bIndex.length ≤ index.length →
      (∀ j, j < bIndex.length → index[j]! < col.length) →
      ∃ σ', genLike Γ .likeStrings [.rows index, .col col, .str pat, .bools bIndex, .bool cs] = .ret σ' [.err none] ∧
        σ' 3 = some (.bools (likeRows f col index bIndex)) := fun Γ hΓ index col bIndex hlen hcol =>
    ((C18FilterGen.gen_likefilter_semantics Γ pat cs).1 f (by rw [hΓ]; exact hm)).1 index col bIndex hlen hcol
  have henum : ∀ (Γ : ST.Env), Γ.newMatcher = genNewMatcher up bufLen rx rxErr → ∀ vals : List Bytes, vals.length ≤ 255 →
      ∃ σ' b, genLike Γ .likeEnum [.str pat, .strs vals, .bool cs] = .ret σ' [.bitset (some b), .err none] ∧ LikeBits vals f b :=
    fun Γ hΓ vals hl => ((C18FilterGen.gen_likefilter_semantics Γ pat cs).1 f (by rw [hΓ]; exact hm)).2 vals (by omega)
  refine ⟨⟨f, hm, hf⟩, ?_, ?_, ?_, ?_, ?_, ?_⟩
  · intro Γ hΓ index col bIndex hlen hcol
    obtain ⟨σ', h1, h2⟩ := hstr Γ hΓ index col bIndex hlen hcol
    refine ⟨σ', _, h1, h2, by simp [likeRows], fun i hi => ?_⟩
    rw [(C18FilterGen.gen_like_row_kept f col index bIndex i hi).1, Bool.or_eq_true, hkeepS]
  · intro Γ hΓ vals hl
    obtain ⟨σ', b, h1, h2⟩ := henum Γ hΓ vals hl
    refine ⟨σ', b, h1, fun w hw => ?_, fun s hx P y k b0 => ?_⟩
    · rw [h2 w hw]
      cases vals[w]? with
      | none => simp
      | some v => simp [hf v]
    · obtain ⟨sh, ke, hk, hc⟩ := bitset_read vals hl f b h2 s hx P y k
      refine ⟨sh, ke, _, hk, hc b0, ?_⟩
      rw [Bool.or_eq_true, hkeep]
      simp
  · intro Γ hΓ index col bIndex vals hlen hcol hl hcells
    obtain ⟨σ₁, h1, h2⟩ := hstr Γ hΓ index col bIndex hlen hcol
    obtain ⟨σ₂, b, h3, h4⟩ := henum Γ hΓ vals hl
    obtain ⟨sh, ke, hk, -⟩ := bitset_read vals hl f b h4 none (by simp [cellOk, cellVal]) {} (.str none) (.str none)
    refine ⟨σ₁, _, σ₂, b, sh, ke, h1, h2, h3, hk, fun i hi P y k => ?_⟩
    obtain ⟨sh', ke', hk', hc⟩ := bitset_read vals hl f b h4 col[index[i]!]! (hcells i hi) P y k
    rw [hk] at hk'
    cases hk'
    rw [hc, (C18FilterGen.gen_like_row_kept f col index bIndex i hi).1]
    unfold C18FilterGen.keep keepCell
    cases col[index[i]!]! <;> rfl
  · intro f2i i2f P c hty
    obtain ⟨u, hu, hur⟩ := dispatch_ok (genOracle up bufLen rx rxErr) pat cs hv f2i i2f P c hty
    refine ⟨u, hu, fun r b hx => ⟨_, hur r b hx, ?_⟩⟩
    rw [hi, Bool.or_eq_true, hkeep]
  · intro fr l c hc hcmp harg hty
    obtain ⟨p, hp, hpr⟩ := (leafPred_like (genOracle up bufLen rx rxErr) fr l c cs pat hc hcmp harg hty).2 hv
    exact ⟨p, hp, fun r => by rw [hpr r, hi, hkeep]⟩
  · intro O hO fr hfr l c hc hcmp harg hty hinv
    obtain ⟨p, hp, hpr⟩ := (leafPred_like (genOracle up bufLen rx rxErr) fr l c cs pat hc hcmp harg hty).2 hv
    refine ⟨_, by rw [filter_leaf O hO _ fr hfr l, hp], range_filter_sorted _ _, fun r => ?_⟩
    simp only [hinv, Bool.false_eq_true, if_false, List.mem_filter, List.mem_range]
    rw [hpr r, hi, hkeep]

theorem err_of_error {pat : Bytes} {cs : Bool} (hm : genNewMatcher up bufLen rx rxErr pat cs = .error .badPattern) :
    LikeErr up bufLen rx rxErr pat cs := by
  have hv := oracle_err up bufLen rx rxErr hm
  refine ⟨hm, ?_, ?_, ?_, ?_, ?_⟩
  · intro Γ hΓ index col bIndex
    exact ((C18FilterGen.gen_likefilter_semantics Γ pat cs).2 _ (by rw [hΓ]; exact hm)).1 index col bIndex
  · intro Γ hΓ vals
    exact ((C18FilterGen.gen_likefilter_semantics Γ pat cs).2 _ (by rw [hΓ]; exact hm)).2 vals
  · intro f2i i2f P c hty
    exact dispatch_err (genOracle up bufLen rx rxErr) pat cs hv f2i i2f P c hty
  · intro fr l c hc hcmp harg hty
    exact (leafPred_like (genOracle up bufLen rx rxErr) fr l c cs pat hc hcmp harg hty).1 hv
  · intro O hO fr hfr l c hc hcmp harg hty
    rw [filter_leaf O hO _ fr hfr l, (leafPred_like (genOracle up bufLen rx rxErr) fr l c cs pat hc hcmp harg hty).1 hv]

/-! ## 2b. The upper-casing inside the ilike leaves is the regenerated `ToUpper` (valid UTF-8 cells) -/

/-- the upper-casing inside the case-insensitive leaves: `today up bufLen` takes the package's `ToUpper(&buf, cell)` to be the
mirror `U.toUpper up bufLen (decodeAll cell)`. The regenerated `ToUpper` (`Gen.stringsFns`, C18UpperGen) returns exactly that on
EVERY cell that is valid UTF-8 (the encoding `encs chars` of a list of code points), for every initial buffer and every
environment whose UTF-8 primitives are right (`UpperEnv`; `C18UpperGen.coreEnv_ok`, `C18Utf8.jsonEnv_ok`): the project's decoder
reads the code points back (`C18Utf8.decodeAll_encs`). -/
theorem gen_like_upper_cell (Γ : ST.Env) (hΓ : C18UpperGen.UpperEnv Γ up) (buf : Option Bytes) (chars : List Char) :
    C18UpperGen.genToUpper Γ buf (C18UpperGen.encs chars) =
      some [.str ((today up (buf.getD []).length).toUpperBuf (C18UpperGen.encs chars))] := by
  rw [C18UpperGen.gen_toUpper_semantics Γ up hΓ]
  simp only [today, C18Utf8.decodeAll_encs]

/-- **the ilike matcher on valid UTF-8 cells, from regenerated terms only**: `NewMatcher` as regenerated returns a matcher `f`;
on the cell `encs chars` the regenerated `ToUpper` (any right environment, any buffer of `bufLen` bytes, nil if `bufLen = 0`)
returns `u` = the encoding of the mapped code points; `f` answers what the `Matches` body of the leaf answers on `u` with the
upper-cased pattern; and (case mapping `PctStable`) that is the declarative `Matches (upper pat) (encode (map up chars))`. -/
def IlikeCells (pat : Bytes) : Prop :=
  ∀ (Γ : ST.Env), C18UpperGen.UpperEnv Γ up → ∀ (buf : Option Bytes), (buf.getD []).length = bufLen → ∀ chars : List Char,
    ∃ f u, genNewMatcher up bufLen rx rxErr pat false = .ok f ∧
      C18UpperGen.genToUpper Γ buf (C18UpperGen.encs chars) = some [.str u] ∧
      u = C18UpperGen.encs (chars.map up) ∧ upper up (C18UpperGen.encs chars) = u ∧
      f (C18UpperGen.encs chars) = runMatcher (matcherKind pat) (matchString (matcherKind pat) (upper up pat)) u ∧
      (PctStable up → (f (C18UpperGen.encs chars) = true ↔ Matches (upper up pat) (C18UpperGen.encs (chars.map up))))

theorem gen_ilike_cells (pat : Bytes) (hm : hasMeta pat = false) : IlikeCells up bufLen rx rxErr pat := by
  intro Γ hΓ buf hbuf chars
  have hu : C18UpperGen.genToUpper Γ buf (C18UpperGen.encs chars) = some [.str (C18UpperGen.encs (chars.map up))] :=
    C18UpperGen.gen_toUpper_spec Γ up hΓ buf chars
  refine ⟨_, _, genNewMatcher_ilike up bufLen rx rxErr pat hm, hu, rfl, C18Utf8.upper_encs up chars, ?_, fun hup => ?_⟩
  · unfold ciMatch
    rw [C18Utf8.decodeAll_encs, U.toUpper_spec']; rfl
  · rw [ilike_correct hup, C18Utf8.upper_encs]

/-- **`gen_like_end_to_end`.** For every pattern, both case settings, every case mapping, scratch-buffer size and
regular-expression engine:
1. no metacharacters, like: `LikeE2E` with `accept = Matches pat` — today's code keeps exactly the rows whose cell is not null
   and satisfies the declarative wildcard semantics;
2. no metacharacters, ilike, `PctStable up`: `LikeE2E` with `accept s = Matches (upper up pat) (upper up s)`; and (`IlikeCells`)
   on every cell that is valid UTF-8 the upper-casing inside the matcher is the regenerated `ToUpper`, which returns the encoding
   of the mapped code points (= `upper up cell`);
3. metacharacters: the engine is asked for `regexSource pat cs`; if that compiles, `LikeE2E` with `accept s = (rx src s = true)`,
   if not, `LikeErr`. -/
theorem gen_like_end_to_end (pat : Bytes) :
    (hasMeta pat = false →
      LikeE2E up bufLen rx rxErr pat true (Matches pat) ∧
      (PctStable up → LikeE2E up bufLen rx rxErr pat false (fun s => Matches (upper up pat) (upper up s))) ∧
      IlikeCells up bufLen rx rxErr pat) ∧
    (hasMeta pat = true → ∀ cs,
      (rxErr (regexSource pat cs) = false → LikeE2E up bufLen rx rxErr pat cs (fun s => rx (regexSource pat cs) s = true)) ∧
      (rxErr (regexSource pat cs) = true → LikeErr up bufLen rx rxErr pat cs)) := by
  refine ⟨fun hm => ⟨?_, fun hup => ?_, gen_ilike_cells up bufLen rx rxErr pat hm⟩, fun hm cs => ⟨fun he => ?_, fun he => ?_⟩⟩
  · exact e2e_of_ok up bufLen rx rxErr (genNewMatcher_like up bufLen rx rxErr pat hm) (fun s => like_correct pat s)
  · exact e2e_of_ok up bufLen rx rxErr (genNewMatcher_ilike up bufLen rx rxErr pat hm) (fun s => ilike_correct hup bufLen pat s)
  · exact e2e_of_ok up bufLen rx rxErr (by rw [genNewMatcher_regex up bufLen rx rxErr pat cs hm, he]; rfl) (fun s => Iff.rfl)
  · exact err_of_error up bufLen rx rxErr (by rw [genNewMatcher_regex up bufLen rx rxErr pat cs hm, he]; rfl)

/-- **`gen_like_string_enum_agree`**: for every pattern `NewMatcher` accepts (with or without metacharacters, either case
setting), a string column and an enum column holding the same cells (every cell null or a value of the table, at most 255
values) come out of the regenerated filters with the same mask, entry by entry — whatever the mask held before. -/
theorem gen_like_string_enum_agree (pat : Bytes) (cs : Bool) (f : Bytes → Bool)
    (hm : genNewMatcher up bufLen rx rxErr pat cs = .ok f) (Γ : ST.Env) (hΓ : Γ.newMatcher = genNewMatcher up bufLen rx rxErr)
    (index : List Nat) (col : ST.Col) (bIndex : List Bool) (vals : List Bytes) (hlen : bIndex.length ≤ index.length)
    (hcol : ∀ j, j < bIndex.length → index[j]! < col.length) (hvals : vals.length ≤ 255)
    (hcells : ∀ j, j < bIndex.length → cellOk .enum vals (.str col[index[j]!]!) = true) :
    ∃ σ₁ out σ₂ b sh ke,
      genLike Γ .likeStrings [.rows index, .col col, .str pat, .bools bIndex, .bool cs] = .ret σ₁ [.err none] ∧
      σ₁ 3 = some (.bools out) ∧
      genLike Γ .likeEnum [.str pat, .strs vals, .bool cs] = .ret σ₂ [.bitset (some b), .err none] ∧
      kernelOf "ecolumn" "Column.filterWithBitset" = some (sh, ke) ∧
      ∀ i, i < bIndex.length → ∀ (P : KParams) (y k : Cell),
        kstep sh (ke.eval .enum vals { P with bset := Small.bsIsSet b } (.str col[index[i]!]!) y k) bIndex[i]! = some out[i]! :=
  (e2e_of_ok up bufLen rx rxErr hm (accept := fun s => f s = true) (fun s => Iff.rfl)).agree Γ hΓ index col bIndex vals hlen hcol hvals hcells

/-- every pattern is either accepted or rejected with the compile error of its regular expression: nothing else happens -/
theorem genNewMatcher_cases (pat : Bytes) (cs : Bool) :
    (∃ f, genNewMatcher up bufLen rx rxErr pat cs = .ok f) ∨
    (hasMeta pat = true ∧ rxErr (regexSource pat cs) = true ∧ genNewMatcher up bufLen rx rxErr pat cs = .error .badPattern) := by
  cases hm : hasMeta pat
  · cases cs
    · exact Or.inl ⟨_, genNewMatcher_ilike up bufLen rx rxErr pat hm⟩
    · exact Or.inl ⟨_, genNewMatcher_like up bufLen rx rxErr pat hm⟩
  · rw [genNewMatcher_regex up bufLen rx rxErr pat cs hm]
    cases he : rxErr (regexSource pat cs)
    · exact Or.inl ⟨_, rfl⟩
    · exact Or.inr ⟨rfl, rfl, rfl⟩

/-! ## Concrete instances -/

section Examples

/-- a toy engine (the theorems hold for every engine): "matches" iff the source is not longer than the string; a source with `[`
does not compile -/
def rx0 : Bytes → Bytes → Bool := fun src s => decide (src.length ≤ s.length)
def rxErr0 : Bytes → Bool := fun src => src.contains 91
/-- an environment whose `NewMatcher` is today's regenerated one -/
def Γ0 : ST.Env := { C18FilterGen.wEnv with newMatcher := genNewMatcher id 10 rx0 rxErr0 }

/-- `bIndex` after a call of the string-column filter -/
def maskOf (r : ST.Run) : Option (List Bool) :=
  match r with
  | .ret σ _ => (match σ 3 with | some (.bools l) => some l | _ => none)
  | _ => none

/-- the hypotheses of `gen_like_end_to_end` are met: "%ab" has no metacharacters, the identity (and the table a→A, b→B of
C18Like) is `PctStable` -/
example : hasMeta [37, 97, 98] = false := by decide +kernel
example : PctStable id := fun _ => Iff.rfl
example : PctStable (upOf stAB) := stAB_stable
example : LikeE2E id 10 rx0 rxErr0 [37, 97, 98] true (Matches [37, 97, 98]) :=
  ((gen_like_end_to_end id 10 rx0 rxErr0 _).1 (by decide +kernel)).1
example : LikeE2E (upOf stAB) 10 rx0 rxErr0 [37, 97, 98] false (fun s => Matches (upper (upOf stAB) [37, 97, 98]) (upper (upOf stAB) s)) :=
  ((gen_like_end_to_end (upOf stAB) 10 rx0 rxErr0 _).1 (by decide +kernel)).2.1 stAB_stable
/-- `IlikeCells` on a concrete cell: "xéb" (é is two bytes) with the environment of the project's own decoder / encoder and a
buffer of 10 bytes; the regenerated `ToUpper` run by the kernel on it with the table a→A, b→B returns "xéB" -/
example : IlikeCells (upOf stAB) 10 rx0 rxErr0 [37, 97, 98] :=
  ((gen_like_end_to_end (upOf stAB) 10 rx0 rxErr0 _).1 (by decide +kernel)).2.2
example : C18UpperGen.UpperEnv (C18Utf8.jsonEnv (upOf stAB) 100) (upOf stAB) := C18Utf8.jsonEnv_ok _ _
example : ((some (List.replicate 10 0) : Option Bytes).getD []).length = 10 := rfl
example : (match C18UpperGen.genToUpper (C18Utf8.jsonEnv (upOf stAB) 100) (some (List.replicate 10 0)) (C18UpperGen.encs ['x', 'é', 'b']) with
    | some [.str u] => some u | _ => none) = some (C18UpperGen.encs ['x', 'é', 'B']) := by decide +kernel
/-- "", "%" and "%%" are patterns without metacharacters: "" keeps exactly the empty strings, "%" and "%%" every non-null cell -/
example : hasMeta [] = false ∧ hasMeta [37] = false ∧ hasMeta [37, 37] = false := by decide +kernel
/-- "a.b%" has a metacharacter: the engine is asked for `^a.b`, and for `(?i)^a.b` by ilike; "a[%" does not compile in `rxErr0` -/
example : hasMeta (strBytes "a.b%") = true ∧ regexSource (strBytes "a.b%") true = strBytes "^a.b" ∧
    regexSource (strBytes "a.b%") false = strBytes "(?i)^a.b" := by decide +kernel
example : LikeErr id 10 rx0 rxErr0 (strBytes "a[%") true :=
  ((gen_like_end_to_end id 10 rx0 rxErr0 _).2 (by decide +kernel) true).2 (by decide +kernel)

/-- today's code run by the kernel: "%ab" on the rows "abx", null, "xab" read through the index [2, 1, 0] keeps "xab" … -/
example : maskOf (genLike Γ0 .likeStrings [.rows [2, 1, 0], .col [some [97, 98, 120], none, some [120, 97, 98]], .str [37, 97, 98],
    .bools [false, false, false], .bool true]) = some [true, false, false] := by decide +kernel
/-- … and the enum column with the table ["abx", "xab"] gets the bitset {1} -/
example : (match genLike Γ0 .likeEnum [.str [37, 97, 98], .strs [[97, 98, 120], [120, 97, 98]], .bool true] with
    | .ret _ [.bitset (some b), .err none] => some ([0, 1, 2, 255].map (Small.bsIsSet b))
    | _ => none) = some [false, true, false, false] := by decide +kernel
/-- the hypotheses of `gen_like_string_enum_agree` for this instance: every cell is null or a value of the table -/
example : ∀ j, j < 3 → cellOk .enum [[97, 98, 120], [120, 97, 98]]
    (.str ([some [97, 98, 120], none, some [120, 97, 98]] : ST.Col)[([2, 1, 0] : List Nat)[j]!]!) = true := by decide

end Examples

end QF.Props.C18EndToEnd

#print axioms QF.Props.C18EndToEnd.genNewMatcher_like
#print axioms QF.Props.C18EndToEnd.genNewMatcher_ilike
#print axioms QF.Props.C18EndToEnd.genNewMatcher_regex
#print axioms QF.Props.C18EndToEnd.genNewMatcher_cases
#print axioms QF.Props.C18EndToEnd.gen_like_end_to_end
#print axioms QF.Props.C18EndToEnd.gen_like_string_enum_agree
#print axioms QF.Props.C18EndToEnd.gen_like_upper_cell
#print axioms QF.Props.C18EndToEnd.gen_ilike_cells
