import QF.Props.Tie
/-! # C09 -/
namespace QF.Props.C09

/-- T1: the functions this property's mirror model follows have today the source text the model was written against. -/
-- Tie audit (bin/selftest-ties): the following functions are not compared as text any more; every behaviour-changing edit of
-- them makes a `gen_*_canon` theorem of this property's modules fail, renaming their locals or reformatting them changes nothing:
-- `QFrame.Equals`: `Gen.guardAst2`, `C10Guards.gen_guards2_canon` + `gen_equals_semantics`. `QFrame.Len`: `Gen.lenAst`, `C08Guards.gen_len_canon` + `gen_len_semantics`.
-- `Column.Equals` of the five column packages: `Gen.equalsAst`, `C09Observe.gen_equals_canon` + `gen_equals_eq_spec`.
-- The typed views are regenerated in `Gen.view*Ast` (C09ViewsGen.gen_view_semantics); nothing of C09 is compared as text any more.
theorem tie : Tie.sameAll [] = true := by decide

end QF.Props.C09
