import QF.Props.Tie
/-! # C09 -/
namespace QF.Props.C09

/-- T1: the functions this property's mirror model follows have today the source text the model was written against. -/
theorem tie : Tie.sameAll ["qframe.QFrame.Equals", "qframe.QFrame.Len", "icolumn.Column.Equals", "fcolumn.Column.Equals", "bcolumn.Column.Equals", "scolumn.Column.Equals", "ecolumn.Column.Equals", "icolumn.View.Slice", "icolumn.View.ItemAt", "fcolumn.View.Slice", "bcolumn.View.Slice"] = true := by decide

end QF.Props.C09
