import QF.Gen.StringsFns
import QF.Core.STExec
import QF.Core.Small
/-!
# C08 — the packed string pointer of today's source (tie T1)

`QF.Gen.stringsFns` (regenerated on every run by go/cmd/extract/strast.go) holds the bodies of `NewPointer`,
`Pointer.Offset`, `Pointer.Len` and `Pointer.IsNull` of /repo/internal/strings/pointer.go as terms of the language `QF.ST`
(QF/Core/STExpr.lean), the constant `nullBit` replaced by its value.

* `gen_pointer_no_opaque`, `gen_pointer_canon` — today's extraction is complete and equal to the canonical terms (`decide`).
* `gen_pointer_semantics` — interpreted with Go's arithmetic (`<<`, `|`, `&` and the conversions `Pointer(int)`, `int(Pointer)`
  on 64-bit two's complement patterns), the canonical terms compute the hand mirror `Small.newPointer` / `pOffset` / `pLen`
  / `pIsNull` (QF/Core/Small.lean): `NewPointer` for every offset below 2^35 and length below 2^28 (the widths the masks
  `0x7FFFFFFFF`, `0xFFFFFFF` and the shift 28 of the code give), the accessors for every 64-bit pointer.
* `gen_pointer_roundtrip` — hence the regenerated accessors return what the regenerated `NewPointer` packed.
* witnesses: a mask shifted by one bit, a shift of 27, a null bit at 62 are different terms (`gen_pointer_canon` fails) and
  violate the round trip on concrete inputs.
-/
namespace QF.Props.C08PointerGen
open QF QF.ST

/-- `result := Pointer(offset<<28 | length); if isNull { result |= nullBit }; return result` -/
def fnNewPointer : Fn := { params := 3, body := S.block [
  S.assign (L.var 3) (E.conv NK.u64 (E.bor (E.shl (E.var 0) (E.int 28)) (E.var 1))),
  S.ite (E.var 2) (S.block [S.assign (L.var 3) (E.bor (E.var 3) (E.u64 0x8000000000000000))]) (S.block []),
  S.ret [E.var 3]] }

/-- `return int(p>>28) & 0x7FFFFFFFF` -/
def fnOffset : Fn := { params := 1, body := S.block [
  S.ret [E.band (E.conv NK.int (E.shr (E.var 0) (E.int 28))) (E.int 0x7FFFFFFFF)]] }

/-- `return int(p) & 0xFFFFFFF` -/
def fnLen : Fn := { params := 1, body := S.block [
  S.ret [E.band (E.conv NK.int (E.var 0)) (E.int 0xFFFFFFF)]] }

/-- `return p&nullBit > 0` -/
def fnIsNull : Fn := { params := 1, body := S.block [
  S.ret [E.cmp COp.gt (E.band (E.var 0) (E.u64 0x8000000000000000)) (E.u64 0)]] }

def pointerIds : List FnId := [.newPointer, .pOffset, .pLen, .pIsNull]

theorem gen_pointer_no_opaque :
    ∀ f ∈ pointerIds, ∃ fn, Gen.stringsFns.lookup f = some fn ∧ fn.body.hasOpaque = false := by decide

theorem gen_pointer_canon :
    Gen.stringsFns.lookup .newPointer = some fnNewPointer ∧ Gen.stringsFns.lookup .pOffset = some fnOffset ∧
    Gen.stringsFns.lookup .pLen = some fnLen ∧ Gen.stringsFns.lookup .pIsNull = some fnIsNull := by decide

/-! ## Arithmetic on 64-bit patterns -/

theorem tc64_nat (n : Nat) (h : n < 2 ^ 64) : tc64 (n : Int) = n := by
  unfold tc64; omega

theorem sx64_small (n : Nat) (h : n < 2 ^ 63) : sx64 n = (n : Int) := by
  unfold sx64; split <;> omega

theorem tc64_sx64 (p : Nat) (h : p < 2 ^ 64) : tc64 (sx64 p) = p := by
  unfold tc64 sx64; split <;> omega

theorem shl28_lt (offset : Nat) (ho : offset < 2 ^ 35) : offset <<< 28 < 2 ^ 63 := by
  rw [Nat.shiftLeft_eq]; omega

theorem and_two_pow_63 (p : Nat) : p &&& 2 ^ 63 = if p.testBit 63 then 2 ^ 63 else 0 := by
  apply Nat.eq_of_testBit_eq
  intro j
  rw [Nat.testBit_and, Nat.testBit_two_pow]
  by_cases h : p.testBit 63 = true
  · rw [if_pos h, Nat.testBit_two_pow]
    by_cases hj : 63 = j
    · subst hj; simp [h]
    · simp [hj]
  · rw [if_neg h, Nat.zero_testBit]
    by_cases hj : 63 = j
    · subst hj; simp [h]
    · simp [hj]

/-! ## The meaning of the canonical terms -/

/-- `NewPointer(offset, length, isNull)` of the canonical term is the mirror's `Small.newPointer`. -/
theorem newPointer_sem (Γ : Env) (offset length : Nat) (isNull : Bool) (ho : offset < 2 ^ 35) (hl : length < 2 ^ 28) :
    (runFn Γ fnNewPointer [.int offset, .int length, .bool isNull]).vals
      = some [.u64 (Small.newPointer offset length isNull)] := by
  have h1 := shl28_lt offset ho
  have h2 : offset <<< 28 ||| length < 2 ^ 63 :=
    Nat.or_lt_two_pow h1 (Nat.lt_of_lt_of_le hl (Nat.pow_le_pow_right (by omega) (by omega)))
  have e1 : sx64 (tc64 (offset : Int) <<< 28) = ((offset <<< 28 : Nat) : Int) := by
    rw [tc64_nat _ (by omega), sx64_small _ h1]
  have e2 : tc64 (sx64 (tc64 ((offset <<< 28 : Nat) : Int) ||| tc64 (length : Int))) = offset <<< 28 ||| length := by
    rw [tc64_nat _ (by omega), tc64_nat _ (by omega), sx64_small _ h2, tc64_nat _ (by omega)]
  unfold runFn fnNewPointer
  cases isNull
  · st_simp [e1, e2, Run.vals, Small.newPointer]
    simp
  · st_simp [e1, e2, Run.vals, Small.newPointer]

theorem offset_sem (Γ : Env) (p : Nat) (hp : p < 2 ^ 64) :
    (runFn Γ fnOffset [.u64 p]).vals = some [.int (Small.pOffset p)] := by
  have h1 : p >>> 28 < 2 ^ 36 := by rw [Nat.shiftRight_eq_div_pow]; omega
  have h2 : p >>> 28 &&& 34359738367 < 2 ^ 63 := Nat.lt_of_le_of_lt Nat.and_le_right (by omega)
  have e0 : tc64 (34359738367 : Int) = 34359738367 := by decide
  have e1 : sx64 (tc64 (sx64 (p >>> 28)) &&& tc64 34359738367) = ((p >>> 28 &&& 34359738367 : Nat) : Int) := by
    rw [tc64_sx64 _ (by omega), e0, sx64_small _ h2]
  unfold runFn fnOffset
  st_simp [e1, Run.vals, Small.pOffset]

theorem len_sem (Γ : Env) (p : Nat) (hp : p < 2 ^ 64) :
    (runFn Γ fnLen [.u64 p]).vals = some [.int (Small.pLen p)] := by
  have h2 : p &&& 268435455 < 2 ^ 63 := Nat.lt_of_le_of_lt Nat.and_le_right (by omega)
  have e0 : tc64 (268435455 : Int) = 268435455 := by decide
  have e1 : sx64 (tc64 (sx64 p) &&& tc64 268435455) = ((p &&& 268435455 : Nat) : Int) := by
    rw [tc64_sx64 _ hp, e0, sx64_small _ h2]
  unfold runFn fnLen
  st_simp [e1, Run.vals, Small.pLen]

theorem isNull_sem (Γ : Env) (p : Nat) :
    (runFn Γ fnIsNull [.u64 p]).vals = some [.bool (Small.pIsNull p)] := by
  have e : (9223372036854775808 : Nat) % 2 ^ 64 = 2 ^ 63 := by decide
  unfold runFn fnIsNull
  st_simp [Run.vals, Small.pIsNull, e, Nat.zero_mod, and_two_pow_63]
  cases p.testBit 63 <;> simp

/-- today's `NewPointer`, `Offset`, `Len`, `IsNull` by the regenerated terms -/
def genRun (Γ : Env) (f : FnId) (args : List Val) : Option (List Val) := (run Γ Gen.stringsFns f args).vals

/-- The pointer functions of today's source, interpreted with Go's arithmetic, are the hand mirror of QF/Core/Small.lean. -/
theorem gen_pointer_semantics (Γ : Env) :
    (∀ offset length : Nat, ∀ isNull : Bool, offset < 2 ^ 35 → length < 2 ^ 28 →
      genRun Γ .newPointer [.int offset, .int length, .bool isNull] = some [.u64 (Small.newPointer offset length isNull)]) ∧
    (∀ p : Nat, p < 2 ^ 64 → genRun Γ .pOffset [.u64 p] = some [.int (Small.pOffset p)]) ∧
    (∀ p : Nat, p < 2 ^ 64 → genRun Γ .pLen [.u64 p] = some [.int (Small.pLen p)]) ∧
    (∀ p : Nat, genRun Γ .pIsNull [.u64 p] = some [.bool (Small.pIsNull p)]) := by
  obtain ⟨c1, c2, c3, c4⟩ := gen_pointer_canon
  refine ⟨?_, ?_, ?_, ?_⟩
  · intro offset length isNull ho hl
    simp only [genRun, run, c1]; exact newPointer_sem Γ offset length isNull ho hl
  · intro p hp
    simp only [genRun, run, c2]; exact offset_sem Γ p hp
  · intro p hp
    simp only [genRun, run, c3]; exact len_sem Γ p hp
  · intro p
    simp only [genRun, run, c4]; exact isNull_sem Γ p

theorem newPointer_lt (offset length : Nat) (isNull : Bool) (ho : offset < 2 ^ 35) (hl : length < 2 ^ 28) :
    Small.newPointer offset length isNull < 2 ^ 64 := by
  unfold Small.newPointer
  have h1 := shl28_lt offset ho
  have h2 : offset <<< 28 ||| length < 2 ^ 64 :=
    Nat.or_lt_two_pow (by omega) (Nat.lt_of_lt_of_le hl (Nat.pow_le_pow_right (by omega) (by omega)))
  apply Nat.or_lt_two_pow h2
  cases isNull <;> simp

/-- C08 for today's code: for every offset below 2^35, every length below 2^28 and either null flag, the regenerated
`NewPointer` returns a pointer from which the regenerated `Offset`, `Len` and `IsNull` return exactly what was packed. -/
theorem gen_pointer_roundtrip (Γ : Env) (offset length : Nat) (isNull : Bool) (ho : offset < 2 ^ 35) (hl : length < 2 ^ 28) :
    ∃ p, genRun Γ .newPointer [.int offset, .int length, .bool isNull] = some [.u64 p] ∧
      genRun Γ .pOffset [.u64 p] = some [.int offset] ∧
      genRun Γ .pLen [.u64 p] = some [.int length] ∧
      genRun Γ .pIsNull [.u64 p] = some [.bool isNull] := by
  obtain ⟨s1, s2, s3, s4⟩ := gen_pointer_semantics Γ
  obtain ⟨r1, r2, r3⟩ := Small.pointer_roundtrip offset length isNull ho hl
  have hp := newPointer_lt offset length isNull ho hl
  refine ⟨_, s1 offset length isNull ho hl, ?_, ?_, ?_⟩
  · rw [s2 _ hp, r1]
  · rw [s3 _ hp, r2]
  · rw [s4, r3]

/-! ## Witnesses: plausible mutations are different terms and break the round trip -/

def anyEnv : Env := { fuel := 0, decode := fun _ => (0, 0), encode := fun _ => [], runeLen := fun _ => 0, toUpper := id,
                      newMatcher := fun _ _ => .error .badPattern }

/-- what the accessors return for the pointer a `NewPointer` term builds -/
def roundtrip (np off len nul : Fn) (offset length : Int) (isNull : Bool) : Option (List Val) :=
  match (runFn anyEnv np [.int offset, .int length, .bool isNull]).vals with
  | some [p] =>
    (match (runFn anyEnv off [p]).vals, (runFn anyEnv len [p]).vals, (runFn anyEnv nul [p]).vals with
     | some [a], some [b], some [c] => some [a, b, c]
     | _, _, _ => none)
  | _ => none

def showVals : Option (List Val) → List Int
  | some vs => vs.map fun v => match v with | .int n => n | .bool b => if b then 1 else 0 | _ => -1
  | none => []

-- today's terms on a sample
example : showVals (roundtrip fnNewPointer fnOffset fnLen fnIsNull 5 3 true) = [5, 3, 1] := by decide
example : showVals (roundtrip fnNewPointer fnOffset fnLen fnIsNull (2 ^ 35 - 1) (2 ^ 28 - 1) false) = [2 ^ 35 - 1, 2 ^ 28 - 1, 0] := by decide

/-- the offset mask shifted by one bit: `int(p>>28) & 0xFFFFFFFFE` -/
def fnOffsetShiftedMask : Fn := { params := 1, body := S.block [
  S.ret [E.band (E.conv NK.int (E.shr (E.var 0) (E.int 28))) (E.int 0xFFFFFFFFE)]] }
example : fnOffsetShiftedMask ≠ fnOffset := by decide
example : showVals (roundtrip fnNewPointer fnOffsetShiftedMask fnLen fnIsNull 5 3 false) = [4, 3, 0] := by decide

/-- the length mask one bit short: `int(p) & 0x7FFFFFF` -/
def fnLenShortMask : Fn := { params := 1, body := S.block [
  S.ret [E.band (E.conv NK.int (E.var 0)) (E.int 0x7FFFFFF)]] }
example : fnLenShortMask ≠ fnLen := by decide
example : showVals (roundtrip fnNewPointer fnOffset fnLenShortMask fnIsNull 5 (2 ^ 27) false) = [5, 0, 0] := by decide

/-- a shift of 27 in `NewPointer` only: offset and length overlap -/
def fnNewPointer27 : Fn := { params := 3, body := S.block [
  S.assign (L.var 3) (E.conv NK.u64 (E.bor (E.shl (E.var 0) (E.int 27)) (E.var 1))),
  S.ite (E.var 2) (S.block [S.assign (L.var 3) (E.bor (E.var 3) (E.u64 0x8000000000000000))]) (S.block []),
  S.ret [E.var 3]] }
example : fnNewPointer27 ≠ fnNewPointer := by decide
example : showVals (roundtrip fnNewPointer27 fnOffset fnLen fnIsNull 1 0 false) = [0, 2 ^ 27, 0] := by decide

/-- the null bit at position 62: it is the top bit of the offset -/
def fnNewPointerNull62 : Fn := { params := 3, body := S.block [
  S.assign (L.var 3) (E.conv NK.u64 (E.bor (E.shl (E.var 0) (E.int 28)) (E.var 1))),
  S.ite (E.var 2) (S.block [S.assign (L.var 3) (E.bor (E.var 3) (E.u64 0x4000000000000000))]) (S.block []),
  S.ret [E.var 3]] }
example : fnNewPointerNull62 ≠ fnNewPointer := by decide
example : showVals (roundtrip fnNewPointerNull62 fnOffset fnLen fnIsNull 0 0 true) = [2 ^ 34, 0, 0] := by decide

/-- `>= 0` for `> 0` in `IsNull`: every pointer is null -/
def fnIsNullGe : Fn := { params := 1, body := S.block [
  S.ret [E.cmp COp.ge (E.band (E.var 0) (E.u64 0x8000000000000000)) (E.u64 0)]] }
example : fnIsNullGe ≠ fnIsNull := by decide
example : showVals (roundtrip fnNewPointer fnOffset fnLen fnIsNullGe 5 3 false) = [5, 3, 1] := by decide

/-- the bounds of the theorem are the widths of the code: one more bit of offset is lost -/
example : showVals (roundtrip fnNewPointer fnOffset fnLen fnIsNull (2 ^ 35) 0 false) = [0, 0, 1] := by decide
/-- … and one more bit of length spills into the offset -/
example : showVals (roundtrip fnNewPointer fnOffset fnLen fnIsNull 0 (2 ^ 28) false) = [1, 0, 0] := by decide

end QF.Props.C08PointerGen

#print axioms QF.Props.C08PointerGen.gen_pointer_no_opaque
#print axioms QF.Props.C08PointerGen.gen_pointer_canon
#print axioms QF.Props.C08PointerGen.gen_pointer_semantics
#print axioms QF.Props.C08PointerGen.gen_pointer_roundtrip
