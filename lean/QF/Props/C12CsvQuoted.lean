import QF.Props.C12CsvFns
/-!
# C12 / C15 — `nextQuotedField` of the canonical CSV-reader terms = the mirror's `Csv.nextQuoted`

The Go function has two nested loops (the look-ahead `for buffer.cursor+1 >= len(buffer.data) { more() }` inside the
scanning loop), the mirror `Csv.quotedLoop` has ONE loop whose rounds are either a `more` or a byte. `quoted_loop` relates
them: whenever the mirror does not give up (`panic "fuel"`), the nested loops — each with the budget of the whole mirror
loop — return what the mirror returns. (Where the mirror gives up the nested loops may still go on: they have more
budget. Nothing is claimed there.)
-/
namespace QF.Props.C12CsvGen
open QF QF.CR Csv
set_option linter.unusedSimpArgs false

/-- a result of `quotedLoop` as the result of a loop or body: the field as a slice of the buffer, the flag, the error -/
def retQ (h : Reader) (start : Nat) : Csv.Out (List Byte × Bool × Option RErr × Buf) → CR.Out
  | .ok (f, eol, err, b) => .ret (withBuf h b) [.view start f.length (b.data.size - start), .bool eol, .err err]
  | .panic w => .panic (cls w)

/-- the variables of `nextQuotedField` hold the parameters of the mirror's loop -/
structure QS (σ : Store) (delim : Byte) (start w q : Nat) : Prop where
  d : σ 0 = some (.byte delim)
  s : σ 1 = some (.int start)
  w : σ 2 = some (.int w)
  q : σ 3 = some (.int q)

/-- `start ≤ writeCursor ≤ cursor ≤ len(data) ≤ cap(data)` -/
def QI (b : Buf) (start w : Nat) : Prop := start ≤ w ∧ w ≤ b.cursor ∧ b.cursor ≤ b.len ∧ b.len ≤ b.data.size

/-- the following rounds of the scanning loop return what the mirror returns with budget `k` -/
def Resume (fuel n k j : Nat) (delim : Byte) (start : Nat) : Prop :=
  ∀ (h : Reader) (σ : Store) (w q : Nat), QS σ delim start w q → QI h.fs.buf start w →
    quotedLoop k h.fs.buf delim start w q ≠ .panic "fuel" →
    iter (stepOf (env fuel (n+2)) qBody) j h σ = retQ h start (quotedLoop k h.fs.buf delim start w q)

theorem withBuf_withBuf (h : Reader) (a b : Buf) : withBuf (withBuf h a) b = withBuf h b := rfl
theorem withBuf_buf (h : Reader) (a : Buf) : (withBuf h a).fs.buf = a := rfl
theorem retQ_withBuf (h : Reader) (a : Buf) (start : Nat) (o) : retQ (withBuf h a) start o = retQ h start o := by
  cases o with
  | ok p => rfl
  | panic w => rfl

theorem drop_take_one {α} : ∀ (l : List α) (c : Nat) (h : c < l.length), (l.take (c+1)).drop c = [l[c]]
  | x :: l, 0, _ => by simp
  | x :: l, c + 1, h => by
    simp only [List.length_cons, Nat.add_lt_add_iff_right] at h
    simpa using drop_take_one l c h

theorem readView_one (a : Array Byte) (c : Nat) (h : c < a.size) : readView a c 1 = [a[c]!] := by
  rw [readView, drop_take_one _ _ (by simpa using h), getElem!_pos a c h]
  simp

theorem q_keep (fuel n k j : Nat) (delim : Byte) (start : Nat) (res : Resume fuel n k j delim start)
    (h : Reader) (σ : Store) (w q : Nat) (hs : QS σ delim start w q)
    (hw : start ≤ w) (h1 : w + 1 ≤ h.fs.buf.cursor) (hc : h.fs.buf.cursor ≤ h.fs.buf.len) (hl : h.fs.buf.len ≤ h.fs.buf.data.size)
    (hnf : C15Faults.qKeep k delim start w h.fs.buf ≠ .panic "fuel") :
    contK (stepOf (env fuel (n+2)) qBody) j ((S.block qKeep).exec (env fuel (n+2)) h σ) =
      retQ h start (C15Faults.qKeep k delim start w h.fs.buf) := by
  obtain ⟨hd, hst, hww, hq⟩ := hs
  unfold C15Faults.qKeep at hnf ⊢
  unfold qKeep
  have hbne : ∀ a b : Nat, (a != b) = !decide (a = b) := fun a b => by simp [bne, BEq.beq]
  simp only [hbne] at hnf ⊢
  by_cases hne : w + 1 = h.fs.buf.cursor
  · simp only [hne, decide_true, Bool.not_true, Bool.false_eq_true, if_false] at hnf ⊢
    exec_simp [hww]
    simp only [contK]
    rw [res _ _ (w + 1) 0 ⟨by simp [set_apply, hd], by simp [set_apply, hst], by simp [set_apply], by simp [set_apply]⟩
      ⟨by omega, by omega, hc, hl⟩ (by rw [hne]; exact hnf), hne]
  · simp only [hne, decide_false, Bool.not_false, if_true] at hnf ⊢
    by_cases hb : h.fs.buf.cursor + 1 ≤ h.fs.buf.data.size ∧ w + 1 + 1 ≤ h.fs.buf.data.size
    · rw [if_pos hb] at hnf ⊢
      have e1 : ((w : Int) + 1 + 1).toNat - (w + 1) = 1 := by omega
      exec_simp [hww, e1, Nat.add_sub_cancel_left, Nat.min_self, readView_one _ _ (show h.fs.buf.cursor < h.fs.buf.data.size by omega)]
      simp only [contK, writeAll]
      have := res (withBuf h { h.fs.buf with data := h.fs.buf.data.setIfInBounds (w + 1) h.fs.buf.data[h.fs.buf.cursor]! })
        ((σ.set 3 (Val.int 0)).set 2 (Val.int (↑w + 1))) (w + 1) 0
        ⟨by simp [set_apply, hd], by simp [set_apply, hst], by simp [set_apply], by simp [set_apply]⟩
        ⟨by omega, by simp [withBuf]; omega, by simpa [withBuf] using hc, by simpa [withBuf] using hl⟩ hnf
      rw [retQ_withBuf] at this
      exact this
    · rw [if_neg hb]
      by_cases hb1 : w + 1 + 1 ≤ h.fs.buf.data.size
      · have hb2 : ¬ h.fs.buf.cursor + 1 ≤ h.fs.buf.data.size := fun hh => hb ⟨hh, hb1⟩
        exec_simp [hww]
        simp only [contK, retQ, cls_slice]
      · exfalso; omega

/-- the mirror's case distinction on the byte read, the cursor already advanced -/
def qSw (k : Nat) (delim : Byte) (start w q : Nat) (ch : Byte) (b1 : Buf) : Csv.Out (List Byte × Bool × Option RErr × Buf) :=
  if ch == delim then
    if q % 2 != 0 then .ok (b1.slice start w, false, none, b1) else C15Faults.qKeep k delim start w b1
  else if ch == LF then
    if q % 2 != 0 then .ok (b1.slice start w, true, none, b1) else C15Faults.qKeep k delim start w b1
  else if ch == Csv.CR then
    if q % 2 != 0 then quotedLoop k b1 delim start w q else C15Faults.qKeep k delim start w b1
  else if ch == QUOTE then
    if (q + 1) % 2 == 1 then quotedLoop k b1 delim start w (q + 1) else C15Faults.qKeep k delim start w b1
  else C15Faults.qKeep k delim start w b1

theorem tmod_two (q : Nat) : Int.tmod (↑q) 2 = ↑(q % 2) := by
  rw [Int.tmod_eq_emod_of_nonneg (Int.natCast_nonneg q)]; omega

theorem tmod_two_succ (q : Nat) : Int.tmod (↑q + 1) 2 = ↑((q + 1) % 2) := by
  rw [Int.tmod_eq_emod_of_nonneg (by omega)]; omega

theorem slice_length (b : Buf) (s w : Nat) (hw : w ≤ b.data.size) : (b.slice s w).length = w - s := by
  simp [Buf.slice, Nat.min_eq_left hw]

theorem exec_case (Γ : Env) (h : Reader) (σ : Store) (x : E) (d ch : Byte) (A B : S)
    (h5 : σ 5 = some (.byte ch)) (hx : x.eval h σ = .ok (.byte d)) :
    (S.ite (E.cmp COp.eq (E.var 5) x) A B).exec Γ h σ = if ch = d then A.exec Γ h σ else B.exec Γ h σ := by
  by_cases hc : ch = d <;> simp [exec_ite, E.eval, h5, hx, CR.compare, COp.same, hc]

theorem exec_ifOdd (Γ : Env) (h : Reader) (σ : Store) (q : Nat) (A B : S) (hq : σ 3 = some (.int q)) :
    (S.ite qcOdd A B).exec Γ h σ = if q % 2 = 0 then B.exec Γ h σ else A.exec Γ h σ := by
  unfold qcOdd
  by_cases hp : q % 2 = 0
  · exec_simp [hq, tmod_two, hp]
  · exec_simp [hq, tmod_two, hp]

theorem exec_retField (Γ : Env) (h : Reader) (σ : Store) (delim : Byte) (start w q : Nat) (hs : QS σ delim start w q)
    (eol : Bool) (e : E) (x : Option RErr) (he : e.eval h σ = .ok (.err x)) (i1 : start ≤ w) (hw : w ≤ h.fs.buf.data.size) :
    (S.ret [qField, E.bool eol, e]).exec Γ h σ =
      .ret h [.view start (w - start) (h.fs.buf.data.size - start), .bool eol, .err x] := by
  obtain ⟨hd, hst, hww, hq⟩ := hs
  unfold qField
  exec_simp [hst, hww, he]

theorem q_switch (fuel n k j : Nat) (delim : Byte) (start : Nat) (res : Resume fuel n k j delim start)
    (h : Reader) (σ : Store) (ch : Byte) (w q : Nat) (hs : QS σ delim start w q) (h5 : σ 5 = some (.byte ch))
    (i1 : start ≤ w) (i2 : w + 1 ≤ h.fs.buf.cursor) (i3 : h.fs.buf.cursor ≤ h.fs.buf.len) (i4 : h.fs.buf.len ≤ h.fs.buf.data.size)
    (hnf : qSw k delim start w q ch h.fs.buf ≠ .panic "fuel") :
    contK (stepOf (env fuel (n+2)) qBody) j
        (match qSwitch.exec (env fuel (n+2)) h σ with
         | .next h3 σ3 => (S.block qKeep).exec (env fuel (n+2)) h3 σ3
         | r => r) =
      retQ h start (qSw k delim start w q ch h.fs.buf) := by
  have hs' := hs
  obtain ⟨hd, hst, hww, hq⟩ := hs
  have hbne : ∀ a b : Nat, (a != b) = !decide (a = b) := fun a b => by simp [bne, BEq.beq]
  have hbeq : ∀ a b : Nat, (a == b) = decide (a = b) := fun a b => by simp [BEq.beq]
  have hbq : ∀ a b : Byte, (a == b) = decide (a = b) := fun a b => by simp [BEq.beq]
  have hwsz : w ≤ h.fs.buf.data.size := by omega
  have retCase : ∀ (eol : Bool), contK (stepOf (env fuel (n+2)) qBody) j
      (CR.Out.ret h [Val.view start (w - start) (h.fs.buf.data.size - start), Val.bool eol, Val.err none]) =
      retQ h start (.ok (h.fs.buf.slice start w, eol, none, h.fs.buf)) := by
    intro eol
    simp only [contK, retQ, withBuf, slice_length _ _ _ hwsz]
  have contCase : ∀ (σ' : Store) (q' : Nat), QS σ' delim start w q' → quotedLoop k h.fs.buf delim start w q' ≠ .panic "fuel" →
      contK (stepOf (env fuel (n+2)) qBody) j (CR.Out.cont h σ') = retQ h start (quotedLoop k h.fs.buf delim start w q') := by
    intro σ' q' hs'' hnf'
    simp only [contK]
    exact res h σ' w q' hs'' ⟨i1, by omega, i3, i4⟩ hnf'
  have keepCase : ∀ (σ' : Store) (q' : Nat), QS σ' delim start w q' → C15Faults.qKeep k delim start w h.fs.buf ≠ .panic "fuel" →
      contK (stepOf (env fuel (n+2)) qBody) j ((S.block qKeep).exec (env fuel (n+2)) h σ') =
        retQ h start (C15Faults.qKeep k delim start w h.fs.buf) :=
    fun σ' q' hs'' hnf' => q_keep fuel n k j delim start res h σ' w q' hs'' i1 i2 i3 i4 hnf'
  unfold qSw at hnf ⊢
  unfold qSwitch
  simp only [hbne, hbeq, hbq, decide_eq_true_eq] at hnf ⊢
  rw [exec_case _ _ _ _ delim ch _ _ h5 (by simp [E.eval, hd]),
      exec_case _ _ _ _ LF ch _ _ h5 (by simp only [E.eval, UInt8_ofNat_10]),
      exec_case _ _ _ _ Csv.CR ch _ _ h5 (by simp only [E.eval, UInt8_ofNat_13]),
      exec_case _ _ _ _ QUOTE ch _ _ h5 (by simp only [E.eval, UInt8_ofNat_34])]
  by_cases c1 : ch = delim
  · simp only [if_pos c1, exec_block_cons, exec_block_nil, exec_ifOdd _ _ _ q _ _ hq] at hnf ⊢
    by_cases hp : q % 2 = 0
    · simp only [hp, if_true, decide_true, Bool.not_true, Bool.false_eq_true, if_false] at hnf ⊢
      exact keepCase σ q hs' hnf
    · simp only [hp, if_false, decide_false, Bool.not_false, if_true] at hnf ⊢
      simp only [exec_retField _ _ _ _ _ _ _ hs' false E.nilErr none rfl i1 hwsz]
      exact retCase false
  · simp only [if_neg c1] at hnf ⊢
    by_cases c2 : ch = LF
    · simp only [if_pos c2, exec_block_cons, exec_block_nil, exec_ifOdd _ _ _ q _ _ hq] at hnf ⊢
      by_cases hp : q % 2 = 0
      · simp only [hp, if_true, decide_true, Bool.not_true, Bool.false_eq_true, if_false] at hnf ⊢
        exact keepCase σ q hs' hnf
      · simp only [hp, if_false, decide_false, Bool.not_false, if_true] at hnf ⊢
        simp only [exec_retField _ _ _ _ _ _ _ hs' true E.nilErr none rfl i1 hwsz]
        exact retCase true
    · simp only [if_neg c2] at hnf ⊢
      by_cases c3 : ch = Csv.CR
      · simp only [if_pos c3, exec_block_cons, exec_block_nil, exec_ifOdd _ _ _ q _ _ hq] at hnf ⊢
        by_cases hp : q % 2 = 0
        · simp only [hp, if_true, decide_true, Bool.not_true, Bool.false_eq_true, if_false] at hnf ⊢
          exact keepCase σ q hs' hnf
        · simp only [hp, if_false, decide_false, Bool.not_false, if_true, exec_cont] at hnf ⊢
          exact contCase σ q hs' hnf
      · simp only [if_neg c3] at hnf ⊢
        by_cases c4 : ch = QUOTE
        · have hs1 : QS (σ.set 3 (Val.int (↑q + 1))) delim start w (q + 1) :=
            ⟨by simp [set_apply, hd], by simp [set_apply, hst], by simp [set_apply, hww], by simp [set_apply]⟩
          simp only [if_pos c4] at hnf ⊢
          by_cases hp : (q + 1) % 2 = 1
          · simp only [hp, decide_true, if_true] at hnf
            exec_simp [hq, tmod_two_succ, hp]
            exact contCase _ (q + 1) hs1 hnf
          · simp only [hp, decide_false, Bool.false_eq_true, if_false] at hnf
            exec_simp [hq, tmod_two_succ, hp]
            exact keepCase _ (q + 1) hs1 hnf
        · simp only [if_neg c4] at hnf ⊢
          simp only [exec_block_nil]
          exact keepCase σ q hs' hnf

theorem exec_qRest (Γ : Env) (h : Reader) (σ : Store) : qRest.exec Γ h σ =
    (match (S.assign (L.var 5) (E.at (E.fld Fld.data) (E.fld Fld.cursor))).exec Γ h σ with
     | .next h1 σ1 =>
       (match (S.incr (L.fld Fld.cursor)).exec Γ h1 σ1 with
        | .next h2 σ2 =>
          (match qSwitch.exec Γ h2 σ2 with
           | .next h3 σ3 => (S.block qKeep).exec Γ h3 σ3
           | r => r)
        | r => r)
     | r => r) := rfl

theorem q_rest (fuel n k j : Nat) (delim : Byte) (start : Nat) (res : Resume fuel n k j delim start)
    (h : Reader) (σ : Store) (w q : Nat) (hs : QS σ delim start w q) (hi : QI h.fs.buf start w)
    (hlt : h.fs.buf.cursor < h.fs.buf.len)
    (hnf : C15Faults.qBody k delim start w q h.fs.buf ≠ .panic "fuel") :
    contK (stepOf (env fuel (n+2)) qBody) j (qRest.exec (env fuel (n+2)) h σ) =
      retQ h start (C15Faults.qBody k delim start w q h.fs.buf) := by
  obtain ⟨hd, hst, hww, hq⟩ := hs
  obtain ⟨i1, i2, i3, i4⟩ := hi
  unfold C15Faults.qBody at hnf ⊢
  rw [if_pos hlt] at hnf ⊢
  rw [exec_qRest]
  exec_simp []
  have := q_switch fuel n k j delim start res (withBuf h { h.fs.buf with cursor := h.fs.buf.cursor + 1 })
    (σ.set 5 (Val.byte h.fs.buf.data[h.fs.buf.cursor]!)) h.fs.buf.data[h.fs.buf.cursor]! w q
    ⟨by simp [set_apply, hd], by simp [set_apply, hst], by simp [set_apply, hww], by simp [set_apply, hq]⟩ (by simp [set_apply])
    i1 (by simp [withBuf]; omega) (by simp [withBuf]; omega) (by simpa [withBuf] using i4) hnf
  rw [retQ_withBuf] at this
  exact this

theorem eval_qField (h : Reader) (σ : Store) (delim : Byte) (start w q : Nat) (hs : QS σ delim start w q)
    (i1 : start ≤ w) (hw : w ≤ h.fs.buf.data.size) :
    qField.eval h σ = .ok (.view start (w - start) (h.fs.buf.data.size - start)) := by
  obtain ⟨hd, hst, hww, hq⟩ := hs
  unfold qField
  exec_simp [hst, hww]

theorem eval_eofDelim (h : Reader) (σ : Store) (delim : Byte) (q : Nat) (err : RErr)
    (hd : σ 0 = some (.byte delim)) (hq : σ 3 = some (.int q)) (h4 : σ 4 = some (.err (some err))) :
    eofDelim.eval h σ = .ok (.bool (err == RErr.eof && q % 2 != 0 && decide (h.fs.buf.cursor < h.fs.buf.len)
      && h.fs.buf.data[h.fs.buf.cursor]! == delim)) := by
  unfold eofDelim qcOdd
  cases err
  · by_cases hp : q % 2 = 0
    · exec_simp [hd, hq, h4, tmod_two, hp]
      simp [hp]
    · by_cases hc : h.fs.buf.cursor < h.fs.buf.len
      · by_cases hx : h.fs.buf.data[h.fs.buf.cursor]! = delim
        · exec_simp [hd, hq, h4, tmod_two, hp, hx]
          simp [hp, hc, hx]
          omega
        · exec_simp [hd, hq, h4, tmod_two, hp, hx]
          simp [hp, hc, hx]
      · exec_simp [hd, hq, h4, tmod_two, hp]
        simp [hp, hc]
  · exec_simp [hd, hq, h4]
    rfl

/-- what follows the look-ahead in a round of the scanning loop, and the `j` following rounds -/
def afterAhead (fuel n j : Nat) (o : CR.Out) : CR.Out :=
  contK (stepOf (env fuel (n+2)) qBody) j
    (match o with
     | .next h' σ' => qRest.exec (env fuel (n+2)) h' σ'
     | r => r)

theorem step_qBody (fuel n : Nat) (h : Reader) (σ : Store) :
    stepOf (env fuel (n+2)) qBody h σ =
      (match iter (stepOf (env fuel (n+2)) aheadBody) fuel h σ with
       | .next h' σ' => qRest.exec (env fuel (n+2)) h' σ'
       | r => r) := rfl

theorem iter_qBody_succ (fuel n j : Nat) (h : Reader) (σ : Store) :
    iter (stepOf (env fuel (n+2)) qBody) (j + 1) h σ =
      afterAhead fuel n j (iter (stepOf (env fuel (n+2)) aheadBody) fuel h σ) := by
  rw [iter_succ, step_qBody]; rfl

theorem quotedLoop_zero (b : Buf) (delim : Byte) (start w q : Nat) : quotedLoop 0 b delim start w q = .panic "fuel" := rfl

theorem afterAhead_ret (fuel n j : Nat) (h : Reader) (vs : List Val) : afterAhead fuel n j (.ret h vs) = .ret h vs := rfl

/-- The two nested loops of `nextQuotedField` against the mirror's one loop. `k`: the mirror's budget; `m`: what is left of
the look-ahead loop's budget; `j`: the rounds the scanning loop has left after this one. -/
theorem quoted_loop (fuel n : Nat) : ∀ (k m j : Nat) (h : Reader) (σ : Store) (delim : Byte) (start w q : Nat),
    QS σ delim start w q → QI h.fs.buf start w → k ≤ m → k ≤ j + 1 → k ≤ fuel →
    quotedLoop k h.fs.buf delim start w q ≠ .panic "fuel" →
    afterAhead fuel n j (iter (stepOf (env fuel (n+2)) aheadBody) m h σ) =
      retQ h start (quotedLoop k h.fs.buf delim start w q) := by
  intro k
  induction k with
  | zero => intro m j h σ delim start w q _ _ _ _ _ hnf; exact absurd (quotedLoop_zero _ _ _ _ _) hnf
  | succ k ih =>
    intro m j h σ delim start w q hs hi hm hj hf hnf
    obtain ⟨m, rfl⟩ : ∃ m', m = m' + 1 := ⟨m - 1, by omega⟩
    have res : Resume fuel n k j delim start := by
      intro h' σ' w' q' hs' hi' hnf'
      rcases j with _ | j
      · have : k = 0 := by omega
        subst this
        exact absurd (quotedLoop_zero _ _ _ _ _) hnf'
      · rw [iter_qBody_succ]
        exact ih fuel j h' σ' delim start w' q' hs' hi' (by omega) (by omega) (by omega) hnf'
    have hs' := hs
    have hi' := hi
    obtain ⟨hd, hst, hww, hq⟩ := hs
    obtain ⟨i1, i2, i3, i4⟩ := hi
    rw [C15Faults.quotedLoop_succ] at hnf ⊢
    rw [iter_succ, stepOf]
    by_cases hge : h.fs.buf.cursor + 1 ≥ h.fs.buf.len
    · rw [if_pos hge] at hnf ⊢
      have hmf := more_facts h.fs.buf i4
      exec_simp [call_more _ _ _ i4, withBuf]
      rcases hmo : h.fs.buf.more with ⟨b', e⟩
      rw [hmo] at hmf hnf
      simp only at hmf hnf ⊢
      rcases e with _ | err
      · exec_simp []
        simp only [contK]
        have := ih m j (withBuf h b') (σ.set 4 (.err none)) delim start w q
          ⟨by simp [set_apply, hd], by simp [set_apply, hst], by simp [set_apply, hww], by simp [set_apply, hq]⟩
          ⟨i1, by simp [withBuf]; omega, by simp [withBuf]; omega, by simpa [withBuf] using hmf.2.1⟩ (by omega) (by omega) (by omega) hnf
        rwa [retQ_withBuf] at this
      · have h4 : (σ.set 4 (Val.err (some err))) 4 = some (.err (some err)) := by simp [set_apply]
        have hd4 : (σ.set 4 (Val.err (some err))) 0 = some (.byte delim) := by simp [set_apply, hd]
        have hq4 : (σ.set 4 (Val.err (some err))) 3 = some (.int q) := by simp [set_apply, hq]
        have hs4 : QS (σ.set 4 (Val.err (some err))) delim start w q :=
          ⟨hd4, by simp [set_apply, hst], by simp [set_apply, hww], hq4⟩
        exec_simp [eval_eofDelim _ _ delim q err hd4 hq4 h4]
        by_cases hC : (err == RErr.eof && q % 2 != 0 && decide (b'.cursor < b'.len) && b'.data[b'.cursor]! == delim) = true
        · have hcl : b'.cursor < b'.len := by
            simp only [Bool.and_eq_true, decide_eq_true_eq] at hC
            exact hC.1.2
          simp only [hC, if_true]
          rw [eval_qField _ _ delim start w q hs4 i1 (by simp; omega)]
          simp only [Res.bind_ok, Out.ofRes_ok, contK, afterAhead_ret, retQ, withBuf,
            slice_length { b' with cursor := b'.cursor + 1 } start w (show w ≤ b'.data.size by omega)]
        · simp only [hC, Bool.false_eq_true, if_false]
          rw [eval_qField _ _ delim start w q hs4 i1 (by simp; omega)]
          exec_simp []
          simp only [contK, afterAhead_ret, retQ, withBuf, slice_length _ _ _ (show w ≤ b'.data.size by omega)]
    · rw [if_neg hge] at hnf ⊢
      have hlt : h.fs.buf.cursor < h.fs.buf.len := by omega
      exec_simp []
      simp only [contK, afterAhead]
      exact q_rest fuel n k j delim start res h σ w q hs' hi' hlt hnf

/-- a result of `nextQuoted` as the result of a call -/
def callQ (h : Reader) (start : Nat) : Csv.Out (List Byte × Bool × Option RErr × Buf) → CallRes
  | .ok (f, eol, err, b) => .ret (withBuf h b) [.view start f.length (b.data.size - start), .bool eol, .err err]
  | .panic w => .panic (cls w)

/-- `nextQuotedField` is the mirror's `nextQuoted` wherever the mirror does not give up; the field comes back as the slice
`data[start : start + len(field)]` of the buffer. -/
theorem call_quoted (fuel n : Nat) (h : Reader) (delim : Byte)
    (hc : h.fs.buf.cursor < h.fs.buf.len) (hl : h.fs.buf.len ≤ h.fs.buf.data.size)
    (hnf : nextQuoted fuel h.fs.buf delim ≠ .panic "fuel") :
    callAt canonFns fuel (n+3) .quoted [.byte delim] h = callQ h (h.fs.buf.cursor + 1) (nextQuoted fuel h.fs.buf delim) := by
  rw [callAt_succ _ _ _ _ look_quoted]
  unfold runFn fnQuoted
  unfold nextQuoted at hnf ⊢
  simp only at hnf ⊢
  exec_simp []
  rcases fuel with _ | f
  · exact absurd (quotedLoop_zero _ _ _ _ _) hnf
  · rw [iter_qBody_succ]
    have := quoted_loop (f + 1) n (f + 1) (f + 1) f (withBuf h { h.fs.buf with cursor := h.fs.buf.cursor + 1 })
      ((((Store.empty.set 0 (Val.byte delim)).set 1 (Val.int ((h.fs.buf.cursor + 1 : Nat) : Int))).set 2 (Val.int ((h.fs.buf.cursor + 1 : Nat) : Int))).set 3 (Val.int 0))
      delim (h.fs.buf.cursor + 1) (h.fs.buf.cursor + 1) 0
      ⟨by simp [set_apply], by simp [set_apply], by simp [set_apply], by simp [set_apply]⟩
      ⟨Nat.le_refl _, by simp [withBuf], by simp [withBuf]; omega, by simpa [withBuf] using hl⟩
      (Nat.le_refl _) (Nat.le_refl _) (Nat.le_refl _) hnf
    rw [retQ_withBuf] at this
    simp only [withBuf] at this
    rw [this]
    cases quotedLoop (f + 1) { data := h.fs.buf.data, len := h.fs.buf.len, cursor := h.fs.buf.cursor + 1, src := h.fs.buf.src }
        delim (h.fs.buf.cursor + 1) (h.fs.buf.cursor + 1) 0 with
    | ok p => rfl
    | panic w => rfl

end QF.Props.C12CsvGen
