/- GENERATED on every run by /verif/go/cmd/extract from /repo's source (tie T1). Do not edit. -/
import QF.Core.LExpr
namespace QF.Gen

/-- `Column.Apply1` of every column package as a term of `QF.LFn`, by role: (package, term) -/
def apply1Ast : List (String × LFn) := [
  ("icolumn", { assertOther := none, cases := [
      (LSig.fn [CType.int] CType.int, LBody.loop CType.int LLen.recvLen [LStmt.store LIdx.row (LRhs.call [LArg.cell LWhich.recv LIdx.row LAcc.raw])] LRet.slice),
      (LSig.fn [CType.int] CType.float, LBody.loop CType.float LLen.recvLen [LStmt.store LIdx.row (LRhs.call [LArg.cell LWhich.recv LIdx.row LAcc.raw])] LRet.slice),
      (LSig.fn [CType.int] CType.bool, LBody.loop CType.bool LLen.recvLen [LStmt.store LIdx.row (LRhs.call [LArg.cell LWhich.recv LIdx.row LAcc.raw])] LRet.slice),
      (LSig.fn [CType.int] CType.string, LBody.loop CType.string LLen.recvLen [LStmt.store LIdx.row (LRhs.call [LArg.cell LWhich.recv LIdx.row LAcc.raw])] LRet.slice)], dflt := LBody.err }),
  ("fcolumn", { assertOther := none, cases := [
      (LSig.fn [CType.float] CType.int, LBody.loop CType.int LLen.recvLen [LStmt.store LIdx.row (LRhs.call [LArg.cell LWhich.recv LIdx.row LAcc.raw])] LRet.slice),
      (LSig.fn [CType.float] CType.float, LBody.loop CType.float LLen.recvLen [LStmt.store LIdx.row (LRhs.call [LArg.cell LWhich.recv LIdx.row LAcc.raw])] LRet.slice),
      (LSig.fn [CType.float] CType.bool, LBody.loop CType.bool LLen.recvLen [LStmt.store LIdx.row (LRhs.call [LArg.cell LWhich.recv LIdx.row LAcc.raw])] LRet.slice),
      (LSig.fn [CType.float] CType.string, LBody.loop CType.string LLen.recvLen [LStmt.store LIdx.row (LRhs.call [LArg.cell LWhich.recv LIdx.row LAcc.raw])] LRet.slice)], dflt := LBody.err }),
  ("bcolumn", { assertOther := none, cases := [
      (LSig.fn [CType.bool] CType.int, LBody.loop CType.int LLen.recvLen [LStmt.store LIdx.row (LRhs.call [LArg.cell LWhich.recv LIdx.row LAcc.raw])] LRet.slice),
      (LSig.fn [CType.bool] CType.float, LBody.loop CType.float LLen.recvLen [LStmt.store LIdx.row (LRhs.call [LArg.cell LWhich.recv LIdx.row LAcc.raw])] LRet.slice),
      (LSig.fn [CType.bool] CType.bool, LBody.loop CType.bool LLen.recvLen [LStmt.store LIdx.row (LRhs.call [LArg.cell LWhich.recv LIdx.row LAcc.raw])] LRet.slice),
      (LSig.fn [CType.bool] CType.string, LBody.loop CType.string LLen.recvLen [LStmt.store LIdx.row (LRhs.call [LArg.cell LWhich.recv LIdx.row LAcc.raw])] LRet.slice)], dflt := LBody.err }),
  ("scolumn", { assertOther := none, cases := [
      (LSig.fn [CType.string] CType.int, LBody.loop CType.int LLen.recvLen [LStmt.store LIdx.row (LRhs.call [LArg.cell LWhich.recv LIdx.row (LAcc.ifNull LAcc.nilPtr LAcc.addrStr)])] LRet.slice),
      (LSig.fn [CType.string] CType.float, LBody.loop CType.float LLen.recvLen [LStmt.store LIdx.row (LRhs.call [LArg.cell LWhich.recv LIdx.row (LAcc.ifNull LAcc.nilPtr LAcc.addrStr)])] LRet.slice),
      (LSig.fn [CType.string] CType.bool, LBody.loop CType.bool LLen.recvLen [LStmt.store LIdx.row (LRhs.call [LArg.cell LWhich.recv LIdx.row (LAcc.ifNull LAcc.nilPtr LAcc.addrStr)])] LRet.slice),
      (LSig.fn [CType.string] CType.string, LBody.loop CType.string LLen.recvLen [LStmt.store LIdx.row (LRhs.call [LArg.cell LWhich.recv LIdx.row (LAcc.ifNull LAcc.nilPtr LAcc.addrStr)])] LRet.slice),
      (LSig.str, LBody.lookup [("ToUpper", 4436361420761799342)] LBody.err)], dflt := LBody.err }),
  ("ecolumn", { assertOther := none, cases := [
      (LSig.fn [CType.string] CType.int, LBody.loop CType.int LLen.recvLen [LStmt.store LIdx.row (LRhs.call [LArg.cell LWhich.recv LIdx.row (LAcc.ifNull LAcc.nilPtr LAcc.addrValue)])] LRet.slice),
      (LSig.fn [CType.string] CType.float, LBody.loop CType.float LLen.recvLen [LStmt.store LIdx.row (LRhs.call [LArg.cell LWhich.recv LIdx.row (LAcc.ifNull LAcc.nilPtr LAcc.addrValue)])] LRet.slice),
      (LSig.fn [CType.string] CType.bool, LBody.loop CType.bool LLen.recvLen [LStmt.store LIdx.row (LRhs.call [LArg.cell LWhich.recv LIdx.row (LAcc.ifNull LAcc.nilPtr LAcc.addrValue)])] LRet.slice),
      (LSig.fn [CType.string] CType.string, LBody.loop CType.string LLen.recvLen [LStmt.store LIdx.row (LRhs.call [LArg.cell LWhich.recv LIdx.row (LAcc.ifNull LAcc.nilPtr LAcc.addrValue)])] LRet.slice),
      (LSig.str, LBody.lookup [("ToUpper", 4589966130434383312)] LBody.err)], dflt := LBody.err })]

/-- `Column.Apply2` of every column package as a term of `QF.LFn`, by role: (package, term) -/
def apply2Ast : List (String × LFn) := [
  ("icolumn", { assertOther := some LBody.err, cases := [
      (LSig.fn [CType.int, CType.int] CType.int, LBody.loop CType.int LLen.recvLen [LStmt.store LIdx.row (LRhs.call [LArg.cell LWhich.recv LIdx.row LAcc.raw, LArg.cell LWhich.other LIdx.row LAcc.raw])] LRet.ownCol)], dflt := LBody.err }),
  ("fcolumn", { assertOther := some LBody.err, cases := [
      (LSig.fn [CType.float, CType.float] CType.float, LBody.loop CType.float LLen.recvLen [LStmt.store LIdx.row (LRhs.call [LArg.cell LWhich.recv LIdx.row LAcc.raw, LArg.cell LWhich.other LIdx.row LAcc.raw])] LRet.ownCol)], dflt := LBody.err }),
  ("bcolumn", { assertOther := some LBody.err, cases := [
      (LSig.fn [CType.bool, CType.bool] CType.bool, LBody.loop CType.bool LLen.recvLen [LStmt.store LIdx.row (LRhs.call [LArg.cell LWhich.recv LIdx.row LAcc.raw, LArg.cell LWhich.other LIdx.row LAcc.raw])] LRet.ownCol)], dflt := LBody.err }),
  ("scolumn", { assertOther := some LBody.err, cases := [
      (LSig.fn [CType.string, CType.string] CType.string, LBody.loop CType.string LLen.recvLen [LStmt.store LIdx.row (LRhs.call [LArg.cell LWhich.recv LIdx.row (LAcc.ifNull LAcc.nilPtr LAcc.addrStr), LArg.cell LWhich.other LIdx.row (LAcc.ifNull LAcc.nilPtr LAcc.addrStr)])] LRet.ownCol),
      (LSig.str, LBody.err)], dflt := LBody.err }),
  ("ecolumn", { assertOther := some LBody.err, cases := [
      (LSig.fn [CType.string, CType.string] CType.string, LBody.loop CType.string LLen.recvLen [LStmt.store LIdx.row (LRhs.call [LArg.cell LWhich.recv LIdx.row (LAcc.ifNull LAcc.nilPtr LAcc.addrValue), LArg.cell LWhich.other LIdx.row (LAcc.ifNull LAcc.nilPtr LAcc.addrValue)])] LRet.strCol),
      (LSig.str, LBody.err)], dflt := LBody.err })]

/-- the frame method `Apply` calls for an instruction without source column (`apply0`), after its guard prefix -/
def apply0Ast : LFn :=
  { assertOther := none, cases := [
      (LSig.fn [] CType.int, LBody.loop CType.int LLen.firstColLen [LStmt.store LIdx.row (LRhs.call [])] LRet.create),
      (LSig.const CType.int, LBody.loop CType.int LLen.firstColLen [LStmt.store LIdx.row LRhs.fnValue] LRet.create),
      (LSig.fn [] CType.float, LBody.loop CType.float LLen.firstColLen [LStmt.store LIdx.row (LRhs.call [])] LRet.create),
      (LSig.const CType.float, LBody.loop CType.float LLen.firstColLen [LStmt.store LIdx.row LRhs.fnValue] LRet.create),
      (LSig.fn [] CType.bool, LBody.loop CType.bool LLen.firstColLen [LStmt.store LIdx.row (LRhs.call [])] LRet.create),
      (LSig.const CType.bool, LBody.loop CType.bool LLen.firstColLen [LStmt.store LIdx.row LRhs.fnValue] LRet.create),
      (LSig.fn [] CType.string, LBody.loop CType.string LLen.firstColLen [LStmt.store LIdx.row (LRhs.call [])] LRet.create),
      (LSig.const CType.string, LBody.loop CType.string LLen.firstColLen [LStmt.store LIdx.row LRhs.fnValue] LRet.create),
      (LSig.str, LBody.loop CType.string LLen.firstColLen [LStmt.store LIdx.row LRhs.addrFnValue] LRet.create),
      (LSig.named, LBody.copyCol)], dflt := LBody.err }

/-- the frame method for one source column (`apply1`) after `Apply1` returned: the switch on the type of the slice -/
def apply1WrapAst : LWrap :=
  { slices := [(CType.int, CType.int), (CType.float, CType.float), (CType.bool, CType.bool), (CType.string, CType.string)], passesColumn := true, dfltErr := true, setsDst := true }

/-- `Column.Aggregate` of every column package as a term of `QF.LGFn`, by role: (package, term) -/
def aggregateAst : List (String × LGFn) := [
  ("icolumn", { cases := [
      (LSig.str, LGCase.agg (LGSrc.builtin ["max", "min", "sum"]) LGInit.empty LGWrite.append { init := LGInit.empty, write := LGWrite.append, i := LIdx.row, acc := LAcc.raw } LRet.ownCol),
      ((LSig.aggFn CType.int CType.int), LGCase.agg LGSrc.user LGInit.empty LGWrite.append { init := LGInit.empty, write := LGWrite.append, i := LIdx.row, acc := LAcc.raw } LRet.ownCol)], dflt := LGCase.err }),
  ("fcolumn", { cases := [
      (LSig.str, LGCase.agg (LGSrc.builtin ["avg", "max", "min", "sum"]) LGInit.empty LGWrite.append { init := LGInit.empty, write := LGWrite.append, i := LIdx.row, acc := LAcc.raw } LRet.ownCol),
      ((LSig.aggFn CType.float CType.float), LGCase.agg LGSrc.user LGInit.empty LGWrite.append { init := LGInit.empty, write := LGWrite.append, i := LIdx.row, acc := LAcc.raw } LRet.ownCol)], dflt := LGCase.err }),
  ("bcolumn", { cases := [
      (LSig.str, LGCase.agg (LGSrc.builtin ["majority"]) LGInit.empty LGWrite.append { init := LGInit.empty, write := LGWrite.append, i := LIdx.row, acc := LAcc.raw } LRet.ownCol),
      ((LSig.aggFn CType.bool CType.bool), LGCase.agg LGSrc.user LGInit.empty LGWrite.append { init := LGInit.empty, write := LGWrite.append, i := LIdx.row, acc := LAcc.raw } LRet.ownCol)], dflt := LGCase.err }),
  ("scolumn", { cases := [
      (LSig.str, LGCase.err),
      ((LSig.aggFn CType.string CType.string), LGCase.agg LGSrc.user LGInit.empty LGWrite.append { init := LGInit.full, write := (LGWrite.setAt LIdx.pos), i := LIdx.row, acc := (LAcc.ifNull LAcc.nilPtr LAcc.addrStr) } LRet.ownCol)], dflt := LGCase.err }),
  ("ecolumn", { cases := [
      (LSig.str, LGCase.err),
      ((LSig.aggFn CType.string CType.string), LGCase.agg LGSrc.user LGInit.empty LGWrite.append { init := LGInit.empty, write := LGWrite.append, i := LIdx.row, acc := (LAcc.ifNull LAcc.nilPtr LAcc.addrValue) } LRet.strCol)], dflt := LGCase.err })]

/-- what `Column.Subset(index)` of every column package returns, as a term of `QF.LGSub`: (package, term) -/
def subsetAst : List (String × LGSub) := [
  ("icolumn", LGSub.cells { init := LGInit.full, write := (LGWrite.setAt LIdx.pos), i := LIdx.row, acc := LAcc.entry } []),
  ("fcolumn", LGSub.cells { init := LGInit.full, write := (LGWrite.setAt LIdx.pos), i := LIdx.row, acc := LAcc.entry } []),
  ("bcolumn", LGSub.cells { init := LGInit.full, write := (LGWrite.setAt LIdx.pos), i := LIdx.row, acc := LAcc.entry } []),
  ("scolumn", LGSub.blob { ptrInit := LGInit.full, dataInit := LGInit.empty, offInit := 0, cellAt := LIdx.row, body := [(BCond.always, BAct.setPtr LIdx.pos BInt.running BInt.cellLen BFlag.cellNull), (BCond.notNull, BAct.appendBytes BInt.cellOff BInt.cellLen), (BCond.notNull, BAct.advance BInt.cellLen)] }),
  ("ecolumn", LGSub.cells { init := LGInit.empty, write := LGWrite.append, i := LIdx.row, acc := LAcc.entry } ["strict", "values"])]

/-- `Grouper.Aggregate` after its guards: the first-row index, the key columns, the call of `Column.Aggregate`, the index of the result -/
def grouperTailAst : LGTail :=
  { firstInit := LGInit.full, firstWrite := (LGWrite.setAt LIdx.pos), firstRow := (some 0), key := LGKey.subsetOfFirst, aggPassesGroups := true, indexAscending := true }

end QF.Gen
