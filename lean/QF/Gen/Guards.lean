/- GENERATED on every run by /verif/go/cmd/extract from /repo's source (tie T1). Do not edit. -/
import QF.Core.GExpr
namespace QF.Gen

/-- the function of internal/strings that the guards of qframe.go call on a column name (`CheckName`, bool helpers inlined) -/
def checkNameAst : List NStep := [
  NStep.reject (NCond.eqI NInt.len (NInt.lit 0)),
  NStep.reject (NCond.and (NCond.lt (NInt.lit 2) NInt.len) (NCond.or (NCond.and (NCond.hasPrefix [39]) (NCond.hasSuffix [39])) (NCond.and (NCond.hasPrefix [34]) (NCond.hasSuffix [34])))),
  NStep.reject (NCond.hasPrefix [36]),
  NStep.accept]

/-- `QFrame.Len` -/
def lenAst : List IStep := [
  IStep.guard GCond.qfHasErr (GInt.lit (-1)),
  IStep.ret GInt.indexLen]

/-- the guard prefix of the projection operations and of `New`, by role: (operation, steps) -/
def guardAst : List (String × List GStep) := [
  ("Slice", [
    GStep.guard GCond.qfHasErr GOut.returnSelf,
    GStep.guard (GCond.lt GInt.start (GInt.lit 0)) GOut.err,
    GStep.guard (GCond.lt GInt.stop GInt.start) GOut.err,
    GStep.guard (GCond.lt GInt.len GInt.stop) GOut.err]),
  ("Select", [
    GStep.guard GCond.qfHasErr GOut.returnSelf,
    GStep.forEach GColl.columns (GCond.unknownColumn GRole.each) GOut.err,
    GStep.guard (GCond.eqI (GInt.count GColl.columns) (GInt.lit 0)) GOut.ok]),
  ("Drop", [
    GStep.guard (GCond.or GCond.qfHasErr (GCond.eqI (GInt.count GColl.columns) (GInt.lit 0))) GOut.returnSelf,
    GStep.forEach GColl.columns (GCond.unknownColumn GRole.each) GOut.err]),
  ("Copy", [
    GStep.guard GCond.qfHasErr GOut.returnSelf,
    GStep.guard (GCond.unknownColumn GRole.src) GOut.err,
    GStep.guard GCond.sameName GOut.returnSelf,
    GStep.guard (GCond.nameCheckFails GRole.dst) GOut.err]),
  ("New", [
    GStep.forEach GColl.dataKeys (GCond.nameCheckFails GRole.each) GOut.err,
    GStep.defaultOrder,
    GStep.guard (GCond.not (GCond.eqI (GInt.count GColl.order) (GInt.count GColl.dataKeys))) GOut.err,
    GStep.forEach GColl.order (GCond.notInData GRole.each) GOut.err])]

/-- number of error returns in the statements AFTER the translated prefix: (operation, count) -/
def lateErrors : List (String × Nat) := [("Slice", 0), ("Select", 0), ("Drop", 0), ("Copy", 0), ("New", 3)]

/-- `return qf.m(…)` of a frame method after the prefix that is not part of the chain (its arguments are computed, not the request's): (operation, callee: an exported operation, else `helper`) -/
def openTails : List (String × String) := [("Drop", "Select")]

end QF.Gen
