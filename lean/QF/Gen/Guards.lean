/- GENERATED on every run by /verif/go/cmd/extract from /repo's source (tie T1). Do not edit. -/
import QF.Core.GExpr
namespace QF.Gen

/-- the function of internal/strings that the guards of qframe.go call on a column name (`CheckName`, bool helpers inlined) -/
def checkNameAst : List NStep := [
  NStep.reject (NCond.eqI NInt.len (NInt.lit 0)),
  NStep.reject (NCond.and (NCond.lt (NInt.lit 2) NInt.len) (NCond.or (NCond.and (NCond.hasPrefix [39]) (NCond.hasSuffix [39])) (NCond.and (NCond.hasPrefix [34]) (NCond.hasSuffix [34])))),
  NStep.reject (NCond.hasPrefix [36]),
  NStep.accept]

/-- `QFrame.Len` -/
def lenAst : List IStep := [
  IStep.guard GCond.qfHasErr (GInt.lit (-1)),
  IStep.ret GInt.indexLen]

/-- the guard prefix of the projection operations and of `New`, by role: (operation, steps) -/
def guardAst : List (String × List GStep) := [
  ("Slice", [
    GStep.guard GCond.qfHasErr GOut.returnSelf,
    GStep.guard (GCond.lt GInt.start (GInt.lit 0)) GOut.err,
    GStep.guard (GCond.lt GInt.stop GInt.start) GOut.err,
    GStep.guard (GCond.lt GInt.len GInt.stop) GOut.err]),
  ("Select", [
    GStep.guard GCond.qfHasErr GOut.returnSelf,
    GStep.forEach GColl.columns (GCond.unknownColumn GRole.each) GOut.err,
    GStep.guard (GCond.eqI (GInt.count GColl.columns) (GInt.lit 0)) GOut.ok]),
  ("Drop", [
    GStep.guard (GCond.or GCond.qfHasErr (GCond.eqI (GInt.count GColl.columns) (GInt.lit 0))) GOut.returnSelf,
    GStep.forEach GColl.columns (GCond.unknownColumn GRole.each) GOut.err]),
  ("Copy", [
    GStep.guard GCond.qfHasErr GOut.returnSelf,
    GStep.guard (GCond.unknownColumn GRole.src) GOut.err,
    GStep.guard GCond.sameName GOut.returnSelf,
    GStep.guard (GCond.nameCheckFails GRole.dst) GOut.err]),
  ("New", [
    GStep.forEach GColl.dataKeys (GCond.nameCheckFails GRole.each) GOut.err,
    GStep.defaultOrder,
    GStep.guard (GCond.not (GCond.eqI (GInt.count GColl.order) (GInt.count GColl.dataKeys))) GOut.err,
    GStep.forEach GColl.order (GCond.notInData GRole.each) GOut.err])]

/-- number of error returns in the statements AFTER the translated prefix: (operation, count) -/
def lateErrors : List (String × Nat) := [("Slice", 0), ("Select", 0), ("Drop", 0), ("Copy", 0), ("New", 3)]

/-- `return qf.m(…)` of a frame method after the prefix that is not part of the chain (its arguments are computed, not the request's): (operation, callee: an exported operation, else `helper`) -/
def openTails : List (String × String) := [("Drop", "Select")]

/-- the guard prefix of the remaining operations of qframe.go and grouper.go, by role: (operation, steps). `apply0`…`apply2` are the frame methods `Apply` dispatches to, named by their number of source columns; `filterLeaf` is the frame method that takes the leaf filters of a clause -/
def guardAst2 : List (String × List GStep) := [
  ("Sort", [
    GStep.guard GCond.qfHasErr GOut.returnSelf,
    GStep.guard (GCond.eqI (GInt.count GColl.orderCols) (GInt.lit 0)) GOut.returnSelf,
    GStep.forEach GColl.orderCols (GCond.unknownColumn GRole.each) GOut.err]),
  ("Distinct", [
    GStep.guard GCond.qfHasErr GOut.returnSelf,
    GStep.forEach GColl.groupCols (GCond.unknownColumn GRole.each) GOut.err,
    GStep.guard (GCond.eqI GInt.len (GInt.lit 0)) GOut.returnSelf]),
  ("GroupBy", [
    GStep.guard GCond.qfHasErr GOut.carryErr,
    GStep.forEach GColl.groupCols (GCond.unknownColumn GRole.each) GOut.err,
    GStep.guard (GCond.eqI GInt.len (GInt.lit 0)) GOut.ok]),
  ("Aggregate", [
    GStep.guard GCond.grouperHasErr GOut.carryErr,
    GStep.forEachWork GColl.aggCols (GCond.unknownColumn GRole.each) GOut.err]),
  ("QFrames", [
    GStep.guard GCond.grouperHasErr GOut.carryErr]),
  ("apply0", [
    GStep.guard GCond.qfHasErr GOut.returnSelf]),
  ("apply1", [
    GStep.guard GCond.qfHasErr GOut.returnSelf,
    GStep.guard (GCond.unknownColumn GRole.src) GOut.err]),
  ("apply2", [
    GStep.guard GCond.qfHasErr GOut.returnSelf,
    GStep.guard (GCond.unknownColumn GRole.src) GOut.err,
    GStep.guard (GCond.unknownColumn GRole.src2) GOut.err]),
  ("FilteredApply", [
    GStep.subFails "Filter"]),
  ("WithRowNums", []),
  ("Eval", [
    GStep.guard GCond.qfHasErr GOut.returnSelf]),
  ("Filter", [
    GStep.guard GCond.qfHasErr GOut.returnSelf]),
  ("filterLeaf", [
    GStep.guard GCond.qfHasErr GOut.returnSelf,
    GStep.forEachWork GColl.filterCols (GCond.unknownColumn GRole.each) GOut.err]),
  ("Equals", [
    GStep.guard (GCond.not (GCond.eqI GInt.indexLen GInt.otherIndexLen)) GOut.retFalse,
    GStep.guard (GCond.not (GCond.eqI GInt.colCount GInt.otherColCount)) GOut.retFalse,
    GStep.forEachPair GCond.pairNameDiffers GOut.retFalse,
    GStep.forEachPair GCond.pairContentDiffers GOut.retFalse,
    GStep.done GOut.retTrue]),
  ("ToCSV", [
    GStep.guard GCond.qfHasErr GOut.err,
    GStep.guardIf (GCond.given GColl.csvCols) (GCond.not (GCond.eqI (GInt.count GColl.csvCols) GInt.colCount)) GOut.err,
    GStep.forEachIf (GCond.given GColl.csvCols) GColl.csvCols (GCond.unknownColumn GRole.each) GOut.err]),
  ("ToJSON", [
    GStep.guard GCond.qfHasErr GOut.err]),
  ("ToSQL", [
    GStep.guard GCond.qfHasErr GOut.err]),
  ("ReadCSV", [
    GStep.guard (GCond.extFails 0) GOut.err]),
  ("ReadJSON", [
    GStep.guard (GCond.extFails 0) GOut.err]),
  ("ReadSQL", []),
  ("ReadSQLWithArgs", [
    GStep.guard (GCond.extFails 0) GOut.err,
    GStep.guard (GCond.extFails 1) GOut.err,
    GStep.guard (GCond.extFails 2) GOut.err])]

/-- number of error returns AFTER the translated prefix (for a `forEachWork` loop: in the rest of its body): (operation, count) -/
def lateErrors2 : List (String × Nat) := [("Sort", 0), ("Distinct", 0), ("GroupBy", 0), ("Aggregate", 2), ("QFrames", 0), ("apply0", 2), ("apply1", 2), ("apply2", 1), ("FilteredApply", 0), ("WithRowNums", 0), ("Eval", 1), ("Filter", 0), ("filterLeaf", 2), ("Equals", 0), ("ToCSV", 3), ("ToJSON", 3), ("ToSQL", 2), ("ReadCSV", 0), ("ReadJSON", 0), ("ReadSQL", 0), ("ReadSQLWithArgs", 0)]

/-- `return recv.m(…)` / `return F(…)` / `return <parameter>.m(…)` after the prefix: (operation, callee by role: an exported name, `set`, `apply0`…, `filterLeaf`, `parameter`, else `helper`) -/
def openTails2 : List (String × String) := [("apply0", "Copy"), ("apply0", "set"), ("apply1", "set"), ("apply2", "set"), ("WithRowNums", "Apply"), ("Filter", "parameter"), ("ReadCSV", "New"), ("ReadJSON", "New"), ("ReadSQL", "ReadSQLWithArgs"), ("ReadSQLWithArgs", "New")]

/-- frame methods called after the prefix on anything but a parameter, in source order: (operation, callees by role) -/
def laterCalls : List (String × List String) := [("apply0", ["Copy", "set"]), ("apply1", ["set"]), ("apply2", ["set"]), ("FilteredApply", ["Apply"]), ("WithRowNums", ["Apply"]), ("Eval", ["Copy", "Drop"])]

/-- `QFrame.Apply`: a loop without guards -/
def applyAst : ApplyAst :=
  { accFromRecv := true, disp := IDisp.ifEmpty IField.src1 (IDisp.call 0 [IField.fn, IField.dst]) (IDisp.ifEmpty IField.src2 (IDisp.call 1 [IField.fn, IField.dst, IField.src1]) (IDisp.call 2 [IField.fn, IField.dst, IField.src1, IField.src2])), returnsAcc := true }

/-- the instructions `WithRowNums` passes to `Apply` -/
def rowNumsAst : Option (List InstrLit) := some [{ dst := (some GRole.dst), src1Set := false, src2Set := false, fnIsFuncLit := true }]

/-- `GroupBy` builds its `Grouper` with the receiver's name map, so `Aggregate` checks its columns against the frame's -/
def grouperSharesNames : Bool := true

end QF.Gen
