/- GENERATED on every run by /verif/go/cmd/extract from /repo's source (tie T1). Do not edit. -/
import QF.Core.VwExpr
namespace QF.Gen

/-- `Column.View(ix)` of every column package: (package, term) -/
def viewCtorAst : List (String × VwCtor) := [
  ("icolumn", VwCtor.ofData),
  ("fcolumn", VwCtor.ofData),
  ("bcolumn", VwCtor.ofData),
  ("scolumn", VwCtor.ofColumn),
  ("ecolumn", VwCtor.ofColumn)]

/-- `View.ItemAt(i)` of every column package: (package, term) -/
def viewItemAtAst : List (String × VwItem) := [
  ("icolumn", VwItem.dataAt (VwRow.indexAt VwPos.param)),
  ("fcolumn", VwItem.dataAt (VwRow.indexAt VwPos.param)),
  ("bcolumn", VwItem.dataAt (VwRow.indexAt VwPos.param)),
  ("scolumn", VwItem.strPtr false (VwRow.indexAt VwPos.param)),
  ("ecolumn", VwItem.enumPtr (VwRow.indexAt VwPos.param))]

/-- `View.Len()` of every column package: (package, term) -/
def viewLenAst : List (String × VwLen) := [
  ("icolumn", VwLen.lenIndex),
  ("fcolumn", VwLen.lenIndex),
  ("bcolumn", VwLen.lenIndex),
  ("scolumn", VwLen.lenIndex),
  ("ecolumn", VwLen.lenIndex)]

/-- `View.Slice()` of every column package: (package, term) -/
def viewSliceAst : List (String × VwSlice) := [
  ("icolumn", VwSlice.fill VwLenE.callLen (VwItem.dataAt VwRow.loopRow)),
  ("fcolumn", VwSlice.fill VwLenE.callLen (VwItem.dataAt VwRow.loopRow)),
  ("bcolumn", VwSlice.fill VwLenE.callLen (VwItem.dataAt VwRow.loopRow)),
  ("scolumn", VwSlice.fill VwLenE.callLen (VwItem.strPtr true VwRow.loopRow)),
  ("ecolumn", VwSlice.fill VwLenE.callLen (VwItem.itemAt VwPos.loopPos))]

/-- the function (string, bool) *string of scolumn its view wraps the cell in (`stringToPtr`) -/
def viewStrPtrAst : VwPtr := VwPtr.ite VwCond.flagParam VwPtr.nilPtr VwPtr.addrStr

/-- the method (uint32) (string, bool) of scolumn.Column other than `stringAt` its view reads cells with (`stringCopyAt`) -/
def viewStrCopyAst : RE := RE.ite RTest.isNull (RE.pair (RE.lit []) true) (RE.pair RE.rawBytes false)

/-- the method (uint32) *string of ecolumn.Column its view reads cells with (`stringPtrAt`) -/
def viewEnumPtrAst : VwPtr := VwPtr.ite VwCond.cellIsNull VwPtr.nilPtr VwPtr.addrEnumValue

end QF.Gen
