/- GENERATED on every run by /verif/go/cmd/extract from /repo's source (tie T1). Do not edit. -/
import QF.Core.AExpr
namespace QF.Gen

/-- the built-in aggregations as terms of `QF.AE`, by role: (package, name, term) — per column package the entries of
the map `Column.Aggregate` looks names up in, and under "qframe" the names `Grouper.Aggregate` answers itself -/
def aggAst : List (String × String × AE) := [
  ("icolumn", "max", AE.fold AInit.first 1 (AX.sel ">" AX.acc AX.v AX.acc AX.v) AFin.id),
  ("icolumn", "min", AE.fold AInit.first 1 (AX.sel "<" AX.acc AX.v AX.acc AX.v) AFin.id),
  ("icolumn", "sum", AE.fold AInit.zero 0 (AX.add AX.acc AX.v) AFin.id),
  ("fcolumn", "avg", AE.fold AInit.zero 0 (AX.add AX.acc AX.v) AFin.divByLen),
  ("fcolumn", "max", AE.fold AInit.first 1 (AX.mathMax AX.acc AX.v) AFin.id),
  ("fcolumn", "min", AE.fold AInit.first 1 (AX.mathMin AX.acc AX.v) AFin.id),
  ("fcolumn", "sum", AE.fold AInit.zero 0 (AX.add AX.acc AX.v) AFin.id),
  ("bcolumn", "majority", AE.count2 ACtr.c0 ACtr.c1 ">" ACtr.c0 ACtr.c1),
  ("qframe", "count", AE.len)]

end QF.Gen
