/- GENERATED on every run by /verif/go/cmd/extract from /repo's source (tie T1). Do not edit. -/
import QF.Core.PExpr
namespace QF.Gen

/-- the frame methods whose body is one frame literal, by the type of their parameter -/
def frameHelperAst : List (String × PRet) := [
  ("(error) → frame", PRet.frame PCs.recv PMp.recv PIx.recv PEr.param),
  ("(index) → frame", PRet.frame PCs.recv PMp.recv PIx.param PEr.recv)]

/-- the index and column-list work of the operations of qframe.go, from the end of their rejecting guards on (helpers that build a frame literal and forwarding tail calls inlined): (operation, term) -/
def projectAst : List (String × PF) := [
  ("Slice", PF.seq [
    PStm.ret (PRet.frame PCs.recv PMp.recv (PIx.slice PIx.recv PI.start PI.stop) PEr.recv)]),
  ("Select", PF.seq [
    PStm.retIf (PCond.noNames PNs.requested) PRet.emptyFrame,
    PStm.do PA.allocMap,
    PStm.do (PA.allocCols (PI.countNames PNs.requested)),
    PStm.forEachName PNs.requested [PL.do (PA.lookup ERg.a PMp.recv PN.each), PL.do (PA.setPos ERg.a PI.i), PL.do (PA.mapPut PMp.new PN.each (PEl.reg ERg.a)), PL.do (PA.colStore PCs.new PI.i (PEl.reg ERg.a))],
    PStm.ret (PRet.frame PCs.new PMp.new PIx.recv PEr.none)]),
  ("Drop", PF.seq [
    PStm.do PA.initNames,
    PStm.forEachCol PCs.recv [PL.when (PCond.notRequested (PN.nameOf PEl.eachCol)) [PA.pushName (PN.nameOf PEl.eachCol)]],
    PStm.ret (PRet.callSelect PNs.kept)]),
  ("Copy", PF.fork [
    PStm.do (PA.lookup ERg.a PMp.recv PN.src),
    PStm.do (PA.lookup ERg.b PMp.recv PN.dst)] (PCond.present ERg.b) [
    PStm.do (PA.allocCols (PI.lenCols PCs.recv)),
    PStm.do PA.allocMap,
    PStm.do (PA.copyCols PCs.new PCs.recv),
    PStm.do (PA.copyMap PMp.new PMp.recv),
    PStm.do (PA.mapPut PMp.new PN.dst (PEl.mk PN.dst (PC.colOf (PEl.reg ERg.a)) (PI.posOf (PEl.reg ERg.b)))),
    PStm.do (PA.colStore PCs.new (PI.posOf (PEl.reg ERg.b)) (PEl.mk PN.dst (PC.colOf (PEl.reg ERg.a)) (PI.posOf (PEl.reg ERg.b)))),
    PStm.ret (PRet.frame PCs.new PMp.new PIx.recv PEr.recv)] [
    PStm.do (PA.allocCols (PI.add (PI.lenCols PCs.recv) (PI.lit 1))),
    PStm.do PA.allocMap,
    PStm.do (PA.copyCols PCs.new PCs.recv),
    PStm.do (PA.copyMap PMp.new PMp.recv),
    PStm.do (PA.mapPut PMp.new PN.dst (PEl.mk PN.dst (PC.colOf (PEl.reg ERg.a)) (PI.lenCols PCs.recv))),
    PStm.do (PA.colStore PCs.new (PI.lenCols PCs.recv) (PEl.mk PN.dst (PC.colOf (PEl.reg ERg.a)) (PI.lenCols PCs.recv))),
    PStm.ret (PRet.frame PCs.new PMp.new PIx.recv PEr.recv)]),
  ("setColumn", PF.fork [
    PStm.do (PA.lookup ERg.a PMp.recv PN.dst)] (PCond.present ERg.a) [
    PStm.do (PA.allocCols (PI.lenCols PCs.recv)),
    PStm.do PA.allocMap,
    PStm.do (PA.copyCols PCs.new PCs.recv),
    PStm.do (PA.copyMap PMp.new PMp.recv),
    PStm.do (PA.mapPut PMp.new PN.dst (PEl.mk PN.dst PC.param (PI.posOf (PEl.reg ERg.a)))),
    PStm.do (PA.colStore PCs.new (PI.posOf (PEl.reg ERg.a)) (PEl.mk PN.dst PC.param (PI.posOf (PEl.reg ERg.a)))),
    PStm.ret (PRet.frame PCs.new PMp.new PIx.recv PEr.recv)] [
    PStm.do (PA.allocCols (PI.add (PI.lenCols PCs.recv) (PI.lit 1))),
    PStm.do PA.allocMap,
    PStm.do (PA.copyCols PCs.new PCs.recv),
    PStm.do (PA.copyMap PMp.new PMp.recv),
    PStm.do (PA.mapPut PMp.new PN.dst (PEl.mk PN.dst PC.param (PI.lenCols PCs.recv))),
    PStm.do (PA.colStore PCs.new (PI.lenCols PCs.recv) (PEl.mk PN.dst PC.param (PI.lenCols PCs.recv))),
    PStm.ret (PRet.frame PCs.new PMp.new PIx.recv PEr.recv)]),
  ("Sort", PF.seq [
    PStm.do (PA.callIx IxFn.copy PIx.recv),
    PStm.do (PA.sortIx PIx.new),
    PStm.ret (PRet.frame PCs.recv PMp.recv PIx.new PEr.recv)]),
  ("Distinct", PF.seq [
    PStm.do (PA.callIx IxFn.distinct PIx.recv),
    PStm.ret (PRet.frame PCs.recv PMp.recv PIx.new PEr.recv)])]

/-- the functions of internal/index, and the function of internal/grouper that `Distinct` calls: (function, term) -/
def indexAst : List (String × PF) := [
  ("Int.Copy", PF.seq [
    PStm.do (PA.allocIx (PI.lenIx PIx.param) (PI.lenIx PIx.param)),
    PStm.do (PA.copyIx PIx.new PIx.param),
    PStm.ret (PRet.ix PIx.new)]),
  ("Int.Filter", PF.seq [
    PStm.do (PA.setCount 0),
    PStm.forEachBool [PL.when PCond.eachBool [PA.incCount]],
    PStm.do (PA.allocIx (PI.lit 0) PI.count),
    PStm.forEachBool [PL.when PCond.eachBool [PA.appendIx PIx.new (PU.ixAt PIx.param PI.i)]],
    PStm.ret (PRet.ix PIx.new)]),
  ("Int.Len", PF.seq [
    PStm.ret (PRet.int (PI.lenIx PIx.param))]),
  ("NewAscending", PF.seq [
    PStm.do (PA.allocIx PI.size PI.size),
    PStm.forRangeIx PIx.new [PL.do (PA.ixStore PIx.new PI.i PU.ofI)],
    PStm.ret (PRet.ix PIx.new)]),
  ("NewBool", PF.seq [
    PStm.ret (PRet.bools PI.size)]),
  ("Bool.Len", PF.seq [
    PStm.ret (PRet.int PI.lenBools)]),
  ("grouper.Distinct", PF.seq [
    PStm.do (PA.allocIx (PI.lit 0) PI.groupCount),
    PStm.forEachEntry [PL.when PCond.occupied [PA.appendIx PIx.new PU.firstPos]],
    PStm.ret (PRet.ix PIx.new)])]

end QF.Gen
