/- GENERATED on every run by /verif/go/cmd/extract from /repo's source (tie T1). Do not edit. -/
import QF.Core.GroupGlue
namespace QF.Gen
open QF.GG

/-- the method of QFrame `(...groupby.ConfigFunc) Grouper` (`GroupBy`), helpers inlined -/
def groupByAst : GB := GB.ifRecvErr (GB.retErr Src.recvErr) (GB.newConfig (GB.checkColumns (GB.retErr Src.localErr) (GB.mkGrouper Src.recvColumns Src.recvNames Src.cfgColumns (GB.ifLenZero GB.retGrouper (GB.ifNoColumns (GB.setOneGroup Src.recvIndex GB.retGrouper) (GB.comparables (BArg.lit false) BArg.cfgNull (BArg.lit false) (GB.callGrouper Src.recvIndex (GB.setIndices (GB.setStats GB.retGrouper)))))))))

/-- the method of QFrame `(...groupby.ConfigFunc) QFrame` (`Distinct`): what it hands to `grouper.Distinct`, helpers inlined -/
def distinctCmpsAst : DK := DK.comparables DNames.cfgColumnsOrAll (BArg.lit false) BArg.cfgNull (BArg.lit false) Src.recvIndex

/-- the functions of /repo/config/groupby that return a `ConfigFunc`, by parameter type: (signature, term) -/
def groupByConfigFns : List (String × CF) := [
  ("(...string)", CF.setColumns),
  ("(bool)", CF.setNull)]

/-- the method of Grouper `() ([]QFrame, error)` (`QFrames`), `withIndex` inlined -/
def qframesAst : QS := QS.ifGrouperErr (QS.base Src.grpColumns Src.grpNames Src.zero (QS.makeResult (QS.rangeStore Src.grpColumns Src.grpNames Src.group Src.zero QS.retResult)))

/-- the method of Grouper `(...Aggregation) QFrame` (`Aggregate`) -/
def aggregateGlueAst : List AT := [
  AT.ifGrouperErr,
  AT.firstRows 0,
  AT.alloc,
  AT.keyLoop [AS.lookupGrouped, AS.setPosI, AS.subsetFirst, AS.putGrouped, AS.appendCol],
  AT.declErr,
  AT.aggLoop [AS.lookupAggOrErr, AS.nameFromColumn, AS.nameFromAsIfSet, AS.setName, AS.setPosLen, AS.rejectIfPresent, AS.compute "count", AS.putNamed, AS.appendCol],
  AT.retFrame]

end QF.Gen
