/- GENERATED on every run by /verif/go/cmd/extract from /repo's source (tie T1). Do not edit. -/
import QF.Core.SExpr
namespace QF.Gen

/-- `Null` and the four appenders of the column, by signature -/
def scanMethods : List (SMeth × SX) := [
  (SMeth.null, SX.ifC (SC.kindIs SKind.invalid) (SX.incNulls SX.retNil) (SX.ifC (SC.kindIs SKind.float) (SX.append SSlice.floats SVE.nan SX.retNil) (SX.ifC (SC.kindIs SKind.string) (SX.append SSlice.strings SVE.nilPtr SX.retNil) SX.retErr))),
  (SMeth.int, SX.ifC SC.ptrNil (SX.setKind SKind.int (SX.setPtr SSlice.ints (SX.append SSlice.ints SVE.arg SX.retNil))) (SX.append SSlice.ints SVE.arg SX.retNil)),
  (SMeth.float, SX.ifC SC.ptrNil (SX.setKind SKind.float (SX.setPtr SSlice.floats (SX.ifC SC.nullsPos (SX.backfill SSlice.floats SVE.nan (SX.clearNulls (SX.ifC SC.precPos (SX.fixArg (SX.append SSlice.floats SVE.arg SX.retNil)) (SX.append SSlice.floats SVE.arg SX.retNil)))) (SX.ifC SC.precPos (SX.fixArg (SX.append SSlice.floats SVE.arg SX.retNil)) (SX.append SSlice.floats SVE.arg SX.retNil))))) (SX.ifC SC.precPos (SX.fixArg (SX.append SSlice.floats SVE.arg SX.retNil)) (SX.append SSlice.floats SVE.arg SX.retNil))),
  (SMeth.string, SX.ifC SC.ptrNil (SX.setKind SKind.string (SX.setPtr SSlice.strings (SX.ifC SC.nullsPos (SX.backfill SSlice.strings SVE.nilPtr (SX.clearNulls (SX.append SSlice.strings (SVE.addrOf SVE.arg) SX.retNil))) (SX.append SSlice.strings (SVE.addrOf SVE.arg) SX.retNil)))) (SX.append SSlice.strings (SVE.addrOf SVE.arg) SX.retNil)),
  (SMeth.bool, SX.ifC SC.ptrNil (SX.setKind SKind.bool (SX.setPtr SSlice.bools (SX.append SSlice.bools SVE.arg SX.retNil))) (SX.append SSlice.bools SVE.arg SX.retNil))]

/-- `Scan` -/
def scanAst : SX :=
  SX.ifC SC.hasCoerce SX.retCoerce (SX.ifDyn SDyn.bool (SX.call SMeth.bool SVE.arg SX.retNil) (SX.ifDyn SDyn.string (SX.call SMeth.string SVE.arg SX.retNil) (SX.ifDyn SDyn.int64 (SX.call SMeth.int (SVE.intOf SVE.arg) SX.retNil) (SX.ifDyn SDyn.bytes (SX.call SMeth.string (SVE.stringOf SVE.arg) SX.retNil) (SX.ifDyn SDyn.float64 (SX.call SMeth.float SVE.arg SX.retNil) (SX.ifDyn SDyn.null (SX.callNull SX.retErr SX.retNil) SX.retErr))))))

/-- `Data` -/
def dataAst : SX :=
  SX.ifC SC.ptrNil SX.retNoData SX.retPointee

/-- the closures the coercion functions return, named by the constant of config/sql that selects them -/
def coerceAsts : List (String × SX) := [
  ("Int64ToBool", SX.ifDyn SDyn.int64 (SX.call SMeth.bool (SVE.neZero SVE.arg) SX.retNil) SX.retErr),
  ("StringToFloat", SX.ifC SC.argNil (SX.callNull SX.retErr SX.retNil) (SX.ifDyn SDyn.string (SX.parseFloat SX.retErr (SX.call SMeth.float SVE.parsed SX.retNil)) (SX.ifDyn SDyn.bytes (SX.bindArg (SVE.stringOf SVE.arg) (SX.parseFloat SX.retErr (SX.call SMeth.float SVE.parsed SX.retNil))) SX.retErr)))]

end QF.Gen
