/- GENERATED on every run by /verif/go/cmd/extract from /repo's source (tie T1). Do not edit. -/
import QF.Core.MExpr
namespace QF.Gen

/-- `NewMatcher` of internal/strings translated to the decision tree `QF.MT`, by role; the leaves carry the `Matches` method of the matcher they return -/
def newMatcher : MT :=
  MT.ite (MC.quoteMetaNe SE.param) (MT.ite (MC.not (MC.hasPrefix SE.param [37])) (MT.ite (MC.not (MC.hasSuffix SE.param [37])) (MT.ite (MC.not MC.caseSensitive) (MT.regexp (SE.cat (SE.lit [40, 63, 105, 41]) (SE.cat (SE.cat (SE.lit [94]) SE.param) (SE.lit [36]))) (MB.regexpMatch MO.cell)) (MT.regexp (SE.cat (SE.cat (SE.lit [94]) SE.param) (SE.lit [36])) (MB.regexpMatch MO.cell))) (MT.ite (MC.not MC.caseSensitive) (MT.regexp (SE.cat (SE.lit [40, 63, 105, 41]) (SE.dropLast (SE.cat (SE.lit [94]) SE.param))) (MB.regexpMatch MO.cell)) (MT.regexp (SE.dropLast (SE.cat (SE.lit [94]) SE.param)) (MB.regexpMatch MO.cell)))) (MT.ite (MC.not (MC.hasSuffix SE.param [37])) (MT.ite (MC.not MC.caseSensitive) (MT.regexp (SE.cat (SE.lit [40, 63, 105, 41]) (SE.cat (SE.dropFirst SE.param) (SE.lit [36]))) (MB.regexpMatch MO.cell)) (MT.regexp (SE.cat (SE.dropFirst SE.param) (SE.lit [36])) (MB.regexpMatch MO.cell))) (MT.ite (MC.not MC.caseSensitive) (MT.regexp (SE.cat (SE.lit [40, 63, 105, 41]) (SE.dropLast (SE.dropFirst SE.param))) (MB.regexpMatch MO.cell)) (MT.regexp (SE.dropLast (SE.dropFirst SE.param)) (MB.regexpMatch MO.cell))))) (MT.ite (MC.not MC.caseSensitive) (MT.ite (MC.and (MC.hasPrefix SE.param [37]) (MC.hasSuffix SE.param [37])) (MT.mk (MB.contains MO.upperCell MO.matchString) (SE.trimSuffix (SE.trimPrefix (SE.upper SE.param) [37]) [37])) (MT.ite (MC.hasPrefix SE.param [37]) (MT.mk (MB.hasSuffix MO.upperCell MO.matchString) (SE.trimSuffix (SE.trimPrefix (SE.upper SE.param) [37]) [37])) (MT.ite (MC.hasSuffix SE.param [37]) (MT.mk (MB.hasPrefix MO.upperCell MO.matchString) (SE.trimSuffix (SE.trimPrefix (SE.upper SE.param) [37]) [37])) (MT.mk (MB.eq MO.upperCell MO.matchString) (SE.upper SE.param))))) (MT.ite (MC.and (MC.hasPrefix SE.param [37]) (MC.hasSuffix SE.param [37])) (MT.mk (MB.contains MO.cell MO.matchString) (SE.trimSuffix (SE.trimPrefix SE.param [37]) [37])) (MT.ite (MC.hasPrefix SE.param [37]) (MT.mk (MB.hasSuffix MO.cell MO.matchString) (SE.trimSuffix (SE.trimPrefix SE.param [37]) [37])) (MT.ite (MC.hasSuffix SE.param [37]) (MT.mk (MB.hasPrefix MO.cell MO.matchString) (SE.trimSuffix (SE.trimPrefix SE.param [37]) [37])) (MT.mk (MB.eq MO.cell MO.matchString) SE.param)))))

/-- for the reader: the `Matches` methods of the matcher types returned, (type, body) -/
def matchesAst : List (String × MB) := [
  ("CIContainsMatcher", MB.contains MO.upperCell MO.matchString),
  ("CIExactMatcher", MB.eq MO.upperCell MO.matchString),
  ("CIPrefixMatcher", MB.hasPrefix MO.upperCell MO.matchString),
  ("CISuffixMatcher", MB.hasSuffix MO.upperCell MO.matchString),
  ("ContainsMatcher", MB.contains MO.cell MO.matchString),
  ("ExactMatcher", MB.eq MO.cell MO.matchString),
  ("PrefixMatcher", MB.hasPrefix MO.cell MO.matchString),
  ("RegexpMatcher", MB.regexpMatch MO.cell),
  ("SuffixMatcher", MB.hasSuffix MO.cell MO.matchString)]

/-- FNV-1a hashes of the bodies of the package functions `func(*[]byte, string) string` that the `Matches` methods call on (&buffer, cell) -/
def matcherUpper : List Nat := [3362914904645384789]

end QF.Gen
