/- GENERATED on every run by /verif/go/cmd/extract from /repo's source (tie T1). Do not edit. -/
import QF.Core.IExpr
namespace QF.Gen

/-- the function of internal/io that makes the data of one column from its cell texts (`columnToData`) -/
def columnToDataAst : IS :=
  IS.declErr (IS.readType (IS.ifThen (IC.and IC.noRows (IC.typeIs "")) IS.retEmpty (IS.ifThen (IC.or (IC.typeIs "int") (IC.typeIs "")) (IS.makeAcc IKind.int (IS.loop (IS.parse IParser.atoi (IS.ifThen IC.callFailed (IS.setErr IS.brk) (IS.append IKind.int IS.done))) (IS.ifThen IC.errNil (IS.retAcc IKind.int) (IS.ifThen (IC.typeIs "int") IS.retErr IS.done)))) (IS.ifThen (IC.or (IC.typeIs "float") (IC.typeIs "")) (IS.clearErr (IS.makeAcc IKind.float (IS.loop (IS.ifThen IC.cellEmpty (IS.appendNaN IS.cont) (IS.parse IParser.float64 (IS.ifThen IC.callFailed (IS.setErr IS.brk) (IS.append IKind.float IS.done)))) (IS.ifThen IC.errNil (IS.retAcc IKind.float) (IS.ifThen (IC.typeIs "float") IS.retErr IS.done))))) (IS.ifThen (IC.or (IC.typeIs "bool") (IC.typeIs "")) (IS.clearErr (IS.makeAcc IKind.bool (IS.loop (IS.parse IParser.bool (IS.ifThen IC.callFailed (IS.setErr IS.brk) (IS.append IKind.bool IS.done))) (IS.ifThen IC.errNil (IS.retAcc IKind.bool) (IS.ifThen (IC.typeIs "bool") IS.retErr IS.done))))) (IS.ifThen (IC.or (IC.typeIs "string") (IC.typeIs "")) (IS.makePtrs (IS.loop (IS.ifElse (IC.and IC.cellEmpty IC.emptyNull) (IS.setPtr true IS.done) (IS.setPtr false IS.done) IS.done) IS.retBlob)) (IS.ifThen (IC.typeIs "enum") (IS.lookupValues (IS.deleteValues (IS.newFactory (IS.ifThen IC.callFailed IS.retCallErr (IS.loop (IS.ifElse (IC.and IC.cellEmpty IC.emptyNull) (IS.facAppendNil IS.done) (IS.facAppendBytes (IS.ifThen IC.callFailed IS.retErr IS.done)) IS.done) IS.retColumn))))) IS.retErr)))))))

end QF.Gen
