/- GENERATED on every run by /verif/go/cmd/extract from /repo's source (tie T1). Do not edit. -/
import QF.Core.FExpr
namespace QF.Gen

/-- the functions of package function translated to the expression language `QF.FE`, by role: (qualified name, term) -/
def functionAst : List (String × FE) := [
  ("function.AbsI", FE.ite (FE.cmp "<" FE.x (FE.intLit 0)) (FE.neg FE.x) FE.x),
  ("function.AndB", FE.and FE.x FE.y),
  ("function.BoolI", FE.cmp "!=" FE.x (FE.intLit 0)),
  ("function.ConcatS", FE.ite (FE.cmp "==" FE.x FE.nil) FE.y (FE.ite (FE.cmp "==" FE.y FE.nil) FE.x (FE.addr (FE.add (FE.deref FE.x) (FE.deref FE.y))))),
  ("function.DivF", FE.div FE.x FE.y),
  ("function.DivI", FE.div FE.x FE.y),
  ("function.FloatI", FE.toFloat FE.x),
  ("function.IntB", FE.ite FE.x (FE.intLit 1) (FE.intLit 0)),
  ("function.IntF", FE.toInt FE.x),
  ("function.LenS", FE.ite (FE.cmp "==" FE.x FE.nil) (FE.intLit 0) (FE.strLen (FE.deref FE.x))),
  ("function.LowerS", FE.ite (FE.cmp "==" FE.x FE.nil) FE.nil (FE.addr (FE.ext "strings.ToLower" (FE.deref FE.x)))),
  ("function.MinusF", FE.sub FE.x FE.y),
  ("function.MinusI", FE.sub FE.x FE.y),
  ("function.MulF", FE.mul FE.x FE.y),
  ("function.MulI", FE.mul FE.x FE.y),
  ("function.NandB", FE.not (FE.and FE.x FE.y)),
  ("function.NotB", FE.not FE.x),
  ("function.OrB", FE.or FE.x FE.y),
  ("function.PlusF", FE.add FE.x FE.y),
  ("function.PlusI", FE.add FE.x FE.y),
  ("function.StrB", FE.addr (FE.formatBool FE.x)),
  ("function.StrF", FE.addr (FE.sprintf "%f" FE.x)),
  ("function.StrI", FE.addr (FE.itoa FE.x)),
  ("function.StrS", FE.x),
  ("function.UpperS", FE.ite (FE.cmp "==" FE.x FE.nil) FE.nil (FE.addr (FE.ext "strings.ToUpper" (FE.deref FE.x)))),
  ("function.XorB", FE.or (FE.and FE.x (FE.not FE.y)) (FE.and (FE.not FE.x) FE.y))]

end QF.Gen
