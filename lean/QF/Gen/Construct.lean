/- GENERATED on every run by /verif/go/cmd/extract from /repo's source (tie T1). Do not edit. -/
import QF.Core.Factory
import QF.Core.Construct
namespace QF.Gen

/-- the function that makes the factory (`NewFactory`) -/
def factoryInit : List FI := [FI.rejectIfLen FCmp.gt 255, FI.nilToEmpty, FI.mapFromValues 256, FI.build FCmp.gt 0]

/-- the methods of the factory with the calls of other methods inlined, by the role of their signature (str: `string`, bytes: `[]byte`,
ptr: `*string`, code: the element type of the look-up map); sorted by (role, term) -/
def factoryMethods : List (String × FT) := [
  ("() → ()", FT.push (FCode.lit 255) FT.retNil),
  ("(bytes) → (error)", FT.ifSeen (FT.push FCode.seen FT.retNil) (FT.ifStrict FT.retErr (FT.ifCard FCmp.ge 255 FT.retErr (FT.letLen 256 (FT.appendValue (FT.mapPut FCode.fresh (FT.push FCode.fresh FT.retNil))))))),
  ("(code) → ()", FT.push FCode.param FT.retNil),
  ("(ptr) → (code, error)", FT.ifNil (FT.retCode (FCode.lit 255)) (FT.ifSeen (FT.retCode FCode.seen) (FT.ifStrict FT.retErr (FT.ifCard FCmp.ge 255 FT.retErr (FT.letLen 256 (FT.appendValue (FT.mapPut FCode.fresh (FT.retCode FCode.fresh)))))))),
  ("(str) → (code)", FT.letLen 256 (FT.appendValue (FT.mapPut FCode.fresh (FT.retCode FCode.fresh)))),
  ("(str) → (error)", FT.ifSeen (FT.push FCode.seen FT.retNil) (FT.ifStrict FT.retErr (FT.ifCard FCmp.ge 255 FT.retErr (FT.letLen 256 (FT.appendValue (FT.mapPut FCode.fresh (FT.push FCode.fresh FT.retNil))))))),
  ("(str) → (error)", FT.ifStrict FT.retErr (FT.ifCard FCmp.ge 255 FT.retErr (FT.letLen 256 (FT.appendValue (FT.mapPut FCode.fresh (FT.push FCode.fresh FT.retNil))))))]

/-- the constructor from cells (`New(data []*string, values []string) (Column, error)`), method bodies inlined -/
def factoryNew : FL := FL.init (FL.forEachCell (FT.push (FCode.lit 255) FT.retNil) (FT.ifSeen (FT.push FCode.seen FT.retNil) (FT.ifStrict FT.retErr (FT.ifCard FCmp.ge 255 FT.retErr (FT.letLen 256 (FT.appendValue (FT.mapPut FCode.fresh (FT.push FCode.fresh FT.retNil))))))) FL.retColumn)

/-- the constructor of a constant column (`NewConst(val *string, count int, values []string) (Column, error)`) -/
def factoryNewConst : FL := FL.init (FL.codeOf (FT.ifNil (FT.retCode (FCode.lit 255)) (FT.ifSeen (FT.retCode FCode.seen) (FT.ifStrict FT.retErr (FT.ifCard FCmp.ge 255 FT.retErr (FT.letLen 256 (FT.appendValue (FT.mapPut FCode.fresh (FT.retCode FCode.fresh)))))))) (FL.repeatPush (FT.push FCode.param FT.retNil) FL.retColumn))

/-- the function the loop of `New` calls to make a column (`createColumn`), executed for every kind of data value: (kind, term) -/
def createColumnAst : List (DKind × CK) := [
  (DKind.ints, CK.make (Ctor.cells CType.int) CK.retCol),
  (DKind.floats, CK.make (Ctor.cells CType.float) CK.retCol),
  (DKind.bools, CK.make (Ctor.cells CType.bool) CK.retCol),
  (DKind.strs, CK.strsToPtrs (CK.lookupEnum (CK.makeEnum ECtor.cells CK.retErr (CK.consume CK.retCol)) (CK.make (Ctor.cells CType.string) CK.retCol))),
  (DKind.ptrs, CK.lookupEnum (CK.makeEnum ECtor.cells CK.retErr (CK.consume CK.retCol)) (CK.make (Ctor.cells CType.string) CK.retCol)),
  (DKind.constInt, CK.ifCountNeg CK.retErr (CK.make (Ctor.const CType.int) CK.retCol)),
  (DKind.constFloat, CK.ifCountNeg CK.retErr (CK.make (Ctor.const CType.float) CK.retCol)),
  (DKind.constBool, CK.ifCountNeg CK.retErr (CK.make (Ctor.const CType.bool) CK.retCol)),
  (DKind.constStr, CK.ifCountNeg CK.retErr (CK.lookupEnum (CK.makeEnum ECtor.const CK.retErr (CK.consume CK.retCol)) (CK.make (Ctor.const CType.string) CK.retCol))),
  (DKind.ecol, CK.make Ctor.given CK.retCol),
  (DKind.blob, CK.make Ctor.blob CK.retCol),
  (DKind.col, CK.make Ctor.given CK.retCol),
  (DKind.other, CK.retErr)]

/-- `New` from the end of its guard prefix on -/
def newTailAst : List NS := [
  NS.alloc,
  NS.initLens 0 0,
  NS.loop [LS.create, LS.store, LS.setCurrent, LS.ifThen (LCond.eq LInt.i (LInt.lit 0)) LS.setFirst, LS.rejectIf (LCond.ne LInt.first LInt.current)],
  NS.rejectIfEnumsLeft,
  NS.retFrame (LInt.u32 LInt.current)]

/-- the default column order is sorted: `sort.Strings` is the last thing done to it in the block that fills it -/
def newOrderSorted : Bool := true

end QF.Gen
