/- GENERATED on every run by /verif/go/cmd/extract from /repo's source (tie T1). Do not edit. -/
import QF.Core.WExpr
namespace QF.Gen

/-- `QFrame.ToJSON` after its guard, as a byte template program -/
def toJsonAst : JS :=
  JS.prep JSrc.quotedName (JS.setBuf [91] (JS.write (JS.forRows (JS.reset (JS.ifRowPos (JS.emit (JSrc.lit [44]) JS.done) (JS.emit (JSrc.lit [123]) (JS.forCols (JS.emit JSrc.prepared (JS.emit (JSrc.lit [58]) (JS.emitCell (JS.emit (JSrc.lit [44]) JS.done)))) (JS.stripIfLast 44 (JS.emit (JSrc.lit [125]) (JS.write JS.done))))))) (JS.writeLitRet [93]))))

/-- `QFrame.ToCSV` after the configuration is fetched and the frame's error is checked, as a record program -/
def toCsvAst : CW :=
  CW.ifGiven (CW.rejectIfLenNe (CW.selAlloc (CW.forGiven (CW.lookupGiven CW.retErr (CW.selSet CW.done) CW.done) CW.done))) (CW.selFrame CW.done) (CW.recNew (CW.forSel (CW.recPush CWItem.selName CW.done) (CW.colsNew (CW.forRec (CW.colsPush CWItem.recLookup CW.done) (CW.newWriter (CW.ifHeader (CW.writeRec CW.done) (CW.forRows (CW.recReset (CW.forResolved (CW.recPush (CWItem.cellString []) CW.done) (CW.writeRec CW.done))) (CW.flush CW.retWriterErr))))))))

/-- `fixLengthString(s, pad, desiredLen)` as a decision tree -/
def fixLengthAst : FX :=
  FX.ite ICmp.gt FXI.lenS FXI.w (FX.ret (FXS.cat (FXS.sliceTo FXS.s (FXI.sub FXI.w (FXI.lit 3))) (FXS.lit [46, 46, 46]))) (FX.ite ICmp.gt (FXI.sub FXI.w FXI.lenS) (FXI.lit 0) (FX.ret (FXS.cat (FXS.rep FXS.pad (FXI.sub FXI.w FXI.lenS)) FXS.s)) (FX.ret FXS.s))

/-- `Max(x, y)` / `Min(x, y)` of internal/math/integer -/
def intMaxAst : IE := IE.ite ICmp.gt IE.x IE.y IE.x IE.y
def intMinAst : IE := IE.ite ICmp.lt IE.x IE.y IE.x IE.y

/-- the string `Column.DataType()` of every column package returns (constants of package types resolved): (package, bytes) -/
def dataTypeNames : List (String × Bytes) := [("icolumn", [105, 110, 116]), ("fcolumn", [102, 108, 111, 97, 116]), ("bcolumn", [98, 111, 111, 108]), ("scolumn", [115, 116, 114, 105, 110, 103]), ("ecolumn", [101, 110, 117, 109])]

/-- `QFrame.String` after its guard, as a layout program -/
def stringAst : PS :=
  PS.allocResult (PS.allocRow (PS.allocWidths (PS.forCols (PS.setWidth (PE.max (PE.len (PE.cat (PE.cat (PE.cat PE.colName (PE.str [40])) (PE.sliceTo 1 PE.typeName)) (PE.str [41]))) (PE.num 5)) (PS.setRow (PE.fix (PE.cat (PE.cat (PE.cat PE.colName (PE.str [40])) (PE.sliceTo 1 PE.typeName)) (PE.str [41])) (PE.str [32]) PE.width) PS.done)) (PS.pushJoin [32] (PS.forCols (PS.setRow (PE.fix (PE.str []) (PE.str [45]) PE.width) PS.done) (PS.pushJoin [32] (PS.forRowsTo (PE.min PE.nrows (PE.num 50)) (PS.forCols (PS.setRow (PE.fix (PE.cellStr [110, 117, 108, 108]) (PE.str [32]) PE.width) PS.done) (PS.pushJoin [32] PS.done)) (PS.ifGt PE.nrows (PE.num 50) (PS.push (PE.str [46, 46, 46, 32, 112, 114, 105, 110, 116, 111, 117, 116, 32, 116, 114, 117, 110, 99, 97, 116, 101, 100, 32, 46, 46, 46]) PS.done) (PS.push (PE.cat (PE.cat (PE.cat (PE.str [10, 68, 105, 109, 115, 32, 61, 32]) (PE.itoa PE.ncols)) (PE.str [32, 120, 32])) (PE.itoa PE.nrows)) (PS.retJoin [10]))))))))))

end QF.Gen
