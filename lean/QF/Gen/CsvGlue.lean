/- GENERATED on every run by /verif/go/cmd/extract from /repo's source (tie T1). Do not edit. -/
import QF.Core.CGExpr
namespace QF.Gen

/-- the function ([][]byte) bool of internal/io (`isEmptyLine`) -/
def isEmptyLineAst : CGB :=
  CGB.and (CGB.lenIs 1) (CGB.lenAtIs 0 0)

/-- the function ([]string, string) []string of internal/io (`addAliasToMissingColumnNames`) -/
def addAliasAst : CGA :=
  CGA.rangeHeaders (CGA.ifNameEmpty (CGA.setAlias CGA.done) CGA.done) CGA.retHeaders

/-- the function ([]string) []string of internal/io (`renameDuplicateColumns`) -/
def renameDupAst : CGR :=
  CGR.newMap (CGR.rangeHeaders (CGR.lookupH (CGR.ifNotOk (CGR.setMapH CGR.done) CGR.done)) (CGR.rangeHeaders (CGR.lookupH (CGR.ifOtherIndex (CGR.zeroCounter (CGR.forever (CGR.bindCandidate (CGR.lookupCandidate (CGR.ifOk (CGR.incCounter CGR.done) (CGR.setHeaderCandidate (CGR.setMapCurrent CGR.brk)) CGR.done))) CGR.done)) CGR.done)) CGR.retHeaders))

/-- the function ([][]P, int) of internal/io (`resizeColPointers`) -/
def resizePointersAst : CGZ :=
  CGZ.rangeSlices (CGZ.ifCapLess (CGZ.makeNew (CGZ.appendAll (CGZ.store CGZ.done))) CGZ.done) CGZ.done

/-- the function ([][]byte, int, int) of internal/io (`resizeColBytes`) -/
def resizeBytesAst : CGZ :=
  CGZ.rangeSlices (CGZ.bindEstimate (CGZ.ifCapLess (CGZ.makeNew (CGZ.appendAll (CGZ.store CGZ.done))) CGZ.done)) CGZ.done

/-- the function (io.Reader, <config>) (map[string]interface{}, []string, error) of internal/io (`ReadCSV`) -/
def readCsvAst : CG :=
  CG.newReader (CG.headersFromConf (CG.ifNoHeaders (CG.readHeader CG.retErr (CG.makeHeaders (CG.rangeHeaders (CG.setHeaderFromRecord CG.done) CG.done))) (CG.makePointers (CG.rangeHeaders (CG.setEmptyPointers CG.done) (CG.makeBytes (CG.initRow (CG.initNonEmpty (CG.forNext (CG.ifReaderErr CG.retErr (CG.incRow (CG.bindFields (CG.ifWrongWidth (CG.ifEmptyIgnored CG.cont CG.retErr) (CG.ifEmptyIgnored CG.cont (CG.rangeFields (CG.appendField CG.done) (CG.incNonEmpty (CG.ifResizeDue (CG.resizeBytes (CG.resizePointers CG.done)) CG.done)))))))) (CG.ifReaderErr CG.retErr (CG.ifAlias (CG.applyAlias CG.done) (CG.ifRename (CG.applyRename CG.done) (CG.makeDataMap (CG.rangeHeadersData (CG.toData CG.retErr (CG.setData CG.done)) (CG.ifEnumsLeft CG.retErr (CG.ifFewerKeys (CG.buildDupMessage CG.retErr) CG.retOk)))))))))))))))

/-- the function (io.Reader, ...ConfigFunc) QFrame of the root package that calls it (`ReadCSV`) -/
def readCsvEntryAst : CGU :=
  CGU.newConfig (CGU.readCsv CGU.retErrFrame CGU.retNewOrdered)

end QF.Gen
