/- GENERATED on every run by /verif/go/cmd/extract from /repo's source (tie T1). Do not edit. -/
import QF.Core.HExpr
namespace QF.Gen

/-- `Comparable.Hash` of every column package as a term of `QF.HE`, by role: (package, term) -/
def hashAst : List (String × HE) := [
  ("icolumn", HE.hashBytes HB.rawInt),
  ("fcolumn", HE.ite (HCond.and HCond.isNaN (HCond.fieldEq CField.equalNull CRes.notEqual)) HE.random (HE.hashBytes (HB.floatBits true true))),
  ("bcolumn", HE.ite HCond.isTrue (HE.hashBytes (HB.oneByte 1)) (HE.hashBytes (HB.oneByte 0))),
  ("scolumn", HE.ite HCond.isNull (HE.ite (HCond.fieldEq CField.equalNull CRes.notEqual) HE.random (HE.hashBytes (HB.oneByte 0))) (HE.hashBytes HB.strBytes)),
  ("ecolumn", HE.hashBytes HB.enumCode)]

end QF.Gen
