/- GENERATED on every run by /verif/go/cmd/extract from /repo's source (tie T1). Do not edit. -/
import QF.Core.SortGlue
namespace QF.Gen
open QF.SG

/-- the method of QFrame `(...Order) QFrame` (`Sort`), `withErr` / `withIndex` inlined -/
def sortAst : SO := SO.ifRecvErr Out.recv (SO.ifNoOrders Out.recv (SO.makeCmps (SO.forOrders [SB.lookup NSrc.ordCol, SB.ifMissing Out.recvWithErr, SB.appendCmp BSrc.ordReverse (BSrc.lit false) BSrc.ordNullLast] (SO.withIndex ISrc.recvIndexCopy (SO.newSorter ISrc.newIndex (SO.sort (SO.ret Out.newFrame)))))))

/-- the function of internal/sort `(index.Int, []column.Comparable) Sorter` (`New`) -/
def sorterNewAst : SN := SN.lit SNSrc.ixParam SNSrc.colsParam

/-- the method of QFrame `([]string, []Order, bool) []column.Comparable` (`comparables`, the helper of `GroupBy` and `Distinct`) -/
def comparablesAst : CH := CH.forLen LSrc.columns [CB.append (some NSrc.ordCol) (BSrc.lit false) BSrc.param (BSrc.lit false)]

/-- the method of QFrame `([]string) []Order` (`orders`) -/
def ordersAst : OH := OH.perColumn false false

/-- the method of QFrame `(fn, string, string) QFrame` (`apply1`) -/
def apply1GlueAst : AP := AP.ifRecvErr AOut.recv (AP.lookup Slot.a AName.src1 (AP.ifMissing Slot.a AOut.recvWithErr (AP.apply1 Slot.a AIx.recvIndex (AP.ifErr AOut.recvWithErr (AP.wrap [(STy.ints, WRes.newOf CType.int), (STy.floats, WRes.newOf CType.float), (STy.bools, WRes.newOf CType.bool), (STy.strs, WRes.newOf CType.string), (STy.column, WRes.itself)] AOut.recvWithErr (AP.retSet AName.dst RSrc.wrapped))))))

/-- the method of QFrame `(fn, string, string, string) QFrame` (`apply2`) -/
def apply2GlueAst : AP := AP.ifRecvErr AOut.recv (AP.lookup Slot.a AName.src1 (AP.ifMissing Slot.a AOut.recvWithErr (AP.lookup Slot.b AName.src2 (AP.ifMissing Slot.b AOut.recvWithErr (AP.apply2 Slot.a Slot.b AIx.recvIndex (AP.ifErr AOut.recvWithErr (AP.retSet AName.dst RSrc.result)))))))

/-- the error returns of `createColumn`, in source order: (where, the error value) -/
def createColumnErrs : List (ESite × EV) := [
  (ESite.negativeCount, EV.new "createColumn" [EPiece.lit "negative count ", EPiece.arg "%d" EArg.count, EPiece.lit " for constant column \"", EPiece.arg "%s" EArg.name, EPiece.lit "\""]),
  (ESite.enumCells, EV.propagate [EPiece.lit "New columns ", EPiece.arg "%s" EArg.name]),
  (ESite.enumConst, EV.propagate [EPiece.lit "New columns ", EPiece.arg "%s" EArg.name]),
  (ESite.unknownType, EV.new "createColumn" [EPiece.lit "unknown column data type \"", EPiece.arg "%s" EArg.typeOfData, EPiece.lit "\" for column \"", EPiece.arg "%s" EArg.name, EPiece.lit "\""])]

/-- the function `(*sql.Tx, []interface{}, ...qsql.ConfigFunc) QFrame` (`ReadSQLWithArgs`) -/
def readSqlArgsAst : RS := RS.newConfig (RS.prepare (RS.ifErr RErr.callErr (RS.deferClose (RS.query true (RS.ifErr RErr.callErr (RS.readSql (RS.ifErr RErr.callErr (RS.retNew true))))))))

end QF.Gen
