/- GENERATED on every run by /verif/go/cmd/extract from /repo's source (tie T1). Do not edit. -/
import QF.Core.CExpr
namespace QF.Gen

/-- the constants of `column.CompareResult` in declaration order (`iota`): the first is the zero value -/
def compareResultConsts : List String := ["LessThan", "GreaterThan", "Equal", "NotEqual"]

/-- `Comparable.Compare` of every column package as a decision tree `QF.CE`, by role: (package, term) -/
def compareAst : List (String × CE) := [
  ("icolumn", CE.ite CCond.xLtY (CE.ret (CRet.field CField.lt)) (CE.ite CCond.xGtY (CE.ret (CRet.field CField.gt)) (CE.ret (CRet.const CRes.equal)))),
  ("fcolumn", CE.ite CCond.xLtY (CE.ret (CRet.field CField.lt)) (CE.ite CCond.xGtY (CE.ret (CRet.field CField.gt)) (CE.ite (CCond.or CCond.xNaN CCond.yNaN) (CE.ite (CCond.not CCond.xNaN) (CE.ret (CRet.field CField.nullGt)) (CE.ite (CCond.not CCond.yNaN) (CE.ret (CRet.field CField.nullLt)) (CE.ret (CRet.field CField.equalNull)))) (CE.ret (CRet.const CRes.equal))))),
  ("bcolumn", CE.ite CCond.xEqY (CE.ret (CRet.const CRes.equal)) (CE.ite CCond.xTrue (CE.ret (CRet.field CField.gt)) (CE.ret (CRet.field CField.lt)))),
  ("scolumn", CE.ite (CCond.or CCond.xNull CCond.yNull) (CE.ite (CCond.not CCond.xNull) (CE.ret (CRet.field CField.nullGt)) (CE.ite (CCond.not CCond.yNull) (CE.ret (CRet.field CField.nullLt)) (CE.ret (CRet.field CField.equalNull)))) (CE.ite CCond.xLtY (CE.ret (CRet.field CField.lt)) (CE.ite CCond.xGtY (CE.ret (CRet.field CField.gt)) (CE.ret (CRet.const CRes.equal))))),
  ("ecolumn", CE.ite (CCond.or CCond.xNull CCond.yNull) (CE.ite (CCond.not CCond.xNull) (CE.ret (CRet.field CField.nullGt)) (CE.ite (CCond.not CCond.yNull) (CE.ret (CRet.field CField.nullLt)) (CE.ret (CRet.field CField.equalNull)))) (CE.ite CCond.xLtY (CE.ret (CRet.field CField.lt)) (CE.ite CCond.xGtY (CE.ret (CRet.field CField.gt)) (CE.ret (CRet.const CRes.equal)))))]

/-- `Column.Comparable(reverse, equalNull, nullLast)` of every column package: the assignments to the result fields -/
def comparableFields : List (String × List FStmt) := [
  ("icolumn", [
    FStmt.assign [] [CField.lt, CField.gt, CField.nullLt, CField.nullGt, CField.equalNull] [CRet.const CRes.lessThan, CRet.const CRes.greaterThan, CRet.const CRes.lessThan, CRet.const CRes.greaterThan, CRet.const CRes.notEqual],
    FStmt.assign [(CFlag.reverse, true)] [CField.lt, CField.nullLt, CField.gt, CField.nullGt] [CRet.field CField.gt, CRet.field CField.nullGt, CRet.field CField.lt, CRet.field CField.nullLt],
    FStmt.assign [(CFlag.nullLast, true)] [CField.nullLt, CField.nullGt] [CRet.field CField.nullGt, CRet.field CField.nullLt],
    FStmt.assign [(CFlag.equalNull, true)] [CField.equalNull] [CRet.const CRes.equal]]),
  ("fcolumn", [
    FStmt.assign [] [CField.lt, CField.gt, CField.nullLt, CField.nullGt, CField.equalNull] [CRet.const CRes.lessThan, CRet.const CRes.greaterThan, CRet.const CRes.lessThan, CRet.const CRes.greaterThan, CRet.const CRes.notEqual],
    FStmt.assign [(CFlag.reverse, true)] [CField.lt, CField.nullLt, CField.gt, CField.nullGt] [CRet.field CField.gt, CRet.field CField.nullGt, CRet.field CField.lt, CRet.field CField.nullLt],
    FStmt.assign [(CFlag.nullLast, true)] [CField.nullLt, CField.nullGt] [CRet.field CField.nullGt, CRet.field CField.nullLt],
    FStmt.assign [(CFlag.equalNull, true)] [CField.equalNull] [CRet.const CRes.equal]]),
  ("bcolumn", [
    FStmt.assign [] [CField.lt, CField.gt, CField.nullLt, CField.nullGt, CField.equalNull] [CRet.const CRes.lessThan, CRet.const CRes.greaterThan, CRet.const CRes.lessThan, CRet.const CRes.greaterThan, CRet.const CRes.notEqual],
    FStmt.assign [(CFlag.reverse, true)] [CField.lt, CField.nullLt, CField.gt, CField.nullGt] [CRet.field CField.gt, CRet.field CField.nullGt, CRet.field CField.lt, CRet.field CField.nullLt],
    FStmt.assign [(CFlag.nullLast, true)] [CField.nullLt, CField.nullGt] [CRet.field CField.nullGt, CRet.field CField.nullLt],
    FStmt.assign [(CFlag.equalNull, true)] [CField.equalNull] [CRet.const CRes.equal]]),
  ("scolumn", [
    FStmt.assign [] [CField.lt, CField.gt, CField.nullLt, CField.nullGt, CField.equalNull] [CRet.const CRes.lessThan, CRet.const CRes.greaterThan, CRet.const CRes.lessThan, CRet.const CRes.greaterThan, CRet.const CRes.notEqual],
    FStmt.assign [(CFlag.reverse, true)] [CField.lt, CField.nullLt, CField.gt, CField.nullGt] [CRet.field CField.gt, CRet.field CField.nullGt, CRet.field CField.lt, CRet.field CField.nullLt],
    FStmt.assign [(CFlag.nullLast, true)] [CField.nullLt, CField.nullGt] [CRet.field CField.nullGt, CRet.field CField.nullLt],
    FStmt.assign [(CFlag.equalNull, true)] [CField.equalNull] [CRet.const CRes.equal]]),
  ("ecolumn", [
    FStmt.assign [] [CField.lt, CField.gt, CField.nullLt, CField.nullGt, CField.equalNull] [CRet.const CRes.lessThan, CRet.const CRes.greaterThan, CRet.const CRes.lessThan, CRet.const CRes.greaterThan, CRet.const CRes.notEqual],
    FStmt.assign [(CFlag.reverse, true)] [CField.lt, CField.nullLt, CField.gt, CField.nullGt] [CRet.field CField.gt, CRet.field CField.nullGt, CRet.field CField.lt, CRet.field CField.nullLt],
    FStmt.assign [(CFlag.nullLast, true)] [CField.nullLt, CField.nullGt] [CRet.field CField.nullGt, CRet.field CField.nullLt],
    FStmt.assign [(CFlag.equalNull, true)] [CField.equalNull] [CRet.const CRes.equal]])]

end QF.Gen
