/- GENERATED on every run by /verif/go/cmd/extract from /repo's source (tie T1). Do not edit. -/
import QF.Core.SRExpr
namespace QF.Gen

/-- the function (*sql.Rows, <config>) (map[string]X, []string, error) of internal/io/sql (`ReadSQL`) -/
def readSqlAst : SR :=
  SR.declVars (SR.forNext (SR.ifColumnsNil (SR.getColumns SR.retErr (SR.rangeNames (SR.newColumn (SR.ifCoerceMap (SR.lookupCoerce (SR.ifOk (SR.setCoerce SR.done) SR.done)) (SR.appendColumn SR.done))) (SR.setColNames (SR.ifCoerceMap (SR.rangeCoerceKeys (SR.rangeColNames (SR.ifNameIsColName SR.continueOuter SR.done) SR.retErr) SR.done) SR.done)))) (SR.scanRow SR.retErr SR.done)) (SR.checkRowsErr SR.retErr (SR.newResult (SR.rangeColumns (SR.setResult SR.done) SR.retResult))))

end QF.Gen
