/- GENERATED on every run by /verif/go/cmd/extract from /repo's source (tie T1). Do not edit. -/
import QF.Core.FAExpr
namespace QF.Gen

/-- `QFrame.FilteredApply` as statements on frame VALUES (`QF.FAStm`), by role -/
def fapplyAst : List FAStm := [
  FAStm.decl (FAFr.filter FAFr.recv),
  FAStm.retIfErr (FAFr.loc 0) (FAFr.loc 0),
  FAStm.decl FAFr.recv,
  FAStm.setIndex 1 (FAFr.loc 0),
  FAStm.assign 1 (FAFr.applyParam (FAFr.loc 1)),
  FAStm.setIndex 1 FAFr.recv,
  FAStm.ret (FAFr.loc 1)]

/-- `QFrame.WithRowNums`; the int local in front of the call is the state of the closure that captures it -/
def rowNumsFnAst : List FAStm := [
  FAStm.ret (FAFr.applyLits FAFr.recv [{ dst := FAName.param, src1 := FAName.unset, src2 := FAName.unset, fn := FAFnLit.counter (-1) CType.int [FACStm.inc, FACStm.ret] }])]

/-- the built-in functions `Column.Apply1` of the string column hands a `string` function value to: (key of the package-level map the `case string:` consults, the function the entry names as a term of `QF.SUFn`) -/
def supperTable : List (String × SUFn) := [
  ("ToUpper",
    { emptyReturnsSource := true, ptrInit := SUPtrInit.fresh SULen.srcPtrs, dataInit := SUDataInit.empty, cellAt := LIdx.row,
      body := [SUAct.setPtr LIdx.row SUInt.dataLen (SUInt.strLen (SUStr.upper SUBuf.fresh SUStr.cell)) SUFlag.cellNull, SUAct.appendStr (SUStr.upper SUBuf.fresh SUStr.cell)],
      ret := SURet.col SURef.new SURef.new })]

/-- … of the enum column, as terms of `QF.EUFn` -/
def eupperTable : List (String × EUFn) := [
  ("ToUpper",
    { ixUsed := false, valsInit := LGInit.empty, mapFresh := true, mappingLen := EULen.srcVals,
      loop1 := [
        EUStm.do (EUAct.bindStr (EUStr.upper EUStr.elem)),
        EUStm.do (EUAct.lookup EUStr.loc),
        EUStm.when EUCond.notFound [EUAct.setReg EUCode.valsLen, EUAct.mapPut EUStr.loc EUCode.reg, EUAct.pushVal EUStr.loc],
        EUStm.do (EUAct.storeMapping EUCode.reg)],
      fast := EUFast.ifSameLen (EURet.col SURef.source SURef.new EUStrict.unset),
      dataInit := EUDataInit.fresh EULen.srcData,
      loop2 := [
        EUStm.when EUCond.regNotNull [EUAct.setReg (EUCode.mappingAt EUCode.reg)],
        EUStm.do (EUAct.storeData EUCode.reg)],
      ret := EURet.col SURef.new SURef.new EUStrict.unset })]

/-- what `Apply1` passes to the entry it found, by role: (package, arguments) -/
def builtinCallArgs : List (String × String) := [("scolumn", "ix,recv"), ("ecolumn", "ix,recv")]

end QF.Gen
