/- GENERATED on every run by /verif/go/cmd/extract from /repo's source (tie T1). Do not edit. -/
import QF.Core.EnumRest
namespace QF.Gen
open QF.ER

/-- the code type (`enumVal`) is an unsigned type of this many bits -/
def enumCodeBits : Nat := 8

/-- the bitset is an array of `bitsetWords` unsigned words of `bitsetWordBits` bits -/
def bitsetWords : Nat := 4
def bitsetWordBits : Nat := 64

/-- the method of the bitset `(code)` without result (`set`) -/
def bitsetSet : List BS := [BS.store (W.shr W.code (W.lit 6)) (W.bor (W.word (W.shr W.code (W.lit 6))) (W.shl 64 (W.lit 1) (W.band W.code (W.lit 63))))]

/-- the method of the bitset `(code) bool` (`isSet`) -/
def bitsetIsSet : List BS := [BS.retCmp Cmp.gt (W.band (W.word (W.shr W.code (W.lit 6))) (W.shl 64 (W.lit 1) (W.band W.code (W.lit 63)))) (W.lit 0)]

/-- the method of the code type `() bool` (`isNull`) -/
def enumIsNull : List BS := [BS.retCmp Cmp.eq W.code (W.lit 255)]

/-- the method of the code type `() int` (`compVal`) -/
def enumCompVal : CV := CV.ifCode Cmp.eq 255 (CV.retInt (-1)) CV.retCode

/-- the method of Column `(index.Int) Column` (`subset`) -/
def enumSubset : List SS := [SS.makeCells SLen.zero, SS.rangeAppend SE.cellAtVal, SS.ret SF.fresh SF.recvValues SF.recvStrict]

/-- the method of Column `(index.Int) column.Column` (`Subset`) -/
def enumSubsetExported : List SS := [SS.retSubset]

end QF.Gen
