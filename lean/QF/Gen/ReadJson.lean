/- GENERATED on every run by /verif/go/cmd/extract from /repo's source (tie T1). Do not edit. -/
import QF.Core.JRExpr
namespace QF.Gen

/-- the functions ([]T, R, string) error of internal/io that fill a column slice from the records, by T -/
def fillAsts : List (JRElem × JR) := [
  (JRElem.int, JR.rangeCol (JR.bindRecord JRIx.loopVar (JR.lookup (JR.ifNotOk JR.retErr (JR.assertTy JRDyn.int (JR.ifNotOk JR.retErr (JR.store JR.done)))))) JR.retNil),
  (JRElem.float64, JR.rangeCol (JR.bindRecord JRIx.loopVar (JR.lookup (JR.ifNotOk JR.retErr (JR.assertTy JRDyn.float64 (JR.ifNotOk JR.retErr (JR.store JR.done)))))) JR.retNil),
  (JRElem.bool, JR.rangeCol (JR.bindRecord JRIx.loopVar (JR.lookup (JR.ifNotOk JR.retErr (JR.assertTy JRDyn.bool (JR.ifNotOk JR.retErr (JR.store JR.done)))))) JR.retNil),
  (JRElem.strptr, JR.rangeCol (JR.bindRecord JRIx.loopVar (JR.lookup (JR.ifNotOk JR.retErr (JR.caseTy [JRDyn.string] (JR.storeAddr JR.done) (JR.caseTy [JRDyn.null] (JR.storeNil JR.done) JR.retErr))))) JR.retNil)]

/-- the function (R) (map[string]interface{}, error) of internal/io (`jsonRecordsToData`) -/
def recordsToDataAst : JR :=
  JR.newResult (JR.ifNoRecords JR.retResult (JR.bindRecord (JRIx.lit 0) (JR.rangeRecord (JR.caseTy [JRDyn.int] (JR.makeCol JRElem.int (JR.callFill JRElem.int JR.retCallErr (JR.setResult JR.done))) (JR.caseTy [JRDyn.float64] (JR.makeCol JRElem.float64 (JR.callFill JRElem.float64 JR.retCallErr (JR.setResult JR.done))) (JR.caseTy [JRDyn.bool] (JR.makeCol JRElem.bool (JR.callFill JRElem.bool JR.retCallErr (JR.setResult JR.done))) (JR.caseTy [JRDyn.null, JRDyn.string] (JR.makeCol JRElem.strptr (JR.callFill JRElem.strptr JR.retCallErr (JR.setResult JR.done))) JR.retErr)))) JR.retResult)))

/-- the function (io.Reader) (map[string]interface{}, error) of internal/io (`UnmarshalJSON`) -/
def unmarshalJsonAst : JU :=
  JU.decode (JU.ifErr JU.retErr JU.retToData)

/-- the function (io.Reader, ...ConfigFunc) QFrame of the root package that calls it (`ReadJSON`) -/
def readJsonAst : JU :=
  JU.unmarshal (JU.ifErr JU.retErrFrame JU.retNew)

end QF.Gen
