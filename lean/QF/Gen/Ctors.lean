/- GENERATED on every run by /verif/go/cmd/extract from /repo's source (tie T1). Do not edit. -/
import QF.Core.Ctors
namespace QF.Gen
open QF.CT

/-- package scolumn: the function `([]Pointer, []byte) Column` (`NewBytes`) -/
def scolNewBytes : NB := NB.ret BSrc.ptrParam BSrc.bytesParam

/-- package scolumn: the function `([]*string) Column` (`New`) -/
def scolNew : CN := CN.makeData (CN.makePointers PLen.lenCells (CN.initOffset 0 (CN.rangeCells (CB.ifNil (CB.setPtr IE.offset (IE.lit 0) true CB.done) (CB.setPtr IE.offset IE.lenCur false (CB.addOffset IE.lenCur (CB.appendCur CB.done)))) CN.retBytes)))

/-- package scolumn: the function `([]string) Column` (`NewStrings`) -/
def scolNewStrings : CN := CN.makeData (CN.makePointers PLen.lenCells (CN.initOffset 0 (CN.rangeCells (CB.setPtr IE.offset IE.lenCur false (CB.addOffset IE.lenCur (CB.appendCur CB.done))) CN.retBytes)))

/-- package scolumn: the function `(*string, int) Column` (`NewConst`) -/
def scolNewConst : CN := CN.makeData (CN.makePointers PLen.count (CN.ifValNil (CN.makeData (CN.rangePointers (CB.setPtr (IE.lit 0) (IE.lit 0) true CB.done) CN.retBytes)) (CN.makeData (CN.appendVal (CN.rangePointers (CB.setPtr (IE.lit 0) IE.lenVal false CB.done) CN.retBytes)))))

/-- packages icolumn, fcolumn, bcolumn: the functions `([]T) Column` (`New`) and `(T, int) Column` (`NewConst`): (cell type, New, NewConst) -/
def numCtors : List (CType × NC × NC) := [
  (CType.int, NC.retParam, NC.makeCells (NC.fillVal NC.retLocal)),
  (CType.float, NC.retParam, NC.makeCells (NC.fillVal NC.retLocal)),
  (CType.bool, NC.retParam, NC.makeCells (NC.fillVal NC.retLocal))]

end QF.Gen
