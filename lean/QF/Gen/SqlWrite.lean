/- GENERATED on every run by /verif/go/cmd/extract from /repo's source (tie T1). Do not edit. -/
import QF.Core.SqExpr
namespace QF.Gen

/-- the escaping helper of internal/io/sql that `Insert` calls with (string, rune, buffer) -/
def escapeAst : SqB :=
  SqB.ifRuneZero SqRune.charParam (SqB.writeStr SqSrc.strParam SqB.ret) (SqB.writeRune SqRune.charParam (SqB.writeStr SqSrc.strParam (SqB.writeRune SqRune.charParam SqB.done)))

/-- `Insert(colNames, conf)` of internal/io/sql as a buffer program -/
def insertAst : SqB :=
  SqB.newBuf (SqB.writeStr (SqSrc.lit [73, 78, 83, 69, 82, 84, 32, 73, 78, 84, 79, 32]) (SqB.callEscape SqSrc.table SqRune.confEscape (SqB.writeStr (SqSrc.lit [32, 40]) (SqB.forNames (SqB.callEscape SqSrc.name SqRune.confEscape (SqB.ifBefore 1 (SqB.writeStr (SqSrc.lit [44]) SqB.done) SqB.done)) (SqB.writeStr (SqSrc.lit [41, 32, 86, 65, 76, 85, 69, 83, 32, 40]) (SqB.forNames (SqB.ifIncr (SqB.writeStr (SqSrc.dollar 1) SqB.done) (SqB.writeStr (SqSrc.lit [63]) SqB.done) (SqB.ifBefore 1 (SqB.writeStr (SqSrc.lit [44]) SqB.done) SqB.done)) (SqB.writeStr (SqSrc.lit [41, 59]) SqB.retString)))))))

/-- the clauses of the type switch of `NewArgBuilder`, by column package: (package, clause) -/
def argBuilderClauses : List (String × SqAB) := [("icolumn", SqAB.retBuilder SqItem.viewItemAt), ("fcolumn", SqAB.retBuilder SqItem.viewItemAt), ("bcolumn", SqAB.retBuilder SqItem.viewItemAt), ("scolumn", SqAB.retBuilder SqItem.viewItemAt), ("ecolumn", SqAB.retBuilder SqItem.viewItemAt)]

/-- what `NewArgBuilder` does for a column none of the clauses applies to -/
def argBuilderDefault : SqAB := SqAB.retErr

/-- `QFrame.ColumnNames` -/
def columnNamesAst : SqCN :=
  SqCN.alloc (SqCN.forCols (SqCN.setName SqCN.done) SqCN.ret)

/-- `QFrame.ColumnTypes` -/
def columnTypesAst : SqCT :=
  SqCT.alloc (SqCT.forCols (SqCT.setType SqCT.done) SqCT.ret)

/-- `QFrame.ToSQL` -/
def toSqlAst : SqT :=
  SqT.guardErr (SqT.allocBuilders (SqT.forCols (SqT.newBuilder SqT.done) (SqT.forRows (SqT.allocArgs (SqT.forBuilders (SqT.setArg SqT.done) (SqT.exec SqStmt.insertOfNames SqT.done))) SqT.retNil)))

end QF.Gen
