/- GENERATED on every run by /verif/go/cmd/extract from /repo's source (tie T1). Do not edit. -/
import QF.Core.OExpr
namespace QF.Gen

/-- `Column.Equals(index, other, otherIndex)` of every column package as a term of `QF.EQ`, by role: (package, term) -/
def equalsAst : List (String × EQ) := [
  ("icolumn", EQ.assertType false (EQ.loopAll (OP.ite (OP.not OP.xEqY) OP.ff OP.tt) (EQ.ret true))),
  ("fcolumn", EQ.assertType false (EQ.loopAll (OP.ite (OP.not OP.xEqY) (OP.ite (OP.not (OP.and OP.xNaN OP.yNaN)) OP.ff OP.tt) OP.tt) (EQ.ret true))),
  ("bcolumn", EQ.assertType false (EQ.loopAll (OP.ite (OP.not OP.xEqY) OP.ff OP.tt) (EQ.ret true))),
  ("scolumn", EQ.assertType false (EQ.loopAll (OP.ite (OP.or OP.xNull OP.yNull) (OP.ite (OP.and OP.xNull OP.yNull) OP.tt OP.ff) (OP.ite (OP.not OP.bytesEq) OP.ff OP.tt)) (EQ.ret true))),
  ("ecolumn", EQ.assertType false (EQ.loopAll (OP.ite (OP.or OP.xNull OP.yNull) (OP.ite OP.xEqY OP.tt OP.ff) (OP.ite (OP.not OP.enumStrEq) OP.ff OP.tt)) (EQ.ret true)))]

/-- `Column.StringAt(i, naRep)` of every column package as a term of `QF.RE`: (package, term) -/
def stringAtAst : List (String × RE) := [
  ("icolumn", RE.itoa),
  ("fcolumn", RE.ite RTest.isNaN RE.naRep RE.formatFloatF),
  ("bcolumn", RE.formatBool),
  ("scolumn", RE.ite (RTest.not RTest.isNull) RE.strAt RE.naRep),
  ("ecolumn", RE.ite RTest.isNull RE.naRep RE.enumValue)]

/-- `Column.AppendByteStringAt(buf, i)` of every column package as a term of `QF.RE`: (package, term) -/
def appendAst : List (String × RE) := [
  ("icolumn", RE.appendInt),
  ("fcolumn", RE.ite RTest.isNaN (RE.appendLit [110, 117, 108, 108]) RE.ryuF),
  ("bcolumn", RE.appendBool),
  ("scolumn", RE.ite RTest.isNull (RE.appendLit [110, 117, 108, 108]) (RE.quoted RE.rawBytes)),
  ("ecolumn", RE.ite RTest.isNull (RE.appendLit [110, 117, 108, 108]) (RE.quoted RE.enumValue))]

/-- the helpers `stringAt(i)` / `bytesAt(i)` of scolumn the functions above call: (name, term) -/
def observeHelpers : List (String × RE) := [
  ("scolumn.stringAt", RE.ite RTest.isNull (RE.pair (RE.lit []) true) (RE.pair RE.rawBytes false)),
  ("scolumn.bytesAt", RE.ite RTest.isNull (RE.pair (RE.lit []) true) (RE.pair RE.rawBytes false))]

/-- the code `enumVal.isNull()` of ecolumn compares its receiver with (`return v == nullValue`, constants resolved) -/
def enumNullCode : Option Nat := some 255

end QF.Gen
