import QF.Spec.Num
import QF.Spec.Ops
/-
C14 spec side: an RFC 8259 parser (what a JSON text denotes) and Go-compatible UTF-8 decoding.
-/
namespace QF.Json

/-- One UTF-8 decoding step as Go's `utf8.DecodeRune`: (rune, width); invalid → (0xFFFD, 1). -/
def decodeRune (s : List UInt8) : Nat × Nat :=
  let cont (b : UInt8) (lo hi : UInt8) : Bool := lo ≤ b && b ≤ hi
  match s with
  | [] => (0xFFFD, 0)
  | b0 :: rest =>
    if b0 < 0x80 then (b0.toNat, 1)
    else if 0xC2 ≤ b0 && b0 ≤ 0xDF then
      match rest with
      | b1 :: _ => if cont b1 0x80 0xBF then ((b0.toNat % 32) * 64 + b1.toNat % 64, 2) else (0xFFFD, 1)
      | _ => (0xFFFD, 1)
    else if 0xE0 ≤ b0 && b0 ≤ 0xEF then
      let lo : UInt8 := if b0 == 0xE0 then 0xA0 else 0x80
      let hi : UInt8 := if b0 == 0xED then 0x9F else 0xBF
      match rest with
      | b1 :: b2 :: _ =>
        if cont b1 lo hi && cont b2 0x80 0xBF then ((b0.toNat % 16) * 4096 + (b1.toNat % 64) * 64 + b2.toNat % 64, 3) else (0xFFFD, 1)
      | _ => (0xFFFD, 1)
    else if 0xF0 ≤ b0 && b0 ≤ 0xF4 then
      let lo : UInt8 := if b0 == 0xF0 then 0x90 else 0x80
      let hi : UInt8 := if b0 == 0xF4 then 0x8F else 0xBF
      match rest with
      | b1 :: b2 :: b3 :: _ =>
        if cont b1 lo hi && cont b2 0x80 0xBF && cont b3 0x80 0xBF then
          ((b0.toNat % 8) * 262144 + (b1.toNat % 64) * 4096 + (b2.toNat % 64) * 64 + b3.toNat % 64, 4) else (0xFFFD, 1)
      | _ => (0xFFFD, 1)
    else (0xFFFD, 1)

def encodeRune (r : Nat) : List UInt8 :=
  if r < 0x80 then [UInt8.ofNat r]
  else if r < 0x800 then [UInt8.ofNat (0xC0 + r / 64), UInt8.ofNat (0x80 + r % 64)]
  else if r < 0x10000 then [UInt8.ofNat (0xE0 + r / 4096), UInt8.ofNat (0x80 + (r / 64) % 64), UInt8.ofNat (0x80 + r % 64)]
  else [UInt8.ofNat (0xF0 + r / 262144), UInt8.ofNat (0x80 + (r / 4096) % 64), UInt8.ofNat (0x80 + (r / 64) % 64), UInt8.ofNat (0x80 + r % 64)]

/-- The string a JSON decoder recovers from a byte string written with invalid bytes replaced by U+FFFD. -/
def sanitize (s : List UInt8) : List UInt8 :=
  let rec go (fuel : Nat) (s : List UInt8) (acc : List UInt8) : List UInt8 :=
    match fuel with
    | 0 => acc
    | fuel + 1 =>
      match s with
      | [] => acc
      | _ =>
        let (r, w) := decodeRune s
        if r == 0xFFFD && w == 1 then go fuel (s.drop 1) (acc ++ [0xEF, 0xBF, 0xBD])
        else go fuel (s.drop w) (acc ++ s.take w)
  go (s.length + 1) s []

def validUTF8 (s : List UInt8) : Bool :=
  let rec go (fuel : Nat) (s : List UInt8) : Bool :=
    match fuel with
    | 0 => true
    | fuel + 1 =>
      match s with
      | [] => true
      | _ =>
        let (r, w) := decodeRune s
        if r == 0xFFFD && w == 1 then false else go fuel (s.drop w)
  go (s.length + 1) s

inductive JVal where
  | null
  | bool (b : Bool)
  | num (text : List UInt8)
  | str (s : List UInt8)
  | arr (l : List JVal)
  | obj (kvs : List (List UInt8 × JVal))
  deriving Repr, Inhabited

def isWs (c : UInt8) : Bool := c == 32 || c == 9 || c == 10 || c == 13
def skipWs (s : List UInt8) : List UInt8 := s.dropWhile isWs
def isDigit (c : UInt8) : Bool := 48 ≤ c && c ≤ 57

def hex4 (s : List UInt8) : Option Nat :=
  if s.length < 4 then none else
  (s.take 4).foldl (fun acc c => match acc with
    | none => none
    | some a =>
      if isDigit c then some (a * 16 + (c.toNat - 48))
      else if 97 ≤ c && c ≤ 102 then some (a * 16 + (c.toNat - 87))
      else if 65 ≤ c && c ≤ 70 then some (a * 16 + (c.toNat - 55))
      else none) (some 0)

/-- Parses the body of a string after the opening quote: (decoded bytes, rest after closing quote). -/
def parseStr (fuel : Nat) (s : List UInt8) (acc : List UInt8) : Option (List UInt8 × List UInt8) :=
  match fuel with
  | 0 => none
  | fuel + 1 =>
    match s with
    | [] => none
    | 34 :: rest => some (acc, rest)
    | 92 :: e :: rest =>
      match e with
      | 34 => parseStr fuel rest (acc ++ [34])
      | 92 => parseStr fuel rest (acc ++ [92])
      | 47 => parseStr fuel rest (acc ++ [47])
      | 98 => parseStr fuel rest (acc ++ [8])
      | 102 => parseStr fuel rest (acc ++ [12])
      | 110 => parseStr fuel rest (acc ++ [10])
      | 114 => parseStr fuel rest (acc ++ [13])
      | 116 => parseStr fuel rest (acc ++ [9])
      | 117 =>
        match hex4 rest with
        | none => none
        | some u =>
          let rest4 := rest.drop 4
          if 0xD800 ≤ u && u < 0xDC00 then
            -- high surrogate: must be followed by \uDC00..DFFF
            match rest4 with
            | 92 :: 117 :: r2 =>
              match hex4 r2 with
              | some lo => if 0xDC00 ≤ lo && lo < 0xE000 then
                  parseStr fuel (r2.drop 4) (acc ++ encodeRune (0x10000 + (u - 0xD800) * 1024 + (lo - 0xDC00)))
                else parseStr fuel rest4 (acc ++ [0xEF, 0xBF, 0xBD])
              | none => none
            | _ => parseStr fuel rest4 (acc ++ [0xEF, 0xBF, 0xBD])
          else if 0xDC00 ≤ u && u < 0xE000 then parseStr fuel rest4 (acc ++ [0xEF, 0xBF, 0xBD])
          else parseStr fuel rest4 (acc ++ encodeRune u)
      | _ => none
    | c :: rest =>
      if c < 0x20 then none
      else if c < 0x80 then parseStr fuel rest (acc ++ [c])
      else
        let (r, w) := decodeRune (c :: rest)
        if r == 0xFFFD && w == 1 then none   -- raw invalid UTF-8 is not valid JSON text
        else parseStr fuel ((c :: rest).drop w) (acc ++ (c :: rest).take w)

def parseNum (s : List UInt8) : Option (List UInt8 × List UInt8) :=
  let (sign, r) := match s with | 45 :: r => ([45], r) | r => (([] : List UInt8), r)
  let ip := r.takeWhile isDigit
  let r1 := r.dropWhile isDigit
  if ip.isEmpty || (ip.length > 1 && ip.head? == some 48) then none else
  let (fp, r2) : List UInt8 × List UInt8 := match r1 with
    | 46 :: t => let d := t.takeWhile isDigit; (46 :: d, t.dropWhile isDigit)
    | _ => ([], r1)
  if fp == [46] then none else
  let (ep, r3) : List UInt8 × List UInt8 := match r2 with
    | e :: t =>
      if e == 101 || e == 69 then
        let (sg, t2) : List UInt8 × List UInt8 := match t with | 43 :: u => ([43], u) | 45 :: u => ([45], u) | u => ([], u)
        let d := t2.takeWhile isDigit
        (e :: sg ++ d, t2.dropWhile isDigit)
      else ([], r2)
    | _ => ([], r2)
  if !ep.isEmpty && !(ep.getLast?.map isDigit).getD false then none else
  some (sign ++ ip ++ fp ++ ep, r3)

mutual
def parseVal (fuel : Nat) (s : List UInt8) : Option (JVal × List UInt8) :=
  match fuel with
  | 0 => none
  | fuel + 1 =>
    match skipWs s with
    | 110 :: 117 :: 108 :: 108 :: r => some (.null, r)
    | 116 :: 114 :: 117 :: 101 :: r => some (.bool true, r)
    | 102 :: 97 :: 108 :: 115 :: 101 :: r => some (.bool false, r)
    | 34 :: r => (parseStr (r.length + 1) r []).map (fun (b, rest) => (.str b, rest))
    | 91 :: r =>
      match skipWs r with
      | 93 :: r2 => some (.arr [], r2)
      | r2 => parseElems fuel r2 []
    | 123 :: r =>
      match skipWs r with
      | 125 :: r2 => some (.obj [], r2)
      | r2 => parseMembers fuel r2 []
    | c :: r => if c == 45 || isDigit c then (parseNum (c :: r)).map (fun (t, rest) => (.num t, rest)) else none
    | [] => none
def parseElems (fuel : Nat) (s : List UInt8) (acc : List JVal) : Option (JVal × List UInt8) :=
  match fuel with
  | 0 => none
  | fuel + 1 =>
    match parseVal fuel s with
    | none => none
    | some (v, r) =>
      match skipWs r with
      | 44 :: r2 => parseElems fuel r2 (v :: acc)
      | 93 :: r2 => some (.arr (v :: acc).reverse, r2)
      | _ => none
def parseMembers (fuel : Nat) (s : List UInt8) (acc : List (List UInt8 × JVal)) : Option (JVal × List UInt8) :=
  match fuel with
  | 0 => none
  | fuel + 1 =>
    match skipWs s with
    | 34 :: r =>
      match parseStr (r.length + 1) r [] with
      | none => none
      | some (k, r1) =>
        match skipWs r1 with
        | 58 :: r2 =>
          match parseVal fuel r2 with
          | none => none
          | some (v, r3) =>
            match skipWs r3 with
            | 44 :: r4 => parseMembers fuel r4 ((k, v) :: acc)
            | 125 :: r4 => some (.obj ((k, v) :: acc).reverse, r4)
            | _ => none
        | _ => none
    | _ => none
end

/-- A complete JSON text. -/
def parse (s : List UInt8) : Option JVal :=
  match parseVal (s.length + 2) s with
  | some (v, rest) => if (skipWs rest).isEmpty then some v else none
  | none => none

open QF in
/-- Does the JSON value denote this cell? ints exactly, floats as a number parsing back to the identical bits, NaN and
null strings as null, strings with invalid bytes replaced by U+FFFD. -/
def denotes (v : JVal) (c : Cell) : Bool :=
  match c, v with
  | .int x, .num t => t == (toString x).toUTF8.toList
  | .float b, .null => F64.isNaN b
  | .float b, .num t => !F64.isNaN b && (match Num.parseNumber t with
      | some (neg, m, d) => Num.ofDecimal neg m d == b
      | none => false)
  | .bool x, .bool y => x == y
  | .str none, .null => true
  | .str (some s), .str t => t == sanitize s
  | _, _ => false

end QF.Json
