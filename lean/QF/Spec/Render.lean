import QF.Spec.Csv
import QF.Spec.Json
/-
C09 / C13 / C14: what the bytes written by ToCSV and ToJSON must denote, and what reading them back must give.
The checks are semantic (parse the output with the RFC scanners of the spec and compare the denoted values with
the frame), so harmless changes of formatting (another valid escape, another quoting choice) are not flagged.
-/
namespace QF

def lower (s : Bytes) : Bytes := s.map (fun c => if 65 ≤ c && c ≤ 90 then c + 32 else c)

/-- Does the CSV cell text denote this cell (as ReadCSV with the column's type declared would read it)? -/
def csvCellDenotes (c : Cell) (t : Bytes) : Bool :=
  match c with
  | .int x => t == intStr x
  | .bool b => t == strBytes (if b then "true" else "false")
  | .float b =>
    if F64.isNaN b then t.isEmpty
    else if (b &&& 0x7fffffffffffffff) == 0x7ff0000000000000 then
      let l := lower t
      if F64.sign b then l == strBytes "-inf" || l == strBytes "-infinity"
      else l == strBytes "inf" || l == strBytes "+inf" || l == strBytes "infinity" || l == strBytes "+infinity"
    else match Num.parseNumber t with
      | some (neg, m, d) => Num.ofDecimal neg m d == b
      | none => false
  | .str none => t.isEmpty
  | .str (some s) => t == s

/-- The columns ToCSV writes, in order: the configured order (must be a permutation given as exactly all names) or frame order. -/
def csvColumns (f : LFrame) (cols : List Bytes) : Option (List LCol) :=
  if cols.isEmpty then some f.cols
  else if cols.length != f.cols.length then none
  else cols.mapM f.find?

/-- `none` = the bytes denote the frame; `some why` otherwise. -/
def csvDenotes (f : LFrame) (hdr : Bool) (cols : List Bytes) (out : Bytes) : Option String :=
  match csvColumns f cols with
  | none => some "spec rejects the column selection"
  | some cs =>
    if cs.isEmpty then none else     -- frames without columns are outside the property (C13: at least one column)
    let recs := rfcParse 44 out
    let (h, body) : Option (List Bytes) × List (List Bytes) := if hdr then (recs.head?, recs.drop 1) else (none, recs)
    if hdr && h != some (cs.map (·.name)) then some s!"header row {repr h} does not list the column names"
    else if cs.isEmpty then (if body.isEmpty then none else some "rows written for a frame without columns")
    else if body.length != f.n then some s!"{body.length} data records written for {f.n} rows"
    else
      let bad := (List.range f.n).find? (fun r =>
        let row := body[r]!
        row.length != cs.length || !(List.range cs.length).all (fun j => csvCellDenotes (cs[j]!.cells[r]!) (row[j]!)))
      match bad with
      | some r => some s!"record {r} = {repr (body[r]!)} does not denote the row"
      | none => none

/-- What ReadCSV (types and enum values declared) must return for the written bytes. -/
def csvReread (f : LFrame) (cols : List Bytes) (emptyNull : Bool) : Option LFrame :=
  (csvColumns f cols).map (fun cs =>
    { n := f.n
      cols := cs.map (fun c =>
        match c.ty with
        | .string => { c with cells := c.cells.map (fun x => match x with
            | .str none => if emptyNull then .str none else .str (some [])
            | .str (some []) => if emptyNull then .str none else .str (some [])
            | y => y) }
        | .enum =>
          let cells := c.cells.map (fun x => match x with
            | .str none => if emptyNull then Cell.str none else .str (some [])
            | .str (some []) => if emptyNull then .str none else .str (some [])
            | y => y)
          if c.vals.isEmpty then
            -- no declared values: derived from the data in order of appearance
            match mkEnum [] cells.toList with
            | some (vals, _) => { c with cells := cells, vals := vals, strict := false }
            | none => { c with cells := cells }
          else { c with cells := cells, strict := true }
        | .float => { c with cells := c.cells.map (fun x => match x with
            | .float b => if F64.isNaN b then .float F64.canonNaN else .float b
            | y => y) }
        | _ => c) })

/-- With declared enum values every cell must be one of them; the empty string of a null/empty cell included. -/
def csvRereadOk (f : LFrame) (cols : List Bytes) (emptyNull : Bool) : Bool :=
  match csvColumns f cols with
  | none => false
  | some cs => cs.all (fun c =>
      c.ty != .enum || c.vals.isEmpty ||
      c.cells.all (fun x => match x with
        | .str none => emptyNull || c.vals.contains []
        | .str (some []) => emptyNull || c.vals.contains []
        | .str (some s) => c.vals.contains s
        | _ => true))

def hasCR (f : LFrame) : Bool :=
  f.cols.any (fun c => c.name.contains 13 || c.cells.any (fun x => match x with | .str (some s) => s.contains 13 | _ => false))

def hasInf (f : LFrame) : Bool :=
  f.cols.any (fun c => c.cells.any (fun x => match x with
    | .float b => (b &&& 0x7fffffffffffffff) == 0x7ff0000000000000 | _ => false))

def hasNaN (f : LFrame) : Bool :=
  f.cols.any (fun c => c.cells.any (fun x => match x with | .float b => F64.isNaN b | _ => false))

/-- `none` = the bytes are valid JSON denoting the frame. -/
def jsonDenotes (f : LFrame) (out : Bytes) : Option String :=
  match Json.parse out with
  | none => some "output is not valid JSON"
  | some (.arr objs) =>
    if objs.length != f.n then some s!"{objs.length} records for {f.n} rows" else
    let bad := (List.range f.n).find? (fun r =>
      match objs[r]! with
      | .obj kvs =>
        kvs.length != f.cols.length ||
        !(List.range f.cols.length).all (fun j =>
          let c := f.cols[j]!
          let (k, v) := kvs[j]!
          k == Json.sanitize c.name && Json.denotes v c.cells[r]!)
      | _ => true)
    match bad with
    | some r => some s!"record {r} does not denote the row"
    | none => none
  | some _ => some "top level value is not an array"

/-- C16 on the ToJSON path: every finite float cell is written as the shortest positional decimal that round-trips
(`none` = all are; only meaningful when `jsonDenotes` accepted the text). -/
def jsonFloatsShortest (f : LFrame) (out : Bytes) : Option String :=
  match Json.parse out with
  | some (.arr objs) =>
    let bad := (List.range f.n).findSome? (fun r =>
      match (objs[r]? : Option Json.JVal) with
      | some (Json.JVal.obj kvs) =>
        (List.range f.cols.length).findSome? (fun j =>
          match f.cols[j]!.cells[r]!, (kvs[j]? : Option (List UInt8 × Json.JVal)) with
          | Cell.float b, some (_, Json.JVal.num t) =>
            if F64.isNaN b || (b &&& 0x7fffffffffffffff) == 0x7ff0000000000000 then none
            else if Num.isShortestRoundTrip b t then none
            else some s!"row {r} column {j}: float {b} written as {repr (String.fromUTF8! (ByteArray.mk t.toArray))}, not the shortest positional decimal that round-trips"
          | _, _ => none)
      | _ => none)
    bad
  | _ => none

/-- What ReadJSON (column order and enum values supplied) must return: ints come back as equal-valued floats. -/
def jsonReread (f : LFrame) : LFrame :=
  { f with cols := f.cols.map (fun c =>
      match c.ty with
      | .int => { c with ty := .float, cells := c.cells.map (fun x => match x with
          | .int v => .float (Num.ofDecimal (v < 0) v.natAbs 0) | y => y) }
      | .string => { c with cells := c.cells.map (fun x => match x with
          | .str (some s) => .str (some (Json.sanitize s)) | y => y) }
      | .enum =>
        let cells := c.cells.map (fun x => match x with
          | .str (some s) => Cell.str (some (Json.sanitize s)) | y => y)
        if c.vals.isEmpty then
          match mkEnum [] cells.toList with
          | some (vals, _) => { c with cells := cells, vals := vals, strict := false }
          | none => { c with cells := cells }
        else { c with cells := cells, strict := true }
      | _ => c) }

/-! ### String(): header, rule, at most 50 rows, every cell right-aligned or cut to the column width -/

def fixLen (s : Bytes) (pad : UInt8) (w : Nat) : Bytes :=
  if s.length > w then s.take (w - 3) ++ [46, 46, 46]
  else List.replicate (w - s.length) pad ++ s

def typeLetter : CType → Bytes
  | .int => [105] | .float => [102] | .bool => [98] | .string => [115] | .enum => [101] | .undef => [85]

/-- A piece of the expected output: exact bytes, or a float cell occupying `w` bytes. -/
inductive Piece where
  | lit (b : Bytes)
  | flt (w : Nat) (bits : UInt64)

def stringPieces (f : LFrame) : List Piece :=
  let hdrs := f.cols.map (fun c => c.name ++ [40] ++ typeLetter c.ty ++ [41])
  let ws := hdrs.map (fun h => max h.length 5)
  let sep (ps : List (List Piece)) : List Piece := (ps.intersperse [Piece.lit [32]]).flatten
  let header := sep ((List.zip hdrs ws).map (fun (h, w) => [Piece.lit (fixLen h 32 w)]))
  let rule := sep (ws.map (fun w => [Piece.lit (List.replicate w 45)]))
  let rows := (List.range (min f.n 50)).map (fun r =>
    sep ((List.zip f.cols ws).map (fun (c, w) =>
      match c.cells[r]! with
      | .int x => [Piece.lit (fixLen (intStr x) 32 w)]
      | .bool b => [Piece.lit (fixLen (strBytes (if b then "true" else "false")) 32 w)]
      | .str none => [Piece.lit (fixLen (strBytes "null") 32 w)]
      | .str (some s) => [Piece.lit (fixLen s 32 w)]
      | .float b => if F64.isNaN b then [Piece.lit (fixLen (strBytes "null") 32 w)] else [Piece.flt w b])))
  let nl : List Piece := [Piece.lit [10]]
  header ++ nl ++ rule ++ (rows.map (fun r => nl ++ r)).flatten ++
    (if f.n > 50 then nl ++ [Piece.lit (strBytes "... printout truncated ...")] else []) ++
    nl ++ nl ++ [Piece.lit (strBytes s!"Dims = {f.cols.length} x {f.n}")]

/-- `none` = the text printed by String() shows exactly the frame (up to the documented truncations). -/
def stringDenotes (f : LFrame) (out : Bytes) : Option String :=
  let rec go (fuel : Nat) (ps : List Piece) (rest : Bytes) : Option String :=
    match fuel with
    | 0 => some "fuel"
    | fuel + 1 =>
      match ps with
      | [] => if rest.isEmpty then none else some "trailing output"
      | .lit b :: ps' => if b.isPrefixOf rest then go fuel ps' (rest.drop b.length) else some s!"expected {repr b} at {repr (rest.take 40)}"
      | .flt w bits :: ps' =>
        let field := rest.take w
        let txt := field.dropWhile (· == 32)
        let ok :=
          if field.length != w then false
          else if txt.length == w && txt.drop (w - 3) == [46, 46, 46] then true     -- cut to the column width: digits not checked
          else if (bits &&& 0x7fffffffffffffff) == 0x7ff0000000000000 then txt == strBytes (if F64.sign bits then "-Inf" else "+Inf")
          else Num.isShortestRoundTrip bits txt
        if ok then go fuel ps' (rest.drop w) else some s!"float cell {repr field} does not show the float {bits}"
  go (out.length + 10 * (f.n + 5) * (f.cols.length + 2) + 100) (stringPieces f) out

end QF
