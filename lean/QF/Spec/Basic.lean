/-
Logical frames: what a user can observe of a QFrame — column names, types and
the cells in row order. No index arrays, no physical storage. Every property
spec is stated against `LFrame`.
-/
namespace QF

abbrev Bytes := List UInt8

/-- Byte-wise lexicographic comparison (Go `strings.Compare` / `bytes.Compare`). -/
def bytesCmp : Bytes → Bytes → Ordering
  | [], [] => .eq
  | [], _ :: _ => .lt
  | _ :: _, [] => .gt
  | a :: as, b :: bs => if a < b then .lt else if a > b then .gt else bytesCmp as bs

def bytesLt (a b : Bytes) : Bool := bytesCmp a b == .lt
def bytesLe (a b : Bytes) : Bool := bytesCmp a b != .gt

/-- A cell as the user sees it. Enum cells are observed as (nullable) strings. -/
inductive Cell where
  | int (v : Int)
  | float (b : UInt64)
  | bool (b : Bool)
  | str (s : Option Bytes)
  deriving DecidableEq, Repr, Inhabited

inductive CType where
  | int | float | bool | string | enum | undef
  deriving DecidableEq, Repr, Inhabited

namespace F64
def expMask : UInt64 := 0x7ff0000000000000
def manMask : UInt64 := 0x000fffffffffffff
def signBit : UInt64 := 0x8000000000000000
def isNaN (b : UInt64) : Bool := (b &&& expMask) == expMask && (b &&& manMask) != 0
def sign (b : UInt64) : Bool := (b &&& signBit) != 0
/-- Order key of a non-NaN float: IEEE order, with -0 = +0. -/
def key (b : UInt64) : Int :=
  let mag : Int := ((b &&& 0x7fffffffffffffff).toNat : Int)
  if sign b then -mag else mag
def lt (a b : UInt64) : Bool := !isNaN a && !isNaN b && key a < key b
def le (a b : UInt64) : Bool := !isNaN a && !isNaN b && key a ≤ key b
def eq (a b : UInt64) : Bool := !isNaN a && !isNaN b && key a == key b
def canonNaN : UInt64 := 0x7ff8000000000001
/-- Equality up to the identity of NaNs (used wherever arithmetic produced the value). -/
def same (a b : UInt64) : Bool := a == b || (isNaN a && isNaN b)
end F64

/-- Go `int` is 64 bit with wrap-around. -/
def wrap64 (x : Int) : Int :=
  let m := x % 18446744073709551616
  if m ≥ 9223372036854775808 then m - 18446744073709551616 else m

structure LCol where
  name : Bytes
  ty : CType
  /-- value table of an enum column in rank order -/
  vals : List Bytes := []
  strict : Bool := false
  cells : Array Cell
  deriving Repr, Inhabited

structure LFrame where
  cols : List LCol
  n : Nat
  deriving Repr, Inhabited

inductive Res where
  | ok (f : LFrame)
  | err
  deriving Repr, Inhabited

namespace LFrame
def empty : LFrame := { cols := [], n := 0 }
def find? (f : LFrame) (name : Bytes) : Option LCol := f.cols.find? (·.name == name)
def has (f : LFrame) (name : Bytes) : Bool := (f.find? name).isSome
def names (f : LFrame) : List Bytes := f.cols.map (·.name)
/-- Row `r` as the list of its cells in column order. -/
def row (f : LFrame) (r : Nat) : List Cell := f.cols.map (fun c => c.cells[r]!)
def rows (f : LFrame) : List (List Cell) := (List.range f.n).map f.row
/-- The frame restricted to (and reordered by) the given row numbers. -/
def pick (f : LFrame) (rs : List Nat) : LFrame :=
  { cols := f.cols.map (fun c => { c with cells := (rs.map (fun r => c.cells[r]!)).toArray }), n := rs.length }
end LFrame

/-- Legal column names (internal/strings/name.go): non-empty, not quoted, not starting with `$`. -/
def isQuotedName (s : Bytes) : Bool :=
  s.length > 2 && ((s.head? == some 39 && s.getLast? == some 39) || (s.head? == some 34 && s.getLast? == some 34))
def legalName (s : Bytes) : Bool := !s.isEmpty && !isQuotedName s && s.head? != some 36

/-- Rank of an enum cell in the value table (first match). -/
def enumRank (vals : List Bytes) (s : Bytes) : Option Nat := vals.findIdx? (· == s)

/-- Natural order of two non-null cells of the same column. `none` when either is null/NaN or not comparable. -/
def cellCmp (c : LCol) (a b : Cell) : Option Ordering :=
  match a, b with
  | .int x, .int y => some (compare x y)
  | .float x, .float y =>
      if F64.isNaN x || F64.isNaN y then none else some (compare (F64.key x) (F64.key y))
  | .bool x, .bool y => some (compare x.toNat y.toNat)
  | .str (some x), .str (some y) =>
      if c.ty == .enum then
        match enumRank c.vals x, enumRank c.vals y with
        | some i, some j => some (compare i j)
        | _, _ => none
      else some (bytesCmp x y)
  | _, _ => none

def Cell.isNull : Cell → Bool
  | .float b => F64.isNaN b
  | .str none => true
  | _ => false

/-- An arbitrary total order on cells, used only to compare multisets of rows. -/
def Cell.tag : Cell → Nat
  | .int _ => 0 | .float _ => 1 | .bool _ => 2 | .str _ => 3
def Cell.totalCmp : Cell → Cell → Ordering
  | .int x, .int y => compare x y
  | .float x, .float y => compare x.toNat y.toNat
  | .bool x, .bool y => compare x.toNat y.toNat
  | .str none, .str none => .eq
  | .str none, .str (some _) => .lt
  | .str (some _), .str none => .gt
  | .str (some x), .str (some y) => bytesCmp x y
  | a, b => compare a.tag b.tag

def rowCmp : List Cell → List Cell → Ordering
  | [], [] => .eq
  | [], _ => .lt
  | _, [] => .gt
  | a :: as, b :: bs => match a.totalCmp b with
    | .eq => rowCmp as bs
    | o => o

def sortRows (rs : List (List Cell)) : List (List Cell) :=
  (rs.toArray.qsort (fun a b => rowCmp a b == .lt)).toList

/-- Same multiset of rows. -/
def sameRowMultiset (a b : List (List Cell)) : Bool := sortRows a == sortRows b

/-- Cells equal, with NaNs collapsed (float results of arithmetic). -/
def Cell.same : Cell → Cell → Bool
  | .float x, .float y => F64.same x y
  | a, b => a == b

end QF
