import QF.Spec.Json
import QF.Spec.Ops
/-
C14 spec, reading side: the frame ReadJSON (no configuration functions) makes of a JSON document in record form
`[{"a": 1, "b": "x"}, …]`, stated on the value the RFC 8259 parser of QF/Spec/Json.lean returns.

* a document is an array of objects (`null` counts as an array without elements, a `null` element as an object without
  members); anything else is an error;
* every number of the document must be a float64 (`pnum`, strconv.ParseFloat, is a parameter: `none` = out of range);
* of several members of an object with the same name the LAST one counts;
* the columns are the member names of record 0; record 0 also decides the type of each column: number → float,
  true / false → bool, string or null → string; an array or an object there is an error;
* every record must have every column, with a value of the column's type (string columns: a string or null);
  additional members of later records are ignored;
* the frame has the columns in the byte order of their names (`newS` without column order).
-/
namespace QF
open Json

/-- A record: the members of a JSON object in text order. -/
abbrev JRec := List (Bytes × JVal)

/-- The value of member `k`: of several members with the same name the last one counts. -/
def jrecGet (r : JRec) (k : Bytes) : Option JVal := (r.reverse.find? (·.1 == k)).map (·.2)

/-- The member names, each once, in the order of their first occurrence. -/
def jrecKeys (r : JRec) : List Bytes := dedup (r.map (·.1))

mutual
/-- every number of the value is a float64 -/
def jsonNumsOk (pnum : Bytes → Option UInt64) : JVal → Bool
  | .num t => (pnum t).isSome
  | .arr l => jsonNumsOkL pnum l
  | .obj kvs => jsonNumsOkM pnum kvs
  | _ => true
def jsonNumsOkL (pnum : Bytes → Option UInt64) : List JVal → Bool
  | [] => true
  | v :: vs => jsonNumsOk pnum v && jsonNumsOkL pnum vs
def jsonNumsOkM (pnum : Bytes → Option UInt64) : List (Bytes × JVal) → Bool
  | [] => true
  | (_, v) :: r => jsonNumsOk pnum v && jsonNumsOkM pnum r
end

/-- An element of the document as a record: an object, or `null` (an object without members). -/
def jsonRecordOf : JVal → Option JRec
  | .obj kvs => some kvs
  | .null => some []
  | _ => none

/-- The records of a document. -/
def jsonRecords : JVal → Option (List JRec)
  | .null => some []
  | .arr l => l.mapM jsonRecordOf
  | _ => none

/-- The column type a value of record 0 decides. -/
def jsonTy : JVal → Option CType
  | .num _ => some .float
  | .bool _ => some .bool
  | .null => some .string
  | .str _ => some .string
  | _ => none

/-- The cell a value is in a column of type `ty` (`none`: wrong type). -/
def jsonCell (pnum : Bytes → Option UInt64) : CType → JVal → Option Cell
  | .float, .num t => (pnum t).map Cell.float
  | .bool, .bool b => some (.bool b)
  | .string, .str s => some (.str (some s))
  | .string, .null => some (.str none)
  | _, _ => none

/-- Column `name`: typed by record 0, one cell per record. `none`: an error (missing member, wrong type, unknown type). -/
def jsonColumnS (pnum : Bytes → Option UInt64) (recs : List JRec) (name : Bytes) : Option LCol :=
  match recs with
  | [] => none
  | r0 :: _ =>
    match (jrecGet r0 name).bind jsonTy with
    | none => none
    | some ty =>
      (recs.mapM (fun r => (jrecGet r name).bind (jsonCell pnum ty))).map
        (fun cs => ({ name := name, ty := ty, cells := cs.toArray } : LCol))

/-- The columns: the members of record 0, in the order of their first occurrence there. -/
def jsonDataS (pnum : Bytes → Option UInt64) (recs : List JRec) : Option (List LCol) :=
  match recs with
  | [] => some []
  | r0 :: _ => (jrecKeys r0).mapM (jsonColumnS pnum recs)

def LCol.toNewCol (c : LCol) : NewCol :=
  { name := c.name, kind := .cells c.ty, count := c.cells.size, cells := c.cells.toList }

/-- The columns of a document: `none` = an error. -/
def jsonDocS (pnum : Bytes → Option UInt64) (doc : JVal) : Option (List LCol) :=
  if jsonNumsOk pnum doc then (jsonRecords doc).bind (jsonDataS pnum) else none

/-- ReadJSON (no configuration functions) of the document `doc`. -/
def readJsonS (pnum : Bytes → Option UInt64) (doc : JVal) : Res :=
  match jsonDocS pnum doc with
  | none => .err
  | some cols => newS (cols.map LCol.toNewCol) [] []

/-- ReadJSON with `ColumnOrder(order...)` and `Enums(enums)` (`readJsonS` is the case without either). -/
def readJsonCfgS (pnum : Bytes → Option UInt64) (doc : JVal) (order : List Bytes) (enums : List (Bytes × List Bytes)) : Res :=
  match jsonDocS pnum doc with
  | none => .err
  | some cols => newS (cols.map LCol.toNewCol) order enums

/-- `strconv.ParseFloat(t, 64)` on a JSON number token as a correct IEEE parser: the correctly rounded float64 of the
decimal; a decimal that rounds to an infinity is out of range (an error). -/
def pnumS (t : Bytes) : Option UInt64 :=
  match Num.parseNumber t with
  | some (neg, m, d) =>
    if (Num.ofDecimal neg m d &&& 0x7fffffffffffffff) == 0x7ff0000000000000 then none else some (Num.ofDecimal neg m d)
  | none => none

/-- The columns in the order `New` gives them when no column order is supplied: sorted by name. -/
def sortByName (cols : List LCol) : List LCol :=
  (sortNames (cols.map (·.name))).filterMap (fun n => cols.find? (·.name == n))

/-- What is left of a frame read back from JSON with column order and enum declarations supplied when NOTHING is supplied:
the names as a JSON decoder returns them, enum columns as string columns, the columns sorted by name. -/
def jsonUnconfigured (g : LFrame) : LFrame :=
  { n := g.n
    cols := sortByName (g.cols.map fun c =>
      { name := Json.sanitize c.name, ty := if c.ty == .enum then .string else c.ty, cells := c.cells }) }

end QF
