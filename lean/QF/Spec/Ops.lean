import QF.Spec.Filter
/-
Specs of the column- and row-level operations over logical frames
(C03 Sort, C04 GroupBy/Aggregate, C05 Distinct, C06 Apply, C07 Eval, C08 New/Select/Drop/Slice/Copy).
-/
namespace QF

def strBytes (s : String) : Bytes := s.toUTF8.toList

/-! ## C08: projections -/

def dedup (l : List Bytes) : List Bytes := l.foldl (fun acc x => if acc.contains x then acc else acc ++ [x]) []

def selectS (f : LFrame) (names : List Bytes) : Res :=
  if names.all f.has then
    if names.isEmpty then .ok LFrame.empty
    else .ok { f with cols := names.filterMap f.find? }
  else .err

/-- Drop: unknown names are rejected (C08); dropping every column leaves the empty frame. -/
def dropS (f : LFrame) (names : List Bytes) : Res :=
  if names.isEmpty then .ok f
  else if !names.all f.has then .err
  else
    let keep := f.cols.filter (fun c => !names.contains c.name)
    if keep.isEmpty then .ok LFrame.empty else .ok { f with cols := keep }

def sliceS (f : LFrame) (a b : Int) : Res :=
  if a < 0 || a > b || b > f.n then .err
  else .ok (f.pick ((List.range (b - a).toNat).map (· + a.toNat)))

/-- Replace the column of that name in its position, or append it last. -/
def setCol (f : LFrame) (c : LCol) : LFrame :=
  if f.has c.name then
    { f with cols := f.cols.map (fun o => if o.name == c.name then c else o) }
  else { f with cols := f.cols ++ [c] }

def copyS (f : LFrame) (dst src : Bytes) : Res :=
  match f.find? src with
  | none => .err
  | some c => if dst == src then .ok f else if legalName dst then .ok (setCol f { c with name := dst }) else .err

/-! ## C06: Apply -/

inductive Fn where
  | const (c : Cell)            -- int / float / bool / string / *string constant
  | colCopy (name : Bytes)
  | f0 (kind : String) (start : Int)   -- stateful zero-argument function: successive values in row order
  | f1 (id : String)
  | f2 (id : String)
  | builtin (name : Bytes)
  | bad
  deriving Repr, Inhabited

structure Instr where
  dst : Bytes
  src1 : Option Bytes
  src2 : Option Bytes
  fn : Fn
  deriving Repr, Inhabited

def intStr (x : Int) : Bytes := strBytes (toString x)

def cellType : Cell → CType
  | .int _ => .int | .float _ => .float | .bool _ => .bool | .str _ => .string

def fAdd (a b : UInt64) : UInt64 := (Float.ofBits a + Float.ofBits b).toBits
def fSub (a b : UInt64) : UInt64 := (Float.ofBits a - Float.ofBits b).toBits
def fMul (a b : UInt64) : UInt64 := (Float.ofBits a * Float.ofBits b).toBits
def fDiv (a b : UInt64) : UInt64 := (Float.ofBits a / Float.ofBits b).toBits
def fOfInt (x : Int) : UInt64 := (Float.ofInt x).toBits

/-- The one-argument catalogue (defined identically in the harness): id ↦ (accepted source kind, result type, function). -/
def fn1 (id : String) : Option (CType × CType × (Cell → Cell)) :=
  match id with
  | "i.inc" => some (.int, .int, fun c => match c with | .int x => .int (wrap64 (x + 1)) | y => y)
  | "i.odd" => some (.int, .bool, fun c => match c with | .int x => .bool (x % 2 != 0) | y => y)
  | "i.str" => some (.int, .string, fun c => match c with | .int x => .str (some (intStr x)) | y => y)
  | "i.half" => some (.int, .float, fun c => match c with | .int x => .float (fDiv (fOfInt (Int.tmod x 1024)) (fOfInt 2)) | y => y)
  | "f.neg" => some (.float, .float, fun c => match c with | .float b => .float (b ^^^ F64.signBit) | y => y)
  | "f.isneg" => some (.float, .bool, fun c => match c with | .float b => .bool (!F64.isNaN b && F64.sign b) | y => y)
  | "f.sign" => some (.float, .int, fun c => match c with
      | .float b => .int (if F64.isNaN b then 7 else if F64.key b < 0 then -1 else if F64.key b > 0 then 1 else 0) | y => y)
  | "b.not" => some (.bool, .bool, fun c => match c with | .bool b => .bool (!b) | y => y)
  | "b.int" => some (.bool, .int, fun c => match c with | .bool b => .int (if b then 1 else 0) | y => y)
  | "s.addx" => some (.string, .string, fun c => match c with | .str (some s) => .str (some (s ++ [120])) | y => y)
  | "s.len" => some (.string, .int, fun c => match c with | .str (some s) => .int s.length | _ => .int (-1))
  | "s.isnil" => some (.string, .bool, fun c => match c with | .str none => .bool true | _ => .bool false)
  | "s.nilempty" => some (.string, .string, fun c => match c with | .str (some []) => .str none | y => y)
  | "s.flen" => some (.string, .float, fun c => match c with
      | .str (some s) => .float (fDiv (fOfInt s.length) (fOfInt 2)) | _ => .float (fDiv (fOfInt (-1)) (fOfInt 2)))
  | "s.nvl" => some (.string, .string, fun c => match c with | .str none => .str (some [78, 47, 65]) | y => y)
  | "f.str" => some (.float, .string, fun c => match c with
      | .float b => .str (some (strBytes (if F64.isNaN b then "nan" else if F64.sign b then "neg" else "pos"))) | y => y)
  | "b.half" => some (.bool, .float, fun c => match c with | .bool b => .float (fDiv (fOfInt (if b then 3 else 1)) (fOfInt 2)) | y => y)
  | "b.str" => some (.bool, .string, fun c => match c with | .bool b => .str (some (strBytes (if b then "T" else "F"))) | y => y)
  | _ => none

def fn2 (id : String) : Option (CType × (Cell → Cell → Cell)) :=
  match id with
  | "i.add" => some (.int, fun a b => match a, b with | .int x, .int y => .int (wrap64 (x + y)) | x, _ => x)
  | "i.sub" => some (.int, fun a b => match a, b with | .int x, .int y => .int (wrap64 (x - y)) | x, _ => x)
  | "f.add" => some (.float, fun a b => match a, b with | .float x, .float y => .float (fAdd x y) | x, _ => x)
  | "f.first" => some (.float, fun a _ => a)
  | "b.and" => some (.bool, fun a b => match a, b with | .bool x, .bool y => .bool (x && y) | x, _ => x)
  | "b.xor" => some (.bool, fun a b => match a, b with | .bool x, .bool y => .bool (x != y) | x, _ => x)
  | "s.cat" => some (.string, fun a b => match a, b with
      | .str none, y => y | x, .str none => x
      | .str (some x), .str (some y) => .str (some (x ++ y)) | x, _ => x)
  | "s.second" => some (.string, fun _ b => b)
  | "s.coalesce" => some (.string, fun a b => match a, b with
      | .str (some x), _ => .str (some x)
      | _, .str (some y) => .str (some y)
      | _, _ => .str (some [110, 47, 97]))      -- "n/a": not null even when both arguments are
  | _ => none

/-- Function kind of a column type: enum columns take string functions. -/
def fkind : CType → CType
  | .enum => .string
  | t => t

def f0Cell (kind : String) (i : Int) : Option Cell :=
  match kind with
  | "f0i" => some (.int i)
  | "f0r" => none   -- handled by `f0rCell` (needs the seed)
  | "f0f" => some (.float (fDiv (fOfInt i) (fOfInt 2)))
  | "f0b" => some (.bool (i % 3 == 0))
  | "f0s" => some (if i % 4 == 3 then .str none else .str (some (strBytes ("s" ++ toString i))))
  | _ => none

def zeroCell : CType → Cell
  | .int => .int 0 | .float => .float 0 | .bool => .bool false | _ => .str none

/-- Oracle for the built-in "ToUpper" (Unicode case mapping is a parameter; C18 treats the mapping itself). -/
abbrev UpperOracle := Bytes → Bytes

/-- One instruction applied to the rows selected by `mask` (all rows for `Apply`); other rows get the zero/null value.
`fillAll` mirrors the recorded finding KF-C06-fapply-fill: column copies ignore the mask. -/
def applyInstr (up : UpperOracle) (f : LFrame) (mask0 : Nat → Bool) (ins : Instr) (fillAll : Bool := false) : Res :=
  let mask : Nat → Bool := match ins.fn with
    | .colCopy _ => if fillAll then (fun _ => true) else mask0
    | _ => mask0
  let buildZ (ty : CType) (z : Cell) (g : Nat → Cell) : Res :=
    if legalName ins.dst then
      .ok (setCol f { name := ins.dst, ty := ty, cells := ((List.range f.n).map (fun r => if mask r then g r else z)).toArray })
    else .err
  let build (ty : CType) (g : Nat → Cell) : Res := buildZ ty (zeroCell ty) g
  match ins.src1, ins.src2 with
  | none, _ =>
    match ins.fn with
    | .const c => build (cellType c) (fun _ => c)
    | .colCopy name =>
      match f.find? name with
      | none => .err
      | some c =>
        if ins.dst == name then .ok f
        else if !legalName ins.dst then .err
        else .ok (setCol f { c with name := ins.dst, cells := ((List.range f.n).map (fun r => if mask r then c.cells[r]! else zeroCell c.ty)).toArray })
    | .f0 "f0r" seed =>
      -- pseudo-random distinct numbers: the k-th selected row receives (seed·7919 + k·104729) mod 1000003
      let sel := (List.range f.n).filter mask
      let cells := (List.range f.n).map (fun r =>
        match sel.idxOf? r with
        | some k => Cell.int ((seed * 7919 + (k : Int) * 104729) % 1000003)
        | none => Cell.int 0)
      if legalName ins.dst then .ok (setCol f { name := ins.dst, ty := .int, cells := cells.toArray }) else .err
    | .f0 kind start =>
      match f0Cell kind 0 with
      | none => .err
      | some z =>
        -- the k-th selected row (in frame order) receives the k-th value produced
        let sel := (List.range f.n).filter mask
        let cells := (List.range f.n).map (fun r =>
          match sel.idxOf? r with
          | some k => (f0Cell kind (start + k)).getD z
          | none => zeroCell (cellType z))
        if legalName ins.dst then .ok (setCol f { name := ins.dst, ty := cellType z, cells := cells.toArray }) else .err
    | _ => .err
  | some s1, none =>
    match f.find? s1 with
    | none => .err
    | some c =>
      match ins.fn with
      | .f1 id =>
        match fn1 id with
        | some (src, rt, g) => if fkind c.ty == src then build rt (fun r => g c.cells[r]!) else .err
        | none => .err
      | .builtin name =>
        if name == strBytes "ToUpper" && c.ty == .enum then
          -- the value table is upper-cased, values that become equal are merged (the column stays an enum, no longer strict)
          if legalName ins.dst then
            -- (the code works on the value table and ignores the row mask of FilteredApply: recorded finding, `fillAll`)
            let m : Nat → Bool := if fillAll then (fun _ => true) else mask0
            .ok (setCol f { name := ins.dst, ty := .enum, vals := dedup (c.vals.map up), strict := false,
                            cells := ((List.range f.n).map (fun r => if m r then
                              (match c.cells[r]! with | .str (some s) => Cell.str (some (up s)) | y => y) else Cell.str none)).toArray })
          else .err
        else if name == strBytes "ToUpper" && c.ty == .string then
          -- the result is built as a packed string blob: rows outside the mask hold the empty string (the zero value)
          buildZ .string (.str (some [])) (fun r => match c.cells[r]! with | .str (some s) => .str (some (up s)) | x => x)
        else .err
      | _ => .err
  | some s1, some s2 =>
    match f.find? s1, f.find? s2 with
    | some c1, some c2 =>
      match ins.fn with
      | .f2 id =>
        match fn2 id with
        | some (src, g) =>
          if c1.ty == c2.ty && fkind c1.ty == src then build src (fun r => g c1.cells[r]! c2.cells[r]!) else .err
        | none => .err
      | _ => .err
    | _, _ => .err

def applyS (up : UpperOracle) (f : LFrame) (mask : Nat → Bool) (fillAll : Bool := false) : List Instr → Res
  | [] => .ok f
  | i :: is => match applyInstr up f mask i fillAll with
    | .ok f' => applyS up f' mask fillAll is
    | .err => .err

/-- Index of the first instruction that fails (the list length if none does). -/
def firstFailing (up : UpperOracle) (f : LFrame) (mask : Nat → Bool) : List Instr → Nat
  | [] => 0
  | i :: is => match applyInstr up f mask i with
    | .ok f' => 1 + firstFailing up f' mask is
    | .err => 0

def rowNumsS (f : LFrame) (name : Bytes) : Res :=
  if legalName name then
    .ok (setCol f { name := name, ty := .int, cells := ((List.range f.n).map (fun (r : Nat) => Cell.int (r : Int))).toArray })
  else .err

def filteredApplyS (lo : LikeOracle) (up : UpperOracle) (f : LFrame) (c : Clause) (is : List Instr) (fillAll : Bool := false) : Res :=
  if c.wellFormed lo f then applyS up f (c.sem lo f) fillAll is else .err

/-! ## C07: Eval -/

inductive EArg where
  | col (n : Bytes)
  | val (c : Cell)
  | x (op : String) (args : List EArg)
  | bad
  deriving Repr, Inhabited

/-- A computed column: type and cells. -/
structure Val where
  ty : CType
  vals : List Bytes := []
  strict : Bool := false
  cells : Array Cell
  deriving Inhabited

/-- Evaluation contexts used by the harness: "d" = default context, "m" = default plus the user functions
myinc/mysub/myneg/myaddx, "o" = "m" with int "+" replaced by x + y + 1000. -/
def ctxHasUser (ctx : String) : Bool := ctx == "m" || ctx == "o"

def evalUnaryBase (ctx : String) (op : String) (t : CType) : Option (CType × (Cell → Cell)) :=
  if op.startsWith "my" && !ctxHasUser ctx then none else
  match fkind t, op with
  | .int, "abs" => some (.int, fun c => match c with | .int x => .int (wrap64 (if x < 0 then -x else x)) | y => y)
  | .int, "str" => some (.string, fun c => match c with | .int x => .str (some (intStr x)) | y => y)
  | .int, "bool" => some (.bool, fun c => match c with | .int x => .bool (x != 0) | y => y)
  | .int, "myinc" => some (.int, fun c => match c with | .int x => .int (wrap64 (x + 1)) | y => y)
  | .float, "abs" => some (.float, fun c => match c with | .float b => .float (b &&& 0x7fffffffffffffff) | y => y)
  | .float, "myneg" => some (.float, fun c => match c with | .float b => .float (b ^^^ F64.signBit) | y => y)
  | .bool, "!" => some (.bool, fun c => match c with | .bool b => .bool (!b) | y => y)
  | .bool, "str" => some (.string, fun c => match c with | .bool b => .str (some (strBytes (if b then "true" else "false"))) | y => y)
  | .bool, "int" => some (.int, fun c => match c with | .bool b => .int (if b then 1 else 0) | y => y)
  | .string, "str" => some (.string, fun c => c)
  | .string, "len" => some (.int, fun c => match c with | .str (some s) => .int s.length | _ => .int 0)
  | .string, "myaddx" => some (.string, fun c => match c with | .str (some s) => .str (some (s ++ [120])) | y => y)
  | .string, "mynvl" => some (.string, fun c => match c with | .str none => .str (some [78, 47, 65]) | y => y)   -- "N/A" for null
  | _, _ => none

def evalBinaryBase (ctx : String) (op : String) (t : CType) : Option (Cell → Cell → Cell) :=
  if op.startsWith "my" && !ctxHasUser ctx then none else
  if ctx == "o" && op == "+" && fkind t == .int then
    some (fun a b => match a, b with | .int x, .int y => .int (wrap64 (wrap64 (x + y) + 1000)) | x, _ => x) else
  match fkind t, op with
  | .int, "+" => some (fun a b => match a, b with | .int x, .int y => .int (wrap64 (x + y)) | x, _ => x)
  | .int, "-" => some (fun a b => match a, b with | .int x, .int y => .int (wrap64 (x - y)) | x, _ => x)
  | .int, "mysub" => some (fun a b => match a, b with | .int x, .int y => .int (wrap64 (x - y)) | x, _ => x)
  | .int, "*" => some (fun a b => match a, b with | .int x, .int y => .int (wrap64 (x * y)) | x, _ => x)
  | .float, "+" => some (fun a b => match a, b with | .float x, .float y => .float (fAdd x y) | x, _ => x)
  | .float, "-" => some (fun a b => match a, b with | .float x, .float y => .float (fSub x y) | x, _ => x)
  | .float, "*" => some (fun a b => match a, b with | .float x, .float y => .float (fMul x y) | x, _ => x)
  | .bool, "&" => some (fun a b => match a, b with | .bool x, .bool y => .bool (x && y) | x, _ => x)
  | .bool, "|" => some (fun a b => match a, b with | .bool x, .bool y => .bool (x || y) | x, _ => x)
  | .bool, "!=" => some (fun a b => match a, b with | .bool x, .bool y => .bool (x != y) | x, _ => x)
  | .bool, "nand" => some (fun a b => match a, b with | .bool x, .bool y => .bool (!(x && y)) | x, _ => x)
  | .string, "+" => some (fun a b => match a, b with
      | .str none, y => y | x, .str none => x
      | .str (some x), .str (some y) => .str (some (x ++ y)) | x, _ => x)
  | _, _ => none

/-- Every function of the Apply catalogue is also registered in the user contexts as "my.<id>" (one per signature that
SetFunc accepts): it is found for columns of its operand type, whatever its result type. -/
def evalUnary (ctx : String) (op : String) (t : CType) : Option (CType × (Cell → Cell)) :=
  if ctxHasUser ctx && op.startsWith "my." then
    match fn1 (op.drop 3).toString with
    | some (src, dst, g) => if fkind t == src then some (dst, g) else none
    | none => none
  else evalUnaryBase ctx op t

def evalBinary (ctx : String) (op : String) (t : CType) : Option (Cell → Cell → Cell) :=
  if ctxHasUser ctx && op.startsWith "my." then
    match fn2 (op.drop 3).toString with
    | some (src, g) => if fkind t == src then some g else none
    | none => none
  else evalBinaryBase ctx op t

mutual
/-- Denotation of an expression argument over a frame; `none` = error. -/
def EArg.den (ctx : String) (f : LFrame) : EArg → Option Val
  | .col n => (f.find? n).map (fun c => { ty := c.ty, vals := c.vals, strict := c.strict, cells := c.cells })
  | .val c => some { ty := cellType c, cells := (List.replicate f.n c).toArray }
  | .bad => none
  | .x op args => denExpr ctx f op args
/-- `Expr(op, a₀, …)`: one argument = unary, two = binary, more = left fold. -/
def denExpr (ctx : String) (f : LFrame) (op : String) : List EArg → Option Val
  | [] => none
  | [a] => match a.den ctx f with
    | none => none
    | some v => match evalUnary ctx op v.ty with
      | none => none
      | some (rt, g) => some { ty := rt, cells := v.cells.map g }
  | a :: rest => match a.den ctx f with
    | none => none
    | some v => denFold ctx f op v rest
def denFold (ctx : String) (f : LFrame) (op : String) (acc : Val) : List EArg → Option Val
  | [] => some acc
  | b :: rest => match b.den ctx f with
    | none => none
    | some w =>
      if acc.ty != w.ty then none else
      match evalBinary ctx op acc.ty with
      | none => none
      | some g =>
        denFold ctx f op { ty := fkind acc.ty, cells := (List.range f.n).map (fun r => g acc.cells[r]! w.cells[r]!) |>.toArray } rest
end

/-- A malformed tree (bad argument, `Expr` without arguments) is an error even if never evaluated. -/
def evalS (ctx : String) (f : LFrame) (dst : Bytes) (e : EArg) : Res :=
  match e.den ctx f with
  | none => .err
  | some v =>
    match e with
    | .col n => copyS f dst n
    | _ => if legalName dst then .ok (setCol f { name := dst, ty := v.ty, vals := v.vals, strict := v.strict, cells := v.cells }) else .err

/-! ## C03: Sort -/

structure Order where
  col : Bytes
  reverse : Bool
  nullLast : Bool
  deriving Repr, Inhabited

/-- Order of two cells under one key: natural order, null smallest (largest with NullLast), Reverse inverting everything. -/
def keyCmp (c : LCol) (o : Order) (a b : Cell) : Ordering :=
  let base : Ordering :=
    match a.isNull, b.isNull with
    | true, true => .eq
    | true, false => if o.nullLast then .gt else .lt
    | false, true => if o.nullLast then .lt else .gt
    | false, false => (cellCmp c a b).getD .eq
  if o.reverse then base.swap else base

def rowLess (f : LFrame) (keys : List (LCol × Order)) (r1 r2 : Nat) : Bool :=
  match keys with
  | [] => false
  | (c, o) :: ks =>
    match keyCmp c o c.cells[r1]! c.cells[r2]! with
    | .lt => true
    | .gt => false
    | .eq => rowLess f ks r1 r2

def sortKeys (f : LFrame) (os : List Order) : Option (List (LCol × Order)) :=
  os.mapM (fun o => (f.find? o.col).map (fun c => (c, o)))

/-- `out` is an acceptable result of sorting `f`: same columns, a permutation of the rows, no descent under the keys. -/
def isSortedResult (f out : LFrame) (os : List Order) : Bool :=
  match sortKeys out os with
  | none => false
  | some keys =>
    out.n == f.n && out.names == f.names &&
    sameRowMultiset f.rows out.rows &&
    (List.range (out.n - 1)).all (fun r => !rowLess out keys (r + 1) r)

/-! ## C04 / C05: grouping -/

def keyEq (gbNull : Bool) (c : LCol) (a b : Cell) : Bool :=
  match a.isNull, b.isNull with
  | true, true => gbNull
  | false, false => cellCmp c a b == some .eq
  | _, _ => false

def rowKeyEq (gbNull : Bool) (keys : List LCol) (r1 r2 : Nat) : Bool :=
  keys.all (fun c => keyEq gbNull c c.cells[r1]! c.cells[r2]!)

/-- Groups of row numbers in order of first occurrence; rows of a group in frame order.
A row is never equal to itself when it has a null key and `gbNull` is off, so it opens its own group. -/
def groupsS (gbNull : Bool) (keys : List LCol) (n : Nat) : List (List Nat) :=
  let step (gs : Array (List Nat)) (r : Nat) : Array (List Nat) :=
    match gs.findIdx? (fun g => match g with | h :: _ => rowKeyEq gbNull keys h r | [] => false) with
    | some i => gs.modify i (fun g => g ++ [r])
    | none => gs.push [r]
  ((List.range n).foldl step #[]).toList

inductive AggFn where
  | builtin (name : String)
  | user (id : String)
  deriving Repr, Inhabited

structure Agg where
  fn : AggFn
  col : Bytes
  as : Bytes
  deriving Repr, Inhabited

/-- Go's math.Max / math.Min: an infinity of the right sign wins even over NaN, then NaN, then ±0 ordering. -/
def fMax (a b : UInt64) : UInt64 :=
  if a == 0x7ff0000000000000 || b == 0x7ff0000000000000 then 0x7ff0000000000000
  else if F64.isNaN a || F64.isNaN b then F64.canonNaN
  else if F64.key a == 0 && F64.key b == 0 then (if F64.sign a then b else a)
  else if F64.key a ≥ F64.key b then a else b
def fMin (a b : UInt64) : UInt64 :=
  if a == 0xfff0000000000000 || b == 0xfff0000000000000 then 0xfff0000000000000
  else if F64.isNaN a || F64.isNaN b then F64.canonNaN
  else if F64.key a == 0 && F64.key b == 0 then (if F64.sign a then a else b)
  else if F64.key a ≤ F64.key b then a else b

def ints (vs : List Cell) : List Int := vs.filterMap (fun c => match c with | .int x => some x | _ => none)
def floats (vs : List Cell) : List UInt64 := vs.filterMap (fun c => match c with | .float x => some x | _ => none)
def bools (vs : List Cell) : List Bool := vs.filterMap (fun c => match c with | .bool x => some x | _ => none)

/-- Aggregation of one group's values (in frame order); result type and value. `none` = not defined for the column type. -/
def aggApply (fn : AggFn) (t : CType) : Option (CType × (List Cell → Cell)) :=
  match fn, fkind t with
  | .builtin "count", _ => some (.int, fun vs => .int vs.length)
  | .builtin "sum", .int => some (.int, fun vs => .int ((ints vs).foldl (fun a x => wrap64 (a + x)) 0))
  | .builtin "max", .int => some (.int, fun vs => match ints vs with | x :: xs => .int (xs.foldl max x) | [] => .int 0)
  | .builtin "min", .int => some (.int, fun vs => match ints vs with | x :: xs => .int (xs.foldl min x) | [] => .int 0)
  | .builtin "sum", .float => some (.float, fun vs => .float ((floats vs).foldl fAdd 0))
  | .builtin "avg", .float => some (.float, fun vs => .float (fDiv ((floats vs).foldl fAdd 0) (fOfInt vs.length)))
  | .builtin "max", .float => some (.float, fun vs => match floats vs with | x :: xs => .float (xs.foldl fMax x) | [] => .float 0)
  | .builtin "min", .float => some (.float, fun vs => match floats vs with | x :: xs => .float (xs.foldl fMin x) | [] => .float 0)
  | .builtin "majority", .bool => some (.bool, fun vs => .bool ((bools vs).count true > (bools vs).count false))
  | .user "first", .int => some (.int, fun vs => vs.head!)
  | .user "last", .int => some (.int, fun vs => vs.getLast!)
  | .user "len", .int => some (.int, fun vs => .int vs.length)
  | .user "first", .float => some (.float, fun vs => vs.head!)
  | .user "last", .float => some (.float, fun vs => vs.getLast!)
  | .user "first", .bool => some (.bool, fun vs => vs.head!)
  | .user "all", .bool => some (.bool, fun vs => .bool ((bools vs).all id))
  | .user "first", .string => some (.string, fun vs => vs.head!)
  | .user "join", .string => some (.string, fun vs =>
      .str (some (List.intercalate [124] (vs.map (fun c => match c with | .str (some s) => s | _ => strBytes "<nil>")))))
  | _, _ => none

/-- GroupBy(keys).Aggregate(aggs): one row per group (order of groups unspecified; here first-occurrence order). -/
def groupAggS (f : LFrame) (gbNull : Bool) (keyNames : List Bytes) (aggs : List Agg) : Res :=
  match keyNames.mapM f.find? with
  | none => .err
  | some keys =>
    let gs := if f.n == 0 then [] else if keys.isEmpty then [List.range f.n] else groupsS gbNull keys f.n
    let keyCols : List LCol := keys.map (fun c => { c with cells := (gs.map (fun g => c.cells[g.head!]!)).toArray })
    let rec go (acc : List LCol) : List Agg → Option (List LCol)
      | [] => some acc
      | a :: as =>
        match f.find? a.col with
        | none => none
        | some c =>
          let nm := if a.as.isEmpty then a.col else a.as
          if acc.any (·.name == nm) then none else
          match aggApply a.fn c.ty with
          | none => none
          | some (rt, g) =>
            go (acc ++ [{ name := nm, ty := rt, cells := (gs.map (fun grp => g (grp.map (fun r => c.cells[r]!)))).toArray }]) as
    match go keyCols aggs with
    | none => .err
    | some cols => .ok { cols := cols, n := gs.length }

/-- Acceptable result of GroupBy/Aggregate: the spec's rows in any order. -/
def isGroupAggResult (expected out : LFrame) : Bool :=
  out.n == expected.n && out.names == expected.names &&
  (out.cols.map (·.ty)) == (expected.cols.map (·.ty)) &&
  sortRows (expected.rows.map (·.map id)) == sortRows out.rows ||
  (out.n == expected.n && out.names == expected.names &&
   (out.cols.map (·.ty)) == (expected.cols.map (·.ty)) &&
   -- floats produced by arithmetic: compare with NaNs collapsed
   (let a := sortRows (expected.rows.map (·.map (fun c => match c with | .float b => if F64.isNaN b then Cell.float F64.canonNaN else c | _ => c)))
    let b := sortRows (out.rows.map (·.map (fun c => match c with | .float b => if F64.isNaN b then Cell.float F64.canonNaN else c | _ => c)))
    a == b))

/-- Acceptable result of Distinct: a sub-multiset of the input rows with exactly one row per key class. -/
def isDistinctResult (f out : LFrame) (gbNull : Bool) (keyNames : List Bytes) : Bool :=
  let kn := if keyNames.isEmpty then f.names else keyNames
  match kn.mapM f.find?, kn.mapM out.find? with
  | some keys, some okeys =>
    let classes := groupsS gbNull keys f.n
    out.names == f.names && out.n == classes.length &&
    -- every output row is an input row, used at most as often as it occurs
    (let inRows := sortRows f.rows
     let outRows := sortRows out.rows
     let rec sub : List (List Cell) → List (List Cell) → Nat → Bool
       | [], _, _ => true
       | _ :: _, [], _ => false
       | o :: os, i :: is, fuel => match fuel with
         | 0 => false
         | fuel + 1 => match rowCmp o i with
           | .eq => sub os is fuel
           | .gt => sub (o :: os) is fuel
           | .lt => false
     sub outRows inRows (inRows.length + outRows.length + 1)) &&
    -- output rows have pairwise different keys
    (List.range out.n).all (fun r1 => (List.range out.n).all (fun r2 => r1 ≥ r2 || !rowKeyEq gbNull okeys r1 r2))
  | _, _ => false

/-! ## C08: New -/

inductive NewKind where
  | cells (ty : CType)       -- []int, []float64, []bool, []*string, []string
  | const (ty : CType)       -- ConstInt … ConstString
  | unsupported
  deriving Repr, Inhabited

structure NewCol where
  name : Bytes
  kind : NewKind
  count : Int
  cells : List Cell          -- for const kinds: one cell
  deriving Repr, Inhabited

def insertSorted (x : Bytes) : List Bytes → List Bytes
  | [] => [x]
  | y :: ys => if bytesLe x y then x :: y :: ys else y :: insertSorted x ys
def sortNames (l : List Bytes) : List Bytes := l.foldr insertSorted []

/-- Enum construction: declared values ⇒ strict (undeclared value is an error); otherwise values in order of first
appearance, at most 255. -/
def mkEnum (declared : List Bytes) (cells : List Cell) : Option (List Bytes × Bool) :=
  if declared.length > 255 then none
  else if !declared.isEmpty then
    if cells.all (fun c => match c with | .str (some s) => declared.contains s | _ => true) then some (declared, true) else none
  else
    let vals := cells.foldl (fun acc c => match c with | .str (some s) => if acc.contains s then acc else acc ++ [s] | _ => acc) []
    if vals.length > 255 then none else some (vals, false)

def newS (cols : List NewCol) (order : List Bytes) (enums : List (Bytes × List Bytes)) : Res :=
  if !cols.all (fun c => legalName c.name) then .err else
  let ord := if order.isEmpty then sortNames (cols.map (·.name)) else order
  if ord.length != cols.length then .err else
  if !ord.all (fun n => cols.any (·.name == n)) then .err else
  -- every column (taken in the requested order) must be supported and have the common length
  let ordered := ord.filterMap (fun n => cols.find? (·.name == n))
  let len : Int := match ordered with | c :: _ => c.count | [] => 0
  let rec build (used : List Bytes) : List NewCol → Option (List LCol × List Bytes)
    | [] => some ([], used)
    | c :: cs =>
      if c.count < 0 then none else
      let cells : Option (CType × List Cell) := match c.kind with
        | .cells ty => some (ty, c.cells)
        | .const ty => some (ty, List.replicate c.count.toNat (c.cells.head!))
        | .unsupported => none
      match cells with
      | none => none
      | some (ty, cl) =>
        let lc : Option (LCol × List Bytes) :=
          if ty == .string then
            match enums.find? (·.1 == c.name) with
            | some (_, decl) =>
              -- a constant column registers its value even when it has no rows
              let src := match c.kind with | .const _ => c.cells ++ cl | _ => cl
              (mkEnum decl src).map (fun (vals, strict) =>
                ({ name := c.name, ty := .enum, vals := vals, strict := strict, cells := cl.toArray }, c.name :: used))
            | none => some ({ name := c.name, ty := .string, cells := cl.toArray }, used)
          else some ({ name := c.name, ty := ty, cells := cl.toArray }, used)
        match lc with
        | none => none
        | some (col, used') =>
          if c.count != len then none else
          match build used' cs with
          | none => none
          | some (rest, u) => some (col :: rest, u)
  match build [] ordered with
  | none => .err
  | some (lcols, used) =>
    if enums.all (fun e => used.contains e.1) then .ok { cols := lcols, n := len.toNat } else .err

/-! ## C09: Equals -/

def cellEq (a b : Cell) : Bool :=
  match a, b with
  | .float x, .float y => (F64.isNaN x && F64.isNaN y) || (!F64.isNaN x && !F64.isNaN y && F64.key x == F64.key y)
  | x, y => x == y

def equalsS (a b : LFrame) : Bool :=
  a.n == b.n && a.names == b.names && (a.cols.map (·.ty)) == (b.cols.map (·.ty)) &&
  (List.zip a.cols b.cols).all (fun (x, y) => (List.range a.n).all (fun r => cellEq x.cells[r]! y.cells[r]!))

end QF
