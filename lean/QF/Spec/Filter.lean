import QF.Spec.Basic
/-
C02 spec: row-wise semantics of filter clauses over logical frames.
`filterS c f` = err when the clause is ill-formed/ill-typed for the frame, else
exactly the rows of `f` satisfying `sem`, in frame order, all columns intact.
-/
namespace QF

inductive Arg where
  | cell (c : Cell)
  | nil
  | ints (l : List Int)
  | strs (l : List Bytes)
  | col (name : Bytes)
  | bad
  deriving Repr, Inhabited

inductive Cmp where
  | builtin (s : String)
  | p1 (id : String)
  | p2
  | bad
  deriving Repr, Inhabited

structure Leaf where
  inv : Bool
  col : Bytes
  cmp : Cmp
  arg : Arg
  deriving Repr, Inhabited

inductive Clause where
  | leaf (l : Leaf)
  | and (cs : List Clause)
  | or (cs : List Clause)
  | not (c : Clause)
  | null
  deriving Repr, Inhabited

/-- Oracle for like/ilike: (pattern, caseInsensitive, cell) ↦ match; `none` = pattern rejected (invalid regexp).
The matching rule itself is the subject of C18; here it is a parameter. -/
structure LikeOracle where
  valid : Bytes → Bool → Bool
  isMatch : Bytes → Bool → Bytes → Bool

def ordOp (op : String) (o : Ordering) : Bool :=
  match op with
  | "<" => o == .lt
  | "<=" => o != .gt
  | ">" => o == .gt
  | ">=" => o != .lt
  | "=" => o == .eq
  | _ => false

def isOrd6 (op : String) : Bool := op ∈ ["<", "<=", ">", ">=", "=", "!="]

/-- Comparison of two cells under one of the six comparators: null/NaN makes everything false except `!=`. -/
def cmp6 (c : LCol) (op : String) (a b : Cell) : Bool :=
  match cellCmp c a b with
  | some o => if op == "!=" then o != .eq else ordOp op o
  | none => op == "!="

def intBits (x : Int) : Nat := (x % 18446744073709551616).toNat

def userP1 (id : String) (c : Cell) : Option Bool :=
  match id, c with
  | "odd", .int x => some (x % 2 == 1 || x % 2 == -1)
  | "neg", .float b => some (!F64.isNaN b && F64.sign b)
  | "id", .bool b => some b
  | "isnil", .str s => some s.isNone
  | "len2", .str s => some (match s with | some x => x.length ≥ 2 | none => false)
  | _, _ => none

def userP2 (a b : Cell) : Option Bool :=
  match a, b with
  | .int x, .int y => some (x < y)
  | .float x, .float y => some (F64.lt x y)
  | .bool x, .bool y => some (x && !y)
  | .str x, .str y => some (match x, y with | some u, some v => u == v | _, _ => false)
  | _, _ => none

/-- Float value of an int cell (exact for |x| < 2^53; the generators stay within that range for promoted comparisons). -/
def intToF64Bits (x : Int) : UInt64 := (Float.ofInt x).toBits

def promote (c : LCol) : LCol :=
  if c.ty == .int then
    { c with ty := .float, cells := c.cells.map (fun x => match x with | .int v => .float (intToF64Bits v) | y => y) }
  else c

/-- The row predicate of a leaf (before `inv`), or `none` when the leaf is rejected with an error. -/
def leafPred (lo : LikeOracle) (f : LFrame) (l : Leaf) : Option (Nat → Bool) :=
  match f.find? l.col with
  | none => none
  | some c =>
    match l.cmp with
    | .bad => none
    | .p1 id =>
      -- the function's parameter type must be the column's type
      let okTy := match id, c.ty with
        | "odd", .int => true | "neg", .float => true | "id", .bool => true
        | "isnil", .string => true | "isnil", .enum => true
        | "len2", .string => true | "len2", .enum => true
        | _, _ => false
      if okTy then some (fun r => (userP1 id c.cells[r]!).getD false) else none
    | .p2 =>
      match l.arg with
      | .col an =>
        match f.find? an with
        | none => none
        | some ac =>
          -- custom two-argument predicates need an argument column of the same kind; int/float are promoted first
          let (c', ac') := if c.ty == .int && ac.ty == .float then (promote c, ac)
                           else if c.ty == .float && ac.ty == .int then (c, promote ac) else (c, ac)
          if c'.ty == ac'.ty && c.ty == c'.ty then some (fun r => (userP2 c'.cells[r]! ac'.cells[r]!).getD false) else none
      | _ => none
    | .builtin op =>
      match l.arg with
      | .bad => none
      | .col an =>
        match f.find? an with
        | none => none
        | some ac =>
          let (c', ac') := if c.ty == .int && ac.ty == .float then (promote c, ac)
                           else if c.ty == .float && ac.ty == .int then (c, promote ac) else (c, ac)
          if c'.ty != ac'.ty then none
          else if c'.ty == .enum && (c'.vals != ac'.vals) then none
          else
            let okOp := if c'.ty == .bool then op == "=" || op == "!=" else isOrd6 op
            if okOp then some (fun r => cmp6 c' op c'.cells[r]! ac'.cells[r]!) else none
      | .nil =>
        if c.ty == .bool then none
        else if op == "isnull" then some (fun r => c.cells[r]!.isNull)
        else if op == "isnotnull" then some (fun r => !c.cells[r]!.isNull)
        else none
      | .ints vs =>
        if c.ty == .int && op == "in" then some (fun r => match c.cells[r]! with | .int x => vs.contains x | _ => false) else none
      | .strs vs =>
        if (c.ty == .string || c.ty == .enum) && op == "in" then
          some (fun r => match c.cells[r]! with | .str (some x) => vs.contains x | _ => false) else none
      | .cell k =>
        match c.ty, k with
        | .int, .int v =>
          if isOrd6 op then some (fun r => cmp6 c op c.cells[r]! k)
          else if op == "any_bits" then some (fun r => match c.cells[r]! with
            | .int x => wrap64 (Int.ofNat (intBits x &&& intBits v)) > 0 | _ => false)
          else if op == "all_bits" then some (fun r => match c.cells[r]! with
            | .int x => (intBits x &&& intBits v) == intBits v | _ => false)
          else none
        | .float, .float v =>
          if F64.isNaN v then none
          else if isOrd6 op then some (fun r => cmp6 c op c.cells[r]! k) else none
        | .bool, .bool _ =>
          if op == "=" || op == "!=" then some (fun r => cmp6 c op c.cells[r]! k) else none
        | .string, .str (some v) =>
          if isOrd6 op then some (fun r => cmp6 c op c.cells[r]! k)
          else if op == "like" || op == "ilike" then
            let ci := op == "ilike"
            if lo.valid v ci then some (fun r => match c.cells[r]! with | .str (some x) => lo.isMatch v ci x | _ => false) else none
          else none
        | .enum, .str (some v) =>
          if isOrd6 op then
            if (enumRank c.vals v).isSome then some (fun r => cmp6 c op c.cells[r]! k)
            else if c.strict then none
            else some (fun _ => op == "!=")
          else if op == "like" || op == "ilike" then
            let ci := op == "ilike"
            if lo.valid v ci then some (fun r => match c.cells[r]! with | .str (some x) => lo.isMatch v ci x | _ => false) else none
          else none
        | _, _ => none

mutual
/-- Construction-time errors: `And()`/`Or()` without sub-clauses, anywhere in the tree. -/
def Clause.constructOk : Clause → Bool
  | .leaf _ => true
  | .null => true
  | .not c => c.constructOk
  | .and cs => !cs.isEmpty && constructOkAll cs
  | .or cs => !cs.isEmpty && constructOkAll cs
def constructOkAll : List Clause → Bool
  | [] => true
  | c :: cs => c.constructOk && constructOkAll cs
end

mutual
def Clause.typed (lo : LikeOracle) (f : LFrame) : Clause → Bool
  | .leaf l => (leafPred lo f l).isSome
  | .null => true
  | .not c => c.typed lo f
  | .and cs => typedAll lo f cs
  | .or cs => typedAll lo f cs
def typedAll (lo : LikeOracle) (f : LFrame) : List Clause → Bool
  | [] => true
  | c :: cs => c.typed lo f && typedAll lo f cs
end

mutual
/-- Row-wise truth of a (well-typed) clause. -/
def Clause.sem (lo : LikeOracle) (f : LFrame) : Clause → Nat → Bool
  | .leaf l, r => match leafPred lo f l with
      | some p => if l.inv then !p r else p r
      | none => false
  | .null, _ => true
  | .not c, r => !c.sem lo f r
  | .and cs, r => semAll lo f cs r
  | .or cs, r => semAny lo f cs r
def semAll (lo : LikeOracle) (f : LFrame) : List Clause → Nat → Bool
  | [], _ => true
  | c :: cs, r => c.sem lo f r && semAll lo f cs r
def semAny (lo : LikeOracle) (f : LFrame) : List Clause → Nat → Bool
  | [], _ => false
  | c :: cs, r => c.sem lo f r || semAny lo f cs r
end

def Clause.wellFormed (lo : LikeOracle) (f : LFrame) (c : Clause) : Bool := c.constructOk && c.typed lo f

/-- C02: the rows kept by `Filter`. -/
def keptRows (lo : LikeOracle) (f : LFrame) (c : Clause) : List Nat :=
  (List.range f.n).filter (c.sem lo f)

def filterS (lo : LikeOracle) (f : LFrame) (c : Clause) : Res :=
  if c.wellFormed lo f then .ok (f.pick (keptRows lo f c)) else .err

end QF
