import QF.Spec.Basic
/-
Exact decimal ↔ float64 arithmetic on naturals (no `Float`): the definition of
"parses back to the identical float64" and "shortest decimal that round-trips"
used by C13, C14 and C16.
-/
namespace QF.Num

/-- A finite float64 as (sign, mantissa m, binary exponent e): value = m · 2^e, with m < 2^53. -/
structure Dyadic where
  neg : Bool
  m : Nat
  e : Int
  deriving Repr, DecidableEq

def decode (b : UInt64) : Option Dyadic :=
  let bits : Nat := b.toNat
  let neg : Bool := bits / 2 ^ 63 == 1
  let ex : Nat := (bits / 2 ^ 52) % 2048
  let frac : Nat := bits % 2 ^ 52
  if ex == 2047 then none
  else if ex == 0 then some ⟨neg, frac, -1074⟩
  else some ⟨neg, frac + 2 ^ 52, Int.ofNat ex - 1075⟩

/-- Compare m1·2^e1·10^d1 with m2·2^e2·10^d2 (all non-negative magnitudes), exactly. -/
def cmpScaled (m1 : Nat) (e1 d1 : Int) (m2 : Nat) (e2 d2 : Int) : Ordering :=
  let p2 (x : Int) : Nat := 2 ^ x.toNat
  let p10 (x : Int) : Nat := 10 ^ x.toNat
  -- move negative exponents to the other side
  let l := m1 * p2 (if e1 ≥ e2 then e1 - e2 else 0) * p10 (if d1 ≥ d2 then d1 - d2 else 0)
  let r := m2 * p2 (if e2 > e1 then e2 - e1 else 0) * p10 (if d2 > d1 then d2 - d1 else 0)
  compare l r

/-- Correctly rounded (round half to even) float64 bits of the decimal `m · 10^d`. -/
def ofDecimal (neg : Bool) (m : Nat) (d : Int) : UInt64 :=
  let sign : Nat := if neg then 2 ^ 63 else 0
  if m == 0 then UInt64.ofNat sign else
  -- value = num / den
  let num := if d ≥ 0 then m * 10 ^ d.toNat else m
  let den := if d ≥ 0 then 1 else 10 ^ (-d).toNat
  -- choose binary exponent e so that 2^52 ≤ num / (den · 2^e) < 2^53, with e ≥ -1074
  let ln := Nat.log2 num
  let ld := Nat.log2 den
  let e0 : Int := (ln : Int) - (ld : Int) - 52
  let q (e : Int) : Nat := if e ≥ 0 then num / (den * 2 ^ e.toNat) else (num * 2 ^ (-e).toNat) / den
  -- adjust e0 by at most one step in either direction
  let e1 : Int := if q e0 ≥ 2 ^ 53 then e0 + 1 else if q e0 < 2 ^ 52 then e0 - 1 else e0
  let e : Int := if e1 < -1074 then -1074 else e1
  let n2 := if e ≥ 0 then num else num * 2 ^ (-e).toNat
  let d2 := if e ≥ 0 then den * 2 ^ e.toNat else den
  let qq := n2 / d2
  let rem := n2 % d2
  let up := 2 * rem > d2 || (2 * rem == d2 && qq % 2 == 1)
  let mant := if up then qq + 1 else qq
  -- renormalise if rounding carried into the next binade
  let (mant, e) := if mant ≥ 2 ^ 53 then (mant / 2, e + 1) else (mant, e)
  if mant == 0 then UInt64.ofNat sign
  else if mant < 2 ^ 52 then UInt64.ofNat (sign + mant)   -- subnormal (e = -1074)
  else
    let biased : Int := e + 1075
    if biased ≥ 2047 then UInt64.ofNat (sign + 2047 * 2 ^ 52)   -- overflow to infinity
    else UInt64.ofNat (sign + biased.toNat * 2 ^ 52 + (mant - 2 ^ 52))

/-- Plain positional decimal text `[-]ddd[.ddd]` (no exponent) as (neg, digits-as-number, decimal exponent, number of digits). -/
def parsePositional (s : List UInt8) : Option (Bool × Nat × Int) :=
  let (neg, s) := match s with | 45 :: r => (true, r) | r => (false, r)
  let isDigit (c : UInt8) : Bool := 48 ≤ c && c ≤ 57
  let ip := s.takeWhile isDigit
  let rest := s.dropWhile isDigit
  let (fp, ok) := match rest with
    | [] => (([] : List UInt8), true)
    | 46 :: r => (r, r.all isDigit && !r.isEmpty)
    | _ => ([], false)
  if !ok || ip.isEmpty then none else
  let digits := ip ++ fp
  let m := digits.foldl (fun acc c => acc * 10 + (c.toNat - 48)) 0
  some (neg, m, -(fp.length : Int))

/-- Significant digits of a decimal mantissa after removing trailing zeros. -/
def normalize (m : Nat) (d : Int) : Nat × Int :=
  let rec go (fuel : Nat) (m : Nat) (d : Int) : Nat × Int :=
    match fuel with
    | 0 => (m, d)
    | fuel + 1 => if m != 0 && m % 10 == 0 then go fuel (m / 10) (d + 1) else (m, d)
  go 400 m d

def numDigits (m : Nat) : Nat := (toString m).length

/-- Canonical positional form: no superfluous zeros (`1.50`, `01`), `-0` allowed for negative zero. -/
def canonicalForm (text : List UInt8) : Bool :=
  let t := match text with | 45 :: r => r | r => r
  let ip := t.takeWhile (· != 46)
  let hasDot := t.contains 46
  (ip == [48] || ip.head? != some 48) && (!hasDot || t.getLast? != some 48)

/-- `text` denotes the finite float `bits` exactly under correct rounding, and no decimal with fewer significant digits does,
and among the decimals of that length in the rounding interval it is a closest one to the exact value. -/
def isShortestRoundTrip (bits : UInt64) (text : List UInt8) : Bool :=
  canonicalForm text &&
  match parsePositional text, decode bits with
  | some (neg, m, d), some dy =>
    if ofDecimal neg m d != bits then false else
    if dy.m == 0 then m == 0 else
    let (sm, sd) := normalize m d
    let k := numDigits sm
    -- candidates with k-1 digits: truncate / round up the text's own digits is not enough; use the exact value of the float
    -- exact value v = dy.m · 2^dy.e ; at k-1 significant digits its neighbours are floor and ceil of v / 10^p
    if k ≤ 1 then true else
    -- decimal exponent of the leading digit of sm·10^sd is sd + k - 1; k-1 digits means unit 10^(sd+1)
    let p : Int := sd + 1
    -- floor(v / 10^p) computed exactly
    let vnum := if dy.e ≥ 0 then dy.m * 2 ^ dy.e.toNat else dy.m
    let vden := if dy.e ≥ 0 then 1 else 2 ^ (-dy.e).toNat
    let (n, dd) := if p ≥ 0 then (vnum, vden * 10 ^ p.toNat) else (vnum * 10 ^ (-p).toNat, vden)
    let lo := n / dd
    let hi := lo + 1
    let shorterLo := lo != 0 && ofDecimal neg lo p == bits
    let shorterHi := ofDecimal neg hi p == bits
    if shorterLo || shorterHi then false else
    -- closeness among k-digit decimals: neither sm-1 nor sm+1 (at exponent sd) is in the interval and strictly closer
    let dist (c : Nat) : Nat × Nat :=   -- |c·10^sd − v| as a fraction with a common denominator
      let (cn, cd) := if sd ≥ 0 then (c * 10 ^ sd.toNat, 1) else (c, 10 ^ (-sd).toNat)
      let a := cn * vden
      let b := vnum * cd
      ((if a ≥ b then a - b else b - a), cd * vden)
    let closer (c : Nat) : Bool := ofDecimal neg c sd == bits && (dist c).1 < (dist sm).1
    !(closer (sm + 1) || (sm > 0 && closer (sm - 1)))
  | _, _ => false

/-- The text denotes exactly this float (round trip only). -/
def parsesTo (bits : UInt64) (text : List UInt8) : Bool :=
  match parsePositional text with
  | some (neg, m, d) => ofDecimal neg m d == bits
  | none => false

/-- Decimal text with optional exponent (JSON number / strconv output): `[-]d+[.d+][(e|E)[+-]d+]`. -/
def parseNumber (s : List UInt8) : Option (Bool × Nat × Int) :=
  let isE (c : UInt8) : Bool := c == 101 || c == 69
  let mant := s.takeWhile (fun c => !isE c)
  let rest := s.dropWhile (fun c => !isE c)
  match parsePositional mant with
  | none => none
  | some (neg, m, d) =>
    match rest with
    | [] => some (neg, m, d)
    | _ :: ex =>
      let (eneg, ex) := match ex with | 45 :: r => (true, r) | 43 :: r => (false, r) | r => (false, r)
      if ex.isEmpty || !ex.all (fun c => 48 ≤ c && c ≤ 57) then none else
      let ev : Nat := ex.foldl (fun acc c => acc * 10 + (c.toNat - 48)) 0
      some (neg, m, d + (if eneg then -(ev : Int) else (ev : Int)))

end QF.Num
