import QF.Spec.Ops
/-
C12 spec: what a CSV document denotes (RFC 4180) and what ReadCSV makes of it.
-/
namespace QF

/-- L2: the RFC 4180 grammar as a scanner over the bytes.
Records end at LF or CRLF outside quotes; a non-empty tail is a last record without line break;
fields split at delimiters outside quotes; inside quotes `""` denotes `"`. -/
inductive CsvSt where
  | fieldStart      -- at the start of a field
  | unquoted
  | quoted
  | quoteSeen       -- a quote inside a quoted field: either the first of `""` or the closing quote
  deriving DecidableEq, Repr

structure CsvAcc where
  st : CsvSt := .fieldStart
  field : List UInt8 := []          -- reversed
  row : List Bytes := []            -- reversed
  rows : List (List Bytes) := []    -- reversed
  pending : Bool := false           -- a delimiter has just been consumed: another field must follow
  deriving Repr

def CsvAcc.emitField (a : CsvAcc) (stripCR : Bool) : CsvAcc :=
  let f := a.field.reverse
  let f := if stripCR && f.getLast? == some 13 then f.dropLast else f
  { a with row := f :: a.row, field := [], st := .fieldStart }

def CsvAcc.endRecord (a : CsvAcc) : CsvAcc :=
  { a with rows := a.row.reverse :: a.rows, row := [], pending := false }

def csvStep (delim : UInt8) (a : CsvAcc) (b : UInt8) : CsvAcc :=
  match a.st with
  | .fieldStart =>
    if b == 34 then { a with st := .quoted, pending := false }
    else if b == delim then { (a.emitField false) with pending := true }
    else if b == 10 then (a.emitField true).endRecord
    else { a with st := .unquoted, field := [b], pending := false }
  | .unquoted =>
    if b == delim then { (a.emitField false) with pending := true }
    else if b == 10 then (a.emitField true).endRecord
    else { a with field := b :: a.field }
  | .quoted =>
    if b == 34 then { a with st := .quoteSeen } else { a with field := b :: a.field }
  | .quoteSeen =>
    if b == 34 then { a with st := .quoted, field := b :: a.field }
    else if b == delim then { (a.emitField false) with pending := true }
    else if b == 10 then (a.emitField false).endRecord
    else if b == 13 then a           -- CR of a CRLF row end after the closing quote
    else { a with st := .quoted, field := b :: a.field }   -- not well-formed; not generated

def rfcParse (delim : UInt8) (doc : Bytes) : List (List Bytes) :=
  let a := doc.foldl (csvStep delim) {}
  let a := match a.st with
    | .fieldStart => if a.pending then (a.emitField false).endRecord else if a.row.isEmpty then a else a.endRecord
    | .unquoted => (a.emitField true).endRecord
    | .quoted | .quoteSeen => (a.emitField false).endRecord
  a.rows.reverse

/-- strconv as a parameter: cell text ↦ (Atoi, ParseFloat, ParseBool) results. -/
structure ParseOracle where
  atoi : Bytes → Option Int
  pfloat : Bytes → Option UInt64
  pbool : Bytes → Option Bool

structure CsvCfg where
  delim : UInt8 := 44
  emptyNull : Bool := false
  ignoreEmpty : Bool := false
  rename : Bool := false
  «alias» : Bytes := []
  headers : List Bytes := []
  types : List (Bytes × String) := []
  enums : List (Bytes × List Bytes) := []

def renameDup (headers : List Bytes) : List Bytes :=
  -- first occurrences keep their name; a later duplicate gets the first free `name<counter>`
  let rec go (fuel : Nat) (seen : List Bytes) (firsts : List Bytes) : List Bytes → List Bytes
    | [] => []
    | h :: rest =>
      if seen.contains h then
        let rec pick (k : Nat) (n : Nat) : Bytes :=
          match k with
          | 0 => h
          | k + 1 =>
            let cand := h ++ strBytes (toString n)
            if (seen ++ firsts).contains cand then pick k (n + 1) else cand
        let nm := pick fuel 0
        nm :: go fuel (nm :: seen) firsts rest
      else h :: go fuel (h :: seen) firsts rest
  go (headers.length + 2) [] (headers.eraseDups) headers

/-- Column construction from the cell texts: declared type, or int / float (empty = NaN) / bool / string in that order. -/
def csvColumn (po : ParseOracle) (cfg : CsvCfg) (name : Bytes) (cells : List Bytes) : Option LCol × Bool :=
  -- second component: an enum declaration was consumed
  let declared := (cfg.types.find? (·.1 == name)).map (·.2)
  let asInt : Option (List Cell) := cells.mapM (fun c => (po.atoi c).map Cell.int)
  let asFloat : Option (List Cell) := cells.mapM (fun c => if c.isEmpty then some (Cell.float F64.canonNaN) else (po.pfloat c).map Cell.float)
  let asBool : Option (List Cell) := cells.mapM (fun c => (po.pbool c).map Cell.bool)
  let asStr : List Cell := cells.map (fun c => if c.isEmpty && cfg.emptyNull then Cell.str none else Cell.str (some c))
  let mk (ty : CType) (cs : List Cell) : Option LCol := some { name := name, ty := ty, cells := cs.toArray }
  match declared with
  | none | some "" =>
    if cells.isEmpty then (mk .undef [], false)
    else match asInt with
      | some cs => (mk .int cs, false)
      | none => match asFloat with
        | some cs => (mk .float cs, false)
        | none => match asBool with
          | some cs => (mk .bool cs, false)
          | none => (mk .string asStr, false)
  | some "int" => (asInt.bind (mk .int), false)
  | some "float" => (asFloat.bind (mk .float), false)
  | some "bool" => (asBool.bind (mk .bool), false)
  | some "string" => (mk .string asStr, false)
  | some "enum" =>
    let decl := ((cfg.enums.find? (·.1 == name)).map (·.2)).getD []
    match mkEnum decl asStr with
    | some (vals, strict) => (some { name := name, ty := .enum, vals := vals, strict := strict, cells := asStr.toArray }, (cfg.enums.any (·.1 == name)))
    | none => (none, true)
  | some _ => (none, false)

def isEmptyLine (row : List Bytes) : Bool := row == [[]]

/-- ReadCSV on a well-formed document. -/
def readCsvS (po : ParseOracle) (cfg : CsvCfg) (doc : Bytes) : Res :=
  let recs := rfcParse cfg.delim doc
  let hdr : Option (List Bytes × List (List Bytes)) :=
    if cfg.headers.isEmpty then
      match recs with
      | [] => none
      | h :: rest => some (h, rest)
    else some (cfg.headers, recs)
  match hdr with
  | none => .err
  | some (headers, body) =>
    let rec rows (acc : List (List Bytes)) : List (List Bytes) → Option (List (List Bytes))
      | [] => some acc.reverse
      | r :: rs =>
        if r.length != headers.length then
          if isEmptyLine r && cfg.ignoreEmpty then rows acc rs else none
        else if isEmptyLine r && cfg.ignoreEmpty then rows acc rs
        else rows (r :: acc) rs
    match rows [] body with
    | none => .err
    | some data =>
      let headers := if cfg.«alias».isEmpty then headers else headers.map (fun h => if h.isEmpty then cfg.«alias» else h)
      let headers := if cfg.rename then renameDup headers else headers
      let cols := (List.range headers.length).map (fun i =>
        csvColumn po cfg (headers[i]!) (data.map (fun r => r[i]!)))
      if cols.any (fun c => c.1.isNone) then .err else
      -- every enum declaration must have been consumed by an enum column
      let usedEnums := (List.zip headers cols).filterMap (fun (h, c) => if c.2 then some h else none)
      if !(cfg.enums.all (fun e => usedEnums.contains e.1)) then .err else
      if headers.eraseDups.length != headers.length then .err else
      if !(headers.all legalName) then .err else
      .ok { cols := cols.filterMap (·.1), n := data.length }

end QF
