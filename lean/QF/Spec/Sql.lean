import QF.Spec.Ops
import QF.Spec.Json
/-
C19 spec: the INSERT statements ToSQL executes and the frame ReadSQL builds from a result set.
-/
namespace QF

structure SqlCfg where
  escape : Nat        -- 0 = none, else the rune used to wrap identifiers
  incrementing : Bool
  table : Bytes

def escapeIdent (cfg : SqlCfg) (s : Bytes) : Bytes :=
  if cfg.escape == 0 then s
  else
    let e := Json.encodeRune cfg.escape
    e ++ s ++ e

def intercalateB (sep : Bytes) : List Bytes → Bytes
  | [] => []
  | [x] => x
  | x :: xs => x ++ sep ++ intercalateB sep xs

/-- `INSERT INTO <table> (<c1>,…) VALUES (?,…);` or `$1,…` when incrementing. -/
def insertText (cfg : SqlCfg) (names : List Bytes) : Bytes :=
  strBytes "INSERT INTO " ++ escapeIdent cfg cfg.table ++ strBytes " (" ++
  intercalateB [44] (names.map (escapeIdent cfg)) ++ strBytes ") VALUES (" ++
  intercalateB [44] ((List.range names.length).map (fun i =>
    if cfg.incrementing then strBytes ("$" ++ toString (i + 1)) else [63])) ++ strBytes ");"

/-- The statements of ToSQL: one per row in frame order, arguments = the row's cells (null string → NULL). -/
def toSqlS (cfg : SqlCfg) (f : LFrame) : List (Bytes × List Cell) :=
  (List.range f.n).map (fun r => (insertText cfg f.names, f.row r))

/-- A driver value of a result set. -/
inductive SqlVal where
  | int (v : Int) | float (b : UInt64) | bool (b : Bool) | text (s : Bytes) | null
  deriving Repr, DecidableEq, Inhabited

/-- ReadSQL for one column: 0 = no coercion, 1 = Int64ToBool, 2 = StringToFloat.
`fixed` is the precision rounding (parameter), `pfloat` strconv.ParseFloat (parameter). -/
def sqlColumn (name : Bytes) (coerce : Nat) (fixed : UInt64 → UInt64) (pfloat : Bytes → Option UInt64)
    (vals : List SqlVal) : Option LCol :=
  match coerce with
  | 1 => (vals.mapM (fun (v : SqlVal) => match v with | .int x => some (Cell.bool (x != 0)) | _ => none)).map
           (fun (cs : List Cell) => ({ name := name, ty := .bool, cells := cs.toArray } : LCol))
  | 2 => if vals.all (· == .null) then none else (vals.mapM (fun (v : SqlVal) => match v with | .text s => (pfloat s).map (fun b => Cell.float (fixed b)) | .null => some (Cell.float F64.canonNaN) | _ => none)).map
           (fun (cs : List Cell) => ({ name := name, ty := .float, cells := cs.toArray } : LCol))
  | _ =>
    match vals.find? (· != .null) with
    | none => none      -- a column of NULLs only has no type
    | some (.int _) => (vals.mapM (fun (v : SqlVal) => match v with | .int x => some (Cell.int x) | _ => none)).map
           (fun (cs : List Cell) => ({ name := name, ty := .int, cells := cs.toArray } : LCol))
    | some (.bool _) => (vals.mapM (fun (v : SqlVal) => match v with | .bool x => some (Cell.bool x) | _ => none)).map
           (fun (cs : List Cell) => ({ name := name, ty := .bool, cells := cs.toArray } : LCol))
    | some (.float _) => (vals.mapM (fun (v : SqlVal) => match v with
           | .float b => some (Cell.float (fixed b)) | .null => some (Cell.float F64.canonNaN) | _ => none)).map
           (fun (cs : List Cell) => ({ name := name, ty := .float, cells := cs.toArray } : LCol))
    | some (.text _) => (vals.mapM (fun (v : SqlVal) => match v with
           | .text s => some (Cell.str (some s)) | .null => some (Cell.str none) | _ => none)).map
           (fun (cs : List Cell) => ({ name := name, ty := .string, cells := cs.toArray } : LCol))
    | some .null => none

def readSqlS (names : List Bytes) (coerce : List Nat) (fixed : UInt64 → UInt64) (pfloat : Bytes → Option UInt64)
    (rows : List (List SqlVal)) : Res :=
  if rows.isEmpty then .ok LFrame.empty else
  let cols := (List.range names.length).map (fun j =>
    sqlColumn names[j]! (coerce[j]!) fixed pfloat (rows.map (fun r => r[j]!)))
  if cols.any (·.isNone) then .err
  else if !(names.all legalName) || names.eraseDups.length != names.length then .err
  else .ok { cols := cols.filterMap id, n := rows.length }

/-- ReadSQL with a coercion map given by name: a coercion that names a column the result set does not have is an invalid
argument and is reported (the columns are known once the first row arrives; an empty result set has none to check). -/
def readSqlNamedS (names : List Bytes) (cmap : List (Bytes × Nat)) (fixed : UInt64 → UInt64) (pfloat : Bytes → Option UInt64)
    (rows : List (List SqlVal)) : Res :=
  if rows.isEmpty then .ok LFrame.empty
  else if cmap.any (fun e => e.2 != 0 && !names.contains e.1) then .err
  else readSqlS names (names.map (fun n => ((cmap.find? (·.1 == n)).map (·.2)).getD 0)) fixed pfloat rows

end QF
