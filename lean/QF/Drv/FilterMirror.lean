import QF.Spec.Filter
import QF.Core.Filter
import QF.Gen.Facts
/-
The Filter mirror (`F.Clause.filter`: shared mask, OR batches merged by orFrames, Not by leaf flip or complement
merge, inverse shortcut with fallback) run on a logical frame. Kernel shapes and the inverse table come from the facts
extracted from today's source (`QF.Gen`), the cell predicates from the spec's `leafPred`.
-/
namespace QF.Drv
open QF

def pkgOf : CType → String
  | .int => "icolumn" | .float => "fcolumn" | .bool => "bcolumn" | .string => "scolumn" | .enum => "ecolumn" | .undef => "?"

/-- name of the comparator table consulted for an argument kind, per column package -/
def tableOf (ty : CType) (arg : Arg) (op : String) : String :=
  match ty, arg with
  | .int, .cell _ => "filterFuncs" | .int, .ints _ => "multiInputFilterFuncs" | .int, .col _ => "filterFuncs2" | .int, .nil => "filterFuncs0"
  | .float, .cell _ => "filterFuncs1" | .float, .col _ => "filterFuncs2" | .float, .nil => "filterFuncs0"
  | .bool, .cell _ => "filterFuncs" | .bool, .col _ => "filterFuncs2"
  | .string, .cell _ => "filterFuncs1" | .string, .strs _ => "multiInputFilterFuncs" | .string, .col _ => "filterFuncs2" | .string, .nil => "filterFuncs0"
  | .enum, .cell _ => if op == "like" || op == "ilike" then "multiFilterFuncs" else "filterFuncs1"
  | .enum, .strs _ => "multiInputFilterFuncs" | .enum, .col _ => "filterFuncs2" | .enum, .nil => "filterFuncs0"
  | _, _ => "?"

/-- shape of the kernel that the source uses today for (column type, argument kind, comparator) -/
def kernelShape (ty : CType) (arg : Arg) (op : String) : Option F.KShape :=
  let pkg := pkgOf ty
  -- an int column compared with a float column is promoted: the float kernels run
  match (Gen.tables.find? (fun t => t.1 == pkg && t.2.1 == tableOf ty arg op)).bind (fun t => t.2.2.lookup op) with
  | none => none
  | some fn =>
    if ty == .enum && (tableOf ty arg op == "multiFilterFuncs" || tableOf ty arg op == "multiInputFilterFuncs") then
      -- value-set filters on enums go through Column.filterWithBitset
      match Gen.kernels.find? (fun k => k.1 == pkg && k.2.1 == "Column.filterWithBitset") with
      | some k => if k.2.2.1 == "guarded" then some .guarded else none
      | none => none
    else
    match Gen.kernels.find? (fun k => k.1 == pkg && k.2.1 == fn) with
    | none => none
    | some k =>
      let sh := k.2.2.1
      if sh == "guarded" || sh == "guarded+pre" || sh == "delegates" then some .guarded
      else if sh == "noop" then some .guarded          -- leaves the mask alone = accumulating the constant false
      else if sh == "unguarded" && k.2.2.2 == "true" then some (.setAll true)
      else if sh == "unguarded" && k.2.2.2 == "false" then some (.setAll false)
      else none

def mirrorLeaf (lo : LikeOracle) (f : LFrame) (l : Leaf) : F.Leaf :=
  match leafPred lo f l with
  | none => { shape := .guarded, pred := fun _ => false, err := true }
  | some p =>
    let colTy : CType := match f.find? l.col with
      | some c =>
        -- promotion of an int column compared with a float column
        (match l.arg with
         | .col an => (match f.find? an with | some ac => if c.ty == .int && ac.ty == .float then .float else c.ty | none => c.ty)
         | _ => c.ty)
      | none => .undef
    match l.cmp with
    | .builtin op =>
      let shape := (kernelShape colTy l.arg op).getD .guarded
      -- the non-strict enum with an unknown constant: nothing happens, except `!=` which sets every entry
      let shape := match f.find? l.col, l.arg with
        | some c, .cell (.str (some v)) =>
          if c.ty == .enum && isOrd6 op && (enumRank c.vals v).isNone then (if op == "!=" then F.KShape.setAll true else .guarded) else shape
        | _, _ => shape
      let inv : Option (F.KShape × (Nat → Bool)) :=
        match Gen.inverse.lookup op with
        | none => none
        | some iop =>
          match leafPred lo f { l with cmp := .builtin iop }, kernelShape colTy l.arg iop with
          | some q, some sh => some (sh, q)
          | _, _ => none
      { shape := shape, pred := p, inv := inv, inverse := l.inv }
    | _ => { shape := .guarded, pred := p, inverse := l.inv }

mutual
def mirrorClause (lo : LikeOracle) (f : LFrame) : Clause → F.Clause
  | .leaf l => .leaf (mirrorLeaf lo f l)
  | .null => .null
  | .not c => .not (mirrorClause lo f c)
  | .and cs => .and (mirrorClauses lo f cs)
  | .or cs => .or (mirrorClauses lo f cs)
def mirrorClauses (lo : LikeOracle) (f : LFrame) : List Clause → List F.Clause
  | [] => []
  | c :: cs => mirrorClause lo f c :: mirrorClauses lo f cs
end

/-- The rows the Filter mirror keeps (none = error). -/
def mirrorFilter (lo : LikeOracle) (f : LFrame) (c : Clause) : Option (List Nat) :=
  let r := (mirrorClause lo f c).filter { index := List.range f.n }
  if r.err then none else some r.index

end QF.Drv
