import QF.Drv.Hist
import QF.Spec.Render
import QF.Spec.JsonRead
/-
Driver section "jsonsweep": ToJSON of the first n rows of a reverse-sorted frame given by formula, for every n.
-/
namespace QF.Drv
open QF

/-- the frame `base.Sort(a descending).Slice(0, n)`: row j is base row N-1-j -/
def sweepFrame (variant N n : Nat) : LFrame :=
  let rows := (List.range n).map (fun j => N - 1 - j)
  let a : LCol := { name := [97], ty := .int, cells := (rows.map (fun (i : Nat) => Cell.int (Int.ofNat i * 7 - 3))).toArray }
  let s : LCol := { name := [115], ty := .string, cells := (rows.map (fun i => Cell.str (some (List.replicate (i % 3 + 1) 120)))).toArray }
  let f : LCol := { name := [102], ty := .float, cells := (rows.map (fun i => Cell.float (Num.ofDecimal false (i * 5) (-1)))).toArray }
  let b : LCol := { name := [98], ty := .bool, cells := (rows.map (fun i => Cell.bool (i % 2 == 0))).toArray }
  let cols := match variant with
    | 0 => [a] | 1 => [a, s] | 2 => [a, f, b] | _ => [s, a]
  { n := n, cols := cols }

def jsonSweepLine (toks : Array String) : List Msg :=
  match toks[0]? with
  | some "JS" =>
    match runP (do
        let v ← nat
        let N ← nat
        let n ← nat
        let t ← next
        if t == "P" then return (v, N, n, (none : Option Bytes))
        match bytesTok t with
        | .ok bs => return (v, N, n, some bs)
        | .error e => fail e) toks 1 with
    | .error e => [{ cls := "DRIVER-ERROR", op := "tojson", kind := "parse", detail := e }]
    | .ok (v, N, n, none) => [{ cls := "SPEC-MISMATCH", op := "tojson", kind := "panic", detail := s!"ToJSON failed or panicked on the first {n} of {N} rows (variant {v})" }]
    | .ok (v, N, n, some out) =>
      match jsonDenotes (sweepFrame v N n) out with
      | none =>
        -- the two expectations for reading the text back (no ReadJSON is run in this section): `jsonReread` of the frame and
        -- the reader's spec `readJsonCfgS` applied to the bytes written must agree (`C14EndToEnd.readjson_tojson_partial`)
        let f := sweepFrame v N n
        let second : List Msg :=
          -- (exact-arithmetic number parsing of every token: only for texts of moderate size)
          if n == 0 || out.length > 3000 then [] else
          let r2 : Res := match Json.parse out with
            | some doc => readJsonCfgS pnumS doc f.names []
            | none => .err
          match r2 with
          | .ok g => if frameSame false (jsonReread f) g then []
              else [{ cls := "DRIVER-ERROR", op := "tojson", kind := "expectations", detail := s!"the two expectations for ReadJSON of the first {n} rows of the {N}-row frame (variant {v}) disagree: jsonReread gives {showFrame (jsonReread f)}, readJsonS of the written bytes gives {showFrame g}" }]
          | .err => [{ cls := "DRIVER-ERROR", op := "tojson", kind := "expectations", detail := s!"the two expectations for ReadJSON of the first {n} rows of the {N}-row frame (variant {v}) disagree: readJsonS of the written bytes gives an error" }]
        { cls := "OK", op := "tojson", kind := "", detail := "" } :: second
      | some w => [{ cls := "SPEC-MISMATCH", op := "tojson", kind := "value", detail := s!"ToJSON of the first {n} rows of the {N}-row frame (variant {v}, {out.length} bytes): {w}; output ends with {repr (bytesToString (out.drop (out.length - 40)))}" }]
  | _ => []

end QF.Drv
