import QF.Drv.Hist
import QF.Core.Grouper
/-
Driver section "grpadv": the real hash grouper with injected hash values against the table mirror `G.groupBy`
(exact slot order and statistics) and against the spec (the groups are the key classes in row order).
-/
namespace QF.Drv
open QF

/-- Big GroupBy (keys by formula: row i has key i mod k): the result must be the partition into key classes, rows of a
class in row order. Linear-time check with arrays. -/
def grpBigCheck (n k : Nat) (groups : List (List Nat)) : Option String :=
  let unassigned := n
  let step (st : Array Nat × Array Bool × Option String) (g : List Nat) : Array Nat × Array Bool × Option String :=
    let (owner, seen, err) := st
    if err.isSome then st else
    match g with
    | [] => (owner, seen, some "empty group")
    | h :: _ =>
      if h ≥ n then (owner, seen, some s!"row {h} out of range") else
      let key := h % k
      if seen[key]! then (owner, seen, some s!"key {key} has more than one group (second one starts at row {h})") else
      let seen := seen.set! key true
      let rec go (fuel : Nat) (rows : List Nat) (prev : Option Nat) (owner : Array Nat) : Array Nat × Option String :=
        match fuel with
        | 0 => (owner, some "fuel")
        | fuel + 1 =>
          match rows with
          | [] => (owner, none)
          | r :: rest =>
            if r ≥ n then (owner, some s!"row {r} out of range")
            else if r % k != key then (owner, some s!"row {r} (key {r % k}) is in the group of key {key}")
            else if owner[r]! != unassigned then (owner, some s!"row {r} occurs twice")
            else if (match prev with | some p => decide (p ≥ r) | none => false) then (owner, some s!"rows of key {key} not in row order")
            else go fuel rest (some r) (owner.set! r h)
      let (owner, e) := go (g.length + 1) g none owner
      (owner, seen, e)
  let (owner, _, err) := groups.foldl step (Array.replicate n unassigned, Array.replicate k false, none)
  match err with
  | some e => some e
  | none =>
    match (List.range n).find? (fun r => owner[r]! == unassigned) with
    | some r => some s!"row {r} is in no group"
    | none => none

def grpAdvLine (toks : Array String) : List Msg :=
  match toks[0]? with
  | some "GB" =>
    match runP (do
        let n ← nat
        let k ← nat
        let _mul ← next
        let t ← next
        if t == "P" then return (n, k, none)
        let g ← nat
        let groups ← many g (do let l ← nat; many l nat)
        return (n, k, some groups)) toks 1 with
    | .error e => [{ cls := "DRIVER-ERROR", op := "grpadv", kind := "parse", detail := e }]
    | .ok (_, _, none) => [{ cls := "SPEC-MISMATCH", op := "grpadv", kind := "panic", detail := "grouper panicked on the big input" }]
    | .ok (n, k, some groups) =>
      match grpBigCheck n k groups with
      | none => [{ cls := "OK", op := "grpadv", kind := "", detail := "" }]
      | some why => [{ cls := "SPEC-MISMATCH", op := "grpadv", kind := "groups", detail := s!"GroupBy of {n} rows with {k} distinct keys (key of row i = i mod {k}, hash = key * {toks[3]?.getD "?"}): {groups.length} groups; {why}" }]
  | some "GA" =>
    match runP (do
        let n ← nat
        let keys ← many n int
        let _ ← next
        let hashes ← many n nat
        let t ← next
        if t == "P" then return (keys, hashes, none)
        let k ← nat
        let groups ← many k (do let l ← nat; many l nat)
        let _ ← next
        let dk ← nat
        let d ← many dk nat
        let _ ← next
        let rc ← nat
        let rcoll ← nat
        let icoll ← nat
        let gc ← nat
        let lf ← next
        return (keys, hashes, some (groups, d, rc, rcoll, icoll, gc, lf))) toks 1 with
    | .error e => [{ cls := "DRIVER-ERROR", op := "grpadv", kind := "parse", detail := e }]
    | .ok (_, _, none) => [{ cls := "SPEC-MISMATCH", op := "grpadv", kind := "panic", detail := "grouper panicked" }]
    | .ok (keys, hashes, some (groups, d, rc, rcoll, icoll, gc, lf)) =>
      let ka := keys.toArray
      let ha := hashes.toArray
      let n := ka.size
      let eqv : Nat → Nat → Bool := fun i j => ka[i]! == ka[j]!
      let hash : Nat → Nat := fun i => ha[i]!
      -- spec: groups = key classes, rows in order, any order of groups; distinct = first row of every class
      let classes : List (List Nat) := (List.range n).foldl (fun gs r =>
        match gs.findIdx? (fun g => match g with | h :: _ => eqv h r | [] => false) with
        | some i => gs.modify i (· ++ [r])
        | none => gs ++ [[r]]) []
      let canon (gs : List (List Nat)) : List (List Nat) := (gs.toArray.qsort (fun a b => a.head! < b.head!)).toList
      let specOk := groups.all (· != []) && canon groups == classes && (d.toArray.qsort (· < ·)).toList == classes.map (·.head!)
      if !specOk then
        [{ cls := "SPEC-MISMATCH", op := "grpadv", kind := "groups", detail := s!"keys {keys} hashes {hashes}: groups {groups} / distinct {d} are not the key classes {classes}" }]
      else
        match G.groupIndex {} hash eqv (List.range n) true, G.distinct {} hash eqv (List.range n) with
        | some t, some md =>
          let mg := t.slots.toList.filterMap fun s => s.map fun e => if e.ix.isEmpty then [e.firstPos] else e.ix
          let lfOk := match hexNat lf with
            | some b => Float.ofBits (UInt64.ofNat b) == (if t.lfDen == 0 then 0 else Float.ofNat t.lfNum / Float.ofNat t.lfDen) || (t.lfNum == 0 && b == 0)
            | none => false
          -- RelocationCollisions: the implementation also counts the probes made while "re-placing" EMPTY entries during
          -- grow(); the mirror follows it (`G.skipFrom`), so this statistic is compared exactly as well
          if mg == groups && md == d && t.relocCount == rc && t.relocCollisions == rcoll && t.insertCollisions == icoll && t.groupCount == gc && lfOk then
            [{ cls := "OK", op := "grpadv", kind := "", detail := "" }]
          else
            [{ cls := "MIRROR-MISMATCH", op := "grpadv", kind := "table", detail := s!"keys {keys} hashes {hashes}: table mirror gives groups {mg} distinct {md} stats ({t.relocCount},{t.relocCollisions},{t.insertCollisions},{t.groupCount},{t.lfNum}/{t.lfDen}); implementation groups {groups} distinct {d} stats ({rc},{rcoll},{icoll},{gc},{lf})" }]
        | _, _ => [{ cls := "MIRROR-MISMATCH", op := "grpadv", kind := "fuel", detail := "table mirror ran out of fuel" }]
  | _ => []

end QF.Drv
