import QF.Spec.Ops
/-
Token-level parsing of transcript lines (shared by all driver sections).
-/
namespace QF.Drv
open QF

abbrev P := ReaderT (Array String) (StateT Nat (Except String))

def next : P String := do
  let toks ← read
  let i ← get
  if h : i < toks.size then
    set (i + 1)
    return toks[i]
  else throw "unexpected end of line"

def peek? : P (Option String) := do
  let toks ← read
  let i ← get
  return toks[i]?

def atEnd : P Bool := do
  let toks ← read
  let i ← get
  return i ≥ toks.size

def fail {α} (msg : String) : P α := throw msg

def hexVal (c : Char) : Option Nat :=
  if '0' ≤ c && c ≤ '9' then some (c.toNat - '0'.toNat)
  else if 'a' ≤ c && c ≤ 'f' then some (c.toNat - 'a'.toNat + 10)
  else if 'A' ≤ c && c ≤ 'F' then some (c.toNat - 'A'.toNat + 10)
  else none

def hexDecode (s : String) : Option Bytes :=
  let rec go : List Char → List UInt8 → Option (List UInt8)
    | [], acc => some acc.reverse
    | [_], _ => none
    | a :: b :: rest, acc =>
      match hexVal a, hexVal b with
      | some x, some y => go rest (UInt8.ofNat (x * 16 + y) :: acc)
      | _, _ => none
  go s.toList []

def hexNat (s : String) : Option Nat :=
  s.toList.foldl (fun acc c => match acc, hexVal c with | some a, some v => some (a * 16 + v) | _, _ => none) (some 0)

/-- `x<hex>` -/
def bytesTok (t : String) : Except String Bytes :=
  if t.startsWith "x" then
    match hexDecode (t.drop 1).toString with
    | some b => .ok b
    | none => .error s!"bad hex token {t}"
  else .error s!"expected bytes token, got {t}"

def bytes : P Bytes := do
  let t ← next
  match bytesTok t with
  | .ok b => return b
  | .error e => fail e

def nat : P Nat := do
  let t ← next
  match t.toNat? with
  | some n => return n
  | none => fail s!"expected nat, got {t}"

def int : P Int := do
  let t ← next
  match t.toInt? with
  | some n => return n
  | none => fail s!"expected int, got {t}"

def bool01 : P Bool := do
  let t ← next
  match t with
  | "0" => return false
  | "1" => return true
  | _ => fail s!"expected 0/1, got {t}"

def cellTok (t : String) : Except String Cell :=
  if t == "n" || t == "nil" then .ok (.str none)
  else if t.startsWith "x" then (bytesTok t).map (fun b => .str (some b))
  else if t.startsWith "i" then
    match (t.drop 1).toString.toInt? with
    | some v => .ok (.int v)
    | none => .error s!"bad int cell {t}"
  else if t.startsWith "f" then
    match hexNat (t.drop 1).toString with
    | some v => .ok (.float (UInt64.ofNat v))
    | none => .error s!"bad float cell {t}"
  else if t == "b0" then .ok (.bool false)
  else if t == "b1" then .ok (.bool true)
  else .error s!"bad cell token {t}"

def cell : P Cell := do
  let t ← next
  match cellTok t with
  | .ok c => return c
  | .error e => fail e

def many {α} (n : Nat) (p : P α) : P (List α) := do
  let mut acc : Array α := #[]
  for _ in [0:n] do
    acc := acc.push (← p)
  return acc.toList

def bytesToString (b : Bytes) : String :=
  match String.fromUTF8? (ByteArray.mk b.toArray) with
  | some s => s
  | none => "?"

def runP {α} (p : P α) (toks : Array String) (start : Nat := 0) : Except String α :=
  (p.run toks |>.run' start)

def splitLine (line : String) : Array String :=
  ((line.splitOn " ").filter (· ≠ "")).toArray

end QF.Drv
