import QF.Drv.Hist
import QF.Spec.Csv
import QF.Core.Csv
import QF.Core.CsvFull
/-
Driver sections "csvraw" and "csvread".
-/
namespace QF.Drv
open QF

structure CsvPending where
  delim : UInt8
  doc : Bytes
  failAt : Int
  sched : List Nat
  eofWD : Bool := false
  fwd : Bool := false
  deriving Inhabited

structure CState where
  raw : Option CsvPending := none
  po : List (Bytes × Option Int × Option UInt64 × Option Bool) := []
  read : Option (CsvCfg × Bytes × Int × List Nat × Bool × Bool) := none
  deriving Inhabited

instance : Inhabited CsvCfg := ⟨{}⟩

def CState.oracle (s : CState) : ParseOracle :=
  { atoi := fun c => (s.po.find? (·.1 == c)).bind (·.2.1)
    pfloat := fun c => (s.po.find? (·.1 == c)).bind (·.2.2.1)
    pbool := fun c => (s.po.find? (·.1 == c)).bind (·.2.2.2) }

/-- Does a CR occur inside a quoted field? / does the document end with a delimiter outside quotes? -/
def csvShape (delim : UInt8) (doc : Bytes) : Bool × Bool :=
  let (inQ, crInQ, lastDelim) := doc.foldl (fun (st : Bool × Bool × Bool) b =>
    let (inQ, cr, _) := st
    if b == 34 then (!inQ, cr, false)
    else if inQ then (inQ, cr || b == 13, false)
    else (inQ, cr, b == delim)) (false, false, false)
  let _ := inQ
  (crInQ, lastDelim)

def showRows (rows : List (List Bytes)) : String :=
  toString (rows.map (·.map (fun f => repr (bytesToString f) |>.pretty)))

def optCell (t : String) : Except String (Option Cell) :=
  if t == "-" then .ok none else (cellTok t).map some

def csvLine (s : CState) (toks : Array String) : CState × List Msg :=
  let failL (op e : String) : CState × List Msg := (s, [{ cls := "DRIVER-ERROR", op := op, kind := "parse", detail := e }])
  match toks[0]? with
  | some "XP" =>
    match runP (do
        let c ← bytes
        let i ← next
        let f ← next
        let b ← next
        match optCell i, optCell f, optCell b with
        | .ok i, .ok f, .ok b =>
          let iv := match i with | some (.int v) => some v | _ => none
          let fv := match f with | some (.float v) => some v | _ => none
          let bv := match b with | some (.bool v) => some v | _ => none
          return (c, iv, fv, bv)
        | _, _, _ => fail "bad XP") toks 1 with
    | .ok e => ({ s with po := e :: s.po }, [])
    | .error e => failL "XP" e
  | some "C" =>
    match runP (do
        let d ← nat
        let doc ← bytes
        let eofWD ← bool01
        let failAt ← int
        let fwd ← bool01
        let k ← nat
        let sched ← many k nat
        return ({ delim := UInt8.ofNat d, doc := doc, failAt := failAt, sched := sched, eofWD := eofWD, fwd := fwd } : CsvPending)) toks 1 with
    | .ok p => ({ s with raw := some p }, [])
    | .error e => failL "csvraw" e
  | some "CR" =>
    match s.raw with
    | none => failL "csvraw" "CR without C"
    | some p =>
      let s := { s with raw := none }
      match toks[1]? with
      | some "P" => (s, [{ cls := "SPEC-MISMATCH", op := "csvraw", kind := "panic", detail := s!"fastcsv reader panicked on {showRows [[p.doc]]} schedule {p.sched}" }])
      | _ =>
      match runP (do
          let n ← nat
          let rows ← many n (do let k ← nat; many k bytes)
          let e ← next
          return (rows, e)) toks 2 with
      | .error e => failL "csvraw" e
      | .ok (rows, e) =>
        let fa : Option Nat := if p.failAt < 0 then none else some p.failAt.toNat
        let mirror := Csv.readAll p.doc p.sched p.delim 1024 fa p.eofWD p.fwd
        let mirrorOk : Bool × String := match mirror with
          | .panic w => (false, s!"model panics: {w}")
          | .ok (mrows, merr) =>
            let me := match merr with | none => "nil" | some .eof => "eof" | some .fail => "fail"
            (mrows == rows && me == e, s!"model rows {showRows mrows} err={me}")
        -- the proof model (Core/CsvFull: the subject of C12's schedule-independence and read-back theorems) on the same input
        let mirrorOk : Bool × String :=
          if p.failAt ≥ 0 || !mirrorOk.1 || p.doc.length > 2500 then mirrorOk else   -- list-based proof model: quadratic, small documents only
          match Full.readAll p.delim (8 * p.doc.length + 64) (p.doc.length + 2) (Full.initFS p.doc p.sched) [] with
          | none => (false, "proof model Full.readAll runs out of fuel")
          | some (frows, ferr) =>
            let fe := match ferr with | none => "nil" | some .eof => "eof"
            if frows == rows && fe == e then mirrorOk else (false, s!"proof model (Full) rows {showRows frows} err={fe}")
        if p.failAt ≥ 0 then
          -- fault injected: the model decides whether the failing call was reached; if so the reader must end in failure
          let reached := match mirror with | .ok (_, some .fail) => true | _ => false
          if reached && e != "fail" then
            (s, [{ cls := "SPEC-MISMATCH", op := "csvfault", kind := "swallowed", detail := s!"read failure at call {p.failAt} not reported: rows {showRows rows} err={e}" }])
          else if mirrorOk.1 then (s, [{ cls := "OK", op := "csvfault", kind := "", detail := "" }])
          else (s, [{ cls := "MIRROR-MISMATCH", op := "csvfault", kind := "rows", detail := s!"doc {showRows [[p.doc]]} sched {p.sched} failAt {p.failAt}: impl rows {showRows rows} err={e}; {mirrorOk.2}" }])
        else
          let spec := rfcParse p.delim p.doc
          let specOk := spec == rows && e == "eof"
          if specOk && mirrorOk.1 then (s, [{ cls := "OK", op := "csvraw", kind := "", detail := "" }])
          else if specOk then
            (s, [{ cls := "MIRROR-MISMATCH", op := "csvraw", kind := "rows", detail := s!"doc {showRows [[p.doc]]} sched {p.sched}: impl rows {showRows rows} err={e}; {mirrorOk.2}" }])
          else
            let detail := s!"doc {showRows [[p.doc]]} sched {p.sched}: document denotes {showRows spec}, reader returned {showRows rows} err={e}"
            (s, [{ cls := "SPEC-MISMATCH", op := "csvraw", kind := "rows", detail := detail }])
  | some "CV" =>
    match runP (do
        let d ← nat
        let emptyNull ← bool01
        let ignoreEmpty ← bool01
        let rename ← bool01
        let alias ← bytes
        let _hint ← nat
        let h ← next
        if h != "H" then fail "expected H"
        let headers ← parseNames
        let t ← next
        if t != "T" then fail "expected T"
        let nt ← nat
        let types ← many nt (do let n ← bytes; let ty ← next; return (n, ty))
        let e ← next
        if e != "E" then fail "expected E"
        let ne ← nat
        let enums ← many ne (do let n ← bytes; let k ← nat; let vs ← many k bytes; return (n, vs))
        let doc ← bytes
        let eofWD ← bool01
        let failAt ← int
        let fwd ← bool01
        let k ← nat
        let sched ← many k nat
        let cfg : CsvCfg := { delim := UInt8.ofNat d, emptyNull := emptyNull, ignoreEmpty := ignoreEmpty, rename := rename,
                              «alias» := alias, headers := headers, types := types, enums := enums }
        return (cfg, doc, failAt, sched, eofWD, fwd)) toks 1 with
    | .ok r => ({ s with read := some r }, [])
    | .error e => failL "csvread" e
  | some "R" =>
    match s.read with
    | none => failL "csvread" "R without CV"
    | some (cfg, doc, failAt, sched, eofWD, fwd) =>
      let oracle := s.oracle
      let s := { s with read := none, po := [] }
      match runP (do let _ ← int; parseObs) toks 1 with
      | .error e => (s, [{ cls := "SPEC-MISMATCH", op := "csvread", kind := "accessors", detail := s!"observation not well-formed: {e}" }])
      | .ok obs =>
        -- C15: if the failing call is reached (decided by the reader model), the result must carry an error
        let reached := failAt ≥ 0 && (match Csv.readAll doc sched cfg.delim 1024 (some failAt.toNat) eofWD fwd with | .ok (_, some .fail) => true | _ => false)
        if reached then
          match obs with
          | .panic m => (s, [{ cls := "SPEC-MISMATCH", op := "csvreadfault", kind := "panic", detail := s!"ReadCSV panicked: {bytesToString m}" }])
          | .err _ => (s, [{ cls := "OK", op := "csvreadfault", kind := "", detail := "" }])
          | .frame g => (s, [{ cls := "SPEC-MISMATCH", op := "csvreadfault", kind := "swallowed", detail := s!"reader failed at call {failAt} (sched {sched}) of doc {showRows [[doc]]} but ReadCSV returned an error-free frame {showFrame g}" }])
        else
          let exp := readCsvS oracle cfg doc
          let v := judge (.exact exp true) obs
          if v.ok then (s, [{ cls := "OK", op := "csvread", kind := "", detail := "" }])
          else
            let detail := s!"doc {showRows [[doc]]} sched {sched}: {v.detail}"
            (s, [{ cls := "SPEC-MISMATCH", op := "csvread", kind := v.kind, detail := detail }])
  | _ => (s, [])

end QF.Drv
