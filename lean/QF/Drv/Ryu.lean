import QF.Drv.Parse
import QF.Spec.Num
import QF.Drv.Hist
import QF.Props.C14Quote
import QF.Core.Ryu64
import QF.Props.C16CoreCheck
/-
Driver section "ryu": the float formatter.
Spec (C16): output = buffer prefix ++ text, where text is the shortest positional decimal that parses back to the
identical float64 (Num.isShortestRoundTrip), i.e. what strconv.FormatFloat(f,'f',-1,64) yields; infinities as ±Inf.
-/
namespace QF.Drv
open QF

def infText (neg : Bool) : Bytes := strBytes (if neg then "-Inf" else "+Inf")

def ryuLine (toks : Array String) : List Msg :=
  match toks[0]? with
  | some "F" =>
    match runP (do
        let b ← next
        let prefx ← bytes
        let _spare ← nat
        let o ← next
        if o == "P" then
          let m ← bytes
          let _ref ← bytes
          return (b, prefx, (none : Option Bytes), m)
        let ref ← bytes
        match bytesTok o with
        | .ok ob => return (b, prefx, some ob, ref)
        | .error e => fail e) toks 1 with
    | .error e => [{ cls := "DRIVER-ERROR", op := "ryu", kind := "parse", detail := e }]
    | .ok (b, _, none, m) => [{ cls := "SPEC-MISMATCH", op := "ryu", kind := "panic", detail := s!"AppendFloat64f panicked on {b}: {bytesToString m}" }]
    | .ok (b, prefx, some out, ref) =>
      match hexNat b with
      | none => [{ cls := "DRIVER-ERROR", op := "ryu", kind := "parse", detail := "bad bits" }]
      | some bn =>
        let bits := UInt64.ofNat bn
        let text := out.drop prefx.length
        let keepsPrefix := out.take prefx.length == prefx
        let isInf := (bits &&& 0x7fffffffffffffff) == 0x7ff0000000000000
        let okText : Bool :=
          if isInf then text == strBytes (if F64.sign bits then "-Inf" else "+Inf")
          else Num.isShortestRoundTrip bits text
        -- the strconv oracle must itself satisfy the definition (validates the definition against the standard library)
        let refOk := if isInf then true else Num.isShortestRoundTrip bits ref
        if !refOk then [{ cls := "DRIVER-ERROR", op := "ryu", kind := "definition", detail := s!"strconv text {bytesToString ref} for {b} rejected by isShortestRoundTrip" }]
        else if !keepsPrefix then [{ cls := "SPEC-MISMATCH", op := "ryu", kind := "buffer", detail := s!"existing buffer content changed: prefix {bytesToString prefx} out {bytesToString out}" }]
        else if !okText then [{ cls := "SPEC-MISMATCH", op := "ryu", kind := "text", detail := s!"float {b}: wrote {bytesToString text}, shortest round-trip text is {bytesToString ref}" }]
        else if text != ref then [{ cls := "SPEC-MISMATCH", op := "ryu", kind := "text", detail := s!"float {b}: wrote {bytesToString text}, strconv writes {bytesToString ref}" }]
        else [{ cls := "OK", op := "ryu", kind := "", detail := "" }]
  | some "FD" =>
    match runP (do
        let b ← next
        let m ← nat
        let e ← int
        let x ← bool01
        return (b, m, e, x)) toks 1 with
    | .error e => [{ cls := "DRIVER-ERROR", op := "ryudec", kind := "parse", detail := e }]
    | .ok (b, m, e, x) =>
      match hexNat b with
      | none => [{ cls := "DRIVER-ERROR", op := "ryudec", kind := "parse", detail := "bad bits" }]
      | some bn =>
        -- the decimal (m, e) computed by the core must denote the float (magnitude) exactly under correct rounding
        let bits := UInt64.ofNat bn &&& 0x7fffffffffffffff
        -- the mirror of float64ToDecimalExactInt / float64ToDecimal (QF.Ryu64) must compute the same decimal and the same fast-path flag
        let mant := bn % 2 ^ 52
        let exp := bn / 2 ^ 52 % 2048
        let (mm, me, mx) := Ryu64.decimal mant exp
        let specMsgs : List Msg :=
          if Num.ofDecimal false m e != bits then
            [{ cls := "SPEC-MISMATCH", op := "ryudec", kind := "decimal", detail := s!"float {b}: core decimal {m}e{e} does not parse back to it" }]
          else []
        let mirrorMsgs : List Msg :=
          if (mm, me, mx) != (m, e, x) then
            [{ cls := "MIRROR-MISMATCH", op := "ryudec", kind := "mirror", detail := s!"float {b} (mant {mant} exp {exp}): implementation {m}e{e} exactInt={x}, mirror {mm}e{me} exactInt={mx}" }]
          else []   -- (the exact-floor hypothesis of ryu_shortest_partial is no longer checked per float: QF.Props.C16Core.ryu_shortest is unconditional)
        if specMsgs.isEmpty && mirrorMsgs.isEmpty then [{ cls := "OK", op := "ryudec", kind := "", detail := "" }]
        else specMsgs ++ mirrorMsgs
  | _ => []

/-- Section "quote": AppendQuotedString against its mirror (exact bytes) and against the RFC 8259 string parser
(the token must decode to the string with invalid bytes replaced by U+FFFD). -/
def quoteLine (toks : Array String) : List Msg :=
  match toks[0]? with
  | some "QS" =>
    match runP (do let s ← bytes; let o ← bytes; let p ← bytes; return (s, o, p)) toks 1 with
    | .error e => [{ cls := "DRIVER-ERROR", op := "quote", kind := "parse", detail := e }]
    | .ok (s, out, pre) =>
      let tok := out.drop pre.length
      let specOk := out.take pre.length == pre && tok.head? == some 34 &&
        Json.parseStr (tok.length + 1) (tok.drop 1) [] == some (Json.sanitize s, [])
      if !specOk then
        [{ cls := "SPEC-MISMATCH", op := "quote", kind := "token", detail := s!"string {repr s} written as {repr (bytesToString tok)}: not a JSON string token denoting it" }]
      else if tok != QF.Props.C14.appendQuoted s then
        [{ cls := "MIRROR-MISMATCH", op := "quote", kind := "bytes", detail := s!"string {repr s}: implementation {repr (bytesToString tok)}, mirror {repr (bytesToString (QF.Props.C14.appendQuoted s))}" }]
      else [{ cls := "OK", op := "quote", kind := "", detail := "" }]
  | _ => []

end QF.Drv
