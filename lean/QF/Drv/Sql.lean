import QF.Drv.Hist
/-
Driver section "sqlread".
-/
namespace QF.Drv
open QF

structure SqlState where
  fixedO : List (UInt64 × UInt64) := []
  pending : Option (Res × Int × Nat) := none    -- expectation, failing row, number of rows
  deriving Inhabited

def sqlValTok (t : String) : Except String SqlVal :=
  if t == "n" then .ok .null
  else if t.startsWith "y" then (bytesTok ("x" ++ (t.drop 1).toString)).map SqlVal.text
  else match cellTok t with
    | .ok (.int v) => .ok (.int v)
    | .ok (.float b) => .ok (.float b)
    | .ok (.bool b) => .ok (.bool b)
    | .ok (.str (some s)) => .ok (.text s)
    | .ok (.str none) => .ok .null
    | .error e => .error e

/-- strconv.ParseFloat restricted to the texts the generator uses (plain decimals). -/
def pfloatDec (s : Bytes) : Option UInt64 :=
  (Num.parseNumber s).map (fun (neg, m, d) => Num.ofDecimal neg m d)

def sqlLine (st : SqlState) (toks : Array String) : SqlState × List Msg :=
  let failL (e : String) : SqlState × List Msg := (st, [{ cls := "DRIVER-ERROR", op := "sqlread", kind := "parse", detail := e }])
  match toks[0]? with
  | some "XF" =>
    match runP (do let a ← cell; let _p ← nat; let b ← cell; return (a, b)) toks 1 with
    | .ok (.float a, .float b) => ({ st with fixedO := (a, b) :: st.fixedO }, [])
    | .ok _ => failL "bad XF"
    | .error e => failL e
  | some "SR" =>
    match runP (do
        let precision ← nat
        let failRow ← int
        let _ ← next
        let nc ← nat
        let cz ← many nc (do let n ← bytes; let c ← nat; return (n, c))
        let _ ← next
        let names ← parseNames
        let _ ← next
        let nrows ← nat
        let rows ← many nrows (many names.length (do
          let t ← next
          match sqlValTok t with
          | .ok v => return v
          | .error e => fail e))
        return (precision, failRow, cz, names, rows)) toks 1 with
    | .error e => failL e
    | .ok (precision, failRow, cz, names, rows) =>
      let fixed : UInt64 → UInt64 := fun b =>
        if precision == 0 then b else match st.fixedO.find? (·.1 == b) with
          | some (_, r) => r
          | none => b
      let exp := readSqlNamedS names cz fixed pfloatDec rows
      -- NULLs in int / bool columns are outside the property's quantifier (C19: NULLs occur in text or float columns)
      let outOfScope := (List.range names.length).any (fun j =>
        let col := rows.map (fun r => r[j]!)
        col.contains SqlVal.null && (match col.find? (· != SqlVal.null) with
          | some (SqlVal.int _) => true
          | some (SqlVal.bool _) => true
          | _ => false))
      if outOfScope && failRow < 0 then ({ st with pending := none, fixedO := [] }, [{ cls := "OK", op := "sqlread-skipped", kind := "", detail := "" }])
      else ({ st with pending := some (exp, failRow, rows.length), fixedO := [] }, [])
  | some "R" =>
    match st.pending with
    | none => (st, [])
    | some (exp, failRow, _) =>
      let st := { st with pending := none }
      match runP (do let _ ← int; parseObs) toks 1 with
      | .error e => (st, [{ cls := "SPEC-MISMATCH", op := "sqlread", kind := "accessors", detail := e }])
      | .ok obs =>
        if failRow ≥ 0 then
          match obs with
          | .err _ => (st, [{ cls := "OK", op := "sqlreadfault", kind := "", detail := "" }])
          | .panic m => (st, [{ cls := "SPEC-MISMATCH", op := "sqlreadfault", kind := "panic", detail := bytesToString m }])
          | .frame g => (st, [{ cls := "SPEC-MISMATCH", op := "sqlreadfault", kind := "swallowed", detail := s!"the driver failed while fetching row {failRow} but ReadSQL returned an error-free frame {showFrame g}" }])
        else
          let v := judge (.exact exp true) obs
          if v.ok then (st, [{ cls := "OK", op := "sqlread", kind := "", detail := "" }])
          else (st, [{ cls := "SPEC-MISMATCH", op := "sqlread", kind := v.kind, detail := v.detail }])
  | _ => (st, [])

end QF.Drv
