import QF.Drv.Hist
import QF.Core.Upper
/-
Driver section "like": like / ilike matching.
Spec (C18): a leading/trailing % stands for any prefix/suffix, the remainder must occur literally (case-sensitively
for like, after Unicode upper-casing of cell and pattern for ilike); a pattern with regular-expression metacharacters is
a Go regular expression anchored at each end without %, (?i) for ilike. Mirror: NewMatcher's choice of matcher and the
custom ToUpper (U.toUpper).
-/
namespace QF.Drv
open QF

structure LState where
  upper : List (Nat × Nat) := []
  regex : List (Bytes × Option (List (Bytes × Bool))) := []
  deriving Inhabited

def metaChars : List UInt8 := "\\.+*?()|[]{}^$".toUTF8.toList

def decodeAll (s : Bytes) : List Char :=
  let rec go (fuel : Nat) (s : Bytes) (acc : List Char) : List Char :=
    match fuel with
    | 0 => acc.reverse
    | fuel + 1 =>
      match s with
      | [] => acc.reverse
      | _ => let (r, w) := Json.decodeRune s; go fuel (s.drop (max w 1)) (Char.ofNat r :: acc)
  go (s.length + 1) s []

def isInfix (p s : Bytes) : Bool :=
  let rec go (fuel : Nat) (s : Bytes) : Bool :=
    match fuel with
    | 0 => false
    | fuel + 1 => p.isPrefixOf s || (match s with | [] => false | _ :: t => go fuel t)
  go (s.length + 1) s

def trimPercent (s : Bytes) : Bytes :=
  let s := match s with | 37 :: r => r | r => r
  if s.getLast? == some 37 then s.dropLast else s

/-- The documented rule: expected matcher kind and match function for a pattern. -/
def likeRule (st : LState) (pat : Bytes) (cs : Bool) : String × (Bytes → Option Bool) :=
  let up : Char → Char := fun c => match st.upper.find? (·.1 == c.toNat) with
    | some (_, u) => Char.ofNat u
    | none => c
  let upperSpec (s : Bytes) : Bytes := U.spec up (decodeAll s)
  let fuzzyStart := pat.head? == some 37
  let fuzzyEnd := pat.getLast? == some 37
  let hasMeta := pat.any (fun c => metaChars.contains c)
  if hasMeta then
    let re := if fuzzyStart then pat.drop 1 else 94 :: pat
    let re := if fuzzyEnd then re.dropLast else re ++ [36]
    let re := if cs then re else strBytes "(?i)" ++ re
    match st.regex.find? (·.1 == re) with
    | some (_, none) => ("ERR", fun _ => none)
    | some (_, some tbl) => ("Regexp", fun c => (tbl.find? (·.1 == c)).map (·.2))
    | none => ("?missing-regexp-oracle", fun _ => none)
  else
    let core0 := if cs then pat else upperSpec pat
    let norm : Bytes → Bytes := if cs then id else upperSpec
    let pre := if cs then "" else "CI"
    if fuzzyStart && fuzzyEnd then (pre ++ "Contains", fun c => some (isInfix (trimPercent core0) (norm c)))
    else if fuzzyStart then (pre ++ "Suffix", fun c => some ((trimPercent core0).reverse.isPrefixOf (norm c).reverse))
    else if fuzzyEnd then (pre ++ "Prefix", fun c => some ((trimPercent core0).isPrefixOf (norm c)))
    else (pre ++ "Exact", fun c => some (norm c == core0))

def likeLine (st : LState) (toks : Array String) : LState × List Msg :=
  let failL (e : String) : LState × List Msg := (st, [{ cls := "DRIVER-ERROR", op := "like", kind := "parse", detail := e }])
  match toks[0]? with
  | some "XC" =>
    match runP (do let k ← nat; many k (do let a ← nat; let b ← nat; return (a, b))) toks 1 with
    | .ok t => ({ st with upper := t, regex := [] }, [])
    | .error e => failL e
  | some "XG" =>
    match runP (do
        let src ← bytes
        match (← peek?) with
        | some "ERR" => return (src, (none : Option (List (Bytes × Bool))))
        | _ =>
          let k ← nat
          let t ← many k (do let c ← bytes; let m ← bool01; return (c, m))
          return (src, some t)) toks 1 with
    | .ok e => ({ st with regex := e :: st.regex }, [])
    | .error e => failL e
  | some "M" =>
    match runP (do
        let pat ← bytes
        let cs ← bool01
        let kind ← next
        if kind == "P" then return (pat, cs, kind, [])
        let k ← nat
        let cells ← many k (do let c ← bytes; let m ← bool01; let u ← bytes; return (c, m, u))
        return (pat, cs, kind, cells)) toks 1 with
    | .error e => failL e
    | .ok (pat, cs, kind, cells) =>
      if kind == "P" then (st, [{ cls := "SPEC-MISMATCH", op := "like", kind := "panic", detail := s!"NewMatcher/Matches panicked for pattern {repr (bytesToString pat)}" }]) else
      let up : Char → Char := fun c => match st.upper.find? (·.1 == c.toNat) with
        | some (_, u) => Char.ofNat u
        | none => c
      let upperSpec (s : Bytes) : Bytes := U.spec up (decodeAll s)
      let upperMirror (s : Bytes) : Bytes := U.toUpper up 10 (decodeAll s)
      let fuzzyStart := pat.head? == some 37
      let fuzzyEnd := pat.getLast? == some 37
      let hasMeta := pat.any (fun c => metaChars.contains c)
      -- expected matcher kind (mirror of NewMatcher) and expected matches (documented rule)
      let (expKind, expMatch) : String × (Bytes → Option Bool) :=
        if hasMeta then
          let re := if fuzzyStart then pat.drop 1 else 94 :: pat
          let re := if fuzzyEnd then re.dropLast else re ++ [36]
          let re := if cs then re else strBytes "(?i)" ++ re
          match st.regex.find? (·.1 == re) with
          | some (_, none) => ("ERR", fun _ => none)
          | some (_, some tbl) => ("Regexp", fun c => (tbl.find? (·.1 == c)).map (·.2))
          | none => ("?missing-regexp-oracle", fun _ => none)
        else
          let core0 := if cs then pat else upperSpec pat
          let norm : Bytes → Bytes := if cs then id else upperSpec
          let pre := if cs then "" else "CI"
          if fuzzyStart && fuzzyEnd then (pre ++ "Contains", fun c => some (isInfix (trimPercent core0) (norm c)))
          else if fuzzyStart then (pre ++ "Suffix", fun c => some ((trimPercent core0).reverse.isPrefixOf (norm c).reverse))
          else if fuzzyEnd then (pre ++ "Prefix", fun c => some ((trimPercent core0).isPrefixOf (norm c)))
          else (pre ++ "Exact", fun c => some (norm c == core0))
      if expKind == "?missing-regexp-oracle" then failL s!"no regexp oracle for pattern {repr (bytesToString pat)}" else
      if expKind == "ERR" || kind == "ERR" then
        if expKind == kind then (st, [{ cls := "OK", op := "like", kind := "", detail := "" }])
        else (st, [{ cls := "SPEC-MISMATCH", op := "like", kind := "errdiff", detail := s!"pattern {repr (bytesToString pat)} cs={cs}: expected {expKind}, NewMatcher gave {kind}" }])
      else
      let badMatch := cells.find? (fun (c, m, _) => expMatch c != some m)
      let badUpper := cells.find? (fun (c, _, u) => u != upperSpec c)
      let badMirror := cells.find? (fun (c, _, u) => u != upperMirror c)
      match badMatch, badUpper with
      | some (c, m, _), _ =>
        (st, [{ cls := "SPEC-MISMATCH", op := "like", kind := "match", detail := s!"pattern {repr (bytesToString pat)} caseSensitive={cs} cell {repr (bytesToString c)}: matcher says {m}, rule says {repr (expMatch c)}" }])
      | none, some (c, _, u) =>
        (st, [{ cls := "SPEC-MISMATCH", op := "like", kind := "upper", detail := s!"ToUpper({repr (bytesToString c)}) = {repr u}, expected {repr (upperSpec c)}" }])
      | none, none =>
        if kind != expKind then
          (st, [{ cls := "MIRROR-MISMATCH", op := "like", kind := "kind", detail := s!"pattern {repr (bytesToString pat)} cs={cs}: matcher kind {kind}, mirror chooses {expKind} (all matches agree with the rule)" }])
        else match badMirror with
          | some (c, _, u) => (st, [{ cls := "MIRROR-MISMATCH", op := "like", kind := "upper", detail := s!"ToUpper mirror differs on {repr (bytesToString c)}: {repr u}" }])
          | none => (st, [{ cls := "OK", op := "like", kind := "", detail := "" }])
  | some "ME" =>
    match runP (do
        let pat ← bytes
        let cs ← bool01
        let n ← nat
        let cells ← many n cell
        let parseRes : P (Option (List Nat)) := do
          let t ← next
          if t == "ERR" || t == "P" then return none
          match t.toNat? with
          | some k => return some (← many k nat)
          | none => fail "bad row count"
        let _ ← next
        let sres ← parseRes
        let _ ← next
        let eres ← parseRes
        return (pat, cs, cells, sres, eres)) toks 1 with
    | .error e => failL e
    | .ok (pat, cs, cells, sres, eres) =>
      let (k, f) := likeRule st pat cs
      let expected : Option (List Nat) :=
        if k == "ERR" then none
        else some ((List.range cells.length).filter (fun i => match cells[i]! with
          | .str (some c) => f c == some true
          | _ => false))
      if sres == expected && eres == expected then (st, [{ cls := "OK", op := "likefilter", kind := "", detail := "" }])
      else (st, [{ cls := "SPEC-MISMATCH", op := "likefilter", kind := "rows", detail := s!"pattern {repr (bytesToString pat)} caseSensitive={cs} cells {cells.map showCell}: rule gives rows {repr expected}, string column {repr sres}, enum column {repr eres}" }])
  | _ => (st, [])

end QF.Drv
