import QF.Drv.Parse
import QF.Core.Compare
import QF.Spec.Render
import QF.Spec.JsonRead
import QF.Spec.Sql
import QF.Drv.FilterMirror
/-
Driver section "hist": replays a frame-history transcript through the spec.
Every `R` line (the implementation's observation) is compared with what the
spec allows for the operation announced on the preceding `N`/`O` line.
-/
namespace QF.Drv
open QF

/-- What the implementation showed. -/
inductive Obs where
  | err (len : Int)
  | panic (msg : Bytes)
  | frame (f : LFrame)
  deriving Inhabited

inductive Expect where
  | exact (r : Res) (collapseNaN : Bool)
  | exactAlt (r : Res) (collapseNaN : Bool) (alt : Res) (tag : String)   -- `alt`: what a recorded finding produces instead
  | filtered (r : Res) (mirror : Option (List Nat)) (f : LFrame)    -- spec result and what the Filter mirror predicts
  | sorted (f : LFrame) (os : List Order)
  | distinct (f : LFrame) (gbNull : Bool) (keys : List Bytes)
  | groupAgg (r : Res)
  | sticky                       -- the source already carried an error
  | skip (why : String)
  deriving Inhabited

structure Pending where
  fid : Nat
  op : String
  exp : Expect
  /-- the source frame has an enum column whose value table contains a value twice (recorded finding KF-C17-enum-dup) -/
  srcDup : Bool := false
  deriving Inhabited

def hasDupEnum (f : LFrame) : Bool :=
  f.cols.any (fun c => c.ty == .enum && c.vals.eraseDups.length != c.vals.length)

/-- operations whose result depends on comparing enum cells by their position in the value table -/
def rankOps : List String := ["filter", "sort", "distinct", "groupagg", "fapply"]

structure GroupPending where
  src : Option LFrame
  gbNull : Bool
  keys : List Bytes
  remaining : Nat
  got : List LFrame
  active : Bool
  deriving Inhabited

structure WritePending where
  src : Option LFrame      -- none: the source carries an error
  kind : String
  hdr : Bool := true
  cols : List Bytes := []
  emptyNull : Bool := false
  wrote : Bool := false
  /-- the bytes ToJSON wrote, once they have been accepted as denoting the frame -/
  bytes : Option Bytes := none
  sqlEscape : Nat := 0
  sqlIncr : Bool := false
  sqlTable : Bytes := []
  sqlFail : Int := -1
  deriving Inhabited

structure HState where
  frames : Array (Option (Option LFrame)) := #[]
  pending : Option Pending := none
  gp : GroupPending := { src := none, gbNull := false, keys := [], remaining := 0, got := [], active := false }
  likeO : List (Bytes × Bool × Option (List (Bytes × Bool))) := []
  upperO : List (Bytes × Bytes) := []
  cbZeroFrom : Option Nat := none     -- callbacks of instructions from this index on must not run
  wr : Option WritePending := none
  deriving Inhabited

def HState.getFrame (s : HState) (fid : Nat) : Option (Option LFrame) :=
  match s.frames[fid]? with
  | some (some x) => some x
  | _ => none

def HState.setFrame (s : HState) (fid : Nat) (f : Option LFrame) : HState :=
  let fr := if fid < s.frames.size then s.frames else s.frames ++ (Array.replicate (fid + 1 - s.frames.size) none)
  { s with frames := fr.set! fid (some f) }

def HState.likeOracle (s : HState) : LikeOracle :=
  { valid := fun p ci => match s.likeO.find? (fun e => e.1 == p && e.2.1 == ci) with
      | some (_, _, some _) => true
      | _ => false
    -- one pattern may be annotated several times in one call (the same pattern applied to two columns): each annotation
    -- lists the cells of ITS column, so the answer for a cell is taken from whichever annotation mentions the cell
    isMatch := fun p ci x =>
      match s.likeO.findSome? (fun e =>
          if e.1 == p && e.2.1 == ci then
            match e.2.2 with
            | some tbl => (tbl.find? (·.1 == x)).map (·.2)
            | none => none
          else none) with
      | some m => m
      | none => false }

def HState.upperOracle (s : HState) : UpperOracle :=
  fun x => match s.upperO.find? (·.1 == x) with
    | some (_, u) => u
    | none => x

/-! ### parsing of arguments -/

def parseType : P CType := do
  match (← next) with
  | "i" => return .int
  | "f" => return .float
  | "b" => return .bool
  | "s" => return .string
  | "e" => return .enum
  | "u" => return .undef
  | t => fail s!"bad type {t}"

def parseObs : P Obs := do
  match (← next) with
  | "E" => return .err (← int)
  | "P" => return .panic (← bytes)
  | "K" =>
    let n ← nat
    let nc ← nat
    let mut cols : Array LCol := #[]
    for _ in [0:nc] do
      let name ← bytes
      let ty ← parseType
      let mut vals : List Bytes := []
      let mut strict := false
      if ty == .enum then
        strict ← bool01
        let nv ← nat
        vals ← many nv bytes
      let cells ← many n cell
      cols := cols.push { name := name, ty := ty, vals := vals, strict := strict, cells := cells.toArray }
    if !(← atEnd) then fail "trailing tokens in observation"
    return .frame { cols := cols.toList, n := n }
  | t => fail s!"bad observation kind {t}"

def parseNew : P (List NewCol × List Bytes × List (Bytes × List Bytes)) := do
  let nc ← nat
  let mut cols : Array NewCol := #[]
  for _ in [0:nc] do
    let name ← bytes
    let kind ← next
    let count ← int
    let (k, ncells) : NewKind × Nat := match kind with
      | "I" => (.cells .int, count.toNat)
      | "F" => (.cells .float, count.toNat)
      | "B" => (.cells .bool, count.toNat)
      | "S" => (.cells .string, count.toNat)
      | "T" => (.cells .string, count.toNat)
      | "CI" => (.const .int, 1)
      | "CF" => (.const .float, 1)
      | "CB" => (.const .bool, 1)
      | "CS" => (.const .string, 1)
      | _ => (.unsupported, 0)
    let cells ← many ncells cell
    cols := cols.push { name := name, kind := k, count := count, cells := cells }
  let o ← next
  if o != "O" then fail "expected O"
  let k ← nat
  let order ← many k bytes
  let e ← next
  if e != "E" then fail "expected E"
  let ne ← nat
  let enums ← many ne (do
    let n ← bytes
    let nv ← nat
    let vs ← many nv bytes
    return (n, vs))
  return (cols.toList, order, enums)

def parseArg : P Arg := do
  let t ← next
  match t with
  | "nil" => return .nil
  | "bad" | "badarg" => return .bad
  | "col" => return .col (← bytes)
  | "il" =>
    let k ← nat
    let cs ← many k cell
    return .ints (cs.filterMap (fun c => match c with | .int x => some x | _ => none))
  | "sl" =>
    let k ← nat
    let cs ← many k bytes
    return .strs cs
  | _ => match cellTok t with
    | .ok c => return .cell c
    | .error e => fail e

partial def parseClause : P Clause := do
  match (← next) with
  | "NULL" => return .null
  | "NOT" => return .not (← parseClause)
  | "AND" =>
    let k ← nat
    return .and (← many k parseClause)
  | "OR" =>
    let k ← nat
    return .or (← many k parseClause)
  | "F" =>
    let inv ← bool01
    let col ← bytes
    let c ← next
    let cmp : Cmp :=
      if c.startsWith "sx" then
        match hexDecode (c.drop 2).toString with
        | some b => .builtin (bytesToString b)
        | none => .bad
      else if c.startsWith "p1:" then .p1 (c.drop 3).toString
      else if c == "p2" then .p2
      else .bad
    let arg ← parseArg
    return .leaf { inv := inv, col := col, cmp := cmp, arg := arg }
  | t => fail s!"bad clause token {t}"

def optName : P (Option Bytes) := do
  let t ← next
  if t == "-" then return none
  match bytesTok t with
  | .ok b => return some b
  | .error e => fail e

def parseInstr : P Instr := do
  let dst ← bytes
  let s1 ← optName
  let s2 ← optName
  let k ← next
  let fn : Fn ← (match k with
    | "c" | "cp" => (do let c ← cell; pure (Fn.const c) : P Fn)
    | "col" => (do let b ← bytes; pure (Fn.colCopy b) : P Fn)
    | "f0i" | "f0f" | "f0b" | "f0s" | "f0r" => (do let i ← int; pure (Fn.f0 k i) : P Fn)
    | "f1" => (do let i ← next; pure (Fn.f1 i) : P Fn)
    | "f2" => (do let i ← next; pure (Fn.f2 i) : P Fn)
    | "bi" => (do let b ← bytes; pure (Fn.builtin b) : P Fn)
    | "bad" => (pure Fn.bad : P Fn)
    | t => (QF.Drv.fail s!"bad fn kind {t}" : P Fn))
  return { dst := dst, src1 := s1, src2 := s2, fn := fn }

def parseInstrs : P (List Instr) := do
  let k ← nat
  many k parseInstr

partial def parseEArg : P EArg := do
  match (← next) with
  | "C" => return .col (← bytes)
  | "V" => return .val (← cell)
  | "BADARG" => return .bad
  | "X" =>
    let op ← bytes
    let k ← nat
    let args ← many k parseEArg
    return .x (bytesToString op) args
  | t => fail s!"bad expr token {t}"

def parseNames : P (List Bytes) := do
  let k ← nat
  many k bytes

def parseAgg : P Agg := do
  let f ← next
  let fn : AggFn :=
    if f.startsWith "sx" then
      match hexDecode (f.drop 2).toString with
      | some b => .builtin (bytesToString b)
      | none => .builtin "?"
    else .user (f.drop 2).toString
  let col ← bytes
  let as ← bytes
  return { fn := fn, col := col, as := as }

/-! ### comparison of an observation with the expectation -/

def colSame (collapse : Bool) (a b : LCol) : Bool :=
  a.name == b.name && a.ty == b.ty && a.cells.size == b.cells.size &&
  (a.ty != .enum || (a.vals == b.vals && a.strict == b.strict)) &&
  (List.range a.cells.size).all (fun i => if collapse then a.cells[i]!.same b.cells[i]! else a.cells[i]! == b.cells[i]!)

def frameSame (collapse : Bool) (a b : LFrame) : Bool :=
  a.n == b.n && a.cols.length == b.cols.length && (List.zip a.cols b.cols).all (fun (x, y) => colSame collapse x y)

def showCell : Cell → String
  | .int v => s!"{v}"
  | .float b => s!"f{b.toNat}"
  | .bool b => s!"{b}"
  | .str none => "null"
  | .str (some s) => s!"{repr (bytesToString s)}"

def showFrame (f : LFrame) : String :=
  let cols := f.cols.map (fun c =>
    let t := match c.ty with | .int => "i" | .float => "f" | .bool => "b" | .string => "s" | .enum => "e" | .undef => "u"
    let cells := (c.cells.toList.take 12).map showCell
    let e := if c.ty == .enum then s!"<{c.strict};{c.vals.map bytesToString}>" else ""
    s!"{repr (bytesToString c.name)}:{t}{e}{cells}")
  s!"[n={f.n} {cols}]"

def showRes : Res → String
  | .err => "Err"
  | .ok f => showFrame f

/-- Rank of each cell of a column as an integer (none for null/NaN), for the sorter mirror. -/
def colKey (c : LCol) : Nat → Option Int :=
  let strs : List Bytes := (c.cells.toList.filterMap (fun x => match x with | .str (some s) => some s | _ => none)).eraseDups
  let sorted := (strs.toArray.qsort (fun a b => bytesCmp a b == .lt)).toList
  fun r => match c.cells[r]! with
    | .int v => some v
    | .float b => if F64.isNaN b then none else some (F64.key b)
    | .bool b => some (if b then 1 else 0)
    | .str none => none
    | .str (some s) =>
      if c.ty == .enum then (enumRank c.vals s).map (fun i => (i : Int))
      else (sorted.findIdx? (· == s)).map (fun i => (i : Int))

/-- The exact row order the mirror of internal/sort/sorter.go produces (the sorter is deterministic). -/
def mirrorSort (f : LFrame) (os : List Order) : Option (List Nat) :=
  match os.mapM (fun o => (f.find? o.col).map (fun c => (Cmp.mkTbl o.reverse false o.nullLast, colKey c))) with
  | none => none
  | some keys => some (Sorter.sort (Cmp.lessKeys keys) (Array.range f.n)).toList

structure Verdict where
  ok : Bool
  kind : String := ""     -- value | errdiff | panic | wf | digest | equals | groups
  detail : String := ""
  known : Bool := false
  mirror : Bool := false     -- the spec is satisfied but the mirror model predicts a different result

def judgeCore (exp : Expect) (obs : Obs) : Verdict :=
  match obs with
  | .panic msg => { ok := false, kind := "panic", detail := s!"operation panicked: {bytesToString msg}" }
  | .err len =>
    if len != -1 then { ok := false, kind := "errdiff", detail := s!"failed frame reports Len()={len}, expected -1" } else
    match exp with
    | .sticky | .skip _ => { ok := true }
    | .exact .err _ => { ok := true }
    | .groupAgg .err => { ok := true }
    | .exact (.ok f) _ | .groupAgg (.ok f) => { ok := false, kind := "errdiff", detail := s!"got Err, spec gives {showFrame f}" }
    | .sorted .. | .distinct .. | .exactAlt .. | .filtered .. => { ok := false, kind := "errdiff", detail := "got Err, spec gives a frame" }
  | .frame g =>
    match exp with
    | .skip _ | .exactAlt .. | .filtered .. => { ok := true }
    | .sticky => { ok := false, kind := "errdiff", detail := s!"error not sticky: source had Err, result is {showFrame g}" }
    | .exact .err _ | .groupAgg .err => { ok := false, kind := "errdiff", detail := s!"spec rejects the request (Err), got {showFrame g}" }
    | .exact (.ok f) collapse =>
      if frameSame collapse f g then { ok := true }
      else { ok := false, kind := "value", detail := s!"expected {showFrame f} got {showFrame g}" }
    | .groupAgg (.ok f) =>
      if isGroupAggResult f g && (List.zip f.cols g.cols).all (fun (x, y) => x.ty != .enum || (x.vals == y.vals && x.strict == y.strict)) then { ok := true }
      else { ok := false, kind := "value", detail := s!"expected (any row order) {showFrame f} got {showFrame g}" }
    | .sorted f os =>
      if isSortedResult f g os && (List.zip f.cols g.cols).all (fun (x, y) => x.ty == y.ty && x.vals == y.vals && x.strict == y.strict) then
        match mirrorSort f os with
        | some perm =>
          if frameSame false (f.pick perm) g then { ok := true }
          else { ok := false, mirror := true, kind := "order", detail := s!"sorted permutation, but not the order the sorter mirror produces: mirror {showFrame (f.pick perm)} got {showFrame g}" }
        | none => { ok := true }
      else { ok := false, kind := "value", detail := s!"not a sorted permutation of {showFrame f}: got {showFrame g}" }
    | .distinct f gbNull keys =>
      if isDistinctResult f g gbNull keys && (List.zip f.cols g.cols).all (fun (x, y) => x.ty == y.ty && x.vals == y.vals && x.strict == y.strict) then { ok := true }
      else { ok := false, kind := "value", detail := s!"not one whole row per key of {showFrame f}: got {showFrame g}" }

def judge (exp : Expect) (obs : Obs) : Verdict :=
  match exp with
  | .filtered r mirror f =>
    let v := judgeCore (.exact r false) obs
    if !v.ok then v
    else
      -- the spec is satisfied; does the mirror model of QFrame.filter / And / Or / Not predict the same?
      let mirrorRes : Res := match mirror with | some rows => .ok (f.pick rows) | none => .err
      let w := judgeCore (.exact mirrorRes false) obs
      if w.ok then v else { ok := false, mirror := true, kind := "filter", detail := s!"the Filter mirror (kernel shapes and Inverse table from today's source) predicts {showRes mirrorRes}; implementation and spec agree on another result" }
  | .exactAlt r collapse alt tag =>
    let v := judgeCore (.exact r collapse) obs
    if v.ok then v
    else
      let w := judgeCore (.exact alt collapse) obs
      if w.ok then { ok := false, kind := tag, detail := v.detail, known := true } else v
  | e => judgeCore e obs

/-- Well-formedness of the physical state reported by the hook (the `WF` hypothesis of the refinement theorems). -/
def checkPhys : P (Option String) := do
  let nidx ← nat
  let idx ← many nidx nat
  let phys ← int
  let nc ← nat
  let cols ← many nc (do
    let pos ← int
    let mpos ← int
    let same ← bool01
    return (pos, mpos, same))
  if phys == -2 then return some "columns have different physical lengths"
  if nc > 0 && !(idx.all (fun i => (i : Int) < phys)) then return some "index entry beyond physical length"
  if !(idx.eraseDups.length == idx.length) then return some "index entries not distinct"
  let mut i : Int := 0
  for (pos, mpos, same) in cols do
    if pos != i then return some s!"column {i} has pos {pos}"
    if mpos == -1 then return some s!"column {i} missing from name map"
    if !same then return some s!"name map disagrees with column {i}"
    i := i + 1
  return none

/-- Expectation for an `O` line. -/
def expectOp (s : HState) (src : Option LFrame) (op : String) : P (Expect × Option Nat) := do
  match src with
  | none =>
    -- consume nothing: arguments are irrelevant once the source carries an error
    return (.sticky, some 0)
  | some f =>
  let lo := s.likeOracle
  let up := s.upperOracle
  match op with
  | "filter" =>
    let c ← parseClause
    return (.filtered (filterS lo f c) (mirrorFilter lo f c) f, none)
  | "sort" =>
    let k ← nat
    let os ← many k (do
      let col ← bytes
      let rev ← bool01
      let nl ← bool01
      return ({ col := col, reverse := rev, nullLast := nl } : Order))
    if os.isEmpty then return (.exact (.ok f) false, none)
    if os.all (fun o => f.has o.col) then return (.sorted f os, none) else return (.exact .err false, none)
  | "slice" =>
    let a ← int
    let b ← int
    return (.exact (sliceS f a b) false, none)
  | "select" => return (.exact (selectS f (← parseNames)) false, none)
  | "drop" => return (.exact (dropS f (← parseNames)) false, none)
  | "copy" =>
    let dst ← bytes
    let src ← bytes
    return (.exact (copyS f dst src) false, none)
  | "apply" =>
    let is ← parseInstrs
    -- callbacks must not run for the instructions AFTER the first failing one (the failing instruction's own function may
    -- have run: an illegal destination name, for instance, is only noticed when the computed column is stored)
    return (.exact (applyS up f (fun _ => true) false is) true, some (firstFailing up f (fun _ => true) is + 1))
  | "fapply" =>
    let c ← parseClause
    let is ← parseInstrs
    let zf := if c.wellFormed lo f then firstFailing up f (c.sem lo f) is + 1 else 0
    return (.exactAlt (filteredApplyS lo up f c is) true (filteredApplyS lo up f c is true) "KF-C06-fapply-fill", some zf)
  | "rownums" => return (.exact (rowNumsS f (← bytes)) false, none)
  | "eval" =>
    let dst ← bytes
    let ctx ← next
    let e ← parseEArg
    return (.exact (evalS ctx f dst e) true, none)
  | "distinct" =>
    let gbNull ← bool01
    let keys ← parseNames
    if !keys.all f.has then return (.exact .err false, none)
    if f.n == 0 then return (.exact (.ok f) false, none)
    return (.distinct f gbNull keys, none)
  | "groupagg" =>
    let gbNull ← bool01
    let keys ← parseNames
    let na ← nat
    let aggs ← many na parseAgg
    return (.groupAgg (groupAggS f gbNull keys aggs), none)
  | o => fail s!"unknown op {o}"

structure Msg where
  cls : String      -- OK | SPEC-MISMATCH | DRIVER-ERROR
  op : String
  kind : String
  detail : String

/-- Check of Grouper.QFrames(): the frames are exactly the key classes (any order), rows in frame order. -/
def judgeGroups (gp : GroupPending) : Verdict :=
  match gp.src with
  | none => { ok := true }
  | some f =>
    match gp.keys.mapM f.find? with
    | none => { ok := false, kind := "errdiff", detail := "spec rejects unknown grouping column, got frames" }
    | some keys =>
      let classes := if f.n == 0 then [] else if keys.isEmpty then [List.range f.n] else groupsS gp.gbNull keys f.n
      let expected := classes.map f.pick
      let rec matchAll (exp : List LFrame) : List LFrame → Bool
        | [] => exp.isEmpty
        | g :: gs =>
          match exp.findIdx? (fun e => frameSame false e g) with
          | some i => matchAll (exp.eraseIdx i) gs
          | none => false
      if matchAll expected gp.got.reverse then { ok := true }
      else { ok := false, kind := "groups", detail := s!"QFrames() of {showFrame f} keys={gp.keys.map bytesToString} null={gp.gbNull}: expected {expected.map showFrame} got {gp.got.reverse.map showFrame}" }

/-- Process one line of a hist scenario. -/
def histLine (s : HState) (toks : Array String) : HState × List Msg :=
  let failL (op : String) (e : String) : HState × List Msg := (s, [{ cls := "DRIVER-ERROR", op := op, kind := "parse", detail := e }])
  match toks[0]? with
  | some "XM" =>
    match runP (do
        let p ← bytes
        let ci ← bool01
        match (← peek?) with
        | some "ERR" => return (p, ci, (none : Option (List (Bytes × Bool))))
        | _ =>
          let k ← nat
          let tbl ← many k (do let c ← bytes; let m ← bool01; return (c, m))
          return (p, ci, some tbl)) toks 1 with
    | .ok e => ({ s with likeO := e :: s.likeO }, [])
    | .error e => failL "XM" e
  | some "XU" =>
    match runP (do
        let k ← nat
        many k (do let c ← bytes; let u ← bytes; return (c, u))) toks 1 with
    | .ok e => ({ s with upperO := e ++ s.upperO }, [])
    | .error e => failL "XU" e
  | some "N" =>
    match runP (do
        let fid ← nat
        let (cols, order, enums) ← parseNew
        return (fid, newS cols order enums)) toks 1 with
    | .ok (fid, r) => ({ s with pending := some { fid := fid, op := "new", exp := .exact r false } }, [])
    | .error e => failL "new" e
  | some "O" =>
    match runP (do
        let fid ← nat
        let src ← nat
        let op ← next
        match s.getFrame src with
        | none => fail s!"unknown source frame {src}"
        | some sf =>
          let (exp, zf) ← expectOp s sf op
          return (fid, op, exp, zf)) toks 1 with
    | .ok (fid, op, exp, zf) =>
      let dup := match toks[2]?.bind String.toNat? with
        | some src => (match s.getFrame src with | some (some sf) => hasDupEnum sf | _ => false)
        | none => false
      ({ s with pending := some { fid := fid, op := op, exp := exp, srcDup := dup }, cbZeroFrom := zf }, [])
    | .error e => failL (toks[3]?.getD "?") e
  | some "R" =>
    match runP (do
        let fid ← int
        let obs ← parseObs
        return (fid, obs)) toks 1 with
    | .error e =>
      -- an observation that cannot be parsed: accessors disagreed (harness marks it) or a harness bug
      let op := match s.pending with | some p => p.op | none => "?"
      ({ s with pending := none }, [{ cls := "SPEC-MISMATCH", op := op, kind := "accessors", detail := s!"observation not well-formed: {e}" }])
    | .ok (fid, obs) =>
      if fid == -2 then
        -- the frame read back from what ToCSV / ToJSON wrote
        match s.wr with
        | some wp =>
          let s' := { s with wr := none }
          let op := if wp.kind == "csv" then "csvroundtrip" else "jsonroundtrip"
          match wp.src with
          | none => (s', [])
          | some f =>
            let exp : Expect :=
              if wp.kind == "csv" then
                if csvRereadOk f wp.cols wp.emptyNull then
                  match csvReread f wp.cols wp.emptyNull with
                  | some g => .exact (.ok g) false
                  | none => .skip "no expectation"
                else .exact .err false
              else .exact (.ok (jsonReread f)) false
            let v := judge exp obs
            -- a second, independent expectation for ReadJSON: the spec of the READER (`readJsonCfgS`, QF/Spec/JsonRead.lean:
            -- RFC 8259 parser, `jsonDocS`, `newS` with the column order and enum declarations the harness supplies, a correct
            -- IEEE number parser) applied to the bytes that were actually written. `C14EndToEnd.readjson_tojson_partial` proves the
            -- two expectations equal (up to what the configuration supplies); a disagreement here is an error of the driver.
            let second : List Msg :=
              if wp.kind == "json" then
                match wp.bytes with
                | none => []
                | some out =>
                  if out.length > 6000 then [] else   -- exact-arithmetic number parsing of every token: moderate sizes only
                  let r2 : Res := match Json.parse out with
                    | some doc => readJsonCfgS pnumS doc f.names
                        (f.cols.filterMap (fun c => if c.ty == .enum then some (c.name, c.vals) else none))
                    | none => .err
                  match r2 with
                  | .ok g =>
                    if frameSame false (jsonReread f) g then []
                    else [{ cls := "DRIVER-ERROR", op := op, kind := "expectations", detail := s!"the two expectations for ReadJSON of what ToJSON wrote from {showFrame f} disagree: jsonReread gives {showFrame (jsonReread f)}, readJsonS of the written bytes gives {showFrame g}" }]
                  | .err => [{ cls := "DRIVER-ERROR", op := op, kind := "expectations", detail := s!"the two expectations for ReadJSON of what ToJSON wrote from {showFrame f} disagree: jsonReread gives {showFrame (jsonReread f)}, readJsonS of the written bytes gives an error" }]
              else []
            (s', (if v.ok then { cls := "OK", op := op, kind := "", detail := "" }
                  else { cls := "SPEC-MISMATCH", op := op, kind := v.kind, detail := s!"reading back what was written from {showFrame f}: {v.detail}" }) :: second)
        | none => failL "R" "R -2 without W"
      else if fid == -1 then
        -- a frame of Grouper.QFrames()
        match obs with
        | .frame g =>
          let gp := { s.gp with got := g :: s.gp.got, remaining := s.gp.remaining - 1 }
          if gp.remaining == 0 && gp.active then
            let v := judgeGroups gp
            ({ s with gp := { gp with active := false } },
              [if v.ok then { cls := "OK", op := "groupframes", kind := "", detail := "" }
               else { cls := "SPEC-MISMATCH", op := "groupframes", kind := v.kind, detail := v.detail }])
          else ({ s with gp := gp }, [])
        | _ => ({ s with gp := { s.gp with active := false } }, [{ cls := "SPEC-MISMATCH", op := "groupframes", kind := "panic", detail := "group frame not observable" }])
      else
      match s.pending with
      | none => failL "R" "observation without pending operation"
      | some p =>
        let v := judge p.exp obs
        let stored : Option LFrame := match obs with | .frame g => some g | _ => none
        let s' := (s.setFrame p.fid stored)
        let s' := { s' with pending := none }
        (s', [if v.ok then { cls := "OK", op := p.op, kind := "", detail := "" }
              else if v.known then { cls := "KNOWN-FINDING", op := p.op, kind := v.kind, detail := v.detail }
              else if v.mirror then { cls := "MIRROR-MISMATCH", op := p.op, kind := v.kind, detail := v.detail }
              else { cls := "SPEC-MISMATCH", op := p.op, kind := v.kind, detail := v.detail }])
  | some "W" =>
    match runP (do
        let src ← nat
        let kind ← next
        if kind == "csv" then
          let hdr ← bool01
          let cols ← parseNames
          let en ← bool01
          return (src, ({ src := none, kind := kind, hdr := hdr, cols := cols, emptyNull := en } : WritePending))
        else if kind == "sql" then
          let esc ← nat
          let incr ← bool01
          let table ← bytes
          let failExec ← int
          return (src, ({ src := none, kind := kind, sqlEscape := esc, sqlIncr := incr, sqlTable := table, sqlFail := failExec } : WritePending))
        else return (src, ({ src := none, kind := kind } : WritePending))) toks 1 with
    | .error e => failL "W" e
    | .ok (src, wp) =>
      match s.getFrame src with
      | none => failL "W" "unknown source"
      | some sf => ({ s with wr := some { wp with src := sf } }, [])
  | some "WO" =>
    match s.wr with
    | none => failL "WO" "WO without W"
    | some wp =>
      let op := if wp.kind == "csv" then "tocsv" else if wp.kind == "str" then "string" else "tojson"
      match toks[1]? with
      | some "P" => ({ s with wr := none }, [{ cls := "SPEC-MISMATCH", op := op, kind := "panic", detail := "writer panicked" }])
      | some "E" =>
        let expectedErr := match wp.src with
          | none => true
          | some f => wp.kind == "csv" && (csvColumns f wp.cols).isNone
        ({ s with wr := none }, [if expectedErr then { cls := "OK", op := op, kind := "", detail := "" }
          else { cls := "SPEC-MISMATCH", op := op, kind := "errdiff", detail := "writer returned an error for a valid request" }])
      | some t =>
        match bytesTok t with
        | .error e => failL "WO" e
        | .ok out =>
          match wp.src with
          | none => ({ s with wr := none }, [{ cls := "SPEC-MISMATCH", op := op, kind := "errdiff", detail := "output written for a frame that carries an error" }])
          | some f =>
            let why : Option String :=
              if wp.kind == "str" then stringDenotes f out
              else if wp.kind == "csv" then csvDenotes f wp.hdr wp.cols out
              else if hasInf f then none     -- outside the property's quantifier (floats finite or NaN)
              else jsonDenotes f out
            let s' := { s with wr := some { wp with wrote := true, bytes := if wp.kind == "json" && why.isNone then some out else none } }
            match why with
            | none =>
              -- C16 on the ToJSON path: float tokens are the shortest round-tripping positional decimals
              let fl : List Msg := if wp.kind == "json" && !hasInf f then
                  (match jsonFloatsShortest f out with
                   | none => [{ cls := "OK", op := "tojsonfloat", kind := "", detail := "" }]
                   | some w => [{ cls := "SPEC-MISMATCH", op := "tojsonfloat", kind := "value", detail := w }])
                else []
              (s', { cls := "OK", op := op, kind := "", detail := "" } :: fl)
            | some w =>
              -- a text that does not denote the frame may fail exactly because a float token does not parse back to its
              -- cell (C16: e.g. -0 written as 0): say so under C16's own operation as well
              let fl : List Msg := if wp.kind == "json" && !hasInf f then
                  (match jsonFloatsShortest f out with
                   | none => []
                   | some w2 => [{ cls := "SPEC-MISMATCH", op := "tojsonfloat", kind := "value", detail := w2 }])
                else []
              (s', { cls := "SPEC-MISMATCH", op := op, kind := "value", detail := s!"{w}: frame {showFrame f} written as {repr (bytesToString out)}" } :: fl)
      | none => failL "WO" "bad WO line"
  | some "WN" =>
    -- the injected driver failure was never reached by this call: no error is demanded
    match s.wr with
    | some wp => ({ s with wr := some { wp with sqlFail := -1 } }, [])
    | none => failL "WN" "WN without W"
  | some "WQ" =>
    match s.wr with
    | none => failL "WQ" "WQ without W"
    | some wp =>
      let s := { s with wr := none }
      match runP (do
          let st ← next
          let k ← nat
          let stmts ← many k (do
            let q ← bytes
            let na ← nat
            let args ← many na (do
              let t ← next
              match cellTok t with
              | .ok c => return c
              | .error e => fail e)
            return (q, args))
          return (st, stmts)) toks 1 with
      | .error e => failL "WQ" e
      | .ok (st, stmts) =>
        if st == "P" then
          (if wp.sqlFail ≥ 0 then (s, [{ cls := "SPEC-MISMATCH", op := "sqlfault", kind := "panic", detail := s!"ToSQL panicked when the driver failed on statement {wp.sqlFail} (Prepare or Exec)" }])
           else (s, [{ cls := "SPEC-MISMATCH", op := "tosql", kind := "panic", detail := "ToSQL panicked" }])) else
        match wp.src with
        | none =>
          if st == "E" && stmts.isEmpty then (s, [{ cls := "OK", op := "tosql", kind := "", detail := "" }])
          else (s, [{ cls := "SPEC-MISMATCH", op := "tosql", kind := "errdiff", detail := "ToSQL on a failed frame did not return an error / executed statements" }])
        | some f =>
          let cfg : SqlCfg := { escape := wp.sqlEscape, incrementing := wp.sqlIncr, table := wp.sqlTable }
          let exp := toSqlS cfg f
          let same (a b : List (Bytes × List Cell)) : Bool :=
            a.length == b.length && (List.zip a b).all (fun (x, y) => x.1 == y.1 && x.2.length == y.2.length &&
              (List.zip x.2 y.2).all (fun (u, v) => u.same v))
          if wp.sqlFail ≥ 0 then
            -- the driver fails on statement number sqlFail: an error must be returned; the statements before it are as specified
            if st != "E" then (s, [{ cls := "SPEC-MISMATCH", op := "sqlfault", kind := "swallowed", detail := s!"the driver failed on statement {wp.sqlFail} but ToSQL reported success" }])
            else if same (exp.take wp.sqlFail.toNat) stmts then (s, [{ cls := "OK", op := "sqlfault", kind := "", detail := "" }])
            else (s, [{ cls := "SPEC-MISMATCH", op := "tosql", kind := "value", detail := s!"statements before the failure differ from the spec for {showFrame f}" }])
          else if st == "E" then (s, [{ cls := "SPEC-MISMATCH", op := "tosql", kind := "errdiff", detail := s!"ToSQL returned an error for {showFrame f}" }])
          else if same exp stmts then (s, [{ cls := "OK", op := "tosql", kind := "", detail := "" }])
          else (s, [{ cls := "SPEC-MISMATCH", op := "tosql", kind := "value", detail := s!"ToSQL of {showFrame f}: expected {exp.length} statements like {repr ((exp.head?.map (fun x => bytesToString x.1)).getD "")}, got {stmts.length}: {repr ((stmts.head?.map (fun x => (bytesToString x.1, x.2.map showCell))))}" }])
  | some "WF" =>
    match runP (do
        let _src ← nat
        let kind ← next
        let total ← nat
        let k ← nat
        let res ← next
        let acc ← nat
        return (kind, total, k, res, acc)) toks 1 with
    | .error e => failL "WF" e
    | .ok (kind, total, k, res, acc) =>
      if res == "P" then (s, [{ cls := "SPEC-MISMATCH", op := "wfault", kind := "panic", detail := s!"To{kind} panicked when the writer failed at byte {k}" }])
      else if acc < total && res != "1" then
        (s, [{ cls := "SPEC-MISMATCH", op := "wfault", kind := "swallowed", detail := s!"To{kind}: the writer accepted only {acc} of {total} bytes (failing from byte {k}) but success was reported" }])
      else (s, [{ cls := "OK", op := "wfault", kind := "", detail := "" }])
  | some "RF" =>
    match runP (do
        let _src ← nat
        let kind ← next
        let total ← nat
        let k ← nat
        let res ← next
        return (kind, total, k, res)) toks 1 with
    | .error e => failL "RF" e
    | .ok (kind, total, k, res) =>
      if res == "P" then (s, [{ cls := "SPEC-MISMATCH", op := "rfault", kind := "panic", detail := s!"Read{kind} panicked when the reader failed after {k} of {total} bytes" }])
      else if k < total && res != "1" then
        (s, [{ cls := "SPEC-MISMATCH", op := "rfault", kind := "swallowed", detail := s!"Read{kind}: the reader failed after {k} of {total} bytes but an error-free frame was returned" }])
      else (s, [{ cls := "OK", op := "rfault", kind := "", detail := "" }])
  | some "CB" =>
    match runP (do
        let _fid ← nat
        let k ← nat
        many k int) toks 1 with
    | .error e => failL "CB" e
    | .ok counts =>
      match s.cbZeroFrom with
      | none => (s, [])
      | some z =>
        let late := (counts.drop z).filter (· > 0)
        if late.isEmpty then ({ s with cbZeroFrom := none }, [{ cls := "OK", op := "callbacks", kind := "", detail := "" }])
        else ({ s with cbZeroFrom := none }, [{ cls := "SPEC-MISMATCH", op := "callbacks", kind := "callback", detail := s!"user callbacks ran after the frame had failed: the instructions from number {z} on (0 = all: the receiver had failed already) must not call anything, invocation counts {counts}" }])
  | some "P" =>
    match runP (do let _ ← nat; checkPhys) toks 1 with
    | .ok none => (s, [{ cls := "OK", op := "wf", kind := "", detail := "" }])
    | .ok (some why) => (s, [{ cls := "SPEC-MISMATCH", op := "wf", kind := "wf", detail := s!"frame {toks[1]?.getD "?"} not well-formed: {why}" }])
    | .error e => failL "P" e
  | some "D" =>
    if toks.size == 4 then
      if toks[2]! == toks[3]! then (s, [{ cls := "OK", op := "reobserve", kind := "", detail := "" }])
      else (s, [{ cls := "SPEC-MISMATCH", op := "reobserve", kind := "digest", detail := s!"earlier frame {toks[1]!} changed: digest {toks[3]!} -> {toks[2]!}" }])
    else failL "D" "bad D line"
  | some "KC" =>
    -- the column's own Comparable on pairs of rows: Compare must be the spec's keyCmp (null against null: Equal iff
    -- nulls are grouped, NotEqual otherwise)
    match runP (do
        let fid ← nat
        let name ← bytes
        let rev ← bool01
        let gbn ← bool01
        let nl ← bool01
        let k ← nat
        let ps ← many k (do let a ← nat; let b ← nat; let r ← int; return (a, b, r))
        return (fid, name, rev, gbn, nl, ps)) toks 1 with
    | .error e => failL "KC" e
    | .ok (fid, name, rev, gbn, nl, ps) =>
      match s.getFrame fid with
      | some (some f) =>
        match f.find? name with
        | none => failL "KC" "unknown column"
        | some c =>
          let o : Order := { col := name, reverse := rev, nullLast := nl }
          let bad := ps.findSome? (fun (a, b, r) =>
            let ca := c.cells[a]!
            let cb := c.cells[b]!
            let want : Int :=
              if ca.isNull && cb.isNull then (if gbn then 2 else 3)
              else match keyCmp c o ca cb with
                | .lt => 0
                | .gt => 1
                | .eq => 2
            if r == want then none
            else some s!"column {repr (bytesToString name)} rows {a},{b} (cells {showCell ca}, {showCell cb}) reverse={rev} groupByNull={gbn} nullLast={nl}: Compare returned {r}, the order of the keys says {want} (0 less, 1 greater, 2 equal, 3 not equal)")
          match bad with
          | none => (s, [{ cls := "OK", op := "keycmp", kind := "", detail := "" }])
          | some w => (s, [{ cls := "SPEC-MISMATCH", op := "keycmp", kind := "value", detail := w }])
      | _ => (s, [])
  | some "KH" =>
    -- rows with equal keys must have equal hashes (the table compares the stored hash before the key)
    match runP (do
        let fid ← nat
        let name ← bytes
        let gbn ← bool01
        let _seed ← nat
        let k ← nat
        let hs ← many k (do let a ← nat; let h ← next; return (a, h))
        return (fid, name, gbn, hs)) toks 1 with
    | .error e => failL "KH" e
    | .ok (fid, name, gbn, hs) =>
      match s.getFrame fid with
      | some (some f) =>
        match f.find? name with
        | none => failL "KH" "unknown column"
        | some c =>
          let bad := hs.findSome? (fun (a, ha) => hs.findSome? (fun (b, hb) =>
            if a < b && keyEq gbn c c.cells[a]! c.cells[b]! && ha != hb then
              some s!"column {repr (bytesToString name)} rows {a},{b} hold equal keys ({showCell c.cells[a]!}) but hash to {ha} and {hb} (groupByNull={gbn})"
            else none))
          match bad with
          | none => (s, [{ cls := "OK", op := "keyhash", kind := "", detail := "" }])
          | some w => (s, [{ cls := "SPEC-MISMATCH", op := "keyhash", kind := "value", detail := w }])
      | _ => (s, [])
  | some "KP" => (s, [{ cls := "SPEC-MISMATCH", op := "keycmp", kind := "panic", detail := "Comparable.Compare / Hash panicked" }])
  | some "Q" =>
    match runP (do
        let a ← nat
        let b ← nat
        let r ← next
        return (a, b, r)) toks 1 with
    | .error e => failL "Q" e
    | .ok (a, b, r) =>
      match s.getFrame a, s.getFrame b with
      | some (some fa), some (some fb) =>
        if r == "P" then (s, [{ cls := "SPEC-MISMATCH", op := "equals", kind := "panic", detail := "Equals panicked" }])
        else
          let e := equalsS fa fb
          if (r == "1") == e then (s, [{ cls := "OK", op := "equals", kind := "", detail := "" }])
          else (s, [{ cls := "SPEC-MISMATCH", op := "equals", kind := "equals", detail := s!"Equals({a},{b}) = {r}, spec {e}: {showFrame fa} vs {showFrame fb}" }])
      | _, _ => (s, [])
  | some "QC" =>
    -- congruence: the same operation on a frame and on its rebuilt copy must give Equal results
    let op := toks[1]?.getD "?"
    if toks[4]? == some "1" && toks[5]? == some "1" then (s, [{ cls := "OK", op := "congruence", kind := "", detail := "" }])
    else (s, [{ cls := "SPEC-MISMATCH", op := "congruence", kind := "equals", detail := s!"operation {op} on frame {toks[2]?.getD "?"} and on its rebuilt copy {toks[3]?.getD "?"} gave results that are not Equal ({toks[4]?.getD "?"}, {toks[5]?.getD "?"})" }])
  | some "G" =>
    match runP (do
        let src ← nat
        let gbNull ← bool01
        let keys ← parseNames
        return (src, gbNull, keys)) toks 1 with
    | .error e => failL "G" e
    | .ok (src, gbNull, keys) =>
      match s.getFrame src with
      | some sf => ({ s with gp := { src := sf, gbNull := gbNull, keys := keys, remaining := 0, got := [], active := true } }, [])
      | none => failL "G" "unknown source"
  | some "GR" =>
    match toks[1]? with
    | some "E" =>
      let ok := match s.gp.src with
        | none => true
        | some f => !(s.gp.keys.all f.has)
      ({ s with gp := { s.gp with active := false } },
        [if ok then { cls := "OK", op := "groupframes", kind := "", detail := "" }
         else { cls := "SPEC-MISMATCH", op := "groupframes", kind := "errdiff", detail := "QFrames() returned an error for a valid request" }])
    | some "P" => ({ s with gp := { s.gp with active := false } }, [{ cls := "SPEC-MISMATCH", op := "groupframes", kind := "panic", detail := "GroupBy/QFrames panicked" }])
    | some n =>
      match n.toNat?, s.gp.src with
      | some k, some f =>
        if !(s.gp.keys.all f.has) then
          ({ s with gp := { s.gp with active := false } }, [{ cls := "SPEC-MISMATCH", op := "groupframes", kind := "errdiff", detail := "unknown grouping column accepted" }])
        else if k == 0 then
          let v := judgeGroups { s.gp with remaining := 0 }
          ({ s with gp := { s.gp with active := false } },
            [if v.ok then { cls := "OK", op := "groupframes", kind := "", detail := "" }
             else { cls := "SPEC-MISMATCH", op := "groupframes", kind := v.kind, detail := v.detail }])
        else ({ s with gp := { s.gp with remaining := k } }, [])
      | some _, none =>
        ({ s with gp := { s.gp with active := false } }, [{ cls := "SPEC-MISMATCH", op := "groupframes", kind := "errdiff", detail := "QFrames() on a failed frame returned frames" }])
      | none, _ => failL "GR" "bad count"
    | none => failL "GR" "bad GR line"
  | _ => (s, [])

end QF.Drv
