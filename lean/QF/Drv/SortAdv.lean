import QF.Drv.Hist
/-
Driver section "sortadv": the real sorter's output on adversarial inputs against the mirror (exact) and the spec
(sorted permutation).
-/
namespace QF.Drv
open QF

def sortAdvLine (toks : Array String) : List Msg :=
  match toks[0]? with
  | some "SA" =>
    match runP (do
        let kind ← next
        let n ← nat
        let vals ← many n int
        let t ← next
        if t == "P" then return (kind, vals, none)
        let out ← many n nat
        return (kind, vals, some out)) toks 1 with
    | .error e => [{ cls := "DRIVER-ERROR", op := "sortadv", kind := "parse", detail := e }]
    | .ok (kind, _, none) => [{ cls := "SPEC-MISMATCH", op := "sortadv", kind := "panic", detail := s!"sorter panicked on a {kind} input" }]
    | .ok (kind, vals, some out) =>
      let va := vals.toArray
      let n := va.size
      let isPerm := (out.toArray.qsort (· < ·)).toList == List.range n
      let sorted := (List.range (n - 1)).all (fun i => va[out[i]!]! ≤ va[out[i + 1]!]!)
      if !(isPerm && sorted) then
        [{ cls := "SPEC-MISMATCH", op := "sortadv", kind := "order", detail := s!"{kind} input of {n} keys {vals}: output order {out} is not a sorted permutation (keys {out.map (fun i => va[i]!)})" }]
      else
        let mirror := (Sorter.sort (fun i j => va[i]! < va[j]!) (Array.range n)).toList
        if mirror == out then [{ cls := "OK", op := "sortadv", kind := "", detail := "" }]
        else [{ cls := "MIRROR-MISMATCH", op := "sortadv", kind := "order", detail := s!"{kind} input of {n} keys: sorter mirror gives {mirror}, implementation {out}" }]
  | _ => []

/-- Section "conc": every operation must return together what it returns alone. -/
def concLine (toks : Array String) : List Msg :=
  match toks[0]? with
  | some "CC" =>
    let n := (toks[1]?.bind String.toNat?).getD 0
    let bad := (List.range n).filter (fun i => toks[2 + 2 * i]? != toks[3 + 2 * i]?)
    if toks.size != 2 + 2 * n then [{ cls := "DRIVER-ERROR", op := "conc", kind := "parse", detail := "bad CC line" }]
    else if bad.isEmpty then (List.range n).map (fun _ => { cls := "OK", op := "conc", kind := "", detail := "" })
    else [{ cls := "SPEC-MISMATCH", op := "conc", kind := "result", detail := s!"operations {bad} of a batch of {n} returned something else when run concurrently than when run alone" }]
  | _ => []

end QF.Drv
