import QF.Core.Sorter
def main : IO Unit := IO.println "qfdriver"
