import QF.Drv.Hist
import QF.Drv.Csv
import QF.Drv.SortAdv
import QF.Drv.Ryu
import QF.Drv.Like
import QF.Drv.Sql
import QF.Drv.GrpAdv
import QF.Drv.JsonSweep
/-
qfdriver: replays a harness transcript (stdin) through the Lean model and spec.
Output: one line per mismatch
  SPEC-MISMATCH scn=<k> line=<n> op=<op> kind=<kind> :: <detail>
  MIRROR-MISMATCH …      DRIVER-ERROR …
and a summary:  STAT <key> <count> …  /  DONE scenarios=<n> checks=<n> mismatches=<n>
-/
open QF QF.Drv

structure DState where
  sect : String := ""
  scn : String := "?"
  hist : HState := {}
  csv : CState := {}
  like : LState := {}
  sql : SqlState := {}
  checks : Nat := 0
  mism : Nat := 0
  scenarios : Nat := 0
  stats : List (String × Nat) := []

def bump (stats : List (String × Nat)) (k : String) : List (String × Nat) :=
  match stats.find? (·.1 == k) with
  | some _ => stats.map (fun (a, n) => if a == k then (a, n + 1) else (a, n))
  | none => stats ++ [(k, 1)]

def emit (st : DState) (lineNo : Nat) (ms : List Msg) : IO DState := do
  let mut st := st
  for m in ms do
    st := { st with checks := st.checks + 1, stats := bump st.stats s!"{st.sect}.{m.op}" }
    if m.cls != "OK" then
      st := { st with mism := st.mism + 1 }
      IO.println s!"{m.cls} section={st.sect} scn={st.scn} line={lineNo} op={m.op} kind={m.kind} :: {m.detail}"
  return st

partial def loop (h : IO.FS.Stream) (st : DState) (lineNo : Nat) : IO DState := do
  let line ← h.getLine
  if line.isEmpty then return st
  let toks := splitLine (line.trimAsciiEnd.toString)
  match toks[0]? with
  | some "S" =>
    let st := { st with sect := toks[1]?.getD "", scn := toks[3]?.getD "?", hist := {}, csv := {}, scenarios := st.scenarios + 1 }
    loop h st (lineNo + 1)
  | some "E" => loop h st (lineNo + 1)
  | some _ =>
    match st.sect with
    | "hist" =>
      let (hs, ms) := histLine st.hist toks
      let st ← emit { st with hist := hs } lineNo ms
      loop h st (lineNo + 1)
    | "csvraw" | "csvread" =>
      let (cs, ms) := csvLine st.csv toks
      let st ← emit { st with csv := cs } lineNo ms
      loop h st (lineNo + 1)
    | "grpadv" =>
      let st ← emit st lineNo (grpAdvLine toks)
      loop h st (lineNo + 1)
    | "conc" =>
      let st ← emit st lineNo (concLine toks)
      loop h st (lineNo + 1)
    | "sortadv" =>
      let st ← emit st lineNo (sortAdvLine toks)
      loop h st (lineNo + 1)
    | "sqlread" =>
      let (ss, ms) := sqlLine st.sql toks
      let st ← emit { st with sql := ss } lineNo ms
      loop h st (lineNo + 1)
    | "like" =>
      let (ls, ms) := likeLine st.like toks
      let st ← emit { st with like := ls } lineNo ms
      loop h st (lineNo + 1)
    | "quote" =>
      let st ← emit st lineNo (quoteLine toks)
      loop h st (lineNo + 1)
    | "jsonsweep" =>
      let st ← emit st lineNo (jsonSweepLine toks)
      loop h st (lineNo + 1)
    | "ryu" =>
      let st ← emit st lineNo (ryuLine toks)
      loop h st (lineNo + 1)
    | _ => loop h st (lineNo + 1)
  | none => loop h st (lineNo + 1)

def main : IO UInt32 := do
  let stdin ← IO.getStdin
  let st ← loop stdin {} 1
  for (k, n) in st.stats do
    IO.println s!"STAT {k} {n}"
  IO.println s!"DONE scenarios={st.scenarios} checks={st.checks} mismatches={st.mism}"
  return 0
