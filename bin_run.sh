#!/bin/bash
# dev helper: rebuild harness, run section, run driver
export GOFLAGS=-mod=mod GOPROXY=off GOSUMDB=off GOTOOLCHAIN=local
cd /verif/go && go build -tags verif -o /verif/.build/harness ./cmd/harness || exit 1
cd /verif && .build/harness "$@" -out /tmp/h.txt && lean/.lake/build/bin/qfdriver < /tmp/h.txt > /tmp/v.txt
grep -a MISMATCH /tmp/v.txt | awk '{print $5,$6}' | sort | uniq -c | sort -rn
grep -a 'DRIVER-ERROR' /tmp/v.txt | head -5
tail -1 /tmp/v.txt
