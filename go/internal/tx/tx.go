// Package tx holds the PRNG and the transcript writer shared by all harness sections.
package tx

import (
	"bufio"
	"encoding/hex"
	"fmt"
	"math"
	"strconv"
	"strings"
)

// Rng is splitmix64; every random choice of the harness derives from one state.
type Rng struct{ s uint64 }

func NewRng(seed uint64) *Rng { return &Rng{s: seed} }

func (r *Rng) U64() uint64 {
	r.s += 0x9E3779B97F4A7C15
	z := r.s
	z = (z ^ (z >> 30)) * 0xBF58476D1CE4E5B9
	z = (z ^ (z >> 27)) * 0x94D049BB133111EB
	return z ^ (z >> 31)
}

// Intn returns a value in [0, n).
func (r *Rng) Intn(n int) int {
	if n <= 0 {
		return 0
	}
	return int(r.U64() % uint64(n))
}

func (r *Rng) Bool() bool { return r.U64()&1 == 1 }

// P returns true with probability num/den.
func (r *Rng) P(num, den int) bool { return r.Intn(den) < num }

func (r *Rng) Pick(xs []string) string { return xs[r.Intn(len(xs))] }

func (r *Rng) PickInt(xs []int) int { return xs[r.Intn(len(xs))] }

// Fork derives an independent generator (used per scenario so that scenarios replay alone).
func (r *Rng) Fork(k uint64) *Rng { return NewRng(r.s ^ (k+1)*0xD6E8FEB86659FD93) }

// W writes transcript lines.
type W struct {
	B     *bufio.Writer
	Lines int
}

func (w *W) Line(toks ...string) {
	w.B.WriteString(strings.Join(toks, " "))
	w.B.WriteByte('\n')
	w.Lines++
}

func Hex(b []byte) string   { return "x" + hex.EncodeToString(b) }
func HexS(s string) string  { return "x" + hex.EncodeToString([]byte(s)) }
func Int(i int) string      { return strconv.Itoa(i) }
func I64(i int64) string    { return strconv.FormatInt(i, 10) }
func U64(u uint64) string   { return strconv.FormatUint(u, 10) }
func Bool01(b bool) string  { if b { return "1" }; return "0" }
func CInt(i int) string     { return "i" + strconv.Itoa(i) }
func CFloat(f float64) string { return fmt.Sprintf("f%016x", math.Float64bits(f)) }
func CBits(b uint64) string { return fmt.Sprintf("f%016x", b) }
func CBool(b bool) string   { if b { return "b1" }; return "b0" }
func CStr(s *string) string {
	if s == nil {
		return "n"
	}
	return HexS(*s)
}
