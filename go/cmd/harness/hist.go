package main

// Section "hist": frame histories. A family of frames grows by applying random
// operations to random earlier members; after every step the new member is
// observed completely and every earlier member is re-observed (digest).
//
// Lines:
//   N <fid> <ncols> {<name> <kind> <count> <cells…>}* O <k> <name>* E <k> {<name> <nvals> <val>*}*
//   O <fid> <src> <op> <args…>
//   R <fid> E <len>                      result has Err set
//   R <fid> P <msg>                      the call panicked
//   R <fid> K <nrows> <ncols> {<name> <type> [<strict> <nvals> <val>*] <cells…>}*
//   P <fid> <nidx> <idx…> <physlen> <ncols> {<pos> <mappos> <mapsame>}*     physical state (hook)
//   D <fid> <digest>                     re-observation of an earlier member
//   Q <a> <b> <0|1>                      Equals(a, b)
//   G <src> <null> <k> <name>* ; then GR <n> followed by n R lines (fid -1) or GR E

import (
	"bytes"
	"errors"
	"fmt"
	"hash/fnv"
	"math"
	"regexp"
	"sort"
	"strconv"
	"strings"
	"unicode/utf8"

	"github.com/tobgu/qframe"
	"github.com/tobgu/qframe/config/csv"
	"github.com/tobgu/qframe/config/eval"
	"github.com/tobgu/qframe/config/groupby"
	"github.com/tobgu/qframe/config/newqf"
	"github.com/tobgu/qframe/filter"
	"github.com/tobgu/qframe/types"

	"verif/internal/tx"
)

func init() { sections["hist"] = histSection }

type colInfo struct {
	name   string
	typ    string // i f b s e
	vals   []string
	strict bool
}

type hframe struct {
	id     int
	qf     qframe.QFrame
	err    bool
	cols   []colInfo
	n      int
	digest string
}

var legalNames = []string{"a", "b", "c", "d", "e", "k", "x y", "Ω", "colcol-temp-0", "const-temp-0", "unary-temp-0", "A", " id", "name ", "it's", "'q"}
var illegalNames = []string{"", "$a", "'q'", "\"qq\"", "'it's'", "'''", "\"a\"b\"", "''", "$"}

var strAlphabet = []string{"", "a", "b", "ab", "B", "abc", "b,c", "q\"t", "x\ny", " lead", "é", "ı", "\x00", "\xff\xfe", "zz", "A",
	"a\ufffdb", "\u2028", "l\u2029", "t\tb", "back\\slash", "\x7f", "<&>", "\x1f", "日本", "\xe2\x82", "x\n", "\n", "a\n\n"}
var intAlphabet = []int{0, 1, -1, 2, 3, 7, 100, -100, math.MaxInt64, math.MinInt64}
var floatBits = []uint64{
	0x0000000000000000, 0x8000000000000000, 0x3ff0000000000000, 0xbff0000000000000, 0x4000000000000000,
	0x7ff0000000000000, 0xfff0000000000000, 0x7ff8000000000000, 0x7ff8000000000001, 0xfff8000000000000,
	0x0000000000000001, 0x3fb999999999999a, 0x4059000000000000, 0x4008000000000000, 0x3fe0000000000000,
}

func isNaNBits(b uint64) bool {
	return b&0x7ff0000000000000 == 0x7ff0000000000000 && b&0x000fffffffffffff != 0
}

type gen struct {
	redirect  map[int]qframe.QFrame  // congruence check: operations on member id are run on this frame instead
	forceSrc  *hframe                // congruence check: the next operation is generated for this member
	batchMode bool                   // section conc: operations are collected, not executed
	batch     []func() qframe.QFrame // the collected operations
	batchOps  []string               // their kinds
	curOp     string
	sharedCtx *eval.Context // one evaluation context shared by all concurrent Eval calls
	lastCnts  []*int        // callback counters of the instruction list generated last
	inFapply  bool
	forceInv  bool // all leaves of the clause being generated are inverse filters
	r         *tx.Rng
	w         *tx.W
	size      int
	opt       map[string]string
	fam       []*hframe
	// probability controls
	nullP int // out of 10
	wide  bool
	// declared enum value lists handed to earlier constructions (the slices themselves, to be reused)
	declPool [][]string
	// the invalid aggregation of the list is an unknown name on a valid column
	forceBadAgg bool
}

func (g *gen) genInt() int {
	if g.wide && g.r.P(5, 6) {
		return int(g.r.U64()>>40) - (1 << 23)
	}
	if g.r.P(1, 12) {
		return g.r.PickInt(intAlphabet)
	}
	return g.r.Intn(5) - 1
}

func (g *gen) genFloatBits() uint64 {
	if g.r.Intn(10) < g.nullP {
		if g.r.P(1, 3) {
			return floatBits[7+g.r.Intn(3)]
		}
		return 0x7ff8000000000001
	}
	if (g.wide && g.r.P(1, 3)) || (g.opt["floatheavy"] != "" && g.r.P(2, 3)) {
		// structured floats: exponent sweeps with boundary mantissas (powers of two and their neighbours), exact integers
		// beyond 2^53, powers of ten and neighbours, short decimals, subnormals, random bit patterns
		b := genFloatForRyu(g.r)
		if isNaNBits(b) {
			b &^= 0x7ff0000000000000
		}
		if b&0x7fffffffffffffff == 0x7ff0000000000000 && g.r.P(3, 4) {
			b ^= 1 << 62 // mostly keep the frame free of infinities (outside the quantifier of the JSON properties)
		}
		return b
	}
	for {
		b := floatBits[g.r.Intn(len(floatBits))]
		if !isNaNBits(b) {
			return b
		}
	}
}

func (g *gen) genStr() *string {
	if g.r.Intn(10) < g.nullP {
		return nil
	}
	var s string
	if g.wide && g.r.P(1, 3) {
		n := g.r.Intn(6)
		b := make([]byte, n)
		for i := range b {
			b[i] = byte(g.r.Intn(256))
		}
		s = string(b)
	} else {
		s = strAlphabet[g.r.Intn(len(strAlphabet))]
	}
	return &s
}

func (g *gen) pickN() int {
	ns := []int{0, 1, 2, 3, 4, 5, 6, 7, 8, 10, 12, 13, 16, 20}
	if g.size >= 2 {
		ns = append(ns, 40, 41, 64, 100, 200)
	}
	if v, ok := g.opt["maxrows"]; ok {
		m, _ := strconv.Atoi(v)
		return g.r.Intn(m + 1)
	}
	return g.r.PickInt(ns)
}

func (g *gen) freshFid() int { return len(g.fam) }

// ---------------------------------------------------------------- New

func (g *gen) genNew() {
	r := g.r
	fid := g.freshFid()
	n := g.pickN()
	ncols := 1 + r.Intn(4)
	if r.P(1, 25) {
		ncols = 0
	} else if r.P(1, 30) {
		ncols = 10 + r.Intn(3) // wide frames (two-digit column positions)
	}
	g.nullP = r.PickInt([]int{0, 1, 1, 3, 5})
	g.wide = r.P(1, 4)
	names := append([]string(nil), legalNames...)
	// shuffle
	for i := len(names) - 1; i > 0; i-- {
		j := r.Intn(i + 1)
		names[i], names[j] = names[j], names[i]
	}
	malformed := r.P(1, 12) || (g.opt["newonly"] != "" && r.P(1, 3))
	// key test frames: few columns over tiny alphabets, always with a bool column, enough rows for every combination
	// to occur several times and for rows to differ in one column only (grouping / Distinct over all columns)
	keytest := !malformed && (r.P(1, 12) || (g.opt["keyheavy"] != "" && r.P(1, 3)))
	// long constant columns: a frame of one to three constant columns with a row count beyond the block sizes a
	// constructor might fill by (1024, 2048), every row observed
	bigconst := !malformed && !keytest && g.opt["bigconst"] != "" && r.P(1, 4) // only in the section made for it: every later step re-reads these rows
	if bigconst {
		ncols = 1 + r.Intn(3)
		n = r.PickInt([]int{1023, 1025, 2047, 2500, 3000})
	}
	if keytest {
		ncols = 2 + r.Intn(2)
		n = 8 + r.Intn(12)
		g.nullP = r.PickInt([]int{0, 1, 3}) // null keys that repeat: the Null setting decides whether they are one group
	}
	emptyFirst := malformed && r.P(1, 3)
	data := map[string]types.DataSlice{}
	toks := []string{"N", tx.Int(fid), ""}
	enums := map[string][]string{}
	used := []string{}
	for c := 0; c < ncols; c++ {
		name := names[c]
		if malformed && r.P(1, 4) {
			name = r.Pick(illegalNames)
			if _, dup := data[name]; dup {
				continue
			}
		}
		cn := n
		if malformed && r.P(1, 3) {
			cn = r.PickInt([]int{0, 1, n + 1, 2, -1}) // (a negative length only means something for the constant kinds)
		}
		if emptyFirst {
			// exactly one column is empty; whether it comes first depends on the column order
			if c == 0 {
				cn = 0
			} else {
				cn = n
			}
		}
		// value alphabet per column: narrow (many ties: group keys) or wide (mostly distinct: sorting by it permutes the rows freely)
		g.wide = r.P(1, 3)
		kind := r.Pick([]string{"I", "I", "F", "F", "B", "S", "S", "T", "EN", "EN", "CI", "CF", "CB", "CS"})
		if bigconst {
			kind = r.Pick([]string{"CS", "CS", "CI", "CF", "CB"})
		}
		if keytest {
			g.wide = false
			kind = []string{"B", "I", "S", "EN"}[(c+r.Intn(2))%4]
			if c == 0 {
				kind = "B"
			}
		}
		if g.opt["enumheavy"] != "" && r.P(1, 2) {
			kind = r.Pick([]string{"EN", "EN", "ENBIG"})
		}
		if g.opt["floatheavy"] != "" && r.P(2, 3) {
			kind = "F"
		}
		if kind == "ENBIG" && c > 0 {
			kind = "EN"
		}
		if malformed && r.P(1, 6) {
			kind = "U"
		}
		if cn < 0 && !(kind == "CI" || kind == "CF" || kind == "CB" || kind == "CS") {
			cn = 0
		}
		if malformed && (kind == "CI" || kind == "CF" || kind == "CB" || kind == "CS") && r.P(1, 3) {
			cn = -1 - r.Intn(3) // a constant column asked to have a negative number of rows
		}
		if !malformed && c == 0 && r.P(1, 25) {
			// the only thing wrong with this construction: one constant column with a negative count
			kind = r.Pick([]string{"CI", "CF", "CB", "CS"})
			cn = -1 - r.Intn(2)
		}
		ct := []string{tx.HexS(name)}
		switch kind {
		case "I":
			d := make([]int, cn)
			ct = append(ct, "I", tx.Int(cn))
			for i := range d {
				d[i] = g.genInt()
				ct = append(ct, tx.CInt(d[i]))
			}
			data[name] = d
		case "F":
			d := make([]float64, cn)
			ct = append(ct, "F", tx.Int(cn))
			for i := range d {
				b := g.genFloatBits()
				d[i] = math.Float64frombits(b)
				ct = append(ct, tx.CBits(b))
			}
			data[name] = d
		case "B":
			d := make([]bool, cn)
			ct = append(ct, "B", tx.Int(cn))
			for i := range d {
				d[i] = r.Bool()
				ct = append(ct, tx.CBool(d[i]))
			}
			data[name] = d
		case "ENBIG":
			// an enum whose cardinality sits at a word boundary of the bit set or at the 255 limit; fixes the row count
			k := r.PickInt([]int{1, 2, 63, 64, 65, 127, 128, 129, 191, 192, 193, 254, 255, 255, 255, 256, 257, 300})
			n = k + r.Intn(3)
			cn = n
			d := make([]*string, cn)
			ct = append(ct, "S", tx.Int(cn))
			for i := range d {
				v := "v" + strconv.Itoa(i%k)
				if r.P(1, 40) {
					d[i] = nil
				} else {
					d[i] = &v
				}
				ct = append(ct, tx.CStr(d[i]))
			}
			data[name] = d
			enums[name] = nil
			if r.P(1, 3) && k <= 255 {
				decl := make([]string, k)
				for i := range decl {
					decl[i] = "v" + strconv.Itoa((i*7)%k) // a declared order different from first appearance (when 7 and k are coprime)
				}
				seen := map[string]bool{}
				uniq := decl[:0]
				for _, v := range decl {
					if !seen[v] {
						seen[v] = true
						uniq = append(uniq, v)
					}
				}
				for i := 0; i < k; i++ {
					v := "v" + strconv.Itoa(i)
					if !seen[v] {
						uniq = append(uniq, v)
					}
				}
				enums[name] = uniq
			}
		case "S", "EN":
			d := make([]*string, cn)
			ct = append(ct, "S", tx.Int(cn))
			for i := range d {
				d[i] = g.genStr()
				ct = append(ct, tx.CStr(d[i]))
			}
			data[name] = d
			if kind == "EN" {
				enums[name] = g.genEnumDecl(d, malformed)
			}
		case "T":
			d := make([]string, cn)
			ct = append(ct, "T", tx.Int(cn))
			for i := range d {
				s := g.genStr()
				if s == nil {
					e := ""
					s = &e
				}
				d[i] = *s
				ct = append(ct, tx.CStr(s))
			}
			data[name] = d
		case "CI":
			v := g.genInt()
			data[name] = qframe.ConstInt{Val: v, Count: cn}
			ct = append(ct, "CI", tx.Int(cn), tx.CInt(v))
		case "CF":
			b := g.genFloatBits()
			data[name] = qframe.ConstFloat{Val: math.Float64frombits(b), Count: cn}
			ct = append(ct, "CF", tx.Int(cn), tx.CBits(b))
		case "CB":
			v := r.Bool()
			data[name] = qframe.ConstBool{Val: v, Count: cn}
			ct = append(ct, "CB", tx.Int(cn), tx.CBool(v))
		case "CS":
			v := g.genStr()
			data[name] = qframe.ConstString{Val: v, Count: cn}
			ct = append(ct, "CS", tx.Int(cn), tx.CStr(v))
			if r.P(1, 3) {
				enums[name] = g.genEnumDecl([]*string{v}, malformed)
			}
		case "U":
			data[name] = []int32{1, 2}
			ct = append(ct, "U", "0")
		}
		toks = append(toks, ct...)
		used = append(used, name)
	}
	toks[2] = tx.Int(len(used))
	// column order
	var fns []newqf.ConfigFunc
	order := []string{}
	if r.P(1, 2) && len(used) > 0 {
		order = append(order, used...)
		for i := len(order) - 1; i > 0; i-- {
			j := r.Intn(i + 1)
			order[i], order[j] = order[j], order[i]
		}
		if malformed && r.P(1, 3) {
			switch r.Intn(3) {
			case 0:
				order = order[:len(order)-1]
			case 1:
				order[0] = "nosuch"
			case 2:
				order = append(order, "nosuch")
			}
		}
		if len(order) > 0 {
			fns = append(fns, newqf.ColumnOrder(order...))
		}
	}
	toks = append(toks, "O", tx.Int(len(order)))
	for _, o := range order {
		toks = append(toks, tx.HexS(o))
	}
	if malformed && r.P(1, 4) {
		enums["nosuch"] = nil
	}
	if malformed && r.P(1, 4) && len(used) > 0 {
		// enum declared for a column that is not a string column: stays unconsumed -> error
		enums[used[0]] = []string{"a"}
	}
	if !malformed && r.P(1, 20) {
		// the only thing wrong with this construction: an enum declaration that names an int / float / bool column
		for _, name := range used {
			switch data[name].(type) {
			case []int, []float64, []bool, qframe.ConstInt, qframe.ConstFloat, qframe.ConstBool:
				if _, has := enums[name]; !has {
					enums[name] = []string{"a"}
				}
			}
			if len(enums) > 0 && r.Bool() {
				break
			}
		}
	}
	toks = append(toks, "E", tx.Int(len(enums)))
	ek := make([]string, 0, len(enums))
	for k := range enums {
		ek = append(ek, k)
	}
	sort.Strings(ek)
	for _, k := range ek {
		toks = append(toks, tx.HexS(k), tx.Int(len(enums[k])))
		for _, v := range enums[k] {
			toks = append(toks, tx.HexS(v))
		}
	}
	if len(enums) > 0 {
		fns = append(fns, newqf.Enums(enums))
	}
	g.w.Line(toks...)
	g.finish(fid, func() qframe.QFrame { return qframe.New(data, fns...) })
}

func (g *gen) genEnumDecl(d []*string, malformed bool) []string {
	r := g.r
	if r.P(1, 3) {
		return nil // derive values from the data
	}
	if len(g.declPool) > 0 && (r.P(1, 4) || (g.opt["enumheavy"] != "" && r.P(1, 2))) {
		// the very same slice that declared an earlier column (callers keep one declaration and use it for many frames);
		// when the data does not fit it the construction fails, which must leave the earlier columns alone
		return g.declPool[r.Intn(len(g.declPool))]
	}
	seen := map[string]bool{}
	vals := []string{}
	for _, s := range d {
		if s != nil && !seen[*s] {
			seen[*s] = true
			vals = append(vals, *s)
		}
	}
	for _, extra := range []string{"zz", "a", "Q"} {
		if r.P(1, 3) && !seen[extra] {
			seen[extra] = true
			vals = append(vals, extra)
		}
	}
	for i := len(vals) - 1; i > 0; i-- {
		j := r.Intn(i + 1)
		vals[i], vals[j] = vals[j], vals[i]
	}
	if malformed && r.P(1, 3) && len(vals) > 1 {
		vals = vals[:len(vals)-1] // some value undeclared -> strict error
	}
	if len(vals) == 0 {
		return nil
	}
	g.declPool = append(g.declPool, vals)
	return vals
}

// ---------------------------------------------------------------- observation

func obsCells(qf qframe.QFrame, name string, typ types.DataType, n int) ([]string, bool) {
	cells := make([]string, 0, n)
	agree := true
	switch typ {
	case types.Int:
		v, err := qf.IntView(name)
		if err != nil {
			return nil, false
		}
		sl := v.Slice()
		agree = v.Len() == n && len(sl) == n
		for i := 0; i < v.Len(); i++ {
			x := v.ItemAt(i)
			cells = append(cells, tx.CInt(x))
			if i < len(sl) && sl[i] != x {
				agree = false
			}
		}
	case types.Float:
		v, err := qf.FloatView(name)
		if err != nil {
			return nil, false
		}
		sl := v.Slice()
		agree = v.Len() == n && len(sl) == n
		for i := 0; i < v.Len(); i++ {
			x := v.ItemAt(i)
			cells = append(cells, tx.CFloat(x))
			if i < len(sl) && math.Float64bits(sl[i]) != math.Float64bits(x) {
				agree = false
			}
		}
	case types.Bool:
		v, err := qf.BoolView(name)
		if err != nil {
			return nil, false
		}
		sl := v.Slice()
		agree = v.Len() == n && len(sl) == n
		for i := 0; i < v.Len(); i++ {
			x := v.ItemAt(i)
			cells = append(cells, tx.CBool(x))
			if i < len(sl) && sl[i] != x {
				agree = false
			}
		}
	case types.String:
		v, err := qf.StringView(name)
		if err != nil {
			return nil, false
		}
		sl := v.Slice()
		agree = v.Len() == n && len(sl) == n
		for i := 0; i < v.Len(); i++ {
			x := v.ItemAt(i)
			cells = append(cells, tx.CStr(x))
			if i < len(sl) && tx.CStr(sl[i]) != tx.CStr(x) {
				agree = false
			}
		}
	case types.Enum:
		v, err := qf.EnumView(name)
		if err != nil {
			return nil, false
		}
		sl := v.Slice()
		agree = v.Len() == n && len(sl) == n
		for i := 0; i < v.Len(); i++ {
			x := v.ItemAt(i)
			cells = append(cells, tx.CStr(x))
			if i < len(sl) && tx.CStr(sl[i]) != tx.CStr(x) {
				agree = false
			}
		}
	default:
		// undefined column type (empty untyped column): no cells
		return cells, n == 0
	}
	return cells, agree
}

func typeTok(t types.DataType) string {
	switch t {
	case types.Int:
		return "i"
	case types.Float:
		return "f"
	case types.Bool:
		return "b"
	case types.String:
		return "s"
	case types.Enum:
		return "e"
	}
	return "u"
}

// observe returns the observation tokens (after "R fid"), the schema and row count.
func observe(qf qframe.QFrame) (toks []string, cols []colInfo, n int, isErr bool) {
	if qf.Err != nil {
		return []string{"E", tx.Int(qf.Len())}, nil, 0, true
	}
	n = qf.Len()
	names := qf.ColumnNames()
	typs := qf.ColumnTypes()
	st := qf.VerifState()
	toks = []string{"K", tx.Int(n), tx.Int(len(names))}
	for j, name := range names {
		ci := colInfo{name: name, typ: typeTok(typs[j])}
		toks = append(toks, tx.HexS(name), ci.typ)
		if typs[j] == types.Enum && j < len(st.Cols) {
			ci.vals, ci.strict = st.Cols[j].EnumValues, st.Cols[j].EnumStrict
			toks = append(toks, tx.Bool01(ci.strict), tx.Int(len(ci.vals)))
			for _, v := range ci.vals {
				toks = append(toks, tx.HexS(v))
			}
		}
		cells, agree := obsCells(qf, name, typs[j], n)
		if !agree {
			// accessors disagree: make the observation unparsable on purpose so that it is reported
			toks = append(toks, "ACCESSORS-DISAGREE")
		}
		toks = append(toks, cells...)
		cols = append(cols, ci)
	}
	return toks, cols, n, false
}

func physTokens(qf qframe.QFrame) []string {
	st := qf.VerifState()
	toks := []string{tx.Int(len(st.Index))}
	for _, i := range st.Index {
		toks = append(toks, strconv.FormatUint(uint64(i), 10))
	}
	phys := -1
	for _, c := range st.Cols {
		if phys == -1 {
			phys = c.PhysLen
		} else if phys != c.PhysLen {
			phys = -2
		}
	}
	toks = append(toks, tx.Int(phys), tx.Int(len(st.Cols)))
	for _, c := range st.Cols {
		toks = append(toks, tx.Int(c.Pos), tx.Int(c.MapPos), tx.Bool01(c.MapSame))
	}
	return toks
}

func digestOf(toks []string) string {
	h := fnv.New64a()
	h.Write([]byte(strings.Join(toks, " ")))
	return fmt.Sprintf("%016x", h.Sum64())
}

func safely(f func() qframe.QFrame) (qf qframe.QFrame, pmsg string) {
	defer func() {
		if p := recover(); p != nil {
			pmsg = fmt.Sprint(p)
			if pmsg == "" {
				pmsg = "panic"
			}
		}
	}()
	return f(), ""
}

// finish executes the operation, records the observation of the new member and re-observes all earlier members.
func (g *gen) finish(fid int, run func() qframe.QFrame) *hframe {
	if g.batchMode {
		g.batch = append(g.batch, run)
		g.batchOps = append(g.batchOps, g.curOp)
		return &hframe{id: -1, err: true, digest: "panic"}
	}
	qf, pmsg := safely(run)
	hf := &hframe{id: fid, qf: qf}
	if pmsg != "" {
		g.w.Line("R", tx.Int(fid), "P", tx.HexS(pmsg))
		hf.err = true
		hf.qf = qframe.QFrame{Err: fmt.Errorf("panicked")}
		hf.digest = "panic"
		g.fam = append(g.fam, hf)
		return hf
	}
	toks, cols, n, isErr := g.observeSafely(qf)
	hf.cols, hf.n, hf.err = cols, n, isErr
	hf.digest = digestOf(toks)
	g.w.Line(append([]string{"R", tx.Int(fid)}, toks...)...)
	if !isErr && len(toks) > 0 && toks[0] == "K" {
		g.w.Line(append([]string{"P", tx.Int(fid)}, physTokens(qf)...)...)
	}
	g.fam = append(g.fam, hf)
	if !isErr && len(toks) > 0 && toks[0] == "K" {
		g.keyProbe(hf)
	}
	g.reobserve(fid)
	return hf
}

// keyProbe asks the column's own Comparable (the one Sort, GroupBy and Distinct use) about a few pairs of rows of a
// new member, under drawn flags, and for the row hashes under one seed: the driver compares every answer with the
// spec's keyCmp / keyEq on the observed cells (KC) and demands equal hashes for rows whose keys are equal (KH).
func (g *gen) keyProbe(hf *hframe) {
	r := g.r
	if len(hf.cols) == 0 || hf.n == 0 || !r.P(1, 3) {
		return
	}
	st := hf.qf.VerifState()
	if len(st.Index) != hf.n {
		return
	}
	c := hf.cols[r.Intn(len(hf.cols))]
	rev, gbn, nl := r.Bool(), r.Bool(), r.Bool()
	k := 1 + r.Intn(8)
	all := hf.n <= 8 // small frames: every ordered pair of rows (both infinities, both zeros, a null and "" meet for sure)
	if all {
		k = hf.n * hf.n
	}
	toks := []string{"KC", tx.Int(hf.id), tx.HexS(c.name), tx.Bool01(rev), tx.Bool01(gbn), tx.Bool01(nl), tx.Int(k)}
	rows := map[int]bool{}
	var pmsg string
	for i := 0; i < k; i++ {
		a, b := 0, 0
		if all {
			a, b = i/hf.n, i%hf.n
		} else {
			a, b = r.Intn(hf.n), r.Intn(hf.n)
			if r.P(1, 6) {
				b = a
			}
		}
		rows[a], rows[b] = true, true
		res := -1
		func() {
			defer func() {
				if p := recover(); p != nil {
					pmsg = fmt.Sprint(p)
				}
			}()
			res = int(hf.qf.VerifKeyCompare(c.name, rev, gbn, nl, st.Index[a], st.Index[b]))
		}()
		toks = append(toks, tx.Int(a), tx.Int(b), tx.Int(res))
	}
	g.w.Line(toks...)
	seed := uint64(r.Intn(4))
	htoks := []string{"KH", tx.Int(hf.id), tx.HexS(c.name), tx.Bool01(gbn), strconv.FormatUint(seed, 10), tx.Int(len(rows))}
	for a := 0; a < hf.n; a++ {
		if !rows[a] {
			continue
		}
		var h uint64
		func() {
			defer func() {
				if p := recover(); p != nil {
					pmsg = fmt.Sprint(p)
				}
			}()
			h = hf.qf.VerifKeyHash(c.name, gbn, st.Index[a], seed)
		}()
		htoks = append(htoks, tx.Int(a), strconv.FormatUint(h, 16))
	}
	g.w.Line(htoks...)
	if pmsg != "" {
		g.w.Line("KP", tx.Int(hf.id), tx.HexS(pmsg))
	}
}

func (g *gen) observeSafely(qf qframe.QFrame) (toks []string, cols []colInfo, n int, isErr bool) {
	defer func() {
		if p := recover(); p != nil {
			toks = []string{"P", tx.HexS("observe: " + fmt.Sprint(p))}
			isErr = true
		}
	}()
	return observe(qf)
}

func (g *gen) reobserve(except int) {
	for _, f := range g.fam {
		if f.id == except || f.digest == "panic" {
			continue
		}
		toks, _, _, _ := g.observeSafely(f.qf)
		g.w.Line("D", tx.Int(f.id), digestOf(toks), f.digest)
	}
}

// ---------------------------------------------------------------- helpers for picking

// qfOf returns the frame an operation generated for member f runs on.
func (g *gen) qfOf(f *hframe) qframe.QFrame {
	if r, ok := g.redirect[f.id]; ok {
		return r
	}
	return f.qf
}

func (g *gen) pickFrame(wantOK bool) *hframe {
	if g.forceSrc != nil {
		return g.forceSrc
	}
	for try := 0; try < 20; try++ {
		f := g.fam[g.r.Intn(len(g.fam))]
		switch g.r.Intn(3) {
		case 0:
			if len(g.fam) > 3 {
				f = g.fam[len(g.fam)-1-g.r.Intn(3)] // one of the most recent members
			}
		case 1:
			// prefer members with many rows (aggregations and filters shrink the family otherwise)
			for k := 0; k < 3; k++ {
				c := g.fam[g.r.Intn(len(g.fam))]
				if !c.err && c.n > f.n {
					f = c
				}
			}
		}
		if f.digest == "panic" {
			continue
		}
		if wantOK && f.err {
			continue
		}
		return f
	}
	return g.fam[0]
}

func (f *hframe) colsOf(typ string) []colInfo {
	var res []colInfo
	for _, c := range f.cols {
		if strings.Contains(typ, c.typ) {
			res = append(res, c)
		}
	}
	return res
}

func (g *gen) pickCol(f *hframe) (colInfo, bool) {
	if len(f.cols) == 0 {
		return colInfo{}, false
	}
	return f.cols[g.r.Intn(len(f.cols))], true
}

func (g *gen) colNameMaybeBad(f *hframe, bad bool) string {
	if bad || len(f.cols) == 0 {
		return "nosuch"
	}
	return f.cols[g.r.Intn(len(f.cols))].name
}

func (g *gen) newName(f *hframe) string {
	if g.r.P(1, 3) && len(f.cols) > 0 {
		return f.cols[g.r.Intn(len(f.cols))].name
	}
	return g.r.Pick(legalNames)
}

// ---------------------------------------------------------------- clauses

type clause struct {
	c    qframe.FilterClause
	toks []string
}

var cmp6 = []string{"<", "<=", ">", ">=", "=", "!="}

func p1Int(x int) bool          { return x&1 == 1 }
func p1Float(x float64) bool    { return !math.IsNaN(x) && math.Signbit(x) } // the sign of a NaN is not a property of the value
func p1Bool(x bool) bool        { return x }
func p1Str(x *string) bool      { return x == nil }
func p1StrLen(x *string) bool   { return x != nil && len(*x) >= 2 }
func p2Int(x, y int) bool       { return x < y }
func p2Float(x, y float64) bool { return x < y }
func p2Bool(x, y bool) bool     { return x && !y }
func p2Str(x, y *string) bool   { return x != nil && y != nil && *x == *y }

func (g *gen) genLeaf(f *hframe, bad bool) clause {
	r := g.r
	col, ok := g.pickCol(f)
	if !ok || (bad && r.P(1, 4)) {
		return clause{qframe.Filter{Column: "nosuch", Comparator: "=", Arg: 1},
			[]string{"F", "0", tx.HexS("nosuch"), "s" + tx.HexS("="), tx.CInt(1)}}
	}
	inv := r.P(1, 3) || g.forceInv
	fl := filter.Filter{Column: col.name, Inverse: inv}
	toks := []string{"F", tx.Bool01(inv), tx.HexS(col.name)}
	setCmp := func(c string) { fl.Comparator = c; toks = append(toks, "s"+tx.HexS(c)) }
	// argument column of a given type set
	argCol := func(typs string) (colInfo, bool) {
		cs := f.colsOf(typs)
		if len(cs) == 0 {
			return colInfo{}, false
		}
		return cs[r.Intn(len(cs))], true
	}
	kind := r.Intn(10)
	if bad {
		kind = 10 + r.Intn(6)
	}
	switch {
	case kind == 10: // unsupported comparator name
		setCmp("~=")
		switch col.typ {
		case "i":
			fl.Arg = 1
			toks = append(toks, tx.CInt(1))
		case "f":
			fl.Arg = 1.0
			toks = append(toks, tx.CFloat(1.0))
		case "b":
			fl.Arg = true
			toks = append(toks, tx.CBool(true))
		default:
			fl.Arg = "a"
			toks = append(toks, tx.HexS("a"))
		}
	case kind == 11: // wrong argument type
		setCmp("=")
		if col.typ == "s" || col.typ == "e" {
			fl.Arg = 1
			toks = append(toks, tx.CInt(1))
		} else {
			fl.Arg = "a"
			toks = append(toks, tx.HexS("a"))
		}
	case kind == 15 && (col.typ == "s" || col.typ == "e"): // a pattern that is not a valid regular expression (the same few, again and again)
		c := r.Pick([]string{"like", "ilike"})
		if c == "ilike" && !g.allValidUTF8(f, col) {
			c = "like"
		}
		setCmp(c)
		v := r.Pick([]string{"(a", "%[b"})
		g.emitLikeOracle(f, col, v, c == "ilike")
		fl.Arg = v
		toks = append(toks, tx.HexS(v))
	case kind == 15:
		setCmp("~=")
		fl.Arg = nil
		toks = append(toks, "nil")
	case kind == 12: // comparator of an unsupported type
		fl.Comparator = 42
		fl.Arg = nil
		toks = append(toks, "bad", "nil")
	case kind == 13: // unknown argument column
		setCmp("=")
		fl.Arg = types.ColumnName("nosuch")
		toks = append(toks, "col", tx.HexS("nosuch"))
	case kind == 14: // argument column of another type
		setCmp("=")
		other := map[string]string{"i": "bse", "f": "bse", "b": "ifse", "s": "ifbe", "e": "ifbs"}[col.typ]
		if ac, ok := argCol(other); ok {
			fl.Arg = types.ColumnName(ac.name)
			toks = append(toks, "col", tx.HexS(ac.name))
		} else {
			fl.Arg = struct{}{}
			toks = append(toks, "badarg")
		}
	case kind <= 4: // constant comparison
		switch col.typ {
		case "i":
			c := r.Pick(append(append([]string{}, cmp6...), "any_bits", "all_bits"))
			setCmp(c)
			v := g.genInt()
			fl.Arg = v
			toks = append(toks, tx.CInt(v))
		case "f":
			setCmp(r.Pick(cmp6))
			b := g.genFloatBits()
			for isNaNBits(b) {
				b = floatBits[r.Intn(7)]
			}
			fl.Arg = math.Float64frombits(b)
			toks = append(toks, tx.CBits(b))
		case "b":
			setCmp(r.Pick([]string{"=", "!="}))
			v := r.Bool()
			fl.Arg = v
			toks = append(toks, tx.CBool(v))
		case "s", "e":
			c := r.Pick(append(append([]string{}, cmp6...), "like", "ilike"))
			setCmp(c)
			var v string
			if c == "like" || c == "ilike" {
				v = r.Pick([]string{"a", "%a", "a%", "%a%", "%", "", "A%", "%B", "b.c", "^a", "%é", "(a", "%[b", "a(%"})
			} else if col.typ == "e" && len(col.vals) > 0 && !r.P(1, 6) {
				v = col.vals[r.Intn(len(col.vals))]
			} else {
				v = strAlphabet[r.Intn(len(strAlphabet))]
			}
			if c == "like" || c == "ilike" {
				if c == "ilike" && !g.allValidUTF8(f, col) {
					c = "like"
					fl.Comparator = c
					toks[len(toks)-1] = "s" + tx.HexS(c)
				}
				g.emitLikeOracle(f, col, v, c == "ilike")
			}
			fl.Arg = v
			toks = append(toks, tx.HexS(v))
		}
	case kind == 5: // value set
		switch col.typ {
		case "i":
			setCmp("in")
			k := r.Intn(6)
			vs := make([]int, k)
			toks = append(toks, "il", tx.Int(k))
			for i := range vs {
				vs[i] = g.genInt()
				toks = append(toks, tx.CInt(vs[i]))
			}
			fl.Arg = vs
		case "s", "e":
			setCmp("in")
			k := r.Intn(6)
			vs := make([]string, k)
			toks = append(toks, "sl", tx.Int(k))
			for i := range vs {
				vs[i] = strAlphabet[r.Intn(len(strAlphabet))]
				if col.typ == "e" && len(col.vals) > 0 && r.P(2, 3) {
					vs[i] = col.vals[r.Intn(len(col.vals))]
				}
				if i == 0 && col.typ == "s" && r.P(1, 3) {
					vs[i] = "" // the empty string is a value, not the null
				}
				toks = append(toks, tx.HexS(vs[i]))
			}
			fl.Arg = vs
		default:
			setCmp("=")
			if col.typ == "f" {
				fl.Arg = 1.0
				toks = append(toks, tx.CFloat(1.0))
			} else {
				fl.Arg = true
				toks = append(toks, tx.CBool(true))
			}
		}
	case kind == 6: // isnull / isnotnull
		if col.typ == "b" {
			setCmp("=")
			fl.Arg = false
			toks = append(toks, tx.CBool(false))
		} else {
			setCmp(r.Pick([]string{"isnull", "isnotnull"}))
			fl.Arg = nil
			toks = append(toks, "nil")
		}
	case kind == 7 || kind == 8: // column argument
		want := map[string]string{"i": "if", "f": "if", "b": "b", "s": "s", "e": "e"}[col.typ]
		if col.typ == "i" && len(f.colsOf("f")) > 0 && r.Bool() {
			want = "f" // an int column against a float column: the int column is promoted for the comparison
		}
		ac, ok := argCol(want)
		if !ok {
			ac = col
		}
		if col.typ == "e" {
			// prefer ANOTHER enum column with the same value list: only then does an ordering comparison between two enum
			// columns mean something (and which operand is which matters)
			for _, c2 := range f.colsOf("e") {
				if c2.name != col.name && len(c2.vals) > 1 && strings.Join(c2.vals, "\x00") == strings.Join(col.vals, "\x00") && r.P(3, 4) {
					ac = c2
					break
				}
			}
		}
		if col.typ == "b" {
			setCmp(r.Pick([]string{"=", "!="}))
		} else {
			setCmp(r.Pick(cmp6))
		}
		fl.Arg = types.ColumnName(ac.name)
		toks = append(toks, "col", tx.HexS(ac.name))
	default: // custom predicate
		two := r.P(1, 3)
		if two {
			ac, _ := argCol(col.typ)
			if ac.name == "" {
				ac = col
			}
			switch col.typ {
			case "i":
				fl.Comparator = p2Int
			case "f":
				fl.Comparator = p2Float
			case "b":
				fl.Comparator = p2Bool
			default:
				fl.Comparator = p2Str
			}
			fl.Arg = types.ColumnName(ac.name)
			toks = append(toks, "p2", "col", tx.HexS(ac.name))
		} else {
			switch col.typ {
			case "i":
				fl.Comparator = p1Int
				toks = append(toks, "p1:odd", "nil")
			case "f":
				fl.Comparator = p1Float
				toks = append(toks, "p1:neg", "nil")
			case "b":
				fl.Comparator = p1Bool
				toks = append(toks, "p1:id", "nil")
			default:
				if r.Bool() {
					fl.Comparator = p1Str
					toks = append(toks, "p1:isnil", "nil")
				} else {
					fl.Comparator = p1StrLen
					toks = append(toks, "p1:len2", "nil")
				}
			}
		}
	}
	return clause{qframe.Filter(fl), toks}
}

func (g *gen) genClause(f *hframe, depth int, bad bool) clause {
	r := g.r
	if bad && depth >= 2 && r.P(1, 3) {
		// Or(<every row>, <nested clause that fails at filter time>): the error must not be lost
		l := g.genLeaf(f, true)
		wrap := r.Pick([]string{"AND", "OR", "NOT"})
		var inner clause
		switch wrap {
		case "AND":
			inner = clause{qframe.And(l.c), append([]string{"AND", "1"}, l.toks...)}
		case "OR":
			inner = clause{qframe.Or(qframe.Null(), l.c), append([]string{"OR", "2", "NULL"}, l.toks...)}
		default:
			inner = clause{qframe.Not(qframe.And(l.c)), append([]string{"NOT", "AND", "1"}, l.toks...)}
		}
		if r.Bool() {
			return clause{qframe.Or(qframe.Null(), inner.c), append([]string{"OR", "2", "NULL"}, inner.toks...)}
		}
		return clause{qframe.Or(inner.c, qframe.Null()), append(append([]string{"OR", "2"}, inner.toks...), "NULL")}
	}
	k := r.Intn(10)
	if depth <= 0 || k < 4 {
		return g.genLeaf(f, bad && r.P(1, 2))
	}
	switch {
	case k < 6 || k == 9:
		n := 1 + r.Intn(4)
		if bad && r.P(1, 5) {
			n = 0
		}
		subs := make([]qframe.FilterClause, n)
		name := "AND"
		if k >= 5 {
			name = "OR"
		}
		toks := []string{name, tx.Int(n)}
		for i := range subs {
			c := g.genClause(f, depth-1, bad && r.P(1, 3))
			if name == "AND" && i == 0 && n >= 2 && r.P(1, 3) {
				// a first conjunct that keeps every row: the next one starts from the frame's own (shared) row index
				c = clause{qframe.Null(), []string{"NULL"}}
			}
			subs[i] = c.c
			toks = append(toks, c.toks...)
		}
		if name == "AND" {
			return clause{qframe.And(subs...), toks}
		}
		return clause{qframe.Or(subs...), toks}
	case k < 8:
		c := g.genClause(f, depth-1, bad)
		return clause{qframe.Not(c.c), append([]string{"NOT"}, c.toks...)}
	default:
		return clause{qframe.Null(), []string{"NULL"}}
	}
}

// ---------------------------------------------------------------- function catalogue (must match Lean QF.Spec.Catalogue)

func strp(s string) *string { return &s }

type fnEntry struct {
	id  string
	src string // source column type set
	fn  interface{}
}

var fn1Catalogue = []fnEntry{
	{"i.inc", "i", func(x int) int { return x + 1 }},
	{"i.odd", "i", func(x int) bool { return x&1 == 1 }},
	{"i.str", "i", func(x int) *string { return strp(strconv.Itoa(x)) }},
	{"i.half", "i", func(x int) float64 { return float64(x%1024) / 2 }},
	{"f.neg", "f", func(x float64) float64 { return -x }},
	{"f.isneg", "f", func(x float64) bool { return !math.IsNaN(x) && math.Signbit(x) }},
	{"f.sign", "f", func(x float64) int {
		if math.IsNaN(x) {
			return 7
		}
		if x < 0 {
			return -1
		}
		if x > 0 {
			return 1
		}
		return 0
	}},
	{"b.not", "b", func(x bool) bool { return !x }},
	{"b.int", "b", func(x bool) int {
		if x {
			return 1
		}
		return 0
	}},
	{"s.addx", "se", func(x *string) *string {
		if x == nil {
			return nil
		}
		return strp(*x + "x")
	}},
	{"s.len", "se", func(x *string) int {
		if x == nil {
			return -1
		}
		return len(*x)
	}},
	{"s.isnil", "se", func(x *string) bool { return x == nil }},
	{"s.nilempty", "se", func(x *string) *string {
		if x == nil || *x == "" {
			return nil
		}
		return x
	}},
	{"s.flen", "se", func(x *string) float64 {
		if x == nil {
			return -0.5
		}
		return float64(len(*x)) / 2
	}},
	{"s.nvl", "se", func(x *string) *string {
		if x == nil {
			return strp("N/A")
		}
		return x
	}},
	{"f.str", "f", func(x float64) *string {
		if math.IsNaN(x) {
			return strp("nan")
		}
		if math.Signbit(x) {
			return strp("neg")
		}
		return strp("pos")
	}},
	{"b.half", "b", func(x bool) float64 {
		if x {
			return 1.5
		}
		return 0.5
	}},
	{"b.str", "b", func(x bool) *string {
		if x {
			return strp("T")
		}
		return strp("F")
	}},
}

// result type of a catalogue function ("i", "f", "b", "s")
func fnResultType(fn interface{}) string {
	switch fn.(type) {
	case func(int) int, func(float64) int, func(bool) int, func(*string) int, func(int, int) int:
		return "i"
	case func(int) float64, func(float64) float64, func(bool) float64, func(*string) float64, func(float64, float64) float64:
		return "f"
	case func(int) bool, func(float64) bool, func(bool) bool, func(*string) bool, func(bool, bool) bool:
		return "b"
	default:
		return "s"
	}
}

var fn2Catalogue = []fnEntry{
	{"i.add", "i", func(x, y int) int { return x + y }},
	{"i.sub", "i", func(x, y int) int { return x - y }},
	{"f.add", "f", func(x, y float64) float64 { return x + y }},
	{"f.first", "f", func(x, y float64) float64 { return x }},
	{"b.and", "b", func(x, y bool) bool { return x && y }},
	{"b.xor", "b", func(x, y bool) bool { return x != y }},
	{"s.cat", "se", func(x, y *string) *string {
		if x == nil {
			return y
		}
		if y == nil {
			return x
		}
		return strp(*x + *y)
	}},
	{"s.second", "se", func(x, y *string) *string { return y }},
	{"s.coalesce", "se", func(x, y *string) *string {
		if x != nil {
			return x
		}
		if y != nil {
			return y
		}
		return strp("n/a")
	}},
}

type instr struct {
	in   qframe.Instruction
	toks []string
	cnt  *int // number of invocations of the user callback of this instruction (nil: no callback)
}

// counted wraps a catalogue function so that its invocations are counted.
func counted(fn interface{}, cnt *int) interface{} {
	switch f := fn.(type) {
	case func(int) int:
		return func(x int) int { *cnt++; return f(x) }
	case func(int) bool:
		return func(x int) bool { *cnt++; return f(x) }
	case func(int) *string:
		return func(x int) *string { *cnt++; return f(x) }
	case func(int) float64:
		return func(x int) float64 { *cnt++; return f(x) }
	case func(float64) float64:
		return func(x float64) float64 { *cnt++; return f(x) }
	case func(float64) bool:
		return func(x float64) bool { *cnt++; return f(x) }
	case func(float64) int:
		return func(x float64) int { *cnt++; return f(x) }
	case func(bool) bool:
		return func(x bool) bool { *cnt++; return f(x) }
	case func(bool) int:
		return func(x bool) int { *cnt++; return f(x) }
	case func(*string) *string:
		return func(x *string) *string { *cnt++; return f(x) }
	case func(*string) int:
		return func(x *string) int { *cnt++; return f(x) }
	case func(*string) bool:
		return func(x *string) bool { *cnt++; return f(x) }
	case func(int, int) int:
		return func(x, y int) int { *cnt++; return f(x, y) }
	case func(float64, float64) float64:
		return func(x, y float64) float64 { *cnt++; return f(x, y) }
	case func(bool, bool) bool:
		return func(x, y bool) bool { *cnt++; return f(x, y) }
	case func(*string, *string) *string:
		return func(x, y *string) *string { *cnt++; return f(x, y) }
	case func() int:
		return func() int { *cnt++; return f() }
	case func() float64:
		return func() float64 { *cnt++; return f() }
	case func() bool:
		return func() bool { *cnt++; return f() }
	case func() *string:
		return func() *string { *cnt++; return f() }
	}
	return fn
}

// genInstr generates one Apply instruction. bad requests an invalid one.
func (g *gen) genInstr(f *hframe, cols []colInfo, bad bool, written map[string]bool) instr {
	r := g.r
	dst := g.r.Pick(legalNames)
	if r.P(1, 3) && len(cols) > 0 {
		dst = cols[r.Intn(len(cols))].name
	}
	if bad && r.P(1, 4) {
		dst = r.Pick(illegalNames)
	}
	in := qframe.Instruction{DstCol: dst}
	toks := []string{tx.HexS(dst)}
	pick := func(ts string) (colInfo, bool) {
		var cs []colInfo
		for _, c := range cols {
			if strings.Contains(ts, c.typ) {
				cs = append(cs, c)
			}
		}
		if len(cs) == 0 {
			return colInfo{}, false
		}
		return cs[r.Intn(len(cs))], true
	}
	kind := r.Intn(10)
	if len(cols) == 0 && kind >= 4 {
		kind = r.Intn(4)
	}
	// an enum column whose values merge under upper-casing (a, A -> A) takes the remapping branch of the built-in
	// ToUpper: visit it often, mostly with a destination other than the source (the source must stay what it was)
	var mergeCol *colInfo
	if !bad && !g.inFapply && g.opt["noupper"] == "" {
		for i := range cols {
			c := cols[i]
			if c.typ == "e" && len(c.vals) > 1 && !upperInjective(c.vals) && allValid(c.vals) && !written[c.name] && sameCol(f, c) && g.allValidUTF8(f, c) {
				mergeCol = &cols[i]
				break
			}
		}
	}
	if mergeCol != nil && r.P(1, 3) {
		kind = 7
		if dst == mergeCol.name && r.P(3, 4) {
			dst = "u" + mergeCol.name
			in.DstCol = dst
			toks[0] = tx.HexS(dst)
		}
	}
	if bad {
		kind = 10 + r.Intn(4)
	}
	switch {
	case kind == 10: // unknown source column
		in.SrcCol1 = "nosuch"
		in.Fn = fn1Catalogue[0].fn
		toks = append(toks, tx.HexS("nosuch"), "-", "f1", fn1Catalogue[0].id)
	case kind == 11: // function of the wrong type for the column
		c, ok := g.pickColFrom(cols)
		if !ok {
			in.Fn = struct{}{}
			toks = append(toks, "-", "-", "bad")
			break
		}
		in.SrcCol1 = c.name
		var e fnEntry
		for {
			e = fn1Catalogue[r.Intn(len(fn1Catalogue))]
			if !strings.Contains(e.src, c.typ) {
				break
			}
		}
		in.Fn = e.fn
		toks = append(toks, tx.HexS(c.name), "-", "f1", e.id)
	case kind == 12 && r.Bool(): // a ColumnName copy of an unknown column onto itself
		in.DstCol = "nosuch"
		toks[0] = tx.HexS("nosuch")
		in.Fn = types.ColumnName("nosuch")
		toks = append(toks, "-", "-", "col", tx.HexS("nosuch"))
	case kind == 12: // unsupported zero-arg type
		in.Fn = struct{}{}
		toks = append(toks, "-", "-", "bad")
	case kind == 13: // unknown built-in name
		c, ok := g.pickColFrom(cols)
		if !ok {
			in.Fn = struct{}{}
			toks = append(toks, "-", "-", "bad")
			break
		}
		in.SrcCol1 = c.name
		in.Fn = "NoSuchFn"
		toks = append(toks, tx.HexS(c.name), "-", "bi", tx.HexS("NoSuchFn"))
	case kind == 0: // constants
		switch r.Intn(5) {
		case 0:
			v := g.genInt()
			in.Fn = v
			toks = append(toks, "-", "-", "c", tx.CInt(v))
		case 1:
			b := g.genFloatBits()
			in.Fn = math.Float64frombits(b)
			toks = append(toks, "-", "-", "c", tx.CBits(b))
		case 2:
			v := r.Bool()
			in.Fn = v
			toks = append(toks, "-", "-", "c", tx.CBool(v))
		case 3:
			v := g.genStr()
			in.Fn = v
			toks = append(toks, "-", "-", "cp", tx.CStr(v))
		case 4:
			v := strAlphabet[r.Intn(len(strAlphabet))]
			in.Fn = v
			toks = append(toks, "-", "-", "c", tx.HexS(v))
		}
	case kind == 1: // column copy
		c, ok := g.pickColFrom(cols)
		if !ok {
			in.Fn = 5
			toks = append(toks, "-", "-", "c", tx.CInt(5))
			break
		}
		in.Fn = types.ColumnName(c.name)
		toks = append(toks, "-", "-", "col", tx.HexS(c.name))
	case (kind == 2 || kind == 3) && g.batchMode:
		v := g.genInt()
		in.Fn = v
		toks = append(toks, "-", "-", "c", tx.CInt(v))
	case kind == 2 || kind == 3: // zero-arg function with state
		start := r.Intn(50)
		switch r.Intn(4) {
		case 0:
			i := start - 1
			in.Fn = func() int { i++; return i }
			toks = append(toks, "-", "-", "f0i", tx.Int(start))
		case 1:
			i := start - 1
			in.Fn = func() float64 { i++; return float64(i) / 2 }
			toks = append(toks, "-", "-", "f0f", tx.Int(start))
		case 2:
			i := start - 1
			in.Fn = func() bool { i++; return i%3 == 0 }
			toks = append(toks, "-", "-", "f0b", tx.Int(start))
		case 3:
			i := start - 1
			in.Fn = func() *string {
				i++
				if i%4 == 3 {
					return nil
				}
				return strp("s" + strconv.Itoa(i))
			}
			toks = append(toks, "-", "-", "f0s", tx.Int(start))
		}
	case kind <= 6: // one-argument function
		c, _ := g.pickColFrom(cols)
		var cands []fnEntry
		for _, e := range fn1Catalogue {
			if strings.Contains(e.src, c.typ) {
				cands = append(cands, e)
			}
		}
		e := cands[r.Intn(len(cands))]
		in.SrcCol1 = c.name
		in.Fn = e.fn
		toks = append(toks, tx.HexS(c.name), "-", "f1", e.id)
	case kind == 7: // built-in ToUpper on string / enum columns
		c, ok := pick("se")
		if mergeCol != nil {
			c, ok = *mergeCol, true
		}
		if !ok || g.opt["noupper"] != "" {
			v := g.genInt()
			in.Fn = v
			toks = append(toks, "-", "-", "c", tx.CInt(v))
			break
		}
		// upper-casing may merge two values (a, A -> A): the merged table and the remapped codes are part of the result
		enumOK := c.typ == "e" && !g.inFapply && (upperInjective(c.vals) || allValid(c.vals))
		if !(c.typ == "s" || enumOK) || !g.allValidUTF8(f, c) || !sameCol(f, c) || written[c.name] {
			v := g.genInt()
			in.Fn = v
			toks = append(toks, "-", "-", "c", tx.CInt(v))
			break
		}
		g.emitUpperOracle(f, c)
		in.SrcCol1 = c.name
		in.Fn = "ToUpper"
		toks = append(toks, tx.HexS(c.name), "-", "bi", tx.HexS("ToUpper"))
	default: // two-argument function
		c, _ := g.pickColFrom(cols)
		c2, ok := pick(c.typ)
		if !ok {
			c2 = c
		}
		var cands []fnEntry
		for _, e := range fn2Catalogue {
			if strings.Contains(e.src, c.typ) {
				cands = append(cands, e)
			}
		}
		e := cands[r.Intn(len(cands))]
		if (c.typ == "s" || c.typ == "e") && r.P(1, 3) {
			e = cands[len(cands)-1] // s.coalesce: the one function that answers two nulls with a value
			if r.Bool() {
				c2 = c // the same column twice: both arguments are null in the same rows
			}
		}
		in.SrcCol1, in.SrcCol2 = c.name, c2.name
		in.Fn = e.fn
		toks = append(toks, tx.HexS(c.name), tx.HexS(c2.name), "f2", e.id)
	}
	if g.batchMode {
		return instr{in, toks, nil}
	}
	cnt := new(int)
	wrapped := counted(in.Fn, cnt)
	if fmt.Sprintf("%T", wrapped) == fmt.Sprintf("%T", in.Fn) && isFunc(in.Fn) {
		in.Fn = wrapped
		return instr{in, toks, cnt}
	}
	return instr{in, toks, nil}
}

func isFunc(x interface{}) bool {
	return x != nil && len(fmt.Sprintf("%T", x)) > 4 && fmt.Sprintf("%T", x)[:4] == "func"
}

func (g *gen) pickColFrom(cols []colInfo) (colInfo, bool) {
	if len(cols) == 0 {
		return colInfo{}, false
	}
	return cols[g.r.Intn(len(cols))], true
}

// after an instruction the schema changes; track what we can so that later instructions may refer to new columns.
func applySchema(cols []colInfo, in instr) []colInfo {
	// result type is not tracked precisely here (the real observation follows); new columns are
	// only referenced by later instructions of the same Apply through their names when present already.
	return cols
}

func (g *gen) genInstrs(f *hframe, bad bool) ([]qframe.Instruction, []string) {
	g.lastCnts = g.lastCnts[:0]
	k := 1 + g.r.Intn(3)
	if g.r.P(1, 10) {
		k = 0
	}
	ins := make([]qframe.Instruction, 0, k)
	toks := []string{tx.Int(k)}
	badAt := -1
	if bad && k > 0 {
		badAt = g.r.Intn(k)
	}
	cols := f.cols
	written := map[string]bool{}
	for i := 0; i < k; i++ {
		in := g.genInstr(f, cols, i == badAt, written)
		written[in.in.DstCol] = true
		g.lastCnts = append(g.lastCnts, in.cnt)
		ins = append(ins, in.in)
		toks = append(toks, in.toks...)
		cols = applySchema(cols, in)
	}
	return ins, toks
}

// ---------------------------------------------------------------- expressions

type exprT struct {
	e    interface{} // argument acceptable to qframe.Expr / Val
	toks []string
}

var evalOps = map[string][][]string{ // type -> {unary ops, binary ops}
	"i": {{"abs", "str", "bool", "myinc"}, {"+", "-", "*", "mysub"}},
	"f": {{"abs", "myneg"}, {"+", "-", "*"}},
	"b": {{"!", "str", "int"}, {"&", "|", "!=", "nand"}},
	"s": {{"str", "len", "myaddx", "mynvl"}, {"+"}},
	"e": {{"str", "len", "myaddx", "mynvl"}, {"+"}},
}

// genExpr builds an expression. It returns the expression argument and its tokens.
// Type tracking is approximate (the spec decides errors); we try to generate mostly well-typed trees.
func (g *gen) genExpr(f *hframe, depth int, typ string, bad bool) exprT {
	r := g.r
	cols := f.colsOf(typ)
	leaf := func() exprT {
		if len(cols) > 0 && r.P(2, 3) {
			c := cols[r.Intn(len(cols))]
			if r.P(1, 4) {
				// the same column reference as an Expression value (qframe.Val)
				return exprT{qframe.Val(types.ColumnName(c.name)), []string{"C", tx.HexS(c.name)}}
			}
			return exprT{types.ColumnName(c.name), []string{"C", tx.HexS(c.name)}}
		}
		switch typ {
		case "i":
			v := g.genInt()
			if r.P(1, 4) {
				return exprT{qframe.Val(v), []string{"V", tx.CInt(v)}}
			}
			return exprT{v, []string{"V", tx.CInt(v)}}
		case "f":
			b := g.genFloatBits()
			return exprT{math.Float64frombits(b), []string{"V", tx.CBits(b)}}
		case "b":
			v := r.Bool()
			return exprT{v, []string{"V", tx.CBool(v)}}
		default:
			if r.P(1, 4) {
				return exprT{nil, []string{"V", "nil"}}
			}
			v := strAlphabet[r.Intn(len(strAlphabet))]
			return exprT{v, []string{"V", tx.HexS(v)}}
		}
	}
	if bad && r.P(1, 3) {
		switch r.Intn(3) {
		case 0:
			// a reference to a column the frame does not have — also under the names Eval gives its temporary
			// columns: another part of the expression may have created a column of that name meanwhile
			name := "nosuch"
			if r.Bool() {
				cand := r.Pick([]string{"colcol-temp-0", "const-temp-0", "unary-temp-0", "colcol-temp-1", "const-temp-1"})
				present := false
				for _, c := range f.cols {
					if c.name == cand {
						present = true
					}
				}
				if !present {
					name = cand
				}
			}
			return exprT{types.ColumnName(name), []string{"C", tx.HexS(name)}}
		case 1:
			switch r.Intn(3) {
			case 0:
				// a raw list expression with more than three elements is malformed (only Expr folds n-ary operands)
				return exprT{[]interface{}{"+", 1, 2, 3}, []string{"BADARG"}}
			case 1:
				// an empty list in expression position
				return exprT{[]interface{}{}, []string{"BADARG"}}
			}
			return exprT{struct{}{}, []string{"BADARG"}}
		default:
			return exprT{qframe.Expr("nosuchfn", types.ColumnName(g.colNameMaybeBad(f, false))),
				[]string{"X", tx.HexS("nosuchfn"), "1", "C", tx.HexS(g.colNameMaybeBad(f, false))}}
		}
	}
	if depth <= 0 || r.P(1, 4) {
		return leaf()
	}
	ops := evalOps[typ]
	if r.P(1, 3) {
		// unary producing typ: restrict to ops that keep the type
		keep := map[string][]string{"i": {"abs", "myinc"}, "f": {"abs", "myneg"}, "b": {"!"}, "s": {"str", "myaddx", "mynvl"}, "e": {"str", "myaddx", "mynvl"}}[typ]
		op := keep[r.Intn(len(keep))]
		if (typ == "s" || typ == "e") && r.P(1, 3) {
			op = "mynvl" // answers null with a value: the function must be applied to null operands as well
		}
		a := g.genExpr(f, depth-1, typ, bad)
		return exprT{qframe.Expr(op, a.e), append([]string{"X", tx.HexS(op), "1"}, a.toks...)}
	}
	// a user function of the Apply catalogue, registered as "my.<id>" (one for every signature SetFunc accepts): its
	// operand type may differ from its result type
	if r.P(1, 6) {
		want := typ
		if want == "e" {
			want = "s"
		}
		var cands []fnEntry
		for _, e := range fn1Catalogue {
			if fnResultType(e.fn) == want {
				cands = append(cands, e)
			}
		}
		if len(cands) > 0 {
			e := cands[r.Intn(len(cands))]
			srcT := string(e.src[r.Intn(len(e.src))])
			a := g.genExpr(f, depth-1, srcT, bad)
			op := "my." + e.id
			return exprT{qframe.Expr(op, a.e), append([]string{"X", tx.HexS(op), "1"}, a.toks...)}
		}
	}
	// conversions into typ from another type
	if r.P(1, 5) {
		switch typ {
		case "i":
			a := g.genExpr(f, depth-1, "b", bad)
			return exprT{qframe.Expr("int", a.e), append([]string{"X", tx.HexS("int"), "1"}, a.toks...)}
		case "s", "e":
			srcT := r.Pick([]string{"i", "b"})
			a := g.genExpr(f, depth-1, srcT, bad)
			return exprT{qframe.Expr("str", a.e), append([]string{"X", tx.HexS("str"), "1"}, a.toks...)}
		case "b":
			a := g.genExpr(f, depth-1, "i", bad)
			return exprT{qframe.Expr("bool", a.e), append([]string{"X", tx.HexS("bool"), "1"}, a.toks...)}
		}
	}
	if !bad && len(cols) > 0 && r.P(1, 15) {
		// (c1 op c2) op <a column the frame does not have, named as the temporary column the left operand creates>
		// (and mirrored): the reference must be reported as unknown, not resolved against the temporary
		present := func(n string) bool {
			for _, c := range f.cols {
				if c.name == n {
					return true
				}
			}
			return false
		}
		if !present("colcol-temp-0") && !present("colcol-temp-1") {
			op := ops[1][r.Intn(len(ops[1]))]
			c1, c2 := cols[r.Intn(len(cols))], cols[r.Intn(len(cols))]
			inner := qframe.Expr(op, types.ColumnName(c1.name), types.ColumnName(c2.name))
			itoks := []string{"X", tx.HexS(op), "2", "C", tx.HexS(c1.name), "C", tx.HexS(c2.name)}
			ghost := r.Pick([]string{"colcol-temp-0", "colcol-temp-0", "colcol-temp-1"})
			gtoks := []string{"C", tx.HexS(ghost)}
			if r.Bool() {
				return exprT{qframe.Expr(op, inner, types.ColumnName(ghost)), append(append([]string{"X", tx.HexS(op), "2"}, itoks...), gtoks...)}
			}
			return exprT{qframe.Expr(op, types.ColumnName(ghost), inner), append(append([]string{"X", tx.HexS(op), "2"}, gtoks...), itoks...)}
		}
	}
	op := ops[1][r.Intn(len(ops[1]))]
	n := 2
	if r.P(1, 3) {
		n = 3 + r.Intn(2)
	}
	args := make([]interface{}, n)
	toks := []string{"X", tx.HexS(op), tx.Int(n)}
	for i := range args {
		a := g.genExpr(f, depth-1, typ, bad && r.P(1, 2))
		args[i] = a.e
		toks = append(toks, a.toks...)
	}
	if n >= 3 && r.Bool() {
		// the operands are handed over as a slice that the caller goes on using: a second expression built from the
		// same slice must see the operands as written
		_ = qframe.Expr(op, args...)
	}
	return exprT{qframe.Expr(op, args...), toks}
}

// overCtx additionally replaces a built-in: int "+" becomes x + y + 1000.
func overCtx() *eval.Context {
	ctx := myCtx()
	_ = ctx.SetFunc("+", func(x, y int) int { return x + y + 1000 })
	return ctx
}

func myCtx() *eval.Context {
	ctx := eval.NewDefaultCtx()
	for _, e := range fn1Catalogue {
		if err := ctx.SetFunc("my."+e.id, e.fn); err != nil {
			panic("SetFunc refuses " + e.id + ": " + err.Error())
		}
	}
	for _, e := range fn2Catalogue {
		if err := ctx.SetFunc("my."+e.id, e.fn); err != nil {
			panic("SetFunc refuses " + e.id + ": " + err.Error())
		}
	}
	_ = ctx.SetFunc("myinc", func(x int) int { return x + 1 })
	_ = ctx.SetFunc("mysub", func(x, y int) int { return x - y })
	_ = ctx.SetFunc("myneg", func(x float64) float64 { return -x })
	_ = ctx.SetFunc("myaddx", func(x *string) *string {
		if x == nil {
			return nil
		}
		return strp(*x + "x")
	})
	// a function that answers null with a value
	_ = ctx.SetFunc("mynvl", func(x *string) *string {
		if x == nil {
			return strp("N/A")
		}
		return x
	})
	return ctx
}

// ---------------------------------------------------------------- aggregations

type aggT struct {
	a    qframe.Aggregation
	toks []string
}

func aggFirstI(v []int) int         { return v[0] }
func aggLastI(v []int) int          { return v[len(v)-1] }
func aggLenI(v []int) int           { return len(v) }
func aggFirstF(v []float64) float64 { return v[0] }
func aggLastF(v []float64) float64  { return v[len(v)-1] }
func aggFirstB(v []bool) bool       { return v[0] }
func aggAllB(v []bool) bool {
	for _, x := range v {
		if !x {
			return false
		}
	}
	return true
}
func aggJoinS(v []*string) *string {
	parts := make([]string, len(v))
	for i, s := range v {
		if s == nil {
			parts[i] = "<nil>"
		} else {
			parts[i] = *s
		}
	}
	res := strings.Join(parts, "|")
	return &res
}
func aggFirstS(v []*string) *string { return v[0] }

func (g *gen) genAgg(f *hframe, keys []string, bad bool) aggT {
	r := g.r
	c, ok := g.pickCol(f)
	if !ok || (bad && !g.forceBadAgg && r.P(1, 3)) {
		return aggT{qframe.Aggregation{Fn: "sum", Column: "nosuch"}, []string{"s" + tx.HexS("sum"), tx.HexS("nosuch"), tx.HexS("")}}
	}
	as := ""
	if r.P(1, 2) {
		as = r.Pick(legalNames)
	}
	if bad && !g.forceBadAgg && r.P(1, 3) && len(keys) > 0 {
		as = keys[0] // collides with a key column
	}
	a := qframe.Aggregation{Column: c.name, As: as}
	var fnTok string
	builtin := map[string][]string{"i": {"sum", "max", "min", "count"}, "f": {"sum", "max", "min", "avg", "count"}, "b": {"majority", "count"}, "s": {"count"}, "e": {"count"}}[c.typ]
	if bad && (g.forceBadAgg || r.P(1, 2)) {
		a.Fn = "nosuchagg"
		fnTok = "s" + tx.HexS("nosuchagg")
	} else if r.P(1, 2) {
		name := builtin[r.Intn(len(builtin))]
		a.Fn = name
		fnTok = "s" + tx.HexS(name)
	} else {
		switch c.typ {
		case "i":
			switch r.Intn(3) {
			case 0:
				a.Fn, fnTok = aggFirstI, "u:first"
			case 1:
				a.Fn, fnTok = aggLastI, "u:last"
			default:
				a.Fn, fnTok = aggLenI, "u:len"
			}
		case "f":
			if r.Bool() {
				a.Fn, fnTok = aggFirstF, "u:first"
			} else {
				a.Fn, fnTok = aggLastF, "u:last"
			}
		case "b":
			if r.Bool() {
				a.Fn, fnTok = aggFirstB, "u:first"
			} else {
				a.Fn, fnTok = aggAllB, "u:all"
			}
		default:
			if r.Bool() {
				a.Fn, fnTok = aggJoinS, "u:join"
			} else {
				a.Fn, fnTok = aggFirstS, "u:first"
			}
		}
	}
	return aggT{a, []string{fnTok, tx.HexS(c.name), tx.HexS(as)}}
}

// ---------------------------------------------------------------- operations

func (g *gen) genKeyCols(f *hframe, bad bool) []string {
	r := g.r
	k := r.Intn(3)
	if len(f.cols) == 0 {
		k = 0
	}
	keys := []string{}
	for i := 0; i < k; i++ {
		keys = append(keys, f.cols[r.Intn(len(f.cols))].name)
	}
	if len(f.cols) >= 2 && len(f.cols) <= 4 && r.P(1, 4) {
		// a composite key over all columns in frame order (or reversed): a column that cannot hold null before
		// one that can, and the other way round
		keys = keys[:0]
		for _, c := range f.cols {
			keys = append(keys, c.name)
		}
		if r.Bool() {
			for i, j := 0, len(keys)-1; i < j; i, j = i+1, j-1 {
				keys[i], keys[j] = keys[j], keys[i]
			}
		}
	}
	// avoid duplicates in keys (allowed by the API but uninteresting)
	seen := map[string]bool{}
	out := keys[:0]
	for _, k := range keys {
		if !seen[k] {
			seen[k] = true
			out = append(out, k)
		}
	}
	keys = out
	if bad {
		keys = append(keys, "nosuch")
	}
	return keys
}

func nameToks(names []string) []string {
	t := []string{tx.Int(len(names))}
	for _, n := range names {
		t = append(t, tx.HexS(n))
	}
	return t
}

func (g *gen) genOp() {
	r := g.r
	bad := r.P(1, 8)
	if g.opt["badheavy"] != "" && r.P(1, 3) {
		bad = true // sections about invalid use: malformed arguments in every second or third call
	}
	src := g.pickFrame(!r.P(1, 10))
	fid := g.freshFid()
	head := []string{"O", tx.Int(fid), tx.Int(src.id)}
	only := g.opt["ops"]
	ops := []string{"filter", "filter", "filter", "sort", "sort", "slice", "select", "drop", "copy", "apply", "apply", "fapply", "rownums", "eval", "eval", "distinct", "groupagg", "groupagg", "groupframes", "equals"}
	if only != "" {
		ops = strings.Split(only, "+")
	}
	op := ops[r.Intn(len(ops))]
	g.curOp = op
	switch op {
	case "filter":
		g.forceInv = r.P(1, 8)
		var c clause
		if r.P(1, 5) && !bad {
			// a flat OR / AND group of leaves (the filters of one OR group share a mask in the implementation)
			n := 2 + r.Intn(3)
			subs := make([]qframe.FilterClause, n)
			name := r.Pick([]string{"OR", "OR", "AND"})
			toks := []string{name, tx.Int(n)}
			for i := range subs {
				l := g.genLeaf(src, false)
				subs[i] = l.c
				toks = append(toks, l.toks...)
			}
			if name == "OR" {
				c = clause{qframe.Or(subs...), toks}
			} else {
				c = clause{qframe.And(subs...), toks}
			}
			if r.P(1, 4) {
				c = clause{qframe.Not(c.c), append([]string{"NOT"}, c.toks...)}
			}
		} else {
			c = g.genClause(src, 3, bad)
		}
		g.forceInv = false
		g.w.Line(append(append(head, "filter"), c.toks...)...)
		g.finish(fid, func() qframe.QFrame { return g.qfOf(src).Filter(c.c) })
	case "sort":
		k := 1 + r.Intn(3)
		if r.P(1, 15) {
			k = 0
		}
		orders := make([]qframe.Order, k)
		toks := append(head, "sort", tx.Int(k))
		for i := range orders {
			name := g.colNameMaybeBad(src, bad && i == 0)
			orders[i] = qframe.Order{Column: name, Reverse: r.Bool(), NullLast: r.Bool()}
			toks = append(toks, tx.HexS(name), tx.Bool01(orders[i].Reverse), tx.Bool01(orders[i].NullLast))
		}
		g.w.Line(toks...)
		g.finish(fid, func() qframe.QFrame { return g.qfOf(src).Sort(orders...) })
	case "slice":
		a, b := 0, 0
		if src.n > 0 {
			a = r.Intn(src.n + 1)
			b = a + r.Intn(src.n-a+1)
		}
		if bad {
			switch r.Intn(3) {
			case 0:
				a = -1
			case 1:
				b = src.n + 1 + r.Intn(3)
				if r.P(1, 3) {
					a = b // an empty range beyond the end is still out of bounds
				}
			default:
				a, b = b+1, a
			}
		}
		g.w.Line(append(head, "slice", tx.Int(a), tx.Int(b))...)
		g.finish(fid, func() qframe.QFrame { return g.qfOf(src).Slice(a, b) })
	case "select", "drop":
		k := r.Intn(4)
		if op == "drop" && r.P(1, 4) {
			k = 2 + r.Intn(5) // long requests naming columns more than once
		}
		names := []string{}
		for i := 0; i < k && len(src.cols) > 0; i++ {
			names = append(names, src.cols[r.Intn(len(src.cols))].name)
		}
		if op == "select" {
			names = dedupNames(names) // duplicate names in one Select are outside the documented use
		}
		if bad {
			names = append(names, "nosuch")
		}
		g.w.Line(append(append(head, op), nameToks(names)...)...)
		if op == "select" {
			g.finish(fid, func() qframe.QFrame { return g.qfOf(src).Select(names...) })
		} else {
			g.finish(fid, func() qframe.QFrame { return g.qfOf(src).Drop(names...) })
		}
	case "copy":
		dst := g.newName(src)
		if bad && r.Bool() {
			dst = r.Pick(illegalNames)
		}
		from := g.colNameMaybeBad(src, bad && r.Bool())
		if bad && r.P(1, 3) {
			dst, from = "nosuch", "nosuch" // copying an unknown column onto itself is still an unknown column
		}
		g.w.Line(append(head, "copy", tx.HexS(dst), tx.HexS(from))...)
		g.finish(fid, func() qframe.QFrame { return g.qfOf(src).Copy(dst, from) })
	case "apply":
		ins, toks := g.genInstrs(src, bad)
		g.w.Line(append(append(head, "apply"), toks...)...)
		g.finish(fid, func() qframe.QFrame { return g.qfOf(src).Apply(ins...) })
		if !g.batchMode {
			g.emitCounts(fid)
		}
	case "fapply":
		c := g.genClause(src, 2, bad && r.P(1, 2))
		g.inFapply = true
		ins, toks := g.genInstrs(src, bad && r.P(1, 2))
		g.inFapply = false
		g.w.Line(append(append(append(head, "fapply"), c.toks...), toks...)...)
		g.finish(fid, func() qframe.QFrame { return g.qfOf(src).FilteredApply(c.c, ins...) })
		if !g.batchMode {
			g.emitCounts(fid)
		}
	case "rownums":
		name := g.newName(src)
		if bad {
			name = r.Pick(illegalNames)
		}
		g.w.Line(append(head, "rownums", tx.HexS(name))...)
		g.finish(fid, func() qframe.QFrame { return g.qfOf(src).WithRowNums(name) })
	case "eval":
		typ := "i"
		if len(src.cols) > 0 {
			typ = src.cols[r.Intn(len(src.cols))].typ
		}
		e := g.genExpr(src, 3, typ, bad)
		dst := g.newName(src)
		if bad && r.P(1, 4) {
			dst = r.Pick(illegalNames)
		}
		if bad && r.P(1, 5) {
			dst = "nosuch"
			e = exprT{types.ColumnName("nosuch"), []string{"C", tx.HexS("nosuch")}}
		}
		ctxKind := r.Pick([]string{"m", "m", "d", "o"})
		g.w.Line(append(append(head, "eval", tx.HexS(dst), ctxKind), e.toks...)...)
		g.finish(fid, func() qframe.QFrame {
			var ex qframe.Expression
			if x, ok := e.e.(qframe.Expression); ok {
				ex = x
			} else {
				ex = qframe.Val(e.e)
			}
			if g.sharedCtx != nil {
				return g.qfOf(src).Eval(dst, ex, eval.EvalContext(g.sharedCtx))
			}
			switch ctxKind {
			case "d":
				return g.qfOf(src).Eval(dst, ex)
			case "o":
				return g.qfOf(src).Eval(dst, ex, eval.EvalContext(overCtx()))
			}
			return g.qfOf(src).Eval(dst, ex, eval.EvalContext(myCtx()))
		})
	case "distinct":
		keys := g.genKeyCols(src, bad)
		null := r.Bool()
		g.w.Line(append(append(head, "distinct", tx.Bool01(null)), nameToks(keys)...)...)
		nullFirst := r.Bool()
		g.finish(fid, func() qframe.QFrame {
			if nullFirst {
				return g.qfOf(src).Distinct(groupby.Null(null), groupby.Columns(keys...))
			}
			return g.qfOf(src).Distinct(groupby.Columns(keys...), groupby.Null(null))
		})
	case "groupagg":
		keys := g.genKeyCols(src, bad && r.P(1, 3))
		null := r.Bool()
		na := r.Intn(3)
		if len(keys) == 0 && na == 0 {
			na = 1 // a frame with rows but no columns is not a meaningful value
		}
		aggs := make([]qframe.Aggregation, na)
		toks := append(append(head, "groupagg", tx.Bool01(null)), nameToks(keys)...)
		toks = append(toks, tx.Int(na))
		badAt := -1
		if bad {
			na = 2 + r.Intn(3) // an invalid aggregation anywhere in a longer list, valid ones before and after it
			aggs = make([]qframe.Aggregation, na)
			toks[len(toks)-1] = tx.Int(na)
		}
		if bad && na > 0 {
			badAt = r.Intn(na)
		}
		// half of the time: an unknown aggregation name on a valid column, followed by at least one more aggregation
		g.forceBadAgg = bad && na >= 2 && r.Bool()
		if g.forceBadAgg {
			badAt = r.Intn(na - 1)
		}
		for i := range aggs {
			a := g.genAgg(src, keys, i == badAt)
			aggs[i] = a.a
			toks = append(toks, a.toks...)
		}
		g.w.Line(toks...)
		nullFirst := r.Bool()
		g.finish(fid, func() qframe.QFrame {
			if nullFirst {
				return g.qfOf(src).GroupBy(groupby.Null(null), groupby.Columns(keys...)).Aggregate(aggs...)
			}
			return g.qfOf(src).GroupBy(groupby.Columns(keys...), groupby.Null(null)).Aggregate(aggs...)
		})
	case "groupframes":
		keys := g.genKeyCols(src, bad)
		null := r.Bool()
		g.w.Line(append([]string{"G", tx.Int(src.id), tx.Bool01(null)}, nameToks(keys)...)...)
		g.groupFrames(src, keys, null)
	case "equals":
		other := g.pickFrame(false)
		g.equals(src, other)
	case "grouptest":
		// a fresh frame made for grouping: few keys, distinct values, rows freely permuted by a sort, then aggregated
		if g.batchMode {
			return
		}
		n := 5 + r.Intn(9)
		nk := 2 + r.Intn(2)
		keys := make([]int, n)
		vals := make([]int, n)
		perm := make([]int, n)
		for i := range keys {
			keys[i] = r.Intn(nk)
			vals[i] = 10 * (i + 1)
			perm[i] = i
		}
		for i := n - 1; i > 0; i-- {
			j := r.Intn(i + 1)
			perm[i], perm[j] = perm[j], perm[i]
		}
		toks := []string{"N", tx.Int(fid), "3", tx.HexS("k"), "I", tx.Int(n)}
		for _, x := range keys {
			toks = append(toks, tx.CInt(x))
		}
		toks = append(toks, tx.HexS("p"), "I", tx.Int(n))
		for _, x := range perm {
			toks = append(toks, tx.CInt(x))
		}
		toks = append(toks, tx.HexS("v"), "I", tx.Int(n))
		for _, x := range vals {
			toks = append(toks, tx.CInt(x))
		}
		g.w.Line(append(toks, "O", "0", "E", "0")...)
		f0 := g.finish(fid, func() qframe.QFrame {
			return qframe.New(map[string]types.DataSlice{"k": keys, "p": perm, "v": vals})
		})
		fid1 := g.freshFid()
		g.w.Line("O", tx.Int(fid1), tx.Int(f0.id), "sort", "1", tx.HexS("p"), tx.Bool01(false), tx.Bool01(false))
		f1 := g.finish(fid1, func() qframe.QFrame { return f0.qf.Sort(qframe.Order{Column: "p"}) })
		fid2 := g.freshFid()
		fn := r.Pick([]string{"sum", "max", "min"})
		g.w.Line("O", tx.Int(fid2), tx.Int(f1.id), "groupagg", "0", "1", tx.HexS("k"), "2", "s"+tx.HexS(fn), tx.HexS("v"), tx.HexS(""), "u:last", tx.HexS("v"), tx.HexS("vl"))
		g.finish(fid2, func() qframe.QFrame {
			return f1.qf.GroupBy(groupby.Columns("k")).Aggregate(qframe.Aggregation{Fn: fn, Column: "v"}, qframe.Aggregation{Fn: aggLastI, Column: "v", As: "vl"})
		})
	case "permute":
		// a free permutation of the rows through public operations only: a column of pseudo-random distinct numbers, Sort by it, Drop it
		if g.batchMode || src.err || src.n < 2 {
			return
		}
		for _, c := range src.cols {
			if c.name == "zz" {
				return
			}
		}
		seed := 1 + r.Intn(1000)
		k := -1
		perm := func() int { k++; return (seed*7919 + k*104729) % 1000003 }
		g.w.Line(append(head, "apply", "1", tx.HexS("zz"), "-", "-", "f0r", tx.Int(seed))...)
		f1 := g.finish(fid, func() qframe.QFrame { return g.qfOf(src).Apply(qframe.Instruction{Fn: perm, DstCol: "zz"}) })
		g.w.Line("CB", tx.Int(fid), "1", "-1")
		fid2 := g.freshFid()
		g.w.Line("O", tx.Int(fid2), tx.Int(f1.id), "sort", "1", tx.HexS("zz"), "0", "0")
		f2 := g.finish(fid2, func() qframe.QFrame { return f1.qf.Sort(qframe.Order{Column: "zz"}) })
		fid3 := g.freshFid()
		g.w.Line("O", tx.Int(fid3), tx.Int(f2.id), "drop", "1", tx.HexS("zz"))
		g.finish(fid3, func() qframe.QFrame { return f2.qf.Drop("zz") })
	case "rebuild":
		g.rebuild(src)
	case "tocsv":
		g.toCSV(src, bad)
	case "tojson":
		g.toJSON(src)
	case "wfault":
		g.writerFaults(src)
	case "tosql":
		g.toSQL(src)
	case "string":
		if src.err || frameFacts(src).undef {
			return
		}
		g.w.Line("W", tx.Int(src.id), "str")
		out, pm := "", ""
		func() {
			defer func() {
				if p := recover(); p != nil {
					pm = fmt.Sprint(p)
				}
			}()
			out = src.qf.String()
		}()
		if pm != "" {
			g.w.Line("WO", "P", tx.HexS(pm))
		} else {
			g.w.Line("WO", tx.HexS(out))
		}
	}
}

func (g *gen) groupFrames(src *hframe, keys []string, null bool) {
	defer func() {
		if p := recover(); p != nil {
			g.w.Line("GR", "P", tx.HexS(fmt.Sprint(p)))
		}
	}()
	cfg := []groupby.ConfigFunc{groupby.Columns(keys...), groupby.Null(null)}
	if g.r.Bool() {
		cfg = []groupby.ConfigFunc{groupby.Null(null), groupby.Columns(keys...)}
	}
	frames, err := src.qf.GroupBy(cfg...).QFrames()
	if err != nil {
		g.w.Line("GR", "E")
		return
	}
	g.w.Line("GR", tx.Int(len(frames)))
	for _, f := range frames {
		toks, _, _, _ := g.observeSafely(f)
		g.w.Line(append([]string{"R", "-1"}, toks...)...)
	}
	g.reobserve(-1)
}

func (g *gen) equals(a, b *hframe) {
	defer func() {
		if p := recover(); p != nil {
			g.w.Line("Q", tx.Int(a.id), tx.Int(b.id), "P", tx.HexS(fmt.Sprint(p)))
		}
	}()
	eq, _ := a.qf.Equals(b.qf)
	g.w.Line("Q", tx.Int(a.id), tx.Int(b.id), tx.Bool01(eq))
	eq2, _ := b.qf.Equals(a.qf)
	g.w.Line("Q", tx.Int(b.id), tx.Int(a.id), tx.Bool01(eq2))
	eq3, _ := a.qf.Equals(a.qf)
	g.w.Line("Q", tx.Int(a.id), tx.Int(a.id), tx.Bool01(eq3))
}

func histSection(r *tx.Rng, w *tx.W, size int, opt map[string]string) {
	g := &gen{r: r, w: w, size: size, opt: opt}
	if opt["wit"] != "" {
		g.witnesses()
		return
	}
	if opt["newonly"] != "" {
		for i := 0; i < 12; i++ {
			g.genNew()
		}
		return
	}
	g.genNew()
	if r.P(1, 3) {
		g.genNew()
	}
	steps := 4 + r.Intn(12)
	if size >= 2 {
		steps = 10 + r.Intn(40)
	}
	if v, ok := opt["steps"]; ok {
		steps, _ = strconv.Atoi(v)
	}
	for i := 0; i < steps; i++ {
		if r.P(1, 25) {
			g.genNew()
			continue
		}
		g.genOp()
	}
}

// ---------------------------------------------------------------- oracles for external functions

// colStrings returns the distinct non-null cells of a string or enum column of a family member (through the views).
func colStrings(f *hframe, c colInfo) []string {
	seen := map[string]bool{}
	var res []string
	add := func(p *string) {
		if p != nil && !seen[*p] {
			seen[*p] = true
			res = append(res, *p)
		}
	}
	if c.typ == "s" {
		if v, err := f.qf.StringView(c.name); err == nil {
			for i := 0; i < v.Len(); i++ {
				add(v.ItemAt(i))
			}
		}
	} else if c.typ == "e" {
		if v, err := f.qf.EnumView(c.name); err == nil {
			for i := 0; i < v.Len(); i++ {
				add(v.ItemAt(i))
			}
		}
	}
	return res
}

// sameCol reports whether c is a column of f itself (instruction lists may refer to columns created earlier in the list).
func sameCol(f *hframe, c colInfo) bool {
	for _, x := range f.cols {
		if x.name == c.name && x.typ == c.typ {
			return true
		}
	}
	return false
}

func (g *gen) allValidUTF8(f *hframe, c colInfo) bool {
	for _, s := range colStrings(f, c) {
		if !utf8.ValidString(s) {
			return false
		}
	}
	return true
}

// refLike is the documented like/ilike rule written against the Go standard library only.
func refLike(pat string, ci bool) (func(string) bool, error) {
	fuzzyStart := strings.HasPrefix(pat, "%")
	fuzzyEnd := strings.HasSuffix(pat, "%")
	if regexp.QuoteMeta(pat) != pat {
		re := pat
		if fuzzyStart {
			re = re[1:]
		} else {
			re = "^" + re
		}
		if fuzzyEnd {
			re = re[:len(re)-1]
		} else {
			re = re + "$"
		}
		if ci {
			re = "(?i)" + re
		}
		r, err := regexp.Compile(re)
		if err != nil {
			return nil, err
		}
		return r.MatchString, nil
	}
	core := strings.TrimSuffix(strings.TrimPrefix(pat, "%"), "%")
	norm := func(s string) string { return s }
	if ci {
		norm = strings.ToUpper
		core = strings.ToUpper(core)
	}
	switch {
	case fuzzyStart && fuzzyEnd:
		return func(s string) bool { return strings.Contains(norm(s), core) }, nil
	case fuzzyStart:
		return func(s string) bool { return strings.HasSuffix(norm(s), core) }, nil
	case fuzzyEnd:
		return func(s string) bool { return strings.HasPrefix(norm(s), core) }, nil
	}
	if ci {
		return func(s string) bool { return norm(s) == strings.ToUpper(pat) }, nil
	}
	return func(s string) bool { return s == pat }, nil
}

func (g *gen) emitLikeOracle(f *hframe, c colInfo, pat string, ci bool) {
	m, err := refLike(pat, ci)
	if err != nil {
		g.w.Line("XM", tx.HexS(pat), tx.Bool01(ci), "ERR")
		return
	}
	cells := colStrings(f, c)
	toks := []string{"XM", tx.HexS(pat), tx.Bool01(ci), tx.Int(len(cells))}
	for _, s := range cells {
		toks = append(toks, tx.HexS(s), tx.Bool01(m(s)))
	}
	g.w.Line(toks...)
}

func allValid(vals []string) bool {
	for _, v := range vals {
		if !utf8.ValidString(v) {
			return false
		}
	}
	return true
}

func upperInjective(vals []string) bool {
	seen := map[string]bool{}
	for _, v := range vals {
		if !utf8.ValidString(v) {
			return false
		}
		u := strings.ToUpper(v)
		if seen[u] {
			return false
		}
		seen[u] = true
	}
	return true
}

func (g *gen) emitUpperOracle(f *hframe, c colInfo) {
	cells := colStrings(f, c)
	for _, v := range c.vals {
		cells = append(cells, v)
	}
	toks := []string{"XU", tx.Int(len(cells))}
	for _, s := range cells {
		toks = append(toks, tx.HexS(s), tx.HexS(strings.ToUpper(s)))
	}
	g.w.Line(toks...)
}

func dedupNames(names []string) []string {
	seen := map[string]bool{}
	out := []string{}
	for _, n := range names {
		if !seen[n] {
			seen[n] = true
			out = append(out, n)
		}
	}
	return out
}

// emitCounts reports how often the callback of every instruction of the last Apply/FilteredApply ran (-1: no callback).
func (g *gen) emitCounts(fid int) {
	toks := []string{"CB", tx.Int(fid), tx.Int(len(g.lastCnts))}
	for _, c := range g.lastCnts {
		if c == nil {
			toks = append(toks, "-1")
		} else {
			toks = append(toks, tx.Int(*c))
		}
	}
	g.w.Line(toks...)
}

// rebuild constructs a new frame with New from the observed values of src, possibly perturbed in one place, and
// compares the two with Equals in both directions.
func (g *gen) rebuild(src *hframe) {
	r := g.r
	if src.err || len(src.cols) == 0 {
		g.equals(src, src)
		return
	}
	fid := g.freshFid()
	data := map[string]types.DataSlice{}
	enums := map[string][]string{}
	order := []string{}
	n := src.n
	pert := r.Intn(9) // 0,1: exact copy
	pcol := r.Intn(len(src.cols))
	prow := 0
	if n > 0 {
		prow = r.Intn(n)
	}
	toks := []string{"N", tx.Int(fid), tx.Int(len(src.cols))}
	for ci, c := range src.cols {
		name := c.name
		if pert == 2 && ci == pcol {
			name = name + "_"
		}
		order = append(order, name)
		ct := []string{tx.HexS(name)}
		switch c.typ {
		case "i":
			v, _ := src.qf.IntView(c.name)
			d := v.Slice()
			if pert == 3 && ci == pcol && n > 0 {
				d[prow]++
			}
			ct = append(ct, "I", tx.Int(len(d)))
			for _, x := range d {
				ct = append(ct, tx.CInt(x))
			}
			data[name] = d
		case "f":
			v, _ := src.qf.FloatView(c.name)
			d := v.Slice()
			if ci == pcol && n > 0 {
				b := math.Float64bits(d[prow])
				switch pert {
				case 3:
					if !isNaNBits(b) {
						d[prow] = math.Float64frombits(b ^ 1) // next float: different value
					} else {
						d[prow] = 1
					}
				case 4:
					if isNaNBits(b) {
						d[prow] = math.Float64frombits(b ^ 2) // another NaN: still equal
					} else if d[prow] == 0 {
						d[prow] = math.Float64frombits(b ^ 1<<63) // the other zero: still equal
					}
				}
			}
			ct = append(ct, "F", tx.Int(len(d)))
			for _, x := range d {
				ct = append(ct, tx.CFloat(x))
			}
			data[name] = d
		case "b":
			v, _ := src.qf.BoolView(c.name)
			d := v.Slice()
			if pert == 3 && ci == pcol && n > 0 {
				d[prow] = !d[prow]
			}
			ct = append(ct, "B", tx.Int(len(d)))
			for _, x := range d {
				ct = append(ct, tx.CBool(x))
			}
			data[name] = d
		case "s", "e":
			var d []*string
			if c.typ == "s" {
				v, _ := src.qf.StringView(c.name)
				d = v.Slice()
			} else {
				v, _ := src.qf.EnumView(c.name)
				d = v.Slice()
			}
			d = append([]*string(nil), d...)
			if ci == pcol && n > 0 {
				switch pert {
				case 3:
					x := "zz9"
					d[prow] = &x
				case 4, 5:
					// null <-> empty string: different cells
					if d[prow] == nil {
						e := ""
						d[prow] = &e
					} else if *d[prow] == "" {
						d[prow] = nil
					} else if c.typ == "s" {
						d[prow] = nil
					}
				}
			}
			ct = append(ct, "S", tx.Int(len(d)))
			for _, x := range d {
				ct = append(ct, tx.CStr(x))
			}
			data[name] = d
			if c.typ == "e" && !(pert == 6 && ci == pcol) {
				// declare the value table so that ranks agree; values introduced by a perturbation are derived
				vals := append([]string(nil), c.vals...)
				if ci == pcol && (pert == 3 || pert == 4 || pert == 5) {
					vals = nil
				}
				enums[name] = vals
			}
		default:
			g.equals(src, src)
			return
		}
		toks = append(toks, ct...)
	}
	if pert == 7 && len(order) > 1 {
		order[0], order[1] = order[1], order[0]
	}
	toks = append(toks, "O", tx.Int(len(order)))
	for _, o := range order {
		toks = append(toks, tx.HexS(o))
	}
	ek := make([]string, 0, len(enums))
	for k := range enums {
		ek = append(ek, k)
	}
	sort.Strings(ek)
	toks = append(toks, "E", tx.Int(len(ek)))
	for _, k := range ek {
		toks = append(toks, tx.HexS(k), tx.Int(len(enums[k])))
		for _, v := range enums[k] {
			toks = append(toks, tx.HexS(v))
		}
	}
	g.w.Line(toks...)
	fns := []newqf.ConfigFunc{newqf.ColumnOrder(order...)}
	if len(enums) > 0 {
		fns = append(fns, newqf.Enums(enums))
	}
	nf := g.finish(fid, func() qframe.QFrame { return qframe.New(data, fns...) })
	g.equals(src, nf)
	derivedEnum := false
	for _, c := range src.cols {
		if c.typ == "e" && !c.strict {
			// the rebuilt column declares the values and is therefore strict; a derived enum is not: the two differ in how
			// they treat undeclared filter constants, and the documentation leaves the rank order of derived enums open
			derivedEnum = true
		}
	}
	if pert <= 1 && !nf.err && !derivedEnum {
		g.congruence(src, nf)
	}
}

// congruence: a frame rebuilt from the observed values of another must yield Equal results under every operation.
//
//	QC <op> <src> <rebuilt> <equals(a,b)> <equals(b,a)>
func (g *gen) congruence(src, rebuilt *hframe) {
	saveOps, hadOps := g.opt["ops"]
	g.opt["ops"] = "filter+filter+sort+slice+select+drop+copy+apply+fapply+rownums+eval+eval"
	g.batchMode, g.forceSrc = true, src
	g.batch, g.batchOps = nil, nil
	for try := 0; try < 3 && len(g.batch) == 0; try++ {
		g.genOp()
	}
	g.batchMode, g.forceSrc = false, nil
	if hadOps {
		g.opt["ops"] = saveOps
	} else {
		delete(g.opt, "ops")
	}
	if len(g.batch) == 0 {
		return
	}
	run, op := g.batch[0], g.batchOps[0]
	g.batch, g.batchOps = nil, nil
	a, pa := safely(run)
	g.redirect = map[int]qframe.QFrame{src.id: rebuilt.qf}
	b, pb := safely(run)
	g.redirect = nil
	if pa != "" || pb != "" {
		g.w.Line("QC", op, tx.Int(src.id), tx.Int(rebuilt.id), "P", "P")
		return
	}
	if (a.Err != nil) != (b.Err != nil) {
		g.w.Line("QC", op, tx.Int(src.id), tx.Int(rebuilt.id), "E", "E")
		return
	}
	if a.Err != nil {
		g.w.Line("QC", op, tx.Int(src.id), tx.Int(rebuilt.id), "1", "1")
		return
	}
	e1, _ := a.Equals(b)
	e2, _ := b.Equals(a)
	g.w.Line("QC", op, tx.Int(src.id), tx.Int(rebuilt.id), tx.Bool01(e1), tx.Bool01(e2))
}

// ---------------------------------------------------------------- renderings: ToCSV / ToJSON and reading them back

type facts struct{ nan, inf, utf8ok, cr, undef bool }

func frameFacts(f *hframe) facts {
	fc := facts{utf8ok: true}
	for _, c := range f.cols {
		if !utf8.ValidString(c.name) {
			fc.utf8ok = false
		}
		if strings.Contains(c.name, "\r") {
			fc.cr = true
		}
		switch c.typ {
		case "f":
			if v, err := f.qf.FloatView(c.name); err == nil {
				for i := 0; i < v.Len(); i++ {
					x := v.ItemAt(i)
					if math.IsNaN(x) {
						fc.nan = true
					}
					if math.IsInf(x, 0) {
						fc.inf = true
					}
				}
			}
		case "s", "e":
			for _, s := range colStrings(f, c) {
				if !utf8.ValidString(s) {
					fc.utf8ok = false
				}
				if strings.Contains(s, "\r") {
					fc.cr = true
				}
			}
			for _, s := range c.vals {
				if !utf8.ValidString(s) {
					fc.utf8ok = false
				}
			}
		case "u":
			fc.undef = true
		}
	}
	return fc
}

var typeNames = map[string]string{"i": "int", "f": "float", "b": "bool", "s": "string", "e": "enum"}

func (g *gen) toCSV(src *hframe, bad bool) {
	r := g.r
	fc := frameFacts(src)
	if fc.undef {
		return
	}
	header := r.P(3, 4)
	var cols []string
	if r.P(1, 3) && len(src.cols) > 0 {
		for _, c := range src.cols {
			cols = append(cols, c.name)
		}
		for i := len(cols) - 1; i > 0; i-- {
			j := r.Intn(i + 1)
			cols[i], cols[j] = cols[j], cols[i]
		}
		if bad {
			if r.Bool() {
				cols = cols[:len(cols)-1]
			} else {
				cols[0] = "nosuch"
			}
		}
	}
	if len(cols) == 0 {
		cols = nil
	}
	emptyNull := r.Bool()
	g.w.Line(append(append([]string{"W", tx.Int(src.id), "csv", tx.Bool01(header)}, nameToks(cols)...), tx.Bool01(emptyNull))...)
	var buf bytes.Buffer
	var err error
	pmsg := ""
	func() {
		defer func() {
			if p := recover(); p != nil {
				pmsg = fmt.Sprint(p)
			}
		}()
		fns := []csv.ToConfigFunc{csv.Header(header)}
		if cols != nil {
			fns = append(fns, csv.Columns(cols))
		}
		err = src.qf.ToCSV(&buf, fns...)
	}()
	switch {
	case pmsg != "":
		g.w.Line("WO", "P", tx.HexS(pmsg))
		return
	case err != nil:
		g.w.Line("WO", "E")
		return
	}
	g.w.Line("WO", tx.Hex(buf.Bytes()))
	if len(src.cols) == 0 || fc.cr {
		return
	}
	written := cols
	if written == nil {
		for _, c := range src.cols {
			written = append(written, c.name)
		}
	}
	typs := map[string]string{}
	ev := map[string][]string{}
	for _, c := range src.cols {
		typs[c.name] = typeNames[c.typ]
		if c.typ == "e" && len(c.vals) > 0 {
			ev[c.name] = c.vals
		}
	}
	fns := []csv.ConfigFunc{csv.Types(typs), csv.EmptyNull(emptyNull)}
	if len(ev) > 0 {
		fns = append(fns, csv.EnumValues(ev))
	}
	if !header {
		fns = append(fns, csv.Headers(written))
	}
	qf2, pm := safely(func() qframe.QFrame { return qframe.ReadCSV(bytes.NewReader(buf.Bytes()), fns...) })
	if pm != "" {
		g.w.Line("R", "-2", "P", tx.HexS(pm))
		return
	}
	toks, _, _, _ := g.observeSafely(qf2)
	g.w.Line(append([]string{"R", "-2"}, toks...)...)
}

func (g *gen) toJSON(src *hframe) {
	fc := frameFacts(src)
	if fc.undef {
		return
	}
	g.w.Line("W", tx.Int(src.id), "json")
	var buf bytes.Buffer
	var err error
	pmsg := ""
	func() {
		defer func() {
			if p := recover(); p != nil {
				pmsg = fmt.Sprint(p)
			}
		}()
		err = src.qf.ToJSON(&buf)
	}()
	switch {
	case pmsg != "":
		g.w.Line("WO", "P", tx.HexS(pmsg))
		return
	case err != nil:
		g.w.Line("WO", "E")
		return
	}
	g.w.Line("WO", tx.Hex(buf.Bytes()))
	if len(src.cols) == 0 || src.n == 0 || fc.nan || fc.inf || !fc.utf8ok {
		return
	}
	names := []string{}
	ev := map[string][]string{}
	for _, c := range src.cols {
		names = append(names, c.name)
		if c.typ == "e" {
			ev[c.name] = c.vals
		}
	}
	fns := []newqf.ConfigFunc{newqf.ColumnOrder(names...)}
	if len(ev) > 0 {
		fns = append(fns, newqf.Enums(ev))
	}
	qf2, pm := safely(func() qframe.QFrame { return qframe.ReadJSON(bytes.NewReader(buf.Bytes()), fns...) })
	if pm != "" {
		g.w.Line("R", "-2", "P", tx.HexS(pm))
		return
	}
	toks, _, _, _ := g.observeSafely(qf2)
	g.w.Line(append([]string{"R", "-2"}, toks...)...)
}

var errWriter = errors.New("injected write failure")

// faultWriter accepts the first limit bytes and fails from then on.
type faultWriter struct {
	limit    int
	accepted int
}

func (w *faultWriter) Write(p []byte) (int, error) {
	if w.accepted+len(p) <= w.limit {
		w.accepted += len(p)
		return len(p), nil
	}
	n := w.limit - w.accepted
	w.accepted = w.limit
	return n, errWriter
}

// writerFaults runs ToCSV and ToJSON against a writer that starts failing at every byte offset.
//
//	WF <src> <kind> <total> <k> <err 0|1|P> <accepted>
func (g *gen) writerFaults(src *hframe) {
	if src.err || frameFacts(src).undef {
		return
	}
	for _, kind := range []string{"csv", "json"} {
		var full bytes.Buffer
		var err error
		if kind == "csv" {
			err = src.qf.ToCSV(&full)
		} else {
			err = src.qf.ToJSON(&full)
		}
		if err != nil {
			continue
		}
		total := full.Len()
		if total > 6000 {
			continue
		}
		for k := 0; k <= total; k++ {
			fw := &faultWriter{limit: k}
			res := "0"
			func() {
				defer func() {
					if p := recover(); p != nil {
						res = "P"
					}
				}()
				var e error
				if kind == "csv" {
					e = src.qf.ToCSV(fw)
				} else {
					e = src.qf.ToJSON(fw)
				}
				if e != nil {
					res = "1"
				}
			}()
			g.w.Line("WF", tx.Int(src.id), kind, tx.Int(total), tx.Int(k), res, tx.Int(fw.accepted))
		}
		if kind != "json" {
			continue
		}
		// ReadJSON from a reader that delivers the first k bytes (in drawn chunk sizes) and then fails
		//   RF <src> json <total> <k> <err 0|1|P>
		doc := full.Bytes()
		chunk := 1 + g.r.Intn(7)
		for k := 0; k < total; k++ {
			fr := &faultReader{data: doc[:k], chunk: chunk}
			res := "0"
			func() {
				defer func() {
					if p := recover(); p != nil {
						res = "P"
					}
				}()
				if qframe.ReadJSON(fr).Err != nil {
					res = "1"
				}
			}()
			g.w.Line("RF", tx.Int(src.id), kind, tx.Int(total), tx.Int(k), res)
		}
	}
}

type faultReader struct {
	data  []byte
	pos   int
	chunk int
}

func (r *faultReader) Read(p []byte) (int, error) {
	if r.pos >= len(r.data) {
		return 0, errWriter
	}
	n := r.chunk
	if n > len(p) {
		n = len(p)
	}
	if n > len(r.data)-r.pos {
		n = len(r.data) - r.pos
	}
	copy(p, r.data[r.pos:r.pos+n])
	r.pos += n
	return n, nil
}

// witnesses replays the recorded (open) findings of this section deterministically, so that every run probes them.
func (g *gen) witnessEnumDup() {
	// KF-C17-enum-dup: ToUpper on the enum [a, A, a] gives the value table [A, A]; e = "A" then keeps only the rows of the first code
	a, b := "a", "A"
	col := []*string{&a, &b, &a}
	g.w.Line("N", "0", "1", tx.HexS("e"), "S", "3", tx.HexS("a"), tx.HexS("A"), tx.HexS("a"), "O", "0", "E", "1", tx.HexS("e"), "0")
	base := g.finish(0, func() qframe.QFrame {
		return qframe.New(map[string]types.DataSlice{"e": col}, newqf.Enums(map[string][]string{"e": nil}))
	})
	g.w.Line("XU", "2", tx.HexS("a"), tx.HexS("A"), tx.HexS("A"), tx.HexS("A"))
	g.w.Line("O", "1", "0", "apply", "1", tx.HexS("e"), tx.HexS("e"), "-", "bi", tx.HexS("ToUpper"))
	up := g.finish(1, func() qframe.QFrame {
		return base.qf.Apply(qframe.Instruction{Fn: "ToUpper", DstCol: "e", SrcCol1: "e"})
	})
	g.w.Line("CB", "1", "1", "-1")
	g.w.Line("O", "2", "1", "filter", "F", "0", tx.HexS("e"), "s"+tx.HexS("="), tx.HexS("A"))
	g.finish(2, func() qframe.QFrame { return up.qf.Filter(qframe.Filter{Column: "e", Comparator: "=", Arg: "A"}) })
}

// witnessEnumCols: two enum columns with the same declared value list compared with each other by every ordering
// comparator, in both directions (which operand is the filtered column matters), on a fresh and on a sorted frame.
func (g *gen) witnessEnumCols() {
	lo, mid, hi := "lo", "mid", "hi"
	p := []*string{&lo, &mid, &hi, &mid, nil, &hi}
	q := []*string{&mid, &mid, &lo, &hi, &hi, nil}
	decl := []string{"lo", "mid", "hi"}
	cellToks := func(c []*string) []string {
		t := []string{"S", tx.Int(len(c))}
		for _, x := range c {
			t = append(t, tx.CStr(x))
		}
		return t
	}
	ntoks := append([]string{"N", "0", "2", tx.HexS("p")}, cellToks(p)...)
	ntoks = append(append(ntoks, tx.HexS("q")), cellToks(q)...)
	ntoks = append(ntoks, "O", "0", "E", "2")
	for _, n := range []string{"p", "q"} {
		ntoks = append(ntoks, tx.HexS(n), "3", tx.HexS("lo"), tx.HexS("mid"), tx.HexS("hi"))
	}
	g.w.Line(ntoks...)
	base := g.finish(0, func() qframe.QFrame {
		return qframe.New(map[string]types.DataSlice{"p": p, "q": q}, newqf.Enums(map[string][]string{"p": decl, "q": decl}))
	})
	fid := 1
	for _, cmp := range []string{"<", "<=", ">", ">=", "=", "!="} {
		for _, pair := range [][2]string{{"p", "q"}, {"q", "p"}} {
			cmp, pair := cmp, pair
			g.w.Line("O", tx.Int(fid), "0", "filter", "F", "0", tx.HexS(pair[0]), "s"+tx.HexS(cmp), "col", tx.HexS(pair[1]))
			g.finish(fid, func() qframe.QFrame {
				return base.qf.Filter(qframe.Filter{Column: pair[0], Comparator: cmp, Arg: types.ColumnName(pair[1])})
			})
			fid++
		}
	}
}

func (g *gen) witnesses() {
	if g.opt["wit"] == "enumdup" {
		g.witnessEnumDup()
		return
	}
	if g.opt["wit"] == "enumcols" {
		g.witnessEnumCols()
		return
	}
	// KF-C06-fapply-fill: FilteredApply(x > 2, {Fn: 7, DstCol: "y"}) and a ColumnName copy on x = [1,2,3,4]
	x := []int{1, 2, 3, 4}
	g.w.Line("N", "0", "1", tx.HexS("x"), "I", "4", "i1", "i2", "i3", "i4", "O", "0", "E", "0")
	base := g.finish(0, func() qframe.QFrame { return qframe.New(map[string]types.DataSlice{"x": x}) })
	clauseToks := []string{"F", "0", tx.HexS("x"), "s" + tx.HexS(">"), "i2"}
	cl := qframe.Filter{Column: "x", Comparator: ">", Arg: 2}
	g.w.Line(append(append([]string{"O", "1", "0", "fapply"}, clauseToks...), "1", tx.HexS("y"), "-", "-", "c", "i7")...)
	g.finish(1, func() qframe.QFrame { return base.qf.FilteredApply(cl, qframe.Instruction{Fn: 7, DstCol: "y"}) })
	g.w.Line("CB", "1", "1", "-1")
	g.w.Line(append(append([]string{"O", "2", "0", "fapply"}, clauseToks...), "1", tx.HexS("y"), "-", "-", "col", tx.HexS("x"))...)
	g.finish(2, func() qframe.QFrame {
		return base.qf.FilteredApply(cl, qframe.Instruction{Fn: types.ColumnName("x"), DstCol: "y"})
	})
	g.w.Line("CB", "2", "1", "-1")
}
