package main

// Section "grpadv": the internal hash grouper (through verifhooks) with harness-chosen keys and hash values.
//   GA <n> <key…> H <hash…> G <k> {<len> <row…>}* D <k> <row…> ST <relocCount> <relocCollisions> <insertCollisions> <groupCount> <loadFactor bits>
//   rows 0..n-1 in order; G = GroupBy result in slot order, D = Distinct result in slot order

import (
	"fmt"
	"math"

	"github.com/tobgu/qframe/verifhooks"

	"verif/internal/tx"
)

func init() { sections["grpadv"] = grpAdvSection }

type hashComparable struct {
	keys   []int
	hashes []uint64
}

func (c hashComparable) Compare(i, j uint32) verifhooks.CompareResult {
	if c.keys[i] == c.keys[j] {
		return verifhooks.Equal
	}
	if c.keys[i] < c.keys[j] {
		return verifhooks.LessThan
	}
	return verifhooks.GreaterThan
}
func (c hashComparable) Hash(i uint32, seed uint64) uint64 { return c.hashes[i] }

// big: one GroupBy over 2k rows with k > 32768 distinct keys, every key occurring once in each half, hashes spread over
// all 64 bits: the table grows past 2^16 and 2^17 slots while holding entries, and the second half must find them again.
//
//	GB <n> <k> <mul> G <g> {<len> <row…>}*      key of row i = i mod k, hash = key * mul
func grpBig(r *tx.Rng, w *tx.W) {
	k := 33000 + r.Intn(30000)
	n := 2 * k
	mul := uint64(0x9E3779B97F4A7C15)
	if r.Bool() {
		mul = uint64(r.U64() | 1)
	}
	keys := make([]int, n)
	hashes := make([]uint64, n)
	for i := range keys {
		keys[i] = i % k
		hashes[i] = uint64(keys[i]) * mul
	}
	toks := []string{"GB", tx.Int(n), tx.Int(k), tx.U64(mul)}
	pmsg := ""
	func() {
		defer func() {
			if p := recover(); p != nil {
				pmsg = fmt.Sprint(p)
			}
		}()
		groups, _ := verifhooks.GroupBy(ascending(n), []verifhooks.Comparable{hashComparable{keys, hashes}})
		toks = append(toks, "G", tx.Int(len(groups)))
		for _, g := range groups {
			toks = append(toks, tx.Int(len(g)))
			for _, x := range g {
				toks = append(toks, tx.Int(int(x)))
			}
		}
	}()
	if pmsg != "" {
		toks = append(toks, "P", tx.HexS(pmsg))
	}
	w.Line(toks...)
}

func grpAdvSection(r *tx.Rng, w *tx.W, size int, opt map[string]string) {
	if opt["big"] != "" {
		grpBig(r, w)
		return
	}
	ns := []int{0, 1, 2, 3, 5, 8, 9, 16, 17, 31, 32, 33, 40, 64, 100, 130}
	if size >= 2 {
		ns = append(ns, 300, 1000, 3000)
	}
	n := r.PickInt(ns)
	card := 1 + r.Intn(n+1)
	if r.P(1, 3) {
		card = n + 1 // all distinct
	}
	keys := make([]int, n)
	for i := range keys {
		keys[i] = r.Intn(card)
	}
	// hash of a key (equal keys must hash equally; different keys may collide)
	pattern := r.Intn(7)
	keyHash := func(k int) uint64 {
		switch pattern {
		case 0:
			return 42 // everything collides
		case 1:
			return uint64(k) << 3 // equal low three bits
		case 2:
			return uint64(k)<<32 | 7 // equal low 32 bits: the stored 32-bit hashes are all equal
		case 3:
			return uint64(k) // sequential
		case 4:
			return uint64(k) * 0x9E3779B97F4A7C15
		case 5:
			return uint64(k%4) | uint64(k)<<40 // four buckets
		default:
			return uint64(k) * 8 // clusters around multiples of the initial size
		}
	}
	hashes := make([]uint64, n)
	for i := range hashes {
		hashes[i] = keyHash(keys[i])
	}
	toks := []string{"GA", tx.Int(n)}
	for _, k := range keys {
		toks = append(toks, tx.Int(k))
	}
	toks = append(toks, "H")
	for _, h := range hashes {
		toks = append(toks, tx.U64(h))
	}
	ix := ascending(n)
	pmsg := ""
	func() {
		defer func() {
			if p := recover(); p != nil {
				pmsg = fmt.Sprint(p)
			}
		}()
		groups, stats := verifhooks.GroupBy(ix, []verifhooks.Comparable{hashComparable{keys, hashes}})
		toks = append(toks, "G", tx.Int(len(groups)))
		for _, g := range groups {
			toks = append(toks, tx.Int(len(g)))
			for _, x := range g {
				toks = append(toks, tx.Int(int(x)))
			}
		}
		d := verifhooks.Distinct(ascending(n), []verifhooks.Comparable{hashComparable{keys, hashes}})
		toks = append(toks, "D", tx.Int(len(d)))
		for _, x := range d {
			toks = append(toks, tx.Int(int(x)))
		}
		toks = append(toks, "ST", tx.Int(stats.RelocationCount), tx.Int(stats.RelocationCollisions), tx.Int(stats.InsertCollisions),
			tx.Int(stats.GroupCount), fmt.Sprintf("%016x", math.Float64bits(stats.LoadFactor)))
	}()
	if pmsg != "" {
		toks = append(toks, "P", tx.HexS(pmsg))
	}
	w.Line(toks...)
}
