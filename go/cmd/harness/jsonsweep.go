package main

// Section "jsonsweep": ToJSON of Slice(0, n) of a reverse-sorted frame for EVERY n in 0..N, so that every possible
// position of an internal buffer boundary relative to the last record is met.
//   JS <variant> <N> <n> <P|output bytes>
// Row i of the base frame: a = i*7-3, s = "x" repeated (i mod 3)+1 times, f = i/2 (float), b = (i even).
// variant 0: a | 1: a, s | 2: a, f, b | 3: s

import (
	"bytes"
	"fmt"
	"strings"

	"github.com/tobgu/qframe"
	"github.com/tobgu/qframe/config/newqf"

	"verif/internal/tx"
)

func init() { sections["jsonsweep"] = jsonSweepSection }

func jsonSweepSection(r *tx.Rng, w *tx.W, size int, opt map[string]string) {
	variant := r.Intn(4)
	N := 430 + r.Intn(60)
	a := make([]int, N)
	s := make([]string, N)
	f := make([]float64, N)
	b := make([]bool, N)
	for i := 0; i < N; i++ {
		a[i] = i*7 - 3
		s[i] = strings.Repeat("x", i%3+1)
		f[i] = float64(i) / 2
		b[i] = i%2 == 0
	}
	order := [][]string{{"a"}, {"a", "s"}, {"a", "f", "b"}, {"s", "a"}}[variant]
	data := map[string]interface{}{"a": a}
	for _, c := range order {
		switch c {
		case "s":
			data["s"] = s
		case "f":
			data["f"] = f
		case "b":
			data["b"] = b
		}
	}
	base := qframe.New(data, newqf.ColumnOrder(order...)).Sort(qframe.Order{Column: "a", Reverse: true})
	for n := 0; n <= N; n++ {
		var buf bytes.Buffer
		pmsg := ""
		var err error
		func() {
			defer func() {
				if p := recover(); p != nil {
					pmsg = fmt.Sprint(p)
				}
			}()
			err = base.Slice(0, n).ToJSON(&buf)
		}()
		out := tx.Hex(buf.Bytes())
		if pmsg != "" || err != nil {
			out = "P"
		}
		w.Line("JS", tx.Int(variant), tx.Int(N), tx.Int(n), out)
	}
}
