package main

// Section "quote": JSON string quoting.   QS <string> <AppendQuotedString(prefix, string)> <prefix>

import (
	"github.com/tobgu/qframe/verifhooks"

	"verif/internal/tx"
)

func init() { sections["quote"] = quoteSection }

func quoteSection(r *tx.Rng, w *tx.W, size int, opt map[string]string) {
	for k := 0; k < 10; k++ {
		var s []byte
		n := r.Intn(8)
		for i := 0; i < n; i++ {
			switch r.Intn(8) {
			case 0:
				s = append(s, byte(r.Intn(0x20)))
			case 1:
				s = append(s, []byte{'"', '\\', '/', 0x7f, '\t', '\n', '\r'}[r.Intn(7)])
			case 2:
				s = append(s, "  �\u0080é日😀߿ࠀ￿"[0:]...)
				s = s[:len(s)-r.Intn(4)] // possibly cut inside a rune
			case 3:
				s = append(s, byte(0x80+r.Intn(0x80)))
			case 4:
				s = append(s, []string{"\xed\xa0\x80", "\xc0\x80", "\xf4\x90\x80\x80", "\xe2\x80", "\xf0\x9f\x98"}[r.Intn(5)]...)
			default:
				s = append(s, byte('a'+r.Intn(26)))
			}
		}
		prefix := []byte("xy")[:r.Intn(3)]
		out := verifhooks.AppendQuotedString(append([]byte(nil), prefix...), string(s))
		w.Line("QS", tx.Hex(s), tx.Hex(out), tx.Hex(prefix))
	}
}
