package main

// Section "like": the like / ilike matcher.
//   XC <k> {<rune> <upper>}*                       unicode.ToUpper for every rune that occurs (oracle)
//   XG <regexp source> ERR | <k> {<cell> <0|1>}*    Go regexp on the source the documented rule prescribes (oracle)
//   M <pattern> <caseSensitive> <kind|ERR> <k> {<cell> <match> <upper>}*
//      one matcher instance applied to k cells in sequence (its buffer is reused); upper = ToUpper(&buf, cell) with one buffer

import (
	"fmt"
	"regexp"
	"sort"
	"strconv"
	"strings"
	"unicode"

	"github.com/tobgu/qframe"
	"github.com/tobgu/qframe/config/newqf"
	"github.com/tobgu/qframe/types"
	"github.com/tobgu/qframe/verifhooks"

	"verif/internal/tx"
)

func init() { sections["like"] = likeSection }

var likeAtoms = []string{"a", "b", "A", "ab", "abc", "B", "é", "É", "ı", "I", "i", "ß", "ǆ", "ɐ", "ⱥ", "\u0080", "ÿ", "ÿ", "ſ", "k", "K", "Ω", "ω", "x y", "0", "_", "-", "日本", "😀"}
var likeMeta = []string{".", "a.c", "a|b", "^a", "a$", "[a-c]", "a*", "b+", "a?", "(a)", "(", "a\\b", "{", "a{2}", "\\", "[", "$", "^"}

func genLikeText(r *tx.Rng, meta bool) string {
	n := r.Intn(4)
	var sb strings.Builder
	for i := 0; i < n; i++ {
		if meta && r.P(1, 3) {
			sb.WriteString(likeMeta[r.Intn(len(likeMeta))])
		} else {
			sb.WriteString(likeAtoms[r.Intn(len(likeAtoms))])
		}
	}
	return sb.String()
}

func likeSection(r *tx.Rng, w *tx.W, size int, opt map[string]string) {
	meta := r.P(1, 4)
	core := genLikeText(r, meta)
	if meta && regexp.QuoteMeta(core) == core {
		core += likeMeta[r.Intn(len(likeMeta))]
	}
	pat := core
	switch r.Intn(6) {
	case 0:
		pat = "%" + core
	case 1:
		pat = core + "%"
	case 2, 3:
		pat = "%" + core + "%"
	}
	if r.P(1, 30) {
		pat = r.Pick([]string{"", "%", "%%", "%%%", "a%b", "%a%b%"})
	}
	cs := r.Bool()
	ncells := 3 + r.Intn(6)
	cells := make([]string, ncells)
	for i := range cells {
		switch r.Intn(5) {
		case 0:
			cells[i] = core
		case 1:
			cells[i] = genLikeText(r, false) + core + genLikeText(r, false)
		case 2:
			cells[i] = strings.ToLower(core) + genLikeText(r, false)
		case 3:
			cells[i] = genLikeText(r, false) + strings.ToUpper(core)
		default:
			cells[i] = genLikeText(r, false)
		}
		if r.P(1, 15) {
			cells[i] = strings.Repeat(cells[i]+"a", 1+r.Intn(8)) // around the matcher's 10-byte initial buffer
		}
		if size >= 2 && r.P(1, 40) {
			cells[i] = strings.Repeat("ɐé", 300) + cells[i]
		}
	}
	// now and then the interesting cells come after some 190..250 other distinct values: in the enum column their codes
	// then lie in the last word of the bit set (and around the 255 limit)
	if r.P(1, 12) {
		nfill := r.PickInt([]int{126, 190, 191, 192, 200, 246})
		if nfill+len(cells) > 254 {
			nfill = 254 - len(cells)
		}
		fill := make([]string, nfill)
		for i := range fill {
			fill[i] = "\x01fill" + strconv.Itoa(i) // no generated pattern text contains the control byte
		}
		cells = append(fill, cells...)
	}
	// oracle: unicode.ToUpper for every rune
	runes := map[rune]bool{}
	for _, s := range append([]string{pat}, cells...) {
		for _, c := range s {
			runes[c] = true
		}
	}
	rs := make([]int, 0, len(runes))
	for c := range runes {
		rs = append(rs, int(c))
	}
	sort.Ints(rs)
	toks := []string{"XC", tx.Int(len(rs))}
	for _, c := range rs {
		toks = append(toks, tx.Int(c), tx.Int(int(unicode.ToUpper(rune(c)))))
	}
	w.Line(toks...)
	// oracle: regexp on the documented source
	if regexp.QuoteMeta(pat) != pat {
		re := pat
		if strings.HasPrefix(pat, "%") {
			re = re[1:]
		} else {
			re = "^" + re
		}
		if strings.HasSuffix(pat, "%") {
			re = re[:len(re)-1]
		} else {
			re = re + "$"
		}
		if !cs {
			re = "(?i)" + re
		}
		rx, err := regexp.Compile(re)
		if err != nil {
			w.Line("XG", tx.HexS(re), "ERR")
		} else {
			t := []string{"XG", tx.HexS(re), tx.Int(len(cells))}
			for _, c := range cells {
				t = append(t, tx.HexS(c), tx.Bool01(rx.MatchString(c)))
			}
			w.Line(t...)
		}
	}
	mt := []string{"M", tx.HexS(pat), tx.Bool01(cs)}
	func() {
		defer func() {
			if p := recover(); p != nil {
				w.Line(append(mt, "P", tx.HexS(fmt.Sprint(p)))...)
				mt = nil
			}
		}()
		m, err := verifhooks.NewMatcher(pat, cs)
		if err != nil {
			mt = append(mt, "ERR", "0")
			return
		}
		kind := strings.TrimSuffix(strings.TrimPrefix(fmt.Sprintf("%T", m), "*strings."), "Matcher")
		mt = append(mt, kind, tx.Int(len(cells)))
		buf := make([]byte, 10)
		for _, c := range cells {
			up := verifhooks.ToUpper(&buf, c)
			mt = append(mt, tx.HexS(c), tx.Bool01(m.Matches(c)), tx.HexS(strings.Clone(up)))
		}
	}()
	if mt != nil {
		w.Line(mt...)
	}
	// the same cells (plus a null) in a string column and in an enum column: Filter must give the same rows
	//   ME <pattern> <caseSensitive> <n> <cell|n>* S <ERR | k rows…> E <ERR | k rows…>
	col := make([]*string, 0, len(cells)+1)
	for i := range cells {
		col = append(col, &cells[i])
	}
	col = append(col, nil)
	rowNums := make([]int, len(col))
	for i := range rowNums {
		rowNums[i] = i
	}
	qf := qframe.New(map[string]types.DataSlice{"s": col, "e": col, "i": rowNums}, newqf.Enums(map[string][]string{"e": nil}))
	if r.Bool() {
		qf = qf.Sort(qframe.Order{Column: "s", Reverse: r.Bool()})
	}
	cmp := "ilike"
	if cs {
		cmp = "like"
	}
	et := []string{"ME", tx.HexS(pat), tx.Bool01(cs), tx.Int(len(col))}
	for _, c := range col {
		et = append(et, tx.CStr(c))
	}
	for _, cn := range []string{"s", "e"} {
		et = append(et, strings.ToUpper(cn))
		res, pm := safely(func() qframe.QFrame { return qf.Filter(qframe.Filter{Column: cn, Comparator: cmp, Arg: pat}) })
		if pm != "" {
			et = append(et, "P")
			continue
		}
		if res.Err != nil {
			et = append(et, "ERR")
			continue
		}
		v, _ := res.IntView("i")
		rows := v.Slice()
		sort.Ints(rows)
		et = append(et, tx.Int(len(rows)))
		for _, x := range rows {
			et = append(et, tx.Int(x))
		}
	}
	w.Line(et...)
}
