package main

// Section "ryu": float text.
//   F <bits> <prefix> <spare> <out> <strconv>    AppendFloat64f(buf, f) with buf = prefix + spare bytes of garbage capacity
//   FD <bits> <m> <e> <exactInt>                  the shortest decimal computed by the Ryu core (hook)

import (
	"fmt"
	"math"
	"strconv"

	"github.com/tobgu/qframe/verifhooks"

	"verif/internal/tx"
)

func init() { sections["ryu"] = ryuSection }

func genFloatForRyu(r *tx.Rng) uint64 {
	switch r.Intn(14) {
	case 13: // digits on both sides of the decimal point: an integer part of k digits for every k (word-size limits 2^32,
		// 10^9, 10^10 lie inside), a fraction of 1..6 digits
		k := 1 + r.Intn(16)
		lo, hi := uint64(1), uint64(10)
		for i := 1; i < k; i++ {
			lo, hi = lo*10, hi*10
		}
		ip := lo + r.U64()%(hi-lo)
		if r.P(1, 4) {
			ip = []uint64{1<<32 - 1, 1 << 32, 1<<32 + 1, 999999999, 1000000000, 9999999999, 10000000000, 1<<31 - 1, 1 << 31}[r.Intn(9)]
		}
		fd := 1 + r.Intn(6)
		f, _ := strconv.ParseFloat(fmt.Sprintf("%d.%0*d", ip, fd, 1+r.Intn(999999)%pow10i(fd)), 64)
		if r.Bool() {
			f = -f
		}
		return math.Float64bits(f)
	case 0:
		return floatBits[r.Intn(len(floatBits))]
	case 12: // large values whose exact expansion ends in ...25 / ...125 / ...75: the shortest text needs a round-half-even decision
		k := 46 + r.Intn(6)
		n := float64(uint64(1)<<uint(k) + r.U64()%(uint64(1)<<uint(k)))
		ulp := math.Ldexp(1, k-52)
		f := math.Floor(n) + ulp*float64(1+2*r.Intn(2)) // an odd multiple of the ulp: .25/.75 at 2^50, .125/.375 at 2^49, ...
		if r.Bool() {
			f = -f
		}
		return math.Float64bits(f)
	case 10, 11: // exact powers of two over the whole exponent range (the lower neighbour is half as far away as the upper one)
		return uint64(r.Intn(2))<<63 | uint64(1+r.Intn(2046))<<52
	case 1: // exponent sweep with boundary mantissas
		e := uint64(r.Intn(2047))
		m := []uint64{0, 1, 2, 1<<52 - 1, 1<<52 - 2, 1 << 51, 1<<51 + 1, 1<<51 - 1}[r.Intn(8)]
		return uint64(r.Intn(2))<<63 | e<<52 | m
	case 2: // exact integers
		return math.Float64bits(float64(r.U64() >> uint(r.Intn(64))))
	case 3: // powers of ten and neighbours
		f := math.Pow(10, float64(r.Intn(600)-300))
		b := math.Float64bits(f)
		return b + uint64(r.Intn(3)) - 1
	case 4: // short decimals
		f, _ := strconv.ParseFloat(fmt.Sprintf("%d.%d", r.Intn(1000), r.Intn(1000)), 64)
		return math.Float64bits(f)
	case 5: // subnormals
		return r.U64() & (1<<52 - 1) >> uint(r.Intn(52))
	case 6: // halfway-ish: many trailing digits
		return math.Float64bits(float64(r.Intn(1<<20)) / float64(1+r.Intn(1<<10)))
	default:
		return r.U64()
	}
}

func ryuSection(r *tx.Rng, w *tx.W, size int, opt map[string]string) {
	for k := 0; k < 20; k++ {
		b := genFloatForRyu(r)
		for isNaNBits(b) {
			b = genFloatForRyu(r)
		}
		f := math.Float64frombits(b)
		plen := r.PickInt([]int{0, 0, 1, 3, 17})
		spare := r.PickInt([]int{0, 0, 1, 5, 24, 40, 400})
		buf := make([]byte, plen, plen+spare)
		for i := range buf {
			buf[i] = byte('a' + r.Intn(26))
		}
		full := buf[:cap(buf)]
		for i := plen; i < len(full); i++ {
			full[i] = byte('0' + r.Intn(10)) // stale digits in the spare capacity
		}
		prefix := append([]byte(nil), buf...)
		var out []byte
		pmsg := ""
		func() {
			defer func() {
				if p := recover(); p != nil {
					pmsg = fmt.Sprint(p)
				}
			}()
			out = verifhooks.AppendFloat64f(buf, f)
		}()
		ref := strconv.FormatFloat(f, 'f', -1, 64)
		if pmsg != "" {
			w.Line("F", fmt.Sprintf("%016x", b), tx.Hex(prefix), tx.Int(spare), "P", tx.HexS(pmsg), tx.HexS(ref))
			continue
		}
		w.Line("F", fmt.Sprintf("%016x", b), tx.Hex(prefix), tx.Int(spare), tx.Hex(out), tx.HexS(ref))
		if !math.IsInf(f, 0) && f != 0 {
			mant := b & (1<<52 - 1)
			exp := (b >> 52) & 0x7ff
			m, e, exact := verifhooks.RyuDecimal(mant, exp)
			w.Line("FD", fmt.Sprintf("%016x", b), tx.U64(m), tx.Int(int(e)), tx.Bool01(exact))
		}
	}
}

func pow10i(k int) int {
	p := 1
	for i := 0; i < k; i++ {
		p *= 10
	}
	return p
}
