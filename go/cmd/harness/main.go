// Command harness drives the real qframe code (built from /repo with -tags verif)
// and writes a transcript that the Lean driver (qfdriver) replays through the
// model and the spec. One operation per line; see DESIGN.md Appendix C and the
// per-section files for the line formats.
package main

import (
	"bufio"
	"flag"
	"fmt"
	"os"
	"strings"

	"verif/internal/tx"
)

type sectionFn func(r *tx.Rng, w *tx.W, size int, opt map[string]string)

var sections = map[string]sectionFn{}

func main() {
	section := flag.String("section", "", "section name")
	seed := flag.Uint64("seed", 1, "seed")
	from := flag.Int("from", 0, "first scenario number")
	count := flag.Int("count", 10, "number of scenarios")
	size := flag.Int("size", 1, "size class (1 quick, 2 thorough)")
	out := flag.String("out", "", "output file (default stdout)")
	opts := flag.String("opt", "", "comma separated k=v options for the section")
	flag.Parse()

	fn, ok := sections[*section]
	if !ok {
		names := []string{}
		for k := range sections {
			names = append(names, k)
		}
		fmt.Fprintf(os.Stderr, "unknown section %q; have %v\n", *section, names)
		os.Exit(2)
	}
	opt := map[string]string{}
	for _, kv := range strings.Split(*opts, ",") {
		if kv == "" {
			continue
		}
		p := strings.SplitN(kv, "=", 2)
		if len(p) == 2 {
			opt[p[0]] = p[1]
		} else {
			opt[p[0]] = "1"
		}
	}
	var f *os.File = os.Stdout
	if *out != "" {
		var err error
		f, err = os.Create(*out)
		if err != nil {
			panic(err)
		}
		defer f.Close()
	}
	w := &tx.W{B: bufio.NewWriterSize(f, 1<<20)}
	base := tx.NewRng(*seed)
	for k := *from; k < *from+*count; k++ {
		r := base.Fork(uint64(k))
		w.Line("S", *section, tx.U64(*seed), tx.Int(k))
		fn(r, w, *size, opt)
		w.Line("E")
		w.B.Flush()
	}
	w.B.Flush()
}
