package main

// Section "conc" (C11): operations started concurrently on a frame and on frames derived from it must return what they
// return when run alone, and — with the binary built with -race — without any data race.
//   CC <n> {<digest alone> <digest concurrent>}*      one batch of n operations, run alone first and then together

import (
	"bufio"
	"bytes"
	"fmt"
	"io"
	"sort"
	"sync"

	"github.com/tobgu/qframe"
	"github.com/tobgu/qframe/config/groupby"
	"github.com/tobgu/qframe/types"

	"verif/internal/tx"
)

func init() { sections["conc"] = concSection }

// digestFrame digests the observation of a frame; with unordered the rows are taken as a multiset (the order of the
// groups of GroupBy / Distinct is unspecified and depends on a per-call random hash seed).
func digestFrame(qf qframe.QFrame, unordered bool) (d string) {
	defer func() {
		if p := recover(); p != nil {
			d = "panic"
		}
	}()
	if unordered && qf.Err == nil {
		names := qf.ColumnNames()
		typs := qf.ColumnTypes()
		n := qf.Len()
		rows := make([]string, n)
		for j, name := range names {
			cells, _ := obsCells(qf, name, typs[j], n)
			for i := 0; i < n && i < len(cells); i++ {
				rows[i] += cells[i] + "|"
			}
		}
		sort.Strings(rows)
		return digestOf(append(append([]string{fmt.Sprint(n)}, names...), rows...))
	}
	toks, _, _, _ := observe(qf)
	return digestOf(toks)
}

func concSection(r *tx.Rng, w *tx.W, size int, opt map[string]string) {
	// build a small family sequentially (not recorded: the transcript of this section only carries digests)
	discard := &tx.W{B: newDiscard()}
	g := &gen{r: r, w: discard, size: size, opt: map[string]string{"noupper": "", "maxrows": opt["maxrows"]}}
	delete(g.opt, "noupper")
	if g.opt["maxrows"] == "" {
		delete(g.opt, "maxrows")
	}
	g.genNew()
	for i := 0; i < 4; i++ {
		g.opt["ops"] = "filter+sort+slice+apply+copy+distinct"
		g.genOp()
	}
	g.sharedCtx = myCtx()
	// Eval WITHOUT a context of its own, and built-in aggregations of same-typed columns, from several goroutines at
	// once, as the very first thing the section does: whatever package-level state the library sets up lazily or shares
	// between calls (a default context, scratch buffers) is set up / used concurrently here
	{
		nrows := 40
		a, b, k := make([]int, nrows), make([]float64, nrows), make([]int, nrows)
		for i := range a {
			a[i], b[i], k[i] = i*7%13, float64(i%9)/2, i%5
		}
		ef := qframe.New(map[string]interface{}{"a": a, "b": b, "k": k})
		var first []func() string
		for j := 0; j < 8; j++ {
			j := j
			first = append(first, func() string {
				qf, pm := safely(func() qframe.QFrame {
					switch j % 4 {
					case 0:
						return ef.Eval("y", qframe.Expr("+", types.ColumnName("a"), j))
					case 1:
						return ef.Slice(j, nrows).Eval("y", qframe.Expr("abs", types.ColumnName("a")))
					case 2:
						return ef.GroupBy(groupby.Columns("k")).Aggregate(qframe.Aggregation{Fn: "sum", Column: "a"}, qframe.Aggregation{Fn: "max", Column: "b"})
					default:
						return ef.Slice(j, nrows).GroupBy(groupby.Columns("k")).Aggregate(qframe.Aggregation{Fn: "sum", Column: "a"}, qframe.Aggregation{Fn: "min", Column: "b"})
					}
				})
				if pm != "" {
					return "panic"
				}
				return digestFrame(qf, j%4 >= 2)
			})
		}
		runConcBatch(w, first, true)
	}
	for round := 0; round < 3; round++ {
		// collect a batch of operations on family members
		g.batchMode = true
		g.batch = nil
		g.batchOps = nil
		n := 3 + r.Intn(6)
		g.opt["ops"] = "filter+filter+sort+sort+slice+select+copy+apply+fapply+rownums+eval+eval+distinct+groupagg+groupagg"
		for len(g.batch) < n {
			g.genOp()
		}
		g.batchMode = false
		ops := make([]func() string, 0, len(g.batch)+4)
		for i, f := range g.batch {
			f := f
			unordered := g.batchOps[i] == "distinct" || g.batchOps[i] == "groupagg"
			ops = append(ops, func() string {
				qf, pm := safely(f)
				if pm != "" {
					return "panic"
				}
				return digestFrame(qf, unordered)
			})
		}
		// the same case-insensitive filter from several goroutines (matchers carry a scratch buffer)
		if sc := g.pickFrame(true); len(sc.colsOf("se")) > 0 {
			c := sc.colsOf("se")[r.Intn(len(sc.colsOf("se")))]
			pat := r.Pick([]string{"a%", "%b%", "%c", "ab", "%é%", "x%"})
			fl := qframe.Filter{Column: c.name, Comparator: "ilike", Arg: pat}
			for k := 0; k < 4; k++ {
				target := sc
				if k%2 == 1 {
					// a frame sharing the column (sorted copy)
					target = &hframe{qf: sc.qf.Sort(qframe.Order{Column: c.name, Reverse: k == 3})}
				}
				t := target
				ops = append(ops, func() string {
					qf, pm := safely(func() qframe.QFrame { return t.qf.Filter(fl) })
					if pm != "" {
						return "panic"
					}
					return digestFrame(qf, false)
				})
			}
		}
		// Distinct / GroupBy keyed by a string column with nulls from several goroutines at once (nulls that do not equal
		// each other get a random hash: whatever produces it is shared by all calls)
		{
			nrows := 30 + r.Intn(40)
			col := make([]*string, nrows)
			for i := range col {
				if r.P(1, 3) {
					continue
				}
				v := strAlphabet[r.Intn(len(strAlphabet))]
				col[i] = &v
			}
			nf := qframe.New(map[string]interface{}{"s": col, "n": make([]int, nrows)})
			for k := 0; k < 4; k++ {
				k := k
				ops = append(ops, func() string {
					qf, pm := safely(func() qframe.QFrame {
						if k%2 == 0 {
							return nf.Distinct(groupby.Columns("s"))
						}
						return nf.GroupBy(groupby.Columns("s")).Aggregate(qframe.Aggregation{Fn: "count", Column: "n"})
					})
					if pm != "" {
						return "panic"
					}
					return digestFrame(qf, true)
				})
			}
		}
		// renderings and comparisons of shared frames
		for k := 0; k < 3; k++ {
			src := g.pickFrame(true)
			other := g.pickFrame(true)
			switch r.Intn(4) {
			case 0:
				ops = append(ops, func() string { var b bytes.Buffer; _ = src.qf.ToCSV(&b); return digestOf([]string{b.String()}) })
			case 1:
				ops = append(ops, func() string { var b bytes.Buffer; _ = src.qf.ToJSON(&b); return digestOf([]string{b.String()}) })
			case 2:
				ops = append(ops, func() string { return digestOf([]string{src.qf.String()}) })
			default:
				ops = append(ops, func() string { eq, why := src.qf.Equals(other.qf); return digestOf([]string{fmt.Sprint(eq, why)}) })
			}
		}
		runConcBatch(w, ops, false)
	}
}

func newDiscard() *bufio.Writer { return bufio.NewWriter(io.Discard) }

// runConcBatch runs the operations alone (one after the other) and three times together, and writes the CC line.
// togetherFirst: the concurrent runs come before the sequential one (state the library sets up on first use is then
// set up by concurrent calls).
func runConcBatch(w *tx.W, ops []func() string, togetherFirst bool) {
	alone := make([]string, len(ops))
	runAlone := func() {
		for i, op := range ops {
			alone[i] = op()
		}
	}
	results := make([][]string, 0, 3)
	runTogether := func() {
		for rep := 0; rep < 3; rep++ {
			var wg sync.WaitGroup
			start := make(chan struct{})
			res := make([]string, len(ops))
			for i, op := range ops {
				i, op := i, op
				wg.Add(1)
				go func() {
					defer wg.Done()
					<-start
					res[i] = op()
				}()
			}
			close(start)
			wg.Wait()
			results = append(results, res)
		}
	}
	if togetherFirst {
		runTogether()
		runAlone()
	} else {
		runAlone()
		runTogether()
	}
	together := make([]string, len(ops))
	for _, res := range results {
		for i := range res {
			if together[i] == "" || res[i] != alone[i] {
				together[i] = res[i]
			}
		}
	}
	toks := []string{"CC", tx.Int(len(ops))}
	for i := range ops {
		toks = append(toks, alone[i], together[i])
	}
	w.Line(toks...)
}
