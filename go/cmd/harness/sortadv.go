package main

// Section "sortadv": the internal sorter (through verifhooks.Sort) on adversarial and structured inputs.
//   SA <kind> <n> <val…> O <out…>     val[i] = key of row i; out = the row order produced by the real sorter

import (
	"fmt"

	"github.com/tobgu/qframe/verifhooks"

	"verif/internal/tx"
)

func init() { sections["sortadv"] = sortAdvSection }

type intComparable struct{ vals []int }

func (c intComparable) Compare(i, j uint32) verifhooks.CompareResult {
	x, y := c.vals[i], c.vals[j]
	if x < y {
		return verifhooks.LessThan
	}
	if x > y {
		return verifhooks.GreaterThan
	}
	return verifhooks.Equal
}
func (c intComparable) Hash(i uint32, seed uint64) uint64 { return 0 }

// McIlroy's adversary ("A Killer Adversary for Quicksort"): values are decided lazily so that every pivot is bad.
type adversary struct {
	val       []int
	gas       int
	nsolid    int
	candidate int
}

func (a *adversary) Compare(i, j uint32) verifhooks.CompareResult {
	x, y := int(i), int(j)
	if a.val[x] == a.gas && a.val[y] == a.gas {
		if x == a.candidate {
			a.val[x] = a.nsolid
		} else {
			a.val[y] = a.nsolid
		}
		a.nsolid++
	}
	if a.val[x] == a.gas {
		a.candidate = x
	} else if a.val[y] == a.gas {
		a.candidate = y
	}
	if a.val[x] < a.val[y] {
		return verifhooks.LessThan
	}
	if a.val[x] > a.val[y] {
		return verifhooks.GreaterThan
	}
	return verifhooks.Equal
}
func (a *adversary) Hash(i uint32, seed uint64) uint64 { return 0 }

func ascending(n int) []uint32 {
	ix := make([]uint32, n)
	for i := range ix {
		ix[i] = uint32(i)
	}
	return ix
}

func sortAdvSection(r *tx.Rng, w *tx.W, size int, opt map[string]string) {
	ns := []int{2, 7, 12, 13, 14, 40, 41, 50, 64, 100, 130}
	if size >= 2 {
		ns = append(ns, 300, 1000)
	}
	n := r.PickInt(ns)
	kind := r.Pick([]string{"killer", "killer", "random", "ties", "sorted", "reversed", "equal", "organ", "sawtooth"})
	vals := make([]int, n)
	switch kind {
	case "killer":
		a := &adversary{val: make([]int, n), gas: n + 1}
		for i := range a.val {
			a.val[i] = a.gas
		}
		func() {
			defer func() { _ = recover() }()
			verifhooks.Sort(ascending(n), []verifhooks.Comparable{a})
		}()
		copy(vals, a.val)
		// the items the adversary never had to decide (all still "gas", i.e. equal and largest) are what the fallback
		// sort of the exhausted range works on: give them distinct values as well — ascending, descending, shuffled —
		// so that the heap construction and the pops have something to get wrong
		for variant := 0; variant < 3; variant++ {
			v := append([]int(nil), a.val...)
			var gasAt []int
			for i, x := range v {
				if x == a.gas {
					gasAt = append(gasAt, i)
				}
			}
			if len(gasAt) < 2 {
				break
			}
			order := make([]int, len(gasAt))
			for i := range order {
				switch variant {
				case 0:
					order[i] = i
				case 1:
					order[i] = len(gasAt) - 1 - i
				default:
					order[i] = i
				}
			}
			if variant == 2 {
				for i := len(order) - 1; i > 0; i-- {
					j := r.Intn(i + 1)
					order[i], order[j] = order[j], order[i]
				}
			}
			for k, i := range gasAt {
				v[i] = a.gas + order[k]
			}
			emitSortCase(w, "killer-decided", v)
		}
	case "random":
		for i := range vals {
			vals[i] = r.Intn(4 * n)
		}
	case "ties":
		k := 1 + r.Intn(4)
		for i := range vals {
			vals[i] = r.Intn(k)
		}
	case "sorted":
		for i := range vals {
			vals[i] = i / (1 + r.Intn(2))
		}
	case "reversed":
		for i := range vals {
			vals[i] = n - i
		}
	case "equal":
		for i := range vals {
			vals[i] = 5
		}
	case "organ":
		for i := range vals {
			if i < n/2 {
				vals[i] = i
			} else {
				vals[i] = n - i
			}
		}
	case "sawtooth":
		m := 2 + r.Intn(5)
		for i := range vals {
			vals[i] = i % m
		}
	}
	emitSortCase(w, kind, vals)
	// many short low-cardinality inputs: the partitioning code's handling of runs equal to the pivot depends on exact
	// counts on either side (ranges of 13..40 rows go through doPivot once or twice)
	for k := 0; k < 40; k++ {
		m := 13 + r.Intn(28)
		card := 2 + r.Intn(3)
		v := make([]int, m)
		for i := range v {
			v[i] = r.Intn(card)
		}
		emitSortCase(w, "lowcard", v)
	}
}

func emitSortCase(w *tx.W, kind string, vals []int) {
	n := len(vals)
	toks := []string{"SA", kind, tx.Int(n)}
	for _, v := range vals {
		toks = append(toks, tx.Int(v))
	}
	ix := ascending(n)
	pmsg := ""
	func() {
		defer func() {
			if p := recover(); p != nil {
				pmsg = fmt.Sprint(p)
			}
		}()
		verifhooks.Sort(ix, []verifhooks.Comparable{intComparable{vals}})
	}()
	if pmsg != "" {
		w.Line(append(toks, "P", tx.HexS(pmsg))...)
		return
	}
	toks = append(toks, "O")
	for _, i := range ix {
		toks = append(toks, tx.Int(int(i)))
	}
	w.Line(toks...)
}
