package main

// Sections for CSV input:
//   csvraw  — the fastcsv reader (through verifhooks) on generated documents, read schedules and fault positions
//   csvread — qframe.ReadCSV with configurations, schedules and fault positions
//
// Lines:
//   C <delim> <doc> <eofWithData> <failAt> <k> <chunk…>         fastcsv read; then
//   CR ok <nrows> {<nfields> <field>…}* <nil|eof|fail>  |  CR P <msg>
//   XP <cell> <int|-> <floatbits|-> <b0|b1|->                    strconv oracle for a cell text
//   CV <delim> <emptyNull> <ignoreEmpty> <rename> <alias> <hint> H <k> <name>* T <k> {<name> <type>}* E <k> {<name> <n> <val>*}*
//      <doc> <eofWithData> <failAt> <k> <chunk…>                 ReadCSV; then an R line as in section hist (fid 0)

import (
	"errors"
	"fmt"
	"io"
	"math"
	"sort"
	"strconv"
	"strings"

	"github.com/tobgu/qframe"
	"github.com/tobgu/qframe/config/csv"
	"github.com/tobgu/qframe/verifhooks"

	"verif/internal/tx"
)

func init() {
	sections["csvraw"] = csvRawSection
	sections["csvread"] = csvReadSection
}

var errInjected = errors.New("injected read failure")

// The failure of the underlying reader takes three shapes, chosen by the failing call number: a plain error, an error
// that wraps io.EOF (a connection cut short: errors.Is(err, io.EOF) holds, yet it is a failure, not the end of the
// document) and io.ErrUnexpectedEOF. A failure is a failure whatever it wraps.
var injectedErrs = []error{errInjected, fmt.Errorf("read tcp 10.0.0.1:5432: %w", io.EOF), io.ErrUnexpectedEOF}

func (s *schedReader) injected() error {
	if s.failAt < 0 {
		return errInjected
	}
	return injectedErrs[s.failAt%len(injectedErrs)]
}

// schedReader delivers data in the chunk sizes of sched (then everything), optionally reporting EOF together with
// the last data, and optionally failing on call number failAt (0-based).
type schedReader struct {
	data         []byte
	sched        []int
	pos          int
	calls        int
	failAt       int
	eofWithData  bool
	failWithData bool // the failing call still delivers its bytes (io.Reader allows n > 0 together with an error)
}

func (s *schedReader) Read(p []byte) (int, error) {
	call := s.calls
	s.calls++
	if call == s.failAt && !(s.failWithData && s.pos < len(s.data)) {
		return 0, s.injected()
	}
	if s.pos >= len(s.data) {
		return 0, io.EOF
	}
	want := len(s.data) - s.pos
	if len(s.sched) > 0 {
		want = s.sched[0]
		s.sched = s.sched[1:]
		if want < 1 {
			want = 1
		}
	}
	n := want
	if n > len(p) {
		n = len(p)
	}
	if n > len(s.data)-s.pos {
		n = len(s.data) - s.pos
	}
	copy(p, s.data[s.pos:s.pos+n])
	s.pos += n
	if call == s.failAt {
		return n, s.injected()
	}
	if s.eofWithData && s.pos >= len(s.data) {
		return n, io.EOF
	}
	return n, nil
}

var csvCellAlphabet = []string{"", "a", "b", "ab", "1", "-2", "0", "1.5", "NaN", "true", "false", "x y", " lead", "trail ", "é", "q\"t", "\"", "\"\"", "a,b", ",", "l\nf", "\n", "a;b", "a\tb", "a|b", "zz", "A", "\xff", "1e3", "+Inf", "7", "T", "007", "010", "-0020", "0x1f", "0b11", "0o17", "1_000", "+5", " 5", "5 ", ".5", "5.", "Inf", "-inf", "nan", "TRUE", "t", "9223372036854775807", "9223372036854775808", "1e400", "x\r\ny", "\r\n", "a\r\n"}

type csvDoc struct {
	delim  byte
	cells  [][]string // intended cells
	doc    []byte
	crInQ  bool // a CR occurs inside a quoted field
	trailE bool // the document ends with an unquoted empty last field and no line break
}

func genCsvDoc(r *tx.Rng, size int, numeric bool) csvDoc { return genCsvDocH(r, size, numeric, false) }

// dupHdr: the first row (the header for ReadCSV) repeats names and contains the candidates RenameDuplicateColumns
// would generate (c0, c1, c00), to the left and to the right of the duplicates
func genCsvDocH(r *tx.Rng, size int, numeric bool, dupHdr bool) csvDoc {
	d := csvDoc{delim: ','}
	if r.P(1, 4) {
		d.delim = []byte{';', '\t', '|', ' '}[r.Intn(4)]
	}
	nrows := r.PickInt([]int{0, 1, 2, 3, 3, 4, 6})
	ncols := 1 + r.Intn(4)
	// half of the duplicate headers come from templates in which a generated candidate (c0, c1, c00) is a column of its
	// own to the right or to the left of the duplicates
	var hdrTemplate []string
	if dupHdr {
		ncols = 2 + r.Intn(4)
		if nrows == 0 {
			nrows = 2
		}
		if r.Bool() {
			hdrTemplate = [][]string{{"c", "c", "c0"}, {"c", "c0", "c"}, {"c0", "c", "c"}, {"c", "c", "c", "c0", "c1"}, {"c", "c", "c1", "c0"},
				{"c", "c", "c00", "c0"}, {"d", "c", "c", "c0"}, {"c", "c", "c0", "c0"}, {"c", "d", "c", "d", "d0"}, {"c", "c", "c", "c1"}}[r.Intn(10)]
			ncols = len(hdrTemplate)
		}
	}
	if size >= 2 && r.P(1, 6) {
		nrows = 30 + r.Intn(40)
	}
	crlf := r.P(1, 3)
	mixed := r.P(1, 8)
	alwaysQuote := r.P(1, 6)
	colKind := make([]int, ncols)
	for c := range colKind {
		colKind[c] = r.Intn(5) // 0 any, 1 ints, 2 floats, 3 bools, 4 short strings
	}
	for i := 0; i < nrows; i++ {
		row := make([]string, ncols)
		for c := range row {
			var cell string
			k := colKind[c]
			if !numeric {
				k = 0
			}
			switch k {
			case 1:
				cell = strconv.Itoa(r.Intn(7) - 2)
				if r.P(1, 12) {
					cell = []string{"007", "010", "-0020", "0x1f", "1_000", "+5", "0b11"}[r.Intn(7)]
				}
			case 2:
				cell = []string{"1.5", "-0", "2", "", "NaN", "1e3", "0.1", "+Inf"}[r.Intn(8)]
				if r.P(1, 4) {
					// decimals of 16 to 19 significant digits: more than a float64 holds exactly, fewer than a uint64 overflows on
					nd := 14 + r.Intn(4)
					frac := make([]byte, nd)
					for j := range frac {
						frac[j] = byte('0' + r.Intn(10))
					}
					cell = strconv.Itoa(r.Intn(1000)) + "." + string(frac)
					if r.P(1, 3) {
						cell = "-" + cell
					}
				}
			case 3:
				cell = []string{"true", "false", "1", "0", "T", "f"}[r.Intn(6)]
			case 4:
				cell = []string{"a", "b", "", "zz", "ab"}[r.Intn(5)]
			default:
				cell = csvCellAlphabet[r.Intn(len(csvCellAlphabet))]
				if size >= 2 && r.P(1, 40) {
					n := r.PickInt([]int{1022, 1023, 1024, 1025, 2049})
					b := make([]byte, n)
					for j := range b {
						b[j] = "ab\"c,\n"[r.Intn(6)]
					}
					cell = string(b)
				}
			}
			if dupHdr && i == 0 {
				cell = []string{"c", "c", "c", "c0", "c1", "c00", "d", ""}[r.Intn(8)]
				if hdrTemplate != nil {
					cell = hdrTemplate[c]
				}
			}
			row[c] = cell
		}
		d.cells = append(d.cells, row)
	}
	finalNewline := r.P(2, 3)
	for i, row := range d.cells {
		for c, cell := range row {
			must := false
			for j := 0; j < len(cell); j++ {
				if cell[j] == d.delim || cell[j] == '"' || cell[j] == '\n' || cell[j] == '\r' {
					must = true
				}
			}
			if len(row) == 1 && cell == "" {
				must = true // a bare empty line would not denote a one-field record unambiguously at EOF
			}
			if must || alwaysQuote || r.P(1, 5) {
				d.doc = append(d.doc, '"')
				for j := 0; j < len(cell); j++ {
					if cell[j] == '"' {
						d.doc = append(d.doc, '"')
					}
					if cell[j] == '\r' {
						d.crInQ = true
					}
					d.doc = append(d.doc, cell[j])
				}
				d.doc = append(d.doc, '"')
			} else {
				d.doc = append(d.doc, cell...)
				if i == len(d.cells)-1 && c == len(row)-1 && cell == "" && !finalNewline && len(row) > 1 {
					d.trailE = true
				}
			}
			if c < len(row)-1 {
				d.doc = append(d.doc, d.delim)
			}
		}
		last := i == len(d.cells)-1
		if !last || finalNewline {
			if crlf != (mixed && r.Bool()) {
				d.doc = append(d.doc, '\r', '\n')
			} else {
				d.doc = append(d.doc, '\n')
			}
		}
	}
	return d
}

// a document with CRLF inside a quoted field (recorded finding) — generated rarely
func genCsvDocCRInQuotes(r *tx.Rng) csvDoc {
	d := csvDoc{delim: ',', crInQ: true}
	d.cells = [][]string{{"a", "b"}, {"x\r\ny", "z"}}
	d.doc = []byte("a,b\n\"x\r\ny\",z\n")
	return d
}

func genSchedule(r *tx.Rng, n int) []int {
	switch r.Intn(7) {
	case 0:
		return nil
	case 1:
		s := make([]int, n+2)
		for i := range s {
			s[i] = 1
		}
		return s
	case 2:
		s := make([]int, n+2)
		for i := range s {
			s[i] = 1 + r.Intn(3)
		}
		return s
	case 3:
		s := make([]int, n+2)
		for i := range s {
			s[i] = 1 + r.Intn(9)
		}
		return s
	case 4:
		k := 1
		if n > 1 {
			k = 1 + r.Intn(n)
		}
		s := []int{k}
		for i := 0; i < n; i++ {
			s = append(s, 1)
		}
		return s
	case 5:
		return []int{(n + 1) / 2}
	default:
		s := []int{}
		for i := 0; i < 6; i++ {
			s = append(s, 1+r.Intn(n+1))
		}
		return s
	}
}

func schedToks(s []int) []string {
	t := []string{tx.Int(len(s))}
	for _, x := range s {
		t = append(t, tx.Int(x))
	}
	return t
}

func runCsvRaw(w *tx.W, d csvDoc, sched []int, eofWithData bool, failAt int, fwd bool) {
	w.Line(append([]string{"C", tx.Int(int(d.delim)), tx.Hex(d.doc), tx.Bool01(eofWithData), tx.Int(failAt), tx.Bool01(fwd)}, schedToks(sched)...)...)
	func() {
		defer func() {
			if p := recover(); p != nil {
				w.Line("CR", "P", tx.HexS(fmt.Sprint(p)))
			}
		}()
		rd := verifhooks.NewCSVReader(&schedReader{data: d.doc, sched: append([]int(nil), sched...), failAt: failAt, eofWithData: eofWithData, failWithData: fwd}, d.delim)
		toks := []string{"CR", "ok", ""}
		nrows := 0
		var final error
		for i := 0; i < len(d.doc)+10; i++ {
			rec, err := rd.Read()
			if err != nil {
				final = err
				break
			}
			nrows++
			toks = append(toks, tx.Int(len(rec)))
			for _, f := range rec {
				toks = append(toks, tx.Hex(f))
			}
		}
		toks[2] = tx.Int(nrows)
		switch {
		case final == nil:
			toks = append(toks, "nil")
		case final == io.EOF:
			toks = append(toks, "eof")
		default:
			toks = append(toks, "fail")
		}
		w.Line(toks...)
	}()
}

func csvRawSection(r *tx.Rng, w *tx.W, size int, opt map[string]string) {
	if opt["wit"] != "" {
		// the recorded (open) findings of this section, replayed deterministically on every run
		for _, doc := range []string{"a,b\n\"x\r\ny\",z\n", "a,b\nx,"} {
			d := csvDoc{delim: ',', doc: []byte(doc)}
			runCsvRaw(w, d, nil, false, -1, false)
			runCsvRaw(w, d, []int{1, 1, 1, 1, 1, 1, 1, 1, 1, 1, 1, 1, 1, 1, 1, 1, 1, 1, 1, 1}, false, -1, false)
		}
		return
	}
	var d csvDoc
	if r.P(1, 25) {
		d = genCsvDocCRInQuotes(r)
	} else if opt["faults"] == "" && r.P(1, 30) {
		// one very long row (the buffer grows beyond several doublings) followed by a few kilobytes of short rows: what
		// happens to the buffer after the long row matters only when much of what follows is already in it (large reads)
		d = genLongRowDoc(r)
	} else {
		d = genCsvDoc(r, size, false)
	}
	// several schedules for the same document
	n := 3
	if opt["faults"] != "" {
		n = 1
	}
	for i := 0; i < n; i++ {
		sched := genSchedule(r, len(d.doc))
		runCsvRaw(w, d, sched, r.P(1, 3), -1, false)
	}
	if opt["faults"] != "" {
		// every fault position for one schedule: the reader is called at most len(doc)+2 times
		sched := genSchedule(r, len(d.doc))
		calls := len(d.doc) + 2
		if len(sched) == 0 {
			calls = 2
		}
		fwd := r.Bool()
		if len(sched) > 0 && len(sched)+3 < calls {
			calls = len(sched) + 3 // once the schedule is used up the rest is delivered by one read
		}
		// every call number up to 160; beyond that the first 64, the last 32 and 64 drawn ones (the transcript repeats
		// the document on every line)
		pick := map[int]bool{}
		if calls > 160 {
			for k := 0; k < 64; k++ {
				pick[k] = true
			}
			for k := calls - 32; k < calls; k++ {
				pick[k] = true
			}
			for i := 0; i < 64; i++ {
				pick[r.Intn(calls)] = true
			}
		}
		for k := 0; k < calls; k++ {
			if calls > 160 && !pick[k] {
				continue
			}
			runCsvRaw(w, d, sched, false, k, fwd)
		}
	}
}

// ---------------------------------------------------------------- ReadCSV

func emitParseOracle(w *tx.W, cells map[string]bool) {
	keys := make([]string, 0, len(cells))
	for k := range cells {
		keys = append(keys, k)
	}
	sort.Strings(keys)
	for _, c := range keys {
		it, ft, bt := "-", "-", "-"
		if v, err := strconv.Atoi(c); err == nil {
			it = tx.CInt(v)
		}
		if v, err := strconv.ParseFloat(c, 64); err == nil {
			ft = tx.CBits(math.Float64bits(v))
		}
		if v, err := strconv.ParseBool(c); err == nil {
			bt = tx.CBool(v)
		}
		w.Line("XP", tx.HexS(c), it, ft, bt)
	}
}

// a long document (more rows than the 1000-row resize threshold and than some row count hints)
func genLongRowDoc(r *tx.Rng) csvDoc {
	d := csvDoc{delim: ','}
	d.cells = append(d.cells, []string{"a", "b"})
	long := make([]byte, r.PickInt([]int{2050, 2500, 4097, 5000, 9000}))
	for i := range long {
		long[i] = "abcxyz "[r.Intn(7)]
	}
	at := r.Intn(3)
	for i, n := 0, 150+r.Intn(300); i < n; i++ {
		row := []string{strconv.Itoa(i), "s" + strconv.Itoa(i%13)}
		if i == at {
			row[1] = string(long)
		}
		d.cells = append(d.cells, row)
	}
	for _, row := range d.cells {
		d.doc = append(d.doc, strings.Join(row, ",")...)
		d.doc = append(d.doc, '\n')
	}
	return d
}

func genBigCsvDoc(r *tx.Rng, nrows int) csvDoc {
	d := csvDoc{delim: ','}
	ncols := 2 + r.Intn(2)
	hdr := []string{"a", "b", "c"}[:ncols]
	d.cells = append(d.cells, hdr)
	for i := 0; i < nrows; i++ {
		row := make([]string, ncols)
		for c := range row {
			switch c {
			case 0:
				row[c] = strconv.Itoa(i)
			case 1:
				row[c] = "s" + strconv.Itoa(i%17)
			default:
				row[c] = strconv.Itoa(i*3) + ".5"
			}
		}
		d.cells = append(d.cells, row)
	}
	for _, row := range d.cells {
		for c, cell := range row {
			d.doc = append(d.doc, cell...)
			if c < len(row)-1 {
				d.doc = append(d.doc, ',')
			}
		}
		d.doc = append(d.doc, '\n')
	}
	return d
}

func csvReadSection(r *tx.Rng, w *tx.W, size int, opt map[string]string) {
	dupHdr := r.P(1, 6)
	d := genCsvDocH(r, size, !r.P(1, 4), dupHdr)
	big := opt["faults"] == "" && r.P(1, 30)
	bigHint := 0
	if big {
		nrows := r.PickInt([]int{999, 1000, 1001, 2100, 2600})
		bigHint = r.PickInt([]int{2001, 2500, 3000, 1500})
		if bigHint > 2000 && r.Bool() {
			nrows = bigHint + 1 + r.Intn(200) // the hint is an under-estimate: the pre-allocated storage is outgrown
		}
		d = genBigCsvDoc(r, nrows)
	}
	if opt["faults"] == "" && !big && r.P(1, 40) {
		d = genLongRowDoc(r)
	}
	// an enum column derived from the data with a cardinality at the limit (254..257 distinct values)
	enumCard := 0
	if opt["faults"] == "" && !big && r.P(1, 30) {
		enumCard = r.PickInt([]int{254, 255, 256, 257, 300})
		d = csvDoc{delim: ','}
		d.cells = append(d.cells, []string{"e", "n"})
		for i := 0; i < enumCard+3; i++ {
			d.cells = append(d.cells, []string{"v" + strconv.Itoa(i%enumCard), strconv.Itoa(i)})
		}
		for _, row := range d.cells {
			d.doc = append(d.doc, (row[0] + "," + row[1] + "\n")...)
		}
	}
	ncols := 0
	if len(d.cells) > 0 {
		ncols = len(d.cells[0])
	}
	emptyNull := r.Bool()
	ignoreEmpty := r.Bool()
	rename := r.P(1, 3)
	if dupHdr && r.P(2, 3) {
		rename = true
	}
	alias := ""
	if r.P(1, 3) {
		alias = "col"
	}
	hint := r.PickInt([]int{0, 0, 10, 3000})
	if big {
		hint = bigHint
	}
	var headers []string
	if r.P(1, 4) && ncols > 0 && !big {
		for c := 0; c < ncols; c++ {
			headers = append(headers, []string{"h0", "h1", "h2", "h3", "h1", "h10", "h1"}[r.Intn(7)])
		}
		if !rename {
			headers = headers[:0]
			for c := 0; c < ncols; c++ {
				headers = append(headers, "h"+strconv.Itoa(c))
			}
		}
		// supplied headers with a missing name (the alias option applies to them as to names read from the document),
		// also next to the name the alias generates
		if r.P(1, 3) {
			headers[r.Intn(len(headers))] = ""
			if r.P(1, 3) {
				headers[r.Intn(len(headers))] = "col"
			}
			if r.Bool() {
				alias = "col"
			}
		}
	}
	// the effective header names, to be able to declare types for some of them
	var names []string
	if len(headers) > 0 {
		names = headers
	} else if len(d.cells) > 0 {
		names = d.cells[0]
	}
	typs := map[string]string{}
	enums := map[string][]string{}
	enumBias := !big && enumCard == 0 && r.P(1, 4) // some documents: most columns declared enum, runs of equal values around empty cells
	if enumBias && r.P(2, 3) {
		d = csvDoc{delim: ','}
		nc := 1 + r.Intn(3)
		hdr := []string{"p", "q", "r"}[:nc]
		d.cells = append(d.cells, hdr)
		for i, nr := 0, 4+r.Intn(8); i < nr; i++ {
			row := make([]string, nc)
			for c := range row {
				row[c] = []string{"a", "", "a", "b", "", "a"}[r.Intn(6)]
			}
			if nc == 1 && row[0] == "" {
				row[0] = "a" // a bare empty line is a record separator question of its own
			}
			d.cells = append(d.cells, row)
		}
		for _, row := range d.cells {
			d.doc = append(d.doc, strings.Join(row, ",")...)
			d.doc = append(d.doc, '\n')
		}
		ncols = nc
		emptyNull = r.P(3, 4)
		headers = nil
		names = hdr
	}
	for _, n := range names {
		if r.P(1, 4) || enumBias {
			t := []string{"int", "float", "bool", "string", "enum"}[r.Intn(5)]
			if enumBias && r.P(3, 4) {
				t = "enum"
			}
			typs[n] = t
			if t == "enum" && r.P(1, 2) {
				enums[n] = []string{"a", "b", "zz", "ab", ""}
			}
		}
	}
	if r.P(1, 20) {
		enums["nosuch"] = []string{"a"}
	}
	if enumCard > 0 {
		typs = map[string]string{"e": "enum"}
		enums = map[string][]string{}
		headers = nil
		if r.Bool() {
			// the same values declared (255 declared values are the legal maximum, 256 are one too many)
			decl := make([]string, enumCard)
			for i := range decl {
				decl[i] = "v" + strconv.Itoa(i)
			}
			enums["e"] = decl
		}
	}
	cells := map[string]bool{}
	for _, row := range d.cells {
		for _, c := range row {
			cells[c] = true
		}
	}
	emitParseOracle(w, cells)
	sched := genSchedule(r, len(d.doc))
	eofWithData := r.P(1, 3)
	failAt := -1
	fwd := false
	if opt["faults"] != "" {
		failAt = r.Intn(len(d.doc) + 2)
		if len(sched) == 0 {
			failAt = r.Intn(2)
		}
		fwd = r.Bool()
	}
	toks := []string{"CV", tx.Int(int(d.delim)), tx.Bool01(emptyNull), tx.Bool01(ignoreEmpty), tx.Bool01(rename), tx.HexS(alias), tx.Int(hint)}
	toks = append(toks, "H")
	toks = append(toks, nameToks(headers)...)
	tk := make([]string, 0)
	for k := range typs {
		tk = append(tk, k)
	}
	sort.Strings(tk)
	toks = append(toks, "T", tx.Int(len(tk)))
	for _, k := range tk {
		toks = append(toks, tx.HexS(k), typs[k])
	}
	ek := make([]string, 0)
	for k := range enums {
		ek = append(ek, k)
	}
	sort.Strings(ek)
	toks = append(toks, "E", tx.Int(len(ek)))
	for _, k := range ek {
		toks = append(toks, tx.HexS(k), tx.Int(len(enums[k])))
		for _, v := range enums[k] {
			toks = append(toks, tx.HexS(v))
		}
	}
	toks = append(toks, tx.Hex(d.doc), tx.Bool01(eofWithData), tx.Int(failAt), tx.Bool01(fwd))
	toks = append(toks, schedToks(sched)...)
	w.Line(toks...)
	fns := []csv.ConfigFunc{csv.Delimiter(d.delim), csv.EmptyNull(emptyNull), csv.IgnoreEmptyLines(ignoreEmpty),
		csv.RenameDuplicateColumns(rename), csv.MissingColumnNameAlias(alias), csv.RowCountHint(hint)}
	if len(headers) > 0 {
		fns = append(fns, csv.Headers(headers))
	}
	if len(typs) > 0 {
		fns = append(fns, csv.Types(typs))
	}
	if len(enums) > 0 {
		fns = append(fns, csv.EnumValues(enums))
	}
	g := &gen{r: r, w: w, size: size, opt: opt}
	qf, pmsg := safely(func() qframe.QFrame {
		return qframe.ReadCSV(&schedReader{data: d.doc, sched: append([]int(nil), sched...), failAt: failAt, eofWithData: eofWithData, failWithData: fwd}, fns...)
	})
	if pmsg != "" {
		w.Line("R", "0", "P", tx.HexS(pmsg))
		return
	}
	otoks, _, _, _ := g.observeSafely(qf)
	w.Line(append([]string{"R", "0"}, otoks...)...)
}
