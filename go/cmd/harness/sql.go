package main

// SQL: a recording / scripted database/sql driver.
//  hist op "tosql":   W <src> sql <escape rune> <incrementing> <table> <failExec>
//                     WQ <E|ok|P> <k> {<query> <nargs> <arg>*}*
//  section "sqlread": SR <precision> <failRow> C <k> {<name> <coerce 0|1|2>}* N <ncols> <name>* V <nrows> {<value>*}*
//                     then an R line (fid 0).   values: i<int64> f<bits> b0|b1 x<string> y<bytes> n

import (
	"database/sql"
	"database/sql/driver"
	"errors"
	"fmt"
	"io"
	"math"
	"strconv"
	"sync"

	"github.com/tobgu/qframe"
	qsql "github.com/tobgu/qframe/config/sql"

	"verif/internal/tx"
)

func init() { sections["sqlread"] = sqlReadSection }

var errSQL = errors.New("injected driver failure")

type recDriver struct {
	mu       sync.Mutex
	execs    []recExec
	failExec int // fail the k-th Exec (0-based), -1 never
	cols     []string
	rows     [][]driver.Value
	failRow  int // rows.Next fails instead of delivering row k (k == len(rows): instead of EOF), -1 never
	failPrep bool
	// fail the k-th Prepare (0-based), -1 never; prepCount counts the calls, faultHit records that a failure was delivered
	failPrepAt int
	prepCount  int
	faultHit   bool
}

type recExec struct {
	query string
	args  []driver.Value
}

var theDriver = &recDriver{failExec: -1, failRow: -1, failPrepAt: -1}
var registerOnce sync.Once
var theDB *sql.DB

func openDB() *sql.DB {
	registerOnce.Do(func() {
		sql.Register("verifrec", theDriver)
		db, err := sql.Open("verifrec", "")
		if err != nil {
			panic(err)
		}
		theDB = db
	})
	return theDB
}

func (d *recDriver) Open(name string) (driver.Conn, error) { return &recConn{d}, nil }

type recConn struct{ d *recDriver }

func (c *recConn) Prepare(q string) (driver.Stmt, error) {
	if c.d.failPrep {
		return nil, errSQL
	}
	k := c.d.prepCount
	c.d.prepCount++
	if k == c.d.failPrepAt {
		c.d.failPrepAt = -2
		c.d.faultHit = true
		return nil, errSQL
	}
	return &recStmt{c.d, q}, nil
}
func (c *recConn) Close() error              { return nil }
func (c *recConn) Begin() (driver.Tx, error) { return recTx{}, nil }

type recTx struct{}

func (recTx) Commit() error   { return nil }
func (recTx) Rollback() error { return nil }

type recStmt struct {
	d *recDriver
	q string
}

func (s *recStmt) Close() error  { return nil }
func (s *recStmt) NumInput() int { return -1 }
func (s *recStmt) Exec(args []driver.Value) (driver.Result, error) {
	k := len(s.d.execs)
	if k == s.d.failExec {
		s.d.failExec = -2 // fail once; later statements would succeed if the caller carried on
		s.d.faultHit = true
		return nil, errSQL
	}
	s.d.execs = append(s.d.execs, recExec{s.q, append([]driver.Value(nil), args...)})
	return driver.RowsAffected(1), nil
}
func (s *recStmt) Query(args []driver.Value) (driver.Rows, error) {
	return &recRows{d: s.d, buf: make([]byte, 0, 1<<16)}, nil
}

type recRows struct {
	d   *recDriver
	pos int
	buf []byte // read buffer reused for every row, as text-protocol drivers do: []byte values are only valid until the next row
}

func (r *recRows) Columns() []string { return r.d.cols }
func (r *recRows) Close() error      { return nil }
func (r *recRows) Next(dest []driver.Value) error {
	if r.pos == r.d.failRow {
		return errSQL
	}
	if r.pos >= len(r.d.rows) {
		return io.EOF
	}
	copy(dest, r.d.rows[r.pos])
	// overwrite what the previous row delivered, then hand out slices of the same buffer again
	for i := range r.buf {
		r.buf[i] = '#'
	}
	r.buf = r.buf[:0]
	for _, v := range dest {
		if b, ok := v.([]byte); ok {
			r.buf = append(r.buf, b...)
		}
	}
	off := 0
	for i, v := range dest {
		if b, ok := v.([]byte); ok {
			dest[i] = r.buf[off : off+len(b) : off+len(b)]
			off += len(b)
		}
	}
	r.pos++
	return nil
}

func valueTok(v driver.Value) string {
	switch t := v.(type) {
	case nil:
		return "n"
	case int64:
		return "i" + fmt.Sprint(t)
	case float64:
		return tx.CFloat(t)
	case bool:
		return tx.CBool(t)
	case string:
		return tx.HexS(t)
	case []byte:
		return "y" + tx.Hex(t)[1:]
	}
	return "?" + fmt.Sprintf("%T", v)
}

// toSQL is an operation of section hist.
func (g *gen) toSQL(src *hframe) {
	r := g.r
	if frameFacts(src).undef {
		return
	}
	esc := []rune{0, '"', '`'}[r.Intn(3)]
	incr := r.Bool()
	table := r.Pick([]string{"t", "my table", "T1"})
	failExec := -1
	if g.opt["sqlfaults"] != "" && src.n > 0 {
		failExec = r.Intn(src.n)
	}
	g.w.Line("W", tx.Int(src.id), "sql", tx.Int(int(esc)), tx.Bool01(incr), tx.HexS(table), tx.Int(failExec))
	db := openDB()
	theDriver.execs = nil
	theDriver.failExec = failExec
	theDriver.failPrep = false
	theDriver.failPrepAt = -1
	theDriver.prepCount = 0
	theDriver.faultHit = false
	if failExec >= 0 && r.P(1, 3) {
		// the failure comes from preparing the statement instead of executing it (the k-th Prepare on the connection)
		theDriver.failExec = -1
		theDriver.failPrepAt = failExec
	}
	var err error
	pmsg := ""
	func() {
		defer func() {
			if p := recover(); p != nil {
				pmsg = fmt.Sprint(p)
			}
		}()
		t, e := db.Begin()
		if e != nil {
			panic(e)
		}
		fns := []qsql.ConfigFunc{qsql.Table(table)}
		if esc != 0 {
			fns = append(fns, qsql.EscapeChar(esc))
		}
		if incr {
			fns = append(fns, qsql.Incrementing())
		}
		err = src.qf.ToSQL(t, fns...)
		_ = t.Rollback()
	}()
	if failExec >= 0 && !theDriver.faultHit && pmsg == "" {
		// the injected failure was never reached (the call did not prepare/execute that many statements): nothing to demand
		g.w.Line("WN")
	}
	theDriver.failPrepAt = -1
	toks := []string{"WQ", "ok", tx.Int(len(theDriver.execs))}
	if pmsg != "" {
		toks[1] = "P"
	} else if err != nil {
		toks[1] = "E"
	}
	for _, e := range theDriver.execs {
		toks = append(toks, tx.HexS(e.query), tx.Int(len(e.args)))
		for _, a := range e.args {
			toks = append(toks, valueTok(a))
		}
	}
	g.w.Line(toks...)
}

func fixedRef(f float64, p int) float64 {
	i := math.Pow(10, float64(p))
	n := f * i
	return float64(int(n+math.Copysign(0.5, n))) / i
}

func sqlReadSection(r *tx.Rng, w *tx.W, size int, opt map[string]string) {
	ncols := 1 + r.Intn(4)
	nrows := r.PickInt([]int{0, 1, 2, 3, 5, 8})
	names := []string{"a", "b", "c", "d", "e f"}[:ncols]
	kinds := make([]int, ncols) // 0 int 1 float 2 bool 3 string 4 bytes
	nullP := make([]int, ncols)
	coerce := make([]int, ncols)
	for c := range kinds {
		kinds[c] = r.Intn(5)
		if kinds[c] == 1 || kinds[c] >= 3 {
			nullP[c] = r.PickInt([]int{0, 0, 2, 5, 10})
		} else if r.P(1, 15) {
			nullP[c] = 3 // NULL in an int / bool column: must be rejected
		}
		if kinds[c] == 0 && r.P(1, 4) {
			coerce[c] = 1 // Int64ToBool
		}
		if (kinds[c] == 3 || kinds[c] == 4) && r.P(1, 4) {
			coerce[c] = 2 // StringToFloat (the text may be delivered as string or as []byte)
		}
	}
	precision := r.PickInt([]int{0, 0, 2, 3})
	rows := make([][]driver.Value, nrows)
	for i := range rows {
		row := make([]driver.Value, ncols)
		for c := range row {
			if r.Intn(10) < nullP[c] {
				row[c] = nil
				continue
			}
			switch kinds[c] {
			case 0:
				row[c] = int64(r.Intn(7) - 3)
			case 1:
				row[c] = []float64{1.005, 2.5, -1.25, 0.333333, 100, 1e-7, -0.0, 12345.678}[r.Intn(8)]
			case 2:
				row[c] = r.Bool()
			case 3:
				if coerce[c] == 2 {
					row[c] = []string{"1.5", "2", "-0.25", "2.71828", "-10.00499", "0.333333", "1.005", "x"}[r.Intn(8-btoi(r.P(9, 10)))]
				} else {
					row[c] = strAlphabet[r.Intn(len(strAlphabet))]
				}
			case 4:
				if coerce[c] == 2 {
					row[c] = []byte([]string{"1.5", "2", "-0.25", "2.71828", "-10.00499", "0.333333", "1.005", "x"}[r.Intn(8-btoi(r.P(9, 10)))])
				} else {
					row[c] = []byte(strAlphabet[r.Intn(len(strAlphabet))])
				}
			}
		}
		rows[i] = row
	}
	failRow := -1
	if opt["faults"] != "" {
		failRow = r.Intn(nrows + 1)
	}
	// oracle for the precision rounding of the floats that occur
	if precision > 0 {
		for _, row := range rows {
			for c, v := range row {
				if f, ok := v.(float64); ok && kinds[c] == 1 {
					w.Line("XF", tx.CFloat(f), tx.Int(precision), tx.CFloat(fixedRef(f, precision)))
				}
				// the configured precision applies to coerced text values as well
				if coerce[c] == 2 {
					t, isStr := v.(string)
					if b, isBytes := v.([]byte); isBytes {
						t, isStr = string(b), true
					}
					if f, err := strconv.ParseFloat(t, 64); isStr && err == nil {
						w.Line("XF", tx.CFloat(f), tx.Int(precision), tx.CFloat(fixedRef(f, precision)))
					}
				}
			}
		}
	}
	// a coercion that names a column the result set does not have (an invalid argument: it must be reported)
	ghost, ghostKind := "", 0
	if r.P(1, 12) {
		ghost, ghostKind = r.Pick([]string{"nosuch", "A", "ab"}), 1+r.Intn(2)
	}
	nC := ncols
	if ghost != "" {
		nC++
	}
	toks := []string{"SR", tx.Int(precision), tx.Int(failRow), "C", tx.Int(nC)}
	for c := range names {
		toks = append(toks, tx.HexS(names[c]), tx.Int(coerce[c]))
	}
	if ghost != "" {
		toks = append(toks, tx.HexS(ghost), tx.Int(ghostKind))
	}
	toks = append(toks, "N")
	toks = append(toks, nameToks(names)...)
	toks = append(toks, "V", tx.Int(nrows))
	for _, row := range rows {
		for _, v := range row {
			toks = append(toks, valueTok(v))
		}
	}
	w.Line(toks...)
	db := openDB()
	theDriver.cols = names
	theDriver.rows = rows
	theDriver.failRow = failRow
	theDriver.failPrep = false
	g := &gen{r: r, w: w, size: size, opt: opt}
	qf, pmsg := safely(func() qframe.QFrame {
		t, e := db.Begin()
		if e != nil {
			panic(e)
		}
		defer func() { _ = t.Rollback() }()
		fns := []qsql.ConfigFunc{qsql.Query("select")}
		if precision > 0 {
			fns = append(fns, qsql.Precision(precision))
		}
		var pairs []qsql.CoercePair
		for c := range names {
			switch coerce[c] {
			case 1:
				pairs = append(pairs, qsql.CoercePair{Column: names[c], Type: qsql.Int64ToBool})
			case 2:
				pairs = append(pairs, qsql.CoercePair{Column: names[c], Type: qsql.StringToFloat})
			}
		}
		if ghost != "" {
			if ghostKind == 1 {
				pairs = append(pairs, qsql.CoercePair{Column: ghost, Type: qsql.Int64ToBool})
			} else {
				pairs = append(pairs, qsql.CoercePair{Column: ghost, Type: qsql.StringToFloat})
			}
		}
		if len(pairs) > 0 {
			fns = append(fns, qsql.Coerce(pairs...))
		}
		return qframe.ReadSQL(t, fns...)
	})
	if pmsg != "" {
		w.Line("R", "0", "P", tx.HexS(pmsg))
		return
	}
	otoks, _, _, _ := g.observeSafely(qf)
	w.Line(append([]string{"R", "0"}, otoks...)...)
}

func btoi(b bool) int {
	if b {
		return 1
	}
	return 0
}
