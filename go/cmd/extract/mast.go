package main

// Translation go/ast → MT / MB (lean/QF/Core/MExpr.lean) of internal/strings/match.go:
//
//	func NewMatcher(comparatee string, caseSensitive bool) (Matcher, error)   → a decision tree MT
//	func (m *T) Matches(s string) bool                                        → a body MB, carried by the leaves
//
// Method: symbolic execution of the body of NewMatcher. The string parameter is re-assigned on the way, so every string
// local (and the parameter) is bound to a term SE over the ORIGINAL parameter; a bool local is bound to the condition MC
// it was initialised with (over the value the string had at that point). `if c { A } else { B }; rest` becomes
// `ite c [A; rest] [B; rest]` (each branch with its own copy of the bindings). Helpers of the package that only compute a
// string from strings (`trimPercent`) are executed on the symbolic value. A leaf `return &T{…}, nil` carries the
// translated `Matches` method of T and the value of the field it reads.
//
// Everything is by ROLE: parameters by type (string → the pattern / the cell, bool → the case flag), the fields of the
// matcher structs by type (string → the match string, []byte → the scratch buffer, *regexp.Regexp → the compiled
// expression), the matcher types by their Matches method, the package's upper-casing function by its signature
// `func(*[]byte, string) string` (the hash of its body goes to Gen.matcherUpper so that a theorem can tie it to the
// function mirrored in QF/Core/Upper.lean). Fixed vocabulary: the entry point `NewMatcher`, the interface method
// `Matches`, the standard packages `strings` (HasPrefix, HasSuffix, Contains, ToUpper, TrimPrefix, TrimSuffix) and
// `regexp` (QuoteMeta, Compile, MatchString). Whatever is not understood becomes `.opaque "<text>"`; such a term has no
// meaning and the proofs of QF/Props/C18Matcher.lean fail on it.

import (
	"fmt"
	"go/ast"
	"go/token"
	"sort"
	"strconv"
	"strings"
)

// mv is a symbolic value.
type mv struct {
	kind    string // str | cond | buf | re | reerr | nilv
	t       *lt    // str: SE; cond: MC; re / reerr: SE of the source
	checked *bool  // re / reerr: `if err != nil { return nil, … }` was passed (shared between the two results)
}

type mscope struct {
	vars   map[string]*mv
	parent *mscope
}

func (s *mscope) push() *mscope { return &mscope{vars: map[string]*mv{}, parent: s} }

func (s *mscope) get(n string) (*mv, bool) {
	for f := s; f != nil; f = f.parent {
		if v, ok := f.vars[n]; ok {
			return v, true
		}
	}
	return nil, false
}

func (s *mscope) bound(n string) bool { _, ok := s.get(n); return ok }

func (s *mscope) set(n string, v *mv) bool {
	for f := s; f != nil; f = f.parent {
		if _, ok := f.vars[n]; ok {
			f.vars[n] = v
			return true
		}
	}
	return false
}

func (s *mscope) clone() *mscope {
	if s == nil {
		return nil
	}
	r := &mscope{vars: map[string]*mv{}, parent: s.parent.clone()}
	for k, v := range s.vars {
		r.vars[k] = v // values are immutable except `checked`, which is shared on purpose along one path only (see ifStmt)
	}
	return r
}

type mctx struct {
	fns     map[string]*ast.FuncDecl
	types   map[string]ast.Expr
	imports map[string]string
	upper   map[string]bool // package functions used in the role "upper-casing with scratch buffer"
	bodies  map[string]*lt  // matcher type → Matches body
}

func seOpaque(n ast.Node) *lt { return ls("SE.opaque", src(n)) }
func mcOpaque(n ast.Node) *lt { return ls("MC.opaque", src(n)) }
func mtOpaque(n ast.Node) *lt { return ls("MT.opaque", src(n)) }
func mtOpaqueText(s string) *lt {
	return ls("MT.opaque", s)
}

// is e the selector pkg.name of the standard package with import path `path` (the package name not shadowed)?
func (c *mctx) stdSel(e ast.Expr, sc *mscope, path, name string) bool {
	sel, ok := unparen(e).(*ast.SelectorExpr)
	if !ok || sel.Sel.Name != name {
		return false
	}
	id, ok := sel.X.(*ast.Ident)
	if !ok || (sc != nil && sc.bound(id.Name)) {
		return false
	}
	return c.imports[id.Name] == path
}

func sameTerm(a, b *lt) bool { return a != nil && b != nil && a.lean() == b.lean() && !a.hasOpaque() }

// str translates a string expression to SE.
func (c *mctx) str(e ast.Expr, sc *mscope, depth int) *lt {
	e = unparen(e)
	switch t := e.(type) {
	case *ast.Ident:
		if v, ok := sc.get(t.Name); ok && v.kind == "str" {
			return v.t
		}
	case *ast.BasicLit:
		if s, ok := strLit(t); ok {
			return lh("SE.lit", bytesTerm(s))
		}
	case *ast.BinaryExpr:
		if t.Op == token.ADD {
			return lh("SE.cat", c.str(t.X, sc, depth), c.str(t.Y, sc, depth))
		}
	case *ast.SliceExpr:
		if t.Slice3 || t.Max != nil {
			break
		}
		x := c.str(t.X, sc, depth)
		if t.High == nil && t.Low != nil && isIntLit(t.Low, "1") {
			return lh("SE.dropFirst", x)
		}
		if t.Low == nil && t.High != nil {
			// len(x) - 1 for the same x
			if be, ok := unparen(t.High).(*ast.BinaryExpr); ok && be.Op == token.SUB && isIntLit(be.Y, "1") {
				if call, ok := unparen(be.X).(*ast.CallExpr); ok && len(call.Args) == 1 {
					if fn, ok := call.Fun.(*ast.Ident); ok && fn.Name == "len" && !sc.bound("len") && sameTerm(c.str(call.Args[0], sc, depth), x) {
						return lh("SE.dropLast", x)
					}
				}
			}
		}
	case *ast.CallExpr:
		switch {
		case c.stdSel(t.Fun, sc, "strings", "ToUpper") && len(t.Args) == 1:
			return lh("SE.upper", c.str(t.Args[0], sc, depth))
		case (c.stdSel(t.Fun, sc, "strings", "TrimPrefix") || c.stdSel(t.Fun, sc, "strings", "TrimSuffix")) && len(t.Args) == 2:
			if l, ok := strLit(t.Args[1]); ok {
				head := "SE.trimPrefix"
				if c.stdSel(t.Fun, sc, "strings", "TrimSuffix") {
					head = "SE.trimSuffix"
				}
				return lh(head, c.str(t.Args[0], sc, depth), bytesTerm(l))
			}
		default:
			// a helper of the package from strings to a string, executed on the symbolic arguments
			if id, ok := t.Fun.(*ast.Ident); ok && !sc.bound(id.Name) && depth < 4 {
				if fd, ok := c.fns[id.Name]; ok && fd.Recv == nil {
					if r := c.inlineStr(fd, t.Args, sc, depth); r != nil {
						return r
					}
				}
			}
		}
	}
	return seOpaque(e)
}

func fieldTypes(fl *ast.FieldList) (names []string, types []string) {
	if fl == nil {
		return
	}
	for _, f := range fl.List {
		if len(f.Names) == 0 {
			names = append(names, "_")
			types = append(types, src(f.Type))
		}
		for _, n := range f.Names {
			names = append(names, n.Name)
			types = append(types, src(f.Type))
		}
	}
	return
}

// inlineStr executes `func f(a, b string) string { a = …; return e }` (assignments and one final return) on SE arguments.
func (c *mctx) inlineStr(fd *ast.FuncDecl, args []ast.Expr, sc *mscope, depth int) *lt {
	pn, pt := fieldTypes(fd.Type.Params)
	_, rt := fieldTypes(fd.Type.Results)
	if len(rt) != 1 || rt[0] != "string" || len(pn) != len(args) {
		return nil
	}
	inner := (&mscope{vars: map[string]*mv{}})
	for i, n := range pn {
		if pt[i] != "string" {
			return nil
		}
		inner.vars[n] = &mv{kind: "str", t: c.str(args[i], sc, depth)}
	}
	for i, st := range fd.Body.List {
		switch s := st.(type) {
		case *ast.AssignStmt:
			if len(s.Lhs) != 1 || len(s.Rhs) != 1 {
				return nil
			}
			id, ok := s.Lhs[0].(*ast.Ident)
			if !ok {
				return nil
			}
			v := &mv{kind: "str", t: c.str(s.Rhs[0], inner, depth+1)}
			switch s.Tok {
			case token.DEFINE:
				inner.vars[id.Name] = v
			case token.ASSIGN:
				if !inner.set(id.Name, v) {
					return nil
				}
			default:
				return nil
			}
		case *ast.ReturnStmt:
			if i != len(fd.Body.List)-1 || len(s.Results) != 1 {
				return nil
			}
			return c.str(s.Results[0], inner, depth+1)
		default:
			return nil
		}
	}
	return nil
}

func mnot(c *lt) *lt {
	if c.head == "MC.not" {
		return c.args[0]
	}
	return lh("MC.not", c)
}

// cond translates a bool expression to MC.
func (c *mctx) cond(e ast.Expr, sc *mscope) *lt {
	e = unparen(e)
	switch t := e.(type) {
	case *ast.Ident:
		if v, ok := sc.get(t.Name); ok && v.kind == "cond" {
			return v.t
		}
	case *ast.UnaryExpr:
		if t.Op == token.NOT {
			return mnot(c.cond(t.X, sc))
		}
	case *ast.BinaryExpr:
		switch t.Op {
		case token.LAND:
			return lh("MC.and", c.cond(t.X, sc), c.cond(t.Y, sc))
		case token.LOR:
			return lh("MC.or", c.cond(t.X, sc), c.cond(t.Y, sc))
		case token.NEQ, token.EQL:
			// regexp.QuoteMeta(x) != x, either side
			for _, p := range [][2]ast.Expr{{t.X, t.Y}, {t.Y, t.X}} {
				if call, ok := unparen(p[0]).(*ast.CallExpr); ok && len(call.Args) == 1 && c.stdSel(call.Fun, sc, "regexp", "QuoteMeta") {
					x := c.str(call.Args[0], sc, 0)
					if sameTerm(x, c.str(p[1], sc, 0)) {
						r := lh("MC.quoteMetaNe", x)
						if t.Op == token.EQL {
							r = mnot(r)
						}
						return r
					}
				}
			}
		}
	case *ast.CallExpr:
		if len(t.Args) == 2 {
			for _, p := range [][2]string{{"HasPrefix", "MC.hasPrefix"}, {"HasSuffix", "MC.hasSuffix"}} {
				if c.stdSel(t.Fun, sc, "strings", p[0]) {
					if l, ok := strLit(t.Args[1]); ok {
						return lh(p[1], c.str(t.Args[0], sc, 0), bytesTerm(l))
					}
				}
			}
		}
	}
	return mcOpaque(e)
}

// structFields resolves a named type of the package to the fields of its underlying struct: name → role by type.
func (c *mctx) structFields(name string) (order []string, role map[string]string) {
	seen := map[string]bool{}
	var t ast.Expr = &ast.Ident{Name: name}
	for {
		switch x := t.(type) {
		case *ast.Ident:
			if seen[x.Name] {
				return nil, nil
			}
			seen[x.Name] = true
			nt, ok := c.types[x.Name]
			if !ok {
				return nil, nil
			}
			t = nt
			continue
		case *ast.StructType:
			role = map[string]string{}
			n, ty := fieldTypes(x.Fields)
			for i := range n {
				r := "other"
				switch ty[i] {
				case "string":
					r = "ms"
				case "[]byte", "[]uint8":
					r = "buf"
				}
				order = append(order, n[i])
				role[n[i]] = r
			}
			// the compiled regular expression: *<regexp>.Regexp
			for _, f := range x.Fields.List {
				if st, ok := f.Type.(*ast.StarExpr); ok && c.stdSel(st.X, nil, "regexp", "Regexp") {
					for _, nm := range f.Names {
						role[nm.Name] = "re"
					}
				}
			}
			// a role must name one field
			count := map[string]int{}
			for _, r := range role {
				count[r]++
			}
			for r, k := range count {
				if r != "other" && k > 1 {
					return nil, nil
				}
			}
			return order, role
		default:
			return nil, nil
		}
	}
}

// operand of a Matches body
func (c *mctx) operand(e ast.Expr, recv, cell string, role map[string]string) *lt {
	e = unparen(e)
	bad := ls("MO.opaque", src(e))
	switch t := e.(type) {
	case *ast.Ident:
		if t.Name == cell && cell != "_" {
			return lh("MO.cell")
		}
	case *ast.SelectorExpr:
		if isName(t.X, recv) && recv != cell && role[t.Sel.Name] == "ms" {
			return lh("MO.matchString")
		}
	case *ast.CallExpr:
		// f(&m.<[]byte field>, s) for a function of the package with the signature func(*[]byte, string) string
		id, ok := t.Fun.(*ast.Ident)
		if !ok || id.Name == recv || id.Name == cell || len(t.Args) != 2 {
			return bad
		}
		fd, ok := c.fns[id.Name]
		if !ok || fd.Recv != nil {
			return bad
		}
		_, pt := fieldTypes(fd.Type.Params)
		_, rt := fieldTypes(fd.Type.Results)
		if len(pt) != 2 || (pt[0] != "*[]byte" && pt[0] != "*[]uint8") || pt[1] != "string" || len(rt) != 1 || rt[0] != "string" {
			return bad
		}
		u, ok := unparen(t.Args[0]).(*ast.UnaryExpr)
		if !ok || u.Op != token.AND {
			return bad
		}
		sel, ok := unparen(u.X).(*ast.SelectorExpr)
		if !ok || !isName(sel.X, recv) || role[sel.Sel.Name] != "buf" || !isName(t.Args[1], cell) {
			return bad
		}
		c.upper[id.Name] = true
		return lh("MO.upperCell")
	}
	return bad
}

// matchesBody translates `func (m *T) Matches(s string) bool { return e }`.
func (c *mctx) matchesBody(typ string) *lt {
	if b, ok := c.bodies[typ]; ok {
		return b
	}
	res := func(b *lt) *lt { c.bodies[typ] = b; return b }
	fd, ok := c.fns[typ+".Matches"]
	if !ok {
		return res(ls("MB.opaque", "?no Matches method for "+typ))
	}
	bad := res(ls("MB.opaque", src(fd.Body)))
	_, role := c.structFields(typ)
	if role == nil || fd.Recv == nil || len(fd.Recv.List) != 1 || len(fd.Recv.List[0].Names) != 1 {
		return bad
	}
	recv := fd.Recv.List[0].Names[0].Name
	pn, pt := fieldTypes(fd.Type.Params)
	_, rt := fieldTypes(fd.Type.Results)
	if len(pn) != 1 || pt[0] != "string" || len(rt) != 1 || rt[0] != "bool" || len(fd.Body.List) != 1 {
		return bad
	}
	ret, ok := fd.Body.List[0].(*ast.ReturnStmt)
	if !ok || len(ret.Results) != 1 {
		return bad
	}
	cell := pn[0]
	sc := (&mscope{vars: map[string]*mv{recv: {kind: "nilv"}, cell: {kind: "nilv"}}})
	op := func(e ast.Expr) *lt { return c.operand(e, recv, cell, role) }
	switch t := unparen(ret.Results[0]).(type) {
	case *ast.BinaryExpr:
		if t.Op == token.EQL {
			x, y := op(t.X), op(t.Y)
			if x.head == "MO.matchString" && y.head != "MO.matchString" {
				x, y = y, x
			}
			return res(lh("MB.eq", x, y))
		}
	case *ast.CallExpr:
		for _, p := range [][2]string{{"HasPrefix", "MB.hasPrefix"}, {"HasSuffix", "MB.hasSuffix"}, {"Contains", "MB.contains"}} {
			if c.stdSel(t.Fun, sc, "strings", p[0]) && len(t.Args) == 2 {
				return res(lh(p[1], op(t.Args[0]), op(t.Args[1])))
			}
		}
		// m.<re field>.MatchString(x)
		if sel, ok := t.Fun.(*ast.SelectorExpr); ok && sel.Sel.Name == "MatchString" && len(t.Args) == 1 {
			if f, ok := unparen(sel.X).(*ast.SelectorExpr); ok && isName(f.X, recv) && recv != cell && role[f.Sel.Name] == "re" {
				return res(lh("MB.regexpMatch", op(t.Args[0])))
			}
		}
	}
	return bad
}

// leaf translates `return &T{…}, nil`.
func (c *mctx) leaf(ret *ast.ReturnStmt, sc *mscope) *lt {
	bad := mtOpaque(ret)
	if len(ret.Results) != 2 || !isNilIdent(ret.Results[1]) || sc.bound("nil") {
		return bad
	}
	u, ok := unparen(ret.Results[0]).(*ast.UnaryExpr)
	if !ok || u.Op != token.AND {
		return bad
	}
	cl, ok := unparen(u.X).(*ast.CompositeLit)
	if !ok {
		return bad
	}
	tid, ok := cl.Type.(*ast.Ident)
	if !ok || sc.bound(tid.Name) {
		return bad
	}
	order, role := c.structFields(tid.Name)
	if role == nil {
		return bad
	}
	vals := map[string]ast.Expr{} // role → value
	for i, el := range cl.Elts {
		f := ""
		var v ast.Expr
		if kv, ok := el.(*ast.KeyValueExpr); ok {
			id, ok := kv.Key.(*ast.Ident)
			if !ok {
				return bad
			}
			f, v = id.Name, kv.Value
		} else {
			if i >= len(order) {
				return bad
			}
			f, v = order[i], el
		}
		r, ok := role[f]
		if !ok || r == "other" {
			return bad
		}
		if _, dup := vals[r]; dup {
			return bad
		}
		vals[r] = v
	}
	body := c.matchesBody(tid.Name)
	if rv, ok := vals["re"]; ok {
		if len(vals) != 1 {
			return bad
		}
		id, ok := unparen(rv).(*ast.Ident)
		if !ok {
			return bad
		}
		v, ok := sc.get(id.Name)
		if !ok || v.kind != "re" || v.checked == nil || !*v.checked {
			return bad
		}
		return lh("MT.regexp", v.t, body)
	}
	if bv, ok := vals["buf"]; ok {
		// any make([]byte, n): the package's upper-casing is proved for every buffer size
		if !c.isBuf(bv, sc) {
			return bad
		}
	}
	ms := lh("SE.lit", bytesTerm("")) // the zero value of an absent string field
	if mvv, ok := vals["ms"]; ok {
		ms = c.str(mvv, sc, 0)
	}
	return lh("MT.mk", body, ms)
}

func (c *mctx) isBuf(e ast.Expr, sc *mscope) bool {
	e = unparen(e)
	if id, ok := e.(*ast.Ident); ok {
		if v, ok := sc.get(id.Name); ok {
			return v.kind == "buf"
		}
		return id.Name == "nil"
	}
	call, ok := e.(*ast.CallExpr)
	if !ok || len(call.Args) < 2 || len(call.Args) > 3 {
		return false
	}
	fn, ok := call.Fun.(*ast.Ident)
	if !ok || fn.Name != "make" || sc.bound("make") {
		return false
	}
	if t := src(call.Args[0]); t != "[]byte" && t != "[]uint8" {
		return false
	}
	for _, a := range call.Args[1:] {
		if bl, ok := unparen(a).(*ast.BasicLit); !ok || bl.Kind != token.INT {
			return false
		}
	}
	return true
}

// exec translates a statement list followed by the continuation k (nil: the function ends — a path without return).
func (c *mctx) exec(stmts []ast.Stmt, sc *mscope, k func(*mscope) *lt, depth int) *lt {
	if depth > 40 {
		return mtOpaqueText("?too deep")
	}
	if len(stmts) == 0 {
		if k == nil {
			return mtOpaqueText("?no return")
		}
		return k(sc)
	}
	st, rest := stmts[0], stmts[1:]
	next := func(sc *mscope) *lt { return c.exec(rest, sc, k, depth+1) }
	switch s := st.(type) {
	case *ast.ReturnStmt:
		return c.leaf(s, sc)
	case *ast.BlockStmt:
		return c.exec(s.List, sc.push(), func(in *mscope) *lt { return next(in.parent) }, depth+1)
	case *ast.AssignStmt:
		if !c.assign(s, sc) {
			return mtOpaque(s)
		}
		return next(sc)
	case *ast.IfStmt:
		if s.Init != nil {
			return mtOpaque(s)
		}
		// `if err != nil { return nil, <anything> }` for the error of regexp.Compile: part of the regexp leaf
		if be, ok := unparen(s.Cond).(*ast.BinaryExpr); ok && be.Op == token.NEQ && isNilIdent(be.Y) && !sc.bound("nil") && s.Else == nil {
			if id, ok := unparen(be.X).(*ast.Ident); ok {
				if v, ok := sc.get(id.Name); ok && v.kind == "reerr" {
					if len(s.Body.List) == 1 {
						if r, ok := s.Body.List[0].(*ast.ReturnStmt); ok && len(r.Results) == 2 && isNilIdent(r.Results[0]) && !isNilIdent(r.Results[1]) {
							*v.checked = true
							return next(sc)
						}
					}
					return mtOpaque(s)
				}
			}
		}
		cond := c.cond(s.Cond, sc)
		a, b := sc.clone(), sc.clone()
		c.unshare(a)
		c.unshare(b)
		thn := c.exec(s.Body.List, a.push(), func(in *mscope) *lt { return next(in.parent) }, depth+1)
		var els *lt
		switch e := s.Else.(type) {
		case nil:
			els = next(b)
		case *ast.BlockStmt:
			els = c.exec(e.List, b.push(), func(in *mscope) *lt { return next(in.parent) }, depth+1)
		case *ast.IfStmt:
			els = c.exec([]ast.Stmt{e}, b.push(), func(in *mscope) *lt { return next(in.parent) }, depth+1)
		default:
			els = mtOpaque(s)
		}
		return lh("MT.ite", cond, thn, els)
	}
	return mtOpaque(st)
}

// unshare gives the regexp values of a cloned scope their own `checked` flags
func (c *mctx) unshare(sc *mscope) {
	shared := map[*bool]*bool{}
	for f := sc; f != nil; f = f.parent {
		for n, v := range f.vars {
			if v.checked != nil {
				nb, ok := shared[v.checked]
				if !ok {
					b := *v.checked
					nb = &b
					shared[v.checked] = nb
				}
				f.vars[n] = &mv{kind: v.kind, t: v.t, checked: nb}
			}
		}
	}
}

func (c *mctx) assign(s *ast.AssignStmt, sc *mscope) bool {
	if s.Tok != token.DEFINE && s.Tok != token.ASSIGN {
		return false
	}
	put := func(lhs ast.Expr, v *mv) bool {
		id, ok := lhs.(*ast.Ident)
		if !ok {
			return false
		}
		if id.Name == "_" {
			return true
		}
		if s.Tok == token.DEFINE {
			sc.vars[id.Name] = v
			return true
		}
		old, ok := sc.get(id.Name)
		if !ok || old.kind != v.kind {
			return false
		}
		return sc.set(id.Name, v)
	}
	// r, err := regexp.Compile(x)
	if len(s.Lhs) == 2 && len(s.Rhs) == 1 {
		call, ok := unparen(s.Rhs[0]).(*ast.CallExpr)
		if !ok || len(call.Args) != 1 || !c.stdSel(call.Fun, sc, "regexp", "Compile") || s.Tok != token.DEFINE {
			return false
		}
		x := c.str(call.Args[0], sc, 0)
		ch := false
		return put(s.Lhs[0], &mv{kind: "re", t: x, checked: &ch}) && put(s.Lhs[1], &mv{kind: "reerr", t: x, checked: &ch})
	}
	if len(s.Lhs) != 1 || len(s.Rhs) != 1 {
		return false
	}
	if c.isBuf(s.Rhs[0], sc) {
		if _, isCall := unparen(s.Rhs[0]).(*ast.CallExpr); isCall {
			return put(s.Lhs[0], &mv{kind: "buf"})
		}
	}
	// a string or a bool? decided by the variable assigned to, else by the shape of the right-hand side
	kind := ""
	if id, ok := s.Lhs[0].(*ast.Ident); ok && s.Tok == token.ASSIGN {
		if old, ok := sc.get(id.Name); ok {
			kind = old.kind
		}
	}
	if kind == "" {
		if t := c.cond(s.Rhs[0], sc); !strings.HasPrefix(t.head, "MC.opaque") {
			kind = "cond"
		} else {
			kind = "str"
		}
	}
	switch kind {
	case "cond":
		return put(s.Lhs[0], &mv{kind: "cond", t: c.cond(s.Rhs[0], sc)})
	case "str":
		return put(s.Lhs[0], &mv{kind: "str", t: c.str(s.Rhs[0], sc, 0)})
	}
	return false
}

func typeDecls(files map[string]*ast.File) map[string]ast.Expr {
	res := map[string]ast.Expr{}
	for _, f := range files {
		for _, d := range f.Decls {
			gd, ok := d.(*ast.GenDecl)
			if !ok || gd.Tok != token.TYPE {
				continue
			}
			for _, sp := range gd.Specs {
				if ts, ok := sp.(*ast.TypeSpec); ok {
					res[ts.Name.Name] = ts.Type
				}
			}
		}
	}
	return res
}

func matcherLean(strFiles map[string]*ast.File) string {
	c := &mctx{fns: funcDecls(strFiles), types: typeDecls(strFiles), imports: importsOf(strFiles), upper: map[string]bool{}, bodies: map[string]*lt{}}
	tree := mtOpaqueText("?missing")
	if fd, ok := c.fns["NewMatcher"]; ok && fd.Recv == nil {
		pn, pt := fieldTypes(fd.Type.Params)
		_, rt := fieldTypes(fd.Type.Results)
		if len(pn) == 2 && pt[0] == "string" && pt[1] == "bool" && len(rt) == 2 && rt[1] == "error" {
			sc := &mscope{vars: map[string]*mv{
				pn[0]: {kind: "str", t: lh("SE.param")},
				pn[1]: {kind: "cond", t: lh("MC.caseSensitive")},
			}}
			tree = c.exec(fd.Body.List, sc, nil, 0)
		} else {
			tree = mtOpaqueText("?signature " + src(fd.Type))
		}
	}
	var b strings.Builder
	b.WriteString("/- GENERATED on every run by /verif/go/cmd/extract from /repo's source (tie T1). Do not edit. -/\nimport QF.Core.MExpr\nnamespace QF.Gen\n\n")
	b.WriteString("/-- `NewMatcher` of internal/strings translated to the decision tree `QF.MT`, by role; the leaves carry the `Matches` method of the matcher they return -/\n")
	b.WriteString("def newMatcher : MT :=\n  " + tree.lean() + "\n\n")
	names := make([]string, 0, len(c.bodies))
	for n := range c.bodies {
		names = append(names, n)
	}
	sort.Strings(names)
	items := make([]string, len(names))
	for i, n := range names {
		items[i] = fmt.Sprintf("  (%s, %s)", leanStr(n), c.bodies[n].lean())
	}
	b.WriteString("/-- for the reader: the `Matches` methods of the matcher types returned, (type, body) -/\ndef matchesAst : List (String × MB) := [\n" + strings.Join(items, ",\n") + "]\n\n")
	ups := make([]string, 0, len(c.upper))
	for n := range c.upper {
		ups = append(ups, n)
	}
	sort.Strings(ups)
	hs := make([]string, len(ups))
	for i, n := range ups {
		hs[i] = strconv.FormatUint(fnv64(bodyOf(c.fns, n)), 10)
	}
	b.WriteString("/-- FNV-1a hashes of the bodies of the package functions `func(*[]byte, string) string` that the `Matches` methods call on (&buffer, cell) -/\ndef matcherUpper : List Nat := [" + strings.Join(hs, ", ") + "]\n\nend QF.Gen\n")
	return b.String()
}
