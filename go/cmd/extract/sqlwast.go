package main

// Translation go/ast → SqB / SqAB / SqCN / SqT (lean/QF/Core/SqExpr.lean) of the WRITE SIDE OF SQL:
//
//	func escape(s string, char rune, buf *bytes.Buffer)                       (internal/io/sql)  → SqB
//	func Insert(colNames []string, conf SQLConfig) string                     (internal/io/sql)  → SqB
//	func NewArgBuilder(col column.Column) (ArgBuilder, error)                 (internal/io/sql)  → SqAB per column package
//	func (qf QFrame) ColumnNames() []string                                   (qframe.go)        → SqCN
//	func (qf QFrame) ColumnTypes() []types.DataType                           (qframe.go)        → SqCT
//	func (qf QFrame) ToSQL(tx *sql.Tx, confFuncs ...qsql.ConfigFunc) error    (qframe.go)        → SqT
//
// Everything is found by ROLE, never by identifier name. In `Insert` the `[]string` parameter is the names, the parameter
// of a struct type of the package with the fields `Table string`, `EscapeChar rune`, `Incrementing bool` the configuration;
// the local made by `bytes.NewBuffer(nil)` is the buffer; key and value of a `range` over the names are the position and
// the element. The escaping helper is the function of the package that `Insert` calls with (string, rune, buffer): its
// parameters get their roles from their TYPES (`string`, `rune`, `*bytes.Buffer`). In `NewArgBuilder` the parameter is the
// column, the variable bound by the type switch the asserted column, the parameters of the returned closure the index and
// the position (in this order). In `ToSQL` the receiver is the frame (fields by type, gast.go), the first parameter the
// transaction, the second one the configuration functions; locals get their role from their declaration.
//
// Fixed vocabulary: the functions `Insert`, `NewArgBuilder`, the type `ArgBuilder` and the conversion `SQLConfig` of
// internal/io/sql, `NewConfig` of config/sql, the methods `ColumnNames`, `Exec`, `View`, `ItemAt`, `WriteString`,
// `WriteRune`, `WriteByte`, `String`; `bytes.NewBuffer`, `fmt.Sprintf` with the format "$%d"; the error constructors
// `qerrors.New` / `qerrors.Propagate` / `errors.New` / `fmt.Errorf` (they return non-nil errors); packages are recognised by
// their import PATH, whatever they are called locally. Whatever is not understood becomes `.opaque "<text>"`; such a program
// has no semantics in the model and the proofs of QF/Props/C19SqlWriteGen.lean fail on it.

import (
	"fmt"
	"go/ast"
	"go/token"
	"path/filepath"
	"strconv"
	"strings"
)

// qscope: what a Go name stands for. Insert / escape: conf | names | buf | pos | elem | sparam | rparam;
// NewArgBuilder: col | acol | ix | i.
type qscope map[string]string

func (s qscope) clone() qscope {
	r := qscope{}
	for k, v := range s {
		r[k] = v
	}
	return r
}

func (s qscope) has(kind string) bool {
	for _, v := range s {
		if v == kind {
			return true
		}
	}
	return false
}

func (s qscope) kindOf(e ast.Expr) string {
	if id, ok := unparen(e).(*ast.Ident); ok {
		return s[id.Name]
	}
	return ""
}

// sqwctx is the package internal/io/sql.
type sqwctx struct {
	files   map[string]*ast.File
	fns     map[string]*ast.FuncDecl
	imports map[string]string
	helper  string // the name of the escaping helper `Insert` calls ("" until one is seen)
}

func (c *sqwctx) isPkg(sc qscope, e ast.Expr, path string) bool {
	id, ok := unparen(e).(*ast.Ident)
	if !ok {
		return false
	}
	if _, bound := sc[id.Name]; bound {
		return false
	}
	p, ok := c.imports[id.Name]
	if !ok {
		return false
	}
	if strings.HasPrefix(path, "/") {
		return strings.HasSuffix(p, path)
	}
	return p == path
}

func qUnbound(sc qscope, e ast.Expr, name string) bool {
	id, ok := unparen(e).(*ast.Ident)
	if !ok || id.Name != name {
		return false
	}
	_, b := sc[name]
	return !b
}

// `*bytes.Buffer`
func (c *sqwctx) isBufferPtrType(e ast.Expr) bool {
	st, ok := e.(*ast.StarExpr)
	if !ok {
		return false
	}
	sel, ok := st.X.(*ast.SelectorExpr)
	return ok && sel.Sel.Name == "Buffer" && c.isPkg(qscope{}, sel.X, "bytes")
}

// the fields of `type <name> struct` of the package: field → type text
func (c *sqwctx) structFields(name string) map[string]string {
	for _, f := range c.files {
		for _, d := range f.Decls {
			gd, ok := d.(*ast.GenDecl)
			if !ok || gd.Tok != token.TYPE {
				continue
			}
			for _, sp := range gd.Specs {
				ts := sp.(*ast.TypeSpec)
				st, ok := ts.Type.(*ast.StructType)
				if !ok || ts.Name.Name != name {
					continue
				}
				res := map[string]string{}
				for _, fl := range st.Fields.List {
					for _, n := range fl.Names {
						res[n.Name] = src(fl.Type)
					}
				}
				return res
			}
		}
	}
	return nil
}

func natTerm(n int) *lt { return lh(strconv.Itoa(n)) }

// a small non-negative integer literal
func smallNat(e ast.Expr) (int, bool) {
	bl, ok := unparen(e).(*ast.BasicLit)
	if !ok || bl.Kind != token.INT {
		return 0, false
	}
	v, err := strconv.ParseUint(bl.Value, 0, 16)
	return int(v), err == nil
}

// `i+K` / `K+i` / `i` for the position of the loop over the names: K
func qPosPlus(sc qscope, e ast.Expr) (int, bool) {
	e = unparen(e)
	if sc.kindOf(e) == "pos" {
		return 0, true
	}
	be, ok := e.(*ast.BinaryExpr)
	if !ok || be.Op != token.ADD {
		return 0, false
	}
	if k, ok := smallNat(be.Y); ok && sc.kindOf(be.X) == "pos" {
		return k, true
	}
	if k, ok := smallNat(be.X); ok && sc.kindOf(be.Y) == "pos" {
		return k, true
	}
	return 0, false
}

func qLenNames(sc qscope, e ast.Expr) bool {
	call, ok := unparen(e).(*ast.CallExpr)
	return ok && len(call.Args) == 1 && !call.Ellipsis.IsValid() && qUnbound(sc, call.Fun, "len") && sc.kindOf(call.Args[0]) == "names"
}

func (c *sqwctx) qRune(sc qscope, e ast.Expr) *lt {
	e = unparen(e)
	if sc.kindOf(e) == "rparam" {
		return lh("SqRune.charParam")
	}
	if sel, ok := e.(*ast.SelectorExpr); ok && sel.Sel.Name == "EscapeChar" && sc.kindOf(sel.X) == "conf" {
		return lh("SqRune.confEscape")
	}
	if bl, ok := e.(*ast.BasicLit); ok {
		switch bl.Kind {
		case token.CHAR:
			if v, _, _, err := strconv.UnquoteChar(strings.TrimSuffix(strings.TrimPrefix(bl.Value, "'"), "'"), '\''); err == nil && v >= 0 {
				return lh("SqRune.lit", natTerm(int(v)))
			}
		case token.INT:
			if v, ok := smallNat(e); ok {
				return lh("SqRune.lit", natTerm(v))
			}
		}
	}
	return ls("SqRune.opaque", src(e))
}

func (c *sqwctx) qSrc(sc qscope, e ast.Expr) *lt {
	e = unparen(e)
	if s, ok := strLit(e); ok {
		return lh("SqSrc.lit", bytesTerm(s))
	}
	switch sc.kindOf(e) {
	case "elem":
		return lh("SqSrc.name")
	case "sparam":
		return lh("SqSrc.strParam")
	}
	switch t := e.(type) {
	case *ast.SelectorExpr:
		if t.Sel.Name == "Table" && sc.kindOf(t.X) == "conf" {
			return lh("SqSrc.table")
		}
	case *ast.IndexExpr:
		if sc.kindOf(t.X) == "names" && sc.kindOf(t.Index) == "pos" {
			return lh("SqSrc.name")
		}
	case *ast.CallExpr:
		// fmt.Sprintf("$%d", i+K)
		if sel, ok := t.Fun.(*ast.SelectorExpr); ok && sel.Sel.Name == "Sprintf" && c.isPkg(sc, sel.X, "fmt") && len(t.Args) == 2 && !t.Ellipsis.IsValid() {
			if f, ok := strLit(t.Args[0]); ok && f == "$%d" {
				if k, ok := qPosPlus(sc, t.Args[1]); ok {
					return lh("SqSrc.dollar", natTerm(k))
				}
			}
		}
	}
	return ls("SqSrc.opaque", src(e))
}

// `<buf>.<method>(args…)` as an expression statement: the method and its arguments
func qBufCall(sc qscope, st ast.Stmt) (string, []ast.Expr, bool) {
	es, ok := st.(*ast.ExprStmt)
	if !ok {
		return "", nil, false
	}
	call, ok := unparen(es.X).(*ast.CallExpr)
	if !ok || call.Ellipsis.IsValid() {
		return "", nil, false
	}
	sel, ok := call.Fun.(*ast.SelectorExpr)
	if !ok || sc.kindOf(sel.X) != "buf" {
		return "", nil, false
	}
	return sel.Sel.Name, call.Args, true
}

// is `name` a function of the package with the signature (string, rune, *bytes.Buffer) and no results?
func (c *sqwctx) isEscapeHelper(name string) bool {
	fd, ok := c.fns[name]
	if !ok || fd.Recv != nil || fd.Type.Results != nil && len(fd.Type.Results.List) > 0 {
		return false
	}
	ps := fd.Type.Params
	if ps == nil {
		return false
	}
	var types []ast.Expr
	for _, p := range ps.List {
		n := len(p.Names)
		if n == 0 {
			n = 1
		}
		for i := 0; i < n; i++ {
			types = append(types, p.Type)
		}
	}
	if len(types) != 3 {
		return false
	}
	t1 := src(types[1])
	return src(types[0]) == "string" && (t1 == "rune" || t1 == "int32") && c.isBufferPtrType(types[2])
}

func qop(stmts []ast.Stmt) *lt { return ls("SqB.opaque", stmtsText(stmts)) }

// qBlock translates a statement list of `Insert` (mode "insert": the top level must end in `return buf.String()`) or of
// the escaping helper (mode "escape": a function without results).
func (c *sqwctx) qBlock(stmts []ast.Stmt, sc qscope, mode string, top bool, depth int) *lt {
	if len(stmts) == 0 {
		if top && mode == "insert" {
			return ls("SqB.opaque", "no return")
		}
		return lh("SqB.done")
	}
	if depth > 80 {
		return qop(stmts)
	}
	rest := stmts[1:]
	next := func(sc qscope) *lt { return c.qBlock(rest, sc, mode, top, depth+1) }
	block := func(b []ast.Stmt, sc qscope) *lt { return c.qBlock(b, sc.clone(), mode, false, depth+1) }
	switch s := stmts[0].(type) {
	case *ast.AssignStmt:
		// buf := bytes.NewBuffer(nil)
		if s.Tok != token.DEFINE || len(s.Lhs) != 1 || len(s.Rhs) != 1 || mode != "insert" || sc.has("buf") {
			break
		}
		id, ok := s.Lhs[0].(*ast.Ident)
		if !ok || id.Name == "_" {
			break
		}
		if _, bound := sc[id.Name]; bound {
			break
		}
		call, ok := unparen(s.Rhs[0]).(*ast.CallExpr)
		if !ok || len(call.Args) != 1 || call.Ellipsis.IsValid() || !isNilIdent(call.Args[0]) || qUnbound(sc, call.Args[0], "nil") == false {
			break
		}
		sel, ok := call.Fun.(*ast.SelectorExpr)
		if !ok || sel.Sel.Name != "NewBuffer" || !c.isPkg(sc, sel.X, "bytes") {
			break
		}
		inner := sc.clone()
		inner[id.Name] = "buf"
		return lh("SqB.newBuf", next(inner))
	case *ast.ExprStmt:
		if m, args, ok := qBufCall(sc, s); ok {
			switch {
			case m == "WriteString" && len(args) == 1:
				return lh("SqB.writeStr", c.qSrc(sc, args[0]), next(sc))
			case m == "WriteRune" && len(args) == 1:
				return lh("SqB.writeRune", c.qRune(sc, args[0]), next(sc))
			case m == "WriteByte" && len(args) == 1:
				if b, ok := wByte(wscope{}, args[0]); ok && b < 0x80 {
					return lh("SqB.writeStr", lh("SqSrc.lit", bytesTerm(string([]byte{b}))), next(sc))
				}
			}
			break
		}
		// helper(s, r, buf)
		call, ok := unparen(s.X).(*ast.CallExpr)
		if !ok || len(call.Args) != 3 || call.Ellipsis.IsValid() || mode != "insert" {
			break
		}
		fn, ok := unparen(call.Fun).(*ast.Ident)
		if !ok {
			break
		}
		if _, bound := sc[fn.Name]; bound || !c.isEscapeHelper(fn.Name) || sc.kindOf(call.Args[2]) != "buf" {
			break
		}
		if c.helper != "" && c.helper != fn.Name {
			break
		}
		c.helper = fn.Name
		return lh("SqB.callEscape", c.qSrc(sc, call.Args[0]), c.qRune(sc, call.Args[1]), next(sc))
	case *ast.RangeStmt:
		if sc.kindOf(s.X) != "names" || (s.Tok != token.DEFINE && !(s.Key == nil && s.Value == nil)) {
			break
		}
		inner := sc.clone()
		ok := true
		bind := func(e ast.Expr, kind string) {
			if e == nil {
				return
			}
			id, isID := e.(*ast.Ident)
			if !isID {
				ok = false
				return
			}
			if id.Name != "_" {
				inner[id.Name] = kind
			}
		}
		// the names of an enclosing loop over the names no longer stand for the current position
		for k, v := range inner {
			if v == "pos" || v == "elem" {
				delete(inner, k)
			}
		}
		bind(s.Key, "pos")
		bind(s.Value, "elem")
		if !ok {
			break
		}
		return lh("SqB.forNames", c.qBlock(s.Body.List, inner, mode, false, depth+1), next(sc))
	case *ast.IfStmt:
		if s.Init != nil {
			break
		}
		cond := unparen(s.Cond)
		neg := false
		if u, ok := cond.(*ast.UnaryExpr); ok && u.Op == token.NOT {
			cond, neg = unparen(u.X), true
		}
		// if conf.Incrementing { … } else { … }
		if sel, ok := cond.(*ast.SelectorExpr); ok && sel.Sel.Name == "Incrementing" && sc.kindOf(sel.X) == "conf" {
			then := block(s.Body.List, sc)
			els := lh("SqB.done")
			switch e := s.Else.(type) {
			case nil:
			case *ast.BlockStmt:
				els = block(e.List, sc)
			default:
				els = block([]ast.Stmt{e}, sc)
			}
			if neg {
				then, els = els, then
			}
			return lh("SqB.ifIncr", then, els, next(sc))
		}
		be, ok := cond.(*ast.BinaryExpr)
		if !ok || neg || s.Else != nil {
			break
		}
		switch be.Op {
		case token.EQL:
			// if r == 0 { … }
			x, y := be.X, be.Y
			if isIntLitVal(x, "0") {
				x, y = y, x
			}
			if isIntLitVal(y, "0") {
				if r := c.qRune(sc, x); r.head != "SqRune.opaque" && r.head != "SqRune.lit" {
					return lh("SqB.ifRuneZero", r, block(s.Body.List, sc), next(sc))
				}
			}
		case token.LSS, token.GTR:
			// if i+K < len(names) { … }
			x, y := be.X, be.Y
			if be.Op == token.GTR {
				x, y = y, x
			}
			if k, ok := qPosPlus(sc, x); ok && qLenNames(sc, y) {
				return lh("SqB.ifBefore", natTerm(k), block(s.Body.List, sc), next(sc))
			}
		}
	case *ast.ReturnStmt:
		switch {
		case mode == "escape" && len(s.Results) == 0:
			return lh("SqB.ret")
		case mode == "insert" && len(s.Results) == 1:
			if call, ok := unparen(s.Results[0]).(*ast.CallExpr); ok && len(call.Args) == 0 {
				if sel, ok := call.Fun.(*ast.SelectorExpr); ok && sel.Sel.Name == "String" && sc.kindOf(sel.X) == "buf" {
					return lh("SqB.retString")
				}
			}
		}
	case *ast.BlockStmt:
		return c.qBlock(append(append([]ast.Stmt{}, s.List...), rest...), sc.clone(), mode, top, depth+1)
	}
	return qop(stmts)
}

// the parameters of a function declaration with their types, flattened
func qParams(fd *ast.FuncDecl) (names []string, types []ast.Expr) {
	if fd.Type.Params == nil {
		return
	}
	for _, p := range fd.Type.Params.List {
		if len(p.Names) == 0 {
			names = append(names, "_")
			types = append(types, p.Type)
		}
		for _, n := range p.Names {
			names = append(names, n.Name)
			types = append(types, p.Type)
		}
	}
	return
}

func (c *sqwctx) insertAst() *lt {
	fd, ok := c.fns["Insert"]
	if !ok {
		return ls("SqB.opaque", "?missing")
	}
	names, types := qParams(fd)
	res := fd.Type.Results
	if fd.Recv != nil || len(names) != 2 || res == nil || len(res.List) != 1 || len(res.List[0].Names) > 1 || src(res.List[0].Type) != "string" {
		return ls("SqB.opaque", "signature")
	}
	sc := qscope{}
	for i, n := range names {
		kind := ""
		if src(types[i]) == "[]string" {
			kind = "names"
		} else if id, ok := types[i].(*ast.Ident); ok {
			if f := c.structFields(id.Name); f != nil && f["Table"] == "string" && (f["EscapeChar"] == "rune" || f["EscapeChar"] == "int32") && f["Incrementing"] == "bool" {
				kind = "conf"
			}
		}
		if kind == "" || sc.has(kind) || n == "_" {
			return ls("SqB.opaque", "signature")
		}
		sc[n] = kind
	}
	if len(sc) != 2 {
		return ls("SqB.opaque", "signature")
	}
	return c.qBlock(fd.Body.List, sc, "insert", true, 0)
}

func (c *sqwctx) escapeAst() *lt {
	if c.helper == "" {
		return ls("SqB.opaque", "?no helper called")
	}
	fd := c.fns[c.helper]
	names, types := qParams(fd)
	sc := qscope{}
	for i, n := range names {
		if n == "_" {
			continue
		}
		if _, dup := sc[n]; dup {
			return ls("SqB.opaque", "signature")
		}
		switch {
		case c.isBufferPtrType(types[i]):
			sc[n] = "buf"
		case src(types[i]) == "string":
			sc[n] = "sparam"
		default:
			sc[n] = "rparam"
		}
	}
	return c.qBlock(fd.Body.List, sc, "escape", true, 0)
}

// a non-nil error built on the spot
func (c *sqwctx) isNewError(sc qscope, e ast.Expr) bool {
	call, ok := unparen(e).(*ast.CallExpr)
	if !ok {
		return false
	}
	sel, ok := call.Fun.(*ast.SelectorExpr)
	if !ok {
		return false
	}
	switch {
	case c.isPkg(sc, sel.X, "/qerrors"):
		return sel.Sel.Name == "New" || sel.Sel.Name == "Propagate"
	case c.isPkg(sc, sel.X, "errors"):
		return sel.Sel.Name == "New"
	case c.isPkg(sc, sel.X, "fmt"):
		return sel.Sel.Name == "Errorf"
	}
	return false
}

// the body of a clause of the type switch / the statements after it: a single `return`
func (c *sqwctx) abBody(stmts []ast.Stmt, sc qscope) *lt {
	bad := func() *lt { return ls("SqAB.opaque", stmtsText(stmts)) }
	if len(stmts) != 1 {
		return bad()
	}
	ret, ok := stmts[0].(*ast.ReturnStmt)
	if !ok || len(ret.Results) != 2 {
		return bad()
	}
	if isNilIdent(ret.Results[0]) && qUnbound(sc, ret.Results[0], "nil") && c.isNewError(sc, ret.Results[1]) {
		return lh("SqAB.retErr")
	}
	fl, ok := unparen(ret.Results[0]).(*ast.FuncLit)
	if !ok || !isNilIdent(ret.Results[1]) || !qUnbound(sc, ret.Results[1], "nil") {
		return bad()
	}
	var pnames []string
	for _, p := range fl.Type.Params.List {
		for _, n := range p.Names {
			pnames = append(pnames, n.Name)
		}
		if len(p.Names) == 0 {
			pnames = append(pnames, "_")
		}
	}
	if len(pnames) != 2 || pnames[0] == "_" || pnames[1] == "_" || pnames[0] == pnames[1] || fl.Type.Results == nil || len(fl.Type.Results.List) != 1 {
		return bad()
	}
	inner := sc.clone()
	inner[pnames[0]] = "ix"
	inner[pnames[1]] = "i"
	if len(fl.Body.List) != 1 {
		return lh("SqAB.retBuilder", ls("SqItem.opaque", stmtsText(fl.Body.List)))
	}
	r, ok := fl.Body.List[0].(*ast.ReturnStmt)
	if !ok || len(r.Results) != 1 {
		return lh("SqAB.retBuilder", ls("SqItem.opaque", stmtsText(fl.Body.List)))
	}
	// c.View(ix).ItemAt(i)
	item := ls("SqItem.opaque", src(r.Results[0]))
	if call, ok := unparen(r.Results[0]).(*ast.CallExpr); ok && len(call.Args) == 1 && !call.Ellipsis.IsValid() && inner.kindOf(call.Args[0]) == "i" {
		if sel, ok := call.Fun.(*ast.SelectorExpr); ok && sel.Sel.Name == "ItemAt" {
			if vc, ok := unparen(sel.X).(*ast.CallExpr); ok && len(vc.Args) == 1 && !vc.Ellipsis.IsValid() && inner.kindOf(vc.Args[0]) == "ix" {
				if vs, ok := vc.Fun.(*ast.SelectorExpr); ok && vs.Sel.Name == "View" && inner.kindOf(vs.X) == "acol" {
					item = lh("SqItem.viewItemAt")
				}
			}
		}
	}
	return lh("SqAB.retBuilder", item)
}

// NewArgBuilder: the clauses of the type switch by column package, and what follows the switch
func (c *sqwctx) argBuilder() (clauses []string, dflt *lt) {
	fd, ok := c.fns["NewArgBuilder"]
	if !ok {
		return nil, ls("SqAB.opaque", "?missing")
	}
	names, _ := qParams(fd)
	res := fd.Type.Results
	if fd.Recv != nil || len(names) != 1 || names[0] == "_" || res == nil || len(flatTypes(res)) != 2 || flatTypes(res)[1] != "error" {
		return nil, ls("SqAB.opaque", "signature")
	}
	for _, r := range res.List {
		if len(r.Names) > 0 {
			return nil, ls("SqAB.opaque", "named results")
		}
	}
	sc := qscope{names[0]: "col"}
	body := fd.Body.List
	if len(body) < 1 {
		return nil, ls("SqAB.opaque", "empty")
	}
	ts, ok := body[0].(*ast.TypeSwitchStmt)
	if !ok || ts.Init != nil {
		return nil, ls("SqAB.opaque", stmtsText(body))
	}
	// switch c := col.(type)
	bound := ""
	var subject ast.Expr
	switch a := ts.Assign.(type) {
	case *ast.AssignStmt:
		if a.Tok == token.DEFINE && len(a.Lhs) == 1 && len(a.Rhs) == 1 {
			if id, ok := a.Lhs[0].(*ast.Ident); ok {
				bound = id.Name
			}
			subject = a.Rhs[0]
		}
	case *ast.ExprStmt:
		subject = a.X
	}
	ta, ok := unparen(subject).(*ast.TypeAssertExpr)
	if subject == nil || !ok || ta.Type != nil || sc.kindOf(ta.X) != "col" {
		return nil, ls("SqAB.opaque", stmtsText(body))
	}
	dflt = nil
	seen := map[string]bool{}
	byPkg := map[string]string{}
	for _, cl := range ts.Body.List {
		cc := cl.(*ast.CaseClause)
		if cc.List == nil {
			dflt = c.abBody(cc.Body, sc.clone())
			continue
		}
		if len(cc.List) != 1 {
			return nil, ls("SqAB.opaque", src(cc))
		}
		sel, ok := cc.List[0].(*ast.SelectorExpr)
		if !ok || sel.Sel.Name != "Column" {
			return nil, ls("SqAB.opaque", src(cc))
		}
		pkg := ""
		for _, p := range []string{"icolumn", "fcolumn", "bcolumn", "scolumn", "ecolumn"} {
			if c.isPkg(sc, sel.X, "/internal/"+p) {
				pkg = p
			}
		}
		if pkg == "" || seen[pkg] {
			return nil, ls("SqAB.opaque", src(cc))
		}
		seen[pkg] = true
		inner := sc.clone()
		if bound != "" && bound != "_" {
			inner[bound] = "acol"
		}
		byPkg[pkg] = fmt.Sprintf("(%s, %s)", leanStr(pkg), c.abBody(cc.Body, inner).lean())
	}
	// the clauses of a type switch on distinct types exclude each other: their order in the source does not matter
	for _, p := range []string{"icolumn", "fcolumn", "bcolumn", "scolumn", "ecolumn"} {
		if t, ok := byPkg[p]; ok {
			clauses = append(clauses, t)
		}
	}
	after := body[1:]
	switch {
	case dflt != nil && len(after) == 0:
	case dflt == nil && len(after) > 0:
		dflt = c.abBody(after, sc.clone())
	default:
		dflt = ls("SqAB.opaque", stmtsText(after))
	}
	return clauses, dflt
}

// ---------------------------------------------------------------------------------------------------------------------
// ColumnNames and ToSQL (root package; wctx of wast.go)

func cnop(stmts []ast.Stmt) *lt { return ls("SqCN.opaque", stmtsText(stmts)) }

func (c *wctx) cnBlock(stmts []ast.Stmt, sc wscope, top bool, depth int) *lt {
	if len(stmts) == 0 {
		if top {
			return ls("SqCN.opaque", "no return")
		}
		return lh("SqCN.done")
	}
	if depth > 40 {
		return cnop(stmts)
	}
	rest := stmts[1:]
	next := func(sc wscope) *lt { return c.cnBlock(rest, sc, top, depth+1) }
	switch s := stmts[0].(type) {
	case *ast.AssignStmt:
		if len(s.Lhs) != 1 || len(s.Rhs) != 1 {
			break
		}
		// result := make([]string, len(recv.columns))
		if id, ok := s.Lhs[0].(*ast.Ident); ok && s.Tok == token.DEFINE && id.Name != "_" && !sc.has("res") {
			if _, bound := sc[id.Name]; bound {
				break
			}
			if args, ok := makeArgs(sc, s.Rhs[0], "[]string"); ok && len(args) == 1 && c.lenOf(sc, args[0], c.isCols(sc)) {
				inner := sc.clone()
				inner[id.Name] = wsym{kind: "res"}
				return lh("SqCN.alloc", next(inner))
			}
			break
		}
		// result[i] = <column>.name
		if ix, ok := s.Lhs[0].(*ast.IndexExpr); ok && s.Tok == token.ASSIGN && c.kindOf(sc, ix.X) == "res" && c.kindOf(sc, ix.Index) == "colpos" {
			if nm, ok := unparen(s.Rhs[0]).(*ast.SelectorExpr); ok && c.nameField != "" && nm.Sel.Name == c.nameField && c.isCol(sc, nm.X, "col") {
				return lh("SqCN.setName", next(sc))
			}
		}
	case *ast.RangeStmt:
		if s.Tok != token.DEFINE || !c.recvField(sc, s.X, c.colsField) || sc.has("colpos") || sc.has("col") {
			break
		}
		inner := sc.clone()
		if !wBind(inner, s.Key, wsym{kind: "colpos"}) || !wBind(inner, s.Value, wsym{kind: "col"}) {
			break
		}
		return lh("SqCN.forCols", c.cnBlock(s.Body.List, inner, false, depth+1), next(sc))
	case *ast.ReturnStmt:
		if len(s.Results) == 1 && c.kindOf(sc, s.Results[0]) == "res" {
			return lh("SqCN.ret")
		}
	}
	return cnop(stmts)
}

func (c *wctx) columnNames() *lt {
	fd, ok := c.root["QFrame.ColumnNames"]
	if !ok {
		return ls("SqCN.opaque", "?missing")
	}
	sc, ok := c.topScope(fd)
	res := fd.Type.Results
	if !ok || res == nil || len(res.List) != 1 || len(res.List[0].Names) > 0 || src(res.List[0].Type) != "[]string" {
		return ls("SqCN.opaque", "signature")
	}
	return c.cnBlock(fd.Body.List, sc, true, 0)
}

// ---------------------------------------------------------------------------------------------------------------------
// ColumnTypes (SqCT): `types := make([]types.DataType, len(recv.columns)); for i, col := range recv.columns {
// types[i] = col.DataType() }; return types`

func ctop(stmts []ast.Stmt) *lt { return ls("SqCT.opaque", stmtsText(stmts)) }

// the type `[]<types>.DataType` where <types> is the imported package …/types (not a local of that name)
func (c *wctx) isDataTypeSlice(sc wscope, e ast.Expr) bool {
	at, ok := e.(*ast.ArrayType)
	if !ok || at.Len != nil {
		return false
	}
	sel, ok := at.Elt.(*ast.SelectorExpr)
	return ok && sel.Sel.Name == "DataType" && c.isPkg(sc, sel.X, "/types")
}

// `<the column of the loop>.DataType()` (also through the embedded `Column`)
func (c *wctx) isDataTypeCall(sc wscope, e ast.Expr) bool {
	call, ok := unparen(e).(*ast.CallExpr)
	if !ok || len(call.Args) != 0 {
		return false
	}
	sel, ok := call.Fun.(*ast.SelectorExpr)
	return ok && sel.Sel.Name == "DataType" && c.isCol(sc, sel.X, "col")
}

func (c *wctx) ctBlock(stmts []ast.Stmt, sc wscope, top bool, depth int) *lt {
	if len(stmts) == 0 {
		if top {
			return ls("SqCT.opaque", "no return")
		}
		return lh("SqCT.done")
	}
	if depth > 40 {
		return ctop(stmts)
	}
	rest := stmts[1:]
	next := func(sc wscope) *lt { return c.ctBlock(rest, sc, top, depth+1) }
	switch s := stmts[0].(type) {
	case *ast.AssignStmt:
		if len(s.Lhs) != 1 || len(s.Rhs) != 1 {
			break
		}
		// types := make([]types.DataType, len(recv.columns))
		if id, ok := s.Lhs[0].(*ast.Ident); ok && s.Tok == token.DEFINE && id.Name != "_" && !sc.has("res") {
			if _, bound := sc[id.Name]; bound {
				break
			}
			call, ok := unparen(s.Rhs[0]).(*ast.CallExpr)
			if ok && wUnbound(sc, call.Fun, "make") && len(call.Args) == 2 && c.isDataTypeSlice(sc, call.Args[0]) &&
				c.lenOf(sc, call.Args[1], c.isCols(sc)) {
				inner := sc.clone()
				inner[id.Name] = wsym{kind: "res"}
				return lh("SqCT.alloc", next(inner))
			}
			break
		}
		// types[i] = <column>.DataType()
		if ix, ok := s.Lhs[0].(*ast.IndexExpr); ok && s.Tok == token.ASSIGN && c.kindOf(sc, ix.X) == "res" && c.kindOf(sc, ix.Index) == "colpos" {
			if c.isDataTypeCall(sc, s.Rhs[0]) {
				return lh("SqCT.setType", next(sc))
			}
		}
	case *ast.RangeStmt:
		if s.Tok != token.DEFINE || !c.recvField(sc, s.X, c.colsField) || sc.has("colpos") || sc.has("col") {
			break
		}
		inner := sc.clone()
		if !wBind(inner, s.Key, wsym{kind: "colpos"}) || !wBind(inner, s.Value, wsym{kind: "col"}) {
			break
		}
		return lh("SqCT.forCols", c.ctBlock(s.Body.List, inner, false, depth+1), next(sc))
	case *ast.ReturnStmt:
		if len(s.Results) == 1 && c.kindOf(sc, s.Results[0]) == "res" {
			return lh("SqCT.ret")
		}
	}
	return ctop(stmts)
}

func (c *wctx) columnTypes() *lt {
	fd, ok := c.root["QFrame.ColumnTypes"]
	if !ok {
		return ls("SqCT.opaque", "?missing")
	}
	sc, ok := c.topScope(fd)
	res := fd.Type.Results
	if !ok || res == nil || len(res.List) != 1 || len(res.List[0].Names) > 0 || !c.isDataTypeSlice(sc, res.List[0].Type) {
		return ls("SqCT.opaque", "signature")
	}
	return c.ctBlock(fd.Body.List, sc, true, 0)
}

func tqop(stmts []ast.Stmt) *lt { return ls("SqT.opaque", stmtsText(stmts)) }

// a non-nil error: built on the spot, or the error variable / the frame's error where it is known to be non-nil
func (c *wctx) isNonNilErr(sc wscope, e ast.Expr, nonNil func(ast.Expr) bool) bool {
	if c.isNewError(sc, e) || nonNil(e) {
		return true
	}
	call, ok := unparen(e).(*ast.CallExpr)
	if !ok {
		return false
	}
	sel, ok := call.Fun.(*ast.SelectorExpr)
	return ok && sel.Sel.Name == "Propagate" && c.isPkg(sc, sel.X, "/qerrors")
}

// `if <x> != nil { return <a non-nil error> }` where <x> satisfies p
func (c *wctx) isRetIfNonNil(sc wscope, st ast.Stmt, p func(ast.Expr) bool) bool {
	ifs, ok := st.(*ast.IfStmt)
	if !ok || ifs.Init != nil || ifs.Else != nil || len(ifs.Body.List) != 1 {
		return false
	}
	be, ok := unparen(ifs.Cond).(*ast.BinaryExpr)
	if !ok || be.Op != token.NEQ {
		return false
	}
	x, y := be.X, be.Y
	if isNilIdent(x) {
		x, y = y, x
	}
	if !p(x) || !isNilIdent(y) || !wUnbound(sc, y, "nil") {
		return false
	}
	ret, ok := ifs.Body.List[0].(*ast.ReturnStmt)
	return ok && len(ret.Results) == 1 && c.isNonNilErr(sc, ret.Results[0], p)
}

// `<a>, <err> = <call>` / `:=`: the left-hand sides and the call
func tAssign2(sc wscope, st ast.Stmt) (ast.Expr, string, *ast.CallExpr, bool) {
	as, ok := st.(*ast.AssignStmt)
	if !ok || len(as.Lhs) != 2 || len(as.Rhs) != 1 || as.Tok != token.ASSIGN {
		return nil, "", nil, false
	}
	errID, ok := as.Lhs[1].(*ast.Ident)
	if !ok || sc[errID.Name].kind != "err" {
		return nil, "", nil, false
	}
	call, ok := unparen(as.Rhs[0]).(*ast.CallExpr)
	if !ok {
		return nil, "", nil, false
	}
	return as.Lhs[0], errID.Name, call, true
}

// `<sqlio>.Insert(recv.ColumnNames(), <sqlio>.SQLConfig(<qsql>.NewConfig(<conffuncs>)))`
func (c *wctx) tStmtText(sc wscope, e ast.Expr) *lt {
	bad := ls("SqStmt.opaque", src(e))
	call, ok := unparen(e).(*ast.CallExpr)
	if !ok || len(call.Args) != 2 || call.Ellipsis.IsValid() {
		return bad
	}
	sel, ok := call.Fun.(*ast.SelectorExpr)
	if !ok || sel.Sel.Name != "Insert" || !c.isPkg(sc, sel.X, "/internal/io/sql") {
		return bad
	}
	// recv.ColumnNames()
	nc, ok := unparen(call.Args[0]).(*ast.CallExpr)
	if !ok || len(nc.Args) != 0 {
		return bad
	}
	ns, ok := nc.Fun.(*ast.SelectorExpr)
	if !ok || ns.Sel.Name != "ColumnNames" || c.kindOf(sc, ns.X) != "recv" {
		return bad
	}
	// <sqlio>.SQLConfig(<qsql>.NewConfig(conffuncs))
	cc, ok := unparen(call.Args[1]).(*ast.CallExpr)
	if !ok || len(cc.Args) != 1 || cc.Ellipsis.IsValid() {
		return bad
	}
	cs, ok := cc.Fun.(*ast.SelectorExpr)
	if !ok || cs.Sel.Name != "SQLConfig" || !c.isPkg(sc, cs.X, "/internal/io/sql") {
		return bad
	}
	nw, ok := unparen(cc.Args[0]).(*ast.CallExpr)
	if !ok || len(nw.Args) != 1 || nw.Ellipsis.IsValid() || c.kindOf(sc, nw.Args[0]) != "conffuncs" {
		return bad
	}
	nf, ok := nw.Fun.(*ast.SelectorExpr)
	if !ok || nf.Sel.Name != "NewConfig" || !c.isPkg(sc, nf.X, "/config/sql") {
		return bad
	}
	return lh("SqStmt.insertOfNames")
}

func (c *wctx) tBlock(stmts []ast.Stmt, sc wscope, top bool, depth int) *lt {
	if len(stmts) == 0 {
		if top {
			return ls("SqT.opaque", "no return")
		}
		return lh("SqT.done")
	}
	if depth > 60 {
		return tqop(stmts)
	}
	rest := stmts[1:]
	next := func(sc wscope) *lt { return c.tBlock(rest, sc, top, depth+1) }
	isErrVar := func(e ast.Expr) bool { return c.kindOf(sc, e) == "err" }
	switch s := stmts[0].(type) {
	case *ast.IfStmt:
		// if recv.Err != nil { return <a non-nil error> }
		if c.isRetIfNonNil(sc, s, func(e ast.Expr) bool { return c.recvField(sc, e, c.errField) }) {
			return lh("SqT.guardErr", next(sc))
		}
	case *ast.DeclStmt:
		// var err error
		gd, ok := s.Decl.(*ast.GenDecl)
		if !ok || gd.Tok != token.VAR || len(gd.Specs) != 1 {
			break
		}
		vs, ok := gd.Specs[0].(*ast.ValueSpec)
		if !ok || len(vs.Names) != 1 || len(vs.Values) != 0 || vs.Type == nil || src(vs.Type) != "error" || vs.Names[0].Name == "_" {
			break
		}
		if _, bound := sc[vs.Names[0].Name]; bound || sc.has("err") {
			break
		}
		inner := sc.clone()
		inner[vs.Names[0].Name] = wsym{kind: "err"}
		return next(inner)
	case *ast.AssignStmt:
		// builders[i], err = <sqlio>.NewArgBuilder(<column>.Column); if err != nil { return … }
		if lhs, _, call, ok := tAssign2(sc, s); ok && len(rest) > 0 && c.isRetIfNonNil(sc, rest[0], isErrVar) {
			after := func() *lt { return c.tBlock(rest[1:], sc, top, depth+1) }
			if ix, isIx := lhs.(*ast.IndexExpr); isIx && c.kindOf(sc, ix.X) == "builders" && c.kindOf(sc, ix.Index) == "colpos" &&
				len(call.Args) == 1 && !call.Ellipsis.IsValid() {
				if sel, isSel := call.Fun.(*ast.SelectorExpr); isSel && sel.Sel.Name == "NewArgBuilder" && c.isPkg(sc, sel.X, "/internal/io/sql") {
					if a, isA := unparen(call.Args[0]).(*ast.SelectorExpr); isA && a.Sel.Name == "Column" && c.isElemCol(sc, a.X) {
						return lh("SqT.newBuilder", after())
					}
				}
			}
			// _, err = tx.Exec(<statement>, args...); if err != nil { return … }
			if id, isID := lhs.(*ast.Ident); isID && id.Name == "_" && c.isExecCall(sc, call) {
				return lh("SqT.exec", c.tStmtText(sc, call.Args[0]), after())
			}
			break
		}
		// _, _ = tx.Exec(<statement>, args...), or `_, err = tx.Exec(…)` without the test of the error: no statement of
		// this language reads the error variable before assigning it, so the error is never looked at
		if len(s.Lhs) == 2 && len(s.Rhs) == 1 && s.Tok == token.ASSIGN {
			if id, isID := s.Lhs[0].(*ast.Ident); isID && id.Name == "_" && (isName2Blank(s.Lhs) || c.kindOf(sc, s.Lhs[1]) == "err") {
				if call, ok := unparen(s.Rhs[0]).(*ast.CallExpr); ok && c.isExecCall(sc, call) {
					return lh("SqT.execIgnore", c.tStmtText(sc, call.Args[0]), next(sc))
				}
			}
		}
		if len(s.Lhs) != 1 || len(s.Rhs) != 1 {
			break
		}
		if id, ok := s.Lhs[0].(*ast.Ident); ok && s.Tok == token.DEFINE && id.Name != "_" {
			if _, bound := sc[id.Name]; bound {
				break
			}
			call, isCall := unparen(s.Rhs[0]).(*ast.CallExpr)
			if !isCall || !wUnbound(sc, call.Fun, "make") || len(call.Args) != 2 || !c.lenOf(sc, call.Args[1], c.isCols(sc)) {
				break
			}
			at, isArr := call.Args[0].(*ast.ArrayType)
			if !isArr || at.Len != nil {
				break
			}
			inner := sc.clone()
			// builders := make([]<sqlio>.ArgBuilder, len(recv.columns))
			if sel, isSel := at.Elt.(*ast.SelectorExpr); isSel && sel.Sel.Name == "ArgBuilder" && c.isPkg(sc, sel.X, "/internal/io/sql") && !sc.has("builders") {
				inner[id.Name] = wsym{kind: "builders"}
				return lh("SqT.allocBuilders", next(inner))
			}
			// args := make([]interface{}, len(recv.columns))
			if t := src(at.Elt); (t == "interface{}" || (t == "any" && wUnbound(sc, at.Elt, "any"))) && !sc.has("args") {
				inner[id.Name] = wsym{kind: "args"}
				return lh("SqT.allocArgs", next(inner))
			}
			break
		}
		// args[j] = b(recv.index, i)
		if ix, ok := s.Lhs[0].(*ast.IndexExpr); ok && s.Tok == token.ASSIGN && c.kindOf(sc, ix.X) == "args" && c.kindOf(sc, ix.Index) == "bpos" {
			call, isCall := unparen(s.Rhs[0]).(*ast.CallExpr)
			if !isCall || len(call.Args) != 2 || call.Ellipsis.IsValid() {
				break
			}
			isBld := c.kindOf(sc, call.Fun) == "bld"
			if bx, isIx := unparen(call.Fun).(*ast.IndexExpr); isIx && c.kindOf(sc, bx.X) == "builders" && c.kindOf(sc, bx.Index) == "bpos" {
				isBld = true
			}
			if isBld && c.recvField(sc, call.Args[0], c.indexField) && c.kindOf(sc, call.Args[1]) == "rowpos" {
				return lh("SqT.setArg", next(sc))
			}
		}
	case *ast.RangeStmt:
		if s.Tok != token.DEFINE && !(s.Key == nil && s.Value == nil) {
			break
		}
		inner := sc.clone()
		switch {
		case c.recvField(sc, s.X, c.colsField) && !sc.has("colpos") && !sc.has("col"):
			if !wBind(inner, s.Key, wsym{kind: "colpos"}) || !wBind(inner, s.Value, wsym{kind: "col"}) {
				break
			}
			return lh("SqT.forCols", c.tBlock(s.Body.List, inner, false, depth+1), next(sc))
		case c.recvField(sc, s.X, c.indexField) && !sc.has("rowpos") && !sc.has("rowix"):
			if !wBind(inner, s.Key, wsym{kind: "rowpos"}) || !wBind(inner, s.Value, wsym{kind: "rowix"}) {
				break
			}
			return lh("SqT.forRows", c.tBlock(s.Body.List, inner, false, depth+1), next(sc))
		case c.kindOf(sc, s.X) == "builders" && !sc.has("bpos") && !sc.has("bld"):
			if !wBind(inner, s.Key, wsym{kind: "bpos"}) || !wBind(inner, s.Value, wsym{kind: "bld"}) {
				break
			}
			return lh("SqT.forBuilders", c.tBlock(s.Body.List, inner, false, depth+1), next(sc))
		}
	case *ast.ExprStmt:
		// tx.Exec(<statement>, args...) with the results dropped
		if call, ok := unparen(s.X).(*ast.CallExpr); ok && c.isExecCall(sc, call) {
			return lh("SqT.execIgnore", c.tStmtText(sc, call.Args[0]), next(sc))
		}
	case *ast.ReturnStmt:
		if len(s.Results) == 1 && isNilIdent(s.Results[0]) && wUnbound(sc, s.Results[0], "nil") {
			return lh("SqT.retNil")
		}
	case *ast.BlockStmt:
		return c.tBlock(append(append([]ast.Stmt{}, s.List...), rest...), sc.clone(), top, depth+1)
	}
	return tqop(stmts)
}

// `tx.Exec(<statement>, args...)`
func (c *wctx) isExecCall(sc wscope, call *ast.CallExpr) bool {
	if len(call.Args) != 2 || !call.Ellipsis.IsValid() || c.kindOf(sc, call.Args[1]) != "args" {
		return false
	}
	sel, ok := call.Fun.(*ast.SelectorExpr)
	return ok && sel.Sel.Name == "Exec" && c.kindOf(sc, sel.X) == "tx"
}

// `_, _`
func isName2Blank(l []ast.Expr) bool {
	for _, e := range l {
		if id, ok := e.(*ast.Ident); !ok || id.Name != "_" {
			return false
		}
	}
	return true
}

// the element of the loop over the frame's columns itself (not its embedded interface value): the range value or
// `recv.columns[j]`
func (c *wctx) isElemCol(sc wscope, e ast.Expr) bool {
	e = unparen(e)
	if c.kindOf(sc, e) == "col" {
		return true
	}
	ix, ok := e.(*ast.IndexExpr)
	return ok && c.recvField(sc, ix.X, c.colsField) && c.kindOf(sc, ix.Index) == "colpos"
}

func (c *wctx) toSQL() *lt {
	fd, ok := c.root["QFrame.ToSQL"]
	if !ok {
		return ls("SqT.opaque", "?missing")
	}
	sc, ok := c.topScope(fd, "tx", "conffuncs")
	res := fd.Type.Results
	if !ok || res == nil || len(res.List) != 1 || len(res.List[0].Names) > 0 || src(res.List[0].Type) != "error" {
		return ls("SqT.opaque", "signature")
	}
	return c.tBlock(fd.Body.List, sc, true, 0)
}

// sqlWriteLean renders QF/Gen/SqlWrite.lean.
func sqlWriteLean(repo string, rootFiles, strFiles map[string]*ast.File) string {
	files := parseDir(filepath.Join(repo, "internal", "io", "sql"))
	q := &sqwctx{files: files, fns: funcDecls(files), imports: importsOf(files)}
	ins := q.insertAst()
	esc := q.escapeAst()
	clauses, dflt := q.argBuilder()
	w := newWctx(rootFiles, strFiles)
	var b strings.Builder
	b.WriteString("/- GENERATED on every run by /verif/go/cmd/extract from /repo's source (tie T1). Do not edit. -/\nimport QF.Core.SqExpr\nnamespace QF.Gen\n\n")
	b.WriteString("/-- the escaping helper of internal/io/sql that `Insert` calls with (string, rune, buffer) -/\ndef escapeAst : SqB :=\n  " + esc.lean() + "\n\n")
	b.WriteString("/-- `Insert(colNames, conf)` of internal/io/sql as a buffer program -/\ndef insertAst : SqB :=\n  " + ins.lean() + "\n\n")
	b.WriteString("/-- the clauses of the type switch of `NewArgBuilder`, by column package: (package, clause) -/\ndef argBuilderClauses : List (String × SqAB) := [" + strings.Join(clauses, ", ") + "]\n\n")
	b.WriteString("/-- what `NewArgBuilder` does for a column none of the clauses applies to -/\ndef argBuilderDefault : SqAB := " + dflt.lean() + "\n\n")
	b.WriteString("/-- `QFrame.ColumnNames` -/\ndef columnNamesAst : SqCN :=\n  " + w.columnNames().lean() + "\n\n")
	b.WriteString("/-- `QFrame.ColumnTypes` -/\ndef columnTypesAst : SqCT :=\n  " + w.columnTypes().lean() + "\n\n")
	b.WriteString("/-- `QFrame.ToSQL` -/\ndef toSqlAst : SqT :=\n  " + w.toSQL().lean() + "\n\n")
	b.WriteString("end QF.Gen\n")
	return b.String()
}
