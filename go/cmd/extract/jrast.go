package main

// Translation go/ast → JR / JU (lean/QF/Core/JRExpr.lean) of the JSON reading glue:
//
//	/repo/internal/io/json.go   fillInts, fillFloats, fillBools, fillStrings, jsonRecordsToData      → JR
//	                            UnmarshalJSON                                                          → JU
//	/repo/qframe.go             ReadJSON                                                               → JU
//
// The bodies are walked statement by statement; the result is ONE term per function in continuation style (every
// statement carries the rest of its block; the statements after a type switch are carried into its clauses).
// Everything is found by ROLE:
//
//   - the record type R: the named type of the package whose underlying type is []map[string]interface{};
//   - a fill function: a function without receiver ([]T, R, string) error with T one of int, float64, bool, *string;
//     jsonRecordsToData: the function (R) (map[string]interface{}, error); UnmarshalJSON: the function
//     (io.Reader) (map[string]interface{}, error); ReadJSON: the function of the root package
//     (io.Reader, ...ConfigFunc) F that calls it, F the struct type with an `error` field; New: the function of the root
//     package (map[string]X, ...ConfigFunc) F;
//   - variables by what they are bound to (see the kinds of `jv`). The semantics has ONE register per kind, so a variable can
//     only be referred to while it is the latest binding of its kind (`gen`); what was bound before a loop cannot be
//     referred to inside it, except the parameters, the column slice, the result map and the loop's own variables.
//
// Whatever is not understood becomes `.opaque "<text>"`.

import (
	"go/ast"
	"go/token"
	"path/filepath"
	"sort"
	"strconv"
	"strings"
)

type jv struct {
	// records · col (s: element type) · colName · idx · record · value · ok · asserted (s: dynamic type) · swvar (s: dynamic
	// type or "") · result · callerr · reader · recvar (the declared, still empty records) · decoder · data · conffuncs
	kind string
	s    string
	gen  int
}

type jscope struct {
	vars   map[string]*jv
	parent *jscope
}

func (s *jscope) get(n string) (*jv, bool) {
	for f := s; f != nil; f = f.parent {
		if v, ok := f.vars[n]; ok {
			return v, true
		}
	}
	return nil, false
}
func (s *jscope) push() *jscope { return &jscope{vars: map[string]*jv{}, parent: s} }
func (s *jscope) def(n string, v *jv) {
	if n != "_" {
		s.vars[n] = v
	}
}
func (s *jscope) bound(n string) bool { _, ok := s.get(n); return ok }

// is there a variable of this kind in scope?
func (s *jscope) hasKind(kind string) bool {
	for f := s; f != nil; f = f.parent {
		for _, v := range f.vars {
			if v.kind == kind {
				return true
			}
		}
	}
	return false
}

var jrElem = map[string]string{"int": "int", "float64": "float64", "bool": "bool", "*string": "strptr"}
var jrDyn = map[string]string{"int": "int", "float64": "float64", "bool": "bool", "string": "string", "nil": "null"}

type jctx struct {
	files   map[string]*ast.File
	fns     map[string]*ast.FuncDecl
	imports map[string]string

	recType   string            // R
	fills     map[string]string // function name → element role
	toData    string
	unmarshal string
	gens      map[string]int
}

func jrop(n ast.Node) *lt { return ls("JR.opaque", src(n)) }
func juop(n ast.Node) *lt { return ls("JU.opaque", src(n)) }

func isMapStringIface(t string) bool {
	return t == "map[string]interface{}" || t == "map[string]any"
}

func (c *jctx) scan() string {
	// R
	for _, f := range c.files {
		for _, d := range f.Decls {
			gd, ok := d.(*ast.GenDecl)
			if !ok || gd.Tok != token.TYPE {
				continue
			}
			for _, sp := range gd.Specs {
				ts, ok := sp.(*ast.TypeSpec)
				if !ok || ts.Assign.IsValid() {
					continue
				}
				if t := src(ts.Type); t == "[]map[string]interface{}" || t == "[]map[string]any" {
					if c.recType != "" {
						return "more than one type []map[string]interface{}"
					}
					c.recType = ts.Name.Name
				}
			}
		}
	}
	if c.recType == "" {
		return "no named type []map[string]interface{}"
	}
	c.fills = map[string]string{}
	seen := map[string]bool{}
	names := make([]string, 0, len(c.fns))
	for n := range c.fns {
		names = append(names, n)
	}
	sort.Strings(names)
	for _, n := range names {
		fd := c.fns[n]
		if fd.Recv != nil {
			continue
		}
		p, r := flatTypes(fd.Type.Params), flatTypes(fd.Type.Results)
		switch {
		case len(p) == 3 && len(r) == 1 && strings.HasPrefix(p[0], "[]") && p[1] == c.recType && p[2] == "string" && r[0] == "error":
			role, ok := jrElem[strings.TrimPrefix(p[0], "[]")]
			if !ok {
				continue
			}
			if seen[role] {
				return "more than one fill function for []" + strings.TrimPrefix(p[0], "[]")
			}
			seen[role] = true
			c.fills[n] = role
		case len(p) == 1 && len(r) == 2 && p[0] == c.recType && isMapStringIface(r[0]) && r[1] == "error":
			if c.toData != "" {
				return "more than one function (R) (map[string]interface{}, error)"
			}
			c.toData = n
		case len(p) == 1 && len(r) == 2 && isMapStringIface(r[0]) && r[1] == "error":
			if sel, ok := fd.Type.Params.List[0].Type.(*ast.SelectorExpr); ok && sel.Sel.Name == "Reader" {
				if id, ok := sel.X.(*ast.Ident); ok && c.imports[id.Name] == "io" {
					if c.unmarshal != "" {
						return "more than one function (io.Reader) (map[string]interface{}, error)"
					}
					c.unmarshal = n
				}
			}
		}
	}
	if c.toData == "" {
		return "no function (R) (map[string]interface{}, error)"
	}
	return ""
}

// ---------------------------------------------------------------------------------------------------------------

type jexec struct {
	*jctx
	isFill bool
}

func (x *jexec) bind(kind string) int {
	x.gens[kind]++
	return x.gens[kind]
}

func (x *jexec) role(e ast.Expr, sc *jscope) *jv {
	if id, ok := unparen(e).(*ast.Ident); ok {
		if v, ok := sc.get(id.Name); ok {
			return v
		}
	}
	return &jv{kind: ""}
}

// a variable that is the latest binding of its kind
func (x *jexec) cur(e ast.Expr, sc *jscope, kind string) (*jv, bool) {
	v := x.role(e, sc)
	return v, v.kind == kind && v.gen == x.gens[kind]
}

func (x *jexec) is(e ast.Expr, sc *jscope, kind string) bool {
	_, ok := x.cur(e, sc, kind)
	return ok
}

func jBuiltin(e ast.Expr, sc *jscope, name string) bool {
	id, ok := unparen(e).(*ast.Ident)
	return ok && id.Name == name && !sc.bound(name)
}

// len(records)
func (x *jexec) lenRecords(e ast.Expr, sc *jscope) bool {
	call, ok := unparen(e).(*ast.CallExpr)
	return ok && jBuiltin(call.Fun, sc, "len") && len(call.Args) == 1 && x.is(call.Args[0], sc, "records")
}

// an unbound identifier that is the import name of a package whose path is `path` or ends in /path
func jPkg(e ast.Expr, bound func(string) bool, imports map[string]string, path string) bool {
	id, ok := unparen(e).(*ast.Ident)
	if !ok || bound(id.Name) {
		return false
	}
	p, ok := imports[id.Name]
	return ok && (p == path || strings.HasSuffix(p, "/"+path))
}

// an expression without effects: identifiers, literals, selections
func jPure(e ast.Expr) bool {
	switch t := unparen(e).(type) {
	case *ast.Ident, *ast.BasicLit:
		return true
	case *ast.SelectorExpr:
		return jPure(t.X)
	}
	return false
}

// a non-nil error made on the spot from arguments without effects
func jErrCall(e ast.Expr, bound func(string) bool, imports map[string]string) bool {
	call, ok := unparen(e).(*ast.CallExpr)
	if !ok {
		return false
	}
	sel, ok := call.Fun.(*ast.SelectorExpr)
	if !ok {
		return false
	}
	for _, a := range call.Args {
		if !jPure(a) {
			c2, ok := unparen(a).(*ast.CallExpr)
			if !ok || c2.Ellipsis.IsValid() {
				return false
			}
			switch {
			case len(c2.Args) == 0 && jPure(c2.Fun):
				// err.Error() of an error variable
			case len(c2.Args) == 1 && isIdent(c2.Fun, "len") && !bound("len") && jPure(c2.Args[0]):
				// len(x)
			default:
				return false
			}
		}
	}
	id, ok := unparen(sel.X).(*ast.Ident)
	if !ok || bound(id.Name) {
		return false
	}
	switch p := imports[id.Name]; {
	case p == "qerrors" || strings.HasSuffix(p, "/qerrors"):
		return sel.Sel.Name == "New" || sel.Sel.Name == "Propagate"
	case p == "errors":
		return sel.Sel.Name == "New"
	case p == "fmt":
		return sel.Sel.Name == "Errorf"
	}
	return false
}

func jEndsInReturn(stmts []ast.Stmt) bool {
	if len(stmts) == 0 {
		return false
	}
	_, ok := stmts[len(stmts)-1].(*ast.ReturnStmt)
	return ok
}

// what may not be referred to inside a loop when it was bound before it
func (x *jexec) enterLoop(kinds ...string) {
	for _, k := range kinds {
		x.gens[k]++
	}
}

func (x *jexec) block(stmts []ast.Stmt, sc *jscope, inColLoop bool) *lt {
	if len(stmts) == 0 {
		return lh("JR.done")
	}
	st, rest := stmts[0], stmts[1:]
	k := func() *lt { return x.block(rest, sc, inColLoop) }
	nilOk := !sc.bound("nil")
	switch s := st.(type) {
	case *ast.AssignStmt:
		if t := x.assign(s, sc, inColLoop, k); t != nil {
			return t
		}
	case *ast.IfStmt:
		if s.Else != nil {
			return jrop(s)
		}
		if s.Init != nil {
			// if err := fill(col, records, colName); err != nil { … }
			as, ok := s.Init.(*ast.AssignStmt)
			if !ok || as.Tok != token.DEFINE || len(as.Lhs) != 1 || len(as.Rhs) != 1 || x.isFill {
				return jrop(s)
			}
			errName, ok := as.Lhs[0].(*ast.Ident)
			call, ok2 := unparen(as.Rhs[0]).(*ast.CallExpr)
			if !ok || !ok2 || errName.Name == "_" || len(call.Args) != 3 || call.Ellipsis.IsValid() {
				return jrop(s)
			}
			fn, ok := call.Fun.(*ast.Ident)
			if !ok || sc.bound(fn.Name) {
				return jrop(s)
			}
			elem, ok := x.fills[fn.Name]
			if !ok {
				return jrop(s)
			}
			col, okc := x.cur(call.Args[0], sc, "col")
			if !okc || col.s != elem || !x.is(call.Args[1], sc, "records") || !x.is(call.Args[2], sc, "colName") {
				return jrop(s)
			}
			cond, ok := unparen(s.Cond).(*ast.BinaryExpr)
			if !ok || cond.Op != token.NEQ || !isIdent(cond.X, errName.Name) || !isNilIdent(cond.Y) || !nilOk || errName.Name == "nil" {
				return jrop(s)
			}
			inner := sc.push()
			inner.def(errName.Name, &jv{kind: "callerr", gen: x.bind("callerr")})
			onErr := x.block(s.Body.List, inner.push(), inColLoop)
			return lh("JR.callFill", lh("JRElem."+elem), onErr, k())
		}
		cond := unparen(s.Cond)
		// if !ok { … }
		if u, ok := cond.(*ast.UnaryExpr); ok && u.Op == token.NOT && x.is(u.X, sc, "ok") {
			return lh("JR.ifNotOk", x.block(s.Body.List, sc.push(), inColLoop), k())
		}
		// if len(records) == 0 { … }
		if b, ok := cond.(*ast.BinaryExpr); ok && b.Op == token.EQL && x.lenRecords(b.X, sc) && iIntLit(b.Y, "0") {
			return lh("JR.ifNoRecords", x.block(s.Body.List, sc.push(), inColLoop), k())
		}
	case *ast.RangeStmt:
		if s.Tok != token.DEFINE || s.Key == nil {
			return jrop(s)
		}
		key, ok := s.Key.(*ast.Ident)
		if !ok || key.Name == "_" {
			return jrop(s)
		}
		switch {
		case s.Value == nil && x.is(s.X, sc, "col") && !inColLoop && !sc.hasKind("idx"):
			// for i := range col
			x.enterLoop("record", "value", "ok", "asserted", "swvar", "callerr")
			inner := sc.push()
			inner.def(key.Name, &jv{kind: "idx", gen: x.bind("idx")})
			body := x.block(s.Body.List, inner.push(), true)
			x.enterLoop("record", "value", "ok", "asserted", "swvar", "callerr", "idx")
			return lh("JR.rangeCol", body, k())
		case s.Value != nil && x.is(s.X, sc, "record") && !inColLoop && !sc.hasKind("colName") && !sc.hasKind("value") && !sc.hasKind("col"):
			// for colName, value := range record
			val, ok := s.Value.(*ast.Ident)
			if !ok || val.Name == "_" || val.Name == key.Name {
				return jrop(s)
			}
			x.enterLoop("record", "value", "ok", "asserted", "swvar", "callerr", "col")
			inner := sc.push()
			inner.def(key.Name, &jv{kind: "colName", gen: x.bind("colName")})
			inner.def(val.Name, &jv{kind: "value", gen: x.bind("value")})
			body := x.block(s.Body.List, inner.push(), false)
			x.enterLoop("record", "value", "ok", "asserted", "swvar", "callerr", "col", "colName")
			return lh("JR.rangeRecord", body, k())
		}
	case *ast.TypeSwitchStmt:
		if t := x.typeSwitch(s, rest, sc, inColLoop); t != nil {
			return t
		}
	case *ast.ReturnStmt:
		if len(rest) != 0 {
			return jrop(s)
		}
		if x.isFill && len(s.Results) == 1 {
			r := unparen(s.Results[0])
			if isNilIdent(r) && nilOk {
				return lh("JR.retNil")
			}
			if jErrCall(r, sc.bound, x.imports) {
				return lh("JR.retErr")
			}
		}
		if !x.isFill && len(s.Results) == 2 {
			a, b := unparen(s.Results[0]), unparen(s.Results[1])
			switch {
			case isNilIdent(a) && nilOk && jErrCall(b, sc.bound, x.imports):
				return lh("JR.retErr")
			case isNilIdent(a) && nilOk && x.is(b, sc, "callerr"):
				return lh("JR.retCallErr")
			case x.is(a, sc, "result") && isNilIdent(b) && nilOk:
				return lh("JR.retResult")
			}
		}
	}
	return jrop(st)
}

func (x *jexec) typeSwitch(s *ast.TypeSwitchStmt, rest []ast.Stmt, sc *jscope, inColLoop bool) *lt {
	if s.Init != nil {
		return nil
	}
	var ta *ast.TypeAssertExpr
	bindName := ""
	switch a := s.Assign.(type) {
	case *ast.AssignStmt:
		if a.Tok != token.DEFINE || len(a.Lhs) != 1 || len(a.Rhs) != 1 {
			return nil
		}
		id, ok := a.Lhs[0].(*ast.Ident)
		if !ok {
			return nil
		}
		bindName = id.Name
		ta, _ = unparen(a.Rhs[0]).(*ast.TypeAssertExpr)
	case *ast.ExprStmt:
		ta, _ = unparen(a.X).(*ast.TypeAssertExpr)
	}
	if ta == nil || ta.Type != nil || !x.is(ta.X, sc, "value") {
		return nil
	}
	type clause struct {
		dyns []string
		body []ast.Stmt
	}
	var clauses []clause
	var dflt []ast.Stmt
	hasDflt := false
	for _, cs := range s.Body.List {
		cc, ok := cs.(*ast.CaseClause)
		if !ok {
			return nil
		}
		body := cc.Body
		if !jEndsInReturn(body) {
			body = concat(body, rest)
		}
		if cc.List == nil {
			if hasDflt {
				return nil
			}
			hasDflt, dflt = true, body
			continue
		}
		var dyns []string
		for _, te := range cc.List {
			name := src(te)
			d, ok := jrDyn[name]
			if !ok || sc.bound(name) {
				return nil
			}
			dyns = append(dyns, d)
		}
		clauses = append(clauses, clause{dyns, body})
	}
	if !hasDflt {
		dflt = rest
	}
	// translate in source order (the generation counters follow the text), assemble from the end
	terms := make([]*lt, len(clauses))
	for i, cl := range clauses {
		inner := sc.push()
		if bindName != "" && bindName != "_" {
			d := ""
			if len(cl.dyns) == 1 {
				d = cl.dyns[0]
			}
			inner.def(bindName, &jv{kind: "swvar", s: d, gen: x.bind("swvar")})
		}
		terms[i] = x.block(cl.body, inner.push(), inColLoop)
	}
	inner := sc.push()
	if bindName != "" && bindName != "_" {
		inner.def(bindName, &jv{kind: "swvar", gen: x.bind("swvar")})
	}
	t := x.block(dflt, inner.push(), inColLoop)
	for i := len(clauses) - 1; i >= 0; i-- {
		ds := make([]*lt, len(clauses[i].dyns))
		for j, d := range clauses[i].dyns {
			ds[j] = lh("JRDyn." + d)
		}
		t = lh("JR.caseTy", ll(ds), terms[i], t)
	}
	return t
}

func (x *jexec) assign(s *ast.AssignStmt, sc *jscope, inColLoop bool, k func() *lt) *lt {
	if len(s.Rhs) != 1 {
		return nil
	}
	rhs := unparen(s.Rhs[0])
	names := make([]string, len(s.Lhs))
	for i, l := range s.Lhs {
		if id, ok := l.(*ast.Ident); ok {
			names[i] = id.Name
		}
	}
	switch {
	case s.Tok == token.DEFINE && len(names) == 1 && names[0] != "" && names[0] != "_":
		switch r := rhs.(type) {
		case *ast.IndexExpr:
			// record := records[i] / records[0]
			if !x.is(r.X, sc, "records") {
				return nil
			}
			var ix *lt
			if x.is(r.Index, sc, "idx") {
				ix = lh("JRIx.loopVar")
			} else if b, ok := unparen(r.Index).(*ast.BasicLit); ok && b.Kind == token.INT {
				n, err := strconv.ParseUint(b.Value, 0, 31)
				if err != nil {
					return nil
				}
				ix = lh("JRIx.lit", lh(strconv.FormatUint(n, 10)))
			} else {
				return nil
			}
			sc.def(names[0], &jv{kind: "record", gen: x.bind("record")})
			return lh("JR.bindRecord", ix, k())
		case *ast.CompositeLit:
			// result := map[string]interface{}{}
			if r.Type == nil || !isMapStringIface(src(r.Type)) || len(r.Elts) != 0 || x.isFill || sc.hasKind("result") || sc.bound("string") || sc.bound("any") {
				return nil
			}
			sc.def(names[0], &jv{kind: "result", gen: x.bind("result")})
			return lh("JR.newResult", k())
		case *ast.CallExpr:
			// col := make([]T, len(records))
			if !jBuiltin(r.Fun, sc, "make") || len(r.Args) != 2 || x.isFill || inColLoop || !x.lenRecords(r.Args[1], sc) {
				return nil
			}
			at, ok := r.Args[0].(*ast.ArrayType)
			if !ok || at.Len != nil {
				return nil
			}
			elem, ok := jrElem[src(at.Elt)]
			if !ok || sc.bound(strings.TrimPrefix(src(at.Elt), "*")) {
				return nil
			}
			sc.def(names[0], &jv{kind: "col", s: elem, gen: x.bind("col")})
			return lh("JR.makeCol", lh("JRElem."+elem), k())
		}
	case s.Tok == token.DEFINE && len(names) == 2 && names[0] != "" && names[1] != "" && names[1] != "_" && names[0] != names[1]:
		switch r := rhs.(type) {
		case *ast.IndexExpr:
			// value, ok := record[colName]
			if !x.is(r.X, sc, "record") || !x.is(r.Index, sc, "colName") {
				return nil
			}
			sc.def(names[0], &jv{kind: "value", gen: x.bind("value")})
			sc.def(names[1], &jv{kind: "ok", gen: x.bind("ok")})
			return lh("JR.lookup", k())
		case *ast.TypeAssertExpr:
			// x, ok := value.(T)
			if r.Type == nil || !x.is(r.X, sc, "value") {
				return nil
			}
			name := src(r.Type)
			d, ok := jrDyn[name]
			if !ok || d == "null" || sc.bound(name) {
				return nil
			}
			sc.def(names[0], &jv{kind: "asserted", s: d, gen: x.bind("asserted")})
			sc.def(names[1], &jv{kind: "ok", gen: x.bind("ok")})
			return lh("JR.assertTy", lh("JRDyn."+d), k())
		}
	case s.Tok == token.ASSIGN && len(s.Lhs) == 1:
		ix, ok := s.Lhs[0].(*ast.IndexExpr)
		if !ok {
			return nil
		}
		switch {
		case x.is(ix.X, sc, "col") && x.is(ix.Index, sc, "idx") && inColLoop:
			col := x.role(ix.X, sc)
			// col[i] = x
			if v, ok := x.cur(rhs, sc, "asserted"); ok && map[string]string{"int": "int", "float64": "float64", "bool": "bool"}[col.s] == v.s {
				return lh("JR.store", k())
			}
			if col.s != "strptr" {
				return nil
			}
			// col[i] = &t
			if u, ok := rhs.(*ast.UnaryExpr); ok && u.Op == token.AND {
				if v, ok := x.cur(u.X, sc, "swvar"); ok && v.s == "string" {
					return lh("JR.storeAddr", k())
				}
			}
			// col[i] = nil
			if isNilIdent(rhs) && !sc.bound("nil") {
				return lh("JR.storeNil", k())
			}
		case x.is(ix.X, sc, "result") && x.is(ix.Index, sc, "colName") && x.is(rhs, sc, "col") && !x.isFill:
			// result[colName] = col
			return lh("JR.setResult", k())
		}
	}
	return nil
}

func (c *jctx) fn(name string) *lt {
	fd := c.fns[name]
	x := &jexec{jctx: c}
	c.gens = map[string]int{}
	sc := &jscope{vars: map[string]*jv{}}
	pn := paramNames(fd)
	if elem, ok := c.fills[name]; ok {
		x.isFill = true
		sc.def(pn[0], &jv{kind: "col", s: elem})
		sc.def(pn[1], &jv{kind: "records"})
		sc.def(pn[2], &jv{kind: "colName"})
	} else {
		sc.def(pn[0], &jv{kind: "records"})
	}
	if len(sc.vars) != len(pn) {
		return ls("JR.opaque", "parameters of "+name+" are not distinct names")
	}
	return x.block(fd.Body.List, sc.push(), false)
}

// ---------------------------------------------------------------------------------------------------------------
// UnmarshalJSON and ReadJSON

type juexec struct {
	imports  map[string]string
	fns      map[string]*ast.FuncDecl
	callee   func(e ast.Expr, sc *jscope) bool // the call target of `unmarshal` / `toData`
	recType  string
	frame    string // the frame type (ReadJSON)
	errField string
	newFn    string
	gens     map[string]int
}

func (x *juexec) is(e ast.Expr, sc *jscope, kind string) bool {
	id, ok := unparen(e).(*ast.Ident)
	if !ok {
		return false
	}
	v, ok := sc.get(id.Name)
	return ok && v.kind == kind && v.gen == x.gens[kind]
}

func (x *juexec) bind(kind string) int { x.gens[kind]++; return x.gens[kind] }

func (x *juexec) block(stmts []ast.Stmt, sc *jscope) *lt {
	if len(stmts) == 0 {
		return ls("JU.opaque", "the function falls off its end")
	}
	st, rest := stmts[0], stmts[1:]
	nilOk := !sc.bound("nil")
	switch s := st.(type) {
	case *ast.DeclStmt:
		// var records R
		gd, ok := s.Decl.(*ast.GenDecl)
		if !ok || gd.Tok != token.VAR || len(gd.Specs) != 1 || x.recType == "" {
			return juop(s)
		}
		vs, ok := gd.Specs[0].(*ast.ValueSpec)
		if !ok || len(vs.Names) != 1 || len(vs.Values) != 0 || !isIdent(vs.Type, x.recType) || sc.bound(x.recType) || sc.hasKind("recvar") || sc.hasKind("records") {
			return juop(s)
		}
		sc.def(vs.Names[0].Name, &jv{kind: "recvar"})
		return x.block(rest, sc)
	case *ast.AssignStmt:
		if s.Tok != token.DEFINE || len(s.Rhs) != 1 {
			return juop(s)
		}
		call, ok := unparen(s.Rhs[0]).(*ast.CallExpr)
		if !ok || call.Ellipsis.IsValid() {
			return juop(s)
		}
		names := make([]string, len(s.Lhs))
		for i, l := range s.Lhs {
			id, ok := l.(*ast.Ident)
			if !ok {
				return juop(s)
			}
			names[i] = id.Name
		}
		sel, isSel := call.Fun.(*ast.SelectorExpr)
		switch {
		case len(names) == 1 && isSel && len(call.Args) == 1 && jPkg(sel.X, sc.bound, x.imports, "encoding/json") && sel.Sel.Name == "NewDecoder" && x.is(call.Args[0], sc, "reader") && !sc.hasKind("decoder"):
			// decoder := json.NewDecoder(r)
			sc.def(names[0], &jv{kind: "decoder"})
			return x.block(rest, sc)
		case len(names) == 1 && names[0] != "_" && isSel && len(call.Args) == 1 && sel.Sel.Name == "Decode" && x.is(sel.X, sc, "decoder") && !sc.hasKind("records"):
			// err := decoder.Decode(&records)
			u, ok := unparen(call.Args[0]).(*ast.UnaryExpr)
			if !ok || u.Op != token.AND || !x.is(u.X, sc, "recvar") {
				return juop(s)
			}
			sc.get0(u.X).kind = "records"
			sc.def(names[0], &jv{kind: "callerr", gen: x.bind("callerr")})
			return lh("JU.decode", x.block(rest, sc))
		case len(names) == 2 && names[0] != "_" && names[1] != "_" && names[0] != names[1] && len(call.Args) == 1 && x.callee != nil && x.frame != "" && x.callee(call.Fun, sc) && x.is(call.Args[0], sc, "reader") && !sc.hasKind("data"):
			// data, err := qfio.UnmarshalJSON(reader)
			sc.def(names[0], &jv{kind: "data"})
			sc.def(names[1], &jv{kind: "callerr", gen: x.bind("callerr")})
			return lh("JU.unmarshal", x.block(rest, sc))
		}
	case *ast.IfStmt:
		if s.Init != nil || s.Else != nil {
			return juop(s)
		}
		cond, ok := unparen(s.Cond).(*ast.BinaryExpr)
		if !ok || cond.Op != token.NEQ || !x.is(cond.X, sc, "callerr") || !isNilIdent(cond.Y) || !nilOk {
			return juop(s)
		}
		if !jEndsInReturn(s.Body.List) {
			return juop(s)
		}
		return lh("JU.ifErr", x.block(s.Body.List, sc.push()), x.block(rest, sc))
	case *ast.ReturnStmt:
		if len(rest) != 0 {
			return juop(s)
		}
		switch {
		case x.frame == "" && len(s.Results) == 2 && isNilIdent(s.Results[0]) && nilOk && jErrCall(s.Results[1], sc.bound, x.imports):
			return lh("JU.retErr")
		case x.frame == "" && len(s.Results) == 1:
			// return jsonRecordsToData(records)
			call, ok := unparen(s.Results[0]).(*ast.CallExpr)
			if ok && !call.Ellipsis.IsValid() && len(call.Args) == 1 && x.callee != nil && x.callee(call.Fun, sc) && x.is(call.Args[0], sc, "records") {
				return lh("JU.retToData")
			}
		case x.frame != "" && len(s.Results) == 1:
			switch r := unparen(s.Results[0]).(type) {
			case *ast.CompositeLit:
				// return QFrame{Err: err}
				if isIdent(r.Type, x.frame) && !sc.bound(x.frame) && len(r.Elts) == 1 {
					if kv, ok := r.Elts[0].(*ast.KeyValueExpr); ok && isIdent(kv.Key, x.errField) && x.is(kv.Value, sc, "callerr") {
						return lh("JU.retErrFrame")
					}
				}
			case *ast.CallExpr:
				// return New(data, confFuncs...)
				if isIdent(r.Fun, x.newFn) && !sc.bound(x.newFn) && len(r.Args) == 2 && r.Ellipsis.IsValid() && x.is(r.Args[0], sc, "data") && x.is(r.Args[1], sc, "conffuncs") {
					return lh("JU.retNew")
				}
			}
		}
	}
	return juop(st)
}

// the variable an identifier is bound to (it is known to be bound)
func (s *jscope) get0(e ast.Expr) *jv {
	v, _ := s.get(unparen(e).(*ast.Ident).Name)
	return v
}

// the frame type of the root package (the struct with an `error` field that the function returns), its error field,
// the constructor (map[string]X, ...ConfigFunc) F and the reader function (io.Reader, ...ConfigFunc) F that calls `unm`
// of the package imported as internal/io
func readJsonEntry(root map[string]*ast.File, unm string) (fd *ast.FuncDecl, frame, errField, newFn, msg string) {
	rfn, rimp := funcDecls(root), importsOf(root)
	var found []*ast.FuncDecl
	for _, f := range rfn {
		if f.Recv != nil {
			continue
		}
		p, r := flatTypes(f.Type.Params), flatTypes(f.Type.Results)
		if len(p) != 2 || len(r) != 1 || len(f.Type.Params.List) != 2 {
			continue
		}
		if _, ok := f.Type.Params.List[1].Type.(*ast.Ellipsis); !ok {
			continue
		}
		sel, ok := f.Type.Params.List[0].Type.(*ast.SelectorExpr)
		if !ok || sel.Sel.Name != "Reader" {
			continue
		}
		if id, ok := sel.X.(*ast.Ident); !ok || rimp[id.Name] != "io" {
			continue
		}
		calls := false
		ast.Inspect(f.Body, func(n ast.Node) bool {
			if call, ok := n.(*ast.CallExpr); ok {
				if s, ok := call.Fun.(*ast.SelectorExpr); ok && s.Sel.Name == unm && jPkg(s.X, func(string) bool { return false }, rimp, "internal/io") {
					calls = true
				}
			}
			return true
		})
		if calls {
			found = append(found, f)
		}
	}
	if len(found) != 1 {
		return nil, "", "", "", "no unique function (io.Reader, ...ConfigFunc) of the root package that calls " + unm
	}
	fd = found[0]
	frame = flatTypes(fd.Type.Results)[0]
	names, types, ok := structFields(root, frame)
	if !ok {
		return nil, "", "", "", "the result type of " + fd.Name.Name + " is no struct"
	}
	for i, t := range types {
		if t == "error" {
			if errField != "" {
				return nil, "", "", "", "two error fields"
			}
			errField = names[i]
		}
	}
	cfgType := src(fd.Type.Params.List[1].Type)
	for n, f := range rfn {
		if f.Recv != nil || len(f.Type.Params.List) != 2 {
			continue
		}
		p, r := flatTypes(f.Type.Params), flatTypes(f.Type.Results)
		if len(p) == 2 && len(r) == 1 && r[0] == frame && strings.HasPrefix(p[0], "map[string]") && src(f.Type.Params.List[1].Type) == cfgType {
			if newFn != "" {
				return nil, "", "", "", "two constructors"
			}
			newFn = n
		}
	}
	if errField == "" || newFn == "" {
		return nil, "", "", "", "no error field / constructor"
	}
	return fd, frame, errField, newFn, ""
}

// readJsonLean writes QF/Gen/ReadJson.lean.
func readJsonLean(repo string, root map[string]*ast.File) string {
	var b strings.Builder
	b.WriteString("/- GENERATED on every run by /verif/go/cmd/extract from /repo's source (tie T1). Do not edit. -/\nimport QF.Core.JRExpr\nnamespace QF.Gen\n\n")
	files := parseDir(filepath.Join(repo, "internal", "io"))
	c := &jctx{files: files, fns: funcDecls(files), imports: importsOf(files)}
	msg := c.scan()
	var fills []string
	toData, unm, entry := ls("JR.opaque", msg), ls("JU.opaque", msg), ls("JU.opaque", msg)
	if msg == "" {
		names := make([]string, 0, len(c.fills))
		for n := range c.fills {
			names = append(names, n)
		}
		order := map[string]int{"int": 0, "float64": 1, "bool": 2, "strptr": 3}
		sort.Slice(names, func(i, j int) bool { return order[c.fills[names[i]]] < order[c.fills[names[j]]] })
		for _, n := range names {
			fills = append(fills, "  (JRElem."+c.fills[n]+", "+c.fn(n).lean()+")")
		}
		toData = c.fn(c.toData)
		if c.unmarshal == "" {
			unm = ls("JU.opaque", "no function (io.Reader) (map[string]interface{}, error)")
			entry = unm
		} else {
			fd := c.fns[c.unmarshal]
			x := &juexec{imports: c.imports, fns: c.fns, recType: c.recType, gens: map[string]int{}}
			x.callee = func(e ast.Expr, sc *jscope) bool { return isIdent(e, c.toData) && !sc.bound(c.toData) }
			sc := &jscope{vars: map[string]*jv{}}
			sc.def(paramNames(fd)[0], &jv{kind: "reader"})
			unm = x.block(fd.Body.List, sc.push())
			efd, frame, errField, newFn, emsg := readJsonEntry(root, c.unmarshal)
			if emsg != "" {
				entry = ls("JU.opaque", emsg)
			} else {
				rimp := importsOf(root)
				y := &juexec{imports: rimp, fns: funcDecls(root), frame: frame, errField: errField, newFn: newFn, gens: map[string]int{}}
				y.callee = func(e ast.Expr, sc *jscope) bool {
					s, ok := unparen(e).(*ast.SelectorExpr)
					return ok && s.Sel.Name == c.unmarshal && jPkg(s.X, sc.bound, rimp, "internal/io")
				}
				sc := &jscope{vars: map[string]*jv{}}
				pn := paramNames(efd)
				sc.def(pn[0], &jv{kind: "reader"})
				sc.def(pn[1], &jv{kind: "conffuncs"})
				if len(sc.vars) != 2 {
					entry = ls("JU.opaque", "parameters are not distinct names")
				} else {
					entry = y.block(efd.Body.List, sc.push())
				}
			}
		}
	}
	b.WriteString("/-- the functions ([]T, R, string) error of internal/io that fill a column slice from the records, by T -/\n")
	b.WriteString("def fillAsts : List (JRElem × JR) := [\n" + strings.Join(fills, ",\n") + "]\n\n")
	b.WriteString("/-- the function (R) (map[string]interface{}, error) of internal/io (`jsonRecordsToData`) -/\n")
	b.WriteString("def recordsToDataAst : JR :=\n  " + toData.lean() + "\n\n")
	b.WriteString("/-- the function (io.Reader) (map[string]interface{}, error) of internal/io (`UnmarshalJSON`) -/\n")
	b.WriteString("def unmarshalJsonAst : JU :=\n  " + unm.lean() + "\n\n")
	b.WriteString("/-- the function (io.Reader, ...ConfigFunc) QFrame of the root package that calls it (`ReadJSON`) -/\n")
	b.WriteString("def readJsonAst : JU :=\n  " + entry.lean() + "\n")
	b.WriteString("\nend QF.Gen\n")
	return b.String()
}
