package main

// Translation go/ast → HE (lean/QF/Core/HExpr.lean) of the row hash functions of the five column packages:
//
//	func (c Comparable) Hash(i uint32, seed uint64) uint64
//
// As in cast.go the translation is by ROLE, never by identifier name: the receiver is the comparable, the first
// parameter selects the cell, the second one is the seed; local names get their role from their declaration
// (`x := &c.data[i]`, `f := c.data[i]`, `bits := math.Float64bits(f)`, `x, isNull := c.column.bytesAt(i)`,
// `b := [1]byte{0}`). Which field of the Comparable struct holds the column (or its cells) is read off the composite
// literal in `Column.Comparable` (cast.go). A float local carries the canonicalisations applied to it so far
// (`if f == 0 { f = 0 }`, `if math.IsNaN(f) { f = math.NaN() }`, also chained with `else`); `math.Float64bits(f)`
// captures them. Fixed vocabulary: the package names `hash`, `rand`, `math`, `unsafe`, `column`, the functions
// `HashBytes`, `Uint64`, `IsNaN`, `NaN`, `Float64bits`, `Pointer`, `bytesAt`, `isNull`, the result fields and the
// CompareResult constants. Whatever is not understood becomes `.opaque "<text>"`; such a hash function has no
// semantics in the model and the proofs of QF/Props/C04Hash.lean fail on it.

import (
	"fmt"
	"go/ast"
	"go/token"
	"strconv"
	"strings"
)

// hsym is what a Go name (or expression) stands for while a hash function is translated.
type hsym struct {
	kind string // cmp | col | data | ix | seed | cell | cellptr | null | pair | word | wordptr | uptr | arr | arr8ptr | bytes | bytecell | nan | field | const | cond | ret | unknown
	z, n bool   // cell (fcolumn), word, wordptr: the canonicalisations applied
	t    *lt    // arr, arr8ptr, bytes: the HB; cond: the HCond; ret: the HE; field: the CField; const: the CRes
	in   *hsym  // uptr: what the unsafe.Pointer points to
}

type hscope map[string]hsym

func (s hscope) clone() hscope {
	r := hscope{}
	for k, v := range s {
		r[k] = v
	}
	return r
}

func hunbound(sc hscope, e ast.Expr, name string) bool {
	id, ok := e.(*ast.Ident)
	if !ok || id.Name != name {
		return false
	}
	_, b := sc[name]
	return !b
}

// hctx is the package a hash function lives in (the field names come from cast.go's reading of Column.Comparable).
type hctx struct {
	pkg       string
	colField  string
	dataField string
}

func isByteType(e ast.Expr) bool {
	id, ok := e.(*ast.Ident)
	return ok && (id.Name == "byte" || id.Name == "uint8")
}

// the bytes in memory behind a pointer
func (c *hctx) pointee(p hsym) *lt {
	switch p.kind {
	case "cellptr":
		switch c.pkg {
		case "icolumn":
			return lh("HB.rawInt")
		case "fcolumn":
			return lh("HB.floatBits", lh("false"), lh("false"))
		}
	case "wordptr":
		return lh("HB.floatBits", lh(strconv.FormatBool(p.z)), lh(strconv.FormatBool(p.n)))
	}
	return nil
}

func (c *hctx) expr(e ast.Expr, sc hscope) hsym {
	unknown := hsym{kind: "unknown"}
	switch t := e.(type) {
	case *ast.ParenExpr:
		return c.expr(t.X, sc)
	case *ast.Ident:
		if s, ok := sc[t.Name]; ok {
			return s
		}
	case *ast.SelectorExpr:
		if hunbound(sc, t.X, "column") {
			if r, ok := resultConsts[t.Sel.Name]; ok {
				return hsym{kind: "const", t: lh(r)}
			}
			return unknown
		}
		x := c.expr(t.X, sc)
		switch x.kind {
		case "cmp":
			if f, ok := resultFields[t.Sel.Name]; ok {
				return hsym{kind: "field", t: lh(f)}
			}
			if c.dataField != "" && t.Sel.Name == c.dataField {
				return hsym{kind: "data"}
			}
			if c.colField != "" && t.Sel.Name == c.colField {
				return hsym{kind: "col"}
			}
		case "col":
			if f, ok := cellField[c.pkg]; ok && t.Sel.Name == f {
				return hsym{kind: "data"}
			}
		}
	case *ast.IndexExpr:
		x, ix := c.expr(t.X, sc), c.expr(t.Index, sc)
		if x.kind == "data" && ix.kind == "ix" {
			return hsym{kind: "cell"}
		}
	case *ast.UnaryExpr:
		if t.Op != token.AND {
			break
		}
		// only the address of the cell in the column and of a local holding Float64bits: a copy of a cell in a local
		// of another type is not followed
		if ie, ok := unparen(t.X).(*ast.IndexExpr); ok {
			if c.expr(ie, sc).kind == "cell" {
				return hsym{kind: "cellptr"}
			}
			break
		}
		if id, ok := unparen(t.X).(*ast.Ident); ok {
			if s := sc[id.Name]; s.kind == "word" {
				return hsym{kind: "wordptr", z: s.z, n: s.n}
			}
		}
	case *ast.CompositeLit:
		at, ok := t.Type.(*ast.ArrayType)
		if !ok || !isByteType(at.Elt) || len(t.Elts) != 1 {
			break
		}
		kind := "arr"
		if at.Len == nil {
			kind = "bytes"
		} else if bl, ok := at.Len.(*ast.BasicLit); !ok || bl.Kind != token.INT || bl.Value != "1" {
			break
		}
		if bl, ok := unparen(t.Elts[0]).(*ast.BasicLit); ok && bl.Kind == token.INT {
			if v, err := strconv.ParseUint(bl.Value, 0, 8); err == nil {
				return hsym{kind: kind, t: lh("HB.oneByte", lh(strconv.FormatUint(v, 10)))}
			}
			break
		}
		if el := c.expr(t.Elts[0], sc); el.kind == "bytecell" {
			return hsym{kind: kind, t: lh("HB.enumCode")}
		}
	case *ast.SliceExpr:
		if t.Low != nil || t.High != nil || t.Max != nil {
			break
		}
		x := c.expr(t.X, sc)
		if x.kind == "arr" || x.kind == "arr8ptr" || x.kind == "bytes" {
			return hsym{kind: "bytes", t: x.t}
		}
	case *ast.CallExpr:
		// (*[8]byte)(p)
		if pe, ok := t.Fun.(*ast.ParenExpr); ok && len(t.Args) == 1 {
			if st, ok := pe.X.(*ast.StarExpr); ok {
				if at, ok := st.X.(*ast.ArrayType); ok && isByteType(at.Elt) {
					if bl, ok := at.Len.(*ast.BasicLit); ok && bl.Kind == token.INT && bl.Value == "8" {
						if p := c.expr(t.Args[0], sc); p.kind == "uptr" {
							if b := c.pointee(*p.in); b != nil {
								return hsym{kind: "arr8ptr", t: b}
							}
						}
					}
				}
			}
			break
		}
		// byte(cell)
		if isByteType(t.Fun) && len(t.Args) == 1 {
			if _, shadowed := sc[t.Fun.(*ast.Ident).Name]; !shadowed && c.pkg == "ecolumn" {
				if a := c.expr(t.Args[0], sc); a.kind == "cell" {
					return hsym{kind: "bytecell"}
				}
			}
			break
		}
		sel, ok := t.Fun.(*ast.SelectorExpr)
		if !ok {
			break
		}
		switch {
		case hunbound(sc, sel.X, "math"):
			switch {
			case sel.Sel.Name == "IsNaN" && len(t.Args) == 1 && c.pkg == "fcolumn":
				if a := c.expr(t.Args[0], sc); a.kind == "cell" {
					return hsym{kind: "cond", t: lh("HCond.isNaN")}
				}
			case sel.Sel.Name == "NaN" && len(t.Args) == 0:
				return hsym{kind: "nan"}
			case sel.Sel.Name == "Float64bits" && len(t.Args) == 1 && c.pkg == "fcolumn":
				if a := c.expr(t.Args[0], sc); a.kind == "cell" {
					return hsym{kind: "word", z: a.z, n: a.n}
				}
			}
			return unknown
		case hunbound(sc, sel.X, "unsafe"):
			if sel.Sel.Name == "Pointer" && len(t.Args) == 1 {
				if p := c.expr(t.Args[0], sc); p.kind == "cellptr" || p.kind == "wordptr" {
					return hsym{kind: "uptr", in: &p}
				}
			}
			return unknown
		case hunbound(sc, sel.X, "hash"):
			if sel.Sel.Name == "HashBytes" && len(t.Args) == 2 {
				b, s := c.expr(t.Args[0], sc), c.expr(t.Args[1], sc)
				if b.kind == "bytes" && s.kind == "seed" {
					return hsym{kind: "ret", t: lh("HE.hashBytes", b.t)}
				}
			}
			return unknown
		case hunbound(sc, sel.X, "rand"):
			if sel.Sel.Name == "Uint64" && len(t.Args) == 0 {
				return hsym{kind: "ret", t: lh("HE.random")}
			}
			return unknown
		}
		recv := c.expr(sel.X, sc)
		switch {
		case recv.kind == "col" && sel.Sel.Name == "bytesAt" && c.pkg == "scolumn" && len(t.Args) == 1:
			if a := c.expr(t.Args[0], sc); a.kind == "ix" {
				return hsym{kind: "pair"}
			}
		case recv.kind == "cell" && sel.Sel.Name == "isNull" && c.pkg == "ecolumn" && len(t.Args) == 0:
			return hsym{kind: "cond", t: lh("HCond.isNull")}
		}
	}
	return unknown
}

func (c *hctx) cond(e ast.Expr, sc hscope) *lt {
	bad := func() *lt { return ls("HCond.opaque", src(e)) }
	switch t := unparen(e).(type) {
	case *ast.UnaryExpr:
		if t.Op == token.NOT {
			return lh("HCond.not", c.cond(t.X, sc))
		}
		return bad()
	case *ast.BinaryExpr:
		switch t.Op {
		case token.LOR:
			return lh("HCond.or", c.cond(t.X, sc), c.cond(t.Y, sc))
		case token.LAND:
			return lh("HCond.and", c.cond(t.X, sc), c.cond(t.Y, sc))
		case token.EQL, token.NEQ:
			a, b := c.expr(t.X, sc), c.expr(t.Y, sc)
			if a.kind == "const" && b.kind == "field" {
				a, b = b, a
			}
			if a.kind == "field" && b.kind == "const" {
				r := lh("HCond.fieldEq", a.t, b.t)
				if t.Op == token.NEQ {
					r = lh("HCond.not", r)
				}
				return r
			}
		}
		return bad()
	}
	s := c.expr(e, sc)
	switch s.kind {
	case "cond":
		return s.t
	case "null":
		return lh("HCond.isNull")
	case "cell":
		if c.pkg == "bcolumn" {
			return lh("HCond.isTrue")
		}
	}
	return bad()
}

// `lhs := rhs` inside Hash
func (c *hctx) define(as *ast.AssignStmt, sc hscope) bool {
	if as.Tok != token.DEFINE {
		return false
	}
	names := make([]string, len(as.Lhs))
	for i, l := range as.Lhs {
		id, ok := l.(*ast.Ident)
		if !ok {
			return false
		}
		names[i] = id.Name
	}
	var vals []hsym
	switch {
	case len(as.Rhs) == len(as.Lhs):
		for _, r := range as.Rhs {
			v := c.expr(r, sc)
			if v.kind == "unknown" || v.kind == "ret" {
				return false
			}
			vals = append(vals, v)
		}
	case len(as.Lhs) == 2 && len(as.Rhs) == 1:
		if p := c.expr(as.Rhs[0], sc); p.kind != "pair" {
			return false
		}
		vals = []hsym{{kind: "bytes", t: lh("HB.strBytes")}, {kind: "null"}}
	default:
		return false
	}
	for i, n := range names {
		if n != "_" {
			sc[n] = vals[i]
		}
	}
	return true
}

func isZeroLit(e ast.Expr) bool {
	bl, ok := unparen(e).(*ast.BasicLit)
	return ok && ((bl.Kind == token.INT && bl.Value == "0") || (bl.Kind == token.FLOAT && (bl.Value == "0.0" || bl.Value == "0.")))
}

// canonIf recognises the statement that canonicalises a float local,
//
//	if f == 0 { f = 0 }   |   if math.IsNaN(f) { f = math.NaN() }   |   if … { … } else if … { … }
//
// and records the canonicalisation in the local's symbol. The two tests exclude each other and each assignment keeps
// the outcome of both tests, so a chain with `else` has the effect of the statements in sequence.
func (c *hctx) canonIf(s *ast.IfStmt, sc hscope) bool {
	if c.pkg != "fcolumn" {
		return false
	}
	var name string
	var z, n bool
	for cur := s; cur != nil; {
		if cur.Init != nil || len(cur.Body.List) != 1 {
			return false
		}
		as, ok := cur.Body.List[0].(*ast.AssignStmt)
		if !ok || as.Tok != token.ASSIGN || len(as.Lhs) != 1 || len(as.Rhs) != 1 {
			return false
		}
		id, ok := as.Lhs[0].(*ast.Ident)
		if !ok || sc[id.Name].kind != "cell" || (name != "" && id.Name != name) {
			return false
		}
		name = id.Name
		isVar := func(e ast.Expr) bool {
			v, ok := unparen(e).(*ast.Ident)
			return ok && v.Name == name
		}
		switch cond := unparen(cur.Cond).(type) {
		case *ast.BinaryExpr:
			if cond.Op != token.EQL || !((isVar(cond.X) && isZeroLit(cond.Y)) || (isZeroLit(cond.X) && isVar(cond.Y))) || !isZeroLit(as.Rhs[0]) {
				return false
			}
			z = true
		case *ast.CallExpr:
			if len(cond.Args) != 1 || !isVar(cond.Args[0]) || c.cond(cond, sc).head != "HCond.isNaN" || c.expr(as.Rhs[0], sc).kind != "nan" {
				return false
			}
			n = true
		default:
			return false
		}
		switch e := cur.Else.(type) {
		case nil:
			cur = nil
		case *ast.IfStmt:
			cur = e
		default:
			return false
		}
	}
	v := sc[name]
	v.z, v.n = v.z || z, v.n || n
	sc[name] = v
	return true
}

// block translates a statement list every path of which must end in a `return`.
func (c *hctx) block(stmts []ast.Stmt, sc hscope, depth int) *lt {
	if len(stmts) == 0 {
		return ls("HE.opaque", "no return")
	}
	if depth > 40 {
		return ls("HE.opaque", stmtsText(stmts))
	}
	rest := stmts[1:]
	join := func(body []ast.Stmt) []ast.Stmt {
		return append(append([]ast.Stmt{}, body...), rest...)
	}
	switch s := stmts[0].(type) {
	case *ast.ReturnStmt:
		if len(s.Results) == 1 {
			if r := c.expr(s.Results[0], sc); r.kind == "ret" {
				return r.t
			}
		}
	case *ast.AssignStmt:
		sc = sc.clone()
		if c.define(s, sc) {
			return c.block(rest, sc, depth+1)
		}
	case *ast.BlockStmt:
		return c.block(join(s.List), sc.clone(), depth+1)
	case *ast.IfStmt:
		sc = sc.clone()
		if c.canonIf(s, sc) {
			return c.block(rest, sc, depth+1)
		}
		if s.Init != nil {
			as, ok := s.Init.(*ast.AssignStmt)
			if !ok || !c.define(as, sc) {
				break
			}
		}
		cond := c.cond(s.Cond, sc)
		then := c.block(join(s.Body.List), sc, depth+1)
		var els *lt
		switch e := s.Else.(type) {
		case nil:
			els = c.block(rest, sc, depth+1)
		case *ast.BlockStmt:
			els = c.block(join(e.List), sc, depth+1)
		case *ast.IfStmt:
			els = c.block(join([]ast.Stmt{e}), sc, depth+1)
		default:
			els = ls("HE.opaque", src(s.Else))
		}
		return lh("HE.ite", cond, then, els)
	}
	return ls("HE.opaque", stmtsText(stmts))
}

// hashAst translates `func (c Comparable) Hash(i uint32, seed uint64) uint64`.
func (c *hctx) hashAst(fd *ast.FuncDecl) *lt {
	sc := hscope{}
	if fd.Recv == nil || len(fd.Recv.List) != 1 || src(fd.Recv.List[0].Type) != "Comparable" {
		return ls("HE.opaque", "receiver")
	}
	for _, n := range fd.Recv.List[0].Names {
		sc[n.Name] = hsym{kind: "cmp"}
	}
	names := paramNames(fd)
	if len(names) != 2 {
		return ls("HE.opaque", "parameters")
	}
	for i, n := range names {
		if n != "_" {
			sc[n] = hsym{kind: []string{"ix", "seed"}[i]}
		}
	}
	return c.block(fd.Body.List, sc, 0)
}

// hashLean renders QF/Gen/Hash.lean.
func hashLean(pkgs []string, fns map[string]map[string]*ast.FuncDecl) string {
	var asts []string
	for _, p := range pkgs {
		cc := &cctx{pkg: p}
		if fd, ok := fns[p]["Column.Comparable"]; ok {
			cc.comparableAst(fd) // finds the fields of Comparable that hold the column / its cells
		}
		c := &hctx{pkg: p, colField: cc.colField, dataField: cc.dataField}
		t := ls("HE.opaque", "?missing")
		if fd, ok := fns[p]["Comparable.Hash"]; ok {
			t = c.hashAst(fd)
		}
		asts = append(asts, fmt.Sprintf("  (%s, %s)", leanStr(p), t.lean()))
	}
	var b strings.Builder
	b.WriteString("/- GENERATED on every run by /verif/go/cmd/extract from /repo's source (tie T1). Do not edit. -/\nimport QF.Core.HExpr\nnamespace QF.Gen\n\n")
	b.WriteString("/-- `Comparable.Hash` of every column package as a term of `QF.HE`, by role: (package, term) -/\n")
	b.WriteString("def hashAst : List (String × HE) := [\n" + strings.Join(asts, ",\n") + "]\n\nend QF.Gen\n")
	return b.String()
}
