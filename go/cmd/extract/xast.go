package main

// Translation go/ast → XT / XF (lean/QF/Core/XExpr.lean) of the expression decoder of /repo/expression.go.
//
//	func Val(value interface{}) Expression { return <decoder>(value) }      → names the decoder
//	func <decoder>(expr interface{}) Expression                             → ONE decision tree XT (everything inlined)
//	func Expr(name string, args ...interface{}) Expression                  → XF
//
// Method: symbolic execution in continuation-passing style. The argument of the decoder is the raw value `arg`; the
// constructors it calls (`newColExpr`, `newConstExpr`, …, any function of the package) are executed on their symbolic
// arguments, so that all that remains are the run-time decisions — type assertions / type switches / `== nil` on the raw
// argument and on the elements `l[i]` of `l, ok := x.([]interface{})`, `len(l) == n`, and `<decoder>(l[i]).Err() != nil`
// — and the struct values returned. A run-time decision forks the execution (`ite c A B`, each side with its own copy
// of the bindings and its own copy of what follows); decisions known at translation time (`ok` of a constructor that
// just returned `false`, a type switch on `(*string)(nil)`) are taken at once.
//
// By ROLE, never by name: struct types by the multiset of their field types and by their `Err()` method, fields of equal
// type by declaration order, locals by what was assigned to them, functions by being called. Fixed vocabulary: the entry
// points `Val` and `Expr`, the method `Err`, the type `types.ColumnName`, the builtin `len`, `make`, `copy`, the error
// constructors `New` / `Propagate` / `Errorf` of an imported package. Whatever is not understood becomes `.opaque`.

import (
	"go/ast"
	"go/token"
	"path/filepath"
	"sort"
	"strconv"
	"strings"
)

type xv struct {
	kind string
	// raw      an interface{} value of unknown dynamic type: ref (XV)
	// asexpr   ref asserted to the Expression interface
	// str      ref asserted to string;  colname: ref asserted to types.ColumnName
	// list     the argument asserted to []interface{}
	// null     (*string)(nil)
	// cond     a bool: c (XC)
	// struct   a struct value: typ, role, fields
	// sub      <decoder>(l[i]): i;  suberr: its Err()
	// err      a non-nil error;  nilv: nil
	// int      an integer literal: i;  len: len of the list
	ref    *lt
	c      *lt
	i      int
	typ    string
	role   string
	fields map[string]*xv
}

type xscope struct {
	vars   map[string]*xv
	parent *xscope
}

func (s *xscope) push() *xscope { return &xscope{vars: map[string]*xv{}, parent: s} }
func (s *xscope) get(n string) (*xv, bool) {
	for f := s; f != nil; f = f.parent {
		if v, ok := f.vars[n]; ok {
			return v, true
		}
	}
	return nil, false
}
func (s *xscope) bound(n string) bool { _, ok := s.get(n); return ok }
func (s *xscope) set(n string, v *xv) bool {
	for f := s; f != nil; f = f.parent {
		if _, ok := f.vars[n]; ok {
			f.vars[n] = v
			return true
		}
	}
	return false
}
func (s *xscope) clone() *xscope {
	if s == nil {
		return nil
	}
	r := &xscope{vars: map[string]*xv{}, parent: s.parent.clone()}
	for k, v := range s.vars {
		r.vars[k] = v // values are never mutated
	}
	return r
}

type xctx struct {
	fns      map[string]*ast.FuncDecl
	types    map[string]ast.Expr
	imports  map[string]string
	decoder  string // the function Val delegates to
	exprType string // its result type (the Expression interface)
	budget   int
}

type xk func(vs []*xv) *lt

func xtOpaque(n ast.Node) *lt   { return ls("XT.opaque", src(n)) }
func xtOpaqueText(s string) *lt { return ls("XT.opaque", s) }

var xTT, xFF = lh("XC.tt"), lh("XC.ff")

func xcond(c *lt) *xv { return &xv{kind: "cond", c: c} }

func xnot(c *lt) *lt {
	switch c.head {
	case "XC.tt":
		return xFF
	case "XC.ff":
		return xTT
	case "XC.not":
		return c.args[0]
	}
	return lh("XC.not", c)
}

// Go's && / || with the constants folded (a constant left operand decides or disappears; a constant right operand
// disappears only where that does not change the value)
func xand(a, b *lt) *lt {
	switch {
	case a.head == "XC.tt":
		return b
	case a.head == "XC.ff":
		return xFF
	case b.head == "XC.tt":
		return a
	}
	return lh("XC.and", a, b)
}

func xor(a, b *lt) *lt {
	switch {
	case a.head == "XC.ff":
		return b
	case a.head == "XC.tt":
		return xTT
	case b.head == "XC.ff":
		return a
	}
	return lh("XC.or", a, b)
}

func (c *xctx) fork(cond *lt, thn, els func() *lt) *lt {
	switch cond.head {
	case "XC.tt":
		return thn()
	case "XC.ff":
		return els()
	}
	c.budget--
	if c.budget < 0 {
		return xtOpaqueText("?too large")
	}
	return lh("XT.ite", cond, thn(), els())
}

// kind of a type expression in an assertion / a type-switch case
func (c *xctx) kindOf(t ast.Expr, sc *xscope) string {
	if t == nil {
		return ""
	}
	switch src(t) {
	case "int":
		return "int"
	case "float64":
		return "float"
	case "bool":
		return "bool"
	case "string":
		return "str"
	case "*string":
		return "pstr"
	case "[]interface{}", "[]any":
		return "list"
	case "nil":
		return "nil"
	}
	if id, ok := t.(*ast.Ident); ok && id.Name == c.exprType && !sc.bound(id.Name) {
		return "expr"
	}
	if c.isColumnName(t, sc) {
		return "col"
	}
	return ""
}

func (c *xctx) isColumnName(t ast.Expr, sc *xscope) bool {
	sel, ok := t.(*ast.SelectorExpr)
	if !ok || sel.Sel.Name != "ColumnName" {
		return false
	}
	id, ok := sel.X.(*ast.Ident)
	return ok && (sc == nil || !sc.bound(id.Name)) && strings.HasSuffix(c.imports[id.Name], "/types")
}

func xkind(k string) *lt { return lh("XKind." + k) }

// `v.(T)`: (value, ok)
func (c *xctx) assert(v *xv, t ast.Expr, sc *xscope) (*xv, *lt) {
	k := c.kindOf(t, sc)
	if k == "" || k == "nil" {
		return nil, nil
	}
	switch v.kind {
	case "raw":
		ok := lh("XC.is", v.ref, xkind(k))
		switch k {
		case "expr":
			return &xv{kind: "asexpr", ref: v.ref}, ok
		case "col":
			return &xv{kind: "colname", ref: v.ref}, ok
		case "str":
			return &xv{kind: "str", ref: v.ref}, ok
		case "list":
			if v.ref.head == "XV.arg" {
				return &xv{kind: "list"}, ok
			}
		}
	case "null":
		if k == "pstr" {
			return v, xTT
		}
		return &xv{kind: "zero"}, xFF
	}
	return nil, nil
}

// a call that constructs a non-nil error
func (c *xctx) errCall(e ast.Expr, sc *xscope) bool {
	call, ok := unparen(e).(*ast.CallExpr)
	if !ok {
		return false
	}
	sel, ok := call.Fun.(*ast.SelectorExpr)
	if !ok {
		return false
	}
	id, ok := sel.X.(*ast.Ident)
	if !ok || sc.bound(id.Name) || c.imports[id.Name] == "" {
		return false
	}
	switch sel.Sel.Name {
	case "New", "Propagate", "Errorf":
		return true
	}
	return false
}

// structInfo: field names in order, their types
func (c *xctx) structInfo(name string) ([]string, []string, bool) {
	t, ok := c.types[name]
	if !ok {
		return nil, nil, false
	}
	st, ok := t.(*ast.StructType)
	if !ok {
		return nil, nil, false
	}
	n, ty := fieldTypes(st.Fields)
	return n, ty, true
}

func (c *xctx) normType(t string) string {
	switch {
	case t == c.exprType:
		return "Expression"
	case strings.HasSuffix(t, ".ColumnName"):
		return "ColumnName"
	case t == "any":
		return "interface{}"
	}
	return t
}

var xRoles = map[string]string{
	"ColumnName":                         "col",
	"interface{}":                        "const",
	"ColumnName,string":                  "unary",
	"ColumnName,bool,interface{},string": "colConst",
	"ColumnName,ColumnName,string":       "colCol",
	"Expression,string":                  "ex1",
	"Expression,Expression,string":       "ex2",
	"error":                              "error",
}

// role of a struct type: by the multiset of its field types and by its Err() method
func (c *xctx) roleOf(name string) string {
	_, ty, ok := c.structInfo(name)
	if !ok {
		return ""
	}
	norm := make([]string, len(ty))
	for i, t := range ty {
		norm[i] = c.normType(t)
	}
	sort.Strings(norm)
	role := xRoles[strings.Join(norm, ",")]
	if role == "" {
		return ""
	}
	fd, ok := c.fns[name+".Err"]
	if !ok || len(fd.Body.List) != 1 || fd.Type.Params.NumFields() != 0 {
		return ""
	}
	ret, ok := fd.Body.List[0].(*ast.ReturnStmt)
	if !ok || len(ret.Results) != 1 {
		return ""
	}
	if role == "error" {
		// return recv.<the error field>
		if len(fd.Recv.List) != 1 || len(fd.Recv.List[0].Names) != 1 {
			return ""
		}
		sel, ok := unparen(ret.Results[0]).(*ast.SelectorExpr)
		n, _, _ := c.structInfo(name)
		if !ok || !isName(sel.X, fd.Recv.List[0].Names[0].Name) || sel.Sel.Name != n[0] {
			return ""
		}
		return role
	}
	if !isNilIdent(ret.Results[0]) {
		return ""
	}
	return role
}

// expr evaluates an expression; calls of package functions are executed (which may fork), so the value is handed to k.
func (c *xctx) expr(e ast.Expr, sc *xscope, depth int, k xk) *lt {
	e = unparen(e)
	bad := func() *lt { return xtOpaque(e) }
	one := func(v *xv) *lt {
		if v == nil {
			return bad()
		}
		return k([]*xv{v})
	}
	switch t := e.(type) {
	case *ast.Ident:
		if v, ok := sc.get(t.Name); ok {
			return one(v)
		}
		switch t.Name {
		case "nil":
			return one(&xv{kind: "nilv"})
		case "true":
			return one(xcond(xTT))
		case "false":
			return one(xcond(xFF))
		}
		return bad()
	case *ast.BasicLit:
		if t.Kind == token.INT {
			if n, err := strconv.Atoi(t.Value); err == nil {
				return one(&xv{kind: "int", i: n})
			}
		}
		return bad()
	case *ast.TypeAssertExpr:
		return c.expr(t.X, sc, depth, func(vs []*xv) *lt {
			if len(vs) != 1 {
				return bad()
			}
			v, ok := c.assert(vs[0], t.Type, sc)
			if v == nil {
				return bad()
			}
			return k([]*xv{v, xcond(ok)})
		})
	case *ast.IndexExpr:
		return c.expr(t.X, sc, depth, func(vs []*xv) *lt {
			if len(vs) != 1 || vs[0].kind != "list" {
				return bad()
			}
			return c.expr(t.Index, sc, depth, func(is []*xv) *lt {
				if len(is) != 1 || is[0].kind != "int" || is[0].i < 0 {
					return bad()
				}
				return one(&xv{kind: "raw", ref: lh("XV.elem", lh(strconv.Itoa(is[0].i)))})
			})
		})
	case *ast.SelectorExpr:
		return c.expr(t.X, sc, depth, func(vs []*xv) *lt {
			if len(vs) != 1 || vs[0].kind != "struct" {
				return bad()
			}
			return one(vs[0].fields[t.Sel.Name])
		})
	case *ast.UnaryExpr:
		if t.Op == token.NOT {
			return c.expr(t.X, sc, depth, func(vs []*xv) *lt {
				if len(vs) != 1 || vs[0].kind != "cond" {
					return bad()
				}
				return one(xcond(xnot(vs[0].c)))
			})
		}
		return bad()
	case *ast.BinaryExpr:
		return c.expr(t.X, sc, depth, func(xs []*xv) *lt {
			if len(xs) != 1 {
				return bad()
			}
			return c.expr(t.Y, sc, depth, func(ys []*xv) *lt {
				if len(ys) != 1 {
					return bad()
				}
				x, y := xs[0], ys[0]
				switch t.Op {
				case token.LAND, token.LOR:
					// the operands have no effects (calls that fork are not conditions here), so evaluating both is harmless
					if x.kind != "cond" || y.kind != "cond" {
						return bad()
					}
					if t.Op == token.LAND {
						return one(xcond(xand(x.c, y.c)))
					}
					return one(xcond(xor(x.c, y.c)))
				case token.EQL, token.NEQ:
					var r *lt
					switch {
					case x.kind == "len" && y.kind == "int":
						r = lh("XC.lenIs", lh(strconv.Itoa(y.i)))
					case x.kind == "int" && y.kind == "len":
						r = lh("XC.lenIs", lh(strconv.Itoa(x.i)))
					case x.kind == "raw" && y.kind == "nilv":
						r = lh("XC.is", x.ref, xkind("nil"))
					case x.kind == "nilv" && y.kind == "raw":
						r = lh("XC.is", y.ref, xkind("nil"))
					case (x.kind == "null" && y.kind == "nilv") || (x.kind == "nilv" && y.kind == "null"):
						r = xFF // an interface holding a typed nil pointer is not nil
					case x.kind == "suberr" && y.kind == "nilv":
						r = xnot(lh("XC.subErr", lh("XV.elem", lh(strconv.Itoa(x.i)))))
					case x.kind == "nilv" && y.kind == "suberr":
						r = xnot(lh("XC.subErr", lh("XV.elem", lh(strconv.Itoa(y.i)))))
					default:
						return bad()
					}
					if t.Op == token.NEQ {
						r = xnot(r)
					}
					return one(xcond(r))
				}
				return bad()
			})
		})
	case *ast.CompositeLit:
		return c.composite(t, sc, depth, k)
	case *ast.CallExpr:
		return c.call(t, sc, depth, k)
	}
	return bad()
}

func (c *xctx) exprs(es []ast.Expr, sc *xscope, depth int, k xk) *lt {
	if len(es) == 0 {
		return k(nil)
	}
	return c.expr(es[0], sc, depth, func(vs []*xv) *lt {
		if len(vs) != 1 {
			return xtOpaque(es[0])
		}
		return c.exprs(es[1:], sc, depth, func(rest []*xv) *lt {
			return k(append([]*xv{vs[0]}, rest...))
		})
	})
}

func (c *xctx) composite(t *ast.CompositeLit, sc *xscope, depth int, k xk) *lt {
	// []interface{}{…} is only understood in Expr (exprFold), not in the decoder
	id, ok := t.Type.(*ast.Ident)
	if !ok || sc.bound(id.Name) {
		return xtOpaque(t)
	}
	names, _, ok := c.structInfo(id.Name)
	if !ok {
		return xtOpaque(t)
	}
	role := c.roleOf(id.Name)
	if role == "" {
		return xtOpaqueText("?struct type without a role: " + id.Name)
	}
	var keys []string
	var vals []ast.Expr
	for i, el := range t.Elts {
		if kv, ok := el.(*ast.KeyValueExpr); ok {
			kid, ok := kv.Key.(*ast.Ident)
			if !ok {
				return xtOpaque(t)
			}
			keys = append(keys, kid.Name)
			vals = append(vals, kv.Value)
		} else {
			if i >= len(names) {
				return xtOpaque(t)
			}
			keys = append(keys, names[i])
			vals = append(vals, el)
		}
	}
	return c.exprs(vals, sc, depth, func(vs []*xv) *lt {
		f := map[string]*xv{}
		for i, key := range keys {
			f[key] = vs[i]
		}
		return k([]*xv{{kind: "struct", typ: id.Name, role: role, fields: f}})
	})
}

func (c *xctx) call(t *ast.CallExpr, sc *xscope, depth int, k xk) *lt {
	bad := func() *lt { return xtOpaque(t) }
	// (*string)(nil)
	if p, ok := t.Fun.(*ast.ParenExpr); ok && src(p.X) == "*string" && len(t.Args) == 1 && isNilIdent(t.Args[0]) && !sc.bound("nil") && !sc.bound("string") {
		return k([]*xv{{kind: "null"}})
	}
	if c.errCall(t, sc) {
		return k([]*xv{{kind: "err"}})
	}
	switch fn := t.Fun.(type) {
	case *ast.Ident:
		if sc.bound(fn.Name) {
			return bad()
		}
		if fn.Name == "len" && len(t.Args) == 1 {
			return c.expr(t.Args[0], sc, depth, func(vs []*xv) *lt {
				if len(vs) != 1 || vs[0].kind != "list" {
					return bad()
				}
				return k([]*xv{{kind: "len"}})
			})
		}
		fd, ok := c.fns[fn.Name]
		if !ok || fd.Recv != nil || depth > 6 {
			return bad()
		}
		return c.exprs(t.Args, sc, depth, func(args []*xv) *lt {
			if fn.Name == c.decoder {
				// the decoder on an element of the list: the decoded sub-expression
				if len(args) == 1 && args[0].kind == "raw" && args[0].ref.head == "XV.elem" {
					i, _ := strconv.Atoi(args[0].ref.args[0].head)
					return k([]*xv{{kind: "sub", i: i}})
				}
				return bad()
			}
			pn, _ := fieldTypes(fd.Type.Params)
			if len(pn) != len(args) || fd.Type.Params.NumFields() != len(args) {
				return bad()
			}
			inner := &xscope{vars: map[string]*xv{}}
			for i, n := range pn {
				inner.vars[n] = args[i]
			}
			return c.stmts(fd.Body.List, inner, depth+1, k, func(*xscope) *lt { return xtOpaqueText("?no return in " + fn.Name) })
		})
	case *ast.SelectorExpr:
		// <sub>.Err()
		if fn.Sel.Name == "Err" && len(t.Args) == 0 {
			return c.expr(fn.X, sc, depth, func(vs []*xv) *lt {
				if len(vs) != 1 || vs[0].kind != "sub" {
					return bad()
				}
				return k([]*xv{{kind: "suberr", i: vs[0].i}})
			})
		}
	}
	return bad()
}

// stmts executes a statement list; ret: a `return` of the function being executed; k: falling off the end of the list.
func (c *xctx) stmts(list []ast.Stmt, sc *xscope, depth int, ret xk, k func(*xscope) *lt) *lt {
	if len(list) == 0 {
		return k(sc)
	}
	st, rest := list[0], list[1:]
	next := func(sc *xscope) *lt { return c.stmts(rest, sc, depth, ret, k) }
	block := func(body []ast.Stmt, sc *xscope) *lt {
		return c.stmts(body, sc.push(), depth, ret, func(in *xscope) *lt { return next(in.parent) })
	}
	switch s := st.(type) {
	case *ast.ReturnStmt:
		if len(s.Results) == 1 {
			// `return f(x)` hands on all results of f
			return c.expr(s.Results[0], sc, depth, ret)
		}
		return c.exprs(s.Results, sc, depth, ret)
	case *ast.BlockStmt:
		return block(s.List, sc)
	case *ast.DeclStmt:
		gd, ok := s.Decl.(*ast.GenDecl)
		if !ok || gd.Tok != token.VAR {
			return xtOpaque(s)
		}
		sc2 := sc.clone()
		for _, sp := range gd.Specs {
			vs, ok := sp.(*ast.ValueSpec)
			if !ok || len(vs.Values) != 0 || vs.Type == nil || src(vs.Type) != "bool" {
				return xtOpaque(s)
			}
			for _, n := range vs.Names {
				sc2.vars[n.Name] = xcond(xFF)
			}
		}
		return next(sc2)
	case *ast.AssignStmt:
		return c.assign(s, sc, depth, next)
	case *ast.IfStmt:
		run := func(sc *xscope) *lt {
			return c.expr(s.Cond, sc, depth, func(vs []*xv) *lt {
				if len(vs) != 1 || vs[0].kind != "cond" {
					return xtOpaque(s.Cond)
				}
				return c.fork(vs[0].c,
					func() *lt { return block(s.Body.List, sc.clone()) },
					func() *lt {
						switch e := s.Else.(type) {
						case nil:
							return next(sc.clone())
						case *ast.BlockStmt:
							return block(e.List, sc.clone())
						case *ast.IfStmt:
							return block([]ast.Stmt{e}, sc.clone())
						}
						return xtOpaque(s)
					})
			})
		}
		if s.Init != nil {
			// `if init; c { … }` is `{ init; if c { … } }`
			plain := *s
			plain.Init = nil
			return block([]ast.Stmt{s.Init, &plain}, sc)
		}
		return run(sc)
	case *ast.TypeSwitchStmt:
		return c.typeSwitch(s, sc, depth, ret, next)
	}
	return xtOpaque(st)
}

func (c *xctx) assign(s *ast.AssignStmt, sc *xscope, depth int, next func(*xscope) *lt) *lt {
	if s.Tok != token.DEFINE && s.Tok != token.ASSIGN {
		return xtOpaque(s)
	}
	store := func(vs []*xv) *lt {
		if len(vs) != len(s.Lhs) {
			return xtOpaque(s)
		}
		sc2 := sc.clone()
		for i, l := range s.Lhs {
			id, ok := l.(*ast.Ident)
			if !ok {
				return xtOpaque(s)
			}
			if id.Name == "_" {
				continue
			}
			if s.Tok == token.DEFINE {
				sc2.vars[id.Name] = vs[i]
				continue
			}
			if !sc2.set(id.Name, vs[i]) {
				return xtOpaque(s)
			}
		}
		return next(sc2)
	}
	if len(s.Rhs) == 1 {
		return c.expr(s.Rhs[0], sc, depth, store)
	}
	return c.exprs(s.Rhs, sc, depth, store)
}

// switch v.(type) { case A, B: …; default: … } without a binding
func (c *xctx) typeSwitch(s *ast.TypeSwitchStmt, sc *xscope, depth int, ret xk, next func(*xscope) *lt) *lt {
	es, ok := s.Assign.(*ast.ExprStmt)
	if !ok || s.Init != nil {
		return xtOpaque(s)
	}
	ta, ok := es.X.(*ast.TypeAssertExpr)
	if !ok || ta.Type != nil {
		return xtOpaque(s)
	}
	return c.expr(ta.X, sc, depth, func(vs []*xv) *lt {
		if len(vs) != 1 {
			return xtOpaque(s)
		}
		v := vs[0]
		var clauses []*ast.CaseClause
		var dflt *ast.CaseClause
		for _, cl := range s.Body.List {
			cc := cl.(*ast.CaseClause)
			if cc.List == nil {
				dflt = cc
			} else {
				clauses = append(clauses, cc)
			}
		}
		body := func(cc *ast.CaseClause) *lt {
			if cc == nil {
				return next(sc.clone())
			}
			for _, st := range cc.Body {
				if containsBranch(st) {
					return xtOpaque(s)
				}
			}
			return c.stmts(cc.Body, sc.clone().push(), depth, ret, func(in *xscope) *lt { return next(in.parent) })
		}
		var chain func(i int) *lt
		chain = func(i int) *lt {
			if i == len(clauses) {
				return body(dflt)
			}
			cond := xFF
			for _, t := range clauses[i].List {
				k := c.kindOf(t, sc)
				if k == "" {
					return xtOpaque(t)
				}
				switch v.kind {
				case "raw":
					cond = xor(cond, lh("XC.is", v.ref, xkind(k)))
				case "null":
					if k == "pstr" {
						cond = xTT
					}
				default:
					return xtOpaque(s)
				}
			}
			return c.fork(cond, func() *lt { return body(clauses[i]) }, func() *lt { return chain(i + 1) })
		}
		return chain(0)
	})
}

func xref(v *xv, kind string) *lt {
	if v != nil && v.kind == kind {
		return v.ref
	}
	return nil
}

// node turns a returned value into a leaf
func (c *xctx) node(v *xv) *lt {
	bad := func(why string) *lt { return xtOpaqueText("?return: " + why) }
	switch v.kind {
	case "asexpr":
		return lh("XT.ret", lh("XN.same", v.ref))
	case "struct":
	default:
		return bad(v.kind)
	}
	names, types, _ := c.structInfo(v.typ)
	byType := map[string][]*xv{}
	for i, n := range names {
		t := c.normType(types[i])
		byType[t] = append(byType[t], v.fields[n])
	}
	xk := func(f *xv) *lt {
		switch {
		case f == nil:
		case f.kind == "raw":
			return lh("XK.of", f.ref)
		case f.kind == "null":
			return lh("XK.null")
		}
		return nil
	}
	sub := func(f *xv) *lt {
		if f != nil && f.kind == "sub" {
			return lh(strconv.Itoa(f.i))
		}
		return nil
	}
	var n *lt
	ok := true
	mk := func(head string, args ...*lt) {
		for _, a := range args {
			if a == nil {
				ok = false
				return
			}
		}
		n = lh(head, args...)
	}
	switch v.role {
	case "col":
		mk("XN.col", xref(byType["ColumnName"][0], "colname"))
	case "const":
		mk("XN.const", xk(byType["interface{}"][0]))
	case "unary":
		mk("XN.unary", xref(byType["string"][0], "str"), xref(byType["ColumnName"][0], "colname"))
	case "colConst":
		var cf *lt
		if b := byType["bool"][0]; b != nil && b.kind == "cond" {
			switch b.c.head {
			case "XC.tt":
				cf = lh("true")
			case "XC.ff":
				cf = lh("false")
			}
		}
		mk("XN.colConst", xref(byType["string"][0], "str"), xref(byType["ColumnName"][0], "colname"), xk(byType["interface{}"][0]), cf)
	case "colCol":
		mk("XN.colCol", xref(byType["string"][0], "str"), xref(byType["ColumnName"][0], "colname"), xref(byType["ColumnName"][1], "colname"))
	case "ex1":
		mk("XN.ex1", xref(byType["string"][0], "str"), sub(byType["Expression"][0]))
	case "ex2":
		mk("XN.ex2", xref(byType["string"][0], "str"), sub(byType["Expression"][0]), sub(byType["Expression"][1]))
	case "error":
		if f := byType["error"][0]; f != nil && f.kind == "err" {
			n = lh("XN.error")
		} else {
			ok = false
		}
	default:
		ok = false
	}
	if !ok || n == nil {
		return bad("a field of " + v.typ + " (" + v.role + ") without a value of its role")
	}
	return lh("XT.ret", n)
}

func (c *xctx) decoderTree() *lt {
	fd, ok := c.fns[c.decoder]
	if !ok || fd.Recv != nil || fd.Type.Params.NumFields() != 1 {
		return xtOpaqueText("?missing decoder")
	}
	pn, pt := fieldTypes(fd.Type.Params)
	if pt[0] != "interface{}" && pt[0] != "any" {
		return xtOpaqueText("?decoder signature")
	}
	sc := &xscope{vars: map[string]*xv{pn[0]: {kind: "raw", ref: lh("XV.arg")}}}
	c.budget = 20000
	return c.stmts(fd.Body.List, sc, 0, func(vs []*xv) *lt {
		if len(vs) != 1 {
			return xtOpaqueText("?return arity")
		}
		return c.node(vs[0])
	}, func(*xscope) *lt { return xtOpaqueText("?no return") })
}

// ---- Expr(name, args...) → XF ----

type xfctx struct {
	*xctx
	self, name, args string
}

func xfOpaque(n ast.Node) *lt { return ls("XF.opaque", src(n)) }

// args[i]
func (c *xfctx) argIx(e ast.Expr, slice string) (int, bool) {
	ix, ok := unparen(e).(*ast.IndexExpr)
	if !ok || !isName(ix.X, slice) {
		return 0, false
	}
	bl, ok := unparen(ix.Index).(*ast.BasicLit)
	if !ok || bl.Kind != token.INT {
		return 0, false
	}
	n, err := strconv.Atoi(bl.Value)
	return n, err == nil
}

// <decoder>([]interface{}{name, args[i], …}) or the error struct
func (c *xfctx) result(e ast.Expr) *lt {
	e = unparen(e)
	if cl, ok := e.(*ast.CompositeLit); ok {
		if id, ok := cl.Type.(*ast.Ident); ok && c.roleOf(id.Name) == "error" && len(cl.Elts) == 1 {
			v := cl.Elts[0]
			if kv, ok := v.(*ast.KeyValueExpr); ok {
				v = kv.Value
			}
			if c.errCall(v, &xscope{vars: map[string]*xv{}}) {
				return lh("XFR.error")
			}
		}
		return nil
	}
	call, ok := e.(*ast.CallExpr)
	if !ok || !isName(call.Fun, c.decoder) || len(call.Args) != 1 {
		return nil
	}
	cl, ok := unparen(call.Args[0]).(*ast.CompositeLit)
	if !ok || (src(cl.Type) != "[]interface{}" && src(cl.Type) != "[]any") {
		return nil
	}
	var items []*lt
	for _, el := range cl.Elts {
		if isName(el, c.name) {
			items = append(items, lh("XFV.name"))
			continue
		}
		i, ok := c.argIx(el, c.args)
		if !ok {
			return nil
		}
		items = append(items, lh("XFV.arg", lh(strconv.Itoa(i))))
	}
	return lh("XFR.decode", ll(items))
}

// len(args) == n
func (c *xfctx) lenTest(e ast.Expr) (int, bool) {
	be, ok := unparen(e).(*ast.BinaryExpr)
	if !ok || be.Op != token.EQL {
		return 0, false
	}
	call, ok := unparen(be.X).(*ast.CallExpr)
	if !ok || !isName(call.Fun, "len") || len(call.Args) != 1 || !isName(call.Args[0], c.args) {
		return 0, false
	}
	bl, ok := unparen(be.Y).(*ast.BasicLit)
	if !ok || bl.Kind != token.INT {
		return 0, false
	}
	n, err := strconv.Atoi(bl.Value)
	return n, err == nil
}

// x[n:] → (x, n)
func sliceFrom(e ast.Expr) (string, int, bool) {
	se, ok := unparen(e).(*ast.SliceExpr)
	if !ok || se.High != nil || se.Max != nil || se.Low == nil {
		return "", 0, false
	}
	id, ok := se.X.(*ast.Ident)
	bl, ok2 := unparen(se.Low).(*ast.BasicLit)
	if !ok || !ok2 || bl.Kind != token.INT {
		return "", 0, false
	}
	n, err := strconv.Atoi(bl.Value)
	return id.Name, n, err == nil
}

// return <self>(name, s...)
func (c *xfctx) tailCall(st ast.Stmt) (ast.Expr, bool) {
	ret, ok := st.(*ast.ReturnStmt)
	if !ok || len(ret.Results) != 1 {
		return nil, false
	}
	call, ok := unparen(ret.Results[0]).(*ast.CallExpr)
	if !ok || !isName(call.Fun, c.self) || len(call.Args) != 2 || !call.Ellipsis.IsValid() || !isName(call.Args[0], c.name) {
		return nil, false
	}
	return call.Args[1], true
}

func (c *xfctx) body(list []ast.Stmt) *lt {
	if len(list) == 0 {
		return ls("XF.opaque", "?no return")
	}
	st := list[0]
	if ifs, ok := st.(*ast.IfStmt); ok && ifs.Init == nil && ifs.Else == nil && len(ifs.Body.List) == 1 {
		if n, ok := c.lenTest(ifs.Cond); ok {
			if ret, ok := ifs.Body.List[0].(*ast.ReturnStmt); ok && len(ret.Results) == 1 {
				if r := c.result(ret.Results[0]); r != nil {
					return lh("XF.ifLen", lh(strconv.Itoa(n)), r, c.body(list[1:]))
				}
			}
		}
		return xfOpaque(st)
	}
	// the fresh-slice step: s := make([]interface{}, len(args)-d); s[0] = R; copy(s[1:], args[j:]); return self(name, s...)
	if len(list) == 4 {
		as, ok1 := list[0].(*ast.AssignStmt)
		set, ok2 := list[1].(*ast.AssignStmt)
		cp, ok3 := list[2].(*ast.ExprStmt)
		tail, ok4 := c.tailCall(list[3])
		if ok1 && ok2 && ok3 && ok4 && as.Tok == token.DEFINE && len(as.Lhs) == 1 && len(as.Rhs) == 1 && set.Tok == token.ASSIGN && len(set.Lhs) == 1 && len(set.Rhs) == 1 {
			if id, ok := as.Lhs[0].(*ast.Ident); ok && id.Name != c.args && id.Name != c.name && id.Name != "_" {
				s := id.Name
				mk, ok := unparen(as.Rhs[0]).(*ast.CallExpr)
				d := -1
				if ok && isName(mk.Fun, "make") && len(mk.Args) == 2 && (src(mk.Args[0]) == "[]interface{}" || src(mk.Args[0]) == "[]any") {
					if be, ok := unparen(mk.Args[1]).(*ast.BinaryExpr); ok && be.Op == token.SUB {
						if call, ok := unparen(be.X).(*ast.CallExpr); ok && isName(call.Fun, "len") && len(call.Args) == 1 && isName(call.Args[0], c.args) {
							if bl, ok := unparen(be.Y).(*ast.BasicLit); ok && bl.Kind == token.INT {
								d, _ = strconv.Atoi(bl.Value)
							}
						}
					}
				}
				i0, okI := c.argIx(set.Lhs[0], s)
				first := c.result(set.Rhs[0])
				call, okC := cp.X.(*ast.CallExpr)
				if d >= 0 && okI && i0 == 0 && first != nil && okC && isName(call.Fun, "copy") && len(call.Args) == 2 && isName(tail, s) {
					dn, df, okD := sliceFrom(call.Args[0])
					sn, sf, okS := sliceFrom(call.Args[1])
					if okD && okS && dn == s && df == 1 && sn == c.args {
						return lh("XF.foldFresh", lh(strconv.Itoa(d)), lh(strconv.Itoa(sf)), first)
					}
				}
			}
		}
	}
	// the in-place step: args[i] = R; return self(name, args[i:]...)
	if len(list) == 2 {
		set, ok1 := list[0].(*ast.AssignStmt)
		tail, ok2 := c.tailCall(list[1])
		if ok1 && ok2 && set.Tok == token.ASSIGN && len(set.Lhs) == 1 && len(set.Rhs) == 1 {
			i, okI := c.argIx(set.Lhs[0], c.args)
			first := c.result(set.Rhs[0])
			tn, tf, okT := sliceFrom(tail)
			if okI && first != nil && okT && tn == c.args && tf == i {
				return lh("XF.foldInPlace", lh(strconv.Itoa(i)), first)
			}
		}
	}
	return xfOpaque(st)
}

func (c *xctx) exprFold() *lt {
	fd, ok := c.fns["Expr"]
	if !ok || fd.Recv != nil || fd.Type.Params == nil || len(fd.Type.Params.List) != 2 {
		return ls("XF.opaque", "?missing")
	}
	p0, p1 := fd.Type.Params.List[0], fd.Type.Params.List[1]
	el, isVar := p1.Type.(*ast.Ellipsis)
	if len(p0.Names) != 1 || len(p1.Names) != 1 || src(p0.Type) != "string" || !isVar || (src(el.Elt) != "interface{}" && src(el.Elt) != "any") {
		return ls("XF.opaque", "?signature")
	}
	f := &xfctx{xctx: c, self: "Expr", name: p0.Names[0].Name, args: p1.Names[0].Name}
	for _, reserved := range []string{"len", "make", "copy", c.decoder, "Expr"} {
		if f.name == reserved || f.args == reserved {
			return ls("XF.opaque", "?shadowing")
		}
	}
	return f.body(fd.Body.List)
}

func exprDecodeLean(repo string, rootFiles map[string]*ast.File) string {
	c := &xctx{fns: funcDecls(rootFiles), types: typeDecls(rootFiles), imports: map[string]string{}}
	// the import names are those of the file that declares Val
	for name, f := range rootFiles {
		for _, d := range f.Decls {
			if fd, ok := d.(*ast.FuncDecl); ok && fd.Recv == nil && fd.Name.Name == "Val" {
				c.imports = importsOf(map[string]*ast.File{filepath.Base(name): f})
			}
		}
	}
	// Val(value interface{}) Expression { return <decoder>(value) }
	if fd, ok := c.fns["Val"]; ok && fd.Recv == nil && len(fd.Body.List) == 1 && fd.Type.Params.NumFields() == 1 && fd.Type.Results.NumFields() == 1 {
		pn, _ := fieldTypes(fd.Type.Params)
		if ret, ok := fd.Body.List[0].(*ast.ReturnStmt); ok && len(ret.Results) == 1 {
			if call, ok := unparen(ret.Results[0]).(*ast.CallExpr); ok && len(call.Args) == 1 && isName(call.Args[0], pn[0]) {
				if id, ok := call.Fun.(*ast.Ident); ok && id.Name != pn[0] {
					c.decoder = id.Name
					c.exprType = src(fd.Type.Results.List[0].Type)
				}
			}
		}
	}
	tree := xtOpaqueText("?Val does not delegate to a decoder")
	fold := ls("XF.opaque", "?missing")
	if c.decoder != "" {
		tree = c.decoderTree()
		fold = c.exprFold()
	}
	var b strings.Builder
	b.WriteString("/- GENERATED on every run by /verif/go/cmd/extract from /repo's source (tie T1). Do not edit. -/\nimport QF.Core.XExpr\nnamespace QF.Gen\n\n")
	b.WriteString("/-- the expression decoder of expression.go (the function `Val` delegates to, every constructor inlined) as ONE decision tree `QF.XT` over the raw argument, by role -/\n")
	b.WriteString("def newExprAst : XT :=\n  " + tree.lean() + "\n\n")
	b.WriteString("/-- `Expr(name, args...)` translated to `QF.XF` -/\ndef exprFoldAst : XF :=\n  " + fold.lean() + "\n\nend QF.Gen\n")
	return b.String()
}
