package main

// Translation go/ast → AE (lean/QF/Core/AExpr.lean) of the built-in aggregations:
//
//	var aggregations = map[string]func([]int) int{"sum": sum, …}     the map Column.Aggregate indexes with the name
//	func sum(values []int) int { result := 0; for _, v := range values { result += v }; return result }
//	if agg.Fn == "count" { … counts[i] = len(ix) … }                  the special case of Grouper.Aggregate (grouper.go)
//
// As in the other translators everything is found and named by ROLE, never by identifier: the map is the package-level
// map of functions that `Column.Aggregate` indexes; in a function the parameter is the slice of the group's values,
// the variable defined first is the accumulator, the value variable of the `range` loop the current element; the two
// variables of a counting loop are the first / second counter. A call of a two-parameter selection function
// (`integer.Max(result, v)`; the callee is looked up through the file's imports, inside the repository) is replaced
// by the callee's body with the arguments for its parameters. Fixed vocabulary: `math.Max`, `math.Min`, `len`,
// `float64`, `make`, and `icolumn.New` / `.Aggregate(` in grouper.go. Whatever is not understood becomes `.opaque
// "<text>"`; such an aggregation has no semantics in the model and the proofs of QF/Props/C04Aggregations.lean fail.

import (
	"fmt"
	"go/ast"
	"go/token"
	"os"
	"path/filepath"
	"sort"
	"strconv"
	"strings"
)

type actx struct {
	repo    string
	module  string
	files   map[string]*ast.File
	fns     map[string]*ast.FuncDecl
	imports map[string]string // local package name → import path
	other   map[string]map[string]*ast.FuncDecl
}

func modulePath(repo string) string {
	data, err := os.ReadFile(filepath.Join(repo, "go.mod"))
	if err != nil {
		return ""
	}
	for _, l := range strings.Split(string(data), "\n") {
		f := strings.Fields(l)
		if len(f) == 2 && f[0] == "module" {
			return f[1]
		}
	}
	return ""
}

func importsOf(files map[string]*ast.File) map[string]string {
	res := map[string]string{}
	for _, f := range files {
		for _, im := range f.Imports {
			p, err := strconv.Unquote(im.Path.Value)
			if err != nil {
				continue
			}
			name := p[strings.LastIndex(p, "/")+1:]
			if im.Name != nil {
				name = im.Name.Name
			}
			if old, ok := res[name]; ok && old != p {
				res[name] = "?ambiguous"
				continue
			}
			res[name] = p
		}
	}
	return res
}

func newActx(repo, dir string) *actx {
	files := parseDir(dir)
	return &actx{repo: repo, module: modulePath(repo), files: files, fns: funcDecls(files), imports: importsOf(files), other: map[string]map[string]*ast.FuncDecl{}}
}

// the declaration of the function a call names: a function of this package or of another package of the repository
func (c *actx) callee(fun ast.Expr, bound map[string]bool) *ast.FuncDecl {
	switch f := unparen(fun).(type) {
	case *ast.Ident:
		if bound[f.Name] {
			return nil
		}
		if fd, ok := c.fns[f.Name]; ok && fd.Recv == nil {
			return fd
		}
	case *ast.SelectorExpr:
		id, ok := f.X.(*ast.Ident)
		if !ok || bound[id.Name] {
			return nil
		}
		p, ok := c.imports[id.Name]
		if !ok || c.module == "" || !strings.HasPrefix(p, c.module+"/") {
			return nil
		}
		fns, ok := c.other[p]
		if !ok {
			fns = funcDecls(parseDir(filepath.Join(c.repo, filepath.FromSlash(strings.TrimPrefix(p, c.module+"/")))))
			c.other[p] = fns
		}
		if fd, ok := fns[f.Sel.Name]; ok && fd.Recv == nil {
			return fd
		}
	}
	return nil
}

var cmpOps = map[token.Token]string{token.LSS: "<", token.LEQ: "<=", token.GTR: ">", token.GEQ: ">=", token.EQL: "==", token.NEQ: "!="}

// sel translates a call of `func(x, y T) T { if x op y { return p }; return q }` (p, q, and the operands among x, y).
func (c *actx) sel(fd *ast.FuncDecl, args []*lt) *lt {
	names := paramNames(fd)
	if len(names) != 2 || len(args) != 2 || names[0] == names[1] || names[0] == "_" || names[1] == "_" {
		return nil
	}
	param := func(e ast.Expr) *lt {
		if id, ok := unparen(e).(*ast.Ident); ok {
			for i, n := range names {
				if id.Name == n {
					return args[i]
				}
			}
		}
		return nil
	}
	ret := func(s ast.Stmt) *lt {
		if r, ok := s.(*ast.ReturnStmt); ok && len(r.Results) == 1 {
			return param(r.Results[0])
		}
		return nil
	}
	body := fd.Body.List
	if len(body) == 0 {
		return nil
	}
	ifs, ok := body[0].(*ast.IfStmt)
	if !ok || ifs.Init != nil || len(ifs.Body.List) != 1 {
		return nil
	}
	var els ast.Stmt
	switch e := ifs.Else.(type) {
	case nil:
		if len(body) != 2 {
			return nil
		}
		els = body[1]
	case *ast.BlockStmt:
		if len(body) != 1 || len(e.List) != 1 {
			return nil
		}
		els = e.List[0]
	default:
		return nil
	}
	cond, ok := unparen(ifs.Cond).(*ast.BinaryExpr)
	if !ok {
		return nil
	}
	op, ok := cmpOps[cond.Op]
	a, b, t, e := param(cond.X), param(cond.Y), ret(ifs.Body.List[0]), ret(els)
	if !ok || a == nil || b == nil || t == nil || e == nil {
		return nil
	}
	return &lt{head: "AX.sel", str: &op, args: []*lt{a, b, t, e}}
}

// ax translates a step expression; acc / v are the names of the accumulator and of the current element.
func (c *actx) ax(e ast.Expr, acc, v string, bound map[string]bool) *lt {
	bad := func() *lt { return ls("AX.opaque", src(e)) }
	switch t := unparen(e).(type) {
	case *ast.Ident:
		switch t.Name {
		case acc:
			return lh("AX.acc")
		case v:
			return lh("AX.v")
		}
	case *ast.BinaryExpr:
		if t.Op == token.ADD {
			return lh("AX.add", c.ax(t.X, acc, v, bound), c.ax(t.Y, acc, v, bound))
		}
	case *ast.CallExpr:
		if len(t.Args) != 2 {
			return bad()
		}
		args := []*lt{c.ax(t.Args[0], acc, v, bound), c.ax(t.Args[1], acc, v, bound)}
		if sel, ok := t.Fun.(*ast.SelectorExpr); ok {
			if id, ok := sel.X.(*ast.Ident); ok && id.Name == "math" && !bound["math"] && c.imports["math"] == "math" {
				switch sel.Sel.Name {
				case "Max":
					return lh("AX.mathMax", args...)
				case "Min":
					return lh("AX.mathMin", args...)
				}
				return bad()
			}
		}
		if fd := c.callee(t.Fun, bound); fd != nil {
			if r := c.sel(fd, args); r != nil {
				return r
			}
		}
	}
	return bad()
}

func identName(e ast.Expr) string {
	if id, ok := unparen(e).(*ast.Ident); ok {
		return id.Name
	}
	return ""
}

func isIntLit(e ast.Expr, v string) bool {
	bl, ok := unparen(e).(*ast.BasicLit)
	return ok && bl.Kind == token.INT && bl.Value == v
}

// `for _, v := range values[k:]`: the value variable and k
func rangeOver(r *ast.RangeStmt, values string) (string, int, bool) {
	if r.Tok != token.DEFINE || (r.Key != nil && identName(r.Key) != "_") || r.Value == nil {
		return "", 0, false
	}
	v := identName(r.Value)
	if v == "" || v == "_" || v == values {
		return "", 0, false
	}
	switch x := unparen(r.X).(type) {
	case *ast.Ident:
		if x.Name == values {
			return v, 0, true
		}
	case *ast.SliceExpr:
		if identName(x.X) == values && x.High == nil && x.Max == nil && x.Low != nil {
			if bl, ok := unparen(x.Low).(*ast.BasicLit); ok && bl.Kind == token.INT {
				if k, err := strconv.Atoi(bl.Value); err == nil && k >= 0 && k < 1000 {
					return v, k, true
				}
			}
		}
	}
	return "", 0, false
}

// fold: `acc := <init>; for _, v := range values[k:] { acc = <step> }; return <fin>`
func (c *actx) fold(stmts []ast.Stmt, values string) *lt {
	if len(stmts) != 3 {
		return nil
	}
	def, ok := stmts[0].(*ast.AssignStmt)
	loop, ok2 := stmts[1].(*ast.RangeStmt)
	ret, ok3 := stmts[2].(*ast.ReturnStmt)
	if !ok || !ok2 || !ok3 || def.Tok != token.DEFINE || len(def.Lhs) != 1 || len(def.Rhs) != 1 || len(ret.Results) != 1 {
		return nil
	}
	acc := identName(def.Lhs[0])
	if acc == "" || acc == "_" || acc == values {
		return nil
	}
	init := ls("AInit.opaque", src(def.Rhs[0]))
	switch r := unparen(def.Rhs[0]).(type) {
	case *ast.BasicLit:
		if isZeroLit(r) {
			init = lh("AInit.zero")
		}
	case *ast.IndexExpr:
		if identName(r.X) == values && isIntLit(r.Index, "0") {
			init = lh("AInit.first")
		}
	}
	v, skip, ok := rangeOver(loop, values)
	if !ok || v == acc || len(loop.Body.List) != 1 {
		return nil
	}
	bound := map[string]bool{acc: true, v: true, values: true}
	step := ls("AX.opaque", src(loop.Body.List[0]))
	if as, ok := loop.Body.List[0].(*ast.AssignStmt); ok && len(as.Lhs) == 1 && len(as.Rhs) == 1 && identName(as.Lhs[0]) == acc {
		switch as.Tok {
		case token.ASSIGN:
			step = c.ax(as.Rhs[0], acc, v, bound)
		case token.ADD_ASSIGN:
			step = lh("AX.add", lh("AX.acc"), c.ax(as.Rhs[0], acc, v, bound))
		}
	}
	fin := ls("AFin.opaque", src(ret.Results[0]))
	switch r := unparen(ret.Results[0]).(type) {
	case *ast.Ident:
		if r.Name == acc {
			fin = lh("AFin.id")
		}
	case *ast.BinaryExpr:
		// acc / float64(len(values))
		if r.Op == token.QUO && identName(r.X) == acc {
			if conv, ok := unparen(r.Y).(*ast.CallExpr); ok && identName(conv.Fun) == "float64" && !bound["float64"] && len(conv.Args) == 1 {
				if ln, ok := unparen(conv.Args[0]).(*ast.CallExpr); ok && identName(ln.Fun) == "len" && !bound["len"] && len(ln.Args) == 1 && identName(ln.Args[0]) == values {
					fin = lh("AFin.divByLen")
				}
			}
		}
	}
	return lh("AE.fold", init, lh(strconv.Itoa(skip)), step, fin)
}

// count2: `a, b := 0, 0; for _, x := range values { if x { <t>++ } else { <e>++ } }; return <l> op <r>`
func (c *actx) count2(stmts []ast.Stmt, values string) *lt {
	var ctrs []string
	n := 0
	for ; n < len(stmts); n++ {
		def, ok := stmts[n].(*ast.AssignStmt)
		if !ok || def.Tok != token.DEFINE || len(def.Lhs) != len(def.Rhs) {
			break
		}
		for i := range def.Lhs {
			name := identName(def.Lhs[i])
			if name == "" || name == "_" || name == values || !isIntLit(def.Rhs[i], "0") {
				return nil
			}
			ctrs = append(ctrs, name)
		}
	}
	if len(ctrs) != 2 || ctrs[0] == ctrs[1] || len(stmts) != n+2 {
		return nil
	}
	ctr := func(e ast.Expr) *lt {
		switch identName(e) {
		case ctrs[0]:
			return lh("ACtr.c0")
		case ctrs[1]:
			return lh("ACtr.c1")
		}
		return nil
	}
	inc := func(list []ast.Stmt) *lt {
		if len(list) != 1 {
			return nil
		}
		if s, ok := list[0].(*ast.IncDecStmt); ok && s.Tok == token.INC {
			return ctr(s.X)
		}
		return nil
	}
	loop, ok := stmts[n].(*ast.RangeStmt)
	ret, ok2 := stmts[n+1].(*ast.ReturnStmt)
	if !ok || !ok2 || len(ret.Results) != 1 {
		return nil
	}
	x, skip, ok := rangeOver(loop, values)
	if !ok || skip != 0 || x == ctrs[0] || x == ctrs[1] || len(loop.Body.List) != 1 {
		return nil
	}
	ifs, ok := loop.Body.List[0].(*ast.IfStmt)
	if !ok || ifs.Init != nil || identName(ifs.Cond) != x {
		return nil
	}
	els, ok := ifs.Else.(*ast.BlockStmt)
	if !ok {
		return nil
	}
	t, e := inc(ifs.Body.List), inc(els.List)
	cmp, ok := unparen(ret.Results[0]).(*ast.BinaryExpr)
	if !ok || t == nil || e == nil {
		return nil
	}
	op, ok := cmpOps[cmp.Op]
	l, r := ctr(cmp.X), ctr(cmp.Y)
	if !ok || l == nil || r == nil {
		return nil
	}
	return &lt{head: "AE.count2", args: []*lt{t, e, &lt{head: leanStr(op)}, l, r}}
}

// aggFunc translates `func(values []T) T`.
func (c *actx) aggFunc(ft *ast.FuncType, body *ast.BlockStmt) *lt {
	names := fparamNames(ft)
	if len(names) != 1 || names[0] == "_" {
		return ls("AE.opaque", "parameters")
	}
	if r := c.fold(body.List, names[0]); r != nil {
		return r
	}
	if r := c.count2(body.List, names[0]); r != nil {
		return r
	}
	return ls("AE.opaque", src(body))
}

// the package-level maps of functions that Column.Aggregate indexes, in order of first use
func (c *actx) aggMaps() []*ast.CompositeLit {
	fd, ok := c.fns["Column.Aggregate"]
	if !ok {
		return nil
	}
	vars := map[string]*ast.CompositeLit{}
	for _, f := range c.files {
		for _, d := range f.Decls {
			gd, ok := d.(*ast.GenDecl)
			if !ok || gd.Tok != token.VAR {
				continue
			}
			for _, sp := range gd.Specs {
				vs, ok := sp.(*ast.ValueSpec)
				if !ok || len(vs.Names) != len(vs.Values) {
					continue
				}
				for i, n := range vs.Names {
					if cl, ok := vs.Values[i].(*ast.CompositeLit); ok {
						if mt, ok := cl.Type.(*ast.MapType); ok {
							if _, ok := mt.Value.(*ast.FuncType); ok {
								vars[n.Name] = cl
							}
						}
					}
				}
			}
		}
	}
	var res []*ast.CompositeLit
	seen := map[string]bool{}
	ast.Inspect(fd.Body, func(n ast.Node) bool {
		if ie, ok := n.(*ast.IndexExpr); ok {
			if name := identName(ie.X); name != "" && !seen[name] {
				if cl, ok := vars[name]; ok {
					seen[name] = true
					res = append(res, cl)
				}
			}
		}
		return true
	})
	return res
}

type aggEntry struct {
	pkg, name string
	t         *lt
}

func (c *actx) aggEntries(pkg string) []aggEntry {
	var res []aggEntry
	for _, cl := range c.aggMaps() {
		for _, el := range cl.Elts {
			p, ok := el.(*ast.KeyValueExpr)
			if !ok {
				res = append(res, aggEntry{pkg, "?" + src(el), ls("AE.opaque", src(el))})
				continue
			}
			name := resolveKey(p.Key, nil)
			t := ls("AE.opaque", src(p.Value))
			switch v := unparen(p.Value).(type) {
			case *ast.Ident:
				if fd, ok := c.fns[v.Name]; ok && fd.Recv == nil {
					t = c.aggFunc(fd.Type, fd.Body)
				}
			case *ast.FuncLit:
				t = c.aggFunc(v.Type, v.Body)
			}
			res = append(res, aggEntry{pkg, name, t})
		}
	}
	sort.SliceStable(res, func(i, j int) bool { return res[i].name < res[j].name })
	return res
}

// groupSizes recognises the body of grouper.go's special case
//
//	counts := make([]int, len(G)); for i, ix := range G { counts[i] = len(ix) }; col.Column = icolumn.New(counts)
//
// where G is what the other branch hands to `.Aggregate(G, …)`: the aggregation is the length of the group.
func groupSizes(ifs *ast.IfStmt) bool {
	body := ifs.Body.List
	els, ok := ifs.Else.(*ast.BlockStmt)
	if len(body) != 3 || !ok {
		return false
	}
	def, ok := body[0].(*ast.AssignStmt)
	loop, ok2 := body[1].(*ast.RangeStmt)
	set, ok3 := body[2].(*ast.AssignStmt)
	if !ok || !ok2 || !ok3 || def.Tok != token.DEFINE || len(def.Lhs) != 1 || len(def.Rhs) != 1 || set.Tok != token.ASSIGN || len(set.Rhs) != 1 {
		return false
	}
	counts := identName(def.Lhs[0])
	groups := src(loop.X)
	mk, ok := unparen(def.Rhs[0]).(*ast.CallExpr)
	if !ok || counts == "" || identName(mk.Fun) != "make" || len(mk.Args) != 2 || src(mk.Args[0]) != "[]int" || src(mk.Args[1]) != "len("+groups+")" {
		return false
	}
	i, ix := "", ""
	if loop.Key != nil && loop.Value != nil && loop.Tok == token.DEFINE {
		i, ix = identName(loop.Key), identName(loop.Value)
	}
	if i == "" || ix == "" || i == "_" || ix == "_" || i == ix || i == counts || ix == counts || len(loop.Body.List) != 1 {
		return false
	}
	as, ok := loop.Body.List[0].(*ast.AssignStmt)
	if !ok || as.Tok != token.ASSIGN || len(as.Lhs) != 1 || len(as.Rhs) != 1 || src(as.Lhs[0]) != counts+"["+i+"]" || src(as.Rhs[0]) != "len("+ix+")" {
		return false
	}
	if nw, ok := unparen(set.Rhs[0]).(*ast.CallExpr); !ok || src(nw.Fun) != "icolumn.New" || len(nw.Args) != 1 || identName(nw.Args[0]) != counts {
		return false
	}
	found := false
	ast.Inspect(els, func(n ast.Node) bool {
		if call, ok := n.(*ast.CallExpr); ok && len(call.Args) >= 1 && src(call.Args[0]) == groups {
			if sel, ok := call.Fun.(*ast.SelectorExpr); ok && sel.Sel.Name == "Aggregate" {
				found = true
			}
		}
		return !found
	})
	return found
}

// the aggregations Grouper.Aggregate answers itself: `if agg.Fn == "<name>" { … } else { … col.Aggregate(…) }`
func grouperEntries(root map[string]*ast.FuncDecl) []aggEntry {
	fd, ok := root["Grouper.Aggregate"]
	if !ok {
		return nil
	}
	var res []aggEntry
	ast.Inspect(fd.Body, func(n ast.Node) bool {
		ifs, ok := n.(*ast.IfStmt)
		if !ok {
			return true
		}
		cond, ok := unparen(ifs.Cond).(*ast.BinaryExpr)
		if !ok || cond.Op != token.EQL {
			return true
		}
		lit, other := cond.Y, cond.X
		if _, ok := unparen(lit).(*ast.BasicLit); !ok {
			lit, other = cond.X, cond.Y
		}
		bl, ok := unparen(lit).(*ast.BasicLit)
		if _, isSel := unparen(other).(*ast.SelectorExpr); !ok || !isSel || bl.Kind != token.STRING {
			return true
		}
		name, err := strconv.Unquote(bl.Value)
		if err != nil {
			return true
		}
		t := ls("AE.opaque", src(ifs.Body))
		if groupSizes(ifs) {
			t = lh("AE.len")
		}
		res = append(res, aggEntry{"qframe", name, t})
		return true
	})
	return res
}

// aggregationsLean renders QF/Gen/Aggregations.lean.
func aggregationsLean(repo string, pkgs []string) string {
	var ents []aggEntry
	for _, p := range pkgs {
		ents = append(ents, newActx(repo, filepath.Join(repo, "internal", p)).aggEntries(p)...)
	}
	ents = append(ents, grouperEntries(funcDecls(parseDir(repo)))...)
	items := make([]string, len(ents))
	for i, e := range ents {
		items[i] = fmt.Sprintf("  (%s, %s, %s)", leanStr(e.pkg), leanStr(e.name), e.t.lean())
	}
	var b strings.Builder
	b.WriteString("/- GENERATED on every run by /verif/go/cmd/extract from /repo's source (tie T1). Do not edit. -/\nimport QF.Core.AExpr\nnamespace QF.Gen\n\n")
	b.WriteString("/-- the built-in aggregations as terms of `QF.AE`, by role: (package, name, term) — per column package the entries of\nthe map `Column.Aggregate` looks names up in, and under \"qframe\" the names `Grouper.Aggregate` answers itself -/\n")
	b.WriteString("def aggAst : List (String × String × AE) := [\n" + strings.Join(items, ",\n") + "]\n\nend QF.Gen\n")
	return b.String()
}
