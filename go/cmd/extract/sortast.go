package main

// Translation go/ast → SL.S / SL.E (lean/QF/Core/SLExpr.lean) of the sorter, /repo/internal/sort:
//
//	func (s Sorter) Sort(), Len() int, Swap(i, j int), Less(i, j int) bool
//	func insertionSort, siftDown, heapSort, medianOfThree, doPivot, quickSort, maxDepth
//
// Method (as clast.go): a statement-by-statement translation of the function bodies with a small type inference of its
// own (only go/parser + go/ast): every expression has a KIND (int, uint, bool, sorter, row, col, res, unit, "int,int")
// computed from the declarations. The root is found through the one public name of the package that qframe.go uses: the
// method `Sort()` of a struct type; that struct type is the sorter. Everything else by ROLE:
//
//   - variables are numbered in the order of their declaration (receiver, parameters, then every `:=`, `var`, range
//     variable as it occurs in the text) — names do not reach the output;
//   - functions are numbered in the order in which the walk that starts at `Sort` (number 0) meets their first call
//     (callee before arguments, functions translated in the order of their numbers) — names and the order of the
//     declarations in the file do not reach the output;
//   - the two fields of the sorter by their types (`index.Int` = []uint32: the index; a slice of the interface of
//     internal/column that has the method `(uint32, uint32) CompareResult`: the columns), that method by its signature.
//     Only the names of the CompareResult constants are a fixed vocabulary (as in cast.go).
//
// `for init; cond; post { body }` becomes the init statement followed by `S.loop cond post body`; `x op= e` becomes
// `x = x op e`; `a, b := e1, e2` becomes two definitions (the right-hand sides are translated first). The parallel
// assignment `s.index[i], s.index[j] = x, y` is the statement `S.setIx2`. Named results are accepted when the body never
// mentions them. A function is written as `{ params, vars, body }`: the number of parameters (with the receiver), the number
// of variables in all, the body. Whatever is not understood becomes `.opaque "<text>"`; such a term has no meaning and the proofs of
// QF/Props/C03SorterGen.lean fail.

import (
	"fmt"
	"go/ast"
	"go/token"
	"strconv"
	"strings"
)

type slCtx struct {
	repo   string
	module string
	pkgs   map[string]*clPkg
	root   *clPkg // internal/sort
	sorter string // the name of the sorter type
	field  map[string]string
	// the interface of internal/column whose elements the columns are, and its compare method
	colIface  string
	compareFn string
	ids       map[*ast.FuncDecl]int
	order     []*ast.FuncDecl
}

var slResConst = map[string]string{"LessThan": "CRes.lessThan", "GreaterThan": "CRes.greaterThan", "Equal": "CRes.equal", "NotEqual": "CRes.notEqual"}

func (c *slCtx) pkg(path string) *clPkg {
	if p, ok := c.pkgs[path]; ok {
		return p
	}
	var p *clPkg
	if c.module != "" && (path == c.module || strings.HasPrefix(path, c.module+"/")) {
		dir := c.repo + "/" + strings.TrimPrefix(strings.TrimPrefix(path, c.module), "/")
		files := parseDir(dir)
		p = &clPkg{path: path, files: files, fns: funcDecls(files), types: typeDecls(files), imports: importsOf(files)}
	}
	c.pkgs[path] = p
	return p
}

func (c *slCtx) importOf(p *clPkg, x ast.Expr, sc *clScope) *clPkg {
	id, ok := x.(*ast.Ident)
	if !ok || (sc != nil && sc.lookup(id.Name) != nil) {
		return nil
	}
	path, ok := p.imports[id.Name]
	if !ok {
		return nil
	}
	return c.pkg(path)
}

// kinds: int uint bool sorter row col res ix cols unit ?
func (c *slCtx) kind(p *clPkg, t ast.Expr) string {
	switch x := t.(type) {
	case nil:
		return "unit"
	case *ast.ParenExpr:
		return c.kind(p, x.X)
	case *ast.Ident:
		switch x.Name {
		case "int", "uint", "bool":
			if _, shadow := p.types[x.Name]; !shadow {
				return x.Name
			}
		case "uint32":
			if _, shadow := p.types[x.Name]; !shadow {
				return "row"
			}
		}
		return c.namedKind(p, x.Name, 0)
	case *ast.SelectorExpr:
		if q := c.importOf(p, x.X, nil); q != nil {
			return c.namedKind(q, x.Sel.Name, 0)
		}
	case *ast.ArrayType:
		if x.Len == nil {
			return slSlice(c.kind(p, x.Elt))
		}
	}
	return "?"
}

func slSlice(elem string) string {
	switch elem {
	case "row":
		return "ix"
	case "col":
		return "cols"
	}
	return "?"
}

func (c *slCtx) namedKind(p *clPkg, name string, depth int) string {
	if p == nil || depth > 5 {
		return "?"
	}
	if p == c.root && name == c.sorter && name != "" {
		return "sorter"
	}
	if pathEnds(p, "internal/column") {
		if name == "CompareResult" {
			return "res"
		}
		if name == c.colIface && name != "" {
			return "col"
		}
	}
	if t, ok := p.types[name]; ok {
		switch x := t.(type) {
		case *ast.ArrayType:
			if x.Len == nil {
				return slSlice(c.kind(p, x.Elt))
			}
		case *ast.Ident:
			if _, ok := p.types[x.Name]; ok && x.Name != name {
				return c.namedKind(p, x.Name, depth+1)
			}
		}
	}
	return "?"
}

func (c *slCtx) sigKinds(p *clPkg, ft *ast.FuncType) ([]string, string) {
	var ps, rs []string
	add := func(fl *ast.FieldList, out *[]string) {
		if fl == nil {
			return
		}
		for _, f := range fl.List {
			n := len(f.Names)
			if n == 0 {
				n = 1
			}
			for i := 0; i < n; i++ {
				*out = append(*out, c.kind(p, f.Type))
			}
		}
	}
	add(ft.Params, &ps)
	add(ft.Results, &rs)
	r := strings.Join(rs, ",")
	if r == "" {
		r = "unit"
	}
	return ps, r
}

// scan finds the sorter type, the roles of its fields and the compare method of the column interface
func (c *slCtx) scan() *ast.FuncDecl {
	c.field = map[string]string{}
	p := c.root
	// the interface of internal/column with a method (uint32, uint32) CompareResult
	for _, path := range p.imports {
		q := c.pkg(path)
		if !pathEnds(q, "internal/column") {
			continue
		}
		hits := 0
		for name, t := range q.types {
			it, ok := t.(*ast.InterfaceType)
			if !ok || it.Methods == nil {
				continue
			}
			for _, m := range it.Methods.List {
				ft, ok := m.Type.(*ast.FuncType)
				if !ok || len(m.Names) != 1 {
					continue
				}
				ps, r := c.sigKinds(q, ft)
				if len(ps) == 2 && ps[0] == "row" && ps[1] == "row" && r == "res" {
					c.colIface, c.compareFn = name, m.Names[0].Name
					hits++
				}
			}
		}
		if hits != 1 {
			c.colIface, c.compareFn = "", ""
		}
	}
	// the root: the one method `Sort()` of a struct type
	var root *ast.FuncDecl
	n := 0
	for name, fd := range p.fns {
		if fd.Recv == nil || !strings.HasSuffix(name, ".Sort") || fd.Name.Name != "Sort" {
			continue
		}
		if fd.Type.Params != nil && len(fd.Type.Params.List) > 0 || fd.Type.Results != nil && len(fd.Type.Results.List) > 0 {
			continue
		}
		id, ok := fd.Recv.List[0].Type.(*ast.Ident)
		if !ok {
			continue
		}
		if _, ok := p.types[id.Name].(*ast.StructType); ok {
			root, c.sorter = fd, id.Name
			n++
		}
	}
	if n != 1 {
		c.sorter = ""
		return nil
	}
	st := p.types[c.sorter].(*ast.StructType)
	count := map[string]int{}
	for _, f := range st.Fields.List {
		role := "other"
		switch c.kind(p, f.Type) {
		case "ix":
			role = "index"
		case "cols":
			role = "columns"
		}
		for _, nm := range f.Names {
			c.field[nm.Name] = role
			count[role]++
		}
	}
	for nm, r := range c.field {
		if r != "other" && count[r] > 1 {
			c.field[nm] = "other"
		}
	}
	return root
}

// use gives a called function its number
func (c *slCtx) use(fd *ast.FuncDecl) int {
	if id, ok := c.ids[fd]; ok {
		return id
	}
	id := len(c.order)
	c.ids[fd] = id
	c.order = append(c.order, fd)
	return id
}

// ---------------------------------------------------------------------------------------------------------------------

type slFn struct {
	c    *slCtx
	p    *clPkg
	fd   *ast.FuncDecl
	next int
	rets string
	loop int // nesting of loops (break / continue are only understood inside one)
}

func (f *slFn) declare(sc *clScope, name, kind string) *clVar {
	v := &clVar{id: f.next, kind: kind, leafOf: -1}
	f.next++
	if name != "_" && name != "" {
		sc.vars[name] = v
	}
	return v
}

func slInt(n int64) *lt {
	if n < 0 {
		return lh("E.int", lh("("+strconv.FormatInt(n, 10)+")"))
	}
	return lh("E.int", lh(strconv.FormatInt(n, 10)))
}

// <sorter expression>.<field with the role>
func (f *slFn) sorterField(e ast.Expr, role string, sc *clScope) *lt {
	sel, ok := unparen(e).(*ast.SelectorExpr)
	if !ok || f.c.field[sel.Sel.Name] != role {
		return nil
	}
	if f.c.importOf(f.p, sel.X, sc) != nil {
		return nil
	}
	x, k := f.expr(sel.X, sc)
	if k != "sorter" {
		return nil
	}
	return x
}

func (f *slFn) expr(e ast.Expr, sc *clScope) (*lt, string) {
	e = unparen(e)
	bad := func() (*lt, string) { return eop(e), "?" }
	switch t := e.(type) {
	case *ast.Ident:
		if v := sc.lookup(t.Name); v != nil {
			if v.kind == "?" {
				return bad()
			}
			return evar(v), v.kind
		}
		switch t.Name {
		case "true":
			return lh("E.bool", lh("true")), "bool"
		case "false":
			return lh("E.bool", lh("false")), "bool"
		}
	case *ast.BasicLit:
		if t.Kind == token.INT {
			if n, err := strconv.ParseInt(t.Value, 0, 64); err == nil {
				return slInt(n), "int"
			}
		}
	case *ast.UnaryExpr:
		switch t.Op {
		case token.NOT:
			x, k := f.expr(t.X, sc)
			if k == "bool" {
				return lh("E.un", lh("UOp.not"), x), "bool"
			}
		case token.SUB:
			if bl, ok := unparen(t.X).(*ast.BasicLit); ok && bl.Kind == token.INT {
				if n, err := strconv.ParseInt(bl.Value, 0, 64); err == nil {
					return slInt(-n), "int"
				}
			}
			x, k := f.expr(t.X, sc)
			if k == "int" {
				return lh("E.bin", lh("BOp.sub"), slInt(0), x), "int"
			}
		}
	case *ast.BinaryExpr:
		// <compare result> == column.<constant>
		if t.Op == token.EQL || t.Op == token.NEQ {
			for _, sw := range []bool{false, true} {
				l, r := t.X, t.Y
				if sw {
					l, r = r, l
				}
				if sel, ok := unparen(r).(*ast.SelectorExpr); ok && pathEnds(f.c.importOf(f.p, sel.X, sc), "internal/column") {
					if cst, ok := slResConst[sel.Sel.Name]; ok {
						x, k := f.expr(l, sc)
						if k != "res" {
							return bad()
						}
						is := lh("E.un", lh("UOp.resIs", lh(cst)), x)
						if t.Op == token.NEQ {
							return lh("E.un", lh("UOp.not"), is), "bool"
						}
						return is, "bool"
					}
				}
			}
		}
		x, kx := f.expr(t.X, sc)
		y, ky := f.expr(t.Y, sc)
		switch t.Op {
		case token.LAND, token.LOR:
			if kx == "bool" && ky == "bool" {
				h := "E.and"
				if t.Op == token.LOR {
					h = "E.or"
				}
				return lh(h, x, y), "bool"
			}
		case token.EQL, token.NEQ, token.LSS, token.LEQ, token.GTR, token.GEQ:
			if kx == "int" && ky == "int" {
				op := map[token.Token]string{token.LSS: "COp.lt", token.LEQ: "COp.le", token.GTR: "COp.gt", token.GEQ: "COp.ge", token.EQL: "COp.eq", token.NEQ: "COp.ne"}[t.Op]
				return lh("E.bin", lh("BOp.cmp", lh(op)), x, y), "bool"
			}
		case token.ADD, token.SUB, token.MUL, token.QUO:
			if kx == "int" && ky == "int" {
				op := map[token.Token]string{token.ADD: "BOp.add", token.SUB: "BOp.sub", token.MUL: "BOp.mul", token.QUO: "BOp.div"}[t.Op]
				return lh("E.bin", lh(op), x, y), "int"
			}
		case token.SHR:
			// the shift count: an int (a constant is one)
			if (kx == "int" || kx == "uint") && ky == "int" {
				return lh("E.bin", lh("BOp.shr"), x, y), kx
			}
		}
	case *ast.IndexExpr:
		if recv := f.sorterField(t.X, "index", sc); recv != nil {
			i, ki := f.expr(t.Index, sc)
			if ki == "int" {
				return lh("E.bin", lh("BOp.ixAt"), recv, i), "row"
			}
		}
	case *ast.CallExpr:
		return f.call(t, sc)
	}
	return bad()
}

func (f *slFn) callN(fd *ast.FuncDecl, recv *lt, t *ast.CallExpr, sc *clScope) (*lt, string) {
	c := f.c
	if t.Ellipsis != token.NoPos {
		return eop(t), "?"
	}
	want, rk := c.sigKinds(f.p, fd.Type)
	id := c.use(fd)
	var terms []*lt
	if recv != nil {
		terms = append(terms, recv)
	}
	if len(t.Args) != len(want) {
		return eop(t), "?"
	}
	for i, a := range t.Args {
		x, k := f.expr(a, sc)
		if k != want[i] || k == "?" {
			return eop(t), "?"
		}
		terms = append(terms, x)
	}
	if len(terms) > 4 || strings.Contains(rk, "?") {
		return eop(t), "?"
	}
	head := "E.call" + strconv.Itoa(len(terms))
	return lh(head, append([]*lt{lh(strconv.Itoa(id))}, terms...)...), rk
}

func (f *slFn) call(t *ast.CallExpr, sc *clScope) (*lt, string) {
	c := f.c
	bad := func() (*lt, string) { return eop(t), "?" }
	switch fun := unparen(t.Fun).(type) {
	case *ast.Ident:
		if sc.lookup(fun.Name) != nil {
			return bad()
		}
		_, isType := f.p.types[fun.Name]
		_, isFn := f.p.fns[fun.Name]
		switch fun.Name {
		case "len":
			if len(t.Args) == 1 && !isFn {
				if recv := f.sorterField(t.Args[0], "index", sc); recv != nil {
					return lh("E.un", lh("UOp.lenIx"), recv), "int"
				}
			}
			return bad()
		case "int", "uint":
			if len(t.Args) == 1 && !isType && !isFn {
				x, k := f.expr(t.Args[0], sc)
				if k == "int" || k == "uint" {
					if k == fun.Name {
						return x, k
					}
					op := "UOp.toInt"
					if fun.Name == "uint" {
						op = "UOp.toUint"
					}
					return lh("E.un", lh(op), x), fun.Name
				}
			}
			return bad()
		}
		if fd, ok := f.p.fns[fun.Name]; ok && fd.Recv == nil {
			return f.callN(fd, nil, t, sc)
		}
	case *ast.SelectorExpr:
		if c.importOf(f.p, fun.X, sc) != nil {
			return bad()
		}
		x, kx := f.expr(fun.X, sc)
		switch kx {
		case "sorter":
			if fd, ok := f.p.fns[c.sorter+"."+fun.Sel.Name]; ok && fd.Recv != nil && len(fd.Recv.List) == 1 && c.kind(f.p, fd.Recv.List[0].Type) == "sorter" {
				return f.callN(fd, x, t, sc)
			}
		case "col":
			if fun.Sel.Name == c.compareFn && c.compareFn != "" && len(t.Args) == 2 && t.Ellipsis == token.NoPos {
				a, ka := f.expr(t.Args[0], sc)
				b, kb := f.expr(t.Args[1], sc)
				if ka == "row" && kb == "row" {
					return lh("E.compare", x, a, b), "res"
				}
			}
		}
	}
	return bad()
}

// ---------------------------------------------------------------------------------------------------------------------
// statements

func (f *slFn) stmts(list []ast.Stmt, sc *clScope) []*lt {
	var out []*lt
	for _, st := range list {
		out = append(out, f.stmt(st, sc)...)
	}
	return out
}

func (f *slFn) blockOf(b *ast.BlockStmt, sc *clScope) *lt {
	if b == nil {
		return block(nil)
	}
	return block(f.stmts(b.List, sc.push()))
}

func (f *slFn) elseOf(e ast.Stmt, sc *clScope) *lt {
	switch x := e.(type) {
	case nil:
		return block(nil)
	case *ast.BlockStmt:
		return f.blockOf(x, sc)
	case *ast.IfStmt:
		return block(f.stmt(x, sc.push()))
	}
	return block([]*lt{sop(e)})
}

func slDefinable(k string) bool {
	switch k {
	case "int", "uint", "bool", "row", "res", "sorter", "col":
		return true
	}
	return false
}

func (f *slFn) assign(s *ast.AssignStmt, sc *clScope) []*lt {
	bad := []*lt{sop(s)}
	switch s.Tok {
	case token.DEFINE:
		// v, w := f(…)
		if len(s.Lhs) == 2 && len(s.Rhs) == 1 {
			a, ok1 := s.Lhs[0].(*ast.Ident)
			b, ok2 := s.Lhs[1].(*ast.Ident)
			if !ok1 || !ok2 {
				return bad
			}
			x, k := f.expr(s.Rhs[0], sc)
			if k != "int,int" {
				return bad
			}
			if _, dup := sc.vars[a.Name]; dup && a.Name != "_" {
				return bad
			}
			if _, dup := sc.vars[b.Name]; dup && b.Name != "_" {
				return bad
			}
			if a.Name == b.Name && a.Name != "_" {
				return bad
			}
			va := f.declare(sc, a.Name, "int")
			vb := f.declare(sc, b.Name, "int")
			return []*lt{lh("S.define2", nat(va), nat(vb), x)}
		}
		if len(s.Lhs) != len(s.Rhs) {
			return bad
		}
		var xs []*lt
		var ks []string
		for _, r := range s.Rhs {
			x, k := f.expr(r, sc)
			if !slDefinable(k) {
				return bad
			}
			xs, ks = append(xs, x), append(ks, k)
		}
		seen := map[string]bool{}
		for _, l := range s.Lhs {
			id, ok := l.(*ast.Ident)
			if !ok {
				return bad
			}
			// every variable on the left must be new in this scope (a redeclared one would be an assignment)
			if _, dup := sc.vars[id.Name]; (dup || seen[id.Name]) && id.Name != "_" {
				return bad
			}
			seen[id.Name] = true
		}
		var out []*lt
		for i, l := range s.Lhs {
			v := f.declare(sc, l.(*ast.Ident).Name, ks[i])
			out = append(out, lh("S.define", nat(v), xs[i]))
		}
		return out
	case token.ASSIGN:
		if len(s.Lhs) == 1 && len(s.Rhs) == 1 {
			id, ok := unparen(s.Lhs[0]).(*ast.Ident)
			if !ok {
				return bad
			}
			v := sc.lookup(id.Name)
			if v == nil {
				return bad
			}
			x, k := f.expr(s.Rhs[0], sc)
			if k != v.kind || !slDefinable(k) {
				return bad
			}
			return []*lt{lh("S.assign", nat(v), x)}
		}
		// s.index[i], s.index[j] = x, y
		if len(s.Lhs) == 2 && len(s.Rhs) == 2 {
			l0, ok0 := unparen(s.Lhs[0]).(*ast.IndexExpr)
			l1, ok1 := unparen(s.Lhs[1]).(*ast.IndexExpr)
			if !ok0 || !ok1 {
				return bad
			}
			r0 := f.sorterField(l0.X, "index", sc)
			r1 := f.sorterField(l1.X, "index", sc)
			if r0 == nil || r1 == nil || r0.lean() != r1.lean() || r0.head != "E.var" {
				return bad
			}
			i, ki := f.expr(l0.Index, sc)
			j, kj := f.expr(l1.Index, sc)
			x, kx := f.expr(s.Rhs[0], sc)
			y, ky := f.expr(s.Rhs[1], sc)
			if ki != "int" || kj != "int" || kx != "row" || ky != "row" {
				return bad
			}
			return []*lt{lh("S.setIx2", r0, i, j, x, y)}
		}
	case token.ADD_ASSIGN, token.SUB_ASSIGN, token.MUL_ASSIGN, token.QUO_ASSIGN, token.SHR_ASSIGN:
		if len(s.Lhs) != 1 || len(s.Rhs) != 1 {
			return bad
		}
		id, ok := unparen(s.Lhs[0]).(*ast.Ident)
		if !ok {
			return bad
		}
		v := sc.lookup(id.Name)
		x, k := f.expr(s.Rhs[0], sc)
		if v == nil || v.kind != "int" || k != "int" {
			return bad
		}
		op := map[token.Token]string{token.ADD_ASSIGN: "BOp.add", token.SUB_ASSIGN: "BOp.sub", token.MUL_ASSIGN: "BOp.mul", token.QUO_ASSIGN: "BOp.div", token.SHR_ASSIGN: "BOp.shr"}[s.Tok]
		return []*lt{lh("S.assign", nat(v), lh("E.bin", lh(op), evar(v), x))}
	}
	return bad
}

// a statement that may stand in the init or post position of a `for`
func (f *slFn) simple(st ast.Stmt, sc *clScope) []*lt {
	switch st.(type) {
	case nil:
		return nil
	case *ast.AssignStmt, *ast.IncDecStmt, *ast.ExprStmt, *ast.EmptyStmt:
		return f.stmt(st, sc)
	}
	return []*lt{sop(st)}
}

func (f *slFn) stmt(st ast.Stmt, sc *clScope) []*lt {
	switch s := st.(type) {
	case *ast.EmptyStmt:
		return nil
	case *ast.BlockStmt:
		return []*lt{f.blockOf(s, sc)}
	case *ast.ReturnStmt:
		switch len(s.Results) {
		case 0:
			if f.rets == "unit" {
				return []*lt{lh("S.ret0")}
			}
		case 1:
			x, k := f.expr(s.Results[0], sc)
			if k == f.rets && (k == "int" || k == "bool") {
				return []*lt{lh("S.ret", x)}
			}
		case 2:
			x, kx := f.expr(s.Results[0], sc)
			y, ky := f.expr(s.Results[1], sc)
			if kx == "int" && ky == "int" && f.rets == "int,int" {
				return []*lt{lh("S.ret2", x, y)}
			}
		}
	case *ast.IfStmt:
		if s.Init != nil {
			break
		}
		cond, k := f.expr(s.Cond, sc)
		if k != "bool" {
			break
		}
		return []*lt{lh("S.ite", cond, f.blockOf(s.Body, sc), f.elseOf(s.Else, sc))}
	case *ast.ForStmt:
		inner := sc.push()
		init := f.simple(s.Init, inner)
		cond := lh("E.bool", lh("true"))
		if s.Cond != nil {
			x, k := f.expr(s.Cond, inner)
			if k != "bool" {
				break
			}
			cond = x
		}
		// the post statement runs in the scope of the init statement; it cannot declare anything
		if as, ok := s.Post.(*ast.AssignStmt); ok && as.Tok == token.DEFINE {
			break
		}
		post := block(f.simple(s.Post, inner))
		f.loop++
		body := f.blockOf(s.Body, inner)
		f.loop--
		return append(init, lh("S.loop", cond, post, body))
	case *ast.RangeStmt:
		if s.Tok != token.DEFINE || (s.Key != nil && !isBlank(s.Key)) {
			break
		}
		recv := f.sorterField(s.X, "columns", sc)
		id, ok := s.Value.(*ast.Ident)
		if recv == nil || !ok || id.Name == "_" {
			break
		}
		inner := sc.push()
		v := f.declare(inner, id.Name, "col")
		f.loop++
		body := f.blockOf(s.Body, inner)
		f.loop--
		return []*lt{lh("S.rangeCols", recv, nat(v), body)}
	case *ast.BranchStmt:
		if s.Label != nil || f.loop == 0 {
			break
		}
		switch s.Tok {
		case token.BREAK:
			return []*lt{lh("S.brk")}
		case token.CONTINUE:
			return []*lt{lh("S.cont")}
		}
	case *ast.AssignStmt:
		return f.assign(s, sc)
	case *ast.IncDecStmt:
		if id, ok := unparen(s.X).(*ast.Ident); ok {
			if v := sc.lookup(id.Name); v != nil && v.kind == "int" {
				if s.Tok == token.INC {
					return []*lt{lh("S.incr", nat(v))}
				}
				return []*lt{lh("S.decr", nat(v))}
			}
		}
	case *ast.ExprStmt:
		if call, ok := unparen(s.X).(*ast.CallExpr); ok {
			x, k := f.call(call, sc)
			if k != "?" {
				return []*lt{lh("S.expr", x)}
			}
		}
	case *ast.DeclStmt:
		gd, ok := s.Decl.(*ast.GenDecl)
		if !ok || gd.Tok != token.VAR {
			break
		}
		var out []*lt
		for _, sp := range gd.Specs {
			vs, ok := sp.(*ast.ValueSpec)
			if !ok || vs.Type == nil || len(vs.Values) > 0 && len(vs.Values) != len(vs.Names) {
				return []*lt{sop(s)}
			}
			k := f.c.kind(f.p, vs.Type)
			var xs []*lt
			for i := range vs.Names {
				var x *lt
				switch {
				case len(vs.Values) > 0:
					y, ky := f.expr(vs.Values[i], sc)
					if ky != k {
						return []*lt{sop(s)}
					}
					x = y
				case k == "int":
					x = slInt(0)
				case k == "bool":
					x = lh("E.bool", lh("false"))
				default:
					return []*lt{sop(s)}
				}
				xs = append(xs, x)
			}
			for i, n := range vs.Names {
				if _, dup := sc.vars[n.Name]; dup && n.Name != "_" {
					return []*lt{sop(s)}
				}
				v := f.declare(sc, n.Name, k)
				out = append(out, lh("S.define", nat(v), xs[i]))
			}
		}
		return out
	}
	return []*lt{sop(st)}
}

func isBlank(e ast.Expr) bool {
	id, ok := e.(*ast.Ident)
	return ok && id.Name == "_"
}

// does the body mention one of the names?
func mentions(body *ast.BlockStmt, names map[string]bool) bool {
	found := false
	ast.Inspect(body, func(n ast.Node) bool {
		if id, ok := n.(*ast.Ident); ok && names[id.Name] {
			found = true
		}
		if r, ok := n.(*ast.ReturnStmt); ok && len(r.Results) == 0 && len(names) > 0 {
			found = true
		}
		return true
	})
	return found
}

func (c *slCtx) translate(fd *ast.FuncDecl) string {
	f := &slFn{c: c, p: c.root, fd: fd}
	sc := &clScope{vars: map[string]*clVar{}}
	addParams := func(fl *ast.FieldList) {
		if fl == nil {
			return
		}
		for _, fld := range fl.List {
			k := c.kind(c.root, fld.Type)
			if len(fld.Names) == 0 {
				f.declare(sc, "_", k)
			}
			for _, n := range fld.Names {
				f.declare(sc, n.Name, k)
			}
		}
	}
	addParams(fd.Recv)
	addParams(fd.Type.Params)
	params := f.next
	_, f.rets = c.sigKinds(c.root, fd.Type)
	var body []*lt
	named := map[string]bool{}
	if fd.Type.Results != nil {
		for _, fld := range fd.Type.Results.List {
			for _, n := range fld.Names {
				if n.Name != "_" {
					named[n.Name] = true
				}
			}
		}
	}
	if fd.Type.TypeParams != nil {
		body = []*lt{sopText("a generic function")}
	} else if mentions(fd.Body, named) {
		body = []*lt{sopText("named results are used")}
	} else {
		body = f.stmts(fd.Body.List, sc.push())
	}
	return fmt.Sprintf("{ params := %d, vars := %d, body := %s }", params, f.next, block(body).lean())
}

func sorterLean(repo string) string {
	c := &slCtx{repo: repo, module: modulePath(repo), pkgs: map[string]*clPkg{}, ids: map[*ast.FuncDecl]int{}}
	c.root = c.pkg(c.module + "/internal/sort")
	var bodies []string
	if c.root != nil {
		if root := c.scan(); root != nil {
			c.use(root)
			for i := 0; i < len(c.order); i++ {
				bodies = append(bodies, "  "+c.translate(c.order[i]))
			}
		}
	}
	var b strings.Builder
	b.WriteString("/- GENERATED on every run by /verif/go/cmd/extract from /repo's source (tie T1). Do not edit. -/\nimport QF.Core.SLExpr\nnamespace QF.Gen\nopen QF.SL\n\n")
	b.WriteString("/-- the sorter of internal/sort (`Sorter.Sort` and every function it reaches: `Len`, `quickSort`, `maxDepth`, `heapSort`,\n`doPivot`, `Less`, `Swap`, `insertionSort`, `siftDown`, `medianOfThree`) translated statement by statement to the language\n`QF.SL`, by role; a function's number is its position -/\n")
	b.WriteString("def sorterFns : Prog := [\n")
	b.WriteString(strings.Join(bodies, ",\n") + "]\n\nend QF.Gen\n")
	return b.String()
}
