package main

// Translation go/ast → GB / CF / QS / AT (lean/QF/Core/GroupGlue.lean) of the grouping glue of /repo/qframe.go and
// /repo/grouper.go:
//
//	func (qf QFrame) GroupBy(configFns ...groupby.ConfigFunc) Grouper        → GB   (checkColumns, Len, orders, comparables inlined)
//	func (g Grouper) QFrames() ([]QFrame, error)                             → QS   (withIndex inlined)
//	func (g Grouper) Aggregate(aggs ...Aggregation) QFrame                   → []AT
//	/repo/config/groupby: the functions returning ConfigFunc                  → CF
//
// Everything is found by ROLE: the methods by their signatures, the fields of QFrame / Grouper / groupby.Config /
// namedColumn / Order by their types, the helper methods by the shape of their bodies (checked here), locals by what they
// are bound to. Fixed vocabulary: the exported fields `Fn`, `Column`, `As` of the API struct `Aggregation` and the
// interface methods `Comparable`, `Subset`, `Aggregate`, `Len` of column.Column / index.Int. What is not understood becomes
// `.opaque "<text>"`.

import (
	"go/ast"
	"go/token"
	"path/filepath"
	"sort"
	"strconv"
	"strings"
)

type ggctx struct {
	files   map[string]*ast.File
	fns     map[string]*ast.FuncDecl
	imports map[string]string
	gbFiles map[string]*ast.File
	// fields by role
	qCols, qNames, qIndex, qErr                    string
	gGroups, gGrouped, gCols, gNames, gErr, gStats string
	cCols, cNull                                   string
	ncName, ncPos                                  string
	orderCol                                       string
	gbPkg, grpPkg, ixPkg, icolPkg                  string // local import names
	statsType                                      string
	grouperSigs                                    map[string]bool // functions of internal/grouper `(index.Int, []column.Comparable) ([]index.Int, …)`
	icolNewOk                                      bool            // icolumn.New is `([]int) Column`
	grouperDistinct                                map[string]bool // functions of internal/grouper `(index.Int, []column.Comparable) index.Int`
}

func (c *ggctx) importNamed(suffix string) string {
	var names []string
	for n, p := range c.imports {
		if strings.HasSuffix(p, suffix) {
			names = append(names, n)
		}
	}
	sort.Strings(names)
	if len(names) > 0 {
		return names[0]
	}
	return ""
}

func (c *ggctx) scan() bool {
	c.gbPkg, c.grpPkg, c.ixPkg, c.icolPkg = c.importNamed("/config/groupby"), c.importNamed("/internal/grouper"), c.importNamed("/internal/index"), c.importNamed("/internal/icolumn")
	if c.gbPkg == "" || c.grpPkg == "" || c.ixPkg == "" {
		return false
	}
	first := func(dst *string, v string) {
		if *dst == "" {
			*dst = v
		}
	}
	for _, f := range ctStructFields(c.files, "QFrame") {
		switch f[1] {
		case "[]namedColumn":
			first(&c.qCols, f[0])
		case "map[string]namedColumn":
			first(&c.qNames, f[0])
		case c.ixPkg + ".Int":
			first(&c.qIndex, f[0])
		case "error":
			first(&c.qErr, f[0])
		}
	}
	for _, f := range ctStructFields(c.files, "Grouper") {
		switch f[1] {
		case "[]" + c.ixPkg + ".Int":
			first(&c.gGroups, f[0])
		case "[]string":
			first(&c.gGrouped, f[0])
		case "[]namedColumn":
			first(&c.gCols, f[0])
		case "map[string]namedColumn":
			first(&c.gNames, f[0])
		case "error":
			first(&c.gErr, f[0])
		default:
			if c.gStats == "" {
				c.gStats, c.statsType = f[0], f[1]
			}
		}
	}
	for _, f := range ctStructFields(c.gbFiles, "Config") {
		switch f[1] {
		case "[]string":
			first(&c.cCols, f[0])
		case "bool":
			first(&c.cNull, f[0])
		}
	}
	for _, f := range ctStructFields(c.files, "namedColumn") {
		switch f[1] {
		case "string":
			first(&c.ncName, f[0])
		case "int":
			first(&c.ncPos, f[0])
		}
	}
	for _, f := range ctStructFields(c.files, "Order") {
		if f[1] == "string" {
			first(&c.orderCol, f[0])
		}
	}
	for _, s := range []string{c.qCols, c.qNames, c.qIndex, c.qErr, c.gGroups, c.gGrouped, c.gCols, c.gNames, c.gErr, c.gStats, c.cCols, c.cNull, c.ncName, c.ncPos, c.orderCol} {
		if s == "" {
			return false
		}
	}
	return true
}

// ---------------------------------------------------------------------------------------------------------------
// expressions by kind

type ggscope map[string]string

func (s ggscope) with(name, kind string) ggscope {
	r := ggscope{}
	for k, v := range s {
		r[k] = v
	}
	if name != "_" {
		r[name] = kind
	}
	return r
}

// kind classifies an expression: a scope kind, or `<kind>.<role>` for a field of a value of struct type
func (c *ggctx) kind(e ast.Expr, sc ggscope) string {
	switch t := unparen(e).(type) {
	case *ast.Ident:
		if k, ok := sc[t.Name]; ok {
			return k
		}
		if t.Name == "nil" {
			return "nil"
		}
	case *ast.SelectorExpr:
		x := c.kind(t.X, sc)
		switch x {
		case "recv", "base":
			switch t.Sel.Name {
			case c.qCols:
				return x + ".cols"
			case c.qNames:
				return x + ".names"
			case c.qIndex:
				return x + ".index"
			case c.qErr:
				return x + ".err"
			}
		case "grp", "g":
			switch t.Sel.Name {
			case c.gGroups:
				return x + ".groups"
			case c.gGrouped:
				return x + ".grouped"
			case c.gCols:
				return x + ".cols"
			case c.gNames:
				return x + ".names"
			case c.gErr:
				return x + ".err"
			case c.gStats:
				return x + ".stats"
			}
		case "cfg":
			switch t.Sel.Name {
			case c.cCols:
				return "cfg.cols"
			case c.cNull:
				return "cfg.null"
			}
		case "agg":
			switch t.Sel.Name {
			case "Column", "As", "Fn":
				return "agg." + t.Sel.Name
			}
		case "col":
			switch t.Sel.Name {
			case c.ncName:
				return "col.name"
			case c.ncPos:
				return "col.pos"
			case "Column":
				return "col.Column"
			}
		}
	case *ast.BasicLit:
		if t.Kind == token.STRING {
			return "str:" + t.Value
		}
		if t.Kind == token.INT {
			return "int:" + t.Value
		}
	}
	return "?"
}

var ggNoScope = &escope{vars: map[string]*ev{}}

// `return <T>{<err field>: <non-nil error call>}` as the only statement
func (c *ggctx) isErrFrameReturn(b []ast.Stmt, typ, errField string) bool {
	if len(b) != 1 {
		return false
	}
	r, ok := b[0].(*ast.ReturnStmt)
	if !ok || len(r.Results) != 1 {
		return false
	}
	cl, ok := unparen(r.Results[0]).(*ast.CompositeLit)
	if !ok || src(cl.Type) != typ || len(cl.Elts) != 1 {
		return false
	}
	kv, ok := cl.Elts[0].(*ast.KeyValueExpr)
	return ok && src(kv.Key) == errField && eIsErrCall(kv.Value, ggNoScope)
}

// ---------------------------------------------------------------------------------------------------------------
// helper shapes

func (c *ggctx) method(recvType, name string) *ast.FuncDecl { return c.fns[recvType+"."+name] }

// `for _, col := range <[]string param> { if _, ok := qf.<names>[col]; !ok { return <error> } }; return nil`: index of the []string parameter, or -1
func (c *ggctx) isCheckColumns(fd *ast.FuncDecl) int {
	if fd == nil || fd.Recv == nil || len(fd.Body.List) != 2 || strings.Join(ctFlatTypes(fd.Type.Results), ",") != "error" {
		return -1
	}
	recv := recvName(fd)
	pts, pns := ctFlatTypes(fd.Type.Params), paramNames(fd)
	pi := -1
	for i, t := range pts {
		if t == "[]string" && pi < 0 {
			pi = i
		}
	}
	rg, ok1 := fd.Body.List[0].(*ast.RangeStmt)
	ret, ok2 := fd.Body.List[1].(*ast.ReturnStmt)
	if pi < 0 || !ok1 || !ok2 || len(ret.Results) != 1 || !isNilIdent(ret.Results[0]) || rg.Tok != token.DEFINE || src(rg.X) != pns[pi] || len(rg.Body.List) != 1 {
		return -1
	}
	v, okv := rg.Value.(*ast.Ident)
	ifs, oki := rg.Body.List[0].(*ast.IfStmt)
	if !okv || !oki || ifs.Init == nil || ifs.Else != nil {
		return -1
	}
	as, ok := ifs.Init.(*ast.AssignStmt)
	if !ok || as.Tok != token.DEFINE || len(as.Lhs) != 2 || len(as.Rhs) != 1 || src(as.Lhs[0]) != "_" || src(as.Rhs[0]) != recv+"."+c.qNames+"["+v.Name+"]" || src(ifs.Cond) != "!"+src(as.Lhs[1]) {
		return -1
	}
	if len(ifs.Body.List) != 1 {
		return -1
	}
	r, ok := ifs.Body.List[0].(*ast.ReturnStmt)
	if !ok || len(r.Results) != 1 || !eIsErrCall(r.Results[0], ggNoScope) {
		return -1
	}
	return pi
}

// `if qf.<err> != nil { return -1 }; return qf.<index>.Len()` (or `len(qf.<index>)`)
func (c *ggctx) isLen(fd *ast.FuncDecl) bool {
	if fd == nil || fd.Recv == nil || len(fd.Body.List) != 2 || len(paramNames(fd)) != 0 {
		return false
	}
	recv := recvName(fd)
	ifs, ok1 := fd.Body.List[0].(*ast.IfStmt)
	ret, ok2 := fd.Body.List[1].(*ast.ReturnStmt)
	if !ok1 || !ok2 || ifs.Init != nil || ifs.Else != nil || src(ifs.Cond) != recv+"."+c.qErr+" != nil" || len(ifs.Body.List) != 1 || len(ret.Results) != 1 {
		return false
	}
	r, ok := ifs.Body.List[0].(*ast.ReturnStmt)
	if !ok || len(r.Results) != 1 || src(r.Results[0]) != "-1" {
		return false
	}
	s := src(ret.Results[0])
	return s == recv+"."+c.qIndex+".Len()" || s == "len("+recv+"."+c.qIndex+")"
}

// `orders := make([]Order, len(columns)); for i, col := range columns { orders[i] = Order{<col>: col} }; return orders`
func (c *ggctx) isOrders(fd *ast.FuncDecl) bool {
	if fd == nil || len(fd.Body.List) != 3 || strings.Join(ctFlatTypes(fd.Type.Params), ",") != "[]string" || strings.Join(ctFlatTypes(fd.Type.Results), ",") != "[]Order" {
		return false
	}
	cols := paramNames(fd)[0]
	as, ok1 := fd.Body.List[0].(*ast.AssignStmt)
	rg, ok2 := fd.Body.List[1].(*ast.RangeStmt)
	ret, ok3 := fd.Body.List[2].(*ast.ReturnStmt)
	if !ok1 || !ok2 || !ok3 || as.Tok != token.DEFINE || len(as.Lhs) != 1 || len(as.Rhs) != 1 || src(as.Rhs[0]) != "make([]Order, len("+cols+"))" {
		return false
	}
	o := src(as.Lhs[0])
	k, okk := rg.Key.(*ast.Ident)
	v, okv := rg.Value.(*ast.Ident)
	if !okk || !okv || rg.Tok != token.DEFINE || src(rg.X) != cols || len(rg.Body.List) != 1 || len(ret.Results) != 1 || src(ret.Results[0]) != o {
		return false
	}
	return src(rg.Body.List[0]) == o+"["+k.Name+"] = Order{"+c.orderCol+": "+v.Name+"}" && k.Name != "_" && v.Name != "_"
}

// the body of `comparables`: name source ("orders" | "columns") and the three flags ("true" | "false" | "param"), or ok=false
func (c *ggctx) comparablesShape(fd *ast.FuncDecl) (nameSrc string, flags [3]string, ok bool) {
	if fd == nil || fd.Recv == nil || len(fd.Body.List) != 3 || strings.Join(ctFlatTypes(fd.Type.Params), ",") != "[]string,[]Order,bool" {
		return
	}
	recv := recvName(fd)
	pn := paramNames(fd)
	cols, ords, flag := pn[0], pn[1], pn[2]
	as, ok1 := fd.Body.List[0].(*ast.AssignStmt)
	loop, ok2 := fd.Body.List[1].(*ast.ForStmt)
	ret, ok3 := fd.Body.List[2].(*ast.ReturnStmt)
	if !ok1 || !ok2 || !ok3 || as.Tok != token.DEFINE || len(as.Lhs) != 1 || len(as.Rhs) != 1 {
		return
	}
	res := src(as.Lhs[0])
	mk, okm := as.Rhs[0].(*ast.CallExpr)
	if !okm || src(mk.Fun) != "make" || len(mk.Args) < 2 || src(mk.Args[1]) != "0" || !strings.HasPrefix(src(mk.Args[0]), "[]") || len(ret.Results) != 1 || src(ret.Results[0]) != res {
		return
	}
	init, oi := loop.Init.(*ast.AssignStmt)
	post, op := loop.Post.(*ast.IncDecStmt)
	if !oi || !op || init.Tok != token.DEFINE || len(init.Lhs) != 1 || src(init.Rhs[0]) != "0" || post.Tok != token.INC || src(post.X) != src(init.Lhs[0]) {
		return
	}
	i := src(init.Lhs[0])
	if src(loop.Cond) != i+" < len("+cols+")" || len(loop.Body.List) != 1 {
		return
	}
	ap, oa := loop.Body.List[0].(*ast.AssignStmt)
	if !oa || ap.Tok != token.ASSIGN || len(ap.Lhs) != 1 || src(ap.Lhs[0]) != res || len(ap.Rhs) != 1 {
		return
	}
	call, oc := ap.Rhs[0].(*ast.CallExpr)
	if !oc || src(call.Fun) != "append" || len(call.Args) != 2 || src(call.Args[0]) != res || call.Ellipsis != token.NoPos {
		return
	}
	cmp, ocm := call.Args[1].(*ast.CallExpr)
	if !ocm || len(cmp.Args) != 3 {
		return
	}
	sel, os := cmp.Fun.(*ast.SelectorExpr)
	if !os || sel.Sel.Name != "Comparable" {
		return
	}
	switch src(sel.X) {
	case recv + "." + c.qNames + "[" + ords + "[" + i + "]." + c.orderCol + "]":
		nameSrc = "orders"
	case recv + "." + c.qNames + "[" + cols + "[" + i + "]]":
		nameSrc = "columns"
	default:
		return
	}
	for j, a := range cmp.Args {
		switch s := src(a); s {
		case "true", "false":
			flags[j] = s
		case flag:
			flags[j] = "param"
		default:
			return
		}
	}
	ok = true
	return
}

// ---------------------------------------------------------------------------------------------------------------
// GroupBy

func gbop(n ast.Node) *lt { return ls("GB.opaque", src(n)) }

func (c *ggctx) srcOf(kind string) *lt {
	switch kind {
	case "recv.cols":
		return lh("Src.recvColumns")
	case "recv.names":
		return lh("Src.recvNames")
	case "recv.index":
		return lh("Src.recvIndex")
	case "recv.err":
		return lh("Src.recvErr")
	case "grp.cols":
		return lh("Src.grpColumns")
	case "grp.names":
		return lh("Src.grpNames")
	case "grp.err":
		return lh("Src.grpErr")
	case "cfg.cols":
		return lh("Src.cfgColumns")
	case "err":
		return lh("Src.localErr")
	case "group":
		return lh("Src.group")
	}
	return nil
}

// an index expression: the receiver's index, or NewAscending over its length
func (c *ggctx) indexSrc(e ast.Expr, sc ggscope) *lt {
	if c.kind(e, sc) == "recv.index" {
		return lh("Src.recvIndex")
	}
	if call, ok := unparen(e).(*ast.CallExpr); ok && src(call.Fun) == c.ixPkg+".NewAscending" && len(call.Args) == 1 {
		if conv, ok := unparen(call.Args[0]).(*ast.CallExpr); ok && src(conv.Fun) == "uint32" && len(conv.Args) == 1 {
			a := unparen(conv.Args[0])
			if lc, ok := a.(*ast.CallExpr); ok {
				if src(lc.Fun) == "len" && len(lc.Args) == 1 && c.kind(lc.Args[0], sc) == "recv.index" {
					return lh("Src.ascendingLen")
				}
				if sel, ok := lc.Fun.(*ast.SelectorExpr); ok && len(lc.Args) == 0 && sel.Sel.Name == "Len" && (c.kind(sel.X, sc) == "recv.index" || (c.kind(sel.X, sc) == "recv" && c.isLen(c.method("QFrame", "Len")))) {
					return lh("Src.ascendingLen")
				}
			}
		}
	}
	return nil
}

func (c *ggctx) barg(s string, sc ggscope, e ast.Expr) *lt {
	switch s {
	case "true", "false":
		return lh("BArg.lit", lh(s))
	}
	if c.kind(e, sc) == "cfg.null" {
		return lh("BArg.cfgNull")
	}
	if v := src(e); v == "true" || v == "false" {
		return lh("BArg.lit", lh(v))
	}
	return nil
}

func (c *ggctx) gb(stmts []ast.Stmt, sc ggscope) *lt {
	if len(stmts) == 0 {
		return ls("GB.opaque", "missing return")
	}
	st, rest := stmts[0], stmts[1:]
	switch s := st.(type) {
	case *ast.IfStmt:
		if s.Else != nil {
			return gbop(s)
		}
		if s.Init != nil {
			// if err := qf.<check>(…, config.Columns); err != nil { … }
			as, ok := s.Init.(*ast.AssignStmt)
			if !ok || as.Tok != token.DEFINE || len(as.Lhs) != 1 || len(as.Rhs) != 1 || src(s.Cond) != src(as.Lhs[0])+" != nil" {
				return gbop(s)
			}
			call, ok := as.Rhs[0].(*ast.CallExpr)
			if !ok {
				return gbop(s)
			}
			sel, ok := call.Fun.(*ast.SelectorExpr)
			if !ok || c.kind(sel.X, sc) != "recv" {
				return gbop(s)
			}
			pi := c.isCheckColumns(c.method("QFrame", sel.Sel.Name))
			if pi < 0 || pi >= len(call.Args) || c.kind(call.Args[pi], sc) != "cfg.cols" {
				return gbop(s)
			}
			return lh("GB.checkColumns", c.gb(s.Body.List, sc.with(src(as.Lhs[0]), "err")), c.gb(rest, sc))
		}
		cond := unparen(s.Cond)
		if b, ok := cond.(*ast.BinaryExpr); ok {
			switch {
			case b.Op == token.NEQ && c.kind(b.X, sc) == "recv.err" && isNilIdent(b.Y):
				return lh("GB.ifRecvErr", c.gb(s.Body.List, sc), c.gb(rest, sc))
			case b.Op == token.EQL && src(b.Y) == "0":
				if call, ok := unparen(b.X).(*ast.CallExpr); ok {
					if sel, ok := call.Fun.(*ast.SelectorExpr); ok && len(call.Args) == 0 && c.kind(sel.X, sc) == "recv" && c.isLen(c.method("QFrame", sel.Sel.Name)) {
						return lh("GB.ifLenZero", c.gb(s.Body.List, sc), c.gb(rest, sc))
					}
					if src(call.Fun) == "len" && len(call.Args) == 1 && c.kind(call.Args[0], sc) == "cfg.cols" {
						return lh("GB.ifNoColumns", c.gb(s.Body.List, sc), c.gb(rest, sc))
					}
				}
			}
		}
		return gbop(s)
	case *ast.AssignStmt:
		if s.Tok == token.DEFINE && len(s.Lhs) == 1 && len(s.Rhs) == 1 {
			name := src(s.Lhs[0])
			// config := groupby.NewConfig(configFns)
			if call, ok := s.Rhs[0].(*ast.CallExpr); ok && src(call.Fun) == c.gbPkg+".NewConfig" && len(call.Args) == 1 && c.kind(call.Args[0], sc) == "cfgfns" && c.newConfigOk() {
				return lh("GB.newConfig", c.gb(rest, sc.with(name, "cfg")))
			}
			// g := Grouper{…}
			if cl, ok := s.Rhs[0].(*ast.CompositeLit); ok && src(cl.Type) == "Grouper" {
				fields := map[string]*lt{c.gCols: lh("Src.zero"), c.gNames: lh("Src.zero"), c.gGrouped: lh("Src.zero")}
				for _, el := range cl.Elts {
					kv, ok := el.(*ast.KeyValueExpr)
					if !ok {
						return gbop(s)
					}
					if _, known := fields[src(kv.Key)]; !known {
						return gbop(s)
					}
					v := c.srcOf(c.kind(kv.Value, sc))
					if v == nil {
						return gbop(s)
					}
					fields[src(kv.Key)] = v
				}
				return lh("GB.mkGrouper", fields[c.gCols], fields[c.gNames], fields[c.gGrouped], c.gb(rest, sc.with(name, "g")))
			}
			if call, ok := s.Rhs[0].(*ast.CallExpr); ok {
				if sel, ok := call.Fun.(*ast.SelectorExpr); ok && c.kind(sel.X, sc) == "recv" {
					fd := c.method("QFrame", sel.Sel.Name)
					// orders := qf.<orders>(config.Columns)
					if c.isOrders(fd) && len(call.Args) == 1 && c.kind(call.Args[0], sc) == "cfg.cols" {
						return c.gb(rest, sc.with(name, "orders"))
					}
					// comparables := qf.<comparables>(config.Columns, orders, config.GroupByNull)
					if nameSrc, flags, ok := c.comparablesShape(fd); ok && len(call.Args) == 3 && c.kind(call.Args[0], sc) == "cfg.cols" &&
						(nameSrc == "columns" || c.kind(call.Args[1], sc) == "orders") {
						var bs [3]*lt
						for j := range flags {
							if flags[j] == "param" {
								bs[j] = c.barg("", sc, call.Args[2])
							} else {
								bs[j] = c.barg(flags[j], sc, nil)
							}
							if bs[j] == nil {
								return gbop(s)
							}
						}
						return lh("GB.comparables", bs[0], bs[1], bs[2], c.gb(rest, sc.with(name, "cmps")))
					}
				}
			}
			return gbop(s)
		}
		// indices, stats := grouper.GroupBy(qf.index, comparables)
		if s.Tok == token.DEFINE && len(s.Lhs) == 2 && len(s.Rhs) == 1 {
			if call, ok := s.Rhs[0].(*ast.CallExpr); ok && len(call.Args) == 2 && c.kind(call.Args[1], sc) == "cmps" {
				if sel, ok := call.Fun.(*ast.SelectorExpr); ok && src(sel.X) == c.grpPkg && c.isGrouperGroupBy(sel.Sel.Name) {
					if _, shadow := sc[c.grpPkg]; !shadow {
						if ix := c.indexSrc(call.Args[0], sc); ix != nil {
							return lh("GB.callGrouper", ix, c.gb(rest, sc.with(src(s.Lhs[0]), "indices").with(src(s.Lhs[1]), "stats")))
						}
					}
				}
			}
			return gbop(s)
		}
		if s.Tok == token.ASSIGN && len(s.Lhs) == 1 && len(s.Rhs) == 1 {
			switch c.kind(s.Lhs[0], sc) {
			case "g.groups":
				if c.kind(s.Rhs[0], sc) == "indices" {
					return lh("GB.setIndices", c.gb(rest, sc))
				}
				// g.indices = []index.Int{qf.index}
				if cl, ok := s.Rhs[0].(*ast.CompositeLit); ok && src(cl.Type) == "[]"+c.ixPkg+".Int" && len(cl.Elts) == 1 {
					if ix := c.indexSrc(cl.Elts[0], sc); ix != nil {
						return lh("GB.setOneGroup", ix, c.gb(rest, sc))
					}
				}
			case "g.stats":
				v := s.Rhs[0]
				if call, ok := v.(*ast.CallExpr); ok && src(call.Fun) == c.statsType && len(call.Args) == 1 {
					v = call.Args[0]
				}
				if c.kind(v, sc) == "stats" {
					return lh("GB.setStats", c.gb(rest, sc))
				}
			}
		}
		return gbop(s)
	case *ast.ReturnStmt:
		if len(s.Results) != 1 {
			return gbop(s)
		}
		if c.kind(s.Results[0], sc) == "g" {
			return lh("GB.retGrouper")
		}
		if cl, ok := unparen(s.Results[0]).(*ast.CompositeLit); ok && src(cl.Type) == "Grouper" && len(cl.Elts) == 1 {
			if kv, ok := cl.Elts[0].(*ast.KeyValueExpr); ok && src(kv.Key) == c.gErr {
				if v := c.srcOf(c.kind(kv.Value, sc)); v != nil {
					return lh("GB.retErr", v)
				}
			}
		}
		return gbop(s)
	}
	return gbop(st)
}

// groupby.NewConfig: `var config Config; for _, f := range configFns { f(&config) }; return config`
func (c *ggctx) newConfigOk() bool {
	fd := funcDecls(c.gbFiles)["NewConfig"]
	if fd == nil || len(fd.Body.List) != 3 || len(paramNames(fd)) != 1 {
		return false
	}
	p := paramNames(fd)[0]
	ds, ok1 := fd.Body.List[0].(*ast.DeclStmt)
	rg, ok2 := fd.Body.List[1].(*ast.RangeStmt)
	ret, ok3 := fd.Body.List[2].(*ast.ReturnStmt)
	if !ok1 || !ok2 || !ok3 || len(ret.Results) != 1 {
		return false
	}
	cfg := src(ret.Results[0])
	v, okv := rg.Value.(*ast.Ident)
	return src(ds) == "var "+cfg+" Config" && okv && src(rg.X) == p && len(rg.Body.List) == 1 && src(rg.Body.List[0]) == v.Name+"(&"+cfg+")"
}

// the function of internal/grouper `(index.Int, []column.Comparable) ([]index.Int, GroupStats)`
func (c *ggctx) isGrouperGroupBy(name string) bool {
	return c.grouperSigs[name]
}

// ---------------------------------------------------------------------------------------------------------------
// Distinct: the comparables and the index handed to grouper.Distinct

// `result := make([]string, len(qf.<cols>)); for i, s := range qf.<cols> { result[i] = s.<name> }; return result`
func (c *ggctx) isColumnNames(fd *ast.FuncDecl) bool {
	if fd == nil || fd.Recv == nil || len(fd.Body.List) != 3 || len(paramNames(fd)) != 0 {
		return false
	}
	recv := recvName(fd)
	as, ok1 := fd.Body.List[0].(*ast.AssignStmt)
	rg, ok2 := fd.Body.List[1].(*ast.RangeStmt)
	ret, ok3 := fd.Body.List[2].(*ast.ReturnStmt)
	if !ok1 || !ok2 || !ok3 || as.Tok != token.DEFINE || len(as.Lhs) != 1 || len(as.Rhs) != 1 || src(as.Rhs[0]) != "make([]string, len("+recv+"."+c.qCols+"))" {
		return false
	}
	res := src(as.Lhs[0])
	k, okk := rg.Key.(*ast.Ident)
	v, okv := rg.Value.(*ast.Ident)
	return okk && okv && k.Name != "_" && v.Name != "_" && rg.Tok == token.DEFINE && src(rg.X) == recv+"."+c.qCols && len(rg.Body.List) == 1 &&
		src(rg.Body.List[0]) == res+"["+k.Name+"] = "+v.Name+"."+c.ncName && len(ret.Results) == 1 && src(ret.Results[0]) == res
}

// `if len(columns) == 0 { return qf.<ColumnNames>() }; return columns`
func (c *ggctx) isColumnsOrAll(fd *ast.FuncDecl) bool {
	if fd == nil || fd.Recv == nil || len(fd.Body.List) != 2 || strings.Join(ctFlatTypes(fd.Type.Params), ",") != "[]string" {
		return false
	}
	recv, cols := recvName(fd), paramNames(fd)[0]
	ifs, ok1 := fd.Body.List[0].(*ast.IfStmt)
	ret, ok2 := fd.Body.List[1].(*ast.ReturnStmt)
	if !ok1 || !ok2 || ifs.Init != nil || ifs.Else != nil || src(ifs.Cond) != "len("+cols+") == 0" || len(ifs.Body.List) != 1 || len(ret.Results) != 1 || src(ret.Results[0]) != cols {
		return false
	}
	r, ok := ifs.Body.List[0].(*ast.ReturnStmt)
	if !ok || len(r.Results) != 1 {
		return false
	}
	call, ok := r.Results[0].(*ast.CallExpr)
	if !ok || len(call.Args) != 0 {
		return false
	}
	sel, ok := call.Fun.(*ast.SelectorExpr)
	return ok && src(sel.X) == recv && c.isColumnNames(c.method("QFrame", sel.Sel.Name))
}

// distinct finds, in the method `(...groupby.ConfigFunc) QFrame` that calls `<grouper>.<Distinct>`, what that call is handed
func (c *ggctx) distinct(fd *ast.FuncDecl) *lt {
	sc := ggscope{recvName(fd): "recv", paramNames(fd)[0]: "cfgfns"}
	var term *lt
	for _, st := range fd.Body.List {
		as, ok := st.(*ast.AssignStmt)
		if !ok || as.Tok != token.DEFINE || len(as.Lhs) != 1 || len(as.Rhs) != 1 {
			continue
		}
		name := src(as.Lhs[0])
		call, ok := as.Rhs[0].(*ast.CallExpr)
		if !ok {
			continue
		}
		if src(call.Fun) == c.gbPkg+".NewConfig" && len(call.Args) == 1 && c.kind(call.Args[0], sc) == "cfgfns" && c.newConfigOk() {
			sc = sc.with(name, "cfg")
			continue
		}
		sel, ok := call.Fun.(*ast.SelectorExpr)
		if !ok {
			continue
		}
		if c.kind(sel.X, sc) == "recv" {
			m := c.method("QFrame", sel.Sel.Name)
			switch {
			case c.isColumnsOrAll(m) && len(call.Args) == 1 && c.kind(call.Args[0], sc) == "cfg.cols":
				sc = sc.with(name, "names:orAll")
			case c.isOrders(m) && len(call.Args) == 1 && strings.HasPrefix(c.kind(call.Args[0], sc), "names:"):
				sc = sc.with(name, "orders:"+strings.TrimPrefix(c.kind(call.Args[0], sc), "names:"))
			case c.isOrders(m) && len(call.Args) == 1 && c.kind(call.Args[0], sc) == "cfg.cols":
				sc = sc.with(name, "orders:cfg")
			default:
				if nameSrc, flags, ok := c.comparablesShape(m); ok && len(call.Args) == 3 {
					which := ""
					switch k := c.kind(call.Args[0], sc); {
					case k == "cfg.cols":
						which = "cfg"
					case strings.HasPrefix(k, "names:"):
						which = strings.TrimPrefix(k, "names:")
					}
					if which == "" || (nameSrc == "orders" && c.kind(call.Args[1], sc) != "orders:"+which) {
						return ls("DK.opaque", src(st))
					}
					var bs [3]*lt
					for j := range flags {
						if flags[j] == "param" {
							bs[j] = c.barg("", sc, call.Args[2])
						} else {
							bs[j] = c.barg(flags[j], sc, nil)
						}
						if bs[j] == nil {
							return ls("DK.opaque", src(st))
						}
					}
					names := lh("DNames.cfgColumns")
					if which == "orAll" {
						names = lh("DNames.cfgColumnsOrAll")
					}
					sc = sc.with(name, "cmps")
					term = lh("DK.comparables", names, bs[0], bs[1], bs[2])
				}
			}
			continue
		}
		// newIx := grouper.Distinct(qf.index, comparables)
		if src(sel.X) == c.grpPkg && c.grouperDistinct[sel.Sel.Name] && len(call.Args) == 2 && c.kind(call.Args[1], sc) == "cmps" && term != nil {
			if ix := c.indexSrc(call.Args[0], sc); ix != nil {
				return lh(term.head, append(append([]*lt{}, term.args...), ix)...)
			}
			return ls("DK.opaque", src(st))
		}
	}
	return ls("DK.opaque", "no call of the function (index.Int, []column.Comparable) index.Int of internal/grouper with comparables made here")
}

// ---------------------------------------------------------------------------------------------------------------
// config functions

func (c *ggctx) configFns() []string {
	fns := funcDecls(c.gbFiles)
	var names []string
	for n := range fns {
		names = append(names, n)
	}
	sort.Strings(names)
	var res []string
	for _, n := range names {
		fd := fns[n]
		if fd.Recv != nil || strings.Join(ctFlatTypes(fd.Type.Results), ",") != "ConfigFunc" {
			continue
		}
		term := ls("CF.opaque", src(fd.Body))
		pn, pt := paramNames(fd), ctFlatTypes(fd.Type.Params)
		if len(fd.Body.List) == 1 && len(pn) == 1 {
			if r, ok := fd.Body.List[0].(*ast.ReturnStmt); ok && len(r.Results) == 1 {
				if fl, ok := r.Results[0].(*ast.FuncLit); ok && len(fl.Body.List) == 1 && len(fl.Type.Params.List) == 1 && len(fl.Type.Params.List[0].Names) == 1 && src(fl.Type.Params.List[0].Type) == "*Config" {
					cn := fl.Type.Params.List[0].Names[0].Name
					switch src(fl.Body.List[0]) {
					case cn + "." + c.cCols + " = " + pn[0]:
						if pt[0] == "...string" && cn != pn[0] {
							term = lh("CF.setColumns")
						}
					case cn + "." + c.cNull + " = " + pn[0]:
						if pt[0] == "bool" && cn != pn[0] {
							term = lh("CF.setNull")
						}
					}
				}
			}
		}
		res = append(res, "  ("+leanStr("("+strings.Join(ctFlatTypes(fd.Type.Params), ", ")+")")+", "+term.lean()+")")
	}
	return res
}

// ---------------------------------------------------------------------------------------------------------------
// QFrames

func qsop(n ast.Node) *lt { return ls("QS.opaque", src(n)) }

// `return QFrame{…}` of the helper `(ix index.Int) QFrame`: for every field what it is made of: recv.<role> | param
func (c *ggctx) withIndexShape(fd *ast.FuncDecl) map[string]string {
	if fd == nil || fd.Recv == nil || len(fd.Body.List) != 1 || strings.Join(ctFlatTypes(fd.Type.Params), ",") != c.ixPkg+".Int" || strings.Join(ctFlatTypes(fd.Type.Results), ",") != "QFrame" {
		return nil
	}
	r, ok := fd.Body.List[0].(*ast.ReturnStmt)
	if !ok || len(r.Results) != 1 {
		return nil
	}
	cl, ok := unparen(r.Results[0]).(*ast.CompositeLit)
	if !ok || src(cl.Type) != "QFrame" {
		return nil
	}
	sc := ggscope{recvName(fd): "recv", paramNames(fd)[0]: "param"}
	res := map[string]string{c.qCols: "zero", c.qNames: "zero", c.qIndex: "zero", c.qErr: "zero"}
	for _, el := range cl.Elts {
		kv, ok := el.(*ast.KeyValueExpr)
		if !ok {
			return nil
		}
		if _, known := res[src(kv.Key)]; !known {
			return nil
		}
		k := c.kind(kv.Value, sc)
		if !strings.HasPrefix(k, "recv.") && k != "param" {
			return nil
		}
		res[src(kv.Key)] = k
	}
	return res
}

func (c *ggctx) qs(stmts []ast.Stmt, sc ggscope, base map[string]*lt, result string) *lt {
	if len(stmts) == 0 {
		return ls("QS.opaque", "missing return")
	}
	st, rest := stmts[0], stmts[1:]
	switch s := st.(type) {
	case *ast.IfStmt:
		// if g.Err != nil { return nil, g.Err }
		if s.Init == nil && s.Else == nil && len(s.Body.List) == 1 {
			if b, ok := unparen(s.Cond).(*ast.BinaryExpr); ok && b.Op == token.NEQ && c.kind(b.X, sc) == "grp.err" && isNilIdent(b.Y) {
				if r, ok := s.Body.List[0].(*ast.ReturnStmt); ok && len(r.Results) == 2 && isNilIdent(r.Results[0]) && c.kind(r.Results[1], sc) == "grp.err" {
					return lh("QS.ifGrouperErr", c.qs(rest, sc, base, result))
				}
			}
		}
	case *ast.AssignStmt:
		if s.Tok == token.DEFINE && len(s.Lhs) == 1 && len(s.Rhs) == 1 {
			name := src(s.Lhs[0])
			// base := QFrame{…}
			if cl, ok := s.Rhs[0].(*ast.CompositeLit); ok && src(cl.Type) == "QFrame" && base == nil {
				fields := map[string]*lt{c.qCols: lh("Src.zero"), c.qNames: lh("Src.zero"), c.qIndex: lh("Src.zero"), c.qErr: lh("Src.zero")}
				for _, el := range cl.Elts {
					kv, ok := el.(*ast.KeyValueExpr)
					if !ok {
						return qsop(s)
					}
					if _, known := fields[src(kv.Key)]; !known {
						return qsop(s)
					}
					v := c.srcOf(c.kind(kv.Value, sc))
					if v == nil {
						// an empty slice literal `index.Int{}`
						if ecl, ok := kv.Value.(*ast.CompositeLit); ok && len(ecl.Elts) == 0 && src(ecl.Type) == c.ixPkg+".Int" {
							v = lh("Src.zero")
						} else {
							return qsop(s)
						}
					}
					fields[src(kv.Key)] = v
				}
				if fields[c.qErr].lean() != "Src.zero" {
					return qsop(s)
				}
				return lh("QS.base", fields[c.qCols], fields[c.qNames], fields[c.qIndex], c.qs(rest, sc.with(name, "base"), fields, result))
			}
			// result := make([]QFrame, len(g.indices))
			if call, ok := s.Rhs[0].(*ast.CallExpr); ok && src(call.Fun) == "make" && len(call.Args) == 2 && src(call.Args[0]) == "[]QFrame" {
				if lc, ok := call.Args[1].(*ast.CallExpr); ok && src(lc.Fun) == "len" && len(lc.Args) == 1 && c.kind(lc.Args[0], sc) == "grp.groups" {
					return lh("QS.makeResult", c.qs(rest, sc.with(name, "result"), base, name))
				}
			}
		}
	case *ast.RangeStmt:
		// for i, ix := range g.indices { result[i] = base.<withIndex>(ix) }
		k, okk := s.Key.(*ast.Ident)
		v, okv := s.Value.(*ast.Ident)
		if !okk || !okv || s.Tok != token.DEFINE || c.kind(s.X, sc) != "grp.groups" || len(s.Body.List) != 1 || base == nil || result == "" || k.Name == "_" || v.Name == "_" {
			return qsop(s)
		}
		as, ok := s.Body.List[0].(*ast.AssignStmt)
		if !ok || as.Tok != token.ASSIGN || len(as.Lhs) != 1 || len(as.Rhs) != 1 || src(as.Lhs[0]) != result+"["+k.Name+"]" {
			return qsop(s)
		}
		call, ok := as.Rhs[0].(*ast.CallExpr)
		if !ok || len(call.Args) != 1 || src(call.Args[0]) != v.Name {
			return qsop(s)
		}
		sel, ok := call.Fun.(*ast.SelectorExpr)
		if !ok || c.kind(sel.X, sc) != "base" {
			return qsop(s)
		}
		shape := c.withIndexShape(c.method("QFrame", sel.Sel.Name))
		if shape == nil {
			return qsop(s)
		}
		field := func(f string) *lt {
			switch shape[f] {
			case "param":
				return lh("Src.group")
			case "zero":
				return lh("Src.zero")
			case "recv.cols":
				return base[c.qCols]
			case "recv.names":
				return base[c.qNames]
			case "recv.index":
				return base[c.qIndex]
			case "recv.err":
				return base[c.qErr]
			}
			return nil
		}
		fs := []*lt{field(c.qCols), field(c.qNames), field(c.qIndex), field(c.qErr)}
		for _, f := range fs {
			if f == nil {
				return qsop(s)
			}
		}
		return lh("QS.rangeStore", fs[0], fs[1], fs[2], fs[3], c.qs(rest, sc, base, result))
	case *ast.ReturnStmt:
		if len(s.Results) == 2 && src(s.Results[0]) == result && result != "" && isNilIdent(s.Results[1]) {
			return lh("QS.retResult")
		}
	}
	return qsop(st)
}

// ---------------------------------------------------------------------------------------------------------------
// Aggregate

func asop(n ast.Node) *lt { return ls("AS.opaque", src(n)) }
func atop(n ast.Node) *lt { return ls("AT.opaque", src(n)) }

type aggNames struct {
	first, byName, cols, errVar string
}

// the statements of a loop body of Aggregate
func (c *ggctx) aggBody(stmts []ast.Stmt, sc ggscope, nm aggNames, keyVar, posVar string) []*lt {
	var res []*lt
	nameVar, okVar := "", ""
	for i := 0; i < len(stmts); i++ {
		st := stmts[i]
		next := func() ast.Stmt {
			if i+1 < len(stmts) {
				return stmts[i+1]
			}
			return nil
		}
		done := false
		switch s := st.(type) {
		case *ast.AssignStmt:
			switch {
			case s.Tok == token.DEFINE && len(s.Lhs) == 1 && len(s.Rhs) == 1:
				name := src(s.Lhs[0])
				rhs := unparen(s.Rhs[0])
				// col := g.<names>[colName]
				if ix, ok := rhs.(*ast.IndexExpr); ok && c.kind(ix.X, sc) == "grp.names" && keyVar != "" && src(ix.Index) == keyVar {
					sc = sc.with(name, "col")
					res, done = append(res, lh("AS.lookupGrouped")), true
				} else if c.kind(rhs, sc) == "agg.Column" {
					// name := agg.Column
					nameVar = name
					res, done = append(res, lh("AS.nameFromColumn")), true
				}
			case s.Tok == token.DEFINE && len(s.Lhs) == 2 && len(s.Rhs) == 1:
				// col, ok := g.<names>[agg.Column]; if !ok { return QFrame{Err: …} }
				if ix, ok := unparen(s.Rhs[0]).(*ast.IndexExpr); ok && c.kind(ix.X, sc) == "grp.names" && c.kind(ix.Index, sc) == "agg.Column" {
					if ifs, ok := next().(*ast.IfStmt); ok && ifs.Init == nil && ifs.Else == nil && src(ifs.Cond) == "!"+src(s.Lhs[1]) && c.isErrFrameReturn(ifs.Body.List, "QFrame", c.qErr) {
						sc = sc.with(src(s.Lhs[0]), "col")
						okVar = src(s.Lhs[1])
						res, done = append(res, lh("AS.lookupAggOrErr")), true
						i++
					}
				}
			case s.Tok == token.ASSIGN && len(s.Lhs) == 2 && len(s.Rhs) == 1:
				// _, ok = newByName[name]; if ok { return QFrame{Err: …} }
				if ix, ok := unparen(s.Rhs[0]).(*ast.IndexExpr); ok && src(s.Lhs[0]) == "_" && src(s.Lhs[1]) == okVar && okVar != "" && src(ix.X) == nm.byName && src(ix.Index) == nameVar && nameVar != "" {
					if ifs, ok := next().(*ast.IfStmt); ok && ifs.Init == nil && ifs.Else == nil && src(ifs.Cond) == okVar && c.isErrFrameReturn(ifs.Body.List, "QFrame", c.qErr) {
						res, done = append(res, lh("AS.rejectIfPresent")), true
						i++
					}
				}
			case s.Tok == token.ASSIGN && len(s.Lhs) == 1 && len(s.Rhs) == 1:
				lk := c.kind(s.Lhs[0], sc)
				switch {
				case lk == "col.pos" && posVar != "" && src(s.Rhs[0]) == posVar:
					res, done = append(res, lh("AS.setPosI")), true
				case lk == "col.pos" && src(s.Rhs[0]) == "len("+nm.cols+")":
					res, done = append(res, lh("AS.setPosLen")), true
				case lk == "col.name" && src(s.Rhs[0]) == nameVar && nameVar != "":
					res, done = append(res, lh("AS.setName")), true
				case lk == "col.Column":
					// col.Column = col.Subset(first)
					if call, ok := s.Rhs[0].(*ast.CallExpr); ok && len(call.Args) == 1 && src(call.Args[0]) == nm.first && nm.first != "" {
						if sel, ok := call.Fun.(*ast.SelectorExpr); ok && sel.Sel.Name == "Subset" && c.kind(sel.X, sc) == "col" {
							res, done = append(res, lh("AS.subsetFirst")), true
						}
					}
				case src(s.Lhs[0]) == nm.cols:
					if call, ok := s.Rhs[0].(*ast.CallExpr); ok && src(call.Fun) == "append" && len(call.Args) == 2 && src(call.Args[0]) == nm.cols && call.Ellipsis == token.NoPos && c.kind(call.Args[1], sc) == "col" {
						res, done = append(res, lh("AS.appendCol")), true
					}
				default:
					if ix, ok := s.Lhs[0].(*ast.IndexExpr); ok && src(ix.X) == nm.byName && c.kind(s.Rhs[0], sc) == "col" {
						switch {
						case keyVar != "" && src(ix.Index) == keyVar:
							res, done = append(res, lh("AS.putGrouped")), true
						case nameVar != "" && src(ix.Index) == nameVar:
							res, done = append(res, lh("AS.putNamed")), true
						}
					}
				}
			}
		case *ast.IfStmt:
			if s.Init != nil {
				break
			}
			b, ok := unparen(s.Cond).(*ast.BinaryExpr)
			if !ok {
				break
			}
			// if agg.As != "" { name = agg.As }
			if b.Op == token.NEQ && c.kind(b.X, sc) == "agg.As" && src(b.Y) == `""` && s.Else == nil && len(s.Body.List) == 1 && nameVar != "" {
				if as, ok := s.Body.List[0].(*ast.AssignStmt); ok && as.Tok == token.ASSIGN && len(as.Lhs) == 1 && src(as.Lhs[0]) == nameVar && len(as.Rhs) == 1 && c.kind(as.Rhs[0], sc) == "agg.As" {
					res, done = append(res, lh("AS.nameFromAsIfSet")), true
				}
			}
			// if agg.Fn == "count" { … } else { … }
			if b.Op == token.EQL && c.kind(b.X, sc) == "agg.Fn" && strings.HasPrefix(c.kind(b.Y, sc), "str:") && s.Else != nil {
				special, err := strconv.Unquote(strings.TrimPrefix(c.kind(b.Y, sc), "str:"))
				if err == nil && c.isCountBlock(s.Body.List, sc) && c.isAggregateBlock(eBlock(s.Else), sc, nm) {
					res, done = append(res, ls("AS.compute", special)), true
				}
			}
		}
		if !done {
			res = append(res, asop(st))
		}
	}
	return res
}

// `counts := make([]int, len(g.<groups>)); for i, ix := range g.<groups> { counts[i] = len(ix) }; col.Column = icolumn.New(counts)`
func (c *ggctx) isCountBlock(b []ast.Stmt, sc ggscope) bool {
	if len(b) != 3 || c.icolPkg == "" {
		return false
	}
	as, ok1 := b[0].(*ast.AssignStmt)
	rg, ok2 := b[1].(*ast.RangeStmt)
	set, ok3 := b[2].(*ast.AssignStmt)
	if !ok1 || !ok2 || !ok3 || as.Tok != token.DEFINE || len(as.Lhs) != 1 || len(as.Rhs) != 1 {
		return false
	}
	cnt := src(as.Lhs[0])
	mk, ok := as.Rhs[0].(*ast.CallExpr)
	if !ok || src(mk.Fun) != "make" || len(mk.Args) != 2 || src(mk.Args[0]) != "[]int" {
		return false
	}
	lc, ok := mk.Args[1].(*ast.CallExpr)
	if !ok || src(lc.Fun) != "len" || len(lc.Args) != 1 || c.kind(lc.Args[0], sc) != "grp.groups" {
		return false
	}
	k, okk := rg.Key.(*ast.Ident)
	v, okv := rg.Value.(*ast.Ident)
	if !okk || !okv || rg.Tok != token.DEFINE || c.kind(rg.X, sc) != "grp.groups" || len(rg.Body.List) != 1 || k.Name == "_" || v.Name == "_" || k.Name == cnt || v.Name == cnt {
		return false
	}
	if src(rg.Body.List[0]) != cnt+"["+k.Name+"] = len("+v.Name+")" {
		return false
	}
	return set.Tok == token.ASSIGN && len(set.Lhs) == 1 && c.kind(set.Lhs[0], sc) == "col.Column" && len(set.Rhs) == 1 && src(set.Rhs[0]) == c.icolPkg+".New("+cnt+")" && c.icolNewOk
}

// `col.Column, err = col.Aggregate(g.<groups>, agg.Fn); if err != nil { return QFrame{Err: …} }`
func (c *ggctx) isAggregateBlock(b []ast.Stmt, sc ggscope, nm aggNames) bool {
	if len(b) != 2 {
		return false
	}
	as, ok1 := b[0].(*ast.AssignStmt)
	ifs, ok2 := b[1].(*ast.IfStmt)
	if !ok1 || !ok2 || as.Tok != token.ASSIGN || len(as.Lhs) != 2 || len(as.Rhs) != 1 || c.kind(as.Lhs[0], sc) != "col.Column" || src(as.Lhs[1]) != nm.errVar || nm.errVar == "" {
		return false
	}
	call, ok := as.Rhs[0].(*ast.CallExpr)
	if !ok || len(call.Args) != 2 || c.kind(call.Args[0], sc) != "grp.groups" || c.kind(call.Args[1], sc) != "agg.Fn" {
		return false
	}
	sel, ok := call.Fun.(*ast.SelectorExpr)
	if !ok || sel.Sel.Name != "Aggregate" || c.kind(sel.X, sc) != "col" {
		return false
	}
	return ifs.Init == nil && ifs.Else == nil && src(ifs.Cond) == nm.errVar+" != nil" && c.isErrFrameReturn(ifs.Body.List, "QFrame", c.qErr)
}

func (c *ggctx) aggregate(fd *ast.FuncDecl) []*lt {
	recv := recvName(fd)
	pn := paramNames(fd)
	if recv == "" || len(pn) != 1 {
		return []*lt{atop(fd.Body)}
	}
	sc := ggscope{recv: "grp", pn[0]: "aggs"}
	var nm aggNames
	var res []*lt
	stmts := fd.Body.List
	allocSeen := 0
	for i := 0; i < len(stmts); i++ {
		st := stmts[i]
		done := false
		switch s := st.(type) {
		case *ast.IfStmt:
			// if g.Err != nil { return QFrame{Err: g.Err} }
			if s.Init == nil && s.Else == nil && len(s.Body.List) == 1 {
				if b, ok := unparen(s.Cond).(*ast.BinaryExpr); ok && b.Op == token.NEQ && c.kind(b.X, sc) == "grp.err" && isNilIdent(b.Y) {
					if r, ok := s.Body.List[0].(*ast.ReturnStmt); ok && len(r.Results) == 1 {
						if cl, ok := unparen(r.Results[0]).(*ast.CompositeLit); ok && src(cl.Type) == "QFrame" && len(cl.Elts) == 1 {
							if kv, ok := cl.Elts[0].(*ast.KeyValueExpr); ok && src(kv.Key) == c.qErr && c.kind(kv.Value, sc) == "grp.err" {
								res, done = append(res, lh("AT.ifGrouperErr")), true
							}
						}
					}
				}
			}
		case *ast.DeclStmt:
			if gd, ok := s.Decl.(*ast.GenDecl); ok && gd.Tok == token.VAR && len(gd.Specs) == 1 {
				if vs, ok := gd.Specs[0].(*ast.ValueSpec); ok && len(vs.Names) == 1 && len(vs.Values) == 0 && vs.Type != nil && src(vs.Type) == "error" {
					nm.errVar = vs.Names[0].Name
					res, done = append(res, lh("AT.declErr")), true
				}
			}
		case *ast.AssignStmt:
			if s.Tok != token.DEFINE || len(s.Lhs) != 1 || len(s.Rhs) != 1 {
				break
			}
			name := src(s.Lhs[0])
			call, ok := s.Rhs[0].(*ast.CallExpr)
			if !ok || src(call.Fun) != "make" || len(call.Args) < 2 {
				break
			}
			switch src(call.Args[0]) {
			case c.ixPkg + ".Int":
				// first := make(index.Int, len(g.<groups>)); for i, ix := range g.<groups> { first[i] = ix[k] }
				lc, ok := call.Args[1].(*ast.CallExpr)
				if !ok || len(call.Args) != 2 || src(lc.Fun) != "len" || len(lc.Args) != 1 || c.kind(lc.Args[0], sc) != "grp.groups" || i+1 >= len(stmts) {
					break
				}
				rg, ok := stmts[i+1].(*ast.RangeStmt)
				if !ok || rg.Tok != token.DEFINE || c.kind(rg.X, sc) != "grp.groups" || len(rg.Body.List) != 1 {
					break
				}
				k, okk := rg.Key.(*ast.Ident)
				v, okv := rg.Value.(*ast.Ident)
				if !okk || !okv || k.Name == "_" || v.Name == "_" {
					break
				}
				as, ok := rg.Body.List[0].(*ast.AssignStmt)
				if !ok || as.Tok != token.ASSIGN || len(as.Lhs) != 1 || len(as.Rhs) != 1 || src(as.Lhs[0]) != name+"["+k.Name+"]" {
					break
				}
				ie, ok := as.Rhs[0].(*ast.IndexExpr)
				if !ok || src(ie.X) != v.Name {
					break
				}
				n, err := strconv.Atoi(src(ie.Index))
				if err != nil || n < 0 {
					break
				}
				nm.first = name
				res, done = append(res, lh("AT.firstRows", lnat(n))), true
				i++
			case "map[string]namedColumn":
				nm.byName = name
				allocSeen++
				done = true
			case "[]namedColumn":
				if src(call.Args[1]) == "0" {
					nm.cols = name
					allocSeen++
					done = true
				}
			}
			if done && allocSeen == 2 && (src(call.Args[0]) == "map[string]namedColumn" || src(call.Args[0]) == "[]namedColumn") {
				res = append(res, lh("AT.alloc"))
				allocSeen = 3
			}
		case *ast.RangeStmt:
			if s.Tok != token.DEFINE || allocSeen != 3 {
				break
			}
			switch c.kind(s.X, sc) {
			case "grp.grouped":
				k, okk := s.Key.(*ast.Ident)
				v, okv := s.Value.(*ast.Ident)
				if okk && okv && k.Name != "_" && v.Name != "_" {
					res, done = append(res, lh("AT.keyLoop", ll(c.aggBody(s.Body.List, sc, nm, v.Name, k.Name)))), true
				}
			case "aggs":
				v, okv := s.Value.(*ast.Ident)
				if k, okk := s.Key.(*ast.Ident); okk && okv && k.Name == "_" && v.Name != "_" {
					res, done = append(res, lh("AT.aggLoop", ll(c.aggBody(s.Body.List, sc.with(v.Name, "agg"), nm, "", "")))), true
				}
			}
		case *ast.ReturnStmt:
			// return QFrame{columns: newColumns, columnsByName: newByName, index: index.NewAscending(uint32(len(g.<groups>)))}
			if len(s.Results) == 1 {
				if cl, ok := unparen(s.Results[0]).(*ast.CompositeLit); ok && src(cl.Type) == "QFrame" && len(cl.Elts) == 3 {
					f := map[string]string{}
					for _, el := range cl.Elts {
						if kv, ok := el.(*ast.KeyValueExpr); ok {
							f[src(kv.Key)] = src(kv.Value)
						}
					}
					if f[c.qCols] == nm.cols && nm.cols != "" && f[c.qNames] == nm.byName && nm.byName != "" &&
						f[c.qIndex] == c.ixPkg+".NewAscending(uint32(len("+recv+"."+c.gGroups+")))" {
						res, done = append(res, lh("AT.retFrame")), true
					}
				}
			}
		}
		if !done {
			res = append(res, atop(st))
		}
	}
	return res
}

// ---------------------------------------------------------------------------------------------------------------

// groupGlueLean writes QF/Gen/GroupGlue.lean.
func groupGlueLean(repo string, root map[string]*ast.File) string {
	var b strings.Builder
	b.WriteString("/- GENERATED on every run by /verif/go/cmd/extract from /repo's source (tie T1). Do not edit. -/\nimport QF.Core.GroupGlue\nnamespace QF.Gen\nopen QF.GG\n\n")
	c := &ggctx{files: root, fns: funcDecls(root), imports: importsOf(root), gbFiles: parseDir(filepath.Join(repo, "config", "groupby"))}
	c.grouperSigs = map[string]bool{}
	c.grouperDistinct = map[string]bool{}
	dk := ls("DK.opaque", "scan failed")
	gb, qs := ls("GB.opaque", "scan failed"), ls("QS.opaque", "scan failed")
	at := []*lt{ls("AT.opaque", "scan failed")}
	var cfs []string
	if c.scan() {
		for n, fd := range funcDecls(parseDir(filepath.Join(repo, "internal", "grouper"))) {
			if fd.Recv == nil && len(ctFlatTypes(fd.Type.Params)) == 2 && strings.HasSuffix(ctFlatTypes(fd.Type.Params)[0], ".Int") && strings.HasSuffix(ctFlatTypes(fd.Type.Params)[1], ".Comparable") && len(ctFlatTypes(fd.Type.Results)) == 2 && strings.HasSuffix(ctFlatTypes(fd.Type.Results)[0], ".Int") && strings.HasPrefix(ctFlatTypes(fd.Type.Results)[0], "[]") {
				c.grouperSigs[n] = true
			}
			if fd.Recv == nil && len(ctFlatTypes(fd.Type.Params)) == 2 && strings.HasSuffix(ctFlatTypes(fd.Type.Params)[0], ".Int") && strings.HasSuffix(ctFlatTypes(fd.Type.Params)[1], ".Comparable") && len(ctFlatTypes(fd.Type.Results)) == 1 && strings.HasSuffix(ctFlatTypes(fd.Type.Results)[0], ".Int") && !strings.HasPrefix(ctFlatTypes(fd.Type.Results)[0], "[]") {
				c.grouperDistinct[n] = true
			}
		}
		// icolumn.New is `([]int) Column`
		if fd := funcDecls(parseDir(filepath.Join(repo, "internal", "icolumn")))["New"]; fd != nil && fd.Recv == nil && strings.Join(ctFlatTypes(fd.Type.Params), ",") == "[]int" {
			c.icolNewOk = true
		}
		gb, qs = ls("GB.opaque", "no method (...groupby.ConfigFunc) Grouper of QFrame"), ls("QS.opaque", "no method () ([]QFrame, error) of Grouper")
		at = []*lt{ls("AT.opaque", "no method (...Aggregation) QFrame of Grouper")}
		var names []string
		for n := range c.fns {
			names = append(names, n)
		}
		sort.Strings(names)
		nGB, nQS, nAT, nDK := 0, 0, 0, 0
		dk = ls("DK.opaque", "no method (...groupby.ConfigFunc) QFrame of QFrame")
		for _, n := range names {
			fd := c.fns[n]
			params, results := strings.Join(ctFlatTypes(fd.Type.Params), ","), strings.Join(ctFlatTypes(fd.Type.Results), ",")
			switch {
			case strings.HasPrefix(n, "QFrame.") && params == "..."+c.gbPkg+".ConfigFunc" && results == "Grouper":
				nGB++
				gb = c.gb(fd.Body.List, ggscope{recvName(fd): "recv", paramNames(fd)[0]: "cfgfns"})
			case strings.HasPrefix(n, "QFrame.") && params == "..."+c.gbPkg+".ConfigFunc" && results == "QFrame":
				nDK++
				dk = c.distinct(fd)
			case strings.HasPrefix(n, "Grouper.") && params == "" && results == "[]QFrame,error":
				nQS++
				qs = c.qs(fd.Body.List, ggscope{recvName(fd): "grp"}, nil, "")
			case strings.HasPrefix(n, "Grouper.") && params == "...Aggregation" && results == "QFrame":
				nAT++
				at = c.aggregate(fd)
			}
		}
		if nGB > 1 {
			gb = ls("GB.opaque", "more than one method (...groupby.ConfigFunc) Grouper")
		}
		if nDK > 1 {
			dk = ls("DK.opaque", "more than one method (...groupby.ConfigFunc) QFrame")
		}
		if nQS > 1 {
			qs = ls("QS.opaque", "more than one method () ([]QFrame, error)")
		}
		if nAT > 1 {
			at = []*lt{ls("AT.opaque", "more than one method (...Aggregation) QFrame")}
		}
		cfs = c.configFns()
	}
	b.WriteString("/-- the method of QFrame `(...groupby.ConfigFunc) Grouper` (`GroupBy`), helpers inlined -/\ndef groupByAst : GB := " + gb.lean() + "\n\n")
	b.WriteString("/-- the method of QFrame `(...groupby.ConfigFunc) QFrame` (`Distinct`): what it hands to `grouper.Distinct`, helpers inlined -/\ndef distinctCmpsAst : DK := " + dk.lean() + "\n\n")
	b.WriteString("/-- the functions of /repo/config/groupby that return a `ConfigFunc`, by parameter type: (signature, term) -/\ndef groupByConfigFns : List (String × CF) := [\n" + strings.Join(cfs, ",\n") + "]\n\n")
	b.WriteString("/-- the method of Grouper `() ([]QFrame, error)` (`QFrames`), `withIndex` inlined -/\ndef qframesAst : QS := " + qs.lean() + "\n\n")
	parts := make([]string, len(at))
	for i, t := range at {
		parts[i] = "  " + t.lean()
	}
	b.WriteString("/-- the method of Grouper `(...Aggregation) QFrame` (`Aggregate`) -/\ndef aggregateGlueAst : List AT := [\n" + strings.Join(parts, ",\n") + "]\n\nend QF.Gen\n")
	return b.String()
}
